(* C07 - invariants of the send-side labelling model over every interleaving of operations. *)
From Coq Require Import List NArith Bool Lia ZifyN ZifyBool.
From DtlsV Require Import Rec.C07Emit.
Import ListNotations.
Open Scope N_scope.

(* ---------- equality deciders ---------- *)

Lemma kind_eqb_eq a b : kind_eqb a b = true -> a = b.
Proof. destruct a, b; cbn; try discriminate; auto. intro H. f_equal. lia. Qed.

Lemma em_eqb_eq a b : em_eqb a b = true -> a = b.
Proof.
  destruct a as [ka ea ca], b as [kb eb cb]. unfold em_eqb. cbn [e_kind e_epoch e_enc].
  intro H. apply andb_true_iff in H. destruct H as [H Hc]. apply andb_true_iff in H. destruct H as [Hk He].
  apply kind_eqb_eq in Hk. apply eqb_prop in Hc. f_equal; auto. lia.
Qed.

(* a boolean fact checked on the whole (finite) table holds for everything [in_tables] accepts *)
Lemma in_tables_forall (P : emission -> bool) v e :
  forallb (fun f => forallb P (flight_table v f)) all_flights = true ->
  in_tables v e = true -> P e = true.
Proof.
  intros Hall Hin. unfold in_tables in Hin. apply existsb_exists in Hin. destruct Hin as (f & Hf & Hex).
  apply existsb_exists in Hex. destruct Hex as (e' & He' & Heq). apply em_eqb_eq in Heq. subst e'.
  rewrite forallb_forall in Hall. specialize (Hall f Hf). rewrite forallb_forall in Hall. now apply Hall.
Qed.

(* ---------- table facts: computation over the finite table ---------- *)

Definition all_versions : list version := [V12; V13].

(* every last flight of DTLS 1.2 raises the epoch to 1 (it carries Finished) *)
Lemma table_last12_epoch : forallb (fun f => negb (last_flight V12 f) || (max_epoch (flight_table V12 f) =? 1)) all_flights = true.
Proof. vm_compute. reflexivity. Qed.

(* no flight carries application data, alerts, ACKs or post-handshake messages *)
Lemma table_kinds : forallb (fun v => forallb (fun f => forallb (fun e =>
    match e_kind e with KHs ht => negb ((ht =? 24) || (ht =? 4)) | KCCS => negb (is13 v) | _ => false end)
    (flight_table v f)) all_flights) all_versions = true.
Proof. vm_compute. reflexivity. Qed.

(* Finished is always Epoch >= 1 and ShouldEncrypt *)
Lemma table_finished : forallb (fun v => forallb (fun f => forallb (fun e =>
    match e_kind e with KHs 20 => e_enc e && (1 <=? e_epoch e) && (negb (is13 v) || (e_epoch e =? 2)) | _ => true end)
    (flight_table v f)) all_flights) all_versions = true.
Proof. vm_compute. reflexivity. Qed.

(* DTLS 1.3: everything but ClientHello / ServerHello(HelloRetryRequest) is Epoch 2 and ShouldEncrypt *)
Lemma table_hs13 : forallb (fun f => forallb (fun e =>
    match e_kind e with
    | KHs ht => (ht =? 1) || (ht =? 2) || (e_enc e && (e_epoch e =? 2))
    | _ => false end) (flight_table V13 f)) all_flights = true.
Proof. vm_compute. reflexivity. Qed.

(* whatever is sent in clear by a flight is an epoch-0 record *)
Lemma table_clear_epoch0 : forallb (fun v => forallb (fun f => forallb (fun e =>
    e_enc e || (e_epoch e =? 0)) (flight_table v f)) all_flights) all_versions = true.
Proof. vm_compute. reflexivity. Qed.

Lemma table_allowed : forallb (fun v => forallb (fun f => forallb (fun e =>
    allowed v false e && (is13 v || allowed v true e)) (flight_table v f)) all_flights) all_versions = true.
Proof. vm_compute. reflexivity. Qed.

Lemma table_pick (P : version -> emission -> bool) :
  forallb (fun v => forallb (fun f => forallb (P v) (flight_table v f)) all_flights) all_versions = true ->
  forall v f e, In e (flight_table v f) -> P v e = true.
Proof.
  intros H v f e Hin. rewrite forallb_forall in H.
  assert (Hv : In v all_versions) by (destruct v; cbn; auto).
  specialize (H v Hv). rewrite forallb_forall in H.
  assert (Hf : In f all_flights) by (destruct f; cbn; auto 10).
  specialize (H f Hf). rewrite forallb_forall in H. now apply H.
Qed.

(* ---------- the invariant ---------- *)

Definition Inv (s : sstate) : Prop :=
  (s_est s = true -> min_app_epoch (s_ver s) <= s_epoch s) /\
  (s_act s = true -> s_ver s = V13 /\ 3 <= s_epoch s) /\
  (s_ver s = V12 -> forall f, s_cur s = Some f -> last_flight V12 f = true -> 1 <= s_epoch s).

Lemma Inv_init v : Inv (sinit v).
Proof. unfold Inv, sinit. cbn. repeat split; try discriminate. Qed.

Lemma step_ver s o : s_ver (fst (step s o)) = s_ver s.
Proof.
  destruct o; cbn [step];
    repeat match goal with |- context [if ?b then _ else _] => destruct b end; reflexivity.
Qed.

Lemma step_inv s o : Inv s -> Inv (fst (step s o)).
Proof.
  intros (H1 & H2 & H3). destruct o; cbn [step]; try solve [
    repeat match goal with |- context [if ?b then _ else _] => destruct b eqn:? end;
    cbn [fst]; unfold Inv; cbn [s_ver s_est s_closed s_epoch s_cur s_act set_epoch]; auto].
  - (* OFlight *)
    destruct (s_est s || s_act s) eqn:E; cbn [fst]; [unfold Inv; auto|].
    unfold Inv. cbn [s_ver s_est s_closed s_epoch s_cur s_act]. split; [discriminate|]. split; [discriminate|].
    intros Hv f0 Hc Hl. inversion Hc; subst f0. rewrite Hv.
    pose proof table_last12_epoch as T. rewrite forallb_forall in T.
    assert (Hf : In f all_flights) by (destruct f; cbn; auto 10).
    specialize (T f Hf). rewrite Hl in T. cbn [negb orb] in T.
    assert (max_epoch (flight_table V12 f) = 1) by lia. rewrite H. cbn. lia.
  - (* OActivate *)
    destruct (is13 (s_ver s) && negb (s_est s) && match s_cur s with Some f => last_flight V13 f | None => false end) eqn:E;
      cbn [fst]; [|unfold Inv; auto].
    unfold Inv. cbn [s_ver s_est s_closed s_epoch s_cur s_act]. split; [discriminate|]. split.
    + intros _. split; [|lia]. destruct (s_ver s); [discriminate E|reflexivity].
    + intros Hv. rewrite Hv in E. discriminate E.
  - (* OFinish *)
    destruct (negb (s_est s) && (if is13 (s_ver s) then s_act s
               else match s_cur s with Some f => last_flight V12 f | None => false end)) eqn:E;
      cbn [fst]; [|unfold Inv; auto].
    unfold Inv. cbn [s_ver s_est s_closed s_epoch s_cur s_act]. split; [|split; auto].
    intros _. apply andb_true_iff in E. destruct E as [_ E]. unfold min_app_epoch.
    destruct (s_ver s) eqn:Ev; cbn [is13] in *.
    + destruct (s_cur s) as [f|] eqn:Ec; [|discriminate]. apply (H3 eq_refl f eq_refl E).
    + destruct (H2 E) as [_ H]. exact H.
  - (* OKeyUpdateAck *)
    destruct (is13 (s_ver s) && s_est s) eqn:E; cbn [fst]; [|unfold Inv; auto].
    unfold Inv, set_epoch. cbn [s_ver s_est s_closed s_epoch s_cur s_act].
    split; [intro He; specialize (H1 He); lia|]. split.
    + intro Ha. destruct (H2 Ha). split; [assumption|lia].
    + intros Hv. rewrite Hv in E. discriminate E.
  - (* OResume *)
    destruct (is13 (s_ver s) || (e =? 0)) eqn:E; cbn [fst]; [unfold Inv; auto|].
    apply orb_false_iff in E. destruct E as [Ev E0].
    unfold Inv. cbn [s_ver s_est s_closed s_epoch s_cur s_act]. split; [|split].
    + intros _. unfold min_app_epoch. rewrite Ev. lia.
    + intro Ha. destruct (H2 Ha) as [Hv _]. rewrite Hv in Ev. discriminate Ev.
    + intros _ f Hc Hl. lia.
Qed.

(* every emission of a step is a label the checker accepts, with the establishment flag of that moment *)
Lemma step_allowed s o e : Inv s -> In e (snd (step s o)) -> allowed (s_ver s) (s_est s) e = true.
Proof.
  intros (H1 & H2 & H3) Hin. destruct o; cbn [step] in Hin.
  - (* OWrite *)
    destruct (s_est s) eqn:Ee; cbn [andb] in Hin; [|destruct Hin].
    destruct (negb (s_closed s)); cbn [snd] in Hin; [|destruct Hin]. destruct Hin as [<- | []].
    cbn [allowed e_kind e_enc e_epoch andb]. specialize (H1 eq_refl). lia.
  - (* OFlight *)
    destruct (s_est s || s_act s) eqn:E; cbn [snd] in Hin; [destruct Hin|].
    apply orb_false_iff in E. destruct E as [Ee _]. rewrite Ee.
    pose proof (table_pick _ table_allowed (s_ver s) f e Hin) as T. apply andb_true_iff in T. tauto.
  - (* ORetransmit *)
    destruct (s_closed s || (is13 (s_ver s) && s_est s)) eqn:E; cbn [snd] in Hin; [destruct Hin|].
    unfold flight_of in Hin. destruct (s_cur s) as [f|]; [|destruct Hin].
    pose proof (table_pick _ table_allowed (s_ver s) f e Hin) as T. apply andb_true_iff in T. destruct T as [T1 T2].
    apply orb_false_iff in E. destruct E as [_ E].
    destruct (s_est s); [|exact T1]. destruct (is13 (s_ver s)); [discriminate E|exact T2].
  - destruct (is13 (s_ver s) && negb (s_est s) && match s_cur s with Some f => last_flight V13 f | None => false end);
      cbn [snd] in Hin; destruct Hin.
  - destruct (negb (s_est s) && (if is13 (s_ver s) then s_act s
               else match s_cur s with Some f => last_flight V12 f | None => false end)); cbn [snd] in Hin; destruct Hin.
  - (* OAlert *)
    destruct (s_closed s); cbn [snd] in Hin; [destruct Hin|]. destruct Hin as [<- | []].
    cbn [allowed e_kind e_enc e_epoch]. rewrite eqb_reflx. cbn [andb].
    destruct (s_est s) eqn:Ee; cbn [negb orb]; [|reflexivity]. specialize (H1 eq_refl). lia.
  - (* OClose *)
    destruct (s_closed s); cbn [snd] in Hin; [destruct Hin|].
    destruct (s_est s) eqn:Ee; [|destruct Hin]. destruct Hin as [<- | []].
    cbn [allowed e_kind e_enc e_epoch eqb andb negb orb]. specialize (H1 eq_refl). lia.
  - (* OKeyUpdate *)
    destruct (is13 (s_ver s)) eqn:Ev; cbn [andb] in Hin; [|destruct Hin].
    destruct (s_est s) eqn:Ee; cbn [andb] in Hin; [|destruct Hin].
    destruct (negb (s_closed s)); cbn [snd] in Hin; [|destruct Hin]. destruct Hin as [<- | []].
    cbn [allowed e_kind e_enc e_epoch]. rewrite Ev. cbn. specialize (H1 eq_refl). unfold min_app_epoch in H1.
    rewrite Ev in H1. lia.
  - destruct (is13 (s_ver s) && s_est s); cbn [snd] in Hin; destruct Hin.
  - (* OTicket *)
    destruct (is13 (s_ver s)) eqn:Ev; cbn [andb] in Hin; [|destruct Hin].
    destruct (s_est s) eqn:Ee; cbn [andb] in Hin; [|destruct Hin].
    destruct (negb (s_closed s)); cbn [snd] in Hin; [|destruct Hin]. destruct Hin as [<- | []].
    cbn [allowed e_kind e_enc e_epoch]. rewrite Ev. cbn. specialize (H1 eq_refl). unfold min_app_epoch in H1.
    rewrite Ev in H1. lia.
  - (* OAck *)
    destruct (is13 (s_ver s)) eqn:Ev; cbn [andb] in Hin; [|destruct Hin].
    destruct (negb (s_closed s)); cbn [snd] in Hin; [|destruct Hin]. destruct Hin as [<- | []].
    cbn [allowed e_kind e_enc e_epoch]. rewrite Ev. cbn [andb].
    destruct (s_est s) eqn:Ee; cbn [negb orb]; [|reflexivity]. specialize (H1 eq_refl). unfold min_app_epoch in H1.
    rewrite Ev in H1. lia.
  - (* ORrc *)
    destruct (s_est s) eqn:Ee; cbn [andb] in Hin; [|destruct Hin].
    destruct (negb (s_closed s)); cbn [snd] in Hin; [|destruct Hin]. destruct Hin as [<- | []].
    cbn [allowed e_kind e_enc e_epoch andb]. specialize (H1 eq_refl). lia.
  - (* OResume *)
    destruct (is13 (s_ver s) || (e0 =? 0)); cbn [snd] in Hin; destruct Hin.
Qed.

(* over every operation list: every emission carries a label the checker accepts *)
Theorem run_allowed : forall ops s b e, Inv s -> In (b, e) (run s ops) -> allowed (s_ver s) b e = true.
Proof.
  induction ops as [|o ops IH]; intros s b e HI Hin; [destruct Hin|].
  cbn [run] in Hin. pose proof (step_allowed s o) as Hs. pose proof (step_inv s o HI) as HI'.
  pose proof (step_ver s o) as Hv.
  destruct (step s o) as [s' es]. cbn [fst snd] in *. apply in_app_iff in Hin. destruct Hin as [Hin | Hin].
  - apply in_map_iff in Hin. destruct Hin as (e' & Heq & He'). inversion Heq; subst. now apply Hs.
  - rewrite <- Hv. now apply IH.
Qed.

(* ---------- the C07 statements, for every version and every interleaving ---------- *)

Theorem appdata_always_protected v ops b e :
  In (b, e) (run (sinit v) ops) -> e_kind e = KApp ->
  b = true /\ e_enc e = true /\ 1 <= e_epoch e /\ (v = V13 -> 3 <= e_epoch e).
Proof.
  intros Hin Hk. pose proof (run_allowed ops (sinit v) b e (Inv_init v) Hin) as H. cbn [sinit s_ver] in H.
  unfold allowed in H. rewrite Hk in H. unfold min_app_epoch in H. destruct v; cbn [is13] in H; repeat split; try lia.
  all: try (intro; discriminate). all: destruct b; cbn in H; try discriminate; auto; lia.
Qed.

(* ---------- the resumed start state ---------- *)

Lemma Inv_resumed e : e <> 0 -> Inv (resumed_start e).
Proof.
  intro He. unfold Inv, resumed_start. cbn. repeat split; try discriminate.
  intros _. unfold min_app_epoch. cbn. lia.
Qed.

(* under the guard of Resume (local epoch <> 0) the connection made from an accepted State, whatever is done with
   it, never emits application data in epoch 0 or unprotected *)
Theorem resumed_appdata_protected e ops b em :
  e <> 0 -> In (b, em) (run (resumed_start e) ops) -> e_kind em = KApp ->
  e_enc em = true /\ 1 <= e_epoch em.
Proof.
  intros He Hin Hk. pose proof (run_allowed ops (resumed_start e) b em (Inv_resumed e He) Hin) as H.
  cbn [resumed_start s_ver] in H. unfold allowed in H. rewrite Hk in H. unfold min_app_epoch in H. cbn [is13] in H.
  destruct b; cbn in H; try discriminate. split; [|lia]. destruct (e_enc em); [reflexivity|]. cbn in H. lia.
Qed.

(* ... and the guard is needed: the connection made from a State of local epoch 0 writes its first payload in an
   epoch-0 record (the null cipher: in clear) *)
Theorem resumed_guard_needed :
  run (resumed_start 0) [OWrite] = [(true, mkE KApp 0 true)].
Proof. vm_compute. reflexivity. Qed.

Theorem finished_always_protected v ops b e :
  In (b, e) (run (sinit v) ops) -> e_kind e = KHs 20 ->
  e_enc e = true /\ 1 <= e_epoch e /\ (v = V13 -> e_epoch e = 2).
Proof.
  intros Hin Hk. pose proof (run_allowed ops (sinit v) b e (Inv_init v) Hin) as H. cbn [sinit s_ver] in H.
  unfold allowed in H. rewrite Hk in H.
  assert (Hin_t : in_tables v e = true).
  { change ((20 =? 24) || (20 =? 4)) with false in H. rewrite andb_false_r in H.
    apply andb_true_iff in H. tauto. }
  pose proof table_finished as T. rewrite forallb_forall in T.
  assert (Hv : In v all_versions) by (destruct v; cbn; auto). specialize (T v Hv).
  pose proof (in_tables_forall _ v e T Hin_t) as P. cbn beta in P. rewrite Hk in P.
  repeat split; try lia. intros ->. cbn [is13 negb orb] in P. lia.
Qed.

Theorem hs13_after_serverhello_protected ops b e ht :
  In (b, e) (run (sinit V13) ops) -> e_kind e = KHs ht -> ht <> 1 -> ht <> 2 ->
  e_enc e = true /\ 2 <= e_epoch e.
Proof.
  intros Hin Hk H1 H2. pose proof (run_allowed ops (sinit V13) b e (Inv_init V13) Hin) as H. cbn [sinit s_ver] in H.
  unfold allowed in H. rewrite Hk in H. cbn [is13 andb] in H.
  destruct ((ht =? 24) || (ht =? 4)) eqn:E.
  - split; lia.
  - apply andb_true_iff in H. destruct H as [_ Hin_t].
    pose proof (in_tables_forall _ V13 e table_hs13 Hin_t) as P. cbn beta in P. rewrite Hk in P. split; lia.
Qed.

(* DTLS 1.3, once established: whatever the endpoint sends (application data, KeyUpdate, NewSessionTicket,
   ACKs, alerts, close_notify) is protected under an application epoch *)
Theorem post_handshake_protected ops e :
  In (true, e) (run (sinit V13) ops) -> e_enc e = true /\ 3 <= e_epoch e.
Proof.
  intros Hin. pose proof (run_allowed ops (sinit V13) true e (Inv_init V13) Hin) as H. cbn [sinit s_ver] in H.
  unfold allowed, min_app_epoch in H. cbn [is13 andb negb orb] in H.
  destruct (e_kind e) as [ | ht | | | | ]; try (split; lia).
  destruct ((ht =? 24) || (ht =? 4)); [split; lia|discriminate H].
Qed.

(* whatever leaves unprotected is an epoch-0 handshake/CCS record of a flight or an alert before establishment *)
Theorem unprotected_is_public v ops b e :
  In (b, e) (run (sinit v) ops) -> e_enc e = false ->
  (e_kind e = KAlert /\ b = false) \/
  (e_epoch e = 0 /\ (e_kind e = KCCS \/ exists ht, e_kind e = KHs ht /\ ht <> 20 /\ (v = V13 -> ht = 1 \/ ht = 2))).
Proof.
  intros Hin He. pose proof (run_allowed ops (sinit v) b e (Inv_init v) Hin) as H. cbn [sinit s_ver] in H.
  unfold allowed in H. destruct (e_kind e) as [ | ht | | | | ] eqn:Hk; rewrite ?He in H.
  - rewrite andb_false_r in H. discriminate.
  - right.
    assert (Hin_t : in_tables v e = true).
    { destruct (is13 v && ((ht =? 24) || (ht =? 4))); [rewrite andb_false_r in H; discriminate|].
      apply andb_true_iff in H. tauto. }
    assert (H0 : e_epoch e = 0).
    { pose proof table_clear_epoch0 as T. rewrite forallb_forall in T.
      assert (Hv : In v all_versions) by (destruct v; cbn; auto).
      pose proof (in_tables_forall (fun e => e_enc e || (e_epoch e =? 0)) v e (T v Hv) Hin_t) as P. cbn beta in P. rewrite He in P. lia. }
    split; [exact H0|]. right. exists ht. split; [reflexivity|].
    pose proof table_finished as T. rewrite forallb_forall in T.
    assert (Hv : In v all_versions) by (destruct v; cbn; auto).
    pose proof (in_tables_forall _ v e (T v Hv) Hin_t) as P. cbn beta in P. rewrite Hk in P.
    split.
    + intros ->. rewrite He in P. discriminate P.
    + intros ->. pose proof (in_tables_forall _ V13 e table_hs13 Hin_t) as Q. cbn beta in Q. rewrite Hk, He in Q. lia.
  - left. split; [reflexivity|]. apply andb_true_iff in H. destruct H as [H _]. apply eqb_prop in H.
    destruct b; [discriminate H|reflexivity].
  - right.
    assert (Hin_t : in_tables v e = true) by (apply andb_true_iff in H; tauto).
    pose proof table_clear_epoch0 as T. rewrite forallb_forall in T.
    assert (Hv : In v all_versions) by (destruct v; cbn; auto).
    pose proof (in_tables_forall (fun e => e_enc e || (e_epoch e =? 0)) v e (T v Hv) Hin_t) as P.
    cbn beta in P. rewrite He in P. split; [lia|]. now left.
  - rewrite andb_false_r in H. discriminate.
  - rewrite andb_false_r in H. discriminate.
Qed.
