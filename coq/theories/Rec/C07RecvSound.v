(* C07 - receive side, restated from Rec/RecvSound.v. *)
From DtlsV Require Import Lib.Bytes Rec.Window Rec.Recv Rec.RecvSound.
Open Scope N_scope.

(* ---------- receive side (from Rec/RecvSound.v): application data arriving in an unprotected record is
   never delivered - every delivery comes from an authentic record of a non-zero epoch ---------- *)
Theorem epoch0_appdata_not_delivered (W : nat) (lease : bool) (s : rstate) (w : wire) (p : bytes) (e q : N) :
  In (p, e, q) (deliveries (snd (recv W lease s w))) ->
  w_epoch w <> 0 /\ w_auth w = Some (CApp p) /\ r_init s = true.
Proof.
  intro H. destruct (deliver_only_authentic W lease s w p e q H) as (_ & _ & H1 & H2 & H3 & _). auto.
Qed.
