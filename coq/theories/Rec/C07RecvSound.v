(* C07 - receive side, restated from Rec/RecvSound.v. *)
From DtlsV Require Import Lib.Bytes Rec.Window Rec.Recv Rec.RecvSound.
Open Scope N_scope.

(* ---------- receive side (from Rec/RecvSound.v): application data arriving in an unprotected record is
   never delivered - every delivery comes from an authentic record of a non-zero epoch ---------- *)
Theorem epoch0_appdata_not_delivered (W : nat) (lease : bool) (s : rstate) (w : wire) (p : bytes) (e q : N) :
  In (p, e, q) (deliveries (snd (recv W lease s w))) ->
  w_epoch w <> 0 /\ w_auth w = Some (CApp p) /\ r_init s = true.
Proof.
  intro H. destruct (deliver_only_authentic W lease s w p e q H) as (_ & _ & H1 & H2 & H3 & _). auto.
Qed.

(* ... and it is refused silently: no alert, no error, no replay commit, in every state (8aa2dc9; before, a
   fatal unexpected_message alert and an error - one unauthenticated datagram ended a handshake in progress or
   made an established endpoint close its peer) *)
Theorem epoch0_appdata_silent (W : nat) (lease : bool) (s : rstate) (w : wire) (p : bytes) :
  w_epoch w = 0 -> w_clear w = CApp p -> recv W lease s w = (s, []).
Proof.
  intros He Hb. unfold recv, dispatch. rewrite He, Hb. cbn [N.eqb].
  destruct (r_closed s); [reflexivity|].
  destruct (r_epoch s <? 0) eqn:E; [lia|].
  destruct (negb (check maxseq48 (get_win W 0 (r_wins s)) (w_seq w))); reflexivity.
Qed.
