(* Harness-facing evaluation of the C07 send-side labelling model: every record observed on the wire
   (decrypted in-package) is a label (version, content type, handshake type, epoch, protected?); c07_ok says
   whether the model can emit that label at all (established or not: the wire does not tell). *)
From Coq Require Import List NArith Bool.
From DtlsV Require Import Rec.WindowRun Rec.C07Emit.
Import ListNotations.
Open Scope N_scope.

(* (DTLS 1.3?, content type, handshake type, epoch, protected?) *)
Definition c07_case := (bool * N * N * N * bool)%type.

Definition kind_of (ct ht : N) : option kind :=
  if ct =? 23 then Some KApp else if ct =? 22 then Some (KHs ht) else if ct =? 21 then Some KAlert
  else if ct =? 20 then Some KCCS else if ct =? 26 then Some KAck else if ct =? 27 then Some KRrc else None.

Definition c07_ok (c : c07_case) : bool :=
  let '(v13, ct, ht, ep, enc) := c in
  let v := if v13 then V13 else V12 in
  match kind_of ct ht with
  | None => false
  | Some k => let e := mkE k ep enc in allowed v true e || allowed v false e
  end.
