(* C08 - the KNOWN gaps of handshake reassembly under unauthenticated input, as witnesses on the
   fragment-buffer model of C12 (Frag/Buffer.v = internal/fragmentbuffer/fragment_buffer.go +
   conn.go bufferHandshakeRecord).  Reassembly is keyed by message_seq only and the first fragment that
   arrives fixes the message's length and epoch; nothing of this is authenticated at epoch 0. *)
From DtlsV Require Import Lib.Bytes Frag.Split Frag.Buffer Frag.BufferSound.
Open Scope N_scope.

(* F102, the slot of a message the peer sends PROTECTED: an unprotected (epoch 0) record carrying the type and
   message_seq of that message arrives first.  It is popped - with epoch 0 and the forger's body - and the genuine
   protected message that follows is only a "retransmission": it is never surfaced.  (The flight parser wants the
   protected epoch, finds epoch 0, and the handshake is wedged or aborted.) *)
Definition slot_forged : record := RHs 0 [mkFrag 8 2 0 0 [0; 0]] 0.
Definition slot_genuine : record := RHs 2 [mkFrag 8 2 0 0 [7; 7]] 0.

Theorem slot_theft_refuted :
  map (fun p => (p_epoch p, p_body p)) (snd (fst (run init [slot_forged; slot_genuine]))) = [(0, [0; 0])] /\
  map (fun p => (p_epoch p, p_body p)) (snd (fst (run init [slot_genuine]))) = [(2, [7; 7])].
Proof. vm_compute. split; reflexivity. Qed.

(* F103, the pinned length: ONE forged one-byte first fragment {next message_seq, offset 0, declared length 5000}
   fixes handshakeLength; the genuine message (same offset, its own length) is then never reassembled *)
Definition pin_forged : record := RHs 0 [mkFrag 2 5000 0 0 [1]] 0.
Definition pin_genuine : record := RHs 0 [mkFrag 2 4 0 0 [1; 2; 3; 4]] 0.

Theorem pinned_length_refuted :
  snd (fst (run init [pin_forged; pin_genuine; pin_genuine])) = [] /\
  map p_body (snd (fst (run init [pin_genuine]))) = [[1; 2; 3; 4]].
Proof. vm_compute. split; reflexivity. Qed.
