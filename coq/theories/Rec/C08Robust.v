(* C08 - robustness of the receive path: the datagram layer above Rec/Recv.v and the gate that
   conn.go bufferHandshakeRecord puts in front of every prepared record.  Definitions only.

   conn.go readAndProcessDatagram:   unpackDatagram(buf) -> for each record: processIncomingPacket;
                                     the first error ends the datagram and goes to classifyReadLoopError
   conn.go classifyReadLoopError:    errors of processIncomingPacket (not of unpackDatagram, see recv_dgram):
                                     a non-alert error -> before establishment: stop, the handshake
                                     fails; after establishment: the error is handed to Read, loop continues
   conn.go handleIncomingPacket:     prepareIncomingPacket (header, future epoch, replay check, decrypt)
                                     -> bufferHandshakeRecord: FragmentBuffer.Push(record) FIRST, for every
                                        content type; Push passes non-handshake records on and refuses
                                        handshake records once the buffer is at its limit => record dropped
                                     -> RecordLayer.Unmarshal: on error a record of epoch 0 or of type
                                        change_cipher_spec is discarded (82cb644), any other protected one is
                                        answered with a fatal decode_error alert + error (Recv.dispatch CBad)
                                     -> handleRecordContent  (= Recv.dispatch) *)
From DtlsV Require Import Lib.Bytes Rec.Window Rec.Recv.
Open Scope N_scope.

(* ---------- the fragment-buffer gate ---------- *)

(* [full]: the reassembly buffer is at its size or count limit.  FragmentBuffer.Push (as repaired in 826a95e)
   parses the record header first and returns (false, false, nil) for every record that is not of content
   type handshake; only then does it apply the limits.  So behind a full buffer a HANDSHAKE record is
   refused (bufferHandshakeRecord: "defragment failed", record dropped) and every other record goes on to
   RecordLayer.Unmarshal / handleRecordContent as usual. *)
Definition is_hs (c : content) : bool := match c with CHs _ _ => true | _ => false end.

Definition gated (full : bool) (s : rstate) (c : content) (x : rstate * list out) : rstate * list out :=
  if full && is_hs c then (s, []) else x.

Definition recv_fb (W : nat) (lease full : bool) (s : rstate) (w : wire) : rstate * list out :=
  if r_closed s then (s, []) else
  if r_epoch s <? w_epoch w then
    (if r_epoch s + 1 <? w_epoch w then s else enqueue lease s w, [])
  else
  if negb (check maxseq48 (get_win W (w_epoch w) (r_wins s)) (w_seq w)) then (s, [])
  else if w_epoch w =? 0 then gated full s (w_clear w) (dispatch W lease s w (w_clear w))
  else
  if negb (r_init s) then (enqueue lease s w, [])
  else if negb (len (r_cid s) =? 0) && negb (w_ctype w =? ct_cid) then (s, [])
  (* ae10e63: a change_cipher_spec-typed record claiming a protected epoch is never authenticated (every
     suite's Decrypt returns it unchanged): discarded, whatever its body *)
  else if w_ctype w =? ct_ccs then (s, [])
  else match w_auth w with
       | None => (s, [])
       | Some c =>
           if negb (bytes_eqb (r_cid s) (if w_ctype w =? ct_cid then w_cid w else [])) then (s, [])
           else gated full s c (dispatch W lease s w c)
       end.

(* ---------- the datagram layer ---------- *)

Inductive drec :=
| RBadHeader              (* the record header does not decode: "discarded broken packet" *)
| RWire (w : wire).

Inductive dgram :=
| DEmpty                  (* zero-length datagram: no records *)
| DLenErr                 (* unpackDatagram fails with ErrInvalidPacketLength *)
| DOtherErr               (* unpackDatagram fails with another error: first byte is no DTLS 1.3 record type,
                             unified header cut short, connection-id bit without a connection id ... *)
| DOversized              (* a datagram longer than the buffer the connection reads with (conn.go inboundBufferSize; the
                             listener receives into a buffer of the same size, internal/net/udp receiveMTU) whose part
                             that fits does not split into records: it is TAKEN from the transport - consumed, not left
                             at the head of the per-connection queue - and then dropped like any other framing error *)
| DRecs (rs : list drec). (* the datagram splits into records *)

(* a datagram that cannot be parsed as DTLS records *)
Definition undecodable (d : dgram) : Prop :=
  match d with
  | DEmpty | DLenErr | DOtherErr | DOversized => True
  | DRecs rs => Forall (fun r => r = RBadHeader) rs
  end.

(* ---------- the read loop's treatment of a received alert (conn.go classifyReadLoopError) ---------- *)

(* the content a record is dispatched with, when it gets that far *)
Definition disp_content (w : wire) : content :=
  if w_epoch w =? 0 then w_clear w
  else if w_ctype w =? ct_ccs then CBad
  else match w_auth w with Some c => c | None => CBad end.

(* a non-fatal alert: warning level, description other than close_notify *)
Definition is_warning (c : content) : bool :=
  match c with
  | CAlert level desc => negb ((level =? alert_fatal) || (desc =? desc_close_notify))
  | _ => false
  end.

(* [est]: the handshake has completed.
   conn.go handleRecordContent (d95e20d): once established an UNPROTECTED (epoch 0) alert - fatal, close_notify
   or warning - is discarded: no mark, no reply, no close, no Read error (Recv.unprotected_alert / Recv.recv_est);
   handleChangeCipherSpecRecord (ae10e63): so is an unprotected change_cipher_spec (Recv.unprotected_ccs).
   conn.go classifyReadLoopError: a fatal alert or close_notify closes; a NON-fatal alert is handed to Read
   once established (only a protected one gets that far) and IGNORED while the handshake is running
   (readLoopContinue) - nobody reads c.decrypted (capacity 1) before establishment.  Rec/Recv.v's [recv] is the
   behaviour while the handshake runs, except that its OErr for a warning alert is the established one. *)
Definition recv_conn (W : nat) (lease full est : bool) (s : rstate) (w : wire) : rstate * list out :=
  if est && (unprotected_alert w || unprotected_ccs w) then (s, []) else
  let '(s', os) := recv_fb W lease full s w in
  if negb est && is_warning (disp_content w) then (s', filter (fun o => negb (is_err o)) os) else (s', os).

(* [neg]: the endpoint is still in the dual-stack version negotiation loop (negotiateVersionServer /
   negotiateVersionClient -> readAndBufferNoFSM).  Since abcaac6 that loop consults classifyReadLoopError as
   well: what the regular read loop ignores before establishment (non-fatal alerts) is ignored there too;
   every other error still ends the handshake.  The endpoint is by definition not established. *)
Definition recv_conn_neg (W : nat) (lease full neg est : bool) (s : rstate) (w : wire) : rstate * list out :=
  recv_conn W lease full (if neg then false else est) s w.

(* conn.go legacyReplayMarker / bufferHandshakeRecord / handleRecordContent (5206069): an UNPROTECTED record is
   checked against the epoch-0 replay window but its number is never committed - anybody can choose that
   number.  Rec/Recv.v models exactly that ([mark] is the identity at epoch 0, [omark] outputs nothing), so
   the record step of the connection is [recv_conn] itself. *)
Definition recv_rec (W : nat) (full est : bool) (s : rstate) (r : drec) : rstate * list out :=
  match r with
  | RBadHeader => (s, [])
  | RWire w => recv_conn W true full est s w
  end.

(* readAndProcessDatagram: records in order, the first error ends the datagram *)
Fixpoint recv_recs (W : nat) (full est : bool) (s : rstate) (rs : list drec) : rstate * list out :=
  match rs with
  | [] => (s, [])
  | r :: rs' =>
      let '(s1, o1) := recv_rec W full est s r in
      if existsb is_err o1 then (s1, o1) else
      let '(s2, o2) := recv_recs W full est s1 rs' in (s2, o1 ++ o2)
  end.

(* conn.go readAndProcessDatagram (as repaired in 5a7ed2c): ANY error of unpackDatagram is logged and the
   datagram discarded - before and after establishment and in the dual-stack version negotiation loop *)
Definition recv_dgram (W : nat) (full est : bool) (s : rstate) (d : dgram) : rstate * list out :=
  if r_closed s then (s, []) else
  match d with
  | DEmpty | DLenErr | DOtherErr | DOversized => (s, [])
  | DRecs rs => recv_recs W full est s rs
  end.

(* the transport step (listener -> per-connection packet queue -> Conn.readAndProcessDatagram), drop-and-continue:
   the connection reads the head of its queue; a datagram that it cannot take as DTLS records - the oversized one
   included - is CONSUMED (the queue advances) and the connection state is unchanged.  [pump] is the read loop run
   over a queue of datagrams. *)
Fixpoint pump (W : nat) (full est : bool) (s : rstate) (q : list dgram) : rstate * list out :=
  match q with
  | [] => (s, [])
  | d :: q' =>
      let '(s1, o1) := recv_dgram W full est s d in
      let '(s2, o2) := pump W full est s1 q' in (s2, o1 ++ o2)
  end.

(* ---------- forged input, and histories with forged input removed ---------- *)

(* claims protection (non-zero epoch) and does not authenticate - ANY content type, change_cipher_spec
   included since ae10e63 *)
Definition forgedb (w : wire) : bool :=
  negb (w_epoch w =? 0) && match w_auth w with None => true | Some _ => false end.

Definition genuine_op (o : op) : bool :=
  match o with Arrive w => negb (forgedb w) | _ => true end.

(* the same history with every forged arrival removed *)
Definition strip (ops : list op) : list op := filter genuine_op ops.

(* in the run WITH the garbage, a queue slot is free whenever a record arrives *)
Fixpoint queue_room (W : nat) (t : rstate) (ops : list op) : Prop :=
  match ops with
  | [] => True
  | o :: ops' =>
      (match o with Arrive _ => (length (r_queue t) < max_queue)%nat | _ => True end) /\
      queue_room W (fst (step W t o)) ops'
  end.

(* two states that differ only by forged records sitting in the queue *)
Definition sim (s t : rstate) : Prop :=
  r_epoch t = r_epoch s /\ r_wins t = r_wins s /\ r_init t = r_init s /\
  r_cid t = r_cid s /\ r_rrc t = r_rrc s /\ r_closed t = r_closed s /\
  r_queue s = filter (fun w => negb (forgedb w)) (r_queue t).
