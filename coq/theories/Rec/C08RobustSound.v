(* C08 - proofs about the datagram layer and the receive path under hostile input. *)
From DtlsV Require Import Lib.Bytes Rec.Window Rec.WindowSound Rec.Recv Rec.RecvSound Rec.C08Robust.
From Coq Require Import ZifyN ZifyNat ZifyBool.
Open Scope N_scope.

(* ---------- the gate ---------- *)

(* recv_fb with room in the buffer IS Rec/Recv.v's receive path *)
Lemma recv_fb_open W lease s w : recv_fb W lease false s w = recv W lease s w.
Proof. reflexivity. Qed.

(* the content a record is dispatched with, when it gets that far: is it a handshake record? *)
Definition hs_content (w : wire) : bool :=
  if w_epoch w =? 0 then is_hs (w_clear w)
  else if w_ctype w =? ct_ccs then false
  else match w_auth w with Some c => is_hs c | None => false end.

Lemma is_hs_ccs_view c : is_hs (ccs_view c) = false.
Proof. destruct c; reflexivity. Qed.

(* a full reassembly buffer is invisible to every record that is not a handshake record: application data,
   alerts, change_cipher_spec, ACKs, RRC and undecodable content are processed exactly as with room *)
Theorem full_buffer_passes_non_handshake W lease s w :
  hs_content w = false -> recv_fb W lease true s w = recv W lease s w.
Proof.
  unfold hs_content, recv_fb, recv, gated. intro H. cbn [andb].
  destruct (r_closed s); [reflexivity|].
  destruct (r_epoch s <? w_epoch w); [reflexivity|].
  destruct (negb (check maxseq48 (get_win W (w_epoch w) (r_wins s)) (w_seq w))); [reflexivity|].
  destruct (w_epoch w =? 0); [now rewrite H|].
  destruct (negb (r_init s)); [reflexivity|].
  destruct (negb (len (r_cid s) =? 0) && negb (w_ctype w =? ct_cid)); [reflexivity|].
  destruct (w_ctype w =? ct_ccs); [reflexivity|].
  destruct (w_auth w) as [c|]; [|reflexivity]. now rewrite H.
Qed.

(* ... and a handshake record is refused: no output (no handshake progress, no replay commit) *)
Theorem full_buffer_refuses_handshake W lease s w :
  hs_content w = true -> snd (recv_fb W lease true s w) = [].
Proof.
  unfold hs_content, recv_fb, gated. intro H.
  destruct (r_closed s); [reflexivity|].
  destruct (r_epoch s <? w_epoch w); [destruct (r_epoch s + 1 <? w_epoch w); reflexivity|].
  destruct (negb (check maxseq48 (get_win W (w_epoch w) (r_wins s)) (w_seq w))); [reflexivity|].
  destruct (w_epoch w =? 0); [now rewrite H|].
  destruct (negb (r_init s)); [reflexivity|].
  destruct (negb (len (r_cid s) =? 0) && negb (w_ctype w =? ct_cid)); [reflexivity|].
  destruct (w_ctype w =? ct_ccs); [discriminate H|].
  destruct (w_auth w) as [c|]; [|reflexivity].
  destruct (negb (bytes_eqb (r_cid s) (if w_ctype w =? ct_cid then w_cid w else []))); [reflexivity|].
  now rewrite H.
Qed.

(* positive: with the buffer full, an authentic application record for an established, open connection is
   delivered exactly when the replay detector of its epoch accepts its number - as with room *)
Theorem appdata_delivered_with_full_buffer W lease s w p :
  r_closed s = false -> r_init s = true -> w_epoch w <> 0 -> w_epoch w <= r_epoch s ->
  w_ctype w <> ct_ccs -> w_auth w = Some (CApp p) ->
  (len (r_cid s) = 0 \/ w_ctype w = ct_cid) ->
  bytes_eqb (r_cid s) (if w_ctype w =? ct_cid then w_cid w else []) = true ->
  deliveries (snd (recv_fb W lease true s w)) =
    if check maxseq48 (get_win W (w_epoch w) (r_wins s)) (w_seq w) then [(p, w_epoch w, w_seq w)] else [].
Proof.
  intros Hc Hi He Hle Hct Ha Hp Hcid.
  assert (E : (w_epoch w =? 0) = false) by lia.
  rewrite full_buffer_passes_non_handshake.
  - now apply authentic_delivered_iff_window.
  - unfold hs_content. destruct (w_epoch w =? 0) eqn:E0; [lia|].
    destruct (w_ctype w =? ct_ccs); [reflexivity|]. now rewrite Ha.
Qed.

Definition wedge_state : rstate :=
  {| r_epoch := 1; r_wins := []; r_init := true; r_queue := []; r_cid := []; r_rrc := false; r_closed := false |}.
Definition wedge_record : wire :=
  {| w_ctype := 23; w_epoch := 1; w_seq := 7; w_cid := []; w_auth := Some (CApp [42]); w_clear := CBad |}.
Definition wedge_finished : wire :=
  {| w_ctype := 22; w_epoch := 1; w_seq := 0; w_cid := []; w_auth := Some (CHs true false); w_clear := CBad |}.

(* regression witness of the repaired wedge: the application record is delivered behind a full buffer *)
Theorem full_buffer_appdata_regression :
  deliveries (snd (recv_fb 64 true true wedge_state wedge_record)) = [([42], 1, 7)].
Proof. vm_compute. reflexivity. Qed.

(* what remains: "an authentic handshake record of the expected flight makes the handshake progress" is
   false behind a full buffer - the peer's Finished is refused, unchanged state, nothing committed *)
Theorem full_buffer_handshake_wedge_refuted :
  snd (recv_fb 64 true false wedge_state wedge_finished) = [OMark 1 0; OHs false] /\
  snd (recv_fb 64 true true wedge_state wedge_finished) = [] /\
  fst (recv_fb 64 true true wedge_state wedge_finished) = wedge_state.
Proof. vm_compute. repeat split; reflexivity. Qed.

(* ---------- datagrams that cannot be parsed as DTLS records ---------- *)

Lemma recv_recs_bad W full est s rs : Forall (fun r => r = RBadHeader) rs -> recv_recs W full est s rs = (s, []).
Proof.
  induction 1 as [|r rs Hr _ IH]; [reflexivity|]. subst r. cbn [recv_recs recv_rec existsb].
  now rewrite IH.
Qed.

(* every datagram that cannot be parsed as DTLS records - empty, any framing / record-type / unified-header
   error of unpackDatagram, records whose header does not decode - is dropped without any effect, in every
   state (handshake in progress, version negotiation, established) *)
Theorem undecodable_dropped W full est s d : undecodable d -> recv_dgram W full est s d = (s, []).
Proof.
  intros Hu. unfold recv_dgram. destruct (r_closed s); [reflexivity|].
  destruct d as [ | | | | rs]; try reflexivity. now apply recv_recs_bad.
Qed.

(* whatever undecodable datagrams (oversized ones included) are queued in front of, between and behind the genuine
   ones: the connection outputs exactly what it outputs without them - the genuine datagram behind an oversized one
   is read and processed *)
Theorem pump_skips_undecodable W full est : forall q s,
  pump W full est s q =
  pump W full est s (filter (fun d => match d with DRecs _ => true | _ => false end) q).
Proof.
  induction q as [|d q IH]; intro s; [reflexivity|].
  destruct d as [ | | | | rs]; cbn [filter];
    try (cbn [pump]; unfold recv_dgram at 1; destruct (r_closed s); cbn [app]; rewrite IH;
         destruct (pump W full est s (filter _ q)); reflexivity).
  cbn [pump]. destruct (recv_dgram W full est s (DRecs rs)) as [s1 o1]. now rewrite IH.
Qed.

Corollary oversized_consumed W full est s q :
  pump W full est s (DOversized :: q) = pump W full est s q.
Proof.
  cbn [pump]. unfold recv_dgram at 1. destruct (r_closed s); cbn [app]; destruct (pump W full est s q); reflexivity.
Qed.

(* an UNPROTECTED record whose content does not decode (unknown content type, malformed alert /
   change_cipher_spec / ACK / RRC) is dropped without any effect, in every state, full buffer or not *)
Theorem undecodable_content_dropped W lease full s w :
  w_epoch w = 0 -> w_clear w = CBad -> recv_fb W lease full s w = (s, []).
Proof.
  intros He Hb. unfold recv_fb, gated, dispatch. rewrite He, Hb. cbn [N.eqb is_hs andb orb].
  destruct (r_closed s); [reflexivity|].
  destruct (r_epoch s <? 0) eqn:E; [lia|].
  destruct (negb (check maxseq48 (get_win W 0 (r_wins s)) (w_seq w))); [reflexivity|].
  now rewrite andb_false_r.
Qed.

(* a record typed change_cipher_spec that claims a protected epoch (no suite authenticates such records) never
   produces any output, whatever its body - the valid body 01 included - and in every state ... *)
Theorem ccs_claiming_epoch_no_output W lease full s w :
  w_ctype w = ct_ccs -> w_epoch w <> 0 -> snd (recv_fb W lease full s w) = [].
Proof.
  intros Hct He. unfold recv_fb. rewrite Hct.
  destruct (r_closed s); [reflexivity|].
  destruct (r_epoch s <? w_epoch w); [destruct (r_epoch s + 1 <? w_epoch w); reflexivity|].
  destruct (negb (check maxseq48 (get_win W (w_epoch w) (r_wins s)) (w_seq w))); [reflexivity|].
  destruct (w_epoch w =? 0) eqn:E0; [lia|].
  destruct (negb (r_init s)); [reflexivity|].
  destruct (negb (len (r_cid s) =? 0) && negb (ct_ccs =? ct_cid)); [reflexivity|].
  rewrite N.eqb_refl. reflexivity.
Qed.

(* ... and claiming the current or a past epoch of a keyed connection it leaves the state untouched: the remote
   epoch does not advance and no record number is committed to the replay window (ae10e63; before, ONE record
   14fefd0001 ffffffffffff 0001 01 advanced the remote epoch and committed 2^48-1: every later genuine record
   was dropped for good) *)
Theorem ccs_claiming_epoch_inert W lease full s w :
  r_init s = true -> w_epoch w <> 0 -> w_epoch w <= r_epoch s -> w_ctype w = ct_ccs ->
  recv_fb W lease full s w = (s, []).
Proof.
  intros Hi He Hle Hct. unfold recv_fb. rewrite Hi, Hct.
  destruct (r_closed s); [reflexivity|].
  destruct (r_epoch s <? w_epoch w) eqn:E1; [lia|].
  destruct (negb (check maxseq48 (get_win W (w_epoch w) (r_wins s)) (w_seq w))); [reflexivity|].
  destruct (w_epoch w =? 0) eqn:E0; [lia|]. cbn [negb].
  destruct (negb (len (r_cid s) =? 0) && negb (ct_ccs =? ct_cid)); [reflexivity|].
  rewrite N.eqb_refl. reflexivity.
Qed.

(* an UNPROTECTED application_data record is refused silently in every state: no delivery, no alert, no error,
   no replay commit (8aa2dc9; before, a fatal unexpected_message alert + error) *)
Theorem unprotected_appdata_inert W lease full s w p :
  w_epoch w = 0 -> w_clear w = CApp p -> recv_fb W lease full s w = (s, []).
Proof.
  intros He Hb. unfold recv_fb, gated, dispatch. rewrite He, Hb. cbn [N.eqb is_hs].
  destruct (r_closed s); [reflexivity|].
  destruct (r_epoch s <? 0) eqn:E; [lia|].
  destruct (negb (check maxseq48 (get_win W 0 (r_wins s)) (w_seq w))); [reflexivity|].
  now rewrite andb_false_r.
Qed.

(* what still surfaces, as coded: a record that AUTHENTICATES under the session keys and whose content does
   not decode is answered with a fatal decode_error alert and an error (exception X4: only a peer holding the
   keys can do this) *)
Theorem authenticated_undecodable_surfaces W lease full s w :
  r_closed s = false -> r_init s = true -> w_epoch w <> 0 -> w_epoch w <= r_epoch s -> w_ctype w <> ct_ccs ->
  w_auth w = Some CBad -> len (r_cid s) = 0 -> w_ctype w <> ct_cid ->
  check maxseq48 (get_win W (w_epoch w) (r_wins s)) (w_seq w) = true ->
  recv_fb W lease full s w = (s, [OAlert alert_fatal desc_decode_error; OErr]).
Proof.
  intros Hc Hi He Hle Hct Ha Hcid Hnc Hk. unfold recv_fb, gated, dispatch. rewrite Hc, Hk, Hi, Ha, Hcid.
  destruct (r_epoch s <? w_epoch w) eqn:E1; [lia|].
  destruct (w_epoch w =? 0) eqn:E0; [lia|].
  destruct (w_ctype w =? ct_ccs) eqn:E2; [lia|].
  destruct (w_ctype w =? ct_cid) eqn:E3; [lia|].
  cbn. destruct (r_cid s); [|discriminate Hcid]. cbn. now rewrite andb_false_r.
Qed.

(* ---------- non-fatal alerts ---------- *)

(* with room in the buffer and once established, recv_conn is the established receive path of Rec/Recv.v *)
Lemma recv_conn_established W lease s w : recv_conn W lease false true s w = recv_est true W lease s w.
Proof.
  unfold recv_conn, recv_est. cbn [andb negb]. destruct (unprotected_alert w); [reflexivity|].
  rewrite recv_fb_open. now destruct (recv W lease s w).
Qed.

(* WHILE THE HANDSHAKE IS RUNNING an unprotected warning alert (anybody can send one) is inert: nothing at all
   is output (no error, no alert, no close, no delivery, no replay commit) and the state is untouched *)
Theorem warning_alert_inert_before_establishment W lease full s w level desc :
  w_epoch w = 0 -> w_clear w = CAlert level desc -> is_warning (CAlert level desc) = true ->
  recv_conn W lease full false s w = (s, []).
Proof.
  intros He Hb Hw. unfold recv_conn. cbn [andb]. unfold disp_content, recv_fb, gated, dispatch, mark, omark.
  rewrite He, Hb.
  cbn [N.eqb is_hs andb]. rewrite Hw. cbn [negb andb].
  cbn [is_warning] in Hw. apply negb_true_iff in Hw. rewrite Hw.
  assert (Hd : (desc =? desc_close_notify) = false) by (apply orb_false_iff in Hw; tauto). rewrite Hd.
  destruct (r_closed s) eqn:Ec; [reflexivity|].
  destruct (r_epoch s <? 0) eqn:E; [lia|].
  destruct (negb (check maxseq48 (get_win W 0 (r_wins s)) (w_seq w))); [reflexivity|].
  rewrite andb_false_r. reflexivity.
Qed.

Corollary warning_alert_silent_before_establishment W lease full s w level desc :
  w_epoch w = 0 -> w_clear w = CAlert level desc -> is_warning (CAlert level desc) = true ->
  snd (recv_conn W lease full false s w) = [].
Proof. intros He Hb Hw. now rewrite (warning_alert_inert_before_establishment W lease full s w level desc). Qed.

(* ONCE ESTABLISHED every unprotected alert - fatal, close_notify or warning - is inert: nothing is output
   (no close, no close_notify reply, no Read error), the state is untouched (no replay commit), full buffer or
   not.  The post-establishment half of exception X1 is gone (d95e20d). *)
Theorem unprotected_alert_inert_established_conn W lease full s w :
  unprotected_alert w = true -> recv_conn W lease full true s w = (s, []).
Proof. intro H. unfold recv_conn. now rewrite H. Qed.

(* ... and so is an unprotected change_cipher_spec (ae10e63): it only ends the peer's epoch 0 while the handshake runs *)
Theorem unprotected_ccs_inert_established_conn W lease full s w :
  unprotected_ccs w = true -> recv_conn W lease full true s w = (s, []).
Proof. intro H. unfold recv_conn. rewrite H. now rewrite orb_true_r. Qed.

(* what X1 still is: WHILE THE HANDSHAKE IS RUNNING an unprotected fatal alert (or close_notify) with a number
   the epoch-0 window accepts closes the endpoint - DTLS 1.2 alerts are unauthenticated until the epoch
   changes.  Its record number is not committed (5206069). *)
Theorem unprotected_fatal_alert_before_establishment W lease s w desc :
  r_closed s = false -> w_epoch w = 0 -> w_clear w = CAlert alert_fatal desc -> desc <> desc_close_notify ->
  check maxseq48 (get_win W 0 (r_wins s)) (w_seq w) = true ->
  snd (recv_conn W lease false false s w) = [OClosed].
Proof.
  intros Hc He Hb Hd Hk. unfold recv_conn. cbn [andb negb]. unfold disp_content. rewrite He, Hb.
  cbn [N.eqb is_warning]. rewrite N.eqb_refl. cbn [orb negb].
  rewrite recv_fb_open. unfold recv, dispatch, omark. rewrite Hc, He, Hb, Hk. rewrite N.eqb_refl.
  destruct (r_epoch s <? 0) eqn:E; [lia|]. cbn.
  destruct (desc =? desc_close_notify) eqn:E2; [lia|]. reflexivity.
Qed.

(* ... and so it is while a dual-stack endpoint is still negotiating the version (abcaac6; before, the
   warning alert was returned straight out of negotiateVersionClient / -Server and ended the handshake) *)
Theorem warning_alert_inert_during_negotiation W lease full est s w level desc :
  w_epoch w = 0 -> w_clear w = CAlert level desc -> is_warning (CAlert level desc) = true ->
  recv_conn_neg W lease full true est s w = (s, []).
Proof. unfold recv_conn_neg. apply warning_alert_inert_before_establishment. Qed.

(* KNOWN (F101), as coded: an UNPROTECTED return_routability_check record that decodes is not dropped - it is
   answered with a fatal unexpected_message alert and an error (the handshake in progress ends; on an established
   connection Read fails and the protected alert closes the peer).  The pinned suite demands this behaviour. *)
Theorem unprotected_rrc_refuted W lease full est s w :
  r_closed s = false -> w_epoch w = 0 -> w_clear w = CRrc ->
  check maxseq48 (get_win W 0 (r_wins s)) (w_seq w) = true ->
  snd (recv_conn W lease full est s w) = [OAlert alert_fatal desc_unexpected_message; OErr].
Proof.
  intros Hc He Hb Hk. unfold recv_conn, unprotected_alert, unprotected_ccs. rewrite He, Hb.
  cbn [N.eqb andb orb]. rewrite andb_false_r. cbn [andb].
  unfold disp_content, recv_fb, gated, dispatch. rewrite Hc, He, Hb, Hk. cbn [N.eqb is_hs is_warning negb orb].
  destruct (r_epoch s <? 0) eqn:E; [lia|]. rewrite !andb_false_r. cbn. reflexivity.
Qed.

(* ---------- the epoch-0 replay window never moves (5206069) ---------- *)

(* handleRecordContent on an unprotected record: no replay window is touched, no OMark is output *)
Lemma dispatch_epoch0 W lease s w c :
  w_epoch w = 0 ->
  r_wins (fst (dispatch W lease s w c)) = r_wins s /\ marks (snd (dispatch W lease s w c)) = [].
Proof.
  intro He. unfold dispatch, mark, omark, enqueue, set_epoch, set_closed. rewrite He. cbn [N.eqb orb].
  destruct c;
    repeat match goal with |- context [if ?b then _ else _] => destruct b end;
    cbn [fst snd r_wins marks app]; split; reflexivity.
Qed.

Lemma recv_fb_epoch0 W lease full s w :
  w_epoch w = 0 ->
  r_wins (fst (recv_fb W lease full s w)) = r_wins s /\ marks (snd (recv_fb W lease full s w)) = [].
Proof.
  intro He. pose proof (dispatch_epoch0 W lease s w (w_clear w) He) as Hd.
  unfold recv_fb, gated. rewrite He. cbn [N.eqb].
  destruct (r_closed s); [split; reflexivity|].
  destruct (r_epoch s <? 0) eqn:E; [lia|].
  destruct (negb (check maxseq48 (get_win W 0 (r_wins s)) (w_seq w))); [split; reflexivity|].
  destruct (full && is_hs (w_clear w)); [split; reflexivity|exact Hd].
Qed.

Lemma marks_filter_err os : marks (filter (fun o => negb (is_err o)) os) = marks os.
Proof.
  induction os as [|o os IH]; [reflexivity|]. destruct o; cbn [filter is_err negb marks]; now rewrite ?IH.
Qed.

Lemma recv_conn_epoch0 W lease full est s w :
  w_epoch w = 0 ->
  r_wins (fst (recv_conn W lease full est s w)) = r_wins s /\ marks (snd (recv_conn W lease full est s w)) = [].
Proof.
  intro He. pose proof (recv_fb_epoch0 W lease full s w He) as Hf. unfold recv_conn.
  destruct (est && (unprotected_alert w || unprotected_ccs w)); [split; reflexivity|].
  destruct (recv_fb W lease full s w) as [s' os]. cbn [fst snd] in Hf.
  destruct (negb est && is_warning (disp_content w)); cbn [fst snd]; [|exact Hf].
  now rewrite marks_filter_err.
Qed.

Theorem epoch0_window_never_moves W lease full est s w :
  w_epoch w = 0 -> r_wins (fst (recv_conn W lease full est s w)) = r_wins s.
Proof. intro He. now apply recv_conn_epoch0. Qed.

(* whatever record number an unprotected record carries - 2^48-1 included - the verdict of the replay check on
   every later record, of every epoch, is what it was (before, ONE epoch-0 record numbered 2^48-1 made every
   later genuine epoch-0 record a "replay": the handshake in progress never completed) *)
Theorem unprotected_number_harmless W lease full est s g e q :
  w_epoch g = 0 ->
  check maxseq48 (get_win W e (r_wins (fst (recv_conn W lease full est s g)))) q =
  check maxseq48 (get_win W e (r_wins s)) q.
Proof. intro He. now rewrite epoch0_window_never_moves. Qed.

(* no OMark output is ever produced for an unprotected record *)
Theorem epoch0_never_marks W lease full est s w :
  w_epoch w = 0 -> marks (snd (recv_conn W lease full est s w)) = [].
Proof. intro He. now apply recv_conn_epoch0. Qed.

(* ---------- forged records ---------- *)

Lemma forgedb_spec w : forgedb w = true <-> w_epoch w <> 0 /\ w_auth w = None.
Proof.
  unfold forgedb. destruct (w_auth w); split.
  - intro H. rewrite andb_false_r in H. discriminate.
  - intros (_ & H). discriminate.
  - intro H. split; [lia|reflexivity].
  - intros (H1 & _). lia.
Qed.

Theorem forged_dropped W lease s w : forgedb w = true ->
  snd (recv W lease s w) = [] /\
  same_except_queue s (fst (recv W lease s w)) /\
  (r_queue (fst (recv W lease s w)) = r_queue s \/
   (r_queue (fst (recv W lease s w)) = r_queue s ++ [w] /\ (length (r_queue s) < max_queue)%nat /\
    lease = true /\ (w_epoch w = r_epoch s + 1 \/ r_init s = false))).
Proof. intro H. apply forgedb_spec in H. destruct H as (H1 & H3). now apply forged_inert_any_type. Qed.

(* a forged record never reaches the gate: the buffer state is irrelevant *)
Lemma forged_fb W lease full s w : forgedb w = true -> recv_fb W lease full s w = recv W lease s w.
Proof.
  intro H. apply forgedb_spec in H. destruct H as (H1 & H3). unfold recv_fb, recv, gated.
  destruct (r_closed s); [reflexivity|].
  destruct (r_epoch s <? w_epoch w); [reflexivity|].
  destruct (negb (check maxseq48 (get_win W (w_epoch w) (r_wins s)) (w_seq w))); [reflexivity|].
  destruct (w_epoch w =? 0) eqn:E; [lia|].
  destruct (negb (r_init s)); [reflexivity|].
  destruct (negb (len (r_cid s) =? 0) && negb (w_ctype w =? ct_cid)); [reflexivity|].
  destruct (w_ctype w =? ct_ccs) eqn:E2; [reflexivity|]. now rewrite H3.
Qed.

(* ---------- garbage does not change what genuine traffic does ---------- *)

Lemma filter_length_le {A} (f : A -> bool) l : (length (filter f l) <= length l)%nat.
Proof. induction l as [|x l IH]; cbn; [lia|]. destruct (f x); cbn; lia. Qed.

Lemma sim_refl s : (forall w, In w (r_queue s) -> forgedb w = false) -> sim s s.
Proof.
  intro H. unfold sim. repeat split; auto.
  induction (r_queue s) as [|w q IH]; [reflexivity|]. cbn [filter].
  rewrite (H w (or_introl eq_refl)). cbn [negb]. f_equal. apply IH. intros x Hx. apply H. now right.
Qed.

Lemma sim_init cid rrc : sim (rinit cid rrc) (rinit cid rrc).
Proof. apply sim_refl. intros w []. Qed.

Ltac fields s := destruct s as [?e ?ws ?i ?q ?c ?rr ?cl].

(* one genuine (non-forged) record arriving in two states that differ only by forged queue entries:
   same outputs, and the states still differ only by forged queue entries *)
Lemma recv_sim W lease s t w :
  sim s t -> forgedb w = false -> (lease = false \/ (length (r_queue t) < max_queue)%nat) ->
  snd (recv W lease t w) = snd (recv W lease s w) /\
  sim (fst (recv W lease s w)) (fst (recv W lease t w)).
Proof.
  intros (H1 & H2 & H3 & H4 & H5 & H6 & H7) Hg Hroom.
  fields s. fields t. cbn [r_epoch r_wins r_init r_queue r_cid r_rrc r_closed] in *. subst.
  set (nf := fun w0 : wire => negb (forgedb w0)) in *.
  assert (Hnf : nf w = true) by (unfold nf; now rewrite Hg).
  assert (Hle : (length (filter nf q0) <= length q0)%nat) by apply filter_length_le.
  assert (Henq : forall b : bool,
    (if lease && b then true else false) = (if lease && b then true else false)) by reflexivity.
  (* the two enqueue decisions agree *)
  assert (Hq : lease && (length (filter nf q0) <? max_queue)%nat = lease && (length q0 <? max_queue)%nat).
  { destruct Hroom as [-> | Hr]; [reflexivity|].
    assert ((length q0 <? max_queue)%nat = true) by (apply Nat.ltb_lt; exact Hr).
    assert ((length (filter nf q0) <? max_queue)%nat = true) by (apply Nat.ltb_lt; lia).
    congruence. }
  assert (Happ : filter nf (q0 ++ [w]) = filter nf q0 ++ [w]).
  { rewrite filter_app. cbn [filter]. now rewrite Hnf. }
  unfold recv, dispatch, enqueue, mark, set_epoch, set_closed, sim.
  cbn [r_epoch r_wins r_init r_queue r_cid r_rrc r_closed].
  rewrite Hq.
  repeat match goal with
         | |- context [if ?b then _ else _] => destruct b
         | |- context [match ?x with Some _ => _ | None => _ end] => destruct x
         | |- context [match ?x with CApp _ => _ | _ => _ end] => destruct x
         end;
    cbn [fst snd r_epoch r_wins r_init r_queue r_cid r_rrc r_closed];
    repeat split; auto.
Qed.

(* one forged record arriving in the garbage run only *)
Lemma forged_sim W lease s t g : sim s t -> forgedb g = true ->
  snd (recv W lease t g) = [] /\ sim s (fst (recv W lease t g)).
Proof.
  intros (H1 & H2 & H3 & H4 & H5 & H6 & H7) Hg.
  destruct (forged_dropped W lease t g Hg) as (Ho & (E1 & E2 & E3 & E4 & E5 & E6) & Hq).
  split; [exact Ho|]. unfold sim. rewrite E1, E2, E3, E4, E5, E6. repeat split; auto.
  destruct Hq as [-> | (-> & _)]; [exact H7|].
  rewrite filter_app. cbn [filter]. rewrite Hg. cbn [negb]. now rewrite app_nil_r.
Qed.

(* replay of the queue (handleQueuedPackets, lease = false) *)
Lemma recv_list_sim W : forall qt s t, sim s t ->
  snd (recv_list W false t qt) = snd (recv_list W false s (filter (fun w => negb (forgedb w)) qt)) /\
  sim (fst (recv_list W false s (filter (fun w => negb (forgedb w)) qt))) (fst (recv_list W false t qt)).
Proof.
  induction qt as [|w qt IH]; intros s t Hs; [split; [reflexivity|exact Hs]|].
  cbn [filter]. destruct (forgedb w) eqn:Ef; cbn [negb].
  - (* forged entry: no output, skipped *)
    cbn [recv_list]. destruct (forged_sim W false s t w Hs Ef) as [Ho Hs'].
    destruct (recv W false t w) as [t1 o1]. cbn [fst snd] in *. subst o1. cbn [existsb].
    specialize (IH s t1 Hs'). destruct (recv_list W false t1 qt) as [t2 o2]. cbn [fst snd app] in *. exact IH.
  - cbn [recv_list]. destruct (recv_sim W false s t w Hs Ef (or_introl eq_refl)) as [Ho Hs'].
    destruct (recv W false t w) as [t1 o1]. destruct (recv W false s w) as [s1 o1']. cbn [fst snd] in *. subst o1'.
    destruct (existsb is_err o1); [split; [reflexivity|exact Hs']|].
    specialize (IH s1 t1 Hs').
    destruct (recv_list W false t1 qt) as [t2 o2].
    destruct (recv_list W false s1 (filter (fun w0 => negb (forgedb w0)) qt)) as [s2 o2'].
    cbn [fst snd] in *. destruct IH as [-> IH2]. split; [reflexivity|exact IH2].
Qed.

Lemma sim_set s t e i :
  sim s t ->
  sim {| r_epoch := e; r_wins := r_wins s; r_init := i; r_queue := []; r_cid := r_cid s; r_rrc := r_rrc s; r_closed := r_closed s |}
      {| r_epoch := e; r_wins := r_wins t; r_init := i; r_queue := []; r_cid := r_cid t; r_rrc := r_rrc t; r_closed := r_closed t |}.
Proof. intros (H1 & H2 & H3 & H4 & H5 & H6 & H7). unfold sim. cbn. repeat split; auto. Qed.

Lemma step_sim W o s t : sim s t -> genuine_op o = true ->
  (match o with Arrive _ => (length (r_queue t) < max_queue)%nat | _ => True end) ->
  snd (step W t o) = snd (step W s o) /\ sim (fst (step W s o)) (fst (step W t o)).
Proof.
  intros Hs Hg Hroom. destruct o as [w | | ]; cbn [step].
  - cbn [genuine_op] in Hg. apply negb_true_iff in Hg. apply recv_sim; auto.
  - cbn [fst snd]. split; [reflexivity|]. destruct Hs as (H1 & H2 & H3 & H4 & H5 & H6 & H7).
    unfold sim. cbn. repeat split; auto.
  - destruct Hs as (H1 & H2 & H3 & H4 & H5 & H6 & H7).
    rewrite H7.
    pose proof (recv_list_sim W (r_queue t)
      {| r_epoch := r_epoch s; r_wins := r_wins s; r_init := r_init s; r_queue := [];
         r_cid := r_cid s; r_rrc := r_rrc s; r_closed := r_closed s |}
      {| r_epoch := r_epoch t; r_wins := r_wins t; r_init := r_init t; r_queue := [];
         r_cid := r_cid t; r_rrc := r_rrc t; r_closed := r_closed t |}) as H.
    apply H. unfold sim. cbn. repeat split; auto.
Qed.

(* C08 keeps_serving, over every operation history: inserting forged protected records ANYWHERE in a
   history of arrivals / key installation / queue replays changes nothing of what the connection
   outputs (deliveries, alerts, errors, handshake progress, replay commits), as long as a queue slot
   is free whenever a record arrives *)
Theorem keeps_serving_run W : forall ops s t, sim s t -> queue_room W t ops ->
  snd (run_ops W t ops) = snd (run_ops W s (strip ops)) /\
  sim (fst (run_ops W s (strip ops))) (fst (run_ops W t ops)).
Proof.
  induction ops as [|o ops IH]; intros s t Hs Hroom; [split; [reflexivity|exact Hs]|].
  destruct Hroom as [Hr Hroom]. unfold strip. cbn [filter]. fold (strip ops).
  destruct (genuine_op o) eqn:Eg.
  - cbn [run_ops]. destruct (step_sim W o s t Hs Eg Hr) as [Ho Hs'].
    destruct (step W t o) as [t1 o1]. destruct (step W s o) as [s1 o1']. cbn [fst snd] in *. subst o1'.
    specialize (IH s1 t1 Hs' Hroom).
    destruct (run_ops W t1 ops) as [t2 o2]. destruct (run_ops W s1 (strip ops)) as [s2 o2'].
    cbn [fst snd] in *. destruct IH as [-> IH2]. split; [reflexivity|exact IH2].
  - (* a forged arrival *)
    destruct o as [g | | ]; try discriminate Eg. cbn [genuine_op] in Eg. apply negb_false_iff in Eg.
    cbn [run_ops step]. cbn [step] in Hroom. destruct (forged_sim W true s t g Hs Eg) as [Ho Hs'].
    destruct (recv W true t g) as [t1 o1]. cbn [fst snd] in *. subst o1.
    specialize (IH s t1 Hs' Hroom).
    destruct (run_ops W t1 ops) as [t2 o2]. cbn [fst snd app] in *. exact IH.
Qed.

Corollary keeps_serving_from_start W cid rrc ops : queue_room W (rinit cid rrc) ops ->
  snd (run_ops W (rinit cid rrc) ops) = snd (run_ops W (rinit cid rrc) (strip ops)).
Proof. intro H. apply (keeps_serving_run W ops _ _ (sim_init cid rrc) H). Qed.

(* single step, no side condition: the outputs of a genuine record after one forged record are the
   outputs it has without it *)
Theorem keeps_serving W s g r : forgedb g = true ->
  snd (recv W true (fst (recv W true s g)) r) = snd (recv W true s r).
Proof.
  intro Hg. destruct (forged_dropped W true s g Hg) as (_ & (E1 & E2 & E3 & E4 & E5 & E6) & _).
  set (t := fst (recv W true s g)) in *.
  fields s. fields t. cbn [r_epoch r_wins r_init r_queue r_cid r_rrc r_closed] in *. subst.
  unfold recv, dispatch, enqueue, mark, set_epoch, set_closed.
  cbn [r_epoch r_wins r_init r_queue r_cid r_rrc r_closed].
  repeat match goal with
         | |- context [if ?b then _ else _] => destruct b
         | |- context [match ?x with Some _ => _ | None => _ end] => destruct x
         | |- context [match ?x with CApp _ => _ | _ => _ end] => destruct x
         end; reflexivity.
Qed.

(* the exception the code really has: a forged record claiming the next epoch takes a queue slot; with
   99 records waiting it takes the last one and the genuine next-epoch record (the peer's Finished)
   that arrives behind it is not queued - it has to be retransmitted *)
Definition qx_wait : wire :=
  {| w_ctype := 22; w_epoch := 1; w_seq := 0; w_cid := []; w_auth := Some (CHs true false); w_clear := CBad |}.
Definition qx_state : rstate :=
  {| r_epoch := 0; r_wins := []; r_init := false; r_queue := repeat qx_wait 99; r_cid := []; r_rrc := false;
     r_closed := false |}.
Definition qx_forged : wire :=
  {| w_ctype := 23; w_epoch := 1; w_seq := 5; w_cid := []; w_auth := None; w_clear := CBad |}.
Definition qx_genuine : wire :=
  {| w_ctype := 22; w_epoch := 1; w_seq := 1; w_cid := []; w_auth := Some (CHs true false); w_clear := CBad |}.

Theorem queue_full_exception_refuted :
  forgedb qx_forged = true /\ forgedb qx_genuine = false /\
  r_queue (fst (recv 64 true qx_state qx_genuine)) = r_queue qx_state ++ [qx_genuine] /\
  r_queue (fst (recv 64 true (fst (recv 64 true qx_state qx_forged)) qx_genuine)) = r_queue qx_state ++ [qx_forged].
Proof. vm_compute. repeat split; reflexivity. Qed.

(* when the queue is not about to fill, the states after the genuine record agree up to the one forged entry *)
Theorem keeps_serving_state W s g r : forgedb g = true -> forgedb r = false ->
  (length (r_queue (fst (recv W true s g))) < max_queue)%nat ->
  (forall w, In w (r_queue s) -> forgedb w = false) ->
  sim (fst (recv W true s r)) (fst (recv W true (fst (recv W true s g)) r)).
Proof.
  intros Hg Hr Hroom Hq.
  destruct (forged_sim W true s s g (sim_refl s Hq) Hg) as [_ Hs].
  apply (recv_sim W true s _ r Hs Hr). now right.
Qed.
