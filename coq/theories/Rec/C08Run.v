(* Harness-facing evaluation of the C08 datagram-layer model: for every injected datagram of a DROP
   class the harness reports (target established?, how an independent reader of the record formats
   classifies the datagram, what the endpoint did); c08_ok compares with what Rec/C08Robust.v (the
   code AS IT IS) predicts. *)
From DtlsV Require Import Lib.Bytes Rec.Window Rec.WindowRun Rec.Recv Rec.C08Robust.
Open Scope N_scope.

Inductive ckind :=
| KEmpty            (* zero-length datagram *)
| KUnsplitLen       (* does not split into records: length / framing *)
| KUnsplitOther     (* does not split into records: record type of the first byte, unified-header form, CID bit *)
| KOversized        (* longer than the connection's read buffer, does not split into records (listener leg) *)
| KBadHeader        (* record header does not decode (version) *)
| KForged           (* protected record that does not authenticate *)
| KUndecHs          (* unprotected handshake record whose fragments do not decode: FragmentBuffer.Push fails *)
| KUndecContent     (* unprotected record with a fresh number whose content does not decode *)
| KUndecStale       (* same, but its record number is behind / inside the replay window: dropped before decoding *)
| KWarnAlert        (* unprotected alert record, warning level, description other than close_notify, fresh number *)
| KFatalAlert       (* unprotected alert record, level fatal, description other than close_notify, fresh number *)
| KCloseNotify      (* unprotected close_notify alert, fresh number *)
| KClearApp         (* unprotected application_data record, fresh number *)
| KClearCcs         (* unprotected change_cipher_spec record with the valid body 01, fresh number *)
| KCcsEpoch         (* change_cipher_spec-typed record claiming a protected epoch, any body, fresh number *)
| KClearRrc.        (* unprotected return_routability_check record that decodes (known finding: not dropped) *)

(* observation: (error surfaced: handshake abort or Read error, alert sent, connection closed, payload delivered) *)
Definition cobs := (bool * bool * bool * bool)%type.
Definition c08_case := (bool * bool * ckind * cobs)%type.   (* negotiating the version?, established?, class, observed *)

Definition st_fresh : rstate := rinit [] false.
Definition st_est : rstate :=
  {| r_epoch := 1; r_wins := []; r_init := true; r_queue := []; r_cid := []; r_rrc := false; r_closed := false |}.

Definition mk0 (ct q : N) (c : content) : wire :=
  {| w_ctype := ct; w_epoch := 0; w_seq := q; w_cid := []; w_auth := None; w_clear := c |}.

Definition dgram_of (k : ckind) : dgram :=
  match k with
  | KEmpty => DEmpty
  | KUnsplitLen => DLenErr
  | KUnsplitOther => DOtherErr
  | KOversized => DOversized
  | KBadHeader => DRecs [RBadHeader]
  | KForged => DRecs [RWire {| w_ctype := 23; w_epoch := 1; w_seq := 9000; w_cid := []; w_auth := None; w_clear := CBad |}]
  | KUndecHs => DRecs [RWire (mk0 22 9000 (CHs false false))]
  | KUndecContent => DRecs [RWire (mk0 99 9000 CBad)]
  | KUndecStale => DRecs [RWire (mk0 99 1 CBad)]
  | KWarnAlert => DRecs [RWire (mk0 21 9000 (CAlert 1 90))]
  | KFatalAlert => DRecs [RWire (mk0 21 9000 (CAlert 2 40))]
  | KCloseNotify => DRecs [RWire (mk0 21 9000 (CAlert 1 0))]
  | KClearApp => DRecs [RWire (mk0 23 9000 (CApp [1; 2; 3]))]
  | KClearCcs => DRecs [RWire (mk0 20 9000 CCCS)]
  | KClearRrc => DRecs [RWire (mk0 27 9000 CRrc)]
  | KCcsEpoch => DRecs [RWire {| w_ctype := 20; w_epoch := 1; w_seq := 9000; w_cid := []; w_auth := None; w_clear := CCCS |}]
  end.

(* the epoch-0 window after the handshake: record number 5000 committed, so number 1 is too old *)
Definition aged (s : rstate) : rstate := mark 64 s (mk0 22 5000 (CHs true false)).

Definition predict (neg est : bool) (k : ckind) : cobs :=
  let s := aged (if est then st_est else st_fresh) in
  let os := match k with
            | KWarnAlert => snd (recv_conn_neg 64 true false neg est s (mk0 21 9000 (CAlert 1 90)))
            | KFatalAlert => snd (recv_conn_neg 64 true false neg est s (mk0 21 9000 (CAlert 2 40)))
            | KCloseNotify => snd (recv_conn_neg 64 true false neg est s (mk0 21 9000 (CAlert 1 0)))
            | _ => snd (recv_dgram 64 false est s (dgram_of k))
            end in
  (existsb is_err os,
   existsb (fun o => match o with OAlert _ _ => true | _ => false end) os,
   existsb (fun o => match o with OClosed => true | _ => false end) os,
   existsb (fun o => match o with ODeliver _ _ _ => true | _ => false end) os).

Definition cobs_eqb (a b : cobs) : bool :=
  let '(a1, a2, a3, a4) := a in let '(b1, b2, b3, b4) := b in
  Bool.eqb a1 b1 && Bool.eqb a2 b2 && Bool.eqb a3 b3 && Bool.eqb a4 b4.

Definition c08_ok (c : c08_case) : bool :=
  let '(neg, est, k, observed) := c in cobs_eqb (predict neg est k) observed.

(* what the property asks of every drop class *)
Definition c08_ideal (c : c08_case) : bool :=
  let '(_, _, _, observed) := c in cobs_eqb (false, false, false, false) observed.
