(* rec13 - Model of the DTLS 1.3 record layer of pion/dtls as implemented:
     pkg/protocol/recordlayer/header_13.go      UnifiedHeader.Marshal / Unmarshal
     pkg/protocol/recordlayer/recordlayer_13.go CiphertextRecord13.Unmarshal, UnpackDatagram13
     pkg/protocol/recordlayer/inner_plaintext.go
     internal/ciphersuite/tls_13_record_protection.go  Seal / Open / mask / nonce (AEAD and the
                                                mask function themselves are parameters)
     internal/state/traffic_keys.go             Install / ReadCandidates (generations by epoch)
     conn.go  readAndProcessDatagram -> unpackDatagram -> processIncomingPacket ->
              prepareCiphertextPacket (unmarshalCiphertextRecord, ciphertextCIDPolicy,
              queueIfCipherSuiteUninitialized, openCiphertextRecord, reconstructSequenceNumber,
              handleFutureCiphertextPacket, protectedReplayMarker, prepareInnerPlaintextRecord)
              / prepareLegacyPacket (epoch-0 plaintext records of a DTLS 1.3 connection)
              -> bufferHandshakeRecord / handleRecordContent, handleQueuedPackets,
              sealRecordContent / nextLocalSequenceNumber / commitLocalKeyUpdate (send side).
   Order of effects as in the code: parse, CID policy, keys present?, candidate generations by the
   two epoch bits (current first), unmask, reconstruct against the highest number of THAT epoch,
   AEAD open, replay check AFTER the open, 48-bit re-marshal limit, content dispatch, commit of the
   replay slot (and of the highest number when it is the newest) at the code's call sites.
   Definitions only. *)
From DtlsV Require Import Lib.Bytes Rec.Window.
Open Scope N_scope.

Definition w64 : N := 18446744073709551616.        (* 2^64: uint64 arithmetic wraps *)
Definition maxseq64 : N := 18446744073709551615.   (* ^uint64(0): replaydetector.New(w, ^uint64(0)) *)
Definition maxseq48 : N := 281474976710655.        (* recordlayer.MaxSequenceNumber *)
Definition max_queue : nat := 100.                 (* maxAppDataPacketQueueSize *)

(* ------------------------------------------------------------------ unified header *)

(* the Go struct UnifiedHeader *)
Record uhdr := mk_uhdr {
  u_cid : bytes; u_seq : N; u_sbit : bool; u_len : N; u_lbit : bool; u_elow : N }.

Definition is_ct13 (b : N) : bool := (31 <? b) && (b <? 64).     (* protocol.IsDTLS13Ciphertext *)
Definition bit_c (b : N) : bool := (b / 16) mod 2 =? 1.
Definition bit_s (b : N) : bool := (b / 8) mod 2 =? 1.
Definition bit_l (b : N) : bool := (b / 4) mod 2 =? 1.
Definition is_nil (b : bytes) : bool := match b with [] => true | _ => false end.

Definition uh_flags (h : uhdr) : N :=
  32 + (if is_nil (u_cid h) then 0 else 16) + (if u_sbit h then 8 else 0) +
  (if u_lbit h then 4 else 0) + u_elow h mod 4.

(* UnifiedHeader.Marshal (the C bit is derived from len(ConnectionID) > 0; a connection id longer
   than 255 bytes is refused by the code - not reachable, the extension carries a one-byte length) *)
Definition uh_marshal (h : uhdr) : bytes :=
  uh_flags h :: u_cid h ++ (if u_sbit h then be_enc 2 (u_seq h) else be_enc 1 (u_seq h)) ++
  (if u_lbit h then be_enc 2 (u_len h) else []).

(* UnifiedHeader.Unmarshal on a struct whose ConnectionID slice has length cidlen; returns the
   header and the bytes after it *)
Definition uh_unmarshal (cidlen : nat) (b : bytes) : option (uhdr * bytes) :=
  match b with
  | [] => None
  | ct :: r0 =>
      if negb (is_ct13 ct) then None else
      let ncid := if bit_c ct then cidlen else 0%nat in
      if (length r0 <? ncid)%nat then None else
      let r1 := skipn ncid r0 in
      let ns := if bit_s ct then 2%nat else 1%nat in
      if (length r1 <? ns)%nat then None else
      let r2 := skipn ns r1 in
      let nl := if bit_l ct then 2%nat else 0%nat in
      if (length r2 <? nl)%nat then None else
      Some (mk_uhdr (firstn ncid r0) (be_dec (firstn ns r1)) (bit_s ct)
                    (be_dec (firstn nl r2)) (bit_l ct) (ct mod 4),
            skipn nl r2)
  end.

Definition ct_len_ok (n : N) : bool := (16 <=? n) && (n <=? 16640).   (* isValidDTLSCiphertextRecordLen *)

(* CiphertextRecord13.Unmarshal: header, declared length (if any) equal to what follows, bounds *)
Definition crec_unmarshal (cidlen : nat) (b : bytes) : option (uhdr * bytes) :=
  match uh_unmarshal cidlen b with
  | None => None
  | Some (h, rest) =>
      if u_lbit h && negb (len rest =? u_len h) then None
      else if negb (ct_len_ok (len rest)) then None
      else Some (h, rest)
  end.

(* ------------------------------------------------------------------ inner plaintext *)

Fixpoint drop_zeros (l : bytes) : bytes :=
  match l with
  | b :: l' => if b =? 0 then drop_zeros l' else l
  | [] => []
  end.

(* InnerPlaintext.Unmarshal: strip trailing zeros, the last non-zero byte is the content type *)
Definition inner_unmarshal (b : bytes) : option (bytes * N) :=
  match drop_zeros (rev b) with
  | [] => None
  | t :: c => Some (rev c, t)
  end.

Definition inner_marshal (content : bytes) (t : N) (zeros : nat) : bytes :=
  content ++ t :: repeat 0 zeros.

Definition inner_type_ok (t : N) : bool :=
  (t =? 21) || (t =? 22) || (t =? 23) || (t =? 26) || (t =? 27).

(* ------------------------------------------------------------------ record numbers *)

(* conn.go reconstructSequenceNumber(partial uint16, seqBit bool, highest uint64), uint64 arithmetic *)
Definition reconstruct (partial : N) (sbit : bool) (highest : N) : N :=
  let window := if sbit then 65536 else 256 in
  let half := window / 2 in
  let expected := (highest + 1) mod w64 in
  let candidate := (expected / window) * window + partial mod window in
  if (candidate + half) mod w64 <=? expected then (candidate + window) mod w64
  else if ((expected + half) mod w64 <? candidate) && (window <=? candidate) then candidate - window
  else candidate.

(* applySequenceNumberMask13: m is uint16(mask[0])<<8 | uint16(mask[1]) *)
Definition apply_mask (h : uhdr) (m : N) : uhdr :=
  mk_uhdr (u_cid h)
          (if u_sbit h then N.lxor (u_seq h) (m mod 65536) else (N.lxor (u_seq h) (m / 256 mod 256)) mod 256)
          (u_sbit h) (u_len h) (u_lbit h) (u_elow h).

(* validateSequenceNumberLowBits13 *)
Definition lowbits_ok (h : uhdr) (q : N) : bool :=
  if u_sbit h then u_seq h =? q mod 65536 else u_seq h mod 256 =? q mod 256.

(* recordNonce13: the 12-byte IV with the 64-bit sequence number XORed into its last 8 bytes *)
Fixpoint xor_bytes (a b : bytes) : bytes :=
  match a, b with
  | x :: a', y :: b' => N.lxor x y :: xor_bytes a' b'
  | _, _ => []
  end.
Definition nonce13 (iv : bytes) (q : N) : bytes :=
  firstn 4 iv ++ xor_bytes (skipn 4 iv) (be_enc 8 q).

(* ------------------------------------------------------------------ per-epoch slices *)

Definition wentry : Type := (N * win)%type.      (* (maxSeq the detector was created with, detector) *)

Fixpoint set_nth {A} (n : nat) (x : A) (l : list A) : list A :=
  match n, l with
  | _, [] => []
  | O, _ :: l' => x :: l'
  | S n', y :: l' => y :: set_nth n' x l'
  end.

(* `for len(ReplayDetector) <= int(epoch) { append(New(window, maxSeq)) }` *)
Definition ensure_wins (W : nat) (maxseq : N) (e : N) (ws : list wentry) : list wentry :=
  ws ++ repeat (maxseq, win_init W) (S (N.to_nat e) - length ws).
Definition get_win (W : nat) (e : N) (ws : list wentry) : wentry :=
  nth (N.to_nat e) ws (maxseq64, win_init W).
Definition set_win (e : N) (x : wentry) (ws : list wentry) : list wentry := set_nth (N.to_nat e) x ws.

(* highestRemoteSequenceNumber / updateRemoteSequenceNumber *)
Definition get_high (e : N) (hs : list N) : N := nth (N.to_nat e) hs 0.
Definition update_high (e q : N) (hs : list N) : list N :=
  let hs' := hs ++ repeat 0 (S (N.to_nat e) - length hs) in
  if get_high e hs' <? q then set_nth (N.to_nat e) q hs' else hs'.

(* ------------------------------------------------------------------ receiver state *)

Record rstate := mk_rstate {
  r_epoch : N;               (* Common.remoteEpoch *)
  r_cur : option N;          (* TrafficKeyState.readCurrent (a generation is named by its epoch) *)
  r_old : list N;            (* TrafficKeyState.readOld: never pruned *)
  r_wins : list wentry;      (* Common.ReplayDetector, index = epoch *)
  r_high : list N;           (* Common.RemoteSequenceNumber, index = epoch *)
  r_queue : list bytes;      (* Conn.encryptedPackets (records, not datagrams) *)
  r_cid : bytes;             (* LocalConnectionIDForInboundRecords *)
  r_cidneg : bool;           (* State13.CID.Negotiated *)
  r_rrc : bool;              (* RRCNegotiated *)
  r_closed : bool;
  r_estab : bool;            (* handshakeEstablished: the handshake completed successfully *)
  r_early : list (bytes * N * N)   (* Conn.earlyApplicationData (with the record number each came under) *)
}.

Definition rinit (cid : bytes) (cidneg rrc : bool) : rstate :=
  mk_rstate 0 None [] [] [] [] cid cidneg rrc false false [].

Definition with_wins (s : rstate) (ws : list wentry) : rstate :=
  mk_rstate (r_epoch s) (r_cur s) (r_old s) ws (r_high s) (r_queue s) (r_cid s) (r_cidneg s) (r_rrc s) (r_closed s) (r_estab s) (r_early s).
Definition with_high (s : rstate) (hs : list N) : rstate :=
  mk_rstate (r_epoch s) (r_cur s) (r_old s) (r_wins s) hs (r_queue s) (r_cid s) (r_cidneg s) (r_rrc s) (r_closed s) (r_estab s) (r_early s).
Definition with_queue (s : rstate) (q : list bytes) : rstate :=
  mk_rstate (r_epoch s) (r_cur s) (r_old s) (r_wins s) (r_high s) q (r_cid s) (r_cidneg s) (r_rrc s) (r_closed s) (r_estab s) (r_early s).
Definition with_closed (s : rstate) : rstate :=
  mk_rstate (r_epoch s) (r_cur s) (r_old s) (r_wins s) (r_high s) (r_queue s) (r_cid s) (r_cidneg s) (r_rrc s) true (r_estab s) (r_early s).
Definition with_epoch (s : rstate) (e : N) : rstate :=
  mk_rstate e (r_cur s) (r_old s) (r_wins s) (r_high s) (r_queue s) (r_cid s) (r_cidneg s) (r_rrc s) (r_closed s) (r_estab s) (r_early s).
Definition with_estab (s : rstate) : rstate :=
  mk_rstate (r_epoch s) (r_cur s) (r_old s) (r_wins s) (r_high s) (r_queue s) (r_cid s) (r_cidneg s) (r_rrc s) (r_closed s) true [].
Definition with_early (s : rstate) (l : list (bytes * N * N)) : rstate :=
  mk_rstate (r_epoch s) (r_cur s) (r_old s) (r_wins s) (r_high s) (r_queue s) (r_cid s) (r_cidneg s) (r_rrc s) (r_closed s) (r_estab s) l.
Definition with_ext (s : rstate) (cid : bytes) (neg rrc : bool) : rstate :=
  mk_rstate (r_epoch s) (r_cur s) (r_old s) (r_wins s) (r_high s) (r_queue s) cid neg rrc (r_closed s) (r_estab s) (r_early s).

Definition mem_N (e : N) (l : list N) : bool := existsb (N.eqb e) l.

(* TrafficKeyState.Install(nil, read): the previous current generation moves to readOld unless it
   has the same epoch *)
Definition install_read (s : rstate) (e : N) : rstate :=
  let old' := match r_cur s with
              | Some p => if (p =? e) || mem_N p (r_old s) then r_old s else r_old s ++ [p]
              | None => r_old s
              end in
  mk_rstate (r_epoch s) (Some e) old' (r_wins s) (r_high s) (r_queue s) (r_cid s) (r_cidneg s) (r_rrc s) (r_closed s) (r_estab s) (r_early s).

(* TrafficKeyState.Read(epoch) found: hasInboundRecordProtection for LocalVersion 1.3 *)
Definition has_gen (s : rstate) (e : N) : bool :=
  match r_cur s with Some c => (c =? e) || mem_N e (r_old s) | None => mem_N e (r_old s) end.
Definition has_prot (s : rstate) : bool := has_gen s (r_epoch s).

(* ReadCandidates(epochLow): current first, then the old generations with these two low bits *)
Definition read_candidates (s : rstate) (elow : N) : list N :=
  (match r_cur s with Some c => if c mod 4 =? elow then [c] else [] | None => [] end) ++
  filter (fun e => e mod 4 =? elow) (r_old s).

(* readBufferLease.enqueue / enqueueEncryptedPackets; lease = false when replaying the queue *)
Definition enqueue (lease : bool) (s : rstate) (b : bytes) : rstate :=
  if lease && Nat.ltb (length (r_queue s)) max_queue then with_queue s (r_queue s ++ [b]) else s.

(* maxQueueableFutureEpoch for LocalVersion 1.3 and queueableCiphertextEpoch *)
Definition max_future (re : N) : N := if 2 <=? re then re + 1 else 2.
Definition queueable_epoch (elow re : N) : bool :=
  existsb (fun e => e mod 4 =? elow)
          (map (fun k => re + 1 + N.of_nat k) (seq 0 (N.to_nat (max_future re - re)))).

(* ------------------------------------------------------------------ outputs *)

Inductive out :=
| OMark (e q : N)                    (* replay slot committed (markPacketAsValid) *)
| ODeliver (p : bytes) (e q : N)     (* payload handed to Read (the handshake is complete) *)
| OPark (p : bytes) (e q : N)        (* payload parked until the local handshake completes (parkEarlyApplicationData) *)
| OEarly (p : bytes) (e q : N)       (* a parked payload is returned by Read, before anything else *)
| OHs (e q : N) (body : bytes)       (* handshake record accepted by the reassembly buffer, FSM woken; pending ACK for e >= 2 *)
| OAck (e q : N) (body : bytes)      (* ACK handed to the FSM *)
| OAlertIn (e q level desc : N)      (* a received alert is acted on *)
| ORrc (e q : N)
| OAlertOut (level desc : N)         (* alert written to the wire *)
| OClosed                            (* connection closed by the read loop *)
| OErr.                              (* error returned to the read loop (Read error once established) *)

Definition is_err (o : out) : bool := match o with OErr | OClosed => true | _ => false end.

Inductive content := CApp (p : bytes) | CAlert (level desc : N) | CAck | CRrc | CBad.

(* protocol.ACK.Unmarshal: uint16 length prefix covering the rest, a whole number of 16-byte entries *)
Definition ack_ok (b : bytes) : bool :=
  match b with
  | h :: l :: rest => (len rest =? h * 256 + l) && (len rest mod 16 =? 0)
  | _ => false
  end.
(* protocol.ReturnRoutabilityCheck.Unmarshal: unknown types are accepted whatever follows *)
Definition rrc_ok (b : bytes) : bool :=
  match b with
  | [] => false
  | t :: rest => (2 <? t) || (len rest =? 8)
  end.

(* RecordLayer.Unmarshal of the re-marshalled plaintext record, by content type *)
Definition decode_content (t : N) (body : bytes) : content :=
  if t =? 21 then match body with [l; d] => CAlert l d | _ => CBad end
  else if t =? 23 then CApp body
  else if t =? 26 then (if ack_ok body then CAck else CBad)
  else if t =? 27 then (if rrc_ok body then CRrc else CBad)
  else CBad.

(* FragmentBuffer.Push / pushHandshakeFragments on the body of a handshake record: a sequence of
   12-byte handshake headers each followed by fragment_length bytes (an empty body is accepted) *)
Fixpoint hs_frags_ok (fuel : nat) (b : bytes) : bool :=
  match b with
  | [] => true
  | _ :: _ =>
      match fuel with
      | O => false
      | S fuel' =>
          if (length b <? 12)%nat then false else
          let n := (12 + N.to_nat (be_dec (firstn 3 (skipn 9 b))))%nat in
          if (length b <? n)%nat then false else hs_frags_ok fuel' (skipn n b)
      end
  end.

Section Model.
  (* record-number mask of generation (epoch) e for an encrypted record: uint16(mask[0])<<8|mask[1] *)
  Variable snmask : N -> bytes -> N.
  (* AEAD open of generation e with the nonce built from the 64-bit record number, additional data, ciphertext *)
  Variable aopen : N -> N -> bytes -> bytes -> option bytes.
  (* the reassembly buffer has room for this handshake record (fragmentBufferMaxSize / MaxCount;
     C12's subject, the state of that buffer is not modelled here) *)
  Variable hs_room : bytes -> bool.
  Definition hs_ok (body : bytes) : bool := hs_frags_ok (length body) body && hs_room body.

  (* ciphertextCIDPolicy: (expected, allowed) *)
  Definition cid_policy (s : rstate) : bool * bool :=
    let has := negb (is_nil (r_cid s)) in
    if r_cidneg s then (has, has) else (false, has).

  (* unmarshalCiphertextRecord *)
  Definition parse_crec (s : rstate) (b : bytes) : option (uhdr * bytes) :=
    let hascid := bit_c (hd 0 b) in
    let '(expected, allowed) := cid_policy s in
    if hascid && negb allowed then None else
    match crec_unmarshal (if hascid then length (r_cid s) else 0%nat) b with
    | None => None
    | Some (h, ct) =>
        if expected && negb hascid then None
        else if hascid && negb (bytes_eqb (r_cid s) (u_cid h)) then None
        else Some (h, ct)
    end.

  (* openCiphertextWithGeneration: result (content, inner type, record number) *)
  Definition open_gen (s : rstate) (h : uhdr) (ct : bytes) (e : N) : option (bytes * N * N) :=
    let clear := apply_mask h (snmask e ct) in
    let q := reconstruct (u_seq clear) (u_sbit clear) (get_high e (r_high s)) in
    if negb (lowbits_ok clear q) then None else
    match aopen e q (uh_marshal clear) ct with
    | None => None
    | Some inner =>
        match inner_unmarshal inner with
        | None => None
        | Some (body, t) => if inner_type_ok t then Some (body, t, q) else None
        end
    end.

  (* the candidate loop of openCiphertextRecord: (eligible, first generation that opens) *)
  Fixpoint open_cands (s : rstate) (h : uhdr) (ct : bytes) (cs : list N) : bool * option (bytes * N * N * N) :=
    match cs with
    | [] => (false, None)
    | e :: cs' =>
        if r_epoch s <? e then open_cands s h ct cs'
        else match open_gen s h ct e with
             | Some (body, t, q) => (true, Some (body, t, q, e))
             | None => (true, snd (open_cands s h ct cs'))
             end
    end.

  Inductive open_res :=
  | OpenOk (body : bytes) (t q e : N)
  | OpenInvalidEpoch               (* no retained generation with these epoch bits that is authorised *)
  | OpenFail.

  Definition open_record (s : rstate) (h : uhdr) (ct : bytes) : open_res :=
    match open_cands s h ct (read_candidates s (u_elow h)) with
    | (_, Some (body, t, q, e)) => OpenOk body t q e
    | (false, None) => OpenInvalidEpoch
    | (true, None) => OpenFail
    end.

  (* markPacketAsValid of protectedReplayMarker: accept, and raise RemoteSequenceNumber when the
     detector reports the newest number *)
  Definition mark (W : nat) (s : rstate) (e q : N) : rstate :=
    let '(mx, w) := get_win W e (r_wins s) in
    let '(w', isl) := accept mx w q in
    let s1 := with_wins s (set_win e (mx, w') (r_wins s)) in
    if isl then with_high s1 (update_high e q (r_high s1)) else s1.

  (* the marker handed to the content handlers: legacyReplayMarker's for an unprotected (epoch 0)
     record does nothing - nothing authenticates its number, it must not move the window *)
  Definition commit (W : nat) (prot : bool) (s : rstate) (e q : N) : rstate * list out :=
    if prot then (mark W s e q, [OMark e q]) else (s, []).

  (* handleIncomingPacket after the record was prepared: bufferHandshakeRecord, RecordLayer.Unmarshal,
     handleRecordContent; processIncomingPacket sends the response alert *)
  Definition dispatch (W : nat) (prot : bool) (s : rstate) (e q t : N) (body : bytes) : rstate * list out :=
    let c := commit W prot s e q in
    if t =? 22 then
      (* bufferHandshakeRecord: once the handshake is complete an unprotected handshake record is
         dropped before reassembly (nothing reaches the post-handshake state machine) *)
      (if r_estab s && (e =? 0) then (s, [])
       else if hs_ok body then (fst c, snd c ++ [OHs e q body]) else (s, []))
    else
    match decode_content t body with
    | CBad => if e =? 0 then (s, []) else (s, [OAlertOut 2 50; OErr])
    | CAck =>
        (* an unprotected ACK is discarded: nothing vouches for it *)
        if e =? 0 then (s, []) else (fst c, snd c ++ [OAck e q body])
    | CAlert level desc =>
        (* once the handshake is complete an unprotected alert is discarded: no reply, no close, no error *)
        if r_estab s && (e =? 0) then (s, []) else
        let reply := if desc =? 0 then [OAlertOut 1 0] else [] in
        if (level =? 2) || (desc =? 0)
        then (with_closed (fst c), snd c ++ OAlertIn e q level desc :: reply ++ [OClosed])
        else (fst c, snd c ++ OAlertIn e q level desc :: reply ++ [OErr])
    | CApp p =>
        (* unprotected application data is refused silently; before the local handshake has completed
           the payload is parked (at most 100, the rest is lost) and Read returns it first *)
        if e =? 0 then (s, [])
        else if r_estab s then (fst c, snd c ++ [ODeliver p e q])
        else if Nat.ltb (length (r_early s)) max_queue
             then (with_early (fst c) (r_early s ++ [(p, e, q)]), snd c ++ [OPark p e q])
             else c
    | CRrc =>
        if (e =? 0) || negb (r_rrc s) then (s, [OAlertOut 2 10; OErr])
        else (fst c, snd c ++ [ORrc e q])
    end.

  (* prepareCiphertextPacket and what follows *)
  Definition recv_cipher (W : nat) (lease : bool) (s : rstate) (b : bytes) : rstate * list out :=
    match parse_crec s b with
    | None => (s, [])
    | Some (h, ct) =>
        if negb (has_prot s) then (enqueue lease s b, []) else
        match open_record s h ct with
        | OpenInvalidEpoch =>
            ((if queueable_epoch (u_elow h) (r_epoch s) then enqueue lease s b else s), [])
        | OpenFail => (s, [])
        | OpenOk body t q e =>
            (* protectedReplayMarker: detectors created on demand, Check *)
            let s1 := with_wins s (ensure_wins W maxseq64 e (r_wins s)) in
            let '(mx, w) := get_win W e (r_wins s1) in
            if negb (check mx w q) then (s1, [])
            (* marshalInnerPlaintextRecord: Header.Marshal refuses numbers above 2^48-1 *)
            else if maxseq48 <? q then (s1, [])
            else dispatch W true s1 e q t body
        end
    end.

  (* prepareLegacyPacket on a DTLS 1.3 connection.  UnpackDatagram13 lets only alert / handshake /
     ACK typed legacy records through; a non-zero epoch claims the DTLS 1.2 protection, which the
     TLS 1.3 suites refuse (Decrypt always fails). *)
  Definition legacy_version_ok (b : bytes) : bool :=
    (nth 1 b 0 =? 254) && ((nth 2 b 0 =? 255) || (nth 2 b 0 =? 253)).
  Definition recv_legacy (W : nat) (lease : bool) (s : rstate) (b : bytes) : rstate * list out :=
    if (length b <? 13)%nat then (s, []) else
    if negb (legacy_version_ok b) then (s, []) else
    let t := hd 0 b in
    let e := be_dec (firstn 2 (skipn 3 b)) in
    let q := be_dec (firstn 6 (skipn 5 b)) in
    (* handleFutureLegacyPacket *)
    if r_epoch s <? e then
      ((if max_future (r_epoch s) <? e then s else enqueue lease s b), [])
    else
    (* legacyReplayMarker *)
    let s1 := with_wins s (ensure_wins W maxseq48 e (r_wins s)) in
    let '(mx, w) := get_win W e (r_wins s1) in
    if negb (check mx w q) then (s1, [])
    else if e =? 0 then dispatch W false s1 e q t (skipn 13 b)
    else if negb (has_prot s1) then (enqueue lease s1 b, [])
    else (s1, []).

  (* processIncomingPacket on one record *)
  Definition recv_record (W : nat) (lease : bool) (s : rstate) (b : bytes) : rstate * list out :=
    match b with
    | [] => (s, [])
    | ct :: _ => if is_ct13 ct then recv_cipher W lease s b else recv_legacy W lease s b
    end.

  (* the loops of readAndProcessDatagram / handleQueuedPackets stop at the first error *)
  Fixpoint recv_list (W : nat) (lease : bool) (s : rstate) (rs : list bytes) : rstate * list out :=
    match rs with
    | [] => (s, [])
    | r :: rs' =>
        let '(s1, o1) := recv_record W lease s r in
        if existsb is_err o1 then (s1, o1) else
        let '(s2, o2) := recv_list W lease s1 rs' in (s2, o1 ++ o2)
    end.

  (* ---------------------------------------------------------------- UnpackDatagram13 *)

  Definition is_plain13 (ct : N) : bool := (ct =? 21) || (ct =? 22) || (ct =? 26).

  (* result: the records; None = the whole datagram is discarded *)
  Fixpoint unpack13 (cidlen : nat) (req : bool) (first : option bytes) (fuel : nat) (b : bytes)
    : option (list bytes) :=
    match b with
    | [] => Some []
    | ct :: _ =>
        match fuel with
        | O => None
        | S fuel' =>
            if is_plain13 ct then
              if (length b <=? 13)%nat then None else
              let n := (13 + N.to_nat (be_dec (firstn 2 (skipn 11 b))))%nat in
              if (length b <? n)%nat then None else
              match unpack13 cidlen req first fuel' (skipn n b) with
              | Some rs => Some (firstn n b :: rs)
              | None => None
              end
            else if negb (is_ct13 ct) then None
            else
              let hascid := bit_c ct in
              (* validateCiphertextCIDBit *)
              if (req && (0 <? cidlen)%nat && negb hascid) || ((cidlen =? 0)%nat && hascid) then None else
              match uh_unmarshal (if hascid then cidlen else 0%nat) b with
              | None => None
              | Some (h, rest) =>
                  (* isMismatchedCiphertextCID *)
                  let '(mismatch, first') :=
                    if (cidlen =? 0)%nat then (false, first)
                    else match first with
                         | None => (false, Some (u_cid h))
                         | Some c0 => (negb (bytes_eqb c0 (u_cid h)), first)
                         end in
                  if negb (u_lbit h) then
                    if negb (ct_len_ok (len rest)) then None
                    else if mismatch then Some [] else Some [b]
                  else if negb (ct_len_ok (u_len h)) then None
                  else if len rest <? u_len h then None
                  else if mismatch then Some []
                  else
                    let n := (length b - length rest + N.to_nat (u_len h))%nat in
                    match unpack13 cidlen req first' fuel' (skipn n b) with
                    | Some rs => Some (firstn n b :: rs)
                    | None => None
                    end
              end
        end
    end.

  Definition unpack_datagram13 (s : rstate) (d : bytes) : option (list bytes) :=
    unpack13 (length (r_cid s)) (r_cidneg s) None (length d) d.

  (* one datagram read from the socket (readAndProcessDatagram) *)
  Definition recv13 (W : nat) (s : rstate) (d : bytes) : rstate * list out :=
    if r_closed s then (s, []) else
    match unpack_datagram13 s d with
    | None => (s, [])
    | Some rs => recv_list W true s rs
    end.

  (* ---------------------------------------------------------------- histories *)

  Inductive op :=
  | Arrive (d : bytes)       (* a datagram read from the socket *)
  | InstallRead (e : N)      (* TrafficKeys.Install(nil, generation of epoch e): handshake keys, application keys, received KeyUpdate *)
  | SetRemoteEpoch (e : N)
  | SetEstablished           (* the handshake completed (handshakeEstablished) *)
  | SetExt (cid : bytes) (neg rrc : bool)   (* CommitNegotiatedExtensions: connection id expected on inbound records, RRC *)
  | Drain.                   (* handleQueuedPackets *)

  Definition step (W : nat) (s : rstate) (o : op) : rstate * list out :=
    match o with
    | Arrive d => recv13 W s d
    | InstallRead e => (install_read s e, [])
    | SetRemoteEpoch e => (with_epoch s e, [])
    | SetEstablished => (with_estab s, map (fun x : bytes * N * N => OEarly (fst (fst x)) (snd (fst x)) (snd x)) (r_early s))
    | SetExt cid neg rrc => (with_ext s cid neg rrc, [])
    | Drain => if r_closed s then (s, []) else recv_list W false (with_queue s []) (r_queue s)
    end.

  Fixpoint run_ops (W : nat) (s : rstate) (ops : list op) : rstate * list out :=
    match ops with
    | [] => (s, [])
    | o :: ops' =>
        let '(s1, o1) := step W s o in
        let '(s2, o2) := run_ops W s1 ops' in (s2, o1 ++ o2)
    end.
End Model.

(* projections of an output trace *)
Fixpoint marks (os : list out) : list (N * N) :=
  match os with
  | [] => []
  | OMark e q :: os' => (e, q) :: marks os'
  | _ :: os' => marks os'
  end.

(* payloads accepted for Read: handed over at once, or parked until the handshake completes *)
Fixpoint deliveries (os : list out) : list (bytes * N * N) :=
  match os with
  | [] => []
  | ODeliver p e q :: os' => (p, e, q) :: deliveries os'
  | OPark p e q :: os' => (p, e, q) :: deliveries os'
  | _ :: os' => deliveries os'
  end.

(* what Read returns, in order *)
Fixpoint reads (os : list out) : list (bytes * N * N) :=
  match os with
  | [] => []
  | ODeliver p e q :: os' => (p, e, q) :: reads os'
  | OEarly p e q :: os' => (p, e, q) :: reads os'
  | _ :: os' => reads os'
  end.

(* every output except the internal commit marker *)
Definition visible (o : out) : bool := match o with OMark _ _ => false | _ => true end.

(* ------------------------------------------------------------------ send side *)

Record sstate := mk_sstate {
  s_ctr : list N;            (* Common.LocalSequenceNumber, index = epoch *)
  s_wcur : option N;         (* TrafficKeyState.writeCurrent *)
  s_wold : list N;           (* TrafficKeyState.writeOld *)
  s_lepoch : N;              (* Common.localEpoch *)
  s_cid : bytes              (* State13.CID.Send.Active when UseCID, else [] *)
}.

Definition sinit (cid : bytes) : sstate := mk_sstate [] None [] 0 cid.

Definition get_ctr (e : N) (c : list N) : N := nth (N.to_nat e) c 0.

(* nextLocalSequenceNumber: the counter is incremented even when the call fails *)
Definition next_seq (st : sstate) (e : N) : sstate * option N :=
  let c := s_ctr st ++ repeat 0 (S (N.to_nat e) - length (s_ctr st)) in
  let n := get_ctr e c in
  (mk_sstate (set_nth (N.to_nat e) ((n + 1) mod w64) c) (s_wcur st) (s_wold st) (s_lepoch st) (s_cid st),
   if maxseq48 <? n then None else Some n).

Definition has_wgen (st : sstate) (e : N) : bool :=
  match s_wcur st with Some c => (c =? e) || mem_N e (s_wold st) | None => mem_N e (s_wold st) end.

(* what one protected record emission produces: the sealed tuple and the wire bytes *)
Record emitted := mk_emitted {
  em_epoch : N; em_seq : N; em_aad : bytes; em_ct : bytes; em_inner : bytes; em_wire : bytes }.

Inductive sop :=
| SWrite (t : N) (body : bytes)          (* application data / alert / ACK at the current local epoch *)
| SWriteAt (e t : N) (body : bytes)      (* handshake fragment or retransmission at a given epoch *)
| SInstallWrite (e : N)                  (* handshake / application keys: Install(write, _) *)
| SSetLocalEpoch (e : N)
| SCommitKeyUpdate.                      (* commitLocalKeyUpdate: next generation at epoch+1 *)

Definition install_write (st : sstate) (e : N) : sstate :=
  let old' := match s_wcur st with
              | Some p => if (p =? e) || mem_N p (s_wold st) then s_wold st else s_wold st ++ [p]
              | None => s_wold st
              end in
  mk_sstate (s_ctr st) (Some e) old' (s_lepoch st) (s_cid st).

Section SendModel.
  Variable snmask : N -> bytes -> N.
  (* AEAD seal of generation e: record number, additional data, inner plaintext -> ciphertext *)
  Variable aseal : N -> N -> bytes -> bytes -> bytes.
  Variable overhead : N.     (* aead.Overhead(): 16 for the three suites *)

  (* processPacket / processProtectedHandshakePacketTracked -> sealRecordContent -> Seal -> Marshal:
     always a 16-bit sequence number and a length field; the connection id when one is in use *)
  Definition send_record (st : sstate) (e t : N) (body : bytes) : sstate * option emitted :=
    let '(st1, oq) := next_seq st e in
    match oq with
    | None => (st1, None)                                  (* ErrSequenceNumberOverflow *)
    | Some q =>
        if negb (has_wgen st1 e) then (st1, None)          (* no write generation for this epoch *)
        else if 16384 <? len body then (st1, None)         (* maxDTLSPlaintextRecordLen13 *)
        else
          let inner := inner_marshal body t 0 in
          if 16640 <? len inner + overhead then (st1, None)
          else
            let clear := mk_uhdr (s_cid st1) (q mod 65536) true (len inner + overhead) true (e mod 4) in
            let ct := aseal e q (uh_marshal clear) inner in
            (* CiphertextRecord13.Marshal: bounds on the ciphertext, Length := len(EncryptedRecord) *)
            if negb (ct_len_ok (len ct)) then (st1, None)
            else
              let masked := apply_mask (mk_uhdr (s_cid st1) (q mod 65536) true (len ct) true (e mod 4))
                                       (snmask e ct) in
              (st1, Some (mk_emitted e q (uh_marshal clear) ct inner (uh_marshal masked ++ ct)))
    end.

  Definition sstep (st : sstate) (o : sop) : sstate * list emitted :=
    match o with
    | SWrite t body =>
        let '(st1, r) := send_record st (s_lepoch st) t body in
        (st1, match r with Some x => [x] | None => [] end)
    | SWriteAt e t body =>
        let '(st1, r) := send_record st e t body in
        (st1, match r with Some x => [x] | None => [] end)
    | SInstallWrite e => (install_write st e, [])
    | SSetLocalEpoch e => (mk_sstate (s_ctr st) (s_wcur st) (s_wold st) e (s_cid st), [])
    | SCommitKeyUpdate =>
        (* validateNextWriteGeneration: current write generation is the local epoch and not 65535 *)
        match s_wcur st with
        | Some c =>
            if (c =? 65535) || negb (c =? s_lepoch st) then (st, [])
            else let st1 := install_write st (c + 1) in
                 (mk_sstate (s_ctr st1) (s_wcur st1) (s_wold st1) (c + 1) (s_cid st1), [])
        | None => (st, [])
        end
    end.

  Fixpoint srun (st : sstate) (ops : list sop) : sstate * list emitted :=
    match ops with
    | [] => (st, [])
    | o :: ops' =>
        let '(st1, l1) := sstep st o in
        let '(st2, l2) := srun st1 ops' in (st2, l1 ++ l2)
    end.
End SendModel.
