(* rec13 - harness-facing evaluation of Rec/Rec13.v.
   unit cases: the pure functions against the real ones;
   e2e cases: the receive path on real datagrams, with the AEAD instantiated by the log of tuples
   the peer sealed (ideal AEAD: opens exactly what was sealed) and the record-number mask by the
   table of values the real keys produce for the ciphertexts at hand;
   send cases: record numbers of whole sessions against the allocation model. *)
From DtlsV Require Import Lib.Bytes Rec.Window Rec.Rec13.
Open Scope N_scope.

Fixpoint mismatches_from {A} (ok : A -> bool) (i : N) (l : list A) : list N :=
  match l with
  | [] => []
  | c :: l' => if ok c then mismatches_from ok (i + 1) l' else i :: mismatches_from ok (i + 1) l'
  end.
Definition mismatches {A} (ok : A -> bool) (l : list A) : list N := mismatches_from ok 0 l.

Fixpoint list_eqb {A} (eqb : A -> A -> bool) (a b : list A) : bool :=
  match a, b with
  | [], [] => true
  | x :: a', y :: b' => eqb x y && list_eqb eqb a' b'
  | _, _ => false
  end.

Definition opt_eqb {A} (eqb : A -> A -> bool) (a b : option A) : bool :=
  match a, b with
  | None, None => true
  | Some x, Some y => eqb x y
  | _, _ => false
  end.

Definition subset_N (a b : list N) : bool := forallb (fun x => mem_N x b) a.

(* ------------------------------------------------------------------ unit cases *)

Inductive ucase :=
| UHun (cidlen : nat) (b : bytes) (ok : bool) (cid : bytes) (sq : N) (sbit : bool) (ln : N) (lbit : bool) (elow : N) (consumed : nat)
| UHmar (cid : bytes) (sq : N) (sbit : bool) (ln : N) (lbit : bool) (elow : N) (outb : bytes)
| UCrec (cidlen : nat) (b : bytes) (ok : bool) (cid : bytes) (sq : N) (sbit : bool) (ln : N) (lbit : bool) (elow : N) (enc : bytes)
| UUnpack (cidlen : nat) (req : bool) (b : bytes) (ok : bool) (recs : list bytes)
| UInner (b : bytes) (ok : bool) (body : bytes) (t : N) (zeros : nat)
| URecon (p : N) (sbit : bool) (h : N) (r : N)
| UQueueable (elow re : N) (ok : bool) (mx : N)
| UAck (b : bytes) (ok : bool)
| URrc (b : bytes) (ok : bool)
| UCands (elow : N) (installs : list N) (cands : list N)
| UHasgen (e : N) (installs : list N) (ok : bool)
| UMask (sq : N) (sbit : bool) (m0 m1 : N) (r : N)
| ULow (sq : N) (sbit : bool) (q : N) (ok : bool)
| UNonce (iv : bytes) (q : N) (ok : bool) (r : bytes).

Definition uhdr_eqb (h : uhdr) (cid : bytes) (sq : N) (sbit : bool) (ln : N) (lbit : bool) (elow : N) : bool :=
  bytes_eqb (u_cid h) cid && (u_seq h =? sq) && Bool.eqb (u_sbit h) sbit && (u_len h =? ln) &&
  Bool.eqb (u_lbit h) lbit && (u_elow h =? elow).

Definition installs_state (l : list N) : rstate := fold_left install_read l (rinit [] false false).

Definition unit_ok (c : ucase) : bool :=
  match c with
  | UHun cidlen b ok cid sq sbit ln lbit elow consumed =>
      match uh_unmarshal cidlen b with
      | None => negb ok
      | Some (h, rest) => ok && uhdr_eqb h cid sq sbit ln lbit elow && Nat.eqb (length b - length rest) consumed
      end
  | UHmar cid sq sbit ln lbit elow outb => bytes_eqb (uh_marshal (mk_uhdr cid sq sbit ln lbit elow)) outb
  | UCrec cidlen b ok cid sq sbit ln lbit elow enc =>
      match crec_unmarshal cidlen b with
      | None => negb ok
      | Some (h, ct) => ok && uhdr_eqb h cid sq sbit ln lbit elow && bytes_eqb ct enc
      end
  | UUnpack cidlen req b ok recs =>
      match unpack13 cidlen req None (length b) b with
      | None => negb ok
      | Some rs => ok && list_eqb bytes_eqb rs recs
      end
  | UInner b ok body t zeros =>
      match inner_unmarshal b with
      | None => negb ok
      | Some (c, t') => ok && bytes_eqb c body && (t' =? t) &&
                        bytes_eqb (inner_marshal c t' zeros) b
      end
  | URecon p sbit h r => reconstruct p sbit h =? r
  | UQueueable elow re ok mx => Bool.eqb (queueable_epoch elow re) ok && (max_future re =? mx)
  | UAck b ok => Bool.eqb (ack_ok b) ok
  | URrc b ok => Bool.eqb (rrc_ok b) ok
  | UCands elow installs cands =>
      let s := installs_state installs in
      let m := read_candidates s elow in
      Nat.eqb (length m) (length cands) && subset_N m cands && subset_N cands m &&
      match r_cur s with
      | Some c => if c mod 4 =? elow then opt_eqb N.eqb (hd_error cands) (Some c) else true
      | None => true
      end
  | UHasgen e installs ok => Bool.eqb (has_gen (installs_state installs) e) ok
  | UMask sq sbit m0 m1 r => u_seq (apply_mask (mk_uhdr [] sq sbit 0 false 0) (m0 * 256 + m1)) =? r
  | ULow sq sbit q ok => Bool.eqb (lowbits_ok (mk_uhdr [] sq sbit 0 false 0) q) ok
  | UNonce iv q ok r =>
      if Nat.eqb (length iv) 12 then ok && bytes_eqb (nonce13 iv q) r else negb ok
  end.

(* ------------------------------------------------------------------ end-to-end receive cases *)

(* the peer's log of sealed records: (generation epoch, record number, additional data, ciphertext, inner plaintext) *)
Definition sealed : Type := (N * N * bytes * bytes * bytes)%type.

Fixpoint log_open (log : list sealed) (e q : N) (aad ct : bytes) : option bytes :=
  match log with
  | [] => None
  | (e', q', aad', ct', inner) :: log' =>
      if (e =? e') && (q =? q') && bytes_eqb aad aad' && bytes_eqb ct ct' then Some inner
      else log_open log' e q aad ct
  end.

(* mask table: (generation epoch, first 16 bytes of the ciphertext, mask[0]<<8|mask[1]) *)
Fixpoint tab_mask (tab : list (N * bytes * N)) (e : N) (ct : bytes) : N :=
  match tab with
  | [] => 0
  | (e', sample, m) :: tab' => if (e =? e') && bytes_eqb (firstn 16 ct) sample then m else tab_mask tab' e ct
  end.

(* projected state: remote epoch, current read generation, old generations (sorted by the harness),
   per-epoch detectors (created with 2^48-1?, latest, bitmap), per-epoch highest numbers, queue length *)
Definition pstate : Type := (N * option N * list N * list (bool * N * list N) * list N * nat * nat)%type.

Definition bitmap_of (m : list bool) : N :=
  fold_right (fun (b : bool) acc => 2 * acc + (if b then 1 else 0)) 0 m.

Fixpoint bits_from (fuel : nat) (i n : N) : list bool :=
  match fuel with
  | O => []
  | S fuel' => N.testbit n i :: bits_from fuel' (i + 1) n
  end.
(* the detector's bitmap as the implementation keeps it: 64-bit words, least significant first *)
Definition mask_of_words (W : nat) (ws : list N) : list bool := firstn W (flat_map (bits_from 64 0) ws).
Fixpoint words_of (fuel : nat) (m : list bool) : list N :=
  match fuel with
  | O => []
  | S fuel' => match m with
               | [] => []
               | _ => bitmap_of (firstn 64 m) :: words_of fuel' (skipn 64 m)
               end
  end.

Fixpoint insert_sorted (x : N) (l : list N) : list N :=
  match l with
  | [] => [x]
  | y :: l' => if x <=? y then x :: l else y :: insert_sorted x l'
  end.
Definition sort_N (l : list N) : list N := fold_right insert_sorted [] l.

Definition project_state (s : rstate) : pstate :=
  (r_epoch s, r_cur s, sort_N (r_old s),
   map (fun x : wentry => (fst x =? maxseq48, latest (snd x), words_of (length (mask (snd x))) (mask (snd x)))) (r_wins s),
   r_high s, length (r_queue s), length (r_early s)).

Definition wtriple_eqb (a b : bool * N * list N) : bool :=
  let '(a1, a2, a3) := a in let '(b1, b2, b3) := b in Bool.eqb a1 b1 && (a2 =? b2) && list_eqb N.eqb a3 b3.

Definition pstate_eqb (a b : pstate) : bool :=
  let '(ae, ac, ao, aw, ah, aq, ay) := a in
  let '(be, bc, bo, bw, bh, bq, by_) := b in
  (ae =? be) && opt_eqb N.eqb ac bc && list_eqb N.eqb ao bo && list_eqb wtriple_eqb aw bw &&
  list_eqb N.eqb ah bh && Nat.eqb aq bq && Nat.eqb ay by_.

(* observation of one step: payloads returned by Read, (epoch, number) of records handed to the
   handshake layer (handshake + ACK records: seen as pending ACK entries / FSM wake-ups is not
   observable, so only their commits show in the state), alerts written, errors surfaced,
   connection closed, state afterwards *)
Definition obs : Type := (list bytes * list (N * N) * N * bool * pstate)%type.
(* as given by the harness: the state is omitted when it did not change *)
Definition hobs : Type := (list bytes * list (N * N) * N * bool * option pstate)%type.
Definition expand_obs (prev : pstate) (o : hobs) : obs :=
  let '(d, a, n, c, p) := o in (d, a, n, c, match p with Some x => x | None => prev end).
Definition obs_state (o : obs) : pstate := let '(_, _, _, _, p) := o in p.

Definition delivered (os : list out) : list bytes := map (fun x : bytes * N * N => fst (fst x)) (reads os).
Fixpoint alerts_out (os : list out) : list (N * N) :=
  match os with
  | [] => []
  | OAlertOut l d :: os' => (l, d) :: alerts_out os'
  | _ :: os' => alerts_out os'
  end.
Fixpoint count_err (os : list out) : N :=
  match os with
  | [] => 0
  | OErr :: os' => 1 + count_err os'
  | _ :: os' => count_err os'
  end.
Definition has_closed (os : list out) : bool := existsb (fun o => match o with OClosed => true | _ => false end) os.

Definition pair_eqb (a b : N * N) : bool := (fst a =? fst b) && (snd a =? snd b).

Definition project (s : rstate) (os : list out) : obs :=
  (delivered os, alerts_out os, count_err os, r_closed s, project_state s).

Definition obs_eqb (a b : obs) : bool :=
  let '(ad, aa, an, ac, ap) := a in
  let '(bd, ba, bn, bc, bp) := b in
  list_eqb bytes_eqb ad bd && list_eqb pair_eqb aa ba && (an =? bn) && Bool.eqb ac bc && pstate_eqb ap bp.

(* initial state given by its projection (the queue is given by its records) *)
Definition mk_state (W : nat) (re : N) (cur : option N) (old : list N) (wins : list (bool * N * list N))
  (high : list N) (queue : list bytes) (cid : bytes) (cidneg rrc estab : bool) (early : list bytes) : rstate :=
  mk_rstate re cur old
    (map (fun t : bool * N * list N => let '(m48, l, bm) := t in
            ((if m48 then maxseq48 else maxseq64), {| latest := l; mask := mask_of_words W bm |})) wins)
    high queue cid cidneg rrc false estab (map (fun p => (p, 0, 0)) early).

Record e2e_case := mk_e2e {
  ec_w : nat;
  ec_init : rstate;
  ec_log : list sealed;
  ec_masks : list (N * bytes * N);
  ec_steps : list (list op * hobs)
}.

Fixpoint check_steps (W : nat) (snmask : N -> bytes -> N) (aopen : N -> N -> bytes -> bytes -> option bytes)
  (s : rstate) (prev : pstate) (steps : list (list op * hobs)) (i : N) : option (N * obs) :=
  match steps with
  | [] => None
  | (ops, ho) :: rest =>
      let o := expand_obs prev ho in
      let '(s', outs) := run_ops snmask aopen (fun _ => true) W s ops in
      let p := project s' outs in
      if obs_eqb p o then check_steps W snmask aopen s' (obs_state o) rest (i + 1) else Some (i, p)
  end.

(* first step whose observation differs, with what the model expected *)
Definition e2e_first_bad (c : e2e_case) : option (N * obs) :=
  check_steps (ec_w c) (tab_mask (ec_masks c)) (log_open (ec_log c)) (ec_init c)
              (project_state (ec_init c)) (ec_steps c) 0.

Definition e2e_ok (c : e2e_case) : bool :=
  match e2e_first_bad c with None => true | Some _ => false end.

(* ------------------------------------------------------------------ send cases *)

(* a session seen from one sender: the operations the harness performed / observed (installations of
   write generations, epoch changes, record emissions by epoch) and the (epoch, record number) of
   every record found on the wire, in emission order *)
Definition send_case : Type := (list sop * list (N * N))%type.

Definition send_ok (c : send_case) : bool :=
  let '(ops, observed) := c in
  let l := snd (srun (fun _ _ => 0) (fun _ _ _ inner => inner ++ repeat 0 16) 16 (sinit []) ops) in
  list_eqb pair_eqb (map (fun x => (em_epoch x, em_seq x)) l) observed.
