(* rec13 - proofs about the DTLS 1.3 record-layer model Rec/Rec13.v.
   C05: records that do not authenticate are inert (bounded queue slot at most), every visible
        effect of a protected record comes from a tuple the peer sealed, a record that opens is
        byte-for-byte a record the peer emitted; what unprotected (epoch 0) records still do.
   C06: at-most-once commit / delivery per (epoch, record number) over every history incl. key
        updates, per-epoch windows, generations are never dropped, record-number reconstruction.
   C09: record numbers strictly increase per epoch, never wrap, (key, nonce) pairs are unique.
   The AEAD idealisation is a Section hypothesis and appears as a premise of the closed theorems. *)
From DtlsV Require Import Lib.Bytes Rec.Window Rec.WindowSound Rec.Rec13.
From DtlsV Require Rec.RecvSound Rec.SendSound.
From Coq Require Import ZifyN ZifyNat ZifyBool Permutation.
Open Scope N_scope.

Notation Sof := RecvSound.Sof.
Notation sublist := RecvSound.sublist.

(* ------------------------------------------------------------------ lists indexed by epoch *)

Lemma length_set_nth {A} n (x : A) l : length (set_nth n x l) = length l.
Proof. revert n; induction l as [|y l IH]; intros [|n]; cbn; auto. Qed.

Lemma nth_set_nth_same {A} n (x d : A) l : (n < length l)%nat -> nth n (set_nth n x l) d = x.
Proof. revert n; induction l as [|y l IH]; intros [|n] H; cbn in *; try lia; auto. apply IH. lia. Qed.

Lemma nth_set_nth_other {A} n m (x d : A) l : n <> m -> nth m (set_nth n x l) d = nth m l d.
Proof.
  revert n m; induction l as [|y l IH]; intros [|n] [|m] H; cbn; auto; try lia.
Qed.

Lemma nth_repeat_in {A} (x d : A) k i : (i < k)%nat -> nth i (repeat x k) d = x.
Proof. revert i; induction k as [|k IH]; intros [|i] H; cbn; try lia; auto. apply IH. lia. Qed.

Lemma nth_app_repeat {A} (l : list A) (x d : A) k i :
  nth i (l ++ repeat x k) d = if (i <? length l)%nat then nth i l d
                              else if (i <? length l + k)%nat then x else d.
Proof.
  destruct (i <? length l)%nat eqn:E.
  - apply app_nth1. lia.
  - rewrite app_nth2 by lia.
    destruct (i <? length l + k)%nat eqn:E2.
    + apply nth_repeat_in. lia.
    + apply nth_overflow. rewrite repeat_length. lia.
Qed.

Lemma ensure_wins_length W mx e ws : (N.to_nat e < length (ensure_wins W mx e ws))%nat.
Proof. unfold ensure_wins. rewrite app_length, repeat_length. lia. Qed.

Lemma ensure_wins_length_ge W mx e ws : (length ws <= length (ensure_wins W mx e ws))%nat.
Proof. unfold ensure_wins. rewrite app_length. lia. Qed.

(* creating detectors never changes what an epoch's detector is, except its creation-time bound *)
Lemma get_win_ensure W mx e e2 ws :
  snd (get_win W e2 (ensure_wins W mx e ws)) = snd (get_win W e2 ws).
Proof.
  unfold get_win, ensure_wins. rewrite nth_app_repeat.
  destruct (N.to_nat e2 <? length ws)%nat eqn:E1; [reflexivity|].
  rewrite (nth_overflow ws) by lia.
  destruct (N.to_nat e2 <? length ws + (S (N.to_nat e) - length ws))%nat; reflexivity.
Qed.

Lemma get_win_ensure_fst W mx e e2 ws :
  fst (get_win W e2 (ensure_wins W mx e ws)) = fst (get_win W e2 ws) \/
  (fst (get_win W e2 (ensure_wins W mx e ws)) = mx /\ snd (get_win W e2 ws) = win_init W).
Proof.
  unfold get_win, ensure_wins. rewrite nth_app_repeat.
  destruct (N.to_nat e2 <? length ws)%nat eqn:E1; [now left|].
  rewrite (nth_overflow ws) by lia.
  destruct (N.to_nat e2 <? length ws + (S (N.to_nat e) - length ws))%nat; [right; split; reflexivity | now left].
Qed.

Lemma get_set_win_same W e x ws : (N.to_nat e < length ws)%nat -> get_win W e (set_win e x ws) = x.
Proof. intro H. unfold get_win, set_win. now apply nth_set_nth_same. Qed.

Lemma get_set_win_other W e e2 x ws : e2 <> e -> get_win W e2 (set_win e x ws) = get_win W e2 ws.
Proof. intro H. unfold get_win, set_win. apply nth_set_nth_other. lia. Qed.

Lemma get_high_update_same e q hs : get_high e (update_high e q hs) = N.max (get_high e hs) q.
Proof.
  unfold update_high. set (hs' := hs ++ repeat 0 (S (N.to_nat e) - length hs)).
  assert (Hg : get_high e hs' = get_high e hs).
  { unfold get_high, hs'. rewrite nth_app_repeat.
    destruct (N.to_nat e <? length hs)%nat eqn:E; [reflexivity|].
    rewrite (nth_overflow hs) by lia.
    destruct (N.to_nat e <? length hs + (S (N.to_nat e) - length hs))%nat; reflexivity. }
  assert (Hl : (N.to_nat e < length hs')%nat) by (unfold hs'; rewrite app_length, repeat_length; lia).
  destruct (get_high e hs' <? q) eqn:E.
  - unfold get_high at 1. rewrite nth_set_nth_same by exact Hl. lia.
  - rewrite Hg in *. lia.
Qed.

Lemma get_high_update_other e e2 q hs : e2 <> e -> get_high e2 (update_high e q hs) = get_high e2 hs.
Proof.
  intro Hne. unfold update_high. set (hs' := hs ++ repeat 0 (S (N.to_nat e) - length hs)).
  assert (Hg : get_high e2 hs' = get_high e2 hs).
  { unfold get_high, hs'. rewrite nth_app_repeat.
    destruct (N.to_nat e2 <? length hs)%nat eqn:E; [reflexivity|].
    rewrite (nth_overflow hs) by lia.
    destruct (N.to_nat e2 <? length hs + (S (N.to_nat e) - length hs))%nat; reflexivity. }
  destruct (get_high e hs' <? q); [|exact Hg].
  unfold get_high. rewrite nth_set_nth_other by lia. exact Hg.
Qed.


(* ------------------------------------------------------------------ record-number reconstruction *)


Definition rwin (sbit : bool) : N := if sbit then 65536 else 256.

Lemma reconstruct_nowrap p sbit h : h < 9223372036854775808 ->
  reconstruct p sbit h =
  let window := rwin sbit in let half := window / 2 in let expected := h + 1 in
  let candidate := (expected / window) * window + p mod window in
  if candidate + half <=? expected then candidate + window
  else if (expected + half <? candidate) && (window <=? candidate) then candidate - window
  else candidate.
Proof.
  intro Hh. unfold reconstruct, rwin, w64. cbn zeta.
  destruct sbit.
  - rewrite (N.mod_small (h + 1)) by lia.
    assert (Hc : (h + 1) / 65536 * 65536 + p mod 65536 < 9223372036854775808 + 65536) by lia.
    rewrite (N.mod_small (_ + 65536 / 2)) by lia.
    rewrite (N.mod_small (h + 1 + 65536 / 2)) by lia.
    rewrite (N.mod_small (_ + 65536)) by lia. reflexivity.
  - rewrite (N.mod_small (h + 1)) by lia.
    assert (Hc : (h + 1) / 256 * 256 + p mod 256 < 9223372036854775808 + 256) by lia.
    rewrite (N.mod_small (_ + 256 / 2)) by lia.
    rewrite (N.mod_small (h + 1 + 256 / 2)) by lia.
    rewrite (N.mod_small (_ + 256)) by lia. reflexivity.
Qed.

Lemma reconstruct_lowbits p sbit h : h < 9223372036854775808 ->
  reconstruct p sbit h mod rwin sbit = p mod rwin sbit.
Proof.
  intro Hh. rewrite reconstruct_nowrap by exact Hh. cbn zeta. unfold rwin. destruct sbit.
  - destruct (_ <=? _) eqn:E1; [lia|]. destruct (_ && _) eqn:E2; lia.
  - destruct (_ <=? _) eqn:E1; [lia|]. destruct (_ && _) eqn:E2; lia.
Qed.

Lemma reconstruct_correct q sbit h : h < 9223372036854775808 ->
  h + 1 < q + rwin sbit / 2 -> q <= h + 1 + rwin sbit / 2 ->
  reconstruct (q mod rwin sbit) sbit h = q.
Proof.
  intros Hh H1 H2. rewrite reconstruct_nowrap by exact Hh. cbn zeta. unfold rwin in *. destruct sbit.
  - rewrite N.mod_mod by lia. destruct (_ <=? _) eqn:E1; [lia|]. destruct (_ && _) eqn:E2; lia.
  - rewrite N.mod_mod by lia. destruct (_ <=? _) eqn:E1; [lia|]. destruct (_ && _) eqn:E2; lia.
Qed.

Lemma reconstruct_range p sbit h : h < 9223372036854775808 ->
  let r := reconstruct p sbit h in
  (h + 1 < r + rwin sbit / 2 /\ r <= h + 1 + rwin sbit / 2) \/
  (r < rwin sbit /\ h + 1 + rwin sbit / 2 < r).
Proof.
  intro Hh. cbn zeta. rewrite reconstruct_nowrap by exact Hh. cbn zeta. unfold rwin. destruct sbit.
  - destruct (_ <=? _) eqn:E1; [lia|]. destruct (_ && _) eqn:E2; lia.
  - destruct (_ <=? _) eqn:E1; [lia|]. destruct (_ && _) eqn:E2; lia.
Qed.

(* ------------------------------------------------------------------ unified header: parse / marshal, mask *)


Lemma bytes_ok_firstn k (l : bytes) : bytes_ok l = true -> bytes_ok (firstn k l) = true.
Proof.
  revert k; induction l as [|x l IH]; intros [|k] H; cbn; auto.
  unfold bytes_ok in *. cbn [forallb] in *. apply andb_prop in H. destruct H as [H1 H2].
  rewrite H1. cbn. now apply IH.
Qed.

Lemma bytes_ok_skipn k (l : bytes) : bytes_ok l = true -> bytes_ok (skipn k l) = true.
Proof.
  revert k; induction l as [|x l IH]; intros [|k] H; cbn; auto.
  unfold bytes_ok in *. cbn [forallb] in *. apply andb_prop in H. destruct H as [H1 H2]. now apply IH.
Qed.

Lemma be_enc_dec_firstn k (l : bytes) : bytes_ok l = true -> (k <= length l)%nat ->
  be_enc k (be_dec (firstn k l)) = firstn k l.
Proof.
  intros Hok Hl. pose proof (be_enc_dec (firstn k l) (bytes_ok_firstn k l Hok)) as H.
  rewrite firstn_length in H. replace (Nat.min k (length l)) with k in H by lia. exact H.
Qed.

Lemma flags_byte ct : is_ct13 ct = true ->
  32 + (if bit_c ct then 16 else 0) + (if bit_s ct then 8 else 0) + (if bit_l ct then 4 else 0) + (ct mod 4) mod 4 = ct.
Proof.
  unfold is_ct13, bit_c, bit_s, bit_l. intro H.
  destruct (_ =? 1) eqn:E1; destruct ((ct / 8) mod 2 =? 1) eqn:E2; destruct ((ct / 4) mod 2 =? 1) eqn:E3; lia.
Qed.

(* parsing a header and marshalling it again gives back the very bytes *)
Lemma uh_unmarshal_inv n b h rest : bytes_ok b = true ->
  uh_unmarshal n b = Some (h, rest) -> (bit_c (hd 0 b) = true -> (0 < n)%nat) ->
  b = uh_marshal h ++ rest.
Proof.
  intros Hok Hu Hc. unfold uh_unmarshal in Hu. destruct b as [|ct r0]; [discriminate|].
  cbn [hd] in Hc.
  destruct (negb (is_ct13 ct)) eqn:Ect; [discriminate|]. apply negb_false_iff in Ect.
  set (ncid := if bit_c ct then n else 0%nat) in *.
  destruct (length r0 <? ncid)%nat eqn:E1; [discriminate|].
  set (r1 := skipn ncid r0) in *. set (ns := if bit_s ct then 2%nat else 1%nat) in *.
  destruct (length r1 <? ns)%nat eqn:E2; [discriminate|].
  set (r2 := skipn ns r1) in *. set (nl := if bit_l ct then 2%nat else 0%nat) in *.
  destruct (length r2 <? nl)%nat eqn:E3; [discriminate|].
  inversion Hu; subst h rest. clear Hu.
  assert (Hok0 : bytes_ok r0 = true).
  { unfold bytes_ok in *. cbn [forallb] in Hok. now apply andb_prop in Hok. }
  assert (Hok1 : bytes_ok r1 = true) by (apply bytes_ok_skipn; exact Hok0).
  assert (Hok2 : bytes_ok r2 = true) by (apply bytes_ok_skipn; exact Hok1).
  unfold uh_marshal, uh_flags. cbn [u_cid u_seq u_sbit u_len u_lbit u_elow].
  assert (Hnil : is_nil (firstn ncid r0) = negb (bit_c ct)).
  { unfold ncid. destruct (bit_c ct) eqn:Ec; [|reflexivity].
    specialize (Hc eq_refl). destruct n as [|n']; [lia|]. unfold ncid in *. destruct r0; [cbn in E1; discriminate|reflexivity]. }
  rewrite Hnil.
  replace (32 + (if negb (bit_c ct) then 0 else 16) + (if bit_s ct then 8 else 0) + (if bit_l ct then 4 else 0) + (ct mod 4) mod 4) with ct
    by (rewrite <- (flags_byte ct Ect) at 1; destruct (bit_c ct); reflexivity).
  cbn [app]. f_equal. rewrite <- !app_assoc.
  etransitivity; [symmetry; apply (firstn_skipn ncid r0)|]. fold r1. f_equal.
  etransitivity; [symmetry; apply (firstn_skipn ns r1)|]. fold r2. f_equal.
  - unfold ns in *. destruct (bit_s ct); symmetry; apply be_enc_dec_firstn; try exact Hok1; lia.
  - etransitivity; [symmetry; apply (firstn_skipn nl r2)|]. f_equal. unfold nl in *. destruct (bit_l ct).
    + symmetry. apply be_enc_dec_firstn; [exact Hok2|lia].
    + reflexivity.
Qed.

Lemma lxor_bound a b k : a < 2 ^ k -> b < 2 ^ k -> N.lxor a b < 2 ^ k.
Proof.
  intros Ha Hb. destruct (N.eq_dec (N.lxor a b) 0) as [-> | Hne].
  - apply N.neq_0_lt_0. apply N.pow_nonzero. lia.
  - apply N.log2_lt_pow2; [lia|].
    eapply N.le_lt_trans; [apply N.log2_lxor|].
    apply N.max_lub_lt.
    + destruct (N.eq_dec a 0) as [-> | Ha0]; [cbn; destruct (N.eq_dec k 0) as [-> | ]; [cbn in Hb; assert (b = 0) by lia; subst; cbn in Hne; lia | lia]|].
      apply N.log2_lt_pow2; lia.
    + destruct (N.eq_dec b 0) as [-> | Hb0]; [cbn; destruct (N.eq_dec k 0) as [-> | ]; [cbn in Ha; assert (a = 0) by lia; subst; cbn in Hne; lia | lia]|].
      apply N.log2_lt_pow2; lia.
Qed.

Lemma lxor_invol a m : N.lxor (N.lxor a m) m = a.
Proof. now rewrite N.lxor_assoc, N.lxor_nilpotent, N.lxor_0_r. Qed.

Definition uh_seq_ok (h : uhdr) : Prop := u_seq h < (if u_sbit h then 65536 else 256).

Lemma apply_mask_invol h m : uh_seq_ok h -> apply_mask (apply_mask h m) m = h.
Proof.
  unfold uh_seq_ok, apply_mask. destruct h as [cid sq sb ln lb el]. cbn [u_cid u_seq u_sbit u_len u_lbit u_elow].
  intro Hs. destruct sb; f_equal.
  - apply lxor_invol.
  - assert (Hm : m / 256 mod 256 < 2 ^ 8) by (change (2 ^ 8) with 256; apply N.mod_lt; lia).
    assert (Hx : N.lxor sq (m / 256 mod 256) < 2 ^ 8) by (apply lxor_bound; [exact Hs|exact Hm]).
    change (2 ^ 8) with 256 in Hx.
    rewrite (N.mod_small (N.lxor sq _)) by exact Hx. rewrite lxor_invol. now apply N.mod_small.
Qed.

Lemma apply_mask_seq_ok h m : uh_seq_ok h -> uh_seq_ok (apply_mask h m).
Proof.
  unfold uh_seq_ok, apply_mask. destruct h as [cid sq sb ln lb el]. cbn [u_cid u_seq u_sbit u_len u_lbit u_elow].
  intro Hs. destruct sb.
  - change 65536 with (2 ^ 16). apply lxor_bound; [exact Hs|]. change (2 ^ 16) with 65536. apply N.mod_lt. lia.
  - apply N.mod_lt. lia.
Qed.

Lemma uh_unmarshal_seq_ok n b h rest : bytes_ok b = true -> uh_unmarshal n b = Some (h, rest) -> uh_seq_ok h.
Proof.
  intros Hok Hu. unfold uh_unmarshal in Hu. destruct b as [|ct r0]; [discriminate|].
  destruct (negb (is_ct13 ct)); [discriminate|].
  destruct (length r0 <? _)%nat; [discriminate|].
  destruct (length (skipn _ r0) <? _)%nat eqn:E2; [discriminate|].
  destruct (length (skipn _ (skipn _ r0)) <? _)%nat; [discriminate|].
  inversion Hu; subst. unfold uh_seq_ok. cbn [u_seq u_sbit].
  assert (Hok0 : bytes_ok r0 = true).
  { unfold bytes_ok in *. cbn [forallb] in Hok. now apply andb_prop in Hok. }
  set (r1 := skipn (if bit_c ct then n else 0%nat) r0) in *.
  assert (Hok1 : bytes_ok r1 = true) by (apply bytes_ok_skipn; exact Hok0).
  destruct (bit_s ct).
  - pose proof (be_dec_bound (firstn 2 r1) (bytes_ok_firstn 2 r1 Hok1)) as Hb.
    rewrite firstn_length in Hb. replace (Nat.min 2 (length r1)) with 2%nat in Hb by lia. exact Hb.
  - pose proof (be_dec_bound (firstn 1 r1) (bytes_ok_firstn 1 r1 Hok1)) as Hb.
    rewrite firstn_length in Hb. replace (Nat.min 1 (length r1)) with 1%nat in Hb by lia. exact Hb.
Qed.

(* ------------------------------------------------------------------ unified header: marshal then parse; inner plaintext *)


(* headers Marshal writes and Unmarshal (with a connection id of length n) reads back *)
Definition uh_wf (n : nat) (h : uhdr) : Prop :=
  u_elow h < 4 /\ (u_cid h = [] \/ (length (u_cid h) = n /\ (0 < n)%nat)) /\ uh_seq_ok h /\
  (if u_lbit h then u_len h < 65536 else u_len h = 0).

Lemma flags_bits (c s l : bool) (e : N) : e < 4 ->
  let ct := 32 + (if c then 0 else 16) + (if s then 8 else 0) + (if l then 4 else 0) + e mod 4 in
  is_ct13 ct = true /\ bit_c ct = negb c /\ bit_s ct = s /\ bit_l ct = l /\ ct mod 4 = e.
Proof.
  intro He. cbn zeta. unfold is_ct13, bit_c, bit_s, bit_l. destruct c, s, l; cbn [negb];
    repeat split; lia.
Qed.

Lemma split_app (a b : bytes) :
  firstn (length a) (a ++ b) = a /\ skipn (length a) (a ++ b) = b /\ (length (a ++ b) <? length a)%nat = false.
Proof.
  split; [|split].
  - rewrite firstn_app, firstn_all, Nat.sub_diag. cbn. apply app_nil_r.
  - rewrite skipn_app, skipn_all, Nat.sub_diag. reflexivity.
  - rewrite app_length. lia.
Qed.

Lemma uh_marshal_unmarshal n h rest : uh_wf n h ->
  uh_unmarshal n (uh_marshal h ++ rest) = Some (h, rest).
Proof.
  intros (He & Hc & Hs & Hl). destruct h as [cid sq sb ln lb el].
  unfold uh_seq_ok in Hs. cbn [u_cid u_seq u_sbit u_len u_lbit u_elow] in *.
  unfold uh_marshal, uh_flags. cbn [u_cid u_seq u_sbit u_len u_lbit u_elow app].
  destruct (flags_bits (is_nil cid) sb lb el He) as (H1 & H2 & H3 & H4 & H5). cbn zeta in *.
  unfold uh_unmarshal. rewrite H1. cbn [negb]. rewrite H2, H3, H4, H5.
  assert (Hn : (if negb (is_nil cid) then n else 0%nat) = length cid).
  { destruct Hc as [-> | [Hc1 Hc2]]; [reflexivity|]. destruct cid; [cbn in Hc1; lia|cbn [is_nil negb]; lia]. }
  rewrite Hn. rewrite <- !app_assoc.
  destruct (split_app cid ((if sb then be_enc 2 sq else be_enc 1 sq) ++ (if lb then be_enc 2 ln else []) ++ rest)) as (F1 & S1 & L1).
  rewrite F1, S1, L1. clear F1 S1 L1.
  destruct sb.
  - destruct (split_app (be_enc 2 sq) ((if lb then be_enc 2 ln else []) ++ rest)) as (F2 & S2 & L2).
    rewrite be_enc_length in F2, S2, L2. rewrite F2, S2, L2. clear F2 S2 L2.
    rewrite be_dec_enc by (change (256 ^ N.of_nat 2) with 65536; exact Hs).
    destruct lb.
    + destruct (split_app (be_enc 2 ln) rest) as (F3 & S3 & L3).
      rewrite be_enc_length in F3, S3, L3. rewrite F3, S3, L3.
      rewrite be_dec_enc by (change (256 ^ N.of_nat 2) with 65536; exact Hl). reflexivity.
    + cbn. subst ln. reflexivity.
  - destruct (split_app (be_enc 1 sq) ((if lb then be_enc 2 ln else []) ++ rest)) as (F2 & S2 & L2).
    rewrite be_enc_length in F2, S2, L2. rewrite F2, S2, L2. clear F2 S2 L2.
    rewrite be_dec_enc by (change (256 ^ N.of_nat 1) with 256; exact Hs).
    destruct lb.
    + destruct (split_app (be_enc 2 ln) rest) as (F3 & S3 & L3).
      rewrite be_enc_length in F3, S3, L3. rewrite F3, S3, L3.
      rewrite be_dec_enc by (change (256 ^ N.of_nat 2) with 65536; exact Hl). reflexivity.
    + cbn. subst ln. reflexivity.
Qed.

Lemma drop_zeros_nz x l : x <> 0 -> drop_zeros (x :: l) = x :: l.
Proof. intro H. cbn. destruct (x =? 0) eqn:E; [lia|reflexivity]. Qed.

Lemma drop_zeros_repeat k l : drop_zeros (repeat 0 k ++ l) = drop_zeros l.
Proof. induction k as [|k IH]; cbn; auto. Qed.

Lemma inner_roundtrip body t z : t <> 0 -> inner_unmarshal (inner_marshal body t z) = Some (body, t).
Proof.
  intro Ht. unfold inner_unmarshal, inner_marshal.
  rewrite rev_app_distr. cbn [rev].
  assert (Hr : rev (repeat 0 z) = repeat 0 z).
  { induction z as [|z IH]; [reflexivity|]. cbn [repeat rev]. rewrite IH.
    clear. induction z as [|z IH]; [reflexivity|]. cbn. now rewrite IH. }
  rewrite Hr. rewrite <- app_assoc. rewrite drop_zeros_repeat.
  cbn [app]. rewrite drop_zeros_nz by exact Ht. now rewrite rev_involutive.
Qed.

(* ------------------------------------------------------------------ what a step may change *)

(* everything except the queue of parked records *)
Definition same_except_queue (s s' : rstate) : Prop :=
  r_epoch s' = r_epoch s /\ r_cur s' = r_cur s /\ r_old s' = r_old s /\ r_wins s' = r_wins s /\
  r_high s' = r_high s /\ r_cid s' = r_cid s /\ r_cidneg s' = r_cidneg s /\ r_rrc s' = r_rrc s /\
  r_closed s' = r_closed s /\ r_estab s' = r_estab s /\ r_early s' = r_early s.

Lemma seq_refl s : same_except_queue s s.
Proof. unfold same_except_queue. auto 12. Qed.

Lemma seq_trans a b c : same_except_queue a b -> same_except_queue b c -> same_except_queue a c.
Proof. unfold same_except_queue. intuition congruence. Qed.

Lemma enqueue_spec lease s b :
  same_except_queue s (enqueue lease s b) /\
  (r_queue (enqueue lease s b) = r_queue s \/
   (r_queue (enqueue lease s b) = r_queue s ++ [b] /\ (length (r_queue s) < max_queue)%nat /\ lease = true)).
Proof.
  unfold enqueue. destruct lease; cbn [andb]; [|split; [apply seq_refl | now left]].
  destruct (Nat.ltb (length (r_queue s)) max_queue) eqn:E; [|split; [apply seq_refl | now left]].
  apply Nat.ltb_lt in E. split; [unfold same_except_queue; cbn; auto 12|]. right. cbn. auto.
Qed.

Section Recv.
  Variable snmask : N -> bytes -> N.
  Variable aopen : N -> N -> bytes -> bytes -> option bytes.
  Variable hs_room : bytes -> bool.

  Notation open_gen := (open_gen snmask aopen).
  Notation open_cands := (open_cands snmask aopen).
  Notation open_record := (open_record snmask aopen).
  Notation dispatch := (dispatch hs_room).
  Notation recv_cipher := (recv_cipher snmask aopen hs_room).
  Notation recv_legacy := (recv_legacy hs_room).
  Notation recv_record := (recv_record snmask aopen hs_room).
  Notation recv_list := (recv_list snmask aopen hs_room).
  Notation recv13 := (recv13 snmask aopen hs_room).
  Notation step := (step snmask aopen hs_room).
  Notation run_ops := (run_ops snmask aopen hs_room).

  (* what authenticates: the record parses under the receiver's connection-id policy and one of the
     authorised retained generations with its epoch bits opens it, at the record number rebuilt
     from the unmasked bits against that epoch's highest number *)
  Definition auth_cipher (s : rstate) (b : bytes) : option (bytes * N * N * N) :=
    match parse_crec s b with
    | None => None
    | Some (h, ct) =>
        match open_record s h ct with
        | OpenOk body t q e => Some (body, t, q, e)
        | _ => None
        end
    end.

  (* ---------------------------------------------------------------- C05: forged records are inert *)

  (* A ciphertext record that does not authenticate produces no output at all and leaves the state
     unchanged, except that it may take ONE slot of the bounded queue of parked records - only when
     it arrived from the socket, and only when no keys for the current epoch exist yet or its epoch
     bits are those of the next epoch and of no authorised retained generation. *)
  Theorem forged_inert W lease s b :
    auth_cipher s b = None ->
    snd (recv_cipher W lease s b) = [] /\
    same_except_queue s (fst (recv_cipher W lease s b)) /\
    (r_queue (fst (recv_cipher W lease s b)) = r_queue s \/
     (r_queue (fst (recv_cipher W lease s b)) = r_queue s ++ [b] /\
      (length (r_queue s) < max_queue)%nat /\ lease = true /\
      exists h ct, parse_crec s b = Some (h, ct) /\
        (has_prot s = false \/
         (open_record s h ct = OpenInvalidEpoch /\ queueable_epoch (u_elow h) (r_epoch s) = true)))).
  Proof.
    unfold auth_cipher, Rec13.recv_cipher. intro Ha.
    destruct (parse_crec s b) as [[h ct]|] eqn:Ep; [|cbn; split; [reflexivity|split; [apply seq_refl|now left]]].
    destruct (negb (has_prot s)) eqn:Ehp.
    { cbn [fst snd]. destruct (enqueue_spec lease s b) as [Hs [Hq | (Hq & Hl & Hle)]].
      - split; [reflexivity|]. split; [exact Hs|now left].
      - split; [reflexivity|]. split; [exact Hs|]. right. repeat split; auto.
        exists h, ct. split; [reflexivity|]. left. now apply negb_true_iff in Ehp. }
    destruct (open_record s h ct) as [body t q e | | ] eqn:Eo; [discriminate| |].
    - cbn [fst snd]. destruct (queueable_epoch (u_elow h) (r_epoch s)) eqn:Eq.
      + destruct (enqueue_spec lease s b) as [Hs [Hq | (Hq & Hl & Hle)]].
        * split; [reflexivity|]. split; [exact Hs|now left].
        * split; [reflexivity|]. split; [exact Hs|]. right. repeat split; auto.
          exists h, ct. split; [reflexivity|]. right. split; [exact Eo|exact Eq].
      + split; [reflexivity|]. split; [apply seq_refl|now left].
    - cbn. split; [reflexivity|]. split; [apply seq_refl|now left].
  Qed.

  (* with keys for the current epoch and an authorised retained generation carrying the record's
     epoch bits (a record re-labelled with the bits of a known epoch, or altered in any other
     place), nothing at all changes *)
  Lemma open_cands_eligible s h ct cs :
    (exists e, In e cs /\ e <= r_epoch s) -> fst (open_cands s h ct cs) = true.
  Proof.
    induction cs as [|e cs IH]; intros (e0 & Hin & Hle); [destruct Hin|].
    cbn [Rec13.open_cands]. destruct (r_epoch s <? e) eqn:E.
    - apply IH. destruct Hin as [-> | Hin]; [lia|]. now exists e0.
    - destruct (open_gen s h ct e) as [[[body t] q]|]; reflexivity.
  Qed.

  Corollary forged_inert_established W lease s b h ct :
    auth_cipher s b = None -> parse_crec s b = Some (h, ct) -> has_prot s = true ->
    (exists e, In e (read_candidates s (u_elow h)) /\ e <= r_epoch s) ->
    recv_cipher W lease s b = (s, []).
  Proof.
    intros Ha Hp Hhp Hc. unfold auth_cipher in Ha. unfold Rec13.recv_cipher. rewrite Hp in *.
    rewrite Hhp. cbn [negb].
    pose proof (open_cands_eligible s h ct _ Hc) as Hel.
    unfold Rec13.open_record in *.
    destruct (open_cands s h ct (read_candidates s (u_elow h))) as [el [[[[body t] q] e]|]];
      [destruct el; cbn in Ha; discriminate|].
    cbn [fst] in Hel. subst el. reflexivity.
  Qed.

  (* a datagram, or the parked queue, of which no record authenticates *)
  Lemma auth_cipher_ext s s' b : same_except_queue s s' -> auth_cipher s' b = auth_cipher s b.
  Proof.
    intros (H1 & H2 & H3 & H4 & H5 & H6 & H7 & H8 & H9 & H10 & H11).
    unfold auth_cipher, Rec13.parse_crec, cid_policy, Rec13.open_record, read_candidates.
    rewrite H2, H3, H6, H7.
    destruct (let '(expected, allowed) := _ in _) as [[h ct]|]; [|reflexivity].
    assert (Hoc : forall cs, open_cands s' h ct cs = open_cands s h ct cs).
    { induction cs as [|e cs IH]; [reflexivity|]. cbn [Rec13.open_cands]. rewrite H1, IH.
      unfold Rec13.open_gen. now rewrite H5. }
    now rewrite Hoc.
  Qed.

  Lemma forged_list_inert W lease : forall rs s,
    Forall (fun r => is_ct13 (hd 0 r) = true /\ auth_cipher s r = None) rs ->
    snd (recv_list W lease s rs) = [] /\
    same_except_queue s (fst (recv_list W lease s rs)) /\
    (length (r_queue (fst (recv_list W lease s rs))) <= Nat.max (length (r_queue s)) max_queue)%nat /\
    (lease = false -> r_queue (fst (recv_list W lease s rs)) = r_queue s).
  Proof.
    induction rs as [|r rs IH]; intros s HF.
    - cbn. split; [reflexivity|]. split; [apply seq_refl|]. split; [lia|reflexivity].
    - inversion HF as [|? ? [Hct Ha] HF']; subst.
      cbn [Rec13.recv_list]. unfold Rec13.recv_record.
      destruct r as [|c r']; [cbn in Hct; discriminate|]. cbn [hd] in Hct. rewrite Hct.
      destruct (forged_inert W lease s (c :: r') Ha) as (Ho & Hs & Hq).
      destruct (recv_cipher W lease s (c :: r')) as [s1 o1]. cbn [fst snd] in *. subst o1.
      cbn [existsb].
      assert (HF1 : Forall (fun r => is_ct13 (hd 0 r) = true /\ auth_cipher s1 r = None) rs).
      { eapply Forall_impl; [|exact HF']. intros x [Hx1 Hx2]. split; [exact Hx1|].
        now rewrite (auth_cipher_ext s s1 x Hs). }
      destruct (IH s1 HF1) as (Ho2 & Hs2 & Hl2 & Hq2).
      destruct (recv_list W lease s1 rs) as [s2 o2]. cbn [fst snd] in *. subst o2.
      split; [reflexivity|]. split; [eapply seq_trans; eauto|]. split.
      + destruct Hq as [Hq | (Hq & Hl & _)]; rewrite Hq in Hl2; [exact Hl2|].
        rewrite app_length in Hl2. cbn [length] in Hl2. unfold max_queue in *. lia.
      + intro Hle. rewrite (Hq2 Hle). destruct Hq as [Hq | (_ & _ & Hle' & _)]; [exact Hq|congruence].
  Qed.

  Theorem forged_datagram_inert W s d rs :
    unpack_datagram13 s d = Some rs ->
    Forall (fun r => is_ct13 (hd 0 r) = true /\ auth_cipher s r = None) rs ->
    snd (recv13 W s d) = [] /\
    same_except_queue s (fst (recv13 W s d)) /\
    (length (r_queue (fst (recv13 W s d))) <= Nat.max (length (r_queue s)) max_queue)%nat.
  Proof.
    intros Hu HF. unfold Rec13.recv13. destruct (r_closed s).
    - cbn. split; [reflexivity|]. split; [apply seq_refl|lia].
    - rewrite Hu. destruct (forged_list_inert W true rs s HF) as (H1 & H2 & H3 & _). auto.
  Qed.

  (* ---------------------------------------------------------------- shape of every state change *)

  (* the only ways the replay detectors / highest numbers change: detectors are created on demand,
     a slot is committed after a successful Check; everything else leaves them alone *)
  Inductive wtrans (W : nat) : rstate -> list (N * N) -> rstate -> Prop :=
  | wt_other s s' : r_wins s' = r_wins s -> r_high s' = r_high s -> wtrans W s [] s'
  | wt_ensure s mx e : mx = maxseq48 \/ mx = maxseq64 ->
      wtrans W s [] (with_wins s (ensure_wins W mx e (r_wins s)))
  | wt_mark s e q : (N.to_nat e < length (r_wins s))%nat ->
      check (fst (get_win W e (r_wins s))) (snd (get_win W e (r_wins s))) q = true ->
      wtrans W s [(e, q)] (mark W s e q)
  | wt_trans s1 m1 s2 m2 s3 : wtrans W s1 m1 s2 -> wtrans W s2 m2 s3 -> wtrans W s1 (m1 ++ m2) s3.

  Lemma wt_refl W s : wtrans W s [] s.
  Proof. now apply wt_other. Qed.

  Lemma wt_enqueue W lease s b : wtrans W s [] (enqueue lease s b).
  Proof. destruct (enqueue_spec lease s b) as [(H1 & H2 & H3 & H4 & H5 & _) _]. now apply wt_other. Qed.

  Lemma wt_then_other W s m s1 s2 :
    wtrans W s m s1 -> r_wins s2 = r_wins s1 -> r_high s2 = r_high s1 -> wtrans W s m s2.
  Proof. intros H Hw Hh. rewrite <- (app_nil_r m). eapply wt_trans; [exact H|now apply wt_other]. Qed.

  Lemma marks_app a b : marks (a ++ b) = marks a ++ marks b.
  Proof. induction a as [|[] a IH]; cbn; auto. now rewrite IH. Qed.

  Lemma deliveries_app a b : deliveries (a ++ b) = deliveries a ++ deliveries b.
  Proof. induction a as [|[] a IH]; cbn; auto; now rewrite IH. Qed.

  Lemma commit_wtrans W prot s e q :
    (N.to_nat e < length (r_wins s))%nat ->
    check (fst (get_win W e (r_wins s))) (snd (get_win W e (r_wins s))) q = true ->
    wtrans W s (marks (snd (commit W prot s e q))) (fst (commit W prot s e q)).
  Proof. intros Hl Hc. unfold commit. destruct prot; cbn [fst snd marks]; [now apply wt_mark|apply wt_refl]. Qed.

  Lemma dispatch_wtrans W prot s e q t body :
    (N.to_nat e < length (r_wins s))%nat ->
    check (fst (get_win W e (r_wins s))) (snd (get_win W e (r_wins s))) q = true ->
    wtrans W s (marks (snd (dispatch W prot s e q t body))) (fst (dispatch W prot s e q t body)).
  Proof.
    intros Hl Hc. unfold Rec13.dispatch. pose proof (commit_wtrans W prot s e q Hl Hc) as Hm.
    set (c := commit W prot s e q) in *. cbv zeta.
    destruct (t =? 22).
    { destruct (r_estab s && (e =? 0)); [apply wt_refl|].
      destruct (hs_ok hs_room body); cbn [fst snd]; [|apply wt_refl].
      rewrite marks_app. cbn [marks]. rewrite app_nil_r. exact Hm. }
    destruct (decode_content t body) as [p | level desc | | | ].
    - destruct (e =? 0); [apply wt_refl|]. destruct (r_estab s); cbn [fst snd].
      + rewrite marks_app. cbn [marks]. rewrite app_nil_r. exact Hm.
      + destruct (Nat.ltb (length (r_early s)) max_queue); cbn [fst snd]; [|exact Hm].
        rewrite marks_app. cbn [marks]. rewrite app_nil_r. eapply wt_then_other; [exact Hm|reflexivity|reflexivity].
    - destruct (r_estab s && (e =? 0)); [apply wt_refl|].
      destruct ((level =? 2) || (desc =? 0)); destruct (desc =? 0); cbn [fst snd app];
        rewrite marks_app; cbn [marks]; rewrite app_nil_r; try exact Hm;
        (eapply wt_then_other; [exact Hm|reflexivity|reflexivity]).
    - destruct (e =? 0); cbn [fst snd]; [apply wt_refl|].
      rewrite marks_app. cbn [marks]. rewrite app_nil_r. exact Hm.
    - destruct ((e =? 0) || negb (r_rrc s)); cbn [fst snd marks]; [apply wt_refl|].
      rewrite marks_app. cbn [marks]. rewrite app_nil_r. exact Hm.
    - destruct (e =? 0); cbn [fst snd marks]; apply wt_refl.
  Qed.

  Lemma recv_record_wtrans W lease s b :
    wtrans W s (marks (snd (recv_record W lease s b))) (fst (recv_record W lease s b)).
  Proof.
    unfold Rec13.recv_record. destruct b as [|c b']; [apply wt_refl|].
    destruct (is_ct13 c).
    - unfold Rec13.recv_cipher.
      destruct (parse_crec s (c :: b')) as [[h ct]|]; [|apply wt_refl].
      destruct (negb (has_prot s)); [apply wt_enqueue|].
      destruct (open_record s h ct) as [body t q e | | ].
      + set (s1 := with_wins s (ensure_wins W maxseq64 e (r_wins s))).
        assert (H1 : wtrans W s [] s1) by (apply wt_ensure; now right).
        assert (Hl : (N.to_nat e < length (r_wins s1))%nat) by (cbn; apply ensure_wins_length).
        destruct (get_win W e (r_wins s1)) as [mx w] eqn:Eg.
        destruct (check mx w q) eqn:Ec; cbn [negb]; [|exact H1].
        destruct (maxseq48 <? q); [exact H1|].
        change (marks (snd (dispatch W true s1 e q t body))) with ([] ++ marks (snd (dispatch W true s1 e q t body))).
        eapply wt_trans; [exact H1|]. apply dispatch_wtrans; [exact Hl|].
        rewrite Eg. exact Ec.
      + cbn [fst snd marks]. destruct (queueable_epoch (u_elow h) (r_epoch s)); [apply wt_enqueue|apply wt_refl].
      + apply wt_refl.
    - unfold Rec13.recv_legacy.
      destruct (length (c :: b') <? 13)%nat; [apply wt_refl|].
      destruct (negb (legacy_version_ok (c :: b'))); [apply wt_refl|].
      set (e := be_dec (firstn 2 (skipn 3 (c :: b')))). set (q := be_dec (firstn 6 (skipn 5 (c :: b')))).
      destruct (r_epoch s <? e).
      { cbn [fst snd marks]. destruct (max_future (r_epoch s) <? e); [apply wt_refl|apply wt_enqueue]. }
      set (s1 := with_wins s (ensure_wins W maxseq48 e (r_wins s))).
      assert (H1 : wtrans W s [] s1) by (apply wt_ensure; now left).
      assert (Hl : (N.to_nat e < length (r_wins s1))%nat) by (cbn; apply ensure_wins_length).
      destruct (get_win W e (r_wins s1)) as [mx w] eqn:Eg.
      destruct (check mx w q) eqn:Ec; cbn [negb]; [|exact H1].
      destruct (e =? 0) eqn:E0.
      + change (marks (snd (dispatch W false s1 e q (hd 0 (c :: b')) (skipn 13 (c :: b')))))
          with ([] ++ marks (snd (dispatch W false s1 e q (hd 0 (c :: b')) (skipn 13 (c :: b'))))).
        eapply wt_trans; [exact H1|]. apply dispatch_wtrans; [exact Hl|].
        rewrite Eg. exact Ec.
      + destruct (negb (has_prot s1)); cbn [fst snd marks]; [|exact H1].
        change (@nil (N * N)) with (@nil (N * N) ++ []). eapply wt_trans; [exact H1|apply wt_enqueue].
  Qed.

  Lemma recv_list_wtrans W lease : forall rs s,
    wtrans W s (marks (snd (recv_list W lease s rs))) (fst (recv_list W lease s rs)).
  Proof.
    induction rs as [|r rs IH]; intro s; [apply wt_refl|].
    cbn [Rec13.recv_list]. pose proof (recv_record_wtrans W lease s r) as H1.
    destruct (recv_record W lease s r) as [s1 o1]. cbn [fst snd] in H1.
    destruct (existsb is_err o1); [exact H1|].
    specialize (IH s1). destruct (recv_list W lease s1 rs) as [s2 o2]. cbn [fst snd] in *.
    rewrite marks_app. eapply wt_trans; eauto.
  Qed.

  Definition early_out (l : list (bytes * N * N)) : list out :=
    map (fun x : bytes * N * N => OEarly (fst (fst x)) (snd (fst x)) (snd x)) l.

  Lemma marks_early l : marks (early_out l) = [].
  Proof. induction l as [|x l IH]; cbn; auto. Qed.

  Lemma deliveries_early l : deliveries (early_out l) = [].
  Proof. induction l as [|x l IH]; cbn; auto. Qed.

  Lemma step_wtrans W s o : wtrans W s (marks (snd (step W s o))) (fst (step W s o)).
  Proof.
    destruct o as [d | e | e | | cid neg rrc | ]; cbn [Rec13.step].
    - unfold Rec13.recv13. destruct (r_closed s); [apply wt_refl|].
      destruct (unpack_datagram13 s d) as [rs|]; [apply recv_list_wtrans|apply wt_refl].
    - cbn [fst snd marks]. now apply wt_other.
    - cbn [fst snd marks]. now apply wt_other.
    - cbn [fst snd]. fold (early_out (r_early s)). rewrite marks_early. now apply wt_other.
    - cbn [fst snd marks]. now apply wt_other.
    - destruct (r_closed s); [apply wt_refl|].
      change (marks (snd (recv_list W false (with_queue s []) (r_queue s))))
        with ([] ++ marks (snd (recv_list W false (with_queue s []) (r_queue s)))).
      eapply wt_trans; [|apply recv_list_wtrans]. now apply wt_other.
  Qed.

  Lemma run_wtrans W : forall ops s,
    wtrans W s (marks (snd (run_ops W s ops))) (fst (run_ops W s ops)).
  Proof.
    induction ops as [|o ops IH]; intro s; [apply wt_refl|].
    cbn [Rec13.run_ops]. pose proof (step_wtrans W s o) as H1.
    destruct (step W s o) as [s1 o1]. cbn [fst snd] in H1.
    specialize (IH s1). destruct (run_ops W s1 ops) as [s2 o2]. cbn [fst snd] in *.
    rewrite marks_app. eapply wt_trans; eauto.
  Qed.

  (* ---------------------------------------------------------------- invariants over histories *)

  Lemma accept_latest mx w q :
    latest (fst (accept mx w q)) = (if latest w <? q then q else latest w) /\
    snd (accept mx w q) = ((latest w <? q) || (q =? 0)).
  Proof. unfold accept. destruct (latest w <? q); cbn; auto. Qed.

  Lemma mark_wins W s e q :
    r_wins (mark W s e q) =
    set_win e (fst (get_win W e (r_wins s)),
               fst (accept (fst (get_win W e (r_wins s))) (snd (get_win W e (r_wins s))) q)) (r_wins s).
  Proof.
    unfold mark. destruct (get_win W e (r_wins s)) as [mx w]. cbn [fst snd].
    destruct (accept mx w q) as [w' isl]. cbn [fst]. destruct isl; reflexivity.
  Qed.

  Lemma mark_high W s e q :
    r_high (mark W s e q) =
    if snd (accept (fst (get_win W e (r_wins s))) (snd (get_win W e (r_wins s))) q)
    then update_high e q (r_high s) else r_high s.
  Proof.
    unfold mark. destruct (get_win W e (r_wins s)) as [mx w]. cbn [fst snd].
    destruct (accept mx w q) as [w' isl]. cbn [snd]. destruct isl; reflexivity.
  Qed.

  (* every epoch's detector refines the set of numbers committed for that epoch; its bound is one
     of the two the code creates detectors with *)
  Definition GI (W : nat) (s : rstate) (ms : list (N * N)) : Prop :=
    NoDup ms /\
    forall e, Inv W (snd (get_win W e (r_wins s))) (Sof e ms) /\
              latest (snd (get_win W e (r_wins s))) <= fst (get_win W e (r_wins s)) /\
              (fst (get_win W e (r_wins s)) = maxseq48 \/ fst (get_win W e (r_wins s)) = maxseq64).

  (* the highest record number kept per protected epoch IS the newest number of that epoch's detector *)
  Definition HI (W : nat) (s : rstate) : Prop :=
    forall e, e <> 0 -> get_high e (r_high s) = latest (snd (get_win W e (r_wins s))).

  Lemma GI_init W cid neg rrc : GI W (rinit cid neg rrc) [].
  Proof.
    split; [constructor|]. intro e. unfold get_win. cbn [rinit r_wins]. destruct (N.to_nat e); cbn [nth fst snd].
    all: split; [apply inv_init|]; cbn; split; [lia|now right].
  Qed.

  Lemma HI_init W cid neg rrc : HI W (rinit cid neg rrc).
  Proof. intros e _. unfold get_high, get_win. cbn [rinit r_wins r_high]. destruct (N.to_nat e); reflexivity. Qed.

  Lemma GI_wtrans W : N.of_nat W <= maxseq48 -> forall s m s', wtrans W s m s' ->
    forall ms, GI W s ms -> GI W s' (ms ++ m).
  Proof.
    intros HW s m s' Ht. induction Ht as [s s' Hw Hh | s mx e Hmx | s e q Hl Hc | s1 m1 s2 m2 s3 H1 IH1 H2 IH2];
      intros ms [Hnd Hinv].
    - rewrite app_nil_r. split; [exact Hnd|]. now rewrite Hw.
    - rewrite app_nil_r. split; [exact Hnd|]. intro e2. cbn [r_wins with_wins].
      rewrite get_win_ensure. destruct (Hinv e2) as (Ha & Hb & Hcc).
      split; [exact Ha|].
      destruct (get_win_ensure_fst W mx e e2 (r_wins s)) as [-> | [-> Hfresh]]; [auto|].
      split; [|destruct Hmx; auto].
      (* a freshly created detector has latest = 0 *)
      rewrite Hfresh. cbn [win_init latest]. lia.
    - destruct (Hinv e) as (HI & Hlat & Hmx).
      set (mx := fst (get_win W e (r_wins s))) in *. set (w := snd (get_win W e (r_wins s))) in *.
      assert (Hmx0 : 0 < mx) by (destruct Hmx as [-> | ->]; unfold maxseq48, maxseq64; lia).
      assert (HWm : N.of_nat W <= mx) by (destruct Hmx as [-> | ->]; unfold maxseq48, maxseq64 in *; lia).
      destruct (accept_inv W mx w _ q Hmx0 HWm HI Hc Hlat) as [HI' Hl'].
      split.
      + apply RecvSound.NoDup_app_one; [exact Hnd|].
        intro Hin. apply RecvSound.in_Sof in Hin.
        apply (check_spec W mx w _ q HI) in Hc. destruct Hc as [_ [Hlt | [_ Hn]]]; [|auto].
        destruct HI as (_ & _ & Hle & _). specialize (Hle _ Hin). lia.
      + intro e2. rewrite mark_wins. fold mx w.
        destruct (N.eq_dec e2 e) as [-> | Hne].
        * rewrite get_set_win_same by exact Hl. cbn [fst snd]. split; [|split; [exact Hl'|exact Hmx]].
          eapply RecvSound.Inv_ext; [|exact HI'].
          intro x. rewrite RecvSound.Sof_app, RecvSound.Sof_single_same, in_app_iff. cbn [In]. tauto.
        * rewrite get_set_win_other by exact Hne. destruct (Hinv e2) as (Ha & Hb & Hcc).
          split; [|split; assumption].
          eapply RecvSound.Inv_ext; [|exact Ha].
          intro x. rewrite RecvSound.Sof_app, RecvSound.Sof_single_other by congruence. now rewrite app_nil_r.
    - rewrite app_assoc. apply IH2. apply IH1. split; assumption.
  Qed.

  Lemma HI_wtrans W s m s' : wtrans W s m s' -> HI W s -> HI W s'.
  Proof.
    intro Ht. induction Ht as [s s' Hw Hh | s mx e Hmx | s e q Hl Hc | s1 m1 s2 m2 s3 H1 IH1 H2 IH2]; intro HH.
    - intros e He. rewrite Hw, Hh. now apply HH.
    - intros e2 He. cbn [r_wins r_high with_wins]. rewrite get_win_ensure. now apply HH.
    - intros e2 He. rewrite mark_wins, mark_high.
      destruct (N.eq_dec e2 e) as [-> | Hne].
      + rewrite get_set_win_same by exact Hl. cbn [snd].
        destruct (accept_latest (fst (get_win W e (r_wins s))) (snd (get_win W e (r_wins s))) q) as [-> ->].
        specialize (HH e He).
        destruct (latest (snd (get_win W e (r_wins s))) <? q) eqn:E; cbn [orb].
        * rewrite get_high_update_same. lia.
        * destruct (q =? 0) eqn:E0; [rewrite get_high_update_same; lia|exact HH].
      + rewrite get_set_win_other by exact Hne.
        destruct (snd (accept _ _ q)); [rewrite get_high_update_other by exact Hne|]; now apply HH.
    - auto.
  Qed.

  Lemma latest_mono_wtrans W s m s' : wtrans W s m s' ->
    forall e, latest (snd (get_win W e (r_wins s))) <= latest (snd (get_win W e (r_wins s'))).
  Proof.
    intro Ht. induction Ht as [s s' Hw Hh | s mx e Hmx | s e q Hl Hc | s1 m1 s2 m2 s3 H1 IH1 H2 IH2]; intro e2.
    - rewrite Hw. lia.
    - cbn [r_wins with_wins]. rewrite get_win_ensure. lia.
    - rewrite mark_wins. destruct (N.eq_dec e2 e) as [-> | Hne].
      + rewrite get_set_win_same by exact Hl. cbn [snd].
        destruct (accept_latest (fst (get_win W e (r_wins s))) (snd (get_win W e (r_wins s))) q) as [-> _].
        destruct (_ <? q) eqn:E; lia.
      + rewrite get_set_win_other by exact Hne. lia.
    - specialize (IH1 e2). specialize (IH2 e2). lia.
  Qed.

  (* C06 over histories: over every operation history (datagrams in any order with any repetition,
     key installations incl. KeyUpdate generations, epoch changes, replays of the parked queue) no
     (epoch, record number) is committed twice *)
  Theorem marks_nodup W cid neg rrc ops : N.of_nat W <= maxseq48 ->
    NoDup (marks (snd (run_ops W (rinit cid neg rrc) ops))).
  Proof.
    intro HW. pose proof (GI_wtrans W HW _ _ _ (run_wtrans W ops (rinit cid neg rrc)) [] (GI_init W cid neg rrc)) as [H _].
    exact H.
  Qed.

  (* ... and from any state whose detectors reflect its own past *)
  Theorem marks_nodup_from W s ms ops : N.of_nat W <= maxseq48 -> GI W s ms ->
    NoDup (ms ++ marks (snd (run_ops W s ops))).
  Proof. intros HW HG. exact (proj1 (GI_wtrans W HW _ _ _ (run_wtrans W ops s) ms HG)). Qed.

  Theorem high_is_latest W cid neg rrc ops e : e <> 0 ->
    let s := fst (run_ops W (rinit cid neg rrc) ops) in
    get_high e (r_high s) = latest (snd (get_win W e (r_wins s))).
  Proof. intro He. exact (HI_wtrans W _ _ _ (run_wtrans W ops _) (HI_init W cid neg rrc) e He). Qed.

  Theorem window_monotone W s ops e :
    latest (snd (get_win W e (r_wins s))) <= latest (snd (get_win W e (r_wins (fst (run_ops W s ops))))).
  Proof. exact (latest_mono_wtrans W _ _ _ (run_wtrans W ops s) e). Qed.

  (* ---------------------------------------------------------------- C05: what is delivered / acted on *)

  Lemma decode_app t body p : decode_content t body = CApp p -> t = 23 /\ p = body.
  Proof.
    clear snmask aopen hs_room.
    unfold decode_content. destruct (t =? 21) eqn:E1.
    { destruct body as [|l [|d [|x body]]]; discriminate. }
    destruct (t =? 23) eqn:E2; [intro H; inversion H; split; [lia|reflexivity]|].
    destruct (t =? 26); [destruct (ack_ok body); discriminate|].
    destruct (t =? 27); [destruct (rrc_ok body); discriminate|discriminate].
  Qed.

  Ltac in_list H :=
    cbn in H;
    repeat match type of H with
           | _ \/ _ => destruct H as [H | H]
           | False => destruct H
           end;
    try discriminate H.

  Lemma commit_deliveries W prot s e q : deliveries (snd (commit W prot s e q)) = [].
  Proof. unfold commit. destruct prot; reflexivity. Qed.

  Lemma commit_marks W prot s e q : marks (snd (commit W prot s e q)) = if prot then [(e, q)] else [].
  Proof. unfold commit. destruct prot; reflexivity. Qed.

  Lemma commit_estab W prot s e q :
    r_estab (fst (commit W prot s e q)) = r_estab s /\ r_early (fst (commit W prot s e q)) = r_early s /\
    r_queue (fst (commit W prot s e q)) = r_queue s /\ r_closed (fst (commit W prot s e q)) = r_closed s.
  Proof.
    unfold commit. destruct prot; cbn [fst]; [|auto]. unfold mark.
    destruct (get_win W e (r_wins s)) as [mx w]. destruct (accept mx w q) as [w' isl]. destruct isl; cbn; auto.
  Qed.

  (* application data is accepted for Read iff it is protected and - before the local handshake has
     completed - the parking area (100 payloads) has room *)
  Definition room (s : rstate) : bool := r_estab s || Nat.ltb (length (r_early s)) max_queue.

  Lemma dispatch_deliveries W prot s e q t body :
    deliveries (snd (dispatch W prot s e q t body)) =
    if (t =? 23) && negb (e =? 0) && room s then [(body, e, q)] else [].
  Proof.
    clear snmask aopen.
    unfold Rec13.dispatch. cbv zeta. destruct (t =? 22) eqn:E22.
    { assert (t =? 23 = false) by lia. rewrite H. destruct (r_estab s && (e =? 0)); [reflexivity|].
      destruct (hs_ok hs_room body); cbn [fst snd]; [|reflexivity].
      now rewrite deliveries_app, commit_deliveries. }
    destruct (decode_content t body) as [p | level desc | | | ] eqn:Ed.
    - apply decode_app in Ed. destruct Ed as [-> ->]. cbn [N.eqb Pos.eqb andb]. unfold room.
      destruct (e =? 0); [reflexivity|]. cbn [negb andb]. destruct (r_estab s); cbn [orb fst snd].
      + now rewrite deliveries_app, commit_deliveries.
      + destruct (Nat.ltb (length (r_early s)) max_queue); cbn [fst snd].
        * now rewrite deliveries_app, commit_deliveries.
        * apply commit_deliveries.
    - assert (t =? 23 = false).
      { unfold decode_content in Ed. destruct (t =? 21) eqn:E1; [lia|]. destruct (t =? 23); [discriminate|reflexivity]. }
      rewrite H. cbn [andb]. destruct (r_estab s && (e =? 0)); [reflexivity|].
      destruct ((level =? 2) || (desc =? 0)); destruct (desc =? 0); cbn [fst snd app];
        now rewrite deliveries_app, commit_deliveries.
    - assert (t =? 23 = false).
      { unfold decode_content in Ed. destruct (t =? 21) eqn:E1; [lia|]. destruct (t =? 23); [discriminate|reflexivity]. }
      rewrite H. destruct (e =? 0); cbn [fst snd]; [reflexivity|]. now rewrite deliveries_app, commit_deliveries.
    - assert (t =? 23 = false).
      { unfold decode_content in Ed. destruct (t =? 21) eqn:E1; [lia|]. destruct (t =? 23); [discriminate|reflexivity]. }
      rewrite H. destruct ((e =? 0) || negb (r_rrc s)); cbn [fst snd]; [reflexivity|]. now rewrite deliveries_app, commit_deliveries.
    - assert (t =? 23 = false).
      { unfold decode_content in Ed. destruct (t =? 21) eqn:E1; [lia|]. destruct (t =? 23); [discriminate|reflexivity]. }
      rewrite H. destruct (e =? 0); reflexivity.
  Qed.

  (* a commit happens for protected records only: an unprotected record never moves a replay window *)
  Lemma dispatch_marks W prot s e q t body e' q' :
    In (e', q') (marks (snd (dispatch W prot s e q t body))) -> e' = e /\ q' = q /\ prot = true.
  Proof.
    unfold Rec13.dispatch, commit. cbv zeta. destruct (t =? 22).
    { destruct (r_estab s && (e =? 0)); [intros []|].
      destruct (hs_ok hs_room body); destruct prot; intro H; in_list H; now inversion H. }
    destruct (decode_content t body) as [p | level desc | | | ].
    - destruct (e =? 0); [intros []|]. destruct (r_estab s); [|destruct (Nat.ltb (length (r_early s)) max_queue)];
        destruct prot; intro H; in_list H; now inversion H.
    - destruct (r_estab s && (e =? 0)); [intros []|].
      destruct ((level =? 2) || (desc =? 0)); destruct (desc =? 0); destruct prot; intro H; in_list H; now inversion H.
    - destruct (e =? 0); [intros []|]. destruct prot; intro H; in_list H; now inversion H.
    - destruct ((e =? 0) || negb (r_rrc s)); [intros []|]. destruct prot; intro H; in_list H; now inversion H.
    - destruct (e =? 0); intros H; in_list H.
  Qed.

  (* exactly what a ciphertext record delivers to Read *)
  Theorem cipher_deliveries W lease s b :
    deliveries (snd (recv_cipher W lease s b)) =
    match auth_cipher s b with
    | Some (body, t, q, e) =>
        if has_prot s &&
           check (fst (get_win W e (ensure_wins W maxseq64 e (r_wins s))))
                 (snd (get_win W e (ensure_wins W maxseq64 e (r_wins s)))) q &&
           (q <=? maxseq48) && (t =? 23) && negb (e =? 0) && room s
        then [(body, e, q)] else []
    | None => []
    end.
  Proof.
    unfold auth_cipher, Rec13.recv_cipher.
    destruct (parse_crec s b) as [[h ct]|]; [|reflexivity].
    destruct (has_prot s); cbn [negb andb].
    2:{ destruct (open_record s h ct) as [? ? ? ?| |]; reflexivity. }
    destruct (open_record s h ct) as [body t q e | | ]; [|reflexivity|reflexivity].
    cbn [r_wins with_wins].
    destruct (get_win W e (ensure_wins W maxseq64 e (r_wins s))) as [mx w]. cbn [fst snd].
    destruct (check mx w q); cbn [negb andb]; [|reflexivity].
    destruct (maxseq48 <? q) eqn:E; [assert (Hq : q <=? maxseq48 = false) by lia; now rewrite Hq|].
    assert (Hq : q <=? maxseq48 = true) by lia. rewrite Hq. cbn [andb].
    rewrite dispatch_deliveries. reflexivity.
  Qed.

  (* an unprotected (legacy header) record never delivers application data *)
  Theorem legacy_deliveries W lease s b : deliveries (snd (recv_legacy W lease s b)) = [].
  Proof.
    clear snmask aopen.
    unfold Rec13.recv_legacy.
    destruct (length b <? 13)%nat; [reflexivity|].
    destruct (negb (legacy_version_ok b)); [reflexivity|].
    destruct (r_epoch s <? _); [reflexivity|].
    cbn [r_wins with_wins].
    destruct (get_win W _ _) as [mx w].
    destruct (negb (check mx w _)); [reflexivity|].
    destruct (_ =? 0) eqn:E0.
    - rewrite dispatch_deliveries. rewrite E0. cbn [negb]. now rewrite andb_false_r.
    - destruct (negb (has_prot _)); reflexivity.
  Qed.

  Lemma open_cands_spec s h ct : forall cs body t q e,
    snd (open_cands s h ct cs) = Some (body, t, q, e) ->
    In e cs /\ e <= r_epoch s /\ open_gen s h ct e = Some (body, t, q).
  Proof.
    clear hs_room.
    induction cs as [|c cs IH]; intros body t q e H; [discriminate|].
    cbn [Rec13.open_cands] in H. destruct (r_epoch s <? c) eqn:E.
    - destruct (IH _ _ _ _ H) as (H1 & H2 & H3). split; [now right|auto].
    - destruct (open_gen s h ct c) as [[[body' t'] q']|] eqn:Eo.
      + cbn in H. inversion H; subst. split; [now left|]. split; [lia|exact Eo].
      + cbn [snd] in H. destruct (IH _ _ _ _ H) as (H1 & H2 & H3). split; [now right|auto].
  Qed.

  Lemma mem_N_In e l : mem_N e l = true <-> In e l.
  Proof.
    clear snmask aopen hs_room.
    unfold mem_N. rewrite existsb_exists. split.
    - intros (x & Hx & He). apply N.eqb_eq in He. now subst.
    - intro H. exists e. split; [exact H|apply N.eqb_refl].
  Qed.

  Lemma read_candidates_spec s elow e : In e (read_candidates s elow) -> has_gen s e = true /\ e mod 4 = elow.
  Proof.
    clear snmask aopen hs_room.
    unfold read_candidates, has_gen. rewrite in_app_iff. intros [H | H].
    - destruct (r_cur s) as [c|]; [|destruct H]. destruct (c mod 4 =? elow) eqn:E; [|destruct H].
      destruct H as [-> | []]. rewrite N.eqb_refl. split; [reflexivity|lia].
    - apply filter_In in H. destruct H as [H1 H2]. split; [|lia].
      apply mem_N_In in H1. destruct (r_cur s) as [c|]; [rewrite H1; apply orb_true_r|exact H1].
  Qed.

  (* unfolding "authenticates": the parse, the generation, the rebuilt record number, the AEAD *)
  Theorem auth_cipher_spec s b body t q e :
    auth_cipher s b = Some (body, t, q, e) ->
    exists h ct inner,
      parse_crec s b = Some (h, ct) /\
      has_gen s e = true /\ e mod 4 = u_elow h /\ e <= r_epoch s /\
      let clear := apply_mask h (snmask e ct) in
      q = reconstruct (u_seq clear) (u_sbit clear) (get_high e (r_high s)) /\
      aopen e q (uh_marshal clear) ct = Some inner /\
      inner_unmarshal inner = Some (body, t) /\ inner_type_ok t = true.
  Proof.
    clear hs_room.
    unfold auth_cipher. destruct (parse_crec s b) as [[h ct]|]; [|discriminate].
    unfold Rec13.open_record.
    destruct (open_cands s h ct (read_candidates s (u_elow h))) as [el [[[[body' t'] q'] e']|]] eqn:Eo.
    2:{ destruct el; discriminate. }
    intro H. assert (Heq : (body', t', q', e') = (body, t, q, e)) by (destruct el; cbn in H; now inversion H).
    inversion Heq; subst. clear H Heq.
    pose proof (open_cands_spec s h ct (read_candidates s (u_elow h)) body t q e) as Hs. rewrite Eo in Hs. specialize (Hs eq_refl).
    destruct Hs as (Hin & Hle & Hg). destruct (read_candidates_spec _ _ _ Hin) as [Hhg Hmod].
    unfold Rec13.open_gen in Hg.
    destruct (negb (lowbits_ok _ _)); [discriminate|].
    destruct (aopen e _ _ ct) as [inner|] eqn:Ea; [|discriminate].
    destruct (inner_unmarshal inner) as [[body'' t'']|] eqn:Ei; [|discriminate].
    destruct (inner_type_ok t'') eqn:Et; [|discriminate].
    inversion Hg; subst. exists h, ct, inner. cbn zeta. auto 10.
  Qed.

  Lemma recv_record_deliver W lease s b p e q :
    In (p, e, q) (deliveries (snd (recv_record W lease s b))) ->
    auth_cipher s b = Some (p, 23, q, e) /\ e <> 0 /\ has_prot s = true /\ q <= maxseq48.
  Proof.
    unfold Rec13.recv_record. destruct b as [|c b']; [intros []|].
    destruct (is_ct13 c); [|rewrite legacy_deliveries; intros []].
    rewrite cipher_deliveries. destruct (auth_cipher s (c :: b')) as [[[[body t] q'] e']|]; [|intros []].
    destruct (has_prot s); [|intros []]. cbn [andb].
    destruct (check _ _ q'); [|intros []]. cbn [andb].
    destruct (q' <=? maxseq48) eqn:Eq; [|intros []]. cbn [andb].
    destruct (t =? 23) eqn:Et; [|intros []]. cbn [andb].
    destruct (e' =? 0) eqn:E0; [intros []|]. cbn [negb andb].
    destruct (room s); [|intros []].
    intros [H | []]. inversion H; subst. assert (t = 23) by lia. subst t.
    repeat split; auto; lia.
  Qed.

  Lemma recv_cipher_marks W lease s b e q :
    In (e, q) (marks (snd (recv_cipher W lease s b))) -> exists body t, auth_cipher s b = Some (body, t, q, e).
  Proof.
    unfold auth_cipher, Rec13.recv_cipher.
    destruct (parse_crec s b) as [[h ct]|]; [|intros []].
    destruct (negb (has_prot s)); [intros []|].
    destruct (open_record s h ct) as [body t q' e' | | ]; [|intros []|intros []].
    destruct (get_win W e' _) as [mx w]. destruct (negb (check mx w q')); [intros []|].
    destruct (maxseq48 <? q'); [intros []|].
    intro H. apply dispatch_marks in H. destruct H as (-> & -> & _). now exists body, t.
  Qed.

  (* an unprotected record never commits a replay slot *)
  Lemma recv_legacy_marks W lease s b e q :
    In (e, q) (marks (snd (recv_legacy W lease s b))) -> False.
  Proof.
    unfold Rec13.recv_legacy.
    destruct (length b <? 13)%nat; [intros []|].
    destruct (negb (legacy_version_ok b)); [intros []|].
    destruct (r_epoch s <? _); [intros []|].
    destruct (get_win W _ _) as [mx w].
    destruct (negb (check mx w _)); [intros []|].
    destruct (_ =? 0) eqn:E0.
    - intro H. apply dispatch_marks in H. destruct H as (_ & _ & H). discriminate H.
    - destruct (negb (has_prot _)); intros [].
  Qed.

  (* ---------------------------------------------------------------- every output has a record behind it *)

  Lemma in_deliveries os p e q :
    In (p, e, q) (deliveries os) <-> In (ODeliver p e q) os \/ In (OPark p e q) os.
  Proof.
    clear snmask aopen hs_room. induction os as [|o os IH]; [cbn; tauto|].
    destruct o; cbn [deliveries In]; rewrite ?IH;
      try (split; [intros [H | H]; [left|right]; now right
                  | intros [[H | H] | [H | H]]; try discriminate; [now left|now right]]).
    - split; [intros [H | [H | H]]; [inversion H; subst; left; now left|left; now right|right; now right]
             |intros [[H | H] | [H | H]]; try discriminate; [inversion H; now left|right; now left|right; now right]].
    - split; [intros [H | [H | H]]; [inversion H; subst; right; now left|left; now right|right; now right]
             |intros [[H | H] | [H | H]]; try discriminate; [right; now left|inversion H; now left|right; now right]].
  Qed.

  Lemma in_marks os e q : In (e, q) (marks os) <-> In (OMark e q) os.
  Proof.
    clear snmask aopen hs_room. induction os as [|o os IH]; [reflexivity|].
    destruct o; cbn [marks In]; rewrite ?IH; try (split; [intro H; now right | intros [H | H]; [discriminate|exact H]]).
    split; intros [H | H]; auto; left; now inversion H.
  Qed.

  Lemma recv_list_origin W lease o : forall rs s,
    In o (snd (recv_list W lease s rs)) -> exists s' r, In o (snd (recv_record W lease s' r)).
  Proof.
    induction rs as [|r rs IH]; intros s H; [destruct H|].
    cbn [Rec13.recv_list] in H. destruct (recv_record W lease s r) as [s1 o1] eqn:E1.
    destruct (existsb is_err o1).
    - exists s, r. now rewrite E1.
    - destruct (recv_list W lease s1 rs) as [s2 o2] eqn:E2. cbn [snd] in H. apply in_app_iff in H.
      destruct H as [H | H]; [exists s, r; now rewrite E1|].
      apply (IH s1). now rewrite E2.
  Qed.

  Definition is_early (o : out) : bool := match o with OEarly _ _ _ => true | _ => false end.

  Lemma early_out_is l o : In o (early_out l) -> is_early o = true.
  Proof. unfold early_out. rewrite in_map_iff. intros (x & <- & _). reflexivity. Qed.

  (* every output of a history is the output of one record, except the parked payloads Read returns
     when the handshake completes *)
  Lemma run_origin W o : forall ops s,
    In o (snd (run_ops W s ops)) -> is_early o = false ->
    exists lease s' r, In o (snd (recv_record W lease s' r)).
  Proof.
    induction ops as [|op ops IH]; intros s H Hne; [destruct H|].
    cbn [Rec13.run_ops] in H. destruct (step W s op) as [s1 o1] eqn:E1.
    destruct (run_ops W s1 ops) as [s2 o2] eqn:E2. cbn [snd] in H. apply in_app_iff in H.
    destruct H as [H | H]; [|apply (IH s1); [now rewrite E2|exact Hne]].
    destruct op as [d | e | e | | cid neg rrc | ]; cbn [Rec13.step] in E1.
    - unfold Rec13.recv13 in E1. destruct (r_closed s); [inversion E1; subst; destruct H|].
      destruct (unpack_datagram13 s d) as [rs|]; [|inversion E1; subst; destruct H].
      exists true. apply (recv_list_origin W true o rs s). now rewrite E1.
    - inversion E1; subst; destruct H.
    - inversion E1; subst; destruct H.
    - inversion E1; subst. apply early_out_is in H. congruence.
    - inversion E1; subst; destruct H.
    - destruct (r_closed s); [inversion E1; subst; destruct H|].
      exists false. apply (recv_list_origin W false o (r_queue s) (with_queue s [])). now rewrite E1.
  Qed.

  (* any output at all of a ciphertext record means it authenticated *)
  Corollary effect_only_authentic W lease s b :
    snd (recv_cipher W lease s b) <> [] -> exists body t q e, auth_cipher s b = Some (body, t, q, e).
  Proof.
    intro H. destruct (auth_cipher s b) as [[[[body t] q] e]|] eqn:Ea; [now exists body, t, q, e|].
    exfalso. apply H. now destruct (forged_inert W lease s b Ea).
  Qed.

  (* ---------------------------------------------------------------- C06: one delivery per commit *)

  Lemma dispatch_deliver_marks W prot s e q t body : prot = true ->
    deliveries (snd (dispatch W prot s e q t body)) = [] \/
    (deliveries (snd (dispatch W prot s e q t body)) = [(body, e, q)] /\
     marks (snd (dispatch W prot s e q t body)) = [(e, q)]).
  Proof.
    intros ->. rewrite dispatch_deliveries. destruct ((t =? 23) && negb (e =? 0) && room s) eqn:E; [|now left].
    right. split; [reflexivity|]. apply andb_prop in E. destruct E as [E Er]. apply andb_prop in E. destruct E as [E1 E2].
    assert (t = 23) by lia. subst t. unfold Rec13.dispatch, commit, room in *. cbv zeta. cbn [N.eqb Pos.eqb decode_content].
    destruct (e =? 0); [discriminate|]. destruct (r_estab s); [reflexivity|]. cbn [orb] in Er. rewrite Er. reflexivity.
  Qed.

  Lemma recv_record_deliver_marks W lease s b :
    sublist (RecvSound.recnums (deliveries (snd (recv_record W lease s b)))) (marks (snd (recv_record W lease s b))).
  Proof.
    unfold Rec13.recv_record. destruct b as [|c b']; [exact I|].
    destruct (is_ct13 c); [|rewrite legacy_deliveries; apply RecvSound.sublist_nil_l].
    unfold Rec13.recv_cipher.
    destruct (parse_crec s (c :: b')) as [[h ct]|]; [|exact I].
    destruct (negb (has_prot s)); [exact I|].
    destruct (open_record s h ct) as [body t q e | | ]; [|exact I|exact I].
    destruct (get_win W e _) as [mx w]. destruct (negb (check mx w q)); [exact I|].
    destruct (maxseq48 <? q); [exact I|].
    destruct (dispatch_deliver_marks W true (with_wins s (ensure_wins W maxseq64 e (r_wins s))) e q t body eq_refl) as [-> | [-> ->]].
    - apply RecvSound.sublist_nil_l.
    - cbn. auto.
  Qed.

  Lemma recv_list_deliver_marks W lease : forall rs s,
    sublist (RecvSound.recnums (deliveries (snd (recv_list W lease s rs)))) (marks (snd (recv_list W lease s rs))).
  Proof.
    induction rs as [|r rs IH]; intro s; [exact I|].
    cbn [Rec13.recv_list]. pose proof (recv_record_deliver_marks W lease s r) as H1.
    destruct (recv_record W lease s r) as [s1 o1]. cbn [snd] in H1.
    destruct (existsb is_err o1); [exact H1|].
    specialize (IH s1). destruct (recv_list W lease s1 rs) as [s2 o2]. cbn [snd] in *.
    rewrite deliveries_app, RecvSound.recnums_app, marks_app. now apply RecvSound.sublist_app.
  Qed.

  Lemma run_deliver_marks W : forall ops s,
    sublist (RecvSound.recnums (deliveries (snd (run_ops W s ops)))) (marks (snd (run_ops W s ops))).
  Proof.
    induction ops as [|o ops IH]; intro s; [exact I|].
    cbn [Rec13.run_ops].
    assert (H1 : sublist (RecvSound.recnums (deliveries (snd (step W s o)))) (marks (snd (step W s o)))).
    { destruct o as [d | e | e | | cid neg rrc | ]; cbn [Rec13.step]; try exact I.
      - unfold Rec13.recv13. destruct (r_closed s); [exact I|].
        destruct (unpack_datagram13 s d); [apply recv_list_deliver_marks|exact I].
      - cbn [snd]. fold (early_out (r_early s)). rewrite deliveries_early. apply RecvSound.sublist_nil_l.
      - destruct (r_closed s); [exact I|apply recv_list_deliver_marks]. }
    destruct (step W s o) as [s1 o1]. cbn [snd] in H1.
    specialize (IH s1). destruct (run_ops W s1 ops) as [s2 o2]. cbn [snd] in *.
    rewrite deliveries_app, RecvSound.recnums_app, marks_app. now apply RecvSound.sublist_app.
  Qed.

  (* C06: over every history no (epoch, record number) is handed to Read twice *)
  Theorem deliveries_nodup W cid neg rrc ops : N.of_nat W <= maxseq48 ->
    NoDup (RecvSound.recnums (deliveries (snd (run_ops W (rinit cid neg rrc) ops)))).
  Proof.
    intro HW. eapply RecvSound.sublist_NoDup; [apply run_deliver_marks | now apply marks_nodup].
  Qed.

  Lemma dispatch_queue W prot s e q t body : r_queue (fst (dispatch W prot s e q t body)) = r_queue s.
  Proof.
    destruct (commit_estab W prot s e q) as (_ & _ & Hq & _).
    unfold Rec13.dispatch. cbv zeta. destruct (t =? 22).
    - destruct (r_estab s && (e =? 0)); [reflexivity|].
      destruct (hs_ok hs_room body); cbn [fst]; [exact Hq|reflexivity].
    - destruct (decode_content t body) as [p | level desc | | | ].
      + destruct (e =? 0); [reflexivity|]. destruct (r_estab s); cbn [fst]; [exact Hq|].
        destruct (Nat.ltb (length (r_early s)) max_queue); cbn [fst with_early r_queue]; exact Hq.
      + destruct (r_estab s && (e =? 0)); [reflexivity|].
        destruct ((level =? 2) || (desc =? 0)); cbn [fst with_closed r_queue]; exact Hq.
      + destruct (e =? 0); cbn [fst]; [reflexivity|exact Hq].
      + destruct ((e =? 0) || negb (r_rrc s)); cbn [fst]; [reflexivity|exact Hq].
      + destruct (e =? 0); reflexivity.
  Qed.

  (* ---------------------------------------------------------------- the parked queue is bounded *)

  Lemma recv_record_queue W lease s b :
    (length (r_queue (fst (recv_record W lease s b))) <= Nat.max (length (r_queue s)) max_queue)%nat.
  Proof.
    assert (Henq : forall s0, (length (r_queue (enqueue lease s0 b)) <= Nat.max (length (r_queue s0)) max_queue)%nat).
    { intro s0. destruct (enqueue_spec lease s0 b) as [_ [-> | (-> & Hl & _)]]; [lia|].
      rewrite app_length. cbn [length]. unfold max_queue in *. lia. }
    assert (Hdisp : forall prot s0 e q t body, r_queue (fst (dispatch W prot s0 e q t body)) = r_queue s0)
      by (intros; apply dispatch_queue).
    unfold Rec13.recv_record. destruct b as [|c b']; [cbn; lia|].
    destruct (is_ct13 c).
    - unfold Rec13.recv_cipher. destruct (parse_crec s (c :: b')) as [[h ct]|]; [|cbn; lia].
      destruct (negb (has_prot s)); [apply Henq|].
      destruct (open_record s h ct) as [body t q e | | ].
      + destruct (get_win W e _) as [mx w]. destruct (negb (check mx w q)); [cbn; lia|].
        destruct (maxseq48 <? q); [cbn; lia|]. rewrite Hdisp. cbn. lia.
      + cbn [fst]. destruct (queueable_epoch _ _); [apply Henq|lia].
      + cbn. lia.
    - unfold Rec13.recv_legacy. destruct (length (c :: b') <? 13)%nat; [cbn [fst]; lia|].
      destruct (negb (legacy_version_ok (c :: b'))); [cbn [fst]; lia|].
      destruct (r_epoch s <? _).
      { cbn [fst]. destruct (max_future (r_epoch s) <? _); [lia|apply Henq]. }
      destruct (get_win W _ _) as [mx w]. destruct (negb (check mx w _)); [cbn; lia|].
      destruct (_ =? 0); [rewrite Hdisp; cbn; lia|].
      destruct (negb (has_prot _)); [|cbn; lia].
      cbn [fst]. etransitivity; [apply Henq|]. cbn. lia.
  Qed.

  Lemma recv_list_queue W lease : forall rs s, (length (r_queue s) <= max_queue)%nat ->
    (length (r_queue (fst (recv_list W lease s rs))) <= max_queue)%nat.
  Proof.
    induction rs as [|r rs IH]; intros s H; [exact H|].
    cbn [Rec13.recv_list]. pose proof (recv_record_queue W lease s r) as H1.
    destruct (recv_record W lease s r) as [s1 o1]. cbn [fst] in H1.
    destruct (existsb is_err o1); [cbn [fst]; lia|].
    assert (H2 : (length (r_queue s1) <= max_queue)%nat) by lia.
    specialize (IH s1 H2). destruct (recv_list W lease s1 rs) as [s2 o2]. exact IH.
  Qed.

  Theorem queue_bounded W cid neg rrc ops :
    (length (r_queue (fst (run_ops W (rinit cid neg rrc) ops))) <= max_queue)%nat.
  Proof.
    assert (H : forall ops s, (length (r_queue s) <= max_queue)%nat ->
                         (length (r_queue (fst (run_ops W s ops))) <= max_queue)%nat).
    { clear ops. induction ops as [|o ops IH]; intros s Hs; [exact Hs|].
      cbn [Rec13.run_ops].
      assert (H1 : (length (r_queue (fst (step W s o))) <= max_queue)%nat).
      { destruct o as [d | e | e | | cid' neg' rrc' | ]; cbn [Rec13.step]; try exact Hs.
        - unfold Rec13.recv13. destruct (r_closed s); [exact Hs|].
          destruct (unpack_datagram13 s d); [now apply recv_list_queue|exact Hs].
        - destruct (r_closed s); [exact Hs|]. apply recv_list_queue. cbn. lia. }
      destruct (step W s o) as [s1 o1]. cbn [fst] in H1.
      specialize (IH s1 H1). destruct (run_ops W s1 ops) as [s2 o2]. exact IH. }
    apply H. cbn. lia.
  Qed.

  (* ---------------------------------------------------------------- generations are never dropped *)

  Lemma has_gen_install s e e' : has_gen s e = true -> has_gen (install_read s e') e = true.
  Proof.
    unfold has_gen, install_read. cbn [r_cur r_old].
    destruct (r_cur s) as [p|].
    - intro H. apply orb_true_iff in H. destruct ((p =? e') || mem_N p (r_old s)) eqn:E.
      + destruct H as [H | H]; [|rewrite H; apply orb_true_r].
        assert (p = e) by lia. subst p. apply orb_true_iff in E. destruct E as [E | E].
        * assert (e = e') by lia. subst. now rewrite N.eqb_refl.
        * rewrite E. apply orb_true_r.
      + apply orb_true_iff. right. apply mem_N_In. apply in_app_iff.
        destruct H as [H | H]; [right; left; lia|left; now apply mem_N_In].
    - intro H. rewrite H. apply orb_true_r.
  Qed.

  (* receiving never touches the key state, the remote epoch or the negotiated extensions *)
  Definition keys_same (s s' : rstate) : Prop :=
    r_epoch s' = r_epoch s /\ r_cur s' = r_cur s /\ r_old s' = r_old s /\
    r_cid s' = r_cid s /\ r_cidneg s' = r_cidneg s /\ r_rrc s' = r_rrc s /\ r_estab s' = r_estab s.

  Lemma keys_same_refl s : keys_same s s.
  Proof. unfold keys_same; auto 10. Qed.

  Lemma keys_same_trans a b c : keys_same a b -> keys_same b c -> keys_same a c.
  Proof. unfold keys_same. intuition congruence. Qed.

  Lemma keys_same_commit W prot s e q : keys_same s (fst (commit W prot s e q)).
  Proof.
    unfold commit. destruct prot; cbn [fst]; [|apply keys_same_refl].
    unfold mark. destruct (get_win W e (r_wins s)) as [mx w]. destruct (accept mx w q) as [w' isl].
    destruct isl; unfold keys_same; cbn; auto 10.
  Qed.

  Lemma keys_same_enqueue lease s b : keys_same s (enqueue lease s b).
  Proof. destruct (enqueue_spec lease s b) as [(H1 & H2 & H3 & H4 & H5 & H6 & H7 & H8 & H9 & H10 & H11) _]. unfold keys_same. auto 10. Qed.

  Lemma keys_same_dispatch W prot s e q t body : keys_same s (fst (dispatch W prot s e q t body)).
  Proof.
    pose proof (keys_same_commit W prot s e q) as Hc.
    unfold Rec13.dispatch. cbv zeta. destruct (t =? 22).
    - destruct (r_estab s && (e =? 0)); [apply keys_same_refl|].
      destruct (hs_ok hs_room body); cbn [fst]; [exact Hc|apply keys_same_refl].
    - destruct (decode_content t body) as [p | level desc | | | ].
      + destruct (e =? 0); [apply keys_same_refl|]. destruct (r_estab s); cbn [fst]; [exact Hc|].
        destruct (Nat.ltb (length (r_early s)) max_queue); cbn [fst]; [|exact Hc].
        eapply keys_same_trans; [exact Hc|]. unfold keys_same; cbn; auto 10.
      + destruct (r_estab s && (e =? 0)); [apply keys_same_refl|].
        destruct ((level =? 2) || (desc =? 0)); cbn [fst]; [|exact Hc].
        eapply keys_same_trans; [exact Hc|]. unfold keys_same; cbn; auto 10.
      + destruct (e =? 0); cbn [fst]; [apply keys_same_refl|exact Hc].
      + destruct ((e =? 0) || negb (r_rrc s)); cbn [fst]; [apply keys_same_refl|exact Hc].
      + destruct (e =? 0); apply keys_same_refl.
  Qed.

  Lemma keys_same_wins s ws : keys_same s (with_wins s ws).
  Proof. unfold keys_same; cbn; auto 10. Qed.

  Lemma recv_record_keys W lease s b : keys_same s (fst (recv_record W lease s b)).
  Proof.
    unfold Rec13.recv_record. destruct b as [|c b']; [apply keys_same_refl|].
    destruct (is_ct13 c).
    - unfold Rec13.recv_cipher. destruct (parse_crec s (c :: b')) as [[h ct]|]; [|apply keys_same_refl].
      destruct (negb (has_prot s)); [apply keys_same_enqueue|].
      destruct (open_record s h ct) as [body t q e | | ].
      + destruct (get_win W e _) as [mx w]. destruct (negb (check mx w q)); [apply keys_same_wins|].
        destruct (maxseq48 <? q); [apply keys_same_wins|].
        eapply keys_same_trans; [apply keys_same_wins|apply keys_same_dispatch].
      + cbn [fst]. destruct (queueable_epoch _ _); [apply keys_same_enqueue|apply keys_same_refl].
      + apply keys_same_refl.
    - unfold Rec13.recv_legacy. destruct (length (c :: b') <? 13)%nat; [apply keys_same_refl|].
      destruct (negb (legacy_version_ok (c :: b'))); [apply keys_same_refl|].
      destruct (r_epoch s <? _).
      { cbn [fst]. destruct (max_future (r_epoch s) <? _); [apply keys_same_refl|apply keys_same_enqueue]. }
      destruct (get_win W _ _) as [mx w]. destruct (negb (check mx w _)); [apply keys_same_wins|].
      destruct (_ =? 0); [eapply keys_same_trans; [apply keys_same_wins|apply keys_same_dispatch]|].
      destruct (negb (has_prot _)); [|apply keys_same_wins].
      cbn [fst]. eapply keys_same_trans; [apply keys_same_wins|apply keys_same_enqueue].
  Qed.

  Lemma recv_list_keys W lease : forall rs s, keys_same s (fst (recv_list W lease s rs)).
  Proof.
    induction rs as [|r rs IH]; intro s; [apply keys_same_refl|].
    cbn [Rec13.recv_list]. pose proof (recv_record_keys W lease s r) as H1.
    destruct (recv_record W lease s r) as [s1 o1]. cbn [fst] in H1.
    destruct (existsb is_err o1); [exact H1|].
    specialize (IH s1). destruct (recv_list W lease s1 rs) as [s2 o2]. cbn [fst] in *.
    eapply keys_same_trans; eauto.
  Qed.

  (* what the code does with old generations: every generation ever installed stays installed, for
     every later history (TrafficKeyState.readOld is never pruned) *)
  Theorem generations_retained W : forall ops s e,
    has_gen s e = true -> has_gen (fst (run_ops W s ops)) e = true.
  Proof.
    induction ops as [|o ops IH]; intros s e H; [exact H|].
    cbn [Rec13.run_ops].
    assert (H1 : has_gen (fst (step W s o)) e = true).
    { destruct o as [d | e' | e' | | cid neg rrc | ]; cbn [Rec13.step fst].
      - unfold Rec13.recv13. destruct (r_closed s); [exact H|].
        destruct (unpack_datagram13 s d) as [rs|]; [|exact H].
        destruct (recv_list_keys W true rs s) as (_ & Hc & Ho & _). unfold has_gen in *. now rewrite Hc, Ho.
      - now apply has_gen_install.
      - exact H.
      - exact H.
      - exact H.
      - destruct (r_closed s); [exact H|].
        destruct (recv_list_keys W false (r_queue s) (with_queue s [])) as (_ & Hc & Ho & _).
        unfold has_gen in *. rewrite Hc, Ho. exact H. }
    destruct (step W s o) as [s1 o1]. cbn [fst] in H1.
    specialize (IH s1 e H1). destruct (run_ops W s1 ops) as [s2 o2]. exact IH.
  Qed.

  (* ... and its replay detector and highest number are only ever touched by records of its own epoch:
     installing generations or changing the remote epoch leaves every window as it is *)
  Theorem key_ops_keep_windows W s o :
    match o with Arrive _ | Drain => True
    | _ => r_wins (fst (step W s o)) = r_wins s /\ r_high (fst (step W s o)) = r_high s end.
  Proof. destruct o; cbn; auto. Qed.

  (* ---------------------------------------------------------------- authentic records and the window *)

  (* C06 at the connection: an authentic application record of a protected epoch, on an open
     connection with keys, is delivered exactly when its own epoch's replay detector accepts the
     rebuilt record number (and the number fits the 48 bits of the re-marshalled header) *)
  Theorem authentic_delivered_iff_window W lease s b p q e :
    auth_cipher s b = Some (p, 23, q, e) -> has_prot s = true -> e <> 0 -> q <= maxseq48 -> room s = true ->
    deliveries (snd (recv_cipher W lease s b)) =
    if check (fst (get_win W e (ensure_wins W maxseq64 e (r_wins s))))
             (snd (get_win W e (ensure_wins W maxseq64 e (r_wins s)))) q
    then [(p, e, q)] else [].
  Proof.
    intros Ha Hp He Hq Hr. rewrite cipher_deliveries, Ha, Hp. cbn [andb].
    destruct (check _ _ q); [|reflexivity]. cbn [andb].
    assert (H1 : q <=? maxseq48 = true) by lia. assert (H2 : e =? 0 = false) by lia.
    rewrite H1, H2, Hr. reflexivity.
  Qed.

  Lemma decode_ack t body : decode_content t body = CAck -> t = 26.
  Proof.
    clear snmask aopen hs_room.
    unfold decode_content. destruct (t =? 21) eqn:E1.
    { destruct body as [|l [|d [|x body]]]; discriminate. }
    destruct (t =? 23); [discriminate|].
    destruct (t =? 26) eqn:E26; [intros _; lia|].
    destruct (t =? 27); [destruct (rrc_ok body); discriminate|discriminate].
  Qed.

  Lemma dispatch_acks W prot s e q t body e' q' body' :
    In (OAck e' q' body') (snd (dispatch W prot s e q t body)) ->
    e' = e /\ q' = q /\ body' = body /\ e <> 0 /\ t = 26.
  Proof.
    unfold Rec13.dispatch, commit. cbv zeta. destruct (t =? 22).
    { destruct (r_estab s && (e =? 0)); [intros []|].
      destruct (hs_ok hs_room body); destruct prot; intro H; in_list H. }
    destruct (decode_content t body) as [p | level desc | | | ] eqn:Ed.
    - destruct (e =? 0); [intros []|]. destruct (r_estab s); [|destruct (Nat.ltb (length (r_early s)) max_queue)];
        destruct prot; intro H; in_list H.
    - destruct (r_estab s && (e =? 0)); [intros []|].
      destruct ((level =? 2) || (desc =? 0)); destruct (desc =? 0); destruct prot; intro H; in_list H.
    - apply decode_ack in Ed. destruct (e =? 0) eqn:E0; [intros []|].
      destruct prot; intro H; in_list H; inversion H; subst; repeat split; auto; lia.
    - destruct ((e =? 0) || negb (r_rrc s)); destruct prot; intro H; in_list H.
    - destruct (e =? 0); intro H; in_list H.
  Qed.

  Lemma dispatch_hs W prot s e q t body e' q' body' :
    In (OHs e' q' body') (snd (dispatch W prot s e q t body)) ->
    e' = e /\ q' = q /\ body' = body /\ t = 22 /\ (r_estab s = true -> e <> 0).
  Proof.
    unfold Rec13.dispatch, commit. cbv zeta. destruct (t =? 22) eqn:E22.
    { destruct (r_estab s && (e =? 0)) eqn:Ee; [intros []|].
      destruct (hs_ok hs_room body); destruct prot; intro H; in_list H; inversion H; subst;
        (split; [reflexivity|]; split; [reflexivity|]; split; [reflexivity|]; split; [lia|];
         intros Hes; rewrite Hes in Ee; cbn in Ee; lia). }
    destruct (decode_content t body) as [p | level desc | | | ].
    - destruct (e =? 0); [intros []|]. destruct (r_estab s); [|destruct (Nat.ltb (length (r_early s)) max_queue)];
        destruct prot; intro H; in_list H.
    - destruct (r_estab s && (e =? 0)); [intros []|].
      destruct ((level =? 2) || (desc =? 0)); destruct (desc =? 0); destruct prot; intro H; in_list H.
    - destruct (e =? 0); [intros []|]. destruct prot; intro H; in_list H.
    - destruct ((e =? 0) || negb (r_rrc s)); destruct prot; intro H; in_list H.
    - destruct (e =? 0); intro H; in_list H.
  Qed.

  (* once the handshake is complete only authentic handshake records of a protected epoch (KeyUpdate,
     NewSessionTicket, retransmitted final flights) reach the handshake layer; unprotected ones are
     discarded *)
  Theorem hs_only_authentic_established W lease s b e q body :
    r_estab s = true ->
    In (OHs e q body) (snd (recv_record W lease s b)) ->
    e <> 0 /\ auth_cipher s b = Some (body, 22, q, e).
  Proof.
    intro Hes. unfold Rec13.recv_record. destruct b as [|c b']; [intros []|].
    destruct (is_ct13 c).
    - unfold auth_cipher, Rec13.recv_cipher.
      destruct (parse_crec s (c :: b')) as [[h ct]|]; [|intros []].
      destruct (negb (has_prot s)); [intros []|].
      destruct (open_record s h ct) as [body' t q' e' | | ]; [|intros []|intros []].
      destruct (get_win W e' _) as [mx w]. destruct (negb (check mx w q')); [intros []|].
      destruct (maxseq48 <? q'); [intros []|].
      intro H. apply dispatch_hs in H. destruct H as (-> & -> & -> & -> & He). split; [now apply He|reflexivity].
    - unfold Rec13.recv_legacy.
      destruct (length (c :: b') <? 13)%nat; [intros []|].
      destruct (negb (legacy_version_ok (c :: b'))); [intros []|].
      destruct (r_epoch s <? _); [intros []|].
      destruct (get_win W _ _) as [mx w]. destruct (negb (check mx w _)); [intros []|].
      destruct (_ =? 0) eqn:E0.
      + intro H. apply dispatch_hs in H. destruct H as (-> & _ & _ & _ & He). exfalso. apply He; [exact Hes|lia].
      + destruct (negb (has_prot _)); intros [].
  Qed.

  (* only authentic ACK records of a protected epoch reach the handshake layer (unprotected ACKs are
     discarded) *)
  Theorem ack_only_authentic W lease s b e q body :
    In (OAck e q body) (snd (recv_record W lease s b)) ->
    e <> 0 /\ auth_cipher s b = Some (body, 26, q, e).
  Proof.
    unfold Rec13.recv_record. destruct b as [|c b']; [intros []|].
    destruct (is_ct13 c).
    - unfold auth_cipher, Rec13.recv_cipher.
      destruct (parse_crec s (c :: b')) as [[h ct]|]; [|intros []].
      destruct (negb (has_prot s)); [intros []|].
      destruct (open_record s h ct) as [body' t q' e' | | ]; [|intros []|intros []].
      destruct (get_win W e' _) as [mx w]. destruct (negb (check mx w q')); [intros []|].
      destruct (maxseq48 <? q'); [intros []|].
      intro H. apply dispatch_acks in H. destruct H as (-> & -> & -> & He & ->). split; [exact He|reflexivity].
    - unfold Rec13.recv_legacy.
      destruct (length (c :: b') <? 13)%nat; [intros []|].
      destruct (negb (legacy_version_ok (c :: b'))); [intros []|].
      destruct (r_epoch s <? _); [intros []|].
      destruct (get_win W _ _) as [mx w]. destruct (negb (check mx w _)); [intros []|].
      destruct (_ =? 0) eqn:E0.
      + intro H. apply dispatch_acks in H. destruct H as (-> & _ & _ & He & _). lia.
      + destruct (negb (has_prot _)); intros [].
  Qed.

  (* ---------------------------------------------------------------- established: unprotected records are inert *)

  Definition typed13 (b : bytes) : bool := is_ct13 (hd 0 b) || is_plain13 (hd 0 b).

  Lemma dispatch_plain_established W prot s q t body :
    r_estab s = true -> is_plain13 t = true -> dispatch W prot s 0 q t body = (s, []).
  Proof.
    intros Hes Ht. unfold Rec13.dispatch. rewrite Hes. cbn [N.eqb andb].
    destruct (t =? 22) eqn:E22; [reflexivity|].
    unfold is_plain13 in Ht. rewrite E22 in Ht. unfold decode_content.
    destruct (t =? 21) eqn:E21.
    { destruct body as [|l [|d [|x y]]]; reflexivity. }
    cbn [orb] in Ht. assert (t = 26) by lia. subst t. cbn [N.eqb Pos.eqb].
    destruct (ack_ok body); reflexivity.
  Qed.

  (* C05 for unprotected records: once the handshake is complete a legacy-header record (alert,
     handshake or ACK typed - nothing else gets past UnpackDatagram13) has no output, commits no
     replay slot and changes no highest number, key, epoch or closed flag; all it can do is make the
     code allocate (empty) replay detectors and, when it claims the next epoch, take a slot of the
     bounded queue *)
  Theorem legacy_inert_established W lease s b :
    r_estab s = true -> is_plain13 (hd 0 b) = true ->
    snd (recv_legacy W lease s b) = [] /\
    keys_same s (fst (recv_legacy W lease s b)) /\
    r_high (fst (recv_legacy W lease s b)) = r_high s /\
    r_closed (fst (recv_legacy W lease s b)) = r_closed s /\
    (forall e, snd (get_win W e (r_wins (fst (recv_legacy W lease s b)))) = snd (get_win W e (r_wins s))) /\
    (r_queue (fst (recv_legacy W lease s b)) = r_queue s \/ r_queue (fst (recv_legacy W lease s b)) = r_queue s ++ [b]).
  Proof.
    intros Hes Ht.
    assert (Hsame : forall s0 : rstate, snd (s0, @nil out) = [] /\ keys_same s0 s0 /\ r_high s0 = r_high s0 /\
              r_closed s0 = r_closed s0 /\ (forall e, snd (get_win W e (r_wins s0)) = snd (get_win W e (r_wins s0))) /\
              (r_queue s0 = r_queue s0 \/ r_queue s0 = r_queue s0 ++ [b])).
    { intro s0. split; [reflexivity|]. split; [apply keys_same_refl|]. auto 10. }
    assert (Henq : forall s0, keys_same s s0 -> r_high s0 = r_high s -> r_closed s0 = r_closed s ->
              (forall e, snd (get_win W e (r_wins s0)) = snd (get_win W e (r_wins s))) -> r_queue s0 = r_queue s ->
              snd (enqueue lease s0 b, @nil out) = [] /\ keys_same s (enqueue lease s0 b) /\
              r_high (enqueue lease s0 b) = r_high s /\ r_closed (enqueue lease s0 b) = r_closed s /\
              (forall e, snd (get_win W e (r_wins (enqueue lease s0 b))) = snd (get_win W e (r_wins s))) /\
              (r_queue (enqueue lease s0 b) = r_queue s \/ r_queue (enqueue lease s0 b) = r_queue s ++ [b])).
    { intros s0 Hk Hh Hc Hw Hq.
      destruct (enqueue_spec lease s0 b) as [(E1 & E2 & E3 & E4 & E5 & E6 & E7 & E8 & E9 & E10 & E11) Hqq].
      split; [reflexivity|]. split; [eapply keys_same_trans; [exact Hk|apply keys_same_enqueue]|].
      split; [congruence|]. split; [congruence|]. split; [intro e; rewrite E4; apply Hw|].
      destruct Hqq as [-> | (-> & _)]; rewrite Hq; auto. }
    unfold Rec13.recv_legacy.
    destruct (length b <? 13)%nat; [apply Hsame|].
    destruct (negb (legacy_version_ok b)); [apply Hsame|].
    set (e := be_dec (firstn 2 (skipn 3 b))). set (q := be_dec (firstn 6 (skipn 5 b))).
    destruct (r_epoch s <? e).
    { cbn [fst snd]. destruct (max_future (r_epoch s) <? e); [apply Hsame|].
      apply Henq; auto. apply keys_same_refl. }
    set (s1 := with_wins s (ensure_wins W maxseq48 e (r_wins s))).
    assert (H1 : snd (s1, @nil out) = [] /\ keys_same s s1 /\ r_high s1 = r_high s /\ r_closed s1 = r_closed s /\
                 (forall e0, snd (get_win W e0 (r_wins s1)) = snd (get_win W e0 (r_wins s))) /\
                 (r_queue s1 = r_queue s \/ r_queue s1 = r_queue s ++ [b])).
    { split; [reflexivity|]. split; [apply keys_same_wins|]. split; [reflexivity|]. split; [reflexivity|].
      split; [intro e0; cbn [s1 r_wins with_wins]; apply get_win_ensure|now left]. }
    destruct (get_win W e (r_wins s1)) as [mx w].
    destruct (negb (check mx w q)); [exact H1|].
    destruct (e =? 0) eqn:E0.
    - assert (e = 0) by lia. rewrite H. rewrite dispatch_plain_established; [exact H1|exact Hes|exact Ht].
    - destruct (negb (has_prot s1)); [|exact H1].
      destruct H1 as (_ & K & Hh & Hc & Hw & _). apply Henq; auto.
  Qed.

  Lemma uh_unmarshal_shorter n b h rest : uh_unmarshal n b = Some (h, rest) -> (length rest < length b)%nat.
  Proof.
    clear snmask aopen hs_room. unfold uh_unmarshal. destruct b as [|ct r0]; [discriminate|].
    destruct (negb (is_ct13 ct)); [discriminate|].
    destruct (length r0 <? _)%nat; [discriminate|].
    destruct (length (skipn _ r0) <? _)%nat; [discriminate|].
    destruct (length (skipn _ (skipn _ r0)) <? _)%nat; [discriminate|].
    intro H. inversion H; subst. rewrite !skipn_length. cbn [length]. lia.
  Qed.

  Lemma hd_firstn (n : nat) (b : bytes) : (0 < n)%nat -> hd 0 (firstn n b) = hd 0 b.
  Proof. clear snmask aopen hs_room. destruct n; [lia|]. destruct b; reflexivity. Qed.

  (* every record UnpackDatagram13 hands on is a ciphertext record or an alert / handshake / ACK
     typed legacy record *)
  Lemma unpack13_typed : forall fuel cidlen req first b rs,
    unpack13 cidlen req first fuel b = Some rs -> Forall (fun r => typed13 r = true) rs.
  Proof.
    clear snmask aopen hs_room.
    induction fuel as [|fuel IH]; intros cidlen req first b rs H.
    - destruct b; cbn in H; [inversion H; constructor|discriminate].
    - destruct b as [|ct b']; [cbn in H; inversion H; constructor|].
      cbn [unpack13] in H. destruct (is_plain13 ct) eqn:Ep.
      + destruct (length (ct :: b') <=? 13)%nat; [discriminate|].
        set (n := (13 + N.to_nat (be_dec (firstn 2 (skipn 11 (ct :: b')))))%nat) in *.
        destruct (length (ct :: b') <? n)%nat; [discriminate|].
        destruct (unpack13 cidlen req first fuel (skipn n (ct :: b'))) as [rs'|] eqn:Er; [|discriminate].
        injection H as <-. constructor; [|eapply IH; eauto].
        unfold typed13. try rewrite hd_firstn by (unfold n; lia). cbn [hd]. rewrite Ep. apply orb_true_r.
      + destruct (negb (is_ct13 ct)) eqn:Ec; [discriminate|]. apply negb_false_iff in Ec.
        destruct (_ || _); [discriminate|].
        destruct (uh_unmarshal _ (ct :: b')) as [[h rest]|] eqn:Eu; [|discriminate].
        pose proof (uh_unmarshal_shorter _ _ _ _ Eu) as Hsh.
        destruct (if (cidlen =? 0)%nat then _ else _) as [mismatch first'].
        destruct (negb (u_lbit h)).
        * destruct (negb (ct_len_ok (len rest))); [discriminate|].
          destruct mismatch; inversion H; subst; [constructor|].
          constructor; [|constructor]. unfold typed13. cbn [hd]. now rewrite Ec.
        * destruct (negb (ct_len_ok (u_len h))); [discriminate|].
          destruct (len rest <? u_len h); [discriminate|].
          destruct mismatch; [inversion H; constructor|].
          set (n := (length (ct :: b') - length rest + N.to_nat (u_len h))%nat) in *.
          destruct (unpack13 cidlen req first' fuel (skipn n (ct :: b'))) as [rs'|] eqn:Er; [|discriminate].
          injection H as <-. constructor; [|eapply IH; eauto].
          unfold typed13. try rewrite hd_firstn by (unfold n; lia). cbn [hd]. now rewrite Ec.
  Qed.

  Lemma recv_record_queue_shape W lease s b :
    r_queue (fst (recv_record W lease s b)) = r_queue s \/
    r_queue (fst (recv_record W lease s b)) = r_queue s ++ [b].
  Proof.
    assert (Henq : forall s0, r_queue s0 = r_queue s ->
              r_queue (enqueue lease s0 b) = r_queue s \/ r_queue (enqueue lease s0 b) = r_queue s ++ [b]).
    { intros s0 Hq. destruct (enqueue_spec lease s0 b) as [_ [-> | (-> & _)]]; rewrite Hq; auto. }
    assert (Hdisp : forall prot s0 e q t body, r_queue (fst (dispatch W prot s0 e q t body)) = r_queue s0)
      by (intros; apply dispatch_queue).
    unfold Rec13.recv_record. destruct b as [|c b']; [now left|].
    destruct (is_ct13 c).
    - unfold Rec13.recv_cipher. destruct (parse_crec s (c :: b')) as [[h ct]|]; [|now left].
      destruct (negb (has_prot s)); [now apply Henq|].
      destruct (open_record s h ct) as [body t q e | | ].
      + destruct (get_win W e _) as [mx w]. destruct (negb (check mx w q)); [now left|].
        destruct (maxseq48 <? q); [now left|]. rewrite Hdisp. now left.
      + cbn [fst]. destruct (queueable_epoch _ _); [now apply Henq|now left].
      + now left.
    - unfold Rec13.recv_legacy. destruct (length (c :: b') <? 13)%nat; [now left|].
      destruct (negb (legacy_version_ok (c :: b'))); [now left|].
      destruct (r_epoch s <? _).
      { cbn [fst]. destruct (max_future (r_epoch s) <? _); [now left|now apply Henq]. }
      destruct (get_win W _ _) as [mx w]. destruct (negb (check mx w _)); [now left|].
      destruct (_ =? 0); [rewrite Hdisp; now left|].
      destruct (negb (has_prot _)); [|now left]. cbn [fst]. now apply Henq.
  Qed.

  (* the parked queue only ever holds records UnpackDatagram13 let through *)
  Definition QI (s : rstate) : Prop := Forall (fun r => typed13 r = true) (r_queue s).

  Lemma recv_list_est W lease o : forall rs s,
    r_estab s = true -> Forall (fun r => typed13 r = true) rs ->
    In o (snd (recv_list W lease s rs)) ->
    exists s' b, r_estab s' = true /\ In o (snd (recv_cipher W lease s' b)).
  Proof.
    induction rs as [|r rs IH]; intros s Hes HF H; [destruct H|].
    inversion HF as [|? ? Hr HF']; subst.
    cbn [Rec13.recv_list] in H.
    pose proof (recv_record_keys W lease s r) as Hk.
    assert (Hcase : (exists b, snd (recv_record W lease s r) = snd (recv_cipher W lease s b)) \/ snd (recv_record W lease s r) = []).
    { unfold Rec13.recv_record. destruct r as [|c r']; [now right|]. unfold typed13 in Hr. cbn [hd] in Hr.
      destruct (is_ct13 c) eqn:Ec; [left; now exists (c :: r')|]. cbn [orb] in Hr.
      right. now destruct (legacy_inert_established W lease s (c :: r') Hes Hr). }
    destruct (recv_record W lease s r) as [s1 o1]. cbn [fst snd] in *.
    assert (Hes1 : r_estab s1 = true) by (destruct Hk as (_ & _ & _ & _ & _ & _ & He); congruence).
    assert (Ho1 : In o o1 -> exists s' b, r_estab s' = true /\ In o (snd (recv_cipher W lease s' b))).
    { intro Hin. destruct Hcase as [[b Hb] | Hb]; rewrite Hb in Hin; [now exists s, b|destruct Hin]. }
    destruct (existsb is_err o1); [now apply Ho1|].
    destruct (recv_list W lease s1 rs) as [s2 o2] eqn:E2. cbn [snd] in H. apply in_app_iff in H.
    destruct H as [H | H]; [now apply Ho1|]. apply (IH s1 Hes1 HF'). now rewrite E2.
  Qed.

  Lemma dispatch_early_estab W prot s e q t body :
    r_estab s = true -> r_early (fst (dispatch W prot s e q t body)) = r_early s.
  Proof.
    intro Hes. destruct (commit_estab W prot s e q) as (_ & He & _ & _).
    unfold Rec13.dispatch. cbv zeta. rewrite Hes. destruct (t =? 22).
    - destruct (true && (e =? 0)); [reflexivity|].
      destruct (hs_ok hs_room body); cbn [fst]; [exact He|reflexivity].
    - destruct (decode_content t body) as [p | level desc | | | ].
      + destruct (e =? 0); [reflexivity|]. cbn [fst]. exact He.
      + destruct (true && (e =? 0)); [reflexivity|].
        destruct ((level =? 2) || (desc =? 0)); cbn [fst with_closed r_early]; exact He.
      + destruct (e =? 0); cbn [fst]; [reflexivity|exact He].
      + destruct ((e =? 0) || negb (r_rrc s)); cbn [fst]; [reflexivity|exact He].
      + destruct (e =? 0); reflexivity.
  Qed.

  Lemma recv_record_early_estab W lease s b :
    r_estab s = true -> r_early (fst (recv_record W lease s b)) = r_early s.
  Proof.
    intro Hes.
    assert (Henq : forall s0, r_early (enqueue lease s0 b) = r_early s0).
    { intro s0. now destruct (enqueue_spec lease s0 b) as [(_ & _ & _ & _ & _ & _ & _ & _ & _ & _ & H) _]. }
    unfold Rec13.recv_record. destruct b as [|c b']; [reflexivity|].
    destruct (is_ct13 c).
    - unfold Rec13.recv_cipher. destruct (parse_crec s (c :: b')) as [[h ct]|]; [|reflexivity].
      destruct (negb (has_prot s)); [apply Henq|].
      destruct (open_record s h ct) as [body t q e | | ].
      + destruct (get_win W e _) as [mx w]. destruct (negb (check mx w q)); [reflexivity|].
        destruct (maxseq48 <? q); [reflexivity|]. now rewrite dispatch_early_estab.
      + cbn [fst]. destruct (queueable_epoch _ _); [apply Henq|reflexivity].
      + reflexivity.
    - unfold Rec13.recv_legacy. destruct (length (c :: b') <? 13)%nat; [reflexivity|].
      destruct (negb (legacy_version_ok (c :: b'))); [reflexivity|].
      destruct (r_epoch s <? _).
      { cbn [fst]. destruct (max_future (r_epoch s) <? _); [reflexivity|apply Henq]. }
      destruct (get_win W _ _) as [mx w]. destruct (negb (check mx w _)); [reflexivity|].
      destruct (_ =? 0); [now rewrite dispatch_early_estab|].
      destruct (negb (has_prot _)); [|reflexivity]. cbn [fst]. now rewrite Henq.
  Qed.

  Lemma recv_list_inv W lease : forall rs s,
    r_estab s = true -> QI s -> Forall (fun r => typed13 r = true) rs ->
    r_estab (fst (recv_list W lease s rs)) = true /\ QI (fst (recv_list W lease s rs)) /\
    r_early (fst (recv_list W lease s rs)) = r_early s.
  Proof.
    induction rs as [|r rs IH]; intros s Hes HQ HF; [auto|].
    inversion HF as [|? ? Hr HF']; subst. cbn [Rec13.recv_list].
    pose proof (recv_record_keys W lease s r) as Hk. pose proof (recv_record_queue_shape W lease s r) as Hq.
    pose proof (recv_record_early_estab W lease s r Hes) as Hy.
    destruct (recv_record W lease s r) as [s1 o1]. cbn [fst] in *.
    assert (Hes1 : r_estab s1 = true) by (destruct Hk as (_ & _ & _ & _ & _ & _ & He); congruence).
    assert (HQ1 : QI s1).
    { unfold QI. destruct Hq as [-> | ->]; [exact HQ|]. apply Forall_app. split; [exact HQ|]. constructor; [exact Hr|constructor]. }
    destruct (existsb is_err o1); [auto|].
    specialize (IH s1 Hes1 HQ1 HF'). destruct (recv_list W lease s1 rs) as [s2 o2]. cbn [fst] in *.
    destruct IH as (I1 & I2 & I3). split; [exact I1|]. split; [exact I2|congruence].
  Qed.

  (* C05, established connection, epoch 0 included: over every later history every visible output
     (delivery, alert acted on or written, handshake / ACK record handed on, close, error) comes out of
     the ciphertext path, hence - by effect_only_authentic - from a record that authenticated *)
  Theorem established_outputs_from_ciphertext W o : forall ops s,
    r_estab s = true -> r_early s = [] -> QI s -> In o (snd (run_ops W s ops)) ->
    exists lease s' b, r_estab s' = true /\ In o (snd (recv_cipher W lease s' b)).
  Proof.
    induction ops as [|op ops IH]; intros s Hes Hey HQ H; [destruct H|].
    cbn [Rec13.run_ops] in H.
    assert (Hstep : (In o (snd (step W s op)) -> exists lease s' b, r_estab s' = true /\ In o (snd (recv_cipher W lease s' b))) /\
                    r_estab (fst (step W s op)) = true /\ r_early (fst (step W s op)) = [] /\ QI (fst (step W s op))).
    { destruct op as [d | e | e | | cid neg rrc | ]; cbn [Rec13.step fst snd];
        try (split; [intros []|split; [exact Hes|split; [exact Hey|exact HQ]]]).
      - unfold Rec13.recv13. destruct (r_closed s); [cbn [fst snd]; split; [intros []|auto]|].
        unfold unpack_datagram13. destruct (unpack13 _ _ None (length d) d) as [rs|] eqn:Eu; [|cbn [fst snd]; split; [intros []|auto]].
        pose proof (unpack13_typed _ _ _ _ _ _ Eu) as HF.
        split; [intro Hin; exists true; now apply (recv_list_est W true o rs s)|].
        destruct (recv_list_inv W true rs s Hes HQ HF) as (I1 & I2 & I3). split; [exact I1|]. split; [congruence|exact I2].
      - rewrite Hey. cbn [map]. split; [intros []|]. split; [reflexivity|]. split; [reflexivity|exact HQ].
      - destruct (r_closed s); [cbn [fst snd]; split; [intros []|auto]|].
        split; [intro Hin; exists false; apply (recv_list_est W false o (r_queue s) (with_queue s [])); auto|].
        destruct (recv_list_inv W false (r_queue s) (with_queue s []) Hes (Forall_nil _) HQ) as (I1 & I2 & I3).
        split; [exact I1|]. split; [cbn [with_queue r_early] in I3; congruence|exact I2]. }
    destruct (step W s op) as [s1 o1]. cbn [fst snd] in Hstep. destruct Hstep as (Ho & Hes1 & Hey1 & HQ1).
    destruct (run_ops W s1 ops) as [s2 o2] eqn:E2. cbn [snd] in H. apply in_app_iff in H.
    destruct H as [H | H]; [now apply Ho|]. apply (IH s1 Hes1 Hey1 HQ1). now rewrite E2.
  Qed.

  (* the queue invariant holds in every state reachable from the initial one, and "established" is never undone *)
  Theorem queue_typed_reachable W : forall ops s, QI s -> QI (fst (run_ops W s ops)).
  Proof.
    assert (Hl : forall lease rs s, QI s -> Forall (fun r => typed13 r = true) rs -> QI (fst (recv_list W lease s rs))).
    { intros lease. induction rs as [|r rs IH]; intros s HQ HF; [exact HQ|].
      inversion HF as [|? ? Hr HF']; subst. cbn [Rec13.recv_list].
      pose proof (recv_record_queue_shape W lease s r) as Hq.
      destruct (recv_record W lease s r) as [s1 o1]. cbn [fst] in *.
      assert (HQ1 : QI s1).
      { unfold QI. destruct Hq as [-> | ->]; [exact HQ|]. apply Forall_app. split; [exact HQ|]. constructor; [exact Hr|constructor]. }
      destruct (existsb is_err o1); [exact HQ1|].
      specialize (IH s1 HQ1 HF'). destruct (recv_list W lease s1 rs) as [s2 o2]. exact IH. }
    induction ops as [|op ops IH]; intros s HQ; [exact HQ|].
    cbn [Rec13.run_ops].
    assert (H1 : QI (fst (step W s op))).
    { destruct op as [d | e | e | | cid neg rrc | ]; cbn [Rec13.step fst]; try exact HQ.
      - unfold Rec13.recv13. destruct (r_closed s); [exact HQ|].
        unfold unpack_datagram13. destruct (unpack13 _ _ None (length d) d) as [rs|] eqn:Eu; [|exact HQ].
        apply Hl; [exact HQ|]. eapply unpack13_typed; eauto.
      - destruct (r_closed s); [exact HQ|]. apply Hl; [constructor|exact HQ]. }
    destruct (step W s op) as [s1 o1]. cbn [fst] in H1.
    specialize (IH s1 H1). destruct (run_ops W s1 ops) as [s2 o2]. exact IH.
  Qed.

  (* ---------------------------------------------------------------- what Read returns *)

  Lemma sublist_trans {A} : forall (c b a : list A), sublist a b -> sublist b c -> sublist a c.
  Proof.
    clear snmask aopen hs_room.
    induction c as [|z c IH]; intros b a Hab Hbc.
    - apply RecvSound.sublist_nil_r in Hbc. subst b. apply RecvSound.sublist_nil_r in Hab. subst a. exact I.
    - destruct a as [|x a]; [apply RecvSound.sublist_nil_l|].
      destruct b as [|y b]; [cbn in Hab; contradiction|].
      cbn in Hbc. destruct Hbc as [[-> Hbc] | Hbc].
      + cbn in Hab. destruct Hab as [[-> Hab] | Hab]; cbn.
        * left. split; [reflexivity|]. eapply IH; eauto.
        * right. eapply IH; eauto.
      + cbn. right. eapply IH; [exact Hab|exact Hbc].
  Qed.

  Lemma sublist_map {A B} (f : A -> B) : forall (b a : list A), sublist a b -> sublist (map f a) (map f b).
  Proof.
    clear snmask aopen hs_room.
    induction b as [|y b IH]; intros a H.
    - apply RecvSound.sublist_nil_r in H. subst a. exact I.
    - destruct a as [|x a]; [exact I|]. cbn in H. cbn [map]. cbn. destruct H as [[-> H] | H].
      + left. split; [reflexivity|now apply IH].
      + right. apply (IH (x :: a) H).
  Qed.

  Lemma reads_app a b : reads (a ++ b) = reads a ++ reads b.
  Proof. clear snmask aopen hs_room. induction a as [|[] a IH]; cbn; auto; now rewrite IH. Qed.

  Lemma reads_early l : reads (early_out l) = l.
  Proof. clear snmask aopen hs_room. unfold early_out. induction l as [|[[p e] q] l IH]; cbn; auto. now rewrite IH. Qed.

  (* parked payloads exist only while the handshake is incomplete *)
  Definition EI (s : rstate) : Prop := r_estab s = true -> r_early s = [].

  Lemma commit_reads W prot s e q : reads (snd (commit W prot s e q)) = [].
  Proof. unfold commit. destruct prot; reflexivity. Qed.

  Lemma dispatch_reads W prot s e q t body : EI s ->
    sublist (reads (snd (dispatch W prot s e q t body)) ++ r_early (fst (dispatch W prot s e q t body)))
            (r_early s ++ deliveries (snd (dispatch W prot s e q t body))) /\
    r_estab (fst (dispatch W prot s e q t body)) = r_estab s /\ EI (fst (dispatch W prot s e q t body)).
  Proof.
    intro HE. destruct (commit_estab W prot s e q) as (Hce & Hcy & _ & _).
    assert (Hsame : forall os, reads os = [] -> deliveries os = [] ->
              sublist (reads os ++ r_early s) (r_early s ++ deliveries os)).
    { intros os -> ->. rewrite app_nil_r. apply RecvSound.sublist_refl. }
    assert (HEc : EI (fst (commit W prot s e q))) by (unfold EI; rewrite Hce, Hcy; exact HE).
    unfold Rec13.dispatch. cbv zeta. destruct (t =? 22).
    { destruct (r_estab s && (e =? 0)); [split; [now apply Hsame|auto]|].
      destruct (hs_ok hs_room body); cbn [fst snd]; [|split; [now apply Hsame|auto]].
      rewrite Hcy. split; [|auto]. apply Hsame; [now rewrite reads_app, commit_reads|now rewrite deliveries_app, commit_deliveries]. }
    destruct (decode_content t body) as [p | level desc | | | ].
    - destruct (e =? 0); [split; [now apply Hsame|auto]|].
      destruct (r_estab s) eqn:Ees; cbn [fst snd].
      + rewrite Hcy, (HE Ees). rewrite reads_app, commit_reads, deliveries_app, commit_deliveries. cbn.
        split; [now left|auto].
      + destruct (Nat.ltb (length (r_early s)) max_queue); cbn [fst snd with_early r_early r_estab].
        * rewrite reads_app, commit_reads, deliveries_app, commit_deliveries. cbn [reads deliveries app].
          split; [apply RecvSound.sublist_refl|]. split; [exact Hce|]. unfold EI. cbn [with_early r_estab]. rewrite Hce. discriminate.
        * rewrite Hcy. split; [|auto]. apply Hsame; [apply commit_reads|apply commit_deliveries].
    - destruct (r_estab s && (e =? 0)); [split; [now apply Hsame|auto]|].
      destruct ((level =? 2) || (desc =? 0)); destruct (desc =? 0); cbn [fst snd app with_closed r_early r_estab];
        rewrite Hcy; (split; [apply Hsame; [rewrite reads_app, commit_reads|rewrite deliveries_app, commit_deliveries]; reflexivity|]);
        (split; [exact Hce|exact HEc]).
    - destruct (e =? 0); cbn [fst snd]; [split; [now apply Hsame|auto]|].
      rewrite Hcy. split; [|auto]. apply Hsame; [now rewrite reads_app, commit_reads|now rewrite deliveries_app, commit_deliveries].
    - destruct ((e =? 0) || negb (r_rrc s)); cbn [fst snd]; [split; [now apply Hsame|auto]|].
      rewrite Hcy. split; [|auto]. apply Hsame; [now rewrite reads_app, commit_reads|now rewrite deliveries_app, commit_deliveries].
    - destruct (e =? 0); cbn [fst snd]; (split; [now apply Hsame|auto]).
  Qed.

  Lemma recv_record_reads W lease s b : EI s ->
    sublist (reads (snd (recv_record W lease s b)) ++ r_early (fst (recv_record W lease s b)))
            (r_early s ++ deliveries (snd (recv_record W lease s b))) /\
    EI (fst (recv_record W lease s b)).
  Proof.
    intro HE.
    assert (Hsame : forall s0, r_early s0 = r_early s -> r_estab s0 = r_estab s ->
              sublist (reads (@nil out) ++ r_early s0) (r_early s ++ deliveries (@nil out)) /\ EI s0).
    { intros s0 Hy He. cbn [reads deliveries app]. rewrite Hy, app_nil_r. split; [apply RecvSound.sublist_refl|].
      unfold EI. rewrite Hy, He. exact HE. }
    assert (Henq : forall s0, r_early s0 = r_early s -> r_estab s0 = r_estab s ->
              sublist (reads (@nil out) ++ r_early (enqueue lease s0 b)) (r_early s ++ deliveries (@nil out)) /\ EI (enqueue lease s0 b)).
    { intros s0 Hy He. destruct (enqueue_spec lease s0 b) as [(_ & _ & _ & _ & _ & _ & _ & _ & _ & E10 & E11) _].
      apply Hsame; congruence. }
    assert (Hdisp : forall prot s0 e q t body, r_early s0 = r_early s -> r_estab s0 = r_estab s ->
              sublist (reads (snd (dispatch W prot s0 e q t body)) ++ r_early (fst (dispatch W prot s0 e q t body)))
                      (r_early s ++ deliveries (snd (dispatch W prot s0 e q t body))) /\
              EI (fst (dispatch W prot s0 e q t body))).
    { intros prot s0 e q t body Hy He.
      assert (HE0 : EI s0) by (unfold EI; rewrite Hy, He; exact HE).
      destruct (dispatch_reads W prot s0 e q t body HE0) as (H1 & _ & H3). rewrite Hy in H1. auto. }
    unfold Rec13.recv_record. destruct b as [|c b']; [now apply Hsame|].
    destruct (is_ct13 c).
    - unfold Rec13.recv_cipher. destruct (parse_crec s (c :: b')) as [[h ct]|]; [|now apply Hsame].
      destruct (negb (has_prot s)); [now apply Henq|].
      destruct (open_record s h ct) as [body t q e | | ].
      + destruct (get_win W e _) as [mx w]. destruct (negb (check mx w q)); [now apply Hsame|].
        destruct (maxseq48 <? q); [now apply Hsame|]. now apply Hdisp.
      + cbn [fst snd]. destruct (queueable_epoch _ _); [now apply Henq|now apply Hsame].
      + now apply Hsame.
    - unfold Rec13.recv_legacy. destruct (length (c :: b') <? 13)%nat; [now apply Hsame|].
      destruct (negb (legacy_version_ok (c :: b'))); [now apply Hsame|].
      destruct (r_epoch s <? _).
      { cbn [fst snd]. destruct (max_future (r_epoch s) <? _); [now apply Hsame|now apply Henq]. }
      destruct (get_win W _ _) as [mx w]. destruct (negb (check mx w _)); [now apply Hsame|].
      destruct (_ =? 0); [now apply Hdisp|].
      destruct (negb (has_prot _)); [|now apply Hsame]. cbn [fst snd]. now apply Henq.
  Qed.

  Lemma reads_chain (R1 E1 E0 D1 R2 E2 D2 : list (bytes * N * N)) :
    sublist (R1 ++ E1) (E0 ++ D1) -> sublist (R2 ++ E2) (E1 ++ D2) ->
    sublist ((R1 ++ R2) ++ E2) (E0 ++ D1 ++ D2).
  Proof.
    clear snmask aopen hs_room. intros H1 H2.
    rewrite <- app_assoc. apply (sublist_trans _ (R1 ++ E1 ++ D2)).
    - apply RecvSound.sublist_app; [apply RecvSound.sublist_refl|exact H2].
    - rewrite !app_assoc. apply RecvSound.sublist_app; [exact H1|apply RecvSound.sublist_refl].
  Qed.

  Lemma recv_list_reads W lease : forall rs s, EI s ->
    sublist (reads (snd (recv_list W lease s rs)) ++ r_early (fst (recv_list W lease s rs)))
            (r_early s ++ deliveries (snd (recv_list W lease s rs))) /\
    EI (fst (recv_list W lease s rs)).
  Proof.
    induction rs as [|r rs IH]; intros s HE.
    - cbn. rewrite app_nil_r. split; [apply RecvSound.sublist_refl|exact HE].
    - cbn [Rec13.recv_list]. pose proof (recv_record_reads W lease s r HE) as [H1 HE1].
      destruct (recv_record W lease s r) as [s1 o1]. cbn [fst snd] in *.
      destruct (existsb is_err o1); [split; assumption|].
      specialize (IH s1 HE1). destruct (recv_list W lease s1 rs) as [s2 o2]. cbn [fst snd] in *.
      destruct IH as [H2 HE2]. split; [|exact HE2].
      rewrite reads_app, deliveries_app. now apply (reads_chain _ (r_early s1)).
  Qed.

  Lemma run_reads W : forall ops s, EI s ->
    sublist (reads (snd (run_ops W s ops)) ++ r_early (fst (run_ops W s ops)))
            (r_early s ++ deliveries (snd (run_ops W s ops))) /\
    EI (fst (run_ops W s ops)).
  Proof.
    induction ops as [|o ops IH]; intros s HE.
    - cbn. rewrite app_nil_r. split; [apply RecvSound.sublist_refl|exact HE].
    - cbn [Rec13.run_ops].
      assert (Hstep : sublist (reads (snd (step W s o)) ++ r_early (fst (step W s o)))
                              (r_early s ++ deliveries (snd (step W s o))) /\ EI (fst (step W s o))).
      { assert (Hsame : forall s0, r_early s0 = r_early s -> r_estab s0 = r_estab s ->
                  sublist (reads (@nil out) ++ r_early s0) (r_early s ++ deliveries (@nil out)) /\ EI s0).
        { intros s0 Hy He. cbn [reads deliveries app]. rewrite Hy, app_nil_r. split; [apply RecvSound.sublist_refl|].
          unfold EI. rewrite Hy, He. exact HE. }
        destruct o as [d | e | e | | cid neg rrc | ]; cbn [Rec13.step].
        - unfold Rec13.recv13. destruct (r_closed s); [now apply Hsame|].
          destruct (unpack_datagram13 s d) as [rs|]; [now apply recv_list_reads|now apply Hsame].
        - now apply Hsame.
        - now apply Hsame.
        - cbn [fst snd]. fold (early_out (r_early s)). rewrite reads_early, deliveries_early.
          cbn [with_estab r_early]. rewrite !app_nil_r. split; [apply RecvSound.sublist_refl|]. intros _. reflexivity.
        - now apply Hsame.
        - destruct (r_closed s); [now apply Hsame|].
          assert (HE0 : EI (with_queue s [])) by exact HE.
          exact (recv_list_reads W false (r_queue s) (with_queue s []) HE0). }
      destruct (step W s o) as [s1 o1]. cbn [fst snd] in Hstep. destruct Hstep as [H1 HE1].
      specialize (IH s1 HE1). destruct (run_ops W s1 ops) as [s2 o2]. cbn [fst snd] in *.
      destruct IH as [H2 HE2]. split; [|exact HE2].
      rewrite reads_app, deliveries_app. now apply (reads_chain _ (r_early s1)).
  Qed.

  (* Read returns only payloads that were accepted for Read (or were parked already), in the order of
     acceptance ... *)
  Theorem reads_are_accepted W ops s : EI s ->
    sublist (reads (snd (run_ops W s ops))) (r_early s ++ deliveries (snd (run_ops W s ops))).
  Proof.
    intro HE. destruct (run_reads W ops s HE) as [H _].
    eapply sublist_trans; [|exact H].
    rewrite <- (app_nil_r (reads (snd (run_ops W s ops)))) at 1.
    apply RecvSound.sublist_app; [apply RecvSound.sublist_refl|apply RecvSound.sublist_nil_l].
  Qed.

  (* ... and, C06 at the level of Read: over every history - early application data parked during the
     handshake included - no (epoch, record number) is returned by Read twice *)
  Theorem reads_nodup W cid neg rrc ops : N.of_nat W <= maxseq48 ->
    NoDup (RecvSound.recnums (reads (snd (run_ops W (rinit cid neg rrc) ops)))).
  Proof.
    intro HW.
    assert (HE : EI (rinit cid neg rrc)) by (intro H; discriminate H).
    pose proof (reads_are_accepted W ops (rinit cid neg rrc) HE) as H. cbn [rinit r_early app] in H.
    eapply RecvSound.sublist_NoDup; [|apply (deliveries_nodup W cid neg rrc ops HW)].
    unfold RecvSound.recnums. now apply sublist_map.
  Qed.

End Recv.

(* ------------------------------------------------------------------ the AEAD idealisation *)

Section Ideal.
  Variable snmask : N -> bytes -> N.
  Variable aopen : N -> N -> bytes -> bytes -> option bytes.
  Variable hs_room : bytes -> bool.
  (* what the peer sealed: (generation = epoch, record number = nonce, additional data, ciphertext, inner plaintext) *)
  Variable log : list (N * N * bytes * bytes * bytes).
  (* INT-CTXT, idealised: a generation's AEAD opens only what was sealed under that generation with
     the same record number and the same additional data *)
  Hypothesis ideal : forall e q a c i, aopen e q a c = Some i -> In (e, q, a, c, i) log.

  (* C05: whatever Read receives is the content of ONE application-data record that the peer sealed
     under a generation the receiver retains and has authorised (epoch <= remote epoch, epoch <> 0),
     with the record number the sender used (it is the AEAD nonce) equal to the number rebuilt from
     the unmasked wire bits, and with additional data equal to the header as received (so the
     connection id, the S/L bits, the epoch bits, the clear record-number bits and the length are
     the sender's) *)
  Theorem deliver_only_sealed W lease s b p e q :
    In (p, e, q) (deliveries (snd (recv_record snmask aopen hs_room W lease s b))) ->
    e <> 0 /\ q <= maxseq48 /\ has_gen s e = true /\ e <= r_epoch s /\
    exists h ct inner,
      parse_crec s b = Some (h, ct) /\ e mod 4 = u_elow h /\
      let clear := apply_mask h (snmask e ct) in
      q = reconstruct (u_seq clear) (u_sbit clear) (get_high e (r_high s)) /\
      In (e, q, uh_marshal clear, ct, inner) log /\ inner_unmarshal inner = Some (p, 23).
  Proof.
    intro H. apply recv_record_deliver in H. destruct H as (Ha & He & _ & Hq).
    apply (auth_cipher_spec snmask aopen) in Ha. destruct Ha as (h & ct & inner & Hp & Hg & Hm & Hle & Hrec & Hopen & Hin & _).
    split; [exact He|]. split; [exact Hq|]. split; [exact Hg|]. split; [exact Hle|].
    exists h, ct, inner. cbn zeta in *. split; [exact Hp|]. split; [exact Hm|].
    split; [exact Hrec|]. split; [|exact Hin]. apply ideal. exact Hopen.
  Qed.

  Theorem run_deliver_sealed W ops s p e q :
    In (p, e, q) (deliveries (snd (run_ops snmask aopen hs_room W s ops))) ->
    e <> 0 /\ exists a c i, In (e, q, a, c, i) log /\ inner_unmarshal i = Some (p, 23).
  Proof.
    intro H. apply in_deliveries in H.
    assert (Ho : exists lease s' r, In (p, e, q) (deliveries (snd (recv_record snmask aopen hs_room W lease s' r)))).
    { destruct H as [H | H].
      - apply run_origin in H; [|reflexivity]. destruct H as (lease & s' & r & H).
        exists lease, s', r. apply in_deliveries. now left.
      - apply run_origin in H; [|reflexivity]. destruct H as (lease & s' & r & H).
        exists lease, s', r. apply in_deliveries. now right. }
    destruct Ho as (lease & s' & r & Hd). clear H. rename Hd into H. apply deliver_only_sealed in H.
    destruct H as (He & _ & _ & _ & h & ct & inner & _ & _ & _ & Hl & Hi). split; [exact He|]. eauto.
  Qed.

  (* whatever Read returns - at once or from the payloads parked during the handshake - is application
     data the peer sealed *)
  Theorem run_read_sealed W ops s p e q : r_early s = [] ->
    In (p, e, q) (reads (snd (run_ops snmask aopen hs_room W s ops))) ->
    e <> 0 /\ exists a c i, In (e, q, a, c, i) log /\ inner_unmarshal i = Some (p, 23).
  Proof.
    intros Hy H. apply (run_deliver_sealed W ops s).
    assert (HE : EI s) by (intros _; exact Hy).
    pose proof (reads_are_accepted snmask aopen hs_room W ops s HE) as Hs. rewrite Hy in Hs. cbn [app] in Hs.
    eapply RecvSound.sublist_In; eauto.
  Qed.

  (* every commit of a replay slot - an unprotected record never commits one - is a tuple the peer sealed *)
  Theorem run_marks_sealed W ops s e q :
    In (e, q) (marks (snd (run_ops snmask aopen hs_room W s ops))) ->
    exists a c i, In (e, q, a, c, i) log.
  Proof.
    intro H. apply in_marks in H. apply run_origin in H; [|reflexivity]. destruct H as (lease & s' & r & H).
    apply in_marks in H. unfold Rec13.recv_record in H. destruct r as [|c r']; [destruct H|].
    destruct (is_ct13 c).
    - apply recv_cipher_marks in H. destruct H as (body & t & H). apply (auth_cipher_spec snmask aopen) in H.
      destruct H as (h & ct & inner & _ & _ & _ & _ & _ & Hopen & _). eauto.
    - exfalso. eapply recv_legacy_marks; eauto.
  Qed.

  (* a ciphertext record has a visible effect only if it was sealed by the peer *)
  Theorem effect_only_sealed W lease s b :
    snd (recv_cipher snmask aopen hs_room W lease s b) <> [] ->
    exists e q a c i, In (e, q, a, c, i) log.
  Proof.
    intro H. apply effect_only_authentic in H. destruct H as (body & t & q & e & H).
    apply (auth_cipher_spec snmask aopen) in H. destruct H as (h & ct & inner & _ & _ & _ & _ & _ & Hopen & _). eauto 10.
  Qed.

  (* nothing sealed, nothing happens: with an empty log every ciphertext record is inert *)
  Corollary nothing_sealed_inert W lease s b : log = [] ->
    snd (recv_cipher snmask aopen hs_room W lease s b) = [].
  Proof.
    intro Hl. destruct (snd (recv_cipher snmask aopen hs_room W lease s b)) as [|o os] eqn:E; [reflexivity|].
    exfalso. assert (H : snd (recv_cipher snmask aopen hs_room W lease s b) <> []) by (rewrite E; discriminate).
    apply effect_only_sealed in H. destruct H as (e & q & a & c & i & H). rewrite Hl in H. destruct H.
  Qed.

  (* the record on the wire is the peer's: its header, with the record-number bits unmasked, is the
     additional data of a sealed tuple, and its body is that tuple's ciphertext *)
  Definition emitted_wire (x : N * N * bytes * bytes * bytes) (b : bytes) : Prop :=
    let '(e, _, a, c, _) := x in
    exists clear, uh_seq_ok clear /\ a = uh_marshal clear /\ b = uh_marshal (apply_mask clear (snmask e c)) ++ c.

  Lemma parse_crec_inv s b h ct : parse_crec s b = Some (h, ct) ->
    exists n, uh_unmarshal n b = Some (h, ct) /\ (bit_c (hd 0 b) = true -> (0 < n)%nat).
  Proof.
    unfold parse_crec, cid_policy.
    set (has := negb (is_nil (r_cid s))).
    assert (Hpol : forall (P : bool * bool -> option (uhdr * bytes)),
               (if r_cidneg s then P (has, has) else P (false, has)) = Some (h, ct) ->
               exists expected, P (expected, has) = Some (h, ct)).
    { intros P HP. destruct (r_cidneg s); eauto. }
    intro H.
    destruct (r_cidneg s);
      (destruct (bit_c (hd 0 b) && negb has) eqn:Ea; [discriminate|];
       destruct (crec_unmarshal (if bit_c (hd 0 b) then length (r_cid s) else 0%nat) b) as [[h' ct']|] eqn:Ec; [|discriminate];
       assert (Heq : (h', ct') = (h, ct))
         by (repeat match type of H with (if ?c then _ else _) = _ => destruct c; try discriminate end; now inversion H);
       inversion Heq; subst h' ct';
       exists (if bit_c (hd 0 b) then length (r_cid s) else 0%nat); split;
       [unfold crec_unmarshal in Ec; destruct (uh_unmarshal _ b) as [[h2 r2]|]; [|discriminate];
        repeat match type of Ec with (if ?c then _ else _) = _ => destruct c; try discriminate end; now inversion Ec
       |intro Hc; rewrite Hc in *; cbn [andb] in Ea; apply negb_false_iff in Ea; unfold has in Ea;
        apply negb_true_iff in Ea; destruct (r_cid s); [discriminate|cbn; lia]]).
  Qed.

  (* C05, "altered in any byte": a record that authenticates is byte-for-byte a record built from a
     tuple the peer sealed - same flags byte (fixed bits, C, S, L, epoch bits), same connection id,
     same (masked) record-number bytes, same length field, same ciphertext and tag *)
  Theorem authentic_is_emitted s b body t q e : bytes_ok b = true ->
    auth_cipher snmask aopen s b = Some (body, t, q, e) ->
    exists a c i, In (e, q, a, c, i) log /\ emitted_wire (e, q, a, c, i) b.
  Proof.
    intros Hok Ha. apply (auth_cipher_spec snmask aopen) in Ha.
    destruct Ha as (h & ct & inner & Hp & _ & _ & _ & _ & Hopen & _). cbn zeta in Hopen.
    apply parse_crec_inv in Hp. destruct Hp as (n & Hu & Hc).
    pose proof (uh_unmarshal_inv n b h ct Hok Hu Hc) as Hb.
    pose proof (uh_unmarshal_seq_ok n b h ct Hok Hu) as Hs.
    exists (uh_marshal (apply_mask h (snmask e ct))), ct, inner. split; [now apply ideal|].
    unfold emitted_wire. exists (apply_mask h (snmask e ct)).
    split; [now apply apply_mask_seq_ok|]. split; [reflexivity|].
    rewrite apply_mask_invol by exact Hs. exact Hb.
  Qed.

  (* ... hence a record that differs in any byte from every record built from the peer's sealed
     tuples - altered header, connection id, record-number bytes, epoch bits, length, ciphertext or
     tag, truncated or extended - does not authenticate, and is inert by forged_inert *)
  Corollary altered_not_authentic s b : bytes_ok b = true ->
    (forall x, In x log -> ~ emitted_wire x b) -> auth_cipher snmask aopen s b = None.
  Proof.
    intros Hok Hno. destruct (auth_cipher snmask aopen s b) as [[[[body t] q] e]|] eqn:Ea; [|reflexivity].
    exfalso. destruct (authentic_is_emitted s b body t q e Hok Ea) as (a & c & i & Hin & Hw).
    exact (Hno _ Hin Hw).
  Qed.

  (* C05 for an established connection, epoch 0 included: every visible output over every later
     history traces back to a tuple the peer sealed, and so does every committed replay slot *)
  Theorem established_effects_sealed W ops s o :
    r_estab s = true -> r_early s = [] -> QI s -> In o (snd (run_ops snmask aopen hs_room W s ops)) ->
    match o with
    | OMark e q => exists a c i, In (e, q, a, c, i) log
    | _ => exists e q a c i, In (e, q, a, c, i) log
    end.
  Proof.
    intros Hes Hey HQ H. apply established_outputs_from_ciphertext in H; auto.
    destruct H as (lease & s' & b & _ & H).
    assert (Hany : exists e q a c i, In (e, q, a, c, i) log).
    { apply (effect_only_sealed W lease s' b). intro Hn. rewrite Hn in H. destruct H. }
    destruct o; try exact Hany.
    apply in_marks in H. apply recv_cipher_marks in H. destruct H as (body & t & H).
    apply (auth_cipher_spec snmask aopen) in H. destruct H as (h & ct & inner & _ & _ & _ & _ & _ & Hopen & _). eauto.
  Qed.
End Ideal.

(* ------------------------------------------------------------------ what unprotected records still do; limits of the tolerance *)


(* an established DTLS 1.3 receiver: application keys (epoch 3) current, handshake keys (epoch 2) retained *)
Definition est_state : rstate := mk_rstate 3 (Some 3) [2] [] [] [] [] false false false true [].
(* alert(21) {254,253} epoch 0, record number 4138, length 2: fatal(2) internal_error(80) *)
Definition plain_alert : bytes := [21; 254; 253; 0; 0; 0; 0; 0; 0; 16; 42; 0; 2; 2; 80].
(* handshake(22) epoch 0 number 4263: KeyUpdate(24) length 1 message_seq 7 fragment 0..1, update_not_requested *)
Definition plain_keyupdate : bytes :=
  [22; 254; 253; 0; 0; 0; 0; 0; 0; 16; 167; 0; 13; 24; 0; 0; 1; 0; 7; 0; 0; 0; 0; 0; 1; 0].
(* ack(26) epoch 0 number 4383 naming record (3, 0) *)
Definition plain_ack : bytes :=
  [26; 254; 253; 0; 0; 0; 0; 0; 0; 17; 31; 0; 18; 0; 16; 0; 0; 0; 0; 0; 0; 0; 3; 0; 0; 0; 0; 0; 0; 0; 0].

(* once the handshake is complete the 15-byte unprotected fatal alert has no effect (regression of the
   repaired defect: it used to close the connection) *)
Theorem unprotected_alert_inert_example :
  has_prot est_state = true /\ r_closed est_state = false /\
  forall snmask aopen hs_room,
    snd (recv13 snmask aopen hs_room 64 est_state plain_alert) = [] /\
    r_closed (fst (recv13 snmask aopen hs_room 64 est_state plain_alert)) = false /\
    latest (snd (get_win 64 0 (r_wins (fst (recv13 snmask aopen hs_room 64 est_state plain_alert))))) = 0.
Proof. split; [reflexivity|]. split; [reflexivity|]. intros. split; [|split]; vm_compute; reflexivity. Qed.

(* ... while the handshake is still running an unprotected fatal alert aborts it, as before *)
Theorem unprotected_alert_during_handshake :
  forall snmask aopen hs_room,
    snd (recv13 snmask aopen hs_room 64 (rinit [] false false) plain_alert) = [OAlertIn 0 4138 2 80; OClosed].
Proof. intros. vm_compute. reflexivity. Qed.

(* once the handshake is complete an unprotected handshake record (here a KeyUpdate carrying
   message_seq 7) is dropped before reassembly: no commit, nothing reaches the post-handshake state
   machine (regression of the repaired defect: it used to be answered with a fatal alert) *)
Theorem unprotected_handshake_inert_example :
  forall snmask aopen hs_room,
    snd (recv13 snmask aopen hs_room 64 est_state plain_keyupdate) = [] /\
    r_high (fst (recv13 snmask aopen hs_room 64 est_state plain_keyupdate)) = r_high est_state /\
    latest (snd (get_win 64 0 (r_wins (fst (recv13 snmask aopen hs_room 64 est_state plain_keyupdate))))) = 0.
Proof. intros. split; [|split]; vm_compute; reflexivity. Qed.

(* ... while the handshake is still running unprotected handshake records are what the handshake is made of *)
Theorem unprotected_handshake_during_handshake :
  forall snmask aopen,
    snd (recv13 snmask aopen (fun _ => true) 64 (rinit [] false false) plain_keyupdate) =
    [OHs 0 4263 [24; 0; 0; 1; 0; 7; 0; 0; 0; 0; 0; 1; 0]].
Proof. intros. vm_compute. reflexivity. Qed.

(* an unprotected ACK is discarded without any effect (regression of the repaired defect) *)
Theorem unprotected_ack_inert_example :
  forall snmask aopen hs_room,
    snd (recv13 snmask aopen hs_room 64 est_state plain_ack) = [] /\
    r_high (fst (recv13 snmask aopen hs_room 64 est_state plain_ack)) = r_high est_state.
Proof. intros. split; vm_compute; reflexivity. Qed.

(* a record half the record-number range (or more) behind the expected number is never rebuilt
   correctly, whatever the replay window says *)
Lemma reconstruct_out_of_range q sbit h : h < 9223372036854775808 ->
  q + rwin sbit / 2 <= h + 1 -> reconstruct (q mod rwin sbit) sbit h <> q.
Proof.
  intros Hh Hq Heq. pose proof (reconstruct_range (q mod rwin sbit) sbit h Hh) as Hr. cbn zeta in Hr.
  rewrite Heq in Hr. unfold rwin in *. destruct sbit; lia.
Qed.

(* C06 tolerance ("fewer than the replay window behind the newest => delivered") does NOT hold once
   the window exceeds half the record-number space of the header form: 2^15 for the 16-bit form the
   implementation emits, 2^7 for the 8-bit form it accepts.  Concretely: window 256, newest number
   200, record number 5 (8-bit form) never seen and 195 < 256 behind: the detector would accept it,
   but the number is rebuilt as 261, the AEAD nonce is wrong, nothing is delivered. *)
Definition tol_state : rstate :=
  mk_rstate 3 (Some 3) [2]
    [(maxseq48, win_init 256); (maxseq64, win_init 256); (maxseq64, win_init 256);
     (maxseq64, {| latest := 200; mask := true :: repeat false 255 |})]
    [0; 0; 0; 200] [] [] false false false true [].
Definition tol_record : bytes := [39; 5; 0; 16] ++ repeat 0 16.
Definition tol_open (e q : N) (a c : bytes) : option bytes :=
  if (e =? 3) && (q =? 5) then Some [104; 105; 23] else None.

Theorem tolerance13_large_window_refuted :
  (* the peer sealed this record under generation 3 with record number 5 *)
  tol_open 3 5 [39; 5; 0; 16] (repeat 0 16) = Some [104; 105; 23] /\
  (* 5 was never accepted and lies inside the replay window of epoch 3 *)
  check maxseq64 (snd (get_win 256 3 (r_wins tol_state))) 5 = true /\
  (* yet nothing is delivered and nothing changes *)
  recv_cipher (fun _ _ => 0) tol_open (fun _ => true) 256 true tol_state tol_record = (tol_state, []).
Proof. split; [reflexivity|]. split; vm_compute; reflexivity. Qed.

(* K-C06-2, the concrete numbers: replay window 40000, newest record 32799, record 0 arrives: 32799 behind,
   inside the window, but its 16-bit wire number 0 is rebuilt as 65536 *)
Theorem k_c06_2_witness :
  32799 - 0 < 40000 /\ 0 + 32768 <= 32799 + 1 /\ reconstruct (0 mod 65536) true 32799 = 65536.
Proof. split; [reflexivity|]. split; [discriminate|]. vm_compute. reflexivity. Qed.

(* K-C06-2 in the model: a record whose number lies half the 16-bit range (or more) behind the
   expected one is rebuilt to a different number, whatever the configured replay window; if its
   ciphertext opens at its own number only, no generation opens it *)
Theorem far_behind_not_opened (snmask : N -> bytes -> N) (aopen : N -> N -> bytes -> bytes -> option bytes) s h ct e q :
  get_high e (r_high s) < 9223372036854775808 ->
  u_sbit (apply_mask h (snmask e ct)) = true ->
  u_seq (apply_mask h (snmask e ct)) = q mod 65536 ->
  q + 32768 <= get_high e (r_high s) + 1 ->
  (forall q' a, q' <> q -> aopen e q' a ct = None) ->
  open_gen snmask aopen s h ct e = None.
Proof.
  intros Hh Hs Hq Hfar Honly. unfold open_gen. rewrite Hs, Hq.
  destruct (negb (lowbits_ok _ _)); [reflexivity|].
  rewrite Honly; [reflexivity|].
  apply (reconstruct_out_of_range q true); [exact Hh|exact Hfar].
Qed.

(* ------------------------------------------------------------------ send side *)
Notation incr_per_epoch := SendSound.incr_per_epoch.



Lemma nth_set_nth_same' {A} n (x d : A) l : (n < length l)%nat -> nth n (set_nth n x l) d = x.
Proof. revert n; induction l as [|y l IH]; intros [|n] H; cbn in *; try lia; auto. apply IH. lia. Qed.
Lemma nth_set_nth_other' {A} n m (x d : A) l : n <> m -> nth m (set_nth n x l) d = nth m l d.
Proof. revert n m; induction l as [|y l IH]; intros [|n] [|m] H; cbn; auto; try lia. Qed.
Lemma nth_pad (l : list N) k i : nth i (l ++ repeat 0 k) 0 = nth i l 0.
Proof.
  destruct (i <? length l)%nat eqn:E.
  - apply app_nth1. lia.
  - rewrite app_nth2 by lia. rewrite (nth_overflow l) by lia.
    destruct (i - length l <? k)%nat eqn:E2.
    + clear E. revert E2. generalize (i - length l)%nat as j. induction k as [|k IH]; intros [|j] H; cbn; auto; try lia.
    + apply nth_overflow. rewrite repeat_length. lia.
Qed.

Lemma next_seq_spec st e :
  let st1 := fst (next_seq st e) in
  get_ctr e (s_ctr st1) = (get_ctr e (s_ctr st) + 1) mod w64 /\
  (forall e2, e2 <> e -> get_ctr e2 (s_ctr st1) = get_ctr e2 (s_ctr st)) /\
  snd (next_seq st e) = (if maxseq48 <? get_ctr e (s_ctr st) then None else Some (get_ctr e (s_ctr st))) /\
  s_wcur st1 = s_wcur st /\ s_wold st1 = s_wold st /\ s_lepoch st1 = s_lepoch st /\ s_cid st1 = s_cid st.
Proof.
  unfold next_seq. cbn [fst snd s_ctr s_wcur s_wold s_lepoch s_cid].
  set (c := s_ctr st ++ repeat 0 (S (N.to_nat e) - length (s_ctr st))).
  assert (Hl : (N.to_nat e < length c)%nat) by (unfold c; rewrite app_length, repeat_length; lia).
  assert (Hg : forall e2, get_ctr e2 c = get_ctr e2 (s_ctr st)) by (intro e2; unfold get_ctr, c; apply nth_pad).
  split; [unfold get_ctr at 1; rewrite nth_set_nth_same' by exact Hl; now rewrite Hg|].
  split; [intros e2 Hne; unfold get_ctr at 1; rewrite nth_set_nth_other' by lia; apply Hg|].
  rewrite Hg. auto 10.
Qed.

Section SendProofs.
  Variable snmask : N -> bytes -> N.
  Variable aseal : N -> N -> bytes -> bytes -> bytes.
  Variable overhead : N.
  Notation send_record := (send_record snmask aseal overhead).
  Notation sstep := (sstep snmask aseal overhead).
  Notation srun := (srun snmask aseal overhead).

  Definition recnum (x : emitted) : N * N := (em_epoch x, em_seq x).

  (* one emission attempt: the counter of that epoch advances by one (mod 2^64), no other counter
     moves; a record is emitted only with the old counter value, which is then at most 2^48-1 *)
  Lemma send_record_spec st e t body :
    let st1 := fst (send_record st e t body) in
    get_ctr e (s_ctr st1) = (get_ctr e (s_ctr st) + 1) mod w64 /\
    (forall e2, e2 <> e -> get_ctr e2 (s_ctr st1) = get_ctr e2 (s_ctr st)) /\
    s_wcur st1 = s_wcur st /\ s_wold st1 = s_wold st /\ s_lepoch st1 = s_lepoch st /\ s_cid st1 = s_cid st /\
    match snd (send_record st e t body) with
    | None => True
    | Some x => em_epoch x = e /\ em_seq x = get_ctr e (s_ctr st) /\ em_seq x <= maxseq48 /\ has_wgen st e = true
    end.
  Proof.
    cbn zeta. unfold Rec13.send_record. pose proof (next_seq_spec st e) as Hn. cbn zeta in Hn.
    destruct (next_seq st e) as [st1 oq]. cbn [fst snd] in Hn.
    destruct Hn as (H1 & H2 & H3 & H4 & H5 & H6 & H7). subst oq.
    destruct (maxseq48 <? get_ctr e (s_ctr st)) eqn:Em; cbn [fst snd]; [auto 10|].
    assert (Hw : has_wgen st1 e = has_wgen st e) by (unfold has_wgen; now rewrite H4, H5).
    destruct (negb (has_wgen st1 e)) eqn:Eh; cbn [fst snd]; [auto 10|].
    destruct (16384 <? len body); cbn [fst snd]; [auto 10|].
    destruct (16640 <? _); cbn [fst snd]; [auto 10|].
    destruct (negb (ct_len_ok _)); cbn [fst snd]; [auto 10|].
    cbn [em_epoch em_seq]. apply negb_false_iff in Eh. rewrite Hw in Eh. repeat split; auto; try lia.
  Qed.

  (* C09, as coded: a write fails rather than wrap at 2^48 (the counter keeps counting) *)
  Theorem send_no_wrap st e t body : maxseq48 < get_ctr e (s_ctr st) -> snd (send_record st e t body) = None.
  Proof.
    intro H. unfold Rec13.send_record. pose proof (next_seq_spec st e) as Hn. cbn zeta in Hn.
    destruct (next_seq st e) as [st1 oq]. cbn [fst snd] in Hn. destruct Hn as (_ & _ & -> & _).
    assert (Hm : maxseq48 <? get_ctr e (s_ctr st) = true) by lia. now rewrite Hm.
  Qed.

  (* history invariant: every emitted number is below its epoch's counter, counters are bounded by the
     number of emission attempts so far *)
  Definition SI (st : sstate) (l : list (N * N)) (k : N) : Prop :=
    (forall e n, In (e, n) l -> n < get_ctr e (s_ctr st) /\ n <= maxseq48) /\
    (forall e, get_ctr e (s_ctr st) <= k) /\ incr_per_epoch l.

  Lemma sstep_inv st l k o : SI st l k -> k + 1 < w64 ->
    SI (fst (sstep st o)) (l ++ map recnum (snd (sstep st o))) (k + 1).
  Proof.
    intros (Hb & Hk & Hi) Hkw.
    assert (Hsend : forall e t body,
      SI (fst (send_record st e t body))
         (l ++ map recnum (match snd (send_record st e t body) with Some x => [x] | None => [] end)) (k + 1)).
    { intros e t body. pose proof (send_record_spec st e t body) as Hs. cbn zeta in Hs.
      destruct (send_record st e t body) as [st1 r]. cbn [fst snd] in *.
      destruct Hs as (H1 & H2 & _ & _ & _ & _ & Hr).
      assert (Hnw : get_ctr e (s_ctr st1) = get_ctr e (s_ctr st) + 1).
      { rewrite H1. apply N.mod_small. specialize (Hk e). lia. }
      assert (Hmono : forall e2, get_ctr e2 (s_ctr st) <= get_ctr e2 (s_ctr st1) /\ get_ctr e2 (s_ctr st1) <= k + 1).
      { intro e2. destruct (N.eq_dec e2 e) as [-> | Hne]; [specialize (Hk e); lia|]. rewrite (H2 e2 Hne). specialize (Hk e2). lia. }
      split; [|split; [intro e2; apply Hmono|]].
      - intros e2 n Hin. apply in_app_or in Hin. destruct Hin as [Hin | Hin].
        + destruct (Hb e2 n Hin) as [Ha Hc]. split; [|exact Hc]. destruct (Hmono e2). lia.
        + destruct r as [x|]; [|destruct Hin]. destruct Hin as [Hin | []]. unfold recnum in Hin.
          inversion Hin as [[He2 Hn2]]. destruct Hr as (Hre & Hq & Hle & _).
          rewrite Hre. rewrite Hq in *. split; [lia|exact Hle].
      - apply SendSound.incr_app; [exact Hi| |].
        + destruct r as [x|]; cbn; auto. split; [intros m []|exact I].
        + intros e2 n m Hn Hm. destruct r as [x|]; [|destruct Hm]. destruct Hm as [Hm | []].
          unfold recnum in Hm. inversion Hm as [[He2 Hm2]]. destruct Hr as (Hre & Hq & _).
          rewrite Hq. rewrite <- He2, Hre in Hn. now destruct (Hb _ _ Hn). }
    destruct o as [t body | e t body | e | e | ]; cbn [Rec13.sstep].
    - specialize (Hsend (s_lepoch st) t body). destruct (send_record st (s_lepoch st) t body) as [st1 r]. exact Hsend.
    - specialize (Hsend e t body). destruct (send_record st e t body) as [st1 r]. exact Hsend.
    - cbn [fst snd map]. rewrite app_nil_r. unfold SI, install_write. cbn [s_ctr].
      split; [exact Hb|]. split; [intro e2; specialize (Hk e2); lia|exact Hi].
    - cbn [fst snd map]. rewrite app_nil_r. unfold SI. cbn [s_ctr].
      split; [exact Hb|]. split; [intro e2; specialize (Hk e2); lia|exact Hi].
    - assert (Hsame : SI st (l ++ []) (k + 1)).
      { rewrite app_nil_r. split; [exact Hb|]. split; [intro e2; specialize (Hk e2); lia|exact Hi]. }
      destruct (s_wcur st) as [c|]; [|exact Hsame].
      destruct ((c =? 65535) || negb (c =? s_lepoch st)); [exact Hsame|].
      cbn [fst snd map]. unfold SI, install_write in *. cbn [s_ctr]. exact Hsame.
  Qed.

  Lemma srun_inv : forall ops st l k, SI st l k -> k + N.of_nat (length ops) < w64 ->
    SI (fst (srun st ops)) (l ++ map recnum (snd (srun st ops))) (k + N.of_nat (length ops)).
  Proof.
    induction ops as [|o ops IH]; intros st l k HS Hk.
    - cbn. rewrite app_nil_r. replace (k + 0) with k by lia. exact HS.
    - cbn [Rec13.srun]. assert (Hk1 : k + 1 < w64) by (cbn [length] in Hk; lia).
      pose proof (sstep_inv st l k o HS Hk1) as H1.
      destruct (sstep st o) as [st1 l1]. cbn [fst snd] in H1.
      assert (Hk2 : k + 1 + N.of_nat (length ops) < w64) by (cbn [length] in Hk; lia).
      specialize (IH st1 _ (k + 1) H1 Hk2).
      destruct (srun st1 ops) as [st2 l2]. cbn [fst snd] in *.
      rewrite map_app, app_assoc. replace (k + N.of_nat (length (o :: ops))) with (k + 1 + N.of_nat (length ops)) by (cbn [length]; lia).
      exact IH.
  Qed.

  (* C09 for DTLS 1.3: over every history of emission attempts (application data, alerts, ACKs,
     handshake fragments and retransmissions at any epoch, key installations, local KeyUpdate
     commits) the (epoch, record number) pairs of the emitted records are pairwise distinct, strictly
     increasing within each epoch in emission order, and at most 2^48-1 *)
  Theorem send_unique cid ops : N.of_nat (length ops) < w64 ->
    let l := map recnum (snd (srun (sinit cid) ops)) in
    NoDup l /\ incr_per_epoch l /\ (forall e n, In (e, n) l -> n <= maxseq48).
  Proof.
    intro Hk. cbn zeta.
    assert (H0 : SI (sinit cid) [] 0).
    { split; [intros e n []|]. split; [|exact I]. intro e. unfold get_ctr. cbn. destruct (N.to_nat e); cbn; lia. }
    pose proof (srun_inv ops (sinit cid) [] 0 H0) as H. cbn [app] in H. specialize (H ltac:(lia)).
    destruct H as (Hb & _ & Hi). split; [now apply SendSound.incr_nodup|]. split; [exact Hi|].
    intros e n Hin. now destruct (Hb e n Hin).
  Qed.

  (* (key, nonce) uniqueness: distinct generations have distinct keys (premise), the nonce is the IV
     of the generation XOR the 64-bit record number *)
  Lemma xor_bytes_inj a b1 b2 : length b1 = length a -> length b2 = length a ->
    xor_bytes a b1 = xor_bytes a b2 -> b1 = b2.
  Proof.
    clear snmask aseal overhead.
    revert b1 b2; induction a as [|x a IH]; intros [|y1 b1] [|y2 b2] H1 H2 H; cbn in *; try lia; auto.
    inversion H. f_equal; [|apply IH; auto; lia].
    assert (N.lxor x (N.lxor x y1) = N.lxor x (N.lxor x y2)) by congruence.
    now rewrite <- !N.lxor_assoc, !N.lxor_nilpotent, !N.lxor_0_l in H0.
  Qed.

  Lemma nonce13_inj iv q1 q2 : length iv = 12%nat -> q1 < w64 -> q2 < w64 ->
    nonce13 iv q1 = nonce13 iv q2 -> q1 = q2.
  Proof.
    clear snmask aseal overhead.
    intros Hl H1 H2 H. unfold nonce13 in H. apply app_inv_head in H.
    apply xor_bytes_inj in H; try (rewrite be_enc_length, skipn_length; lia).
    assert (Hd : be_dec (be_enc 8 q1) = be_dec (be_enc 8 q2)) by congruence.
    rewrite !be_dec_enc in Hd; auto; change (256 ^ N.of_nat 8) with w64; assumption.
  Qed.

  Theorem key_nonce_unique {K : Type} (key_of : N -> K) (iv_of : N -> bytes) cid ops :
    (forall e e', key_of e = key_of e' -> e = e') -> (forall e, length (iv_of e) = 12%nat) ->
    N.of_nat (length ops) < w64 ->
    NoDup (map (fun x => (key_of (em_epoch x), nonce13 (iv_of (em_epoch x)) (em_seq x))) (snd (srun (sinit cid) ops))).
  Proof.
    intros Hkey Hiv Hk. destruct (send_unique cid ops Hk) as (Hnd & _ & Hmax).
    set (l := snd (srun (sinit cid) ops)) in *.
    assert (Hinj : forall x y, In x l -> In y l ->
       (key_of (em_epoch x), nonce13 (iv_of (em_epoch x)) (em_seq x)) = (key_of (em_epoch y), nonce13 (iv_of (em_epoch y)) (em_seq y)) ->
       recnum x = recnum y).
    { intros x y Hx Hy Heq. inversion Heq as [[Hk1 Hn1]]. apply Hkey in Hk1. unfold recnum. rewrite Hk1 in *.
      f_equal. apply (nonce13_inj (iv_of (em_epoch y))); auto.
      - specialize (Hmax (em_epoch x) (em_seq x)). unfold maxseq48, w64 in *.
        assert (In (em_epoch x, em_seq x) (map recnum l)) by (apply in_map_iff; exists x; auto). specialize (Hmax H). lia.
      - specialize (Hmax (em_epoch y) (em_seq y)). unfold maxseq48, w64 in *.
        assert (In (em_epoch y, em_seq y) (map recnum l)) by (apply in_map_iff; exists y; auto). specialize (Hmax H). lia. }
    clear Hmax. induction l as [|x l IH]; [constructor|].
    cbn [map] in *. inversion Hnd as [|? ? Hx Hl]; subst. constructor.
    - intro Hin. apply in_map_iff in Hin. destruct Hin as (y & Heq & Hy).
      apply Hx. apply in_map_iff. exists y. split; [|exact Hy].
      symmetry. apply Hinj; [now left|now right|]. now symmetry.
    - apply IH; [exact Hl|]. intros a b Ha Hb. apply Hinj; now right.
  Qed.

  (* epochs are never reused: a local KeyUpdate commit moves to the next epoch, keeps the previous
     generation for retransmissions only, and never reinstalls an epoch below the current one *)
  Theorem commit_next_epoch st c : s_wcur st = Some c -> c = s_lepoch st -> c <> 65535 ->
    let st1 := fst (sstep st SCommitKeyUpdate) in
    s_wcur st1 = Some (c + 1) /\ s_lepoch st1 = c + 1 /\ has_wgen st1 c = true /\ s_ctr st1 = s_ctr st.
  Proof.
    intros Hc He Hn. cbn [Rec13.sstep]. rewrite Hc.
    assert (H1 : (c =? 65535) || negb (c =? s_lepoch st) = false) by (subst; rewrite N.eqb_refl; cbn; lia).
    rewrite H1. cbn [fst]. unfold install_write. rewrite Hc. cbn [s_wcur s_lepoch s_ctr].
    split; [reflexivity|]. split; [reflexivity|]. split; [|reflexivity].
    unfold has_wgen. cbn [s_wcur s_wold].
    assert (H2 : c + 1 =? c = false) by lia. rewrite H2. cbn [orb].
    destruct ((c =? c + 1) || mem_N c (s_wold st)) eqn:E.
    - apply orb_true_iff in E. destruct E as [E | E]; [lia|exact E].
    - unfold mem_N. rewrite existsb_app. cbn. rewrite N.eqb_refl. cbn. apply orb_true_r.
  Qed.

  (* at epoch 65535 the commit is refused (ErrEpochOverflow): the epoch never wraps *)
  Theorem commit_no_epoch_wrap st : s_wcur st = Some 65535 -> sstep st SCommitKeyUpdate = (st, []).
  Proof. intro H. cbn [Rec13.sstep]. rewrite H. reflexivity. Qed.
End SendProofs.

(* ------------------------------------------------------------------ candidate order; sender and receiver together *)
Section Cands.
  Variable snmask : N -> bytes -> N.
  Variable aopen : N -> N -> bytes -> bytes -> option bytes.
  Notation open_gen := (open_gen snmask aopen).
  Notation open_cands := (open_cands snmask aopen).

  Lemma open_cands_fst s h ct cs :
    fst (open_cands s h ct cs) = existsb (fun e => e <=? r_epoch s) cs.
  Proof.
    induction cs as [|c cs IH]; [reflexivity|]. cbn [Rec13.open_cands existsb].
    destruct (r_epoch s <? c) eqn:E.
    - rewrite IH. assert (H : c <=? r_epoch s = false) by lia. now rewrite H.
    - assert (H : c <=? r_epoch s = true) by lia. rewrite H.
      destruct (open_gen s h ct c) as [[[b t] q]|]; reflexivity.
  Qed.

  (* all authorised candidates that open the record agree *)
  Definition cands_agree (s : rstate) (h : uhdr) (ct : bytes) (cs : list N) : Prop :=
    forall e e', In e cs -> In e' cs -> e <= r_epoch s -> e' <= r_epoch s ->
                 open_gen s h ct e <> None -> open_gen s h ct e' <> None -> e = e'.

  Lemma open_cands_complete s h ct : forall cs r e,
    cands_agree s h ct cs -> In e cs -> e <= r_epoch s -> open_gen s h ct e = Some r ->
    snd (open_cands s h ct cs) = Some (r, e).
  Proof.
    induction cs as [|c cs IH]; intros r e Hag Hin Hle Ho; [destruct Hin|].
    cbn [Rec13.open_cands]. destruct (r_epoch s <? c) eqn:E.
    - destruct Hin as [-> | Hin]; [lia|]. apply IH; auto.
      intros a b Ha Hb. apply Hag; now right.
    - destruct (open_gen s h ct c) as [[[b t] q]|] eqn:Ec.
      + assert (c = e).
        { apply Hag; auto; try lia; [now left|congruence|congruence]. }
        subst c. rewrite Ho in Ec. inversion Ec; subst. reflexivity.
      + cbn [snd]. destruct Hin as [-> | Hin]; [congruence|]. apply IH; auto.
        intros a b Ha Hb. apply Hag; now right.
  Qed.

  (* the order in which ReadCandidates lists the old generations (a Go map iteration) is irrelevant
     whenever at most one authorised generation opens the record *)
  Theorem open_cands_perm s h ct cs1 cs2 : Permutation cs1 cs2 -> cands_agree s h ct cs1 ->
    open_cands s h ct cs1 = open_cands s h ct cs2.
  Proof.
    intros Hp Hag.
    assert (Hag2 : cands_agree s h ct cs2).
    { intros a b Ha Hb. apply Hag; eapply Permutation_in; try apply Permutation_sym; eauto. }
    apply injective_projections.
    - rewrite !open_cands_fst.
      destruct (existsb (fun e => e <=? r_epoch s) cs1) eqn:E1; destruct (existsb (fun e => e <=? r_epoch s) cs2) eqn:E2; auto.
      + apply existsb_exists in E1. destruct E1 as (x & Hx & Hl).
        assert (H2 : existsb (fun e => e <=? r_epoch s) cs2 = true)
          by (apply existsb_exists; exists x; split; [eapply Permutation_in; eauto|exact Hl]).
        congruence.
      + apply existsb_exists in E2. destruct E2 as (x & Hx & Hl).
        assert (H1 : existsb (fun e => e <=? r_epoch s) cs1 = true)
          by (apply existsb_exists; exists x; split; [eapply Permutation_in; [apply Permutation_sym|]; eauto|exact Hl]).
        congruence.
    - destruct (snd (open_cands s h ct cs1)) as [[[[b t] q] e]|] eqn:E1.
      + destruct (open_cands_spec snmask aopen s h ct cs1 b t q e E1) as (Hin & Hle & Ho).
        symmetry. apply (open_cands_complete s h ct cs2 (b, t, q) e); auto. eapply Permutation_in; eauto.
      + destruct (snd (open_cands s h ct cs2)) as [[[[b t] q] e]|] eqn:E2; [|reflexivity].
        destruct (open_cands_spec snmask aopen s h ct cs2 b t q e E2) as (Hin & Hle & Ho).
        assert (Hx : snd (open_cands s h ct cs1) = Some (b, t, q, e)).
        { apply (open_cands_complete s h ct cs1 (b, t, q) e); auto.
          eapply Permutation_in; [apply Permutation_sym; exact Hp|exact Hin]. }
        congruence.
  Qed.
End Cands.

Lemma read_candidates_complete s e : has_gen s e = true -> In e (read_candidates s (e mod 4)).
Proof.
  unfold has_gen, read_candidates. intro H. apply in_app_iff.
  assert (Hold : mem_N e (r_old s) = true -> In e (filter (fun e0 => e0 mod 4 =? e mod 4) (r_old s))).
  { intro Hm. apply filter_In. split; [now apply mem_N_In|apply N.eqb_refl]. }
  destruct (r_cur s) as [c|]; [|right; auto].
  apply orb_true_iff in H. destruct H as [H | H]; [|right; auto].
  left. assert (c = e) by lia. subst c. rewrite N.eqb_refl. now left.
Qed.

(* ------------------------------------------------------------------ what the sender seals, the receiver opens *)

Section Genuine.
  Variable snmask : N -> bytes -> N.
  Variable aopen : N -> N -> bytes -> bytes -> option bytes.
  Variable aseal : N -> N -> bytes -> bytes -> bytes.
  Variable overhead : N.
  (* AEAD correctness and the length of its output *)
  Hypothesis seal_open : forall e q a i, aopen e q a (aseal e q a i) = Some i.
  Hypothesis seal_len : forall e q a i, len (aseal e q a i) = len i + overhead.

  (* A record emitted by the send model authenticates at the receiver as exactly (content, type,
     record number, generation), provided: the receiver expects the connection id the sender uses,
     retains and has authorised the generation, the record number lies within half the 16-bit range
     of the receiver's highest number for that epoch (RFC 9147 4.2.2 as coded), and the ciphertext
     opens under no OTHER generation. *)
  Theorem genuine_record_authenticates st e t body st' x s :
    send_record snmask aseal overhead st e t body = (st', Some x) ->
    inner_type_ok t = true ->
    r_cid s = s_cid st ->
    has_gen s e = true -> e <= r_epoch s ->
    get_high e (r_high s) < 9223372036854775808 ->
    get_high e (r_high s) + 1 < em_seq x + 32768 -> em_seq x <= get_high e (r_high s) + 1 + 32768 ->
    (forall e', e' <> e -> forall q' a', aopen e' q' a' (em_ct x) = None) ->
    auth_cipher snmask aopen s (em_wire x) = Some (body, t, em_seq x, e).
  Proof.
    intros Hsend Ht Hcid Hgen Hle Hh Hr1 Hr2 Hother.
    unfold Rec13.send_record in Hsend. destruct (next_seq st e) as [st1 oq] eqn:En.
    assert (Hc1 : s_cid st1 = s_cid st) by (pose proof (f_equal fst En) as Hf; cbn in Hf; subst st1; reflexivity).
    destruct oq as [q|]; [|discriminate].
    destruct (negb (has_wgen st1 e)); [discriminate|].
    destruct (16384 <? len body); [discriminate|].
    set (inner := inner_marshal body t 0) in *.
    destruct (16640 <? len inner + overhead); [discriminate|].
    set (clear := mk_uhdr (s_cid st1) (q mod 65536) true (len inner + overhead) true (e mod 4)) in *.
    set (ct := aseal e q (uh_marshal clear) inner) in *.
    destruct (negb (ct_len_ok (len ct))) eqn:Ecl; [discriminate|]. apply negb_false_iff in Ecl.
    assert (Hx : x = mk_emitted e q (uh_marshal clear) ct inner
                      (uh_marshal (apply_mask (mk_uhdr (s_cid st1) (q mod 65536) true (len ct) true (e mod 4)) (snmask e ct)) ++ ct))
      by congruence.
    clear Hsend. subst x. unfold em_seq, em_ct, em_wire in *. cbv beta iota in *.
    assert (Hlen : len ct = len inner + overhead) by apply seal_len.
    rewrite Hlen. fold clear.
    set (m := snmask e ct). set (masked := apply_mask clear m).
    assert (Hsok : uh_seq_ok clear) by (unfold uh_seq_ok, clear; cbn; apply N.mod_lt; lia).
    assert (Hlt : len ct < 65536) by (unfold ct_len_ok in Ecl; lia).
    assert (Hcidm : u_cid masked = s_cid st) by (unfold masked, apply_mask, clear; cbn; exact Hc1).
    assert (Hflags : bit_c (hd 0 (uh_marshal masked ++ ct)) = negb (is_nil (s_cid st))).
    { unfold uh_marshal. cbn [app hd]. unfold uh_flags. rewrite Hcidm.
      unfold masked, apply_mask, clear. cbn [u_sbit u_lbit u_elow].
      destruct (flags_bits (is_nil (s_cid st)) true true (e mod 4)) as (_ & H2 & _); [apply N.mod_lt; lia|].
      cbn zeta in H2. exact H2. }
    (* the receiver parses the record back *)
    assert (Hparse : parse_crec s (uh_marshal masked ++ ct) = Some (masked, ct)).
    { unfold parse_crec, cid_policy. rewrite Hflags, Hcid.
      set (has := negb (is_nil (s_cid st))).
      assert (Hcrec : crec_unmarshal (if has then length (s_cid st) else 0%nat) (uh_marshal masked ++ ct) = Some (masked, ct)).
      { unfold crec_unmarshal. rewrite uh_marshal_unmarshal.
        - assert (Hl1 : u_lbit masked = true) by reflexivity. assert (Hl2 : u_len masked = len ct) by (unfold masked, apply_mask, clear; cbn; lia).
          rewrite Hl1, Hl2, N.eqb_refl, Ecl. reflexivity.
        - split; [unfold masked, apply_mask, clear; cbn; apply N.mod_lt; lia|]. split.
          + rewrite Hcidm. unfold has. destruct (s_cid st); [now left|right; cbn; split; lia].
          + split; [apply apply_mask_seq_ok; exact Hsok|].
            unfold masked, apply_mask, clear. cbn. lia. }
      destruct (r_cidneg s); rewrite Hcrec;
        (destruct has eqn:Eh; cbn [andb negb]; [rewrite Hcidm, bytes_eqb_refl; reflexivity|reflexivity]). }
    unfold auth_cipher. rewrite Hparse.
    (* generation e opens it at the sender's record number *)
    assert (Hog : open_gen snmask aopen s masked ct e = Some (body, t, q)).
    { unfold open_gen. fold m. unfold masked. rewrite apply_mask_invol by exact Hsok.
      assert (Hq : reconstruct (u_seq clear) (u_sbit clear) (get_high e (r_high s)) = q).
      { unfold clear. cbn [u_seq u_sbit]. apply (reconstruct_correct q true); unfold rwin; cbn; auto. }
      rewrite Hq. unfold lowbits_ok, clear. cbn [u_sbit u_seq]. rewrite N.eqb_refl. cbn [negb].
      unfold ct. rewrite seal_open. unfold inner. rewrite inner_roundtrip.
      - now rewrite Ht.
      - intro H0. subst t. discriminate Ht. }
    unfold open_record.
    assert (Helow : u_elow masked = e mod 4) by reflexivity. rewrite Helow.
    assert (Hag : cands_agree snmask aopen s masked ct (read_candidates s (e mod 4))).
    { intros a b Ha Hb _ _ Hoa Hob.
      assert (Hone : forall e', open_gen snmask aopen s masked ct e' <> None -> e' = e).
      { intros e' Hne. destruct (N.eq_dec e' e) as [|Hd]; [assumption|]. exfalso. apply Hne.
        unfold open_gen. destruct (negb (lowbits_ok _ _)); [reflexivity|]. rewrite Hother by exact Hd. reflexivity. }
      rewrite (Hone a Hoa), (Hone b Hob). reflexivity. }
    pose proof (open_cands_complete snmask aopen s masked ct (read_candidates s (e mod 4)) (body, t, q) e Hag
                  (read_candidates_complete s e Hgen) Hle Hog) as Hsnd.
    destruct (Rec13.open_cands snmask aopen s masked ct (read_candidates s (e mod 4))) as [el r].
    cbn [snd] in Hsnd. subst r. destruct el; reflexivity.
  Qed.

  (* C06 tolerance for DTLS 1.3: such a record is delivered exactly when the replay detector of its
     epoch accepts its number *)
  Corollary genuine_delivered_iff_window hs_room W lease st e body st' x s :
    send_record snmask aseal overhead st e 23 body = (st', Some x) ->
    r_cid s = s_cid st -> has_gen s e = true -> e <= r_epoch s -> e <> 0 -> has_prot s = true -> room s = true ->
    get_high e (r_high s) < 9223372036854775808 ->
    get_high e (r_high s) + 1 < em_seq x + 32768 -> em_seq x <= get_high e (r_high s) + 1 + 32768 ->
    (forall e', e' <> e -> forall q' a', aopen e' q' a' (em_ct x) = None) ->
    deliveries (snd (recv_cipher snmask aopen hs_room W lease s (em_wire x))) =
    if check (fst (get_win W e (ensure_wins W maxseq64 e (r_wins s))))
             (snd (get_win W e (ensure_wins W maxseq64 e (r_wins s)))) (em_seq x)
    then [(body, e, em_seq x)] else [].
  Proof.
    intros Hsend Hcid Hgen Hle He Hp Hroom Hh Hr1 Hr2 Hother.
    pose proof (genuine_record_authenticates st e 23 body st' x s Hsend eq_refl Hcid Hgen Hle Hh Hr1 Hr2 Hother) as Ha.
    apply authentic_delivered_iff_window; auto.
    pose proof (send_record_spec snmask aseal overhead st e 23 body) as Hs. cbn zeta in Hs.
    rewrite Hsend in Hs. cbn [snd] in Hs. now destruct Hs as (_ & _ & _ & _ & _ & _ & _ & _ & Hq & _).
  Qed.
End Genuine.

(* with a replay window of at most 32767 every record number the detector would accept from behind
   lies within the reconstruction range (so does every number up to 32769 ahead) *)
Lemma window_in_range (W : nat) (h q : N) : N.of_nat W <= 32767 ->
  (q <= h /\ h - q < N.of_nat W) \/ (h < q /\ q <= h + 32769) ->
  h + 1 < q + 32768 /\ q <= h + 1 + 32768.
Proof. intros HW [[H1 H2] | [H1 H2]]; lia. Qed.
