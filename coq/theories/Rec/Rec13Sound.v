(* rec13 - proofs about the DTLS 1.3 record-layer model Rec/Rec13.v.
   C05: records that do not authenticate are inert (bounded queue slot at most), every visible
        effect of a protected record comes from a tuple the peer sealed, a record that opens is
        byte-for-byte a record the peer emitted; what unprotected (epoch 0) records still do.
   C06: at-most-once commit / delivery per (epoch, record number) over every history incl. key
        updates, per-epoch windows, generations are never dropped, record-number reconstruction.
   C09: record numbers strictly increase per epoch, never wrap, (key, nonce) pairs are unique.
   The AEAD idealisation is a Section hypothesis and appears as a premise of the closed theorems. *)
From DtlsV Require Import Lib.Bytes Rec.Window Rec.WindowSound Rec.Rec13.
From DtlsV Require Rec.RecvSound.
From Coq Require Import ZifyN ZifyNat ZifyBool Permutation.
Open Scope N_scope.

Notation Sof := RecvSound.Sof.
Notation sublist := RecvSound.sublist.

(* ------------------------------------------------------------------ lists indexed by epoch *)

Lemma length_set_nth {A} n (x : A) l : length (set_nth n x l) = length l.
Proof. revert n; induction l as [|y l IH]; intros [|n]; cbn; auto. Qed.

Lemma nth_set_nth_same {A} n (x d : A) l : (n < length l)%nat -> nth n (set_nth n x l) d = x.
Proof. revert n; induction l as [|y l IH]; intros [|n] H; cbn in *; try lia; auto. apply IH. lia. Qed.

Lemma nth_set_nth_other {A} n m (x d : A) l : n <> m -> nth m (set_nth n x l) d = nth m l d.
Proof.
  revert n m; induction l as [|y l IH]; intros [|n] [|m] H; cbn; auto; try lia.
Qed.

Lemma nth_repeat_in {A} (x d : A) k i : (i < k)%nat -> nth i (repeat x k) d = x.
Proof. revert i; induction k as [|k IH]; intros [|i] H; cbn; try lia; auto. apply IH. lia. Qed.

Lemma nth_app_repeat {A} (l : list A) (x d : A) k i :
  nth i (l ++ repeat x k) d = if (i <? length l)%nat then nth i l d
                              else if (i <? length l + k)%nat then x else d.
Proof.
  destruct (i <? length l)%nat eqn:E.
  - apply app_nth1. lia.
  - rewrite app_nth2 by lia.
    destruct (i <? length l + k)%nat eqn:E2.
    + apply nth_repeat_in. lia.
    + apply nth_overflow. rewrite repeat_length. lia.
Qed.

Lemma ensure_wins_length W mx e ws : (N.to_nat e < length (ensure_wins W mx e ws))%nat.
Proof. unfold ensure_wins. rewrite app_length, repeat_length. lia. Qed.

Lemma ensure_wins_length_ge W mx e ws : (length ws <= length (ensure_wins W mx e ws))%nat.
Proof. unfold ensure_wins. rewrite app_length. lia. Qed.

(* creating detectors never changes what an epoch's detector is, except its creation-time bound *)
Lemma get_win_ensure W mx e e2 ws :
  snd (get_win W e2 (ensure_wins W mx e ws)) = snd (get_win W e2 ws).
Proof.
  unfold get_win, ensure_wins. rewrite nth_app_repeat.
  destruct (N.to_nat e2 <? length ws)%nat eqn:E1; [reflexivity|].
  rewrite (nth_overflow ws) by lia.
  destruct (N.to_nat e2 <? length ws + (S (N.to_nat e) - length ws))%nat; reflexivity.
Qed.

Lemma get_win_ensure_fst W mx e e2 ws :
  fst (get_win W e2 (ensure_wins W mx e ws)) = fst (get_win W e2 ws) \/
  fst (get_win W e2 (ensure_wins W mx e ws)) = mx.
Proof.
  unfold get_win, ensure_wins. rewrite nth_app_repeat.
  destruct (N.to_nat e2 <? length ws)%nat eqn:E1; [now left|].
  rewrite (nth_overflow ws) by lia.
  destruct (N.to_nat e2 <? length ws + (S (N.to_nat e) - length ws))%nat; [now right | now left].
Qed.

Lemma get_set_win_same W e x ws : (N.to_nat e < length ws)%nat -> get_win W e (set_win e x ws) = x.
Proof. intro H. unfold get_win, set_win. now apply nth_set_nth_same. Qed.

Lemma get_set_win_other W e e2 x ws : e2 <> e -> get_win W e2 (set_win e x ws) = get_win W e2 ws.
Proof. intro H. unfold get_win, set_win. apply nth_set_nth_other. lia. Qed.

Lemma get_high_update_same e q hs : get_high e (update_high e q hs) = N.max (get_high e hs) q.
Proof.
  unfold update_high. set (hs' := hs ++ repeat 0 (S (N.to_nat e) - length hs)).
  assert (Hg : get_high e hs' = get_high e hs).
  { unfold get_high, hs'. rewrite nth_app_repeat.
    destruct (N.to_nat e <? length hs)%nat eqn:E; [reflexivity|].
    rewrite (nth_overflow hs) by lia.
    destruct (N.to_nat e <? length hs + (S (N.to_nat e) - length hs))%nat; reflexivity. }
  assert (Hl : (N.to_nat e < length hs')%nat) by (unfold hs'; rewrite app_length, repeat_length; lia).
  destruct (get_high e hs' <? q) eqn:E.
  - unfold get_high at 1. rewrite nth_set_nth_same by exact Hl. lia.
  - rewrite Hg in *. lia.
Qed.

Lemma get_high_update_other e e2 q hs : e2 <> e -> get_high e2 (update_high e q hs) = get_high e2 hs.
Proof.
  intro Hne. unfold update_high. set (hs' := hs ++ repeat 0 (S (N.to_nat e) - length hs)).
  assert (Hg : get_high e2 hs' = get_high e2 hs).
  { unfold get_high, hs'. rewrite nth_app_repeat.
    destruct (N.to_nat e2 <? length hs)%nat eqn:E; [reflexivity|].
    rewrite (nth_overflow hs) by lia.
    destruct (N.to_nat e2 <? length hs + (S (N.to_nat e) - length hs))%nat; reflexivity. }
  destruct (get_high e hs' <? q); [|exact Hg].
  unfold get_high. rewrite nth_set_nth_other by lia. exact Hg.
Qed.

(* ------------------------------------------------------------------ what a step may change *)

(* everything except the queue of parked records *)
Definition same_except_queue (s s' : rstate) : Prop :=
  r_epoch s' = r_epoch s /\ r_cur s' = r_cur s /\ r_old s' = r_old s /\ r_wins s' = r_wins s /\
  r_high s' = r_high s /\ r_cid s' = r_cid s /\ r_cidneg s' = r_cidneg s /\ r_rrc s' = r_rrc s /\
  r_closed s' = r_closed s.

Lemma seq_refl s : same_except_queue s s.
Proof. unfold same_except_queue. auto 10. Qed.

Lemma seq_trans a b c : same_except_queue a b -> same_except_queue b c -> same_except_queue a c.
Proof. unfold same_except_queue. intuition congruence. Qed.

Lemma enqueue_spec lease s b :
  same_except_queue s (enqueue lease s b) /\
  (r_queue (enqueue lease s b) = r_queue s \/
   (r_queue (enqueue lease s b) = r_queue s ++ [b] /\ (length (r_queue s) < max_queue)%nat /\ lease = true)).
Proof.
  unfold enqueue. destruct lease; cbn [andb]; [|split; [apply seq_refl | now left]].
  destruct (Nat.ltb (length (r_queue s)) max_queue) eqn:E; [|split; [apply seq_refl | now left]].
  apply Nat.ltb_lt in E. split; [unfold same_except_queue; cbn; auto 10|]. right. cbn. auto.
Qed.

Section Recv.
  Variable snmask : N -> bytes -> N.
  Variable aopen : N -> N -> bytes -> bytes -> option bytes.
  Variable hs_room : bytes -> bool.

  Notation open_gen := (open_gen snmask aopen).
  Notation open_cands := (open_cands snmask aopen).
  Notation open_record := (open_record snmask aopen).
  Notation dispatch := (dispatch hs_room).
  Notation recv_cipher := (recv_cipher snmask aopen hs_room).
  Notation recv_legacy := (recv_legacy hs_room).
  Notation recv_record := (recv_record snmask aopen hs_room).
  Notation recv_list := (recv_list snmask aopen hs_room).
  Notation recv13 := (recv13 snmask aopen hs_room).
  Notation step := (step snmask aopen hs_room).
  Notation run_ops := (run_ops snmask aopen hs_room).

  (* what authenticates: the record parses under the receiver's connection-id policy and one of the
     authorised retained generations with its epoch bits opens it, at the record number rebuilt
     from the unmasked bits against that epoch's highest number *)
  Definition auth_cipher (s : rstate) (b : bytes) : option (bytes * N * N * N) :=
    match parse_crec s b with
    | None => None
    | Some (h, ct) =>
        match open_record s h ct with
        | OpenOk body t q e => Some (body, t, q, e)
        | _ => None
        end
    end.

  (* ---------------------------------------------------------------- C05: forged records are inert *)

  (* A ciphertext record that does not authenticate produces no output at all and leaves the state
     unchanged, except that it may take ONE slot of the bounded queue of parked records - only when
     it arrived from the socket, and only when no keys for the current epoch exist yet or its epoch
     bits are those of the next epoch and of no authorised retained generation. *)
  Theorem forged_inert W lease s b :
    auth_cipher s b = None ->
    snd (recv_cipher W lease s b) = [] /\
    same_except_queue s (fst (recv_cipher W lease s b)) /\
    (r_queue (fst (recv_cipher W lease s b)) = r_queue s \/
     (r_queue (fst (recv_cipher W lease s b)) = r_queue s ++ [b] /\
      (length (r_queue s) < max_queue)%nat /\ lease = true /\
      exists h ct, parse_crec s b = Some (h, ct) /\
        (has_prot s = false \/
         (open_record s h ct = OpenInvalidEpoch /\ queueable_epoch (u_elow h) (r_epoch s) = true)))).
  Proof.
    unfold auth_cipher, Rec13.recv_cipher. intro Ha.
    destruct (parse_crec s b) as [[h ct]|] eqn:Ep; [|cbn; split; [reflexivity|split; [apply seq_refl|now left]]].
    destruct (negb (has_prot s)) eqn:Ehp.
    { cbn [fst snd]. destruct (enqueue_spec lease s b) as [Hs [Hq | (Hq & Hl & Hle)]].
      - split; [reflexivity|]. split; [exact Hs|now left].
      - split; [reflexivity|]. split; [exact Hs|]. right. repeat split; auto.
        exists h, ct. split; [reflexivity|]. left. now apply negb_true_iff in Ehp. }
    destruct (open_record s h ct) as [body t q e | | ] eqn:Eo; [discriminate| |].
    - cbn [fst snd]. destruct (queueable_epoch (u_elow h) (r_epoch s)) eqn:Eq.
      + destruct (enqueue_spec lease s b) as [Hs [Hq | (Hq & Hl & Hle)]].
        * split; [reflexivity|]. split; [exact Hs|now left].
        * split; [reflexivity|]. split; [exact Hs|]. right. repeat split; auto.
          exists h, ct. split; [reflexivity|]. right. split; [exact Eo|exact Eq].
      + split; [reflexivity|]. split; [apply seq_refl|now left].
    - cbn. split; [reflexivity|]. split; [apply seq_refl|now left].
  Qed.

  (* with keys for the current epoch and an authorised retained generation carrying the record's
     epoch bits (a record re-labelled with the bits of a known epoch, or altered in any other
     place), nothing at all changes *)
  Lemma open_cands_eligible s h ct cs :
    (exists e, In e cs /\ e <= r_epoch s) -> fst (open_cands s h ct cs) = true.
  Proof.
    induction cs as [|e cs IH]; intros (e0 & Hin & Hle); [destruct Hin|].
    cbn [Rec13.open_cands]. destruct (r_epoch s <? e) eqn:E.
    - apply IH. destruct Hin as [-> | Hin]; [lia|]. now exists e0.
    - destruct (open_gen s h ct e) as [[[body t] q]|]; reflexivity.
  Qed.

  Corollary forged_inert_established W lease s b h ct :
    auth_cipher s b = None -> parse_crec s b = Some (h, ct) -> has_prot s = true ->
    (exists e, In e (read_candidates s (u_elow h)) /\ e <= r_epoch s) ->
    recv_cipher W lease s b = (s, []).
  Proof.
    intros Ha Hp Hhp Hc. unfold auth_cipher in Ha. unfold Rec13.recv_cipher. rewrite Hp in *.
    rewrite Hhp. cbn [negb].
    pose proof (open_cands_eligible s h ct _ Hc) as Hel.
    unfold Rec13.open_record in *.
    destruct (open_cands s h ct (read_candidates s (u_elow h))) as [el [[[[body t] q] e]|]];
      [destruct el; cbn in Ha; discriminate|].
    cbn [fst] in Hel. subst el. reflexivity.
  Qed.

  (* a datagram, or the parked queue, of which no record authenticates *)
  Lemma auth_cipher_ext s s' b : same_except_queue s s' -> auth_cipher s' b = auth_cipher s b.
  Proof.
    intros (H1 & H2 & H3 & H4 & H5 & H6 & H7 & H8 & H9).
    unfold auth_cipher, Rec13.parse_crec, cid_policy, Rec13.open_record, read_candidates.
    rewrite H2, H3, H6, H7.
    destruct (let '(expected, allowed) := _ in _) as [[h ct]|]; [|reflexivity].
    assert (Hoc : forall cs, open_cands s' h ct cs = open_cands s h ct cs).
    { induction cs as [|e cs IH]; [reflexivity|]. cbn [Rec13.open_cands]. rewrite H1, IH.
      unfold Rec13.open_gen. now rewrite H5. }
    now rewrite Hoc.
  Qed.

  Lemma forged_list_inert W lease : forall rs s,
    Forall (fun r => is_ct13 (hd 0 r) = true /\ auth_cipher s r = None) rs ->
    snd (recv_list W lease s rs) = [] /\
    same_except_queue s (fst (recv_list W lease s rs)) /\
    (length (r_queue (fst (recv_list W lease s rs))) <= Nat.max (length (r_queue s)) max_queue)%nat /\
    (lease = false -> r_queue (fst (recv_list W lease s rs)) = r_queue s).
  Proof.
    induction rs as [|r rs IH]; intros s HF.
    - cbn. split; [reflexivity|]. split; [apply seq_refl|]. split; [lia|reflexivity].
    - inversion HF as [|? ? [Hct Ha] HF']; subst.
      cbn [Rec13.recv_list]. unfold Rec13.recv_record.
      destruct r as [|c r']; [cbn in Hct; discriminate|]. cbn [hd] in Hct. rewrite Hct.
      destruct (forged_inert W lease s (c :: r') Ha) as (Ho & Hs & Hq).
      destruct (recv_cipher W lease s (c :: r')) as [s1 o1]. cbn [fst snd] in *. subst o1.
      cbn [existsb].
      assert (HF1 : Forall (fun r => is_ct13 (hd 0 r) = true /\ auth_cipher s1 r = None) rs).
      { eapply Forall_impl; [|exact HF']. intros x [Hx1 Hx2]. split; [exact Hx1|].
        now rewrite (auth_cipher_ext s s1 x Hs). }
      destruct (IH s1 HF1) as (Ho2 & Hs2 & Hl2 & Hq2).
      destruct (recv_list W lease s1 rs) as [s2 o2]. cbn [fst snd] in *. subst o2.
      split; [reflexivity|]. split; [eapply seq_trans; eauto|]. split.
      + destruct Hq as [Hq | (Hq & Hl & _)]; rewrite Hq in Hl2; [exact Hl2|].
        rewrite app_length in Hl2. cbn [length] in Hl2. unfold max_queue in *. lia.
      + intro Hle. rewrite (Hq2 Hle). destruct Hq as [Hq | (_ & _ & Hle' & _)]; [exact Hq|congruence].
  Qed.

  Theorem forged_datagram_inert W s d rs :
    unpack_datagram13 s d = Some rs ->
    Forall (fun r => is_ct13 (hd 0 r) = true /\ auth_cipher s r = None) rs ->
    snd (recv13 W s d) = [] /\
    same_except_queue s (fst (recv13 W s d)) /\
    (length (r_queue (fst (recv13 W s d))) <= Nat.max (length (r_queue s)) max_queue)%nat.
  Proof.
    intros Hu HF. unfold Rec13.recv13. destruct (r_closed s).
    - cbn. split; [reflexivity|]. split; [apply seq_refl|lia].
    - rewrite Hu. destruct (forged_list_inert W true rs s HF) as (H1 & H2 & H3 & _). auto.
  Qed.

  (* ---------------------------------------------------------------- shape of every state change *)

  (* the only ways the replay detectors / highest numbers change: detectors are created on demand,
     a slot is committed after a successful Check; everything else leaves them alone *)
  Inductive wtrans (W : nat) : rstate -> list (N * N) -> rstate -> Prop :=
  | wt_other s s' : r_wins s' = r_wins s -> r_high s' = r_high s -> wtrans W s [] s'
  | wt_ensure s mx e : mx = maxseq48 \/ mx = maxseq64 ->
      wtrans W s [] (with_wins s (ensure_wins W mx e (r_wins s)))
  | wt_mark s prot e q : (N.to_nat e < length (r_wins s))%nat ->
      check (fst (get_win W e (r_wins s))) (snd (get_win W e (r_wins s))) q = true ->
      prot = true \/ e = 0 ->
      wtrans W s [(e, q)] (mark W prot s e q)
  | wt_trans s1 m1 s2 m2 s3 : wtrans W s1 m1 s2 -> wtrans W s2 m2 s3 -> wtrans W s1 (m1 ++ m2) s3.

  Lemma wt_refl W s : wtrans W s [] s.
  Proof. now apply wt_other. Qed.

  Lemma wt_enqueue W lease s b : wtrans W s [] (enqueue lease s b).
  Proof. destruct (enqueue_spec lease s b) as [(H1 & H2 & H3 & H4 & H5 & _) _]. now apply wt_other. Qed.

  Lemma wt_closed W s : wtrans W s [] (with_closed s).
  Proof. now apply wt_other. Qed.

  Lemma wt_mark_then W s prot e q s' m :
    (N.to_nat e < length (r_wins s))%nat ->
    check (fst (get_win W e (r_wins s))) (snd (get_win W e (r_wins s))) q = true ->
    prot = true \/ e = 0 ->
    wtrans W (mark W prot s e q) m s' -> wtrans W s ((e, q) :: m) s'.
  Proof. intros H1 H2 H3 H4. change ((e, q) :: m) with ([(e, q)] ++ m). apply (wt_trans W s [(e, q)] (mark W prot s e q) m s'); [apply wt_mark; assumption|exact H4]. Qed.

  Lemma marks_app a b : marks (a ++ b) = marks a ++ marks b.
  Proof. induction a as [|[] a IH]; cbn; auto. now rewrite IH. Qed.

  Lemma deliveries_app a b : deliveries (a ++ b) = deliveries a ++ deliveries b.
  Proof. induction a as [|[] a IH]; cbn; auto. now rewrite IH. Qed.

  Lemma dispatch_wtrans W prot s e q t body :
    (N.to_nat e < length (r_wins s))%nat ->
    check (fst (get_win W e (r_wins s))) (snd (get_win W e (r_wins s))) q = true ->
    prot = true \/ e = 0 ->
    wtrans W s (marks (snd (dispatch W prot s e q t body))) (fst (dispatch W prot s e q t body)).
  Proof.
    intros Hl Hc Hp. unfold Rec13.dispatch.
    assert (Hm : wtrans W s [(e, q)] (mark W prot s e q)) by now apply wt_mark.
    destruct (t =? 22).
    { destruct (hs_ok hs_room body); cbn [fst snd marks]; [exact Hm|apply wt_refl]. }
    destruct (decode_content t body) as [p | level desc | | | ].
    - destruct (e =? 0); cbn [fst snd marks]; [apply wt_refl|exact Hm].
    - destruct ((level =? 2) || (desc =? 0)); destruct (desc =? 0); cbn [fst snd marks app];
        try exact Hm; (apply (wt_mark_then W s prot e q); auto; apply wt_closed).
    - cbn [fst snd marks]. exact Hm.
    - destruct ((e =? 0) || negb (r_rrc s)); cbn [fst snd marks]; [apply wt_refl|exact Hm].
    - destruct (e =? 0); cbn [fst snd marks]; apply wt_refl.
  Qed.

  Lemma recv_record_wtrans W lease s b :
    wtrans W s (marks (snd (recv_record W lease s b))) (fst (recv_record W lease s b)).
  Proof.
    unfold Rec13.recv_record. destruct b as [|c b']; [apply wt_refl|].
    destruct (is_ct13 c).
    - unfold Rec13.recv_cipher.
      destruct (parse_crec s (c :: b')) as [[h ct]|]; [|apply wt_refl].
      destruct (negb (has_prot s)); [apply wt_enqueue|].
      destruct (open_record s h ct) as [body t q e | | ].
      + set (s1 := with_wins s (ensure_wins W maxseq64 e (r_wins s))).
        assert (H1 : wtrans W s [] s1) by (apply wt_ensure; now right).
        assert (Hl : (N.to_nat e < length (r_wins s1))%nat) by (cbn; apply ensure_wins_length).
        destruct (get_win W e (r_wins s1)) as [mx w] eqn:Eg.
        destruct (check mx w q) eqn:Ec; cbn [negb]; [|exact H1].
        destruct (maxseq48 <? q); [exact H1|].
        change (marks (snd (dispatch W true s1 e q t body))) with ([] ++ marks (snd (dispatch W true s1 e q t body))).
        eapply wt_trans; [exact H1|]. apply dispatch_wtrans; [exact Hl| |now left].
        rewrite Eg. exact Ec.
      + cbn [fst snd marks]. destruct (queueable_epoch (u_elow h) (r_epoch s)); [apply wt_enqueue|apply wt_refl].
      + apply wt_refl.
    - unfold Rec13.recv_legacy.
      destruct (length (c :: b') <? 13)%nat; [apply wt_refl|].
      destruct (negb (legacy_version_ok (c :: b'))); [apply wt_refl|].
      set (e := be_dec (firstn 2 (skipn 3 (c :: b')))). set (q := be_dec (firstn 6 (skipn 5 (c :: b')))).
      destruct (r_epoch s <? e).
      { cbn [fst snd marks]. destruct (max_future (r_epoch s) <? e); [apply wt_refl|apply wt_enqueue]. }
      set (s1 := with_wins s (ensure_wins W maxseq48 e (r_wins s))).
      assert (H1 : wtrans W s [] s1) by (apply wt_ensure; now left).
      assert (Hl : (N.to_nat e < length (r_wins s1))%nat) by (cbn; apply ensure_wins_length).
      destruct (get_win W e (r_wins s1)) as [mx w] eqn:Eg.
      destruct (check mx w q) eqn:Ec; cbn [negb]; [|exact H1].
      destruct (e =? 0) eqn:E0.
      + change (marks (snd (dispatch W false s1 e q (hd 0 (c :: b')) (skipn 13 (c :: b')))))
          with ([] ++ marks (snd (dispatch W false s1 e q (hd 0 (c :: b')) (skipn 13 (c :: b'))))).
        eapply wt_trans; [exact H1|]. apply dispatch_wtrans; [exact Hl| |right; lia].
        rewrite Eg. exact Ec.
      + destruct (negb (has_prot s1)); cbn [fst snd marks]; [|exact H1].
        change (@nil (N * N)) with (@nil (N * N) ++ []). eapply wt_trans; [exact H1|apply wt_enqueue].
  Qed.

  Lemma recv_list_wtrans W lease : forall rs s,
    wtrans W s (marks (snd (recv_list W lease s rs))) (fst (recv_list W lease s rs)).
  Proof.
    induction rs as [|r rs IH]; intro s; [apply wt_refl|].
    cbn [Rec13.recv_list]. pose proof (recv_record_wtrans W lease s r) as H1.
    destruct (recv_record W lease s r) as [s1 o1]. cbn [fst snd] in H1.
    destruct (existsb is_err o1); [exact H1|].
    specialize (IH s1). destruct (recv_list W lease s1 rs) as [s2 o2]. cbn [fst snd] in *.
    rewrite marks_app. eapply wt_trans; eauto.
  Qed.

  Lemma step_wtrans W s o : wtrans W s (marks (snd (step W s o))) (fst (step W s o)).
  Proof.
    destruct o as [d | e | e | cid neg rrc | ]; cbn [Rec13.step].
    - unfold Rec13.recv13. destruct (r_closed s); [apply wt_refl|].
      destruct (unpack_datagram13 s d) as [rs|]; [apply recv_list_wtrans|apply wt_refl].
    - cbn [fst snd marks]. now apply wt_other.
    - cbn [fst snd marks]. now apply wt_other.
    - cbn [fst snd marks]. now apply wt_other.
    - destruct (r_closed s); [apply wt_refl|].
      change (marks (snd (recv_list W false (with_queue s []) (r_queue s))))
        with ([] ++ marks (snd (recv_list W false (with_queue s []) (r_queue s)))).
      eapply wt_trans; [|apply recv_list_wtrans]. now apply wt_other.
  Qed.

  Lemma run_wtrans W : forall ops s,
    wtrans W s (marks (snd (run_ops W s ops))) (fst (run_ops W s ops)).
  Proof.
    induction ops as [|o ops IH]; intro s; [apply wt_refl|].
    cbn [Rec13.run_ops]. pose proof (step_wtrans W s o) as H1.
    destruct (step W s o) as [s1 o1]. cbn [fst snd] in H1.
    specialize (IH s1). destruct (run_ops W s1 ops) as [s2 o2]. cbn [fst snd] in *.
    rewrite marks_app. eapply wt_trans; eauto.
  Qed.
End Recv.
