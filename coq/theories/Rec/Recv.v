(* Model of the DTLS 1.2 receive path of conn.go
   (handleIncomingPacket / prepareLegacyPacket / decryptLegacyPacket / handleRecordContent)
   with the order of effects of the code:
     header -> future-epoch queue -> replay Check -> (epoch<>0: cipher ready? CID presence,
     open, CID equality) -> content dispatch -> mark at the code's call sites.
   Records are symbolic: the cryptographic idealisation is the field [w_auth]
   (Some c iff the ciphertext authenticates under the receiver's keys with the AAD and
   nonce built from THIS header).  Definitions only. *)
From DtlsV Require Import Lib.Bytes Rec.Window.
Open Scope N_scope.

Inductive content :=
| CApp (p : bytes)                       (* application data *)
| CAlert (level desc : N)
| CCCS                                   (* change_cipher_spec *)
| CHs (pushok retransmit : bool)         (* handshake record: did FragmentBuffer.Push accept it; was it a retransmission *)
| CAck
| CRrc
| CBad.                                  (* content that does not decode *)

Record wire := {
  w_ctype : N;                 (* outer content type on the wire (25 = tls12_cid) *)
  w_epoch : N;
  w_seq : N;
  w_cid : bytes;               (* connection id carried by a tls12_cid header, else [] *)
  w_auth : option content;     (* Some c iff the record authenticates under this header *)
  w_clear : content            (* what the body decodes to when taken as cleartext (epoch 0) *)
}.

Inductive out :=
| OMark (e s : N)              (* replay slot committed (markPacketAsValid) *)
| ODeliver (p : bytes) (e s : N)  (* payload handed to Read *)
| OAlert (level desc : N)      (* alert written to the wire *)
| OClosed                      (* connection closed by the read loop *)
| OHs (retransmit : bool)      (* handshake flight handed to the FSM *)
| OAck
| ORrc
| OErr.                        (* non-alert error surfaced (Read error after establishment / handshake abort before) *)

Record rstate := {
  r_epoch : N;                         (* remote epoch *)
  r_wins : list (N * win);             (* replay windows by epoch (absent = fresh) *)
  r_init : bool;                       (* cipher suite initialised *)
  r_queue : list wire;                 (* encryptedPackets, bounded *)
  r_cid : bytes;                       (* our connection id expected on inbound records ([] = none) *)
  r_rrc : bool;                        (* return-routability check negotiated *)
  r_closed : bool
}.

Definition ct_ccs := 20.  Definition ct_alert := 21.  Definition ct_hs := 22.
Definition ct_app := 23.  Definition ct_cid := 25.
Definition max_queue : nat := 100.
Definition maxseq48 : N := 281474976710655.
Definition alert_fatal := 2.  Definition alert_warning := 1.
Definition desc_close_notify := 0.  Definition desc_unexpected_message := 10.
Definition desc_decode_error := 50.

Fixpoint get_win (W : nat) (e : N) (ws : list (N * win)) : win :=
  match ws with
  | [] => win_init W
  | (e', w) :: ws' => if e =? e' then w else get_win W e ws'
  end.

Fixpoint set_win (e : N) (w : win) (ws : list (N * win)) : list (N * win) :=
  match ws with
  | [] => [(e, w)]
  | (e', w') :: ws' => if e =? e' then (e, w) :: ws' else (e', w') :: set_win e w ws'
  end.

Definition enqueue (lease : bool) (s : rstate) (w : wire) : rstate :=
  if lease && (Nat.ltb (length (r_queue s)) max_queue)
  then {| r_epoch := r_epoch s; r_wins := r_wins s; r_init := r_init s;
          r_queue := r_queue s ++ [w]; r_cid := r_cid s; r_rrc := r_rrc s; r_closed := r_closed s |}
  else s.

(* markPacketAsValid.  Since commit 5206069 an unprotected (epoch 0) record is checked against the
   window but never commits a slot: nothing authenticates its number. *)
Definition mark (W : nat) (s : rstate) (w : wire) : rstate :=
  if w_epoch w =? 0 then s else
  let win' := fst (accept maxseq48 (get_win W (w_epoch w) (r_wins s)) (w_seq w)) in
  {| r_epoch := r_epoch s; r_wins := set_win (w_epoch w) win' (r_wins s); r_init := r_init s;
     r_queue := r_queue s; r_cid := r_cid s; r_rrc := r_rrc s; r_closed := r_closed s |}.

Definition omark (e q : N) : list out := if e =? 0 then [] else [OMark e q].

Definition set_epoch (s : rstate) (e : N) : rstate :=
  {| r_epoch := e; r_wins := r_wins s; r_init := r_init s;
     r_queue := r_queue s; r_cid := r_cid s; r_rrc := r_rrc s; r_closed := r_closed s |}.

Definition set_closed (s : rstate) : rstate :=
  {| r_epoch := r_epoch s; r_wins := r_wins s; r_init := r_init s;
     r_queue := r_queue s; r_cid := r_cid s; r_rrc := r_rrc s; r_closed := true |}.

(* handleRecordContent and bufferHandshakeRecord, after the record was prepared *)
Definition dispatch (W : nat) (lease : bool) (s : rstate) (w : wire) (c : content) : rstate * list out :=
  let e := w_epoch w in let q := w_seq w in
  match c with
  | CHs pushok retr =>
      if pushok then (mark W s w, omark e q ++ [OHs retr]) else (s, [])
  | CAck =>
      (* handleRecordContent: ACKs are only ever sent protected; an unprotected one is discarded *)
      if e =? 0 then (s, []) else (mark W s w, [OMark e q; OAck])
  | CAlert level desc =>
      let s1 := mark W s w in
      let reply := if desc =? desc_close_notify then [OAlert alert_warning desc_close_notify] else [] in
      if (level =? alert_fatal) || (desc =? desc_close_notify)
      then (set_closed s1, omark e q ++ reply ++ [OClosed])
      else (s1, omark e q ++ reply ++ [OErr])
  | CCCS =>
      if negb (r_init s) then (enqueue lease s w, [])
      else if r_epoch s + 1 =? e + 1
           then (mark W (set_epoch s (e + 1)) w, omark e q)
           else (s, [])
  | CApp p =>
      (* unprotected application data is refused silently *)
      if e =? 0 then (s, [])
      else (mark W s w, [OMark e q; ODeliver p e q])
  | CRrc =>
      if (e =? 0) || negb (r_rrc s) then (s, [OAlert alert_fatal desc_unexpected_message; OErr])
      else (mark W s w, [OMark e q; ORrc])
  | CBad =>
      (* handleIncomingPacket: nothing vouches for an unprotected record (epoch 0, or typed
         change_cipher_spec, which no suite authenticates): undecodable content is discarded;
         protected content that does not decode is answered with decode_error *)
      if (e =? 0) || (w_ctype w =? ct_ccs) then (s, [])
      else (s, [OAlert alert_fatal desc_decode_error; OErr])
  end.

(* a record typed change_cipher_spec decodes as CCS or not at all *)
Definition ccs_view (c : content) : content := match c with CCCS => CCCS | _ => CBad end.

(* one record arriving at the connection.  [lease] = it came from the socket (true) or from
   the replay of the queue (false: never re-queued). *)
Definition recv (W : nat) (lease : bool) (s : rstate) (w : wire) : rstate * list out :=
  if r_closed s then (s, []) else
  (* handleFutureLegacyPacket *)
  if r_epoch s <? w_epoch w then
    (if r_epoch s + 1 <? w_epoch w then s else enqueue lease s w, [])
  else
  (* legacyReplayMarker: Check *)
  if negb (check maxseq48 (get_win W (w_epoch w) (r_wins s)) (w_seq w)) then (s, [])
  else if w_epoch w =? 0 then dispatch W lease s w (w_clear w)
  else
  (* decryptLegacyPacket *)
  if negb (r_init s) then (enqueue lease s w, [])
  else if negb (len (r_cid s) =? 0) && negb (w_ctype w =? ct_cid) then (s, [])
  (* every cipher suite's Decrypt returns change_cipher_spec records unchanged, so a CCS-typed
     record claiming a protected epoch is never authenticated: handleChangeCipherSpecRecord (and
     handleIncomingPacket for an undecodable body) discards it *)
  else if w_ctype w =? ct_ccs then (s, [])
  else match w_auth w with
       | None => (s, [])
       | Some c =>
           if negb (bytes_eqb (r_cid s) (if w_ctype w =? ct_cid then w_cid w else [])) then (s, [])
           else dispatch W lease s w c
       end.

(* handleRecordContent, once the handshake is complete: the peer sends its alerts protected, so an
   unprotected (epoch 0) alert is discarded - no mark, no reply, no close.  [recv] above is the
   behaviour while the handshake runs; [recv_est true] the behaviour of an established connection. *)
Definition unprotected_alert (w : wire) : bool :=
  (w_epoch w =? 0) && match w_clear w with CAlert _ _ => true | _ => false end.

(* a ChangeCipherSpec only ends the peer's epoch 0 while the handshake runs *)
Definition unprotected_ccs (w : wire) : bool :=
  (w_epoch w =? 0) && match w_clear w with CCCS => true | _ => false end.

Definition recv_est (est : bool) (W : nat) (lease : bool) (s : rstate) (w : wire) : rstate * list out :=
  if est && (unprotected_alert w || unprotected_ccs w) then (s, []) else recv W lease s w.

Inductive op :=
| Arrive (w : wire)      (* a record read from the socket *)
| InitCipher             (* keys installed by the handshake *)
| Drain.                 (* handleQueuedPackets *)

Definition is_err (o : out) : bool := match o with OErr | OClosed => true | _ => false end.

(* handleQueuedPackets: stops at the first record whose processing returns an error *)
Fixpoint recv_list (W : nat) (lease : bool) (s : rstate) (ws : list wire) : rstate * list out :=
  match ws with
  | [] => (s, [])
  | w :: ws' =>
      let '(s1, o1) := recv W lease s w in
      if existsb is_err o1 then (s1, o1) else
      let '(s2, o2) := recv_list W lease s1 ws' in (s2, o1 ++ o2)
  end.

Definition step (W : nat) (s : rstate) (o : op) : rstate * list out :=
  match o with
  | Arrive w => recv W true s w
  | InitCipher =>
      ({| r_epoch := r_epoch s; r_wins := r_wins s; r_init := true;
          r_queue := r_queue s; r_cid := r_cid s; r_rrc := r_rrc s; r_closed := r_closed s |}, [])
  | Drain =>
      let q := r_queue s in
      recv_list W false
        {| r_epoch := r_epoch s; r_wins := r_wins s; r_init := r_init s;
           r_queue := []; r_cid := r_cid s; r_rrc := r_rrc s; r_closed := r_closed s |} q
  end.

Fixpoint run_ops (W : nat) (s : rstate) (ops : list op) : rstate * list out :=
  match ops with
  | [] => (s, [])
  | o :: ops' =>
      let '(s1, o1) := step W s o in
      let '(s2, o2) := run_ops W s1 ops' in (s2, o1 ++ o2)
  end.

Definition rinit (cid : bytes) (rrc : bool) : rstate :=
  {| r_epoch := 0; r_wins := []; r_init := false; r_queue := []; r_cid := cid; r_rrc := rrc; r_closed := false |}.

(* projections of an output trace *)
Fixpoint marks (os : list out) : list (N * N) :=
  match os with
  | [] => []
  | OMark e s :: os' => (e, s) :: marks os'
  | _ :: os' => marks os'
  end.

Fixpoint deliveries (os : list out) : list (bytes * N * N) :=
  match os with
  | [] => []
  | ODeliver p e s :: os' => (p, e, s) :: deliveries os'
  | _ :: os' => deliveries os'
  end.

(* ---- Early application data (conn.go handleApplicationDataRecord / parkEarlyApplicationData /
   takeEarlyApplicationData / Read).  A payload accepted by the receive path before the LOCAL handshake
   is complete is parked (at most [max_early]); Read, which only returns once the handshake is complete,
   hands out the parked payloads first and then what the read loop passes on.  The receive step of a
   connection is [recv_est (k_est k)]: the refusal of unprotected (epoch 0) application data sits in
   [dispatch] and does not depend on the handshake state. *)
Definition max_early : nat := 100.

Record conn := {
  k_rs : rstate;
  k_est : bool;               (* local handshake complete *)
  k_early : list bytes;       (* Conn.earlyApplicationData *)
  k_chan : list bytes         (* payloads handed to Read through Conn.decrypted, oldest first *)
}.

Inductive cop :=
| KArrive (w : wire)          (* a record read from the socket *)
| KOp (o : op)                (* InitCipher / Drain of the record layer *)
| KEstablish                  (* the local handshake completes *)
| KRead.                      (* the application calls Read *)

Definition payloads (os : list out) : list bytes := map (fun d => fst (fst d)) (deliveries os).

(* what handleApplicationDataRecord does with the payloads the receive step accepted *)
Definition accept_payloads (k : conn) (s' : rstate) (ps : list bytes) : conn :=
  if k_est k
  then {| k_rs := s'; k_est := true; k_early := k_early k; k_chan := k_chan k ++ ps |}
  else {| k_rs := s'; k_est := false;
          k_early := k_early k ++ firstn (max_early - length (k_early k)) ps; k_chan := k_chan k |}.

(* [rcv] = the receive step of the record layer, a parameter so that variants of the guard can be compared *)
Definition cstep_with (rcv : bool -> nat -> bool -> rstate -> wire -> rstate * list out)
           (W : nat) (k : conn) (o : cop) : conn * list bytes :=
  match o with
  | KArrive w => let '(s', os) := rcv (k_est k) W true (k_rs k) w in (accept_payloads k s' (payloads os), [])
  | KOp (Arrive w) => let '(s', os) := rcv (k_est k) W true (k_rs k) w in (accept_payloads k s' (payloads os), [])
  | KOp o' => let '(s', os) := step W (k_rs k) o' in (accept_payloads k s' (payloads os), [])
  | KEstablish => ({| k_rs := k_rs k; k_est := true; k_early := k_early k; k_chan := k_chan k |}, [])
  | KRead =>
      if negb (k_est k) then (k, []) else
      match k_early k with
      | p :: rest => ({| k_rs := k_rs k; k_est := true; k_early := rest; k_chan := k_chan k |}, [p])
      | [] => match k_chan k with
              | p :: rest => ({| k_rs := k_rs k; k_est := true; k_early := []; k_chan := rest |}, [p])
              | [] => (k, [])
              end
      end
  end.

Definition cstep := cstep_with recv_est.

Fixpoint crun_with rcv (W : nat) (k : conn) (ops : list cop) : conn * list bytes :=
  match ops with
  | [] => (k, [])
  | o :: ops' =>
      let '(k1, r1) := cstep_with rcv W k o in
      let '(k2, r2) := crun_with rcv W k1 ops' in (k2, r1 ++ r2)
  end.

Definition crun := crun_with recv_est.

Definition cinit (cid : bytes) (rrc : bool) : conn :=
  {| k_rs := rinit cid rrc; k_est := false; k_early := []; k_chan := [] |}.

(* the body of an unprotected record taken as application data *)
Definition unprotected_app (w : wire) : option bytes :=
  if w_epoch w =? 0 then match w_clear w with CApp p => Some p | _ => None end else None.

(* VARIANT of the receive step in which the refusal of unprotected application data is conditioned on
   the handshake being complete (NOT what conn.go does): while the handshake runs such a record goes
   the way of every accepted application record - markPacketAsValid (no slot for epoch 0), then
   parkEarlyApplicationData. *)
Definition recv_guard_if_established (est : bool) (W : nat) (lease : bool) (s : rstate) (w : wire)
  : rstate * list out :=
  match unprotected_app w with
  | Some p =>
      if est then recv_est est W lease s w
      else if r_closed s || negb (check maxseq48 (get_win W 0 (r_wins s)) (w_seq w)) then (s, [])
      else (s, [ODeliver p 0 (w_seq w)])
  | None => recv_est est W lease s w
  end.

(* every payload a connection holds for Read: parked or in the channel *)
Definition held (k : conn) : list bytes := k_early k ++ k_chan k.
