(* Connection-level parking model keyed by record number (conn.go handleApplicationDataRecord /
   parkEarlyApplicationData / takeEarlyApplicationData / Read), on top of the per-epoch replay windows
   of Rec/Recv.v.  An arrival [PArrive e q] is an authentic application record (epoch e, number q) that
   reaches handleApplicationDataRecord after legacyReplayMarker's Check.  [mp] = "a parked record is
   committed to the replay window at the moment it is parked" (true: what conn.go does;
   false: the variant that parks without marking). *)
From DtlsV Require Import Lib.Bytes Rec.Window Rec.Recv.
Open Scope N_scope.

Record pconn := {
  p_wins : list (N * win);
  p_est : bool;                 (* local handshake marked established *)
  p_early : list (N * N);       (* Conn.earlyApplicationData, as (epoch, seq) *)
  p_chan : list (N * N)         (* handed to Read through Conn.decrypted *)
}.

Inductive pop :=
| PArrive (e q : N)
| PEstablish
| PRead.

Definition pmark (W : nat) (k : pconn) (e q : N) : list (N * win) :=
  set_win e (fst (accept maxseq48 (get_win W e (p_wins k)) q)) (p_wins k).

Definition pstep (mp : bool) (W : nat) (k : pconn) (o : pop) : pconn * list (N * N) :=
  match o with
  | PArrive e q =>
      if (e =? 0) || negb (check maxseq48 (get_win W e (p_wins k)) q) then (k, [])
      else if p_est k
      then ({| p_wins := pmark W k e q; p_est := true; p_early := p_early k; p_chan := p_chan k ++ [(e, q)] |}, [])
      else ({| p_wins := if mp then pmark W k e q else p_wins k; p_est := false;
               p_early := p_early k ++ [(e, q)]; p_chan := p_chan k |}, [])
  | PEstablish => ({| p_wins := p_wins k; p_est := true; p_early := p_early k; p_chan := p_chan k |}, [])
  | PRead =>
      if negb (p_est k) then (k, []) else
      match p_early k with
      | x :: rest => ({| p_wins := p_wins k; p_est := true; p_early := rest; p_chan := p_chan k |}, [x])
      | [] => match p_chan k with
              | x :: rest => ({| p_wins := p_wins k; p_est := true; p_early := []; p_chan := rest |}, [x])
              | [] => (k, [])
              end
      end
  end.

Fixpoint prun (mp : bool) (W : nat) (k : pconn) (ops : list pop) : pconn * list (N * N) :=
  match ops with
  | [] => (k, [])
  | o :: ops' =>
      let '(k1, r1) := pstep mp W k o in
      let '(k2, r2) := prun mp W k1 ops' in (k2, r1 ++ r2)
  end.

Definition pinit : pconn := {| p_wins := []; p_est := false; p_early := []; p_chan := [] |}.
