(* No (epoch, seq) is returned by Read twice, over every history of arrivals, establishment and reads,
   when a parked record is committed to the window as it is parked; refuted when it is not. *)
From DtlsV Require Import Lib.Bytes Rec.Window Rec.WindowSound Rec.Recv Rec.RecvSound Rec.RecvPark.
From Coq Require Import ZifyN ZifyNat ZifyBool.
Open Scope N_scope.

Definition PI (W : nat) (k : pconn) (ms rd : list (N * N)) : Prop :=
  NoDup ms /\
  (forall e, Inv W (get_win W e (p_wins k)) (Sof e ms) /\ latest (get_win W e (p_wins k)) <= maxseq48) /\
  (p_est k = false -> p_chan k = []) /\
  NoDup (rd ++ p_early k ++ p_chan k) /\
  (forall x, In x (rd ++ p_early k ++ p_chan k) -> In x ms).

Lemma PI_mark W k ms e q : N.of_nat W <= maxseq48 ->
  NoDup ms ->
  (forall e, Inv W (get_win W e (p_wins k)) (Sof e ms) /\ latest (get_win W e (p_wins k)) <= maxseq48) ->
  check maxseq48 (get_win W e (p_wins k)) q = true ->
  ~ In (e, q) ms /\ NoDup (ms ++ [(e, q)]) /\
  (forall e', Inv W (get_win W e' (pmark W k e q)) (Sof e' (ms ++ [(e, q)])) /\
              latest (get_win W e' (pmark W k e q)) <= maxseq48).
Proof.
  intros HW Hnd Hinv Hc. destruct (Hinv e) as [HI Hl].
  assert (Hmax : 0 < maxseq48) by (unfold maxseq48; lia).
  destruct (accept_inv W maxseq48 _ _ _ Hmax HW HI Hc Hl) as [HI' Hl'].
  assert (Hnin : ~ In (e, q) ms).
  { intro Hin. apply in_Sof in Hin.
    apply (check_spec W maxseq48 _ _ q HI) in Hc.
    destruct Hc as [_ [Hlt | [_ Hn]]]; [|auto].
    destruct HI as (_ & _ & Hle & _). specialize (Hle _ Hin). lia. }
  split; [exact Hnin|]. split; [apply NoDup_app_one; assumption|].
  intro e'. unfold pmark. destruct (N.eq_dec e' e) as [-> | Hne].
  - rewrite get_set_same. split; [|exact Hl'].
    eapply Inv_ext; [|exact HI'].
    intro x. rewrite Sof_app, Sof_single_same. rewrite in_app_iff. cbn [In]. tauto.
  - rewrite get_set_other by exact Hne.
    destruct (Hinv e') as [HIe Hle]. split; [|exact Hle].
    eapply Inv_ext; [|exact HIe].
    intro x. rewrite Sof_app, Sof_single_other by congruence. now rewrite app_nil_r.
Qed.

Lemma PI_step W : N.of_nat W <= maxseq48 -> forall o k ms rd,
  PI W k ms rd -> exists ms', PI W (fst (pstep true W k o)) ms' (rd ++ snd (pstep true W k o)).
Proof.
  intros HW o k ms rd (Hnd & Hinv & Hch & Hl & Hsub).
  destruct o as [e q | | ]; cbn [pstep].
  - destruct ((e =? 0) || negb (check maxseq48 (get_win W e (p_wins k)) q)) eqn:Eg.
    + exists ms. cbn [fst snd]. rewrite app_nil_r.
      split; [exact Hnd|]. split; [exact Hinv|]. split; [exact Hch|]. split; assumption.
    + apply orb_false_iff in Eg. destruct Eg as [_ Hc]. apply negb_false_iff in Hc.
      destruct (PI_mark W k ms e q HW Hnd Hinv Hc) as (Hnin & Hnd' & Hinv').
      exists (ms ++ [(e, q)]).
      assert (HnL : ~ In (e, q) (rd ++ p_early k ++ p_chan k)) by (intro Hx; apply Hnin, Hsub, Hx).
      destruct (p_est k) eqn:Ee; unfold PI; cbn [fst snd p_wins p_est p_early p_chan]; rewrite app_nil_r.
      * split; [exact Hnd'|]. split; [exact Hinv'|]. split; [discriminate|]. split.
        -- rewrite 2 app_assoc. apply NoDup_app_one; [now rewrite <- app_assoc|now rewrite <- app_assoc].
        -- intros x Hx. rewrite 2 app_assoc in Hx. apply in_app_iff in Hx. apply in_app_iff.
           destruct Hx as [Hx | Hx]; [left; apply Hsub; now rewrite app_assoc|now right].
      * specialize (Hch eq_refl). rewrite Hch in *. rewrite app_nil_r in *.
        split; [exact Hnd'|]. split; [exact Hinv'|]. split; [reflexivity|]. split.
        -- rewrite app_assoc. apply NoDup_app_one; assumption.
        -- intros x Hx. rewrite app_assoc in Hx. apply in_app_iff in Hx. apply in_app_iff.
           destruct Hx as [Hx | Hx]; [left; now apply Hsub|now right].
  - exists ms. unfold PI. cbn [fst snd p_wins p_est p_early p_chan]. rewrite app_nil_r.
    split; [exact Hnd|]. split; [exact Hinv|]. split; [discriminate|]. split; assumption.
  - destruct (p_est k) eqn:Ee; cbn [negb].
    + destruct (p_early k) as [|x rest] eqn:E1.
      * destruct (p_chan k) as [|x rest] eqn:E2.
        -- exists ms. cbn [fst snd]. rewrite app_nil_r. unfold PI. rewrite E1, E2, Ee.
           split; [exact Hnd|]. split; [exact Hinv|]. split; [discriminate|]. split; assumption.
        -- exists ms. unfold PI. cbn [fst snd p_wins p_est p_early p_chan].
           split; [exact Hnd|]. split; [exact Hinv|]. split; [discriminate|].
           cbn [app] in *. rewrite <- app_assoc. cbn [app]. split; assumption.
      * exists ms. unfold PI. cbn [fst snd p_wins p_est p_early p_chan].
        split; [exact Hnd|]. split; [exact Hinv|]. split; [discriminate|].
        rewrite <- app_assoc. cbn [app] in *. split; assumption.
    + exists ms. cbn [fst snd]. rewrite app_nil_r. unfold PI. rewrite Ee.
      split; [exact Hnd|]. split; [exact Hinv|]. split; [exact Hch|]. split; assumption.
Qed.

Lemma PI_run W : N.of_nat W <= maxseq48 -> forall ops k ms rd,
  PI W k ms rd -> exists ms', PI W (fst (prun true W k ops)) ms' (rd ++ snd (prun true W k ops)).
Proof.
  intros HW ops. induction ops as [|o ops IH]; intros k ms rd HP.
  - exists ms. cbn [prun fst snd]. now rewrite app_nil_r.
  - cbn [prun]. destruct (PI_step W HW o k ms rd HP) as [ms1 H1].
    destruct (pstep true W k o) as [k1 r1]. cbn [fst snd] in H1.
    destruct (IH k1 ms1 (rd ++ r1) H1) as [ms2 H2].
    destruct (prun true W k1 ops) as [k2 r2]. cbn [fst snd] in *.
    exists ms2. now rewrite app_assoc.
Qed.

Lemma PI_init W : PI W pinit [] [].
Proof.
  split; [constructor|]. split.
  - intro e. cbn [pinit p_wins get_win Sof filter map]. split; [apply inv_init|cbn; lia].
  - split; [reflexivity|]. cbn. split; [constructor|intros x []].
Qed.

Lemma NoDup_app_left (A : Type) (a b : list A) : NoDup (a ++ b) -> NoDup a.
Proof.
  induction a as [|x a IH]; cbn [app]; intro H; [constructor|].
  inversion H as [|y l Hn Hd]; subst. constructor.
  - intro Hx. apply Hn. apply in_app_iff. now left.
  - now apply IH.
Qed.

Theorem parked_records_are_replay_protected (W : nat) (ops : list pop) : N.of_nat W <= maxseq48 ->
  NoDup (snd (prun true W pinit ops)).
Proof.
  intro HW. destruct (PI_run W HW ops pinit [] [] (PI_init W)) as [ms (_ & _ & _ & Hl & _)].
  cbn [app] in Hl. eapply NoDup_app_left. exact Hl.
Qed.

(* the variant that parks without marking: the record and one copy, both before establishment *)
Theorem park_without_mark_refuted :
  exists (W : nat) (ops : list pop), N.of_nat W <= maxseq48 /\ ~ NoDup (snd (prun false W pinit ops)).
Proof.
  exists 64%nat, [PArrive 1 1; PArrive 1 1; PEstablish; PRead; PRead].
  split; [vm_compute; discriminate|].
  intro H. vm_compute in H. inversion H as [|x l Hn _]. apply Hn. now left.
Qed.

(* ... and a copy arriving after establishment is delivered again too *)
Theorem park_without_mark_late_copy_refuted :
  exists (W : nat) (ops : list pop), N.of_nat W <= maxseq48 /\ ~ NoDup (snd (prun false W pinit ops)).
Proof.
  exists 64%nat, [PArrive 1 1; PEstablish; PRead; PArrive 1 1; PRead].
  split; [vm_compute; discriminate|].
  intro H. vm_compute in H. inversion H as [|x l Hn _]. apply Hn. now left.
Qed.
