(* Harness-facing evaluation of the receive-path model (C05 / C06 / C08 correspondence). *)
From DtlsV Require Import Lib.Bytes Rec.Window Rec.WindowRun Rec.Recv.
Open Scope N_scope.

(* observation per arrival: (payload delivered, alert emitted, error surfaced, connection closed) *)
Definition obs := (bool * bool * bool * bool)%type.

Definition has_deliver (os : list out) := existsb (fun o => match o with ODeliver _ _ _ => true | _ => false end) os.
Definition has_alert (os : list out) := existsb (fun o => match o with OAlert _ _ => true | _ => false end) os.
Definition has_err (os : list out) := existsb (fun o => match o with OErr => true | _ => false end) os.
Definition has_closed (os : list out) := existsb (fun o => match o with OClosed => true | _ => false end) os.

Definition obs_of (os : list out) : obs := (has_deliver os, has_alert os, has_err os, has_closed os).

Definition obs_eqb (a b : obs) : bool :=
  let '(a1, a2, a3, a4) := a in let '(b1, b2, b3, b4) := b in
  Bool.eqb a1 b1 && Bool.eqb a2 b2 && Bool.eqb a3 b3 && Bool.eqb a4 b4.

Fixpoint run_obs (W : nat) (s : rstate) (ws : list wire) : list obs :=
  match ws with
  | [] => []
  | w :: ws' => let '(s1, os) := recv_est true W true s w in obs_of os :: run_obs W s1 ws'
  end.

Fixpoint obs_list_eqb (a b : list obs) : bool :=
  match a, b with
  | [], [] => true
  | x :: a', y :: b' => obs_eqb x y && obs_list_eqb a' b'
  | _, _ => false
  end.

(* a case: configured window, receiver's CID, rrc flag, handshake prefix (ops that bring the model
   to the established state exactly as the observed handshake did), arrivals, observations *)
Definition c05_case := (nat * bytes * bool * list op * list wire * list obs)%type.

Definition c05_ok (c : c05_case) : bool :=
  let '(W0, cid, rrc, pre, arr, observed) := c in
  let W := eff_window W0 in
  let s := fst (run_ops W (rinit cid rrc) pre) in
  obs_list_eqb (run_obs W s arr) observed.

Definition mkw (ct e q : N) (cid : bytes) (a : option content) (clr : content) : wire :=
  {| w_ctype := ct; w_epoch := e; w_seq := q; w_cid := cid; w_auth := a; w_clear := clr |}.
