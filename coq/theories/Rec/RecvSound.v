(* Proofs about the receive-path model: forged records are inert, only authentic
   application data is delivered, every (epoch, sequence number) is committed/delivered at
   most once over every operation history, the queue stays bounded. *)
From DtlsV Require Import Lib.Bytes Rec.Window Rec.WindowSound Rec.Recv.
From Coq Require Import ZifyN ZifyNat ZifyBool.
Open Scope N_scope.

(* ---------- windows by epoch ---------- *)

Lemma get_set_same W e w ws : get_win W e (set_win e w ws) = w.
Proof.
  induction ws as [|[e' w'] ws IH]; cbn [set_win get_win].
  - now rewrite N.eqb_refl.
  - destruct (e =? e') eqn:E; cbn [get_win]; rewrite ?N.eqb_refl; [reflexivity|].
    rewrite E. exact IH.
Qed.

Lemma get_set_other W e e2 w ws : e2 <> e -> get_win W e2 (set_win e w ws) = get_win W e2 ws.
Proof.
  intro Hne. induction ws as [|[e' w'] ws IH]; cbn [set_win get_win].
  - destruct (e2 =? e) eqn:E; [lia|reflexivity].
  - destruct (e =? e') eqn:E; cbn [get_win].
    + assert (e = e') by lia. subst e'.
      destruct (e2 =? e) eqn:E2; [lia|reflexivity].
    + destruct (e2 =? e'); [reflexivity|exact IH].
Qed.

(* ---------- one arrival: what can happen ---------- *)

Definition same_except_queue (s s' : rstate) : Prop :=
  r_epoch s' = r_epoch s /\ r_wins s' = r_wins s /\ r_init s' = r_init s /\
  r_cid s' = r_cid s /\ r_rrc s' = r_rrc s /\ r_closed s' = r_closed s.

Lemma enqueue_spec lease s w :
  same_except_queue s (enqueue lease s w) /\
  (r_queue (enqueue lease s w) = r_queue s \/
   (r_queue (enqueue lease s w) = r_queue s ++ [w] /\ (length (r_queue s) < max_queue)%nat /\ lease = true)).
Proof.
  unfold enqueue, same_except_queue.
  destruct lease; cbn [andb]; [|auto 10].
  destruct (Nat.ltb (length (r_queue s)) max_queue) eqn:E; cbn; [|auto 10].
  apply Nat.ltb_lt in E. auto 10.
Qed.

(* C05: a record that claims protection (epoch <> 0) and does not authenticate has no effect:
   no output at all, and the state is unchanged except that it may sit in the bounded queue
   (only when it claims the next epoch, or keys are not installed yet). *)
Theorem forged_inert_any_type W lease s w :
  w_epoch w <> 0 -> w_auth w = None ->
  snd (recv W lease s w) = [] /\
  same_except_queue s (fst (recv W lease s w)) /\
  (r_queue (fst (recv W lease s w)) = r_queue s \/
   (r_queue (fst (recv W lease s w)) = r_queue s ++ [w] /\ (length (r_queue s) < max_queue)%nat /\
    lease = true /\ (w_epoch w = r_epoch s + 1 \/ r_init s = false))).
Proof.
  intros He Ha. unfold recv.
  assert (Hrefl : same_except_queue s s) by (unfold same_except_queue; auto 10).
  destruct (r_closed s); [cbn; auto|].
  destruct (r_epoch s <? w_epoch w) eqn:E1.
  - destruct (r_epoch s + 1 <? w_epoch w) eqn:E2; cbn [fst snd]; [auto|].
    destruct (enqueue_spec lease s w) as [Hs [Hq | (Hq & Hl & Hle)]]; split; auto.
    split; [exact Hs|]. right. repeat split; auto. left. lia.
  - destruct (negb (check maxseq48 (get_win W (w_epoch w) (r_wins s)) (w_seq w))); [cbn; auto|].
    destruct (w_epoch w =? 0) eqn:E3; [lia|].
    destruct (negb (r_init s)) eqn:E4.
    + cbn [fst snd].
      destruct (enqueue_spec lease s w) as [Hs [Hq | (Hq & Hl & Hle)]]; split; auto.
      split; [exact Hs|]. right. repeat split; auto. right. now apply negb_true_iff in E4.
    + destruct (negb (len (r_cid s) =? 0) && negb (w_ctype w =? ct_cid)); [cbn; auto|].
      destruct (w_ctype w =? ct_ccs) eqn:E5; [cbn; auto|].
      rewrite Ha. cbn; auto.
Qed.

(* the statement with the property's own exclusion of change_cipher_spec (kept under its old name:
   since the ChangeCipherSpec repair the exclusion is no longer needed, see above) *)
Theorem forged_inert W lease s w :
  w_epoch w <> 0 -> w_ctype w <> ct_ccs -> w_auth w = None ->
  snd (recv W lease s w) = [] /\
  same_except_queue s (fst (recv W lease s w)) /\
  (r_queue (fst (recv W lease s w)) = r_queue s \/
   (r_queue (fst (recv W lease s w)) = r_queue s ++ [w] /\ (length (r_queue s) < max_queue)%nat /\
    lease = true /\ (w_epoch w = r_epoch s + 1 \/ r_init s = false))).
Proof. intros He _ Ha. now apply forged_inert_any_type. Qed.

(* in an established connection a forged record of a current or past epoch changes nothing at all *)
Corollary forged_inert_established W lease s w :
  w_epoch w <> 0 -> w_ctype w <> ct_ccs -> w_auth w = None -> r_init s = true -> w_epoch w <= r_epoch s ->
  recv W lease s w = (s, []).
Proof.
  intros He Hct Ha Hi Hle. unfold recv.
  destruct (r_closed s); [reflexivity|].
  destruct (r_epoch s <? w_epoch w) eqn:E1; [lia|].
  destruct (negb (check maxseq48 (get_win W (w_epoch w) (r_wins s)) (w_seq w))); [reflexivity|].
  destruct (w_epoch w =? 0) eqn:E3; [lia|].
  rewrite Hi. cbn [negb].
  destruct (negb (len (r_cid s) =? 0) && negb (w_ctype w =? ct_cid)); [reflexivity|].
  destruct (w_ctype w =? ct_ccs) eqn:E5; [reflexivity|].
  now rewrite Ha.
Qed.

(* the replay window is untouched, so the genuine record with that number is still accepted *)
Corollary forged_keeps_window W lease s w :
  w_epoch w <> 0 -> w_ctype w <> ct_ccs -> w_auth w = None ->
  forall e, get_win W e (r_wins (fst (recv W lease s w))) = get_win W e (r_wins s).
Proof.
  intros He Hct Ha e. destruct (forged_inert W lease s w He Hct Ha) as (_ & (_ & Hw & _) & _).
  now rewrite Hw.
Qed.

Ltac dc_fin :=
  repeat split; auto; try lia;
  try solve [left; repeat split; auto; lia];
  try solve [right; repeat split; auto; lia].

(* what one arrival can commit and deliver *)
Lemma dispatch_cases W lease s w c :
  let '(s', os) := dispatch W lease s w c in
  r_cid s' = r_cid s /\ r_rrc s' = r_rrc s /\ r_init s' = r_init s /\
  (length (r_queue s') <= Nat.max (length (r_queue s)) max_queue)%nat /\
  ((marks os = [] /\ deliveries os = [] /\ r_wins s' = r_wins s) \/
   (marks os = [(w_epoch w, w_seq w)] /\
    r_wins s' = set_win (w_epoch w)
                  (fst (accept maxseq48 (get_win W (w_epoch w) (r_wins s)) (w_seq w))) (r_wins s) /\
    (deliveries os = [] \/
     exists p, deliveries os = [(p, w_epoch w, w_seq w)] /\ c = CApp p /\ w_epoch w <> 0))).
Proof.
  unfold dispatch, omark, mark.
  destruct c as [p | level desc | | pushok retr | | | ].
  - destruct (w_epoch w =? 0) eqn:E; cbn; dc_fin.
    right. repeat split; auto. right. exists p. repeat split; auto. lia.
  - destruct (w_epoch w =? 0) eqn:E;
      destruct ((level =? alert_fatal) || (desc =? desc_close_notify));
      destruct (desc =? desc_close_notify); cbn; dc_fin.
  - destruct (negb (r_init s)).
    + destruct (enqueue_spec lease s w) as [(H1 & H2 & H3 & H4 & H5 & H6) [Hq | (Hq & Hl & _)]];
        cbn [marks deliveries]; rewrite ?Hq, ?app_length; cbn [length]; unfold max_queue in *; dc_fin.
    + destruct (w_epoch w =? 0) eqn:E; destruct (r_epoch s + 1 =? w_epoch w + 1); cbn; dc_fin.
  - destruct (w_epoch w =? 0) eqn:E; destruct pushok; cbn; dc_fin.
  - destruct (w_epoch w =? 0); cbn; dc_fin.
  - destruct (w_epoch w =? 0) eqn:E; destruct (negb (r_rrc s)); cbn; dc_fin.
  - destruct ((w_epoch w =? 0) || (w_ctype w =? ct_ccs)); cbn; dc_fin.
Qed.

Lemma recv_cases W lease s w :
  let '(s', os) := recv W lease s w in
  r_cid s' = r_cid s /\ r_rrc s' = r_rrc s /\ r_init s' = r_init s /\
  (length (r_queue s') <= Nat.max (length (r_queue s)) max_queue)%nat /\
  ((marks os = [] /\ deliveries os = [] /\ r_wins s' = r_wins s) \/
   (marks os = [(w_epoch w, w_seq w)] /\
    check maxseq48 (get_win W (w_epoch w) (r_wins s)) (w_seq w) = true /\
    r_wins s' = set_win (w_epoch w)
                  (fst (accept maxseq48 (get_win W (w_epoch w) (r_wins s)) (w_seq w))) (r_wins s) /\
    (deliveries os = [] \/
     exists p, deliveries os = [(p, w_epoch w, w_seq w)] /\ w_auth w = Some (CApp p) /\
               w_epoch w <> 0 /\ r_init s = true /\
               bytes_eqb (r_cid s) (if w_ctype w =? ct_cid then w_cid w else []) = true))).
Proof.
  unfold recv.
  assert (Henq : r_cid (enqueue lease s w) = r_cid s /\ r_rrc (enqueue lease s w) = r_rrc s /\
     r_init (enqueue lease s w) = r_init s /\
     (length (r_queue (enqueue lease s w)) <= Nat.max (length (r_queue s)) max_queue)%nat /\
     r_wins (enqueue lease s w) = r_wins s).
  { destruct (enqueue_spec lease s w) as [(H1 & H2 & H3 & H4 & H5 & H6) [Hq | (Hq & Hl & _)]];
      rewrite ?Hq, ?app_length; cbn [length]; unfold max_queue in *; dc_fin. }
  destruct (r_closed s); [cbn; dc_fin|].
  destruct (r_epoch s <? w_epoch w) eqn:E1.
  { destruct (r_epoch s + 1 <? w_epoch w); cbn; [dc_fin|].
    destruct Henq as (H1 & H2 & H3 & H4 & H5). dc_fin. }
  destruct (check maxseq48 (get_win W (w_epoch w) (r_wins s)) (w_seq w)) eqn:Ec; cbn [negb];
    [|cbn; dc_fin].
  destruct (w_epoch w =? 0) eqn:E0.
  { pose proof (dispatch_cases W lease s w (w_clear w)) as Hd.
    destruct (dispatch W lease s w (w_clear w)) as [s' os].
    destruct Hd as (H1 & H2 & H3 & H4 & [Hn | (Hm & Hw & Hdel)]).
    - split; [exact H1|]. split; [exact H2|]. split; [exact H3|]. split; [exact H4|]. left. exact Hn.
    - split; [exact H1|]. split; [exact H2|]. split; [exact H3|]. split; [exact H4|]. right.
      split; [exact Hm|]. split; [reflexivity|]. split; [exact Hw|].
      destruct Hdel as [Hdel | (p & Hdel & _ & Hne)]; [left; exact Hdel|lia]. }
  destruct (r_init s) eqn:Ei; cbn [negb].
  2:{ cbn. destruct Henq as (H1 & H2 & H3 & H4 & H5). dc_fin. }
  destruct (negb (len (r_cid s) =? 0) && negb (w_ctype w =? ct_cid)); [cbn; dc_fin|].
  destruct (w_ctype w =? ct_ccs) eqn:Eccs; [cbn; dc_fin|].
  destruct (w_auth w) as [c|] eqn:Ea; [|cbn; dc_fin].
  destruct (bytes_eqb (r_cid s) (if w_ctype w =? ct_cid then w_cid w else [])) eqn:Ecid; cbn [negb];
    [|cbn; dc_fin].
  pose proof (dispatch_cases W lease s w c) as Hd.
  destruct (dispatch W lease s w c) as [s' os].
  destruct Hd as (H1 & H2 & H3 & H4 & [Hn | (Hm & Hw & Hdel)]).
  - split; [exact H1|]. split; [exact H2|]. split; [congruence|]. split; [exact H4|]. left. exact Hn.
  - split; [exact H1|]. split; [exact H2|]. split; [congruence|]. split; [exact H4|]. right.
    split; [exact Hm|]. split; [reflexivity|]. split; [exact Hw|].
    destruct Hdel as [Hdel | (p & Hdel & Hc & Hne)]; [left; exact Hdel|].
    right. exists p. subst c. repeat split; auto.
Qed.

(* C05: whatever Read receives is the content of an authentic application-data record of a
   protected epoch carrying our connection id *)
Theorem deliver_only_authentic W lease s w p e q :
  In (p, e, q) (deliveries (snd (recv W lease s w))) ->
  e = w_epoch w /\ q = w_seq w /\ w_epoch w <> 0 /\ w_auth w = Some (CApp p) /\ r_init s = true /\
  bytes_eqb (r_cid s) (if w_ctype w =? ct_cid then w_cid w else []) = true.
Proof.
  intro Hin. pose proof (recv_cases W lease s w) as H.
  destruct (recv W lease s w) as [s' os]. cbn [snd] in Hin.
  destruct H as (_ & _ & _ & _ & [(_ & Hd & _) | (_ & _ & _ & Hd)]).
  - rewrite Hd in Hin. destruct Hin.
  - destruct Hd as [Hd | (p' & Hd & Ha & Hne & Hi & Hc)]; rewrite Hd in Hin; [destruct Hin|].
    destruct Hin as [Heq | []]. inversion Heq; subst. auto 10.
Qed.

(* ---------- histories ---------- *)

Definition Sof (e : N) (ms : list (N * N)) : list N :=
  map snd (filter (fun m => fst m =? e) ms).

Lemma Sof_app e a b : Sof e (a ++ b) = Sof e a ++ Sof e b.
Proof. unfold Sof. now rewrite filter_app, map_app. Qed.

Lemma Sof_single_same e q : Sof e [(e, q)] = [q].
Proof. unfold Sof. cbn. now rewrite N.eqb_refl. Qed.

Lemma Sof_single_other e e' q : e' <> e -> Sof e [(e', q)] = [].
Proof. intro H. unfold Sof. cbn. destruct (e' =? e) eqn:E; [lia|reflexivity]. Qed.

Lemma in_Sof e q ms : In q (Sof e ms) <-> In (e, q) ms.
Proof.
  unfold Sof. rewrite in_map_iff. split.
  - intros ([e' q'] & Hq & Hin). cbn in Hq. subst q'. apply filter_In in Hin.
    destruct Hin as [Hin He]. cbn in He. assert (e' = e) by lia. now subst.
  - intro Hin. exists (e, q). split; [reflexivity|]. apply filter_In. split; [exact Hin|]. cbn. lia.
Qed.

Lemma Inv_ext W s S S' : (forall x, In x S <-> In x S') -> Inv W s S -> Inv W s S'.
Proof.
  intros Hext (Hl & Hb & Hle & Hlat). unfold Inv. split; [exact Hl|]. split; [|split].
  - intros d Hd. rewrite (Hb d Hd). split; intros [H1 H2]; split; auto; now apply Hext.
  - intros x Hx. apply Hle. now apply Hext.
  - intro Hp. apply Hext. now apply Hlat.
Qed.

Lemma NoDup_app_one (A : Type) (l : list A) (x : A) : NoDup l -> ~ In x l -> NoDup (l ++ [x]).
Proof.
  intros Hnd Hx. induction Hnd as [|y l Hy Hnd IH]; cbn.
  - constructor; [intros []|constructor].
  - constructor.
    + rewrite in_app_iff. cbn. intros [H | [H | []]]; [auto|]. subst. apply Hx. now left.
    + apply IH. intro H. apply Hx. now right.
Qed.

(* global invariant: every epoch's window refines the set of numbers committed for that epoch *)
Definition GI (W : nat) (s : rstate) (ms : list (N * N)) : Prop :=
  NoDup ms /\
  forall e, Inv W (get_win W e (r_wins s)) (Sof e ms) /\ latest (get_win W e (r_wins s)) <= maxseq48.

Lemma GI_init W cid rrc : GI W (rinit cid rrc) [].
Proof.
  split; [constructor|]. intro e. cbn [rinit r_wins get_win Sof filter map]. split.
  - apply inv_init.
  - cbn. lia.
Qed.

Lemma GI_recv W lease s w ms : N.of_nat W <= maxseq48 ->
  GI W s ms -> GI W (fst (recv W lease s w)) (ms ++ marks (snd (recv W lease s w))).
Proof.
  intros HW [Hnd Hinv]. pose proof (recv_cases W lease s w) as H.
  destruct (recv W lease s w) as [s' os]. cbn [fst snd].
  destruct H as (_ & _ & _ & _ & [(Hm & _ & Hw) | (Hm & Hc & Hw & _)]).
  - unfold GI. rewrite Hm, app_nil_r, Hw. split; assumption.
  - unfold GI. rewrite Hm, Hw. destruct (Hinv (w_epoch w)) as [HI Hl].
    assert (Hmax : 0 < maxseq48) by (unfold maxseq48; lia).
    destruct (accept_inv W maxseq48 _ _ _ Hmax HW HI Hc Hl) as [HI' Hl'].
    split.
    + apply NoDup_app_one.
      * exact Hnd.
      * intro Hin. apply in_Sof in Hin.
        apply (check_spec W maxseq48 _ _ (w_seq w) HI) in Hc.
        destruct Hc as [_ [Hlt | [_ Hn]]]; [|auto].
        destruct HI as (_ & _ & Hle & _). specialize (Hle _ Hin). lia.
    + intro e. destruct (N.eq_dec e (w_epoch w)) as [-> | Hne].
      * rewrite get_set_same. split; [|exact Hl'].
        eapply Inv_ext; [|exact HI'].
        intro x. rewrite Sof_app, Sof_single_same.
        rewrite in_app_iff. cbn [In]. tauto.
      * rewrite get_set_other by exact Hne.
        destruct (Hinv e) as [HIe Hle]. split; [|exact Hle].
        eapply Inv_ext; [|exact HIe].
        intro x. rewrite Sof_app, Sof_single_other by congruence. now rewrite app_nil_r.
Qed.

Lemma marks_app a b : marks (a ++ b) = marks a ++ marks b.
Proof. induction a as [|[] a IH]; cbn; auto. now rewrite IH. Qed.

Lemma deliveries_app a b : deliveries (a ++ b) = deliveries a ++ deliveries b.
Proof. induction a as [|[] a IH]; cbn; auto. now rewrite IH. Qed.

Lemma GI_recv_list W lease : N.of_nat W <= maxseq48 -> forall ws s ms,
  GI W s ms -> GI W (fst (recv_list W lease s ws)) (ms ++ marks (snd (recv_list W lease s ws))).
Proof.
  intros HW. induction ws as [|w ws IH]; intros s ms HG.
  - cbn. now rewrite app_nil_r.
  - cbn [recv_list]. pose proof (GI_recv W lease s w ms HW HG) as H1.
    destruct (recv W lease s w) as [s1 o1]. cbn [fst snd] in H1.
    destruct (existsb is_err o1); [exact H1|].
    specialize (IH s1 _ H1). destruct (recv_list W lease s1 ws) as [s2 o2]. cbn [fst snd] in *.
    now rewrite marks_app, app_assoc.
Qed.

Lemma GI_set_fields W s ms e i q :
  GI W s ms ->
  GI W {| r_epoch := e; r_wins := r_wins s; r_init := i; r_queue := q;
          r_cid := r_cid s; r_rrc := r_rrc s; r_closed := r_closed s |} ms.
Proof. intros [H1 H2]. split; [exact H1|exact H2]. Qed.

Lemma GI_step W : N.of_nat W <= maxseq48 -> forall o s ms,
  GI W s ms -> GI W (fst (step W s o)) (ms ++ marks (snd (step W s o))).
Proof.
  intros HW [w | | ] s ms HG; cbn [step].
  - now apply GI_recv.
  - cbn [fst snd marks]. rewrite app_nil_r. now apply GI_set_fields.
  - apply GI_recv_list; [exact HW|]. now apply GI_set_fields.
Qed.

Lemma GI_run W : N.of_nat W <= maxseq48 -> forall ops s ms,
  GI W s ms -> GI W (fst (run_ops W s ops)) (ms ++ marks (snd (run_ops W s ops))).
Proof.
  intros HW. induction ops as [|o ops IH]; intros s ms HG.
  - cbn. now rewrite app_nil_r.
  - cbn [run_ops]. pose proof (GI_step W HW o s ms HG) as H1.
    destruct (step W s o) as [s1 o1]. cbn [fst snd] in H1.
    specialize (IH s1 _ H1). destruct (run_ops W s1 ops) as [s2 o2]. cbn [fst snd] in *.
    now rewrite marks_app, app_assoc.
Qed.

(* C06 over histories: for every operation history (arrivals in any order with any repetition,
   key installation, queue replays, across epoch changes) no (epoch, sequence number) is
   committed twice *)
Theorem marks_nodup W cid rrc ops : N.of_nat W <= maxseq48 ->
  NoDup (marks (snd (run_ops W (rinit cid rrc) ops))).
Proof.
  intro HW. pose proof (GI_run W HW ops (rinit cid rrc) [] (GI_init W cid rrc)) as [H _].
  exact H.
Qed.

(* every delivery is accompanied by the commit of its own record number *)
Fixpoint sublist {A} (a b : list A) : Prop :=
  match a, b with
  | [], _ => True
  | x :: a', [] => False
  | x :: a', y :: b' => (x = y /\ sublist a' b') \/ sublist a b'
  end.

Lemma sublist_nil_l {A} (b : list A) : sublist [] b.
Proof. destruct b; exact I. Qed.

Lemma sublist_nil_r {A} (a : list A) : sublist a [] -> a = [].
Proof. destruct a; cbn; [reflexivity|intros []]. Qed.

Lemma sublist_refl {A} (a : list A) : sublist a a.
Proof. induction a; cbn; auto. Qed.

Lemma sublist_cons_r {A} (a b : list A) y : sublist a b -> sublist a (y :: b).
Proof. destruct a; cbn; auto. Qed.

Lemma sublist_app {A} (a1 b1 a2 b2 : list A) : sublist a1 b1 -> sublist a2 b2 -> sublist (a1 ++ a2) (b1 ++ b2).
Proof.
  revert a1; induction b1 as [|y b1 IH]; intros a1 H1 H2.
  - apply sublist_nil_r in H1. subst. exact H2.
  - destruct a1 as [|x a1].
    + cbn [app]. destruct a2 as [|z a2]; [apply sublist_nil_l|]. cbn. right. apply (IH [] (sublist_nil_l b1) H2).
    + cbn in H1. cbn [app]. cbn. destruct H1 as [[-> H1] | H1].
      * left. split; [reflexivity|]. now apply IH.
      * right. apply (IH (x :: a1) H1 H2).
Qed.

Lemma sublist_In {A} (a b : list A) x : sublist a b -> In x a -> In x b.
Proof.
  revert a; induction b as [|y b IH]; intros a Hs Hx.
  - apply sublist_nil_r in Hs. subst. destruct Hx.
  - destruct a as [|z a]; [destruct Hx|]. cbn in Hs. destruct Hs as [[-> Hs] | Hs].
    + destruct Hx as [-> | Hx]; [now left | right; eapply IH; eauto].
    + right. eapply IH; eauto.
Qed.

Lemma sublist_NoDup {A} (a b : list A) : sublist a b -> NoDup b -> NoDup a.
Proof.
  revert a; induction b as [|y b IH]; intros a Hs Hnd.
  - apply sublist_nil_r in Hs. subst. constructor.
  - destruct a as [|z a]; [constructor|]. cbn in Hs. inversion Hnd as [|? ? Hy Hb]; subst.
    destruct Hs as [[-> Hs] | Hs].
    + constructor; [|now apply IH]. intro Hin. apply Hy. eapply sublist_In; eauto.
    + now apply IH.
Qed.

Definition recnums (ds : list (bytes * N * N)) : list (N * N) := map (fun d => (snd (fst d), snd d)) ds.

Lemma recv_deliveries_sub W lease s w :
  sublist (recnums (deliveries (snd (recv W lease s w)))) (marks (snd (recv W lease s w))).
Proof.
  pose proof (recv_cases W lease s w) as H. destruct (recv W lease s w) as [s' os]. cbn [snd].
  destruct H as (_ & _ & _ & _ & [(Hm & Hd & _) | (Hm & _ & _ & Hd)]).
  - rewrite Hd. apply sublist_nil_l.
  - destruct Hd as [Hd | (p & Hd & _)]; rewrite Hd, Hm; cbn; auto.
Qed.

Lemma recnums_app a b : recnums (a ++ b) = recnums a ++ recnums b.
Proof. unfold recnums. apply map_app. Qed.

Lemma recv_list_deliveries_sub W lease : forall ws s,
  sublist (recnums (deliveries (snd (recv_list W lease s ws)))) (marks (snd (recv_list W lease s ws))).
Proof.
  induction ws as [|w ws IH]; intro s; [apply sublist_nil_l|].
  cbn [recv_list]. pose proof (recv_deliveries_sub W lease s w) as H1.
  destruct (recv W lease s w) as [s1 o1]. cbn [snd] in H1.
  destruct (existsb is_err o1); [exact H1|].
  specialize (IH s1). destruct (recv_list W lease s1 ws) as [s2 o2]. cbn [snd] in *.
  rewrite deliveries_app, recnums_app, marks_app. now apply sublist_app.
Qed.

Lemma run_deliveries_sub W : forall ops s,
  sublist (recnums (deliveries (snd (run_ops W s ops)))) (marks (snd (run_ops W s ops))).
Proof.
  induction ops as [|o ops IH]; intro s; [apply sublist_nil_l|].
  cbn [run_ops].
  assert (H1 : sublist (recnums (deliveries (snd (step W s o)))) (marks (snd (step W s o)))).
  { destruct o as [w | | ]; cbn [step]; [apply recv_deliveries_sub | apply sublist_nil_l | apply recv_list_deliveries_sub]. }
  destruct (step W s o) as [s1 o1]. cbn [snd] in H1.
  specialize (IH s1). destruct (run_ops W s1 ops) as [s2 o2]. cbn [snd] in *.
  rewrite deliveries_app, recnums_app, marks_app. now apply sublist_app.
Qed.

(* C06: over every history no record number is delivered to Read twice *)
Theorem deliveries_nodup W cid rrc ops : N.of_nat W <= maxseq48 ->
  NoDup (recnums (deliveries (snd (run_ops W (rinit cid rrc) ops)))).
Proof.
  intro HW. eapply sublist_NoDup; [apply run_deliveries_sub | now apply marks_nodup].
Qed.

(* C08: the queue of not-yet-decryptable records never exceeds its limit *)
Lemma recv_queue_bound W lease s w : (length (r_queue s) <= max_queue)%nat ->
  (length (r_queue (fst (recv W lease s w))) <= max_queue)%nat.
Proof.
  intro H. pose proof (recv_cases W lease s w) as Hc. destruct (recv W lease s w) as [s' os].
  cbn [fst]. destruct Hc as (_ & _ & _ & Hq & _). lia.
Qed.

Lemma recv_list_queue_bound W lease : forall ws s, (length (r_queue s) <= max_queue)%nat ->
  (length (r_queue (fst (recv_list W lease s ws))) <= max_queue)%nat.
Proof.
  induction ws as [|w ws IH]; intros s H; [exact H|].
  cbn [recv_list]. pose proof (recv_queue_bound W lease s w H) as H1.
  destruct (recv W lease s w) as [s1 o1]. cbn [fst] in H1.
  destruct (existsb is_err o1); [exact H1|].
  specialize (IH s1 H1). destruct (recv_list W lease s1 ws) as [s2 o2]. exact IH.
Qed.

Theorem queue_bounded W cid rrc ops :
  (length (r_queue (fst (run_ops W (rinit cid rrc) ops))) <= max_queue)%nat.
Proof.
  assert (H : forall ops s, (length (r_queue s) <= max_queue)%nat ->
                       (length (r_queue (fst (run_ops W s ops))) <= max_queue)%nat).
  { clear ops. induction ops as [|o ops IH]; intros s Hs; [exact Hs|].
    cbn [run_ops].
    assert (H1 : (length (r_queue (fst (step W s o))) <= max_queue)%nat).
    { destruct o as [w | | ]; cbn [step].
      - now apply recv_queue_bound.
      - exact Hs.
      - apply recv_list_queue_bound. cbn. unfold max_queue. lia. }
    destruct (step W s o) as [s1 o1]. cbn [fst] in H1.
    specialize (IH s1 H1). destruct (run_ops W s1 ops) as [s2 o2]. exact IH. }
  apply H. cbn. unfold max_queue. lia.
Qed.

(* C06 tolerance at the connection level: on an established, open connection an authentic
   application record of a current/past protected epoch carrying our CID is delivered iff the
   replay detector of its epoch accepts its number *)
Theorem authentic_delivered_iff_window W lease s w p :
  r_closed s = false -> r_init s = true -> w_epoch w <> 0 -> w_epoch w <= r_epoch s ->
  w_ctype w <> ct_ccs -> w_auth w = Some (CApp p) ->
  (len (r_cid s) = 0 \/ w_ctype w = ct_cid) ->
  bytes_eqb (r_cid s) (if w_ctype w =? ct_cid then w_cid w else []) = true ->
  deliveries (snd (recv W lease s w)) =
    if check maxseq48 (get_win W (w_epoch w) (r_wins s)) (w_seq w) then [(p, w_epoch w, w_seq w)] else [].
Proof.
  intros Hc Hi He Hle Hct Ha Hpres Hcid. unfold recv. rewrite Hc.
  destruct (r_epoch s <? w_epoch w) eqn:E1; [lia|].
  destruct (check maxseq48 (get_win W (w_epoch w) (r_wins s)) (w_seq w)); cbn [negb]; [|reflexivity].
  destruct (w_epoch w =? 0) eqn:E0; [lia|].
  rewrite Hi. cbn [negb].
  assert (Hp : negb (len (r_cid s) =? 0) && negb (w_ctype w =? ct_cid) = false).
  { destruct Hpres as [H | H]; rewrite H; [reflexivity|]. rewrite N.eqb_refl. cbn. apply andb_false_r. }
  rewrite Hp.
  destruct (w_ctype w =? ct_ccs) eqn:E5; [exfalso|].
  { destruct Hpres as [H | H].
    - (* no CID expected: a CCS-typed record is not an application record; excluded by Hct *)
      apply Hct. lia.
    - rewrite H in E5. discriminate E5. }
  rewrite Ha, Hcid. cbn [negb]. unfold dispatch. rewrite E0. reflexivity.
Qed.

(* ---- established connections: [recv_est true] ---- *)

(* an established connection either ignores the record (an unprotected alert) or treats it exactly
   as [recv] does: every statement above about one arrival carries over *)
Lemma recv_est_cases est W lease s w :
  recv_est est W lease s w = (s, []) \/ recv_est est W lease s w = recv W lease s w.
Proof. unfold recv_est. destruct (est && (unprotected_alert w || unprotected_ccs w)); [now left | now right]. Qed.

Lemma recv_est_protected est W lease s w :
  w_epoch w <> 0 -> recv_est est W lease s w = recv W lease s w.
Proof.
  intros He. unfold recv_est, unprotected_alert, unprotected_ccs.
  destruct (w_epoch w =? 0) eqn:E; [lia|]. cbn [andb orb]. now rewrite Bool.andb_false_r.
Qed.

(* once the handshake is complete an unprotected alert changes nothing: no close, no reply, no
   error for Read, no mark in the replay window *)
Theorem unprotected_alert_inert_established W lease s w :
  unprotected_alert w = true -> recv_est true W lease s w = (s, []).
Proof. intros H. unfold recv_est. now rewrite H. Qed.

(* ... and so does an unprotected ChangeCipherSpec: the epoch and the replay windows stay *)
Theorem unprotected_ccs_inert_established W lease s w :
  unprotected_ccs w = true -> recv_est true W lease s w = (s, []).
Proof. intros H. unfold recv_est. rewrite H. now rewrite Bool.orb_true_r. Qed.

Corollary forged_inert_est est W lease s w :
  w_epoch w <> 0 -> w_ctype w <> ct_ccs -> w_auth w = None ->
  snd (recv_est est W lease s w) = snd (recv W lease s w) /\
  fst (recv_est est W lease s w) = fst (recv W lease s w).
Proof. intros He _ _. now rewrite (recv_est_protected est W lease s w He). Qed.

Theorem deliver_only_authentic_est est W lease s w p e q :
  In (ODeliver p e q) (snd (recv_est est W lease s w)) ->
  In (ODeliver p e q) (snd (recv W lease s w)).
Proof.
  destruct (recv_est_cases est W lease s w) as [H | H]; rewrite H; [intros [] | auto].
Qed.

(* ---- unprotected application data, early application data *)

Lemma recv_epoch0_no_delivery W lease s w : w_epoch w = 0 -> deliveries (snd (recv W lease s w)) = [].
Proof.
  intros He. destruct (deliveries (snd (recv W lease s w))) as [|[[p e] q] l] eqn:Hd; [reflexivity|].
  assert (Hin : In (p, e, q) (deliveries (snd (recv W lease s w)))) by (rewrite Hd; left; reflexivity).
  apply deliver_only_authentic in Hin. destruct Hin as (_ & _ & Hne & _). congruence.
Qed.

Lemma recv_est_epoch0_no_delivery est W lease s w :
  w_epoch w = 0 -> deliveries (snd (recv_est est W lease s w)) = [].
Proof.
  intros He. destruct (recv_est_cases est W lease s w) as [H|H]; rewrite H.
  - reflexivity.
  - apply recv_epoch0_no_delivery; exact He.
Qed.

(* an unprotected application-data record has no effect at all on the record layer *)
Theorem unprotected_appdata_inert est W lease s w p :
  w_epoch w = 0 -> w_clear w = CApp p -> recv_est est W lease s w = (s, []).
Proof.
  intros He Hc. destruct (recv_est_cases est W lease s w) as [H|H]; [exact H|]. rewrite H.
  unfold recv. rewrite He.
  destruct (r_closed s); [reflexivity|].
  replace (r_epoch s <? 0) with false by (symmetry; apply N.ltb_ge; lia).
  destruct (check maxseq48 (get_win W 0 (r_wins s)) (w_seq w)); cbn [negb]; [|reflexivity].
  cbn [N.eqb]. rewrite Hc. unfold dispatch. rewrite He. reflexivity.
Qed.

Lemma accept_nil k : accept_payloads k (k_rs k) [] = k.
Proof.
  unfold accept_payloads. destruct k as [rs est early chan]; cbn [k_rs k_est k_early k_chan].
  destruct est; rewrite ?firstn_nil, ?app_nil_r; reflexivity.
Qed.

(* in every state of the connection - handshake running or complete - an unprotected application-data
   record is neither delivered nor parked: the whole connection state is unchanged and Read gets nothing *)
Theorem unprotected_appdata_never_delivered W k w p :
  w_epoch w = 0 -> w_clear w = CApp p -> cstep W k (KArrive w) = (k, []).
Proof.
  intros He Hc. unfold cstep, cstep_with.
  rewrite (unprotected_appdata_inert (k_est k) W true (k_rs k) w p He Hc).
  unfold payloads; cbn [deliveries map]. rewrite accept_nil. reflexivity.
Qed.

(* whatever its content type and body, a record of epoch 0 adds nothing to what Read will return *)
Theorem unprotected_record_adds_nothing W k w :
  w_epoch w = 0 ->
  k_early (fst (cstep W k (KArrive w))) = k_early k /\ k_chan (fst (cstep W k (KArrive w))) = k_chan k /\
  snd (cstep W k (KArrive w)) = [].
Proof.
  intros He. unfold cstep, cstep_with.
  pose proof (recv_est_epoch0_no_delivery (k_est k) W true (k_rs k) w He) as Hd.
  destruct (recv_est (k_est k) W true (k_rs k) w) as [s' os]. cbn [snd] in Hd.
  unfold payloads. rewrite Hd. cbn [map fst snd]. unfold accept_payloads.
  destruct (k_est k); cbn [k_early k_chan]; rewrite ?firstn_nil, ?app_nil_r; auto.
Qed.


(* ... and it vanishes from every history: the reads of a run that contains it are those of the run without it *)
Theorem unprotected_appdata_vanishes W k w p ops :
  w_epoch w = 0 -> w_clear w = CApp p -> crun W k (KArrive w :: ops) = crun W k ops.
Proof.
  intros He Hc. unfold crun. cbn [crun_with]. fold cstep.
  rewrite (unprotected_appdata_never_delivered W k w p He Hc).
  destruct (crun_with recv_est W k ops) as [k2 r2]. reflexivity.
Qed.

(* the refusal must not wait for the handshake to complete: in the variant of the model whose guard is
   conditioned on "handshake complete" a record that nothing authenticates, arriving while the handshake
   runs, is parked and is the first payload Read returns *)
Definition forged_app_record : wire :=
  {| w_ctype := ct_app; w_epoch := 0; w_seq := 40; w_cid := []; w_auth := None; w_clear := CApp [70; 79; 82; 71; 69; 68] |}.

Theorem guard_if_established_refuted :
  exists (w : wire) (p : bytes),
    w_epoch w = 0 /\ w_auth w = None /\ w_clear w = CApp p /\
    snd (crun_with recv_guard_if_established 64 (cinit [] false) [KArrive w; KEstablish; KRead]) = [p] /\
    snd (crun 64 (cinit [] false) [KArrive w; KEstablish; KRead]) = [].
Proof.
  exists forged_app_record, [70; 79; 82; 71; 69; 68].
  repeat split; vm_compute; reflexivity.
Qed.

(* the variant differs from the code's step ONLY on unprotected application data before establishment *)
Lemma guard_variant_agrees_elsewhere est W lease s w :
  est = true \/ unprotected_app w = None ->
  recv_guard_if_established est W lease s w = recv_est est W lease s w.
Proof.
  intros [H|H]; unfold recv_guard_if_established.
  - subst est. destruct (unprotected_app w); reflexivity.
  - rewrite H. reflexivity.
Qed.
