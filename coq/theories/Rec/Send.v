(* Model of record-number allocation on the send side of conn.go
   (nextLocalSequenceNumber and its callers; export/import of the counter in state.go).
   Every emission path of the code - application data, each handshake fragment (plain or
   CID-wrapped), alert, change_cipher_spec, ACK, return-routability message, DTLS 1.3 protected
   handshake fragments and key updates - allocates one number per record from the per-epoch
   counter while holding the write lock; the model is that counter.  Definitions only. *)
From DtlsV Require Import Lib.Bytes.
Open Scope N_scope.

Definition max_seq : N := 281474976710655.   (* 2^48 - 1, recordlayer.MaxSequenceNumber *)

(* per-epoch next sequence number (absent = 0) *)
Definition counters := list (N * N).

Fixpoint get_ctr (e : N) (c : counters) : N :=
  match c with
  | [] => 0
  | (e', n) :: c' => if e =? e' then n else get_ctr e c'
  end.

Fixpoint set_ctr (e n : N) (c : counters) : counters :=
  match c with
  | [] => [(e, n)]
  | (e', n') :: c' => if e =? e' then (e, n) :: c' else (e', n') :: set_ctr e n c'
  end.

(* nextLocalSequenceNumber: atomically take the counter value and increment it; a value above
   2^48-1 is an error (the counter stays incremented, so every later call fails too) *)
Definition alloc (c : counters) (e : N) : counters * option N :=
  let n := get_ctr e c in
  (set_ctr e (n + 1) c, if max_seq <? n then None else Some n).

(* emit k records at epoch e: stops at the first allocation error, as the callers do *)
Fixpoint emit (c : counters) (e : N) (k : nat) : counters * list (N * N) * bool :=
  match k with
  | O => (c, [], true)
  | S k' =>
      match alloc c e with
      | (c1, None) => (c1, [], false)
      | (c1, Some n) => let '(c2, l, ok) := emit c1 e k' in (c2, (e, n) :: l, ok)
      end
  end.

(* an operation of the sender: a write of k records at epoch e (application write k=1, alert k=1,
   a handshake message split into k fragments, a flight = several of these), or an export/import
   of the session at local epoch e (state.go keeps only the current epoch's counter) *)
Inductive sop :=
| SEmit (e : N) (k : nat)
| SExportImport (e : N).

Definition sstep (c : counters) (o : sop) : counters * list (N * N) :=
  match o with
  | SEmit e k => let '(c', l, _) := emit c e k in (c', l)
  | SExportImport e => ([(e, get_ctr e c)], [])
  end.

Fixpoint srun (c : counters) (ops : list sop) : counters * list (N * N) :=
  match ops with
  | [] => (c, [])
  | o :: ops' => let '(c1, l1) := sstep c o in let '(c2, l2) := srun c1 ops' in (c2, l1 ++ l2)
  end.
