(* Send-side counter model with state export as an operation of the history (C09, export leg).
   One connection emits records (Rec/Send.v: emit) and is asked for its state any number of times
   (conn.go ConnectionState -> state.go generateState): each export snapshots the counter of the
   local epoch AT THAT MOMENT; a snapshot is imported into a fresh connection
   (state.go generateInternalState: only the local epoch's counter is restored) which continues
   from it.  The switch `export_mode` selects what an export returns: `Fresh` is the code as it
   stands, `Memo` is the variant in which the first exported state is kept and handed out again.
   Definitions only. *)
From DtlsV Require Import Lib.Bytes Rec.Send.
Open Scope N_scope.

Inductive export_mode := Fresh | Memo.

Inductive xop :=
| XEmit (e : N) (k : nat)      (* k records at epoch e: write, alert, fragments, ... *)
| XExport (e : N).             (* ConnectionState() at local epoch e *)

(* an exported state, as far as the send side goes: local epoch, its next sequence number, and
   (ghost) the records the connection had emitted when the export was made *)
Definition snapshot := (N * N * list (N * N))%type.

Record xstate := mkX {
  x_ctrs : counters;
  x_emitted : list (N * N);      (* emission order *)
  x_memo : option (N * N);       (* first exported (epoch, counter), used by Memo only *)
  x_snaps : list snapshot        (* in export order *)
}.

Definition xinit : xstate := mkX [] [] None [].

Definition xstep (m : export_mode) (s : xstate) (o : xop) : xstate :=
  match o with
  | XEmit e k =>
      let '(c', l, _) := emit (x_ctrs s) e k in
      mkX c' (x_emitted s ++ l) (x_memo s) (x_snaps s)
  | XExport e =>
      let cur := (e, get_ctr e (x_ctrs s)) in
      let given := match m, x_memo s with
                   | Memo, Some old => old
                   | _, _ => cur
                   end in
      let memo' := match x_memo s with Some old => Some old | None => Some cur end in
      mkX (x_ctrs s) (x_emitted s) memo' (x_snaps s ++ [(fst given, snd given, x_emitted s)])
  end.

Definition xrun (m : export_mode) (s : xstate) (ops : list xop) : xstate := fold_left (xstep m) ops s.

(* import: the fresh connection knows the counter of the exported local epoch only *)
Definition ximport (e n : N) : counters := [(e, n)].

(* what the imported connection emits *)
Definition xafter (e n : N) (ops : list sop) : list (N * N) := snd (srun (ximport e n) ops).

(* operations an imported connection performs in this model: emissions at the imported epoch *)
Definition emits_at (e : N) (ops : list sop) : Prop :=
  forall o, In o ops -> match o with SExportImport _ => False | SEmit e' _ => e' = e end.
