(* Harness-facing evaluation of Rec/SendExport.v (C09 export leg). *)
From DtlsV Require Import Lib.Bytes Rec.WindowRun Rec.Send Rec.SendRun Rec.SendExport.
Open Scope N_scope.

(* a case: every record of the exporting connection in emission order; per import the number of
   records emitted at its export moment, the local epoch, and the records the imported connection
   emitted (imports sorted by export moment) *)
Definition c09x_case := (list (N * N) * list (nat * N * list (N * N)))%type.

Fixpoint pop_exports (i : nat) (exps : list (nat * N * list (N * N)))
  : list xop * list (nat * N * list (N * N)) :=
  match exps with
  | (p, e, r) :: t =>
      if Nat.leb p i then let '(o, t') := pop_exports i t in (XExport e :: o, t') else ([], exps)
  | [] => ([], [])
  end.

(* the history: one XEmit per observed record, an XExport where each export was made *)
Fixpoint weave (i : nat) (orig : list (N * N)) (exps : list (nat * N * list (N * N))) : list xop :=
  let '(o, r) := pop_exports i exps in
  match orig with
  | [] => o ++ map (fun x => XExport (snd (fst x))) r
  | x :: t => o ++ XEmit (fst x) 1 :: weave (S i) t r
  end.

Fixpoint imports_ok (orig : list (N * N)) (snaps : list snapshot) (exps : list (nat * N * list (N * N))) : bool :=
  match snaps, exps with
  | [], [] => true
  | (e, n, pre) :: snaps', (p, e', recs) :: exps' =>
      (e =? e') && recs_eqb pre (firstn p orig) &&
      recs_eqb (xafter e n (ops_of recs)) recs && imports_ok orig snaps' exps'
  | _, _ => false
  end.

Definition c09x_ok (c : c09x_case) : bool :=
  let '(orig, exps) := c in
  let s := xrun Fresh xinit (weave 0 orig exps) in
  recs_eqb (x_emitted s) orig && imports_ok orig (x_snaps s) exps.

(* the same evaluation for the memoising variant (used to show that the leg separates the two) *)
Definition c09x_ok_memo (c : c09x_case) : bool :=
  let '(orig, exps) := c in
  let s := xrun Memo xinit (weave 0 orig exps) in
  recs_eqb (x_emitted s) orig && imports_ok orig (x_snaps s) exps.

Example c09x_example :
  c09x_ok ([(0,0); (1,0); (1,1); (1,2)], [(2%nat, 1, [(1,1); (1,2)]); (4%nat, 1, [(1,3)])]) = true /\
  c09x_ok_memo ([(0,0); (1,0); (1,1); (1,2)], [(2%nat, 1, [(1,1); (1,2)]); (4%nat, 1, [(1,3)])]) = false.
Proof. vm_compute. split; reflexivity. Qed.
