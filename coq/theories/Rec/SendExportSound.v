(* Proofs about Rec/SendExport.v: whatever the history of emissions and exports of a connection,
   a connection imported from ANY of its exported states emits only record numbers above everything
   the exporting connection had emitted at that export moment (Fresh = the code as it stands);
   refuted for the memoising variant. *)
From DtlsV Require Import Lib.Bytes Rec.Send Rec.SendSound Rec.SendExport.
From Coq Require Import ZifyN ZifyNat ZifyBool.
Open Scope N_scope.

Definition at_epoch (e : N) (l : list (N * N)) : list (N * N) := filter (fun r => fst r =? e) l.

Lemma in_at_epoch e a l : In (e, a) l -> In (e, a) (at_epoch e l).
Proof. intro H. apply filter_In. split; [exact H|]. cbn. lia. Qed.

Lemma incr_app_lt l1 : forall l2 e a b,
  incr_per_epoch (l1 ++ l2) -> In (e, a) l1 -> In (e, b) l2 -> a < b.
Proof.
  induction l1 as [|[e1 n1] l1 IH]; intros l2 e a b Hi Ha Hb; [destruct Ha|].
  cbn [app incr_per_epoch] in Hi. destruct Hi as [Hh Ht]. destruct Ha as [Ha | Ha].
  - inversion Ha; subst. apply Hh. apply in_or_app. now right.
  - now apply (IH l2 e a b).
Qed.

(* one emission keeps the history invariant (all epochs) *)
Lemma emit_keeps c e k l0 :
  below c l0 -> incr_per_epoch l0 ->
  let '(c1, l1, _) := emit c e k in below c1 (l0 ++ l1) /\ incr_per_epoch (l0 ++ l1).
Proof.
  intros Hb Hi. pose proof (emit_spec k c e) as Hs.
  destruct (emit c e k) as [[c1 l1] ok]. destruct Hs as (Ho & Hle & Hin & Hinc & _ & _). split.
  - intros e2 n H. apply in_app_or in H. destruct H as [H | H].
    + destruct (Hb _ _ H) as [H1 H2]. split; [|exact H2].
      destruct (N.eq_dec e2 e) as [-> | Hne]; [lia | now rewrite (Ho e2 Hne)].
    + destruct (Hin _ _ H) as (-> & _ & H1 & H2). auto.
  - apply incr_app; auto. intros e2 n m Hn Hm.
    destruct (Hin _ _ Hm) as (-> & H1 & _). destruct (Hb _ _ Hn) as [H2 _]. lia.
Qed.

(* an imported connection: only the numbers of epoch e in the history need to be below its counter *)
Lemma continue_from e : forall ops c l0,
  below c (at_epoch e l0) -> incr_per_epoch l0 -> emits_at e ops ->
  let '(c', l) := srun c ops in below c' (at_epoch e (l0 ++ l)) /\ incr_per_epoch (l0 ++ l).
Proof.
  induction ops as [|o ops IH]; intros c l0 Hb Hi Hno.
  - cbn. rewrite app_nil_r. auto.
  - cbn [srun]. destruct o as [e' k | e']; [|exfalso; apply (Hno (SExportImport e')); now left].
    assert (e' = e) by (apply (Hno (SEmit e' k)); now left). subst e'.
    cbn [sstep]. pose proof (emit_spec k c e) as Hs.
    destruct (emit c e k) as [[c1 l1] ok]. destruct Hs as (Ho & Hle & Hin & Hinc & _ & _).
    assert (Hb1 : below c1 (at_epoch e (l0 ++ l1))).
    { intros e2 n H. apply filter_In in H. destruct H as [H He]. cbn in He.
      assert (e2 = e) by lia. subst e2.
      apply in_app_or in H. destruct H as [H | H].
      - destruct (Hb _ _ (in_at_epoch _ _ _ H)) as [Hx Hy]. split; [lia|exact Hy].
      - destruct (Hin _ _ H) as (_ & _ & Hx & Hy). auto. }
    assert (Hi1 : incr_per_epoch (l0 ++ l1)).
    { apply incr_app; auto. intros e2 n m Hn Hm. destruct (Hin _ _ Hm) as (-> & Hx & _).
      destruct (Hb _ _ (in_at_epoch _ _ _ Hn)) as [Hy _]. lia. }
    specialize (IH c1 (l0 ++ l1) Hb1 Hi1 (fun o H => Hno o (or_intror H))).
    destruct (srun c1 ops) as [c2 l2]. now rewrite app_assoc.
Qed.

(* a snapshot is good when its counter is above every number of its epoch emitted before it *)
Definition snap_ok (s : snapshot) : Prop :=
  let '(e, n, pre) := s in incr_per_epoch pre /\ forall a, In (e, a) pre -> a < n /\ a <= max_seq.

Definition xinv (s : xstate) : Prop :=
  below (x_ctrs s) (x_emitted s) /\ incr_per_epoch (x_emitted s) /\ Forall snap_ok (x_snaps s).

Lemma xinv_init : xinv xinit.
Proof. split; [intros e n []|]. split; [exact I|constructor]. Qed.

Lemma xstep_inv s o : xinv s -> xinv (xstep Fresh s o).
Proof.
  intros (Hb & Hi & Hs). destruct o as [e k | e]; cbn [xstep].
  - pose proof (emit_keeps (x_ctrs s) e k (x_emitted s) Hb Hi) as H.
    destruct (emit (x_ctrs s) e k) as [[c1 l1] ok]. destruct H as [H1 H2].
    split; [exact H1|]. split; [exact H2|exact Hs].
  - cbn [x_ctrs x_emitted x_snaps fst snd]. split; [exact Hb|]. split; [exact Hi|].
    apply Forall_app. split; [exact Hs|]. constructor; [|constructor].
    cbn [snap_ok]. split; [exact Hi|]. intros a Ha. now apply Hb.
Qed.

Lemma xrun_inv ops : forall s, xinv s -> xinv (xrun Fresh s ops).
Proof.
  induction ops as [|o ops IH]; intros s H; [exact H|]. cbn [xrun fold_left].
  apply IH. now apply xstep_inv.
Qed.

(* C09, export leg: every history of emissions and exports, every one of its exported states,
   every continuation of the imported connection *)
Theorem export_import_no_reuse ops e n pre opsI :
  In (e, n, pre) (x_snaps (xrun Fresh xinit ops)) -> emits_at e opsI ->
  let l2 := xafter e n opsI in
  NoDup (pre ++ l2) /\ incr_per_epoch (pre ++ l2) /\
  (forall a b, In (e, a) pre -> In (e, b) l2 -> a < b) /\
  (forall e' b, In (e', b) l2 -> e' = e /\ n <= b).
Proof.
  intros Hin Hops. destruct (xrun_inv ops xinit xinv_init) as (_ & _ & Hs).
  rewrite Forall_forall in Hs. specialize (Hs _ Hin). cbn [snap_ok] in Hs. destruct Hs as [Hpre Hlt].
  assert (Hb : below (ximport e n) (at_epoch e pre)).
  { intros e2 a H. apply filter_In in H. destruct H as [H He]. cbn in He.
    assert (e2 = e) by lia. subst e2. unfold ximport. cbn [get_ctr]. rewrite N.eqb_refl. now apply Hlt. }
  pose proof (continue_from e opsI (ximport e n) pre Hb Hpre Hops) as Hc.
  unfold xafter. cbn zeta.
  (* lower bound on what the imported connection emits *)
  assert (Hlow : forall ops c, emits_at e ops ->
            forall e' b, In (e', b) (snd (srun c ops)) -> e' = e /\ get_ctr e c <= b).
  { clear. induction ops as [|o ops IH]; intros c Hno e' b Hb; [destruct Hb|].
    cbn [srun] in Hb. destruct o as [e1 k | e1]; [|exfalso; apply (Hno (SExportImport e1)); now left].
    assert (e1 = e) by (apply (Hno (SEmit e1 k)); now left). subst e1.
    cbn [sstep] in Hb. pose proof (emit_spec k c e) as Hs.
    destruct (emit c e k) as [[c1 l1] ok]. destruct Hs as (_ & Hle & Hin & _).
    specialize (IH c1 (fun o H => Hno o (or_intror H)) e' b).
    destruct (srun c1 ops) as [c2 l2]. cbn [snd] in *. apply in_app_or in Hb. destruct Hb as [Hb | Hb].
    - destruct (Hin _ _ Hb) as (-> & Hx & _). split; [reflexivity|exact Hx].
    - destruct (IH Hb) as [-> Hx]. split; [reflexivity|lia]. }
  pose proof (Hlow opsI (ximport e n) Hops) as Hl.
  destruct (srun (ximport e n) opsI) as [c2 l2]. cbn [snd] in *. destruct Hc as [_ Hinc].
  split; [now apply incr_nodup|]. split; [exact Hinc|]. split.
  - intros a b Ha Hb2. now apply (incr_app_lt pre l2 e a b).
  - intros e' b Hb2. destruct (Hl e' b Hb2) as [-> Hx]. split; [reflexivity|].
    unfold ximport in Hx. cbn [get_ctr] in Hx. now rewrite N.eqb_refl in Hx.
Qed.

(* the ghost list of a snapshot is exactly what had been emitted when that export was made, and in
   Fresh mode its counter is the counter of that moment *)
Lemma xrun_snoc m ops o s : xrun m s (ops ++ [o]) = xstep m (xrun m s ops) o.
Proof. unfold xrun. now rewrite fold_left_app. Qed.

Theorem snapshot_is_export_moment m ops : forall e n pre,
  In (e, n, pre) (x_snaps (xrun m xinit ops)) ->
  exists ops1 e' ops2, ops = ops1 ++ XExport e' :: ops2 /\
    pre = x_emitted (xrun m xinit ops1) /\
    (m = Fresh -> e' = e /\ n = get_ctr e (x_ctrs (xrun m xinit ops1))).
Proof.
  induction ops as [|o ops IH] using rev_ind; intros e n pre Hin; [destruct Hin|].
  rewrite xrun_snoc in Hin. destruct o as [e1 k | e1]; cbn [xstep] in Hin.
  - destruct (emit (x_ctrs (xrun m xinit ops)) e1 k) as [[c1 l1] ok]. cbn [x_snaps] in Hin.
    destruct (IH _ _ _ Hin) as (o1 & e' & o2 & -> & Hp & Hf).
    exists o1, e', (o2 ++ [XEmit e1 k]). split; [now rewrite <- app_assoc|]. split; assumption.
  - cbn [x_snaps] in Hin. apply in_app_or in Hin. destruct Hin as [Hin | Hin].
    + destruct (IH _ _ _ Hin) as (o1 & e' & o2 & -> & Hp & Hf).
      exists o1, e', (o2 ++ [XExport e1]). split; [now rewrite <- app_assoc|]. split; assumption.
    + destruct Hin as [Hin | []]. exists ops, e1, []. split; [reflexivity|].
      inversion Hin; subst. split; [reflexivity|]. intros ->. cbn. split; reflexivity.
Qed.

(* the memoising variant: the second export hands out the first counter, the imported connection
   re-emits a record number the exporting connection had already used *)
Theorem export_import_no_reuse_refuted :
  exists ops e n pre opsI,
    In (e, n, pre) (x_snaps (xrun Memo xinit ops)) /\ emits_at e opsI /\
    exists a, In (e, a) pre /\ In (e, a) (xafter e n opsI).
Proof.
  exists [XEmit 1 1; XExport 1; XEmit 1 3; XExport 1], 1, 1, [(1,0); (1,1); (1,2); (1,3)], [SEmit 1 1].
  split; [vm_compute; right; left; reflexivity|].
  split.
  - intros o [<- | []]. reflexivity.
  - exists 1. split; [vm_compute; right; left; reflexivity|vm_compute; left; reflexivity].
Qed.
