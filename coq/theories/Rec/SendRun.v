(* Harness-facing evaluation of the send-side counter model (C09 correspondence). *)
From DtlsV Require Import Lib.Bytes Rec.WindowRun Rec.Send.
Open Scope N_scope.

Fixpoint recs_eqb (a b : list (N * N)) : bool :=
  match a, b with
  | [], [] => true
  | (e1, n1) :: a', (e2, n2) :: b' => (e1 =? e2) && (n1 =? n2) && recs_eqb a' b'
  | _, _ => false
  end.

(* a case: the records one sender put on the wire in emission order, as (epoch, seq), split at
   the export/import point (import epoch; second list empty when there was none), and an optional
   preset of a counter (wrap leg): (epoch, value) *)
Definition c09_case := (list (N * N) * N * list (N * N) * list (N * N))%type.

Definition ops_of (recs : list (N * N)) : list sop := map (fun r => SEmit (fst r) 1) recs.

Definition c09_ok (c : c09_case) : bool :=
  let '(before, imp, after, preset) := c in
  let c0 := fold_left (fun c p => set_ctr (fst p) (snd p) c) preset [] in
  let '(c1, l1) := srun c0 (ops_of before) in
  let '(c2, l2) := match after with
                   | [] => (c1, [])
                   | _ => srun (fst (sstep c1 (SExportImport imp))) (ops_of after)
                   end in
  recs_eqb l1 before && recs_eqb l2 after.

(* wrap leg: from a counter value, how many of k single-record writes succeed *)
Definition wrap_ok_count (base : N) (k : nat) : nat :=
  let '(_, l, _) := emit (set_ctr 1 base []) 1 k in length l.
