(* Proofs: every emitted (epoch, sequence number) is unique, per-epoch strictly increasing in
   emission order, below 2^48; export/import continues without overlap. *)
From DtlsV Require Import Lib.Bytes Rec.Send.
From Coq Require Import ZifyN ZifyNat ZifyBool.
Open Scope N_scope.

Lemma get_set_ctr_same e n c : get_ctr e (set_ctr e n c) = n.
Proof.
  induction c as [|[e' n'] c IH]; cbn [set_ctr get_ctr].
  - now rewrite N.eqb_refl.
  - destruct (e =? e') eqn:E; cbn [get_ctr]; rewrite ?N.eqb_refl; [reflexivity|]. now rewrite E.
Qed.

Lemma get_set_ctr_other e e2 n c : e2 <> e -> get_ctr e2 (set_ctr e n c) = get_ctr e2 c.
Proof.
  intro H. induction c as [|[e' n'] c IH]; cbn [set_ctr get_ctr].
  - destruct (e2 =? e) eqn:E; [lia|reflexivity].
  - destruct (e =? e') eqn:E; cbn [get_ctr].
    + assert (e = e') by lia. subst. destruct (e2 =? e') eqn:E2; [lia|reflexivity].
    + destruct (e2 =? e'); [reflexivity|exact IH].
Qed.

(* every record number in l is below the counter of its epoch, and within each epoch the numbers
   are strictly increasing in list order *)
Definition below (c : counters) (l : list (N * N)) : Prop :=
  forall e n, In (e, n) l -> n < get_ctr e c /\ n <= max_seq.

Fixpoint incr_per_epoch (l : list (N * N)) : Prop :=
  match l with
  | [] => True
  | (e, n) :: l' => (forall m, In (e, m) l' -> n < m) /\ incr_per_epoch l'
  end.

Lemma incr_app l1 l2 : incr_per_epoch l1 -> incr_per_epoch l2 ->
  (forall e n m, In (e, n) l1 -> In (e, m) l2 -> n < m) -> incr_per_epoch (l1 ++ l2).
Proof.
  induction l1 as [|[e n] l1 IH]; intros H1 H2 H12; [exact H2|].
  cbn [app incr_per_epoch] in *. destruct H1 as [Ha Hb]. split.
  - intros m Hm. apply in_app_or in Hm. destruct Hm as [Hm | Hm]; [now apply Ha|].
    apply (H12 e n m); [now left|exact Hm].
  - apply IH; auto. intros e' n' m' Hn Hm. apply (H12 e' n' m'); [now right|exact Hm].
Qed.

Lemma incr_nodup l : incr_per_epoch l -> NoDup l.
Proof.
  induction l as [|[e n] l IH]; intro H; [constructor|].
  cbn in H. destruct H as [Ha Hb]. constructor; [|now apply IH].
  intro Hin. specialize (Ha n Hin). lia.
Qed.

Lemma emit_spec k : forall c e,
  let '(c', l, ok) := emit c e k in
  (forall e2, e2 <> e -> get_ctr e2 c' = get_ctr e2 c) /\
  get_ctr e c <= get_ctr e c' /\
  (forall e2 n, In (e2, n) l -> e2 = e /\ get_ctr e c <= n /\ n < get_ctr e c' /\ n <= max_seq) /\
  incr_per_epoch l /\
  (ok = true -> length l = k) /\ (ok = false -> max_seq < get_ctr e c').
Proof.
  induction k as [|k IH]; intros c e; cbn [emit].
  - split; [reflexivity|]. split; [lia|]. split; [intros e2 n []|]. split; [exact I|].
    split; [reflexivity|discriminate].
  - unfold alloc. destruct (max_seq <? get_ctr e c) eqn:E.
    + split; [intros e2 H; now apply get_set_ctr_other|].
      split; [rewrite get_set_ctr_same; lia|].
      split; [intros e2 n []|]. split; [exact I|].
      split; [discriminate|]. intros _. rewrite get_set_ctr_same. lia.
    + specialize (IH (set_ctr e (get_ctr e c + 1) c) e).
      destruct (emit (set_ctr e (get_ctr e c + 1) c) e k) as [[c2 l] ok].
      rewrite get_set_ctr_same in IH.
      destruct IH as (Ho & Hle & Hin & Hinc & Hok & Hfail).
      split; [intros e2 H; rewrite (Ho e2 H); now apply get_set_ctr_other|].
      split; [lia|].
      split.
      { intros e2 n [H | H].
        - inversion H; subst. repeat split; lia.
        - destruct (Hin _ _ H) as (H1 & H2 & H3 & H4). repeat split; auto; lia. }
      split.
      { cbn [incr_per_epoch]. split; [|exact Hinc].
        intros m Hm. destruct (Hin _ _ Hm) as (_ & H1 & _). lia. }
      split; [intro H; cbn [length]; now rewrite (Hok H)|exact Hfail].
Qed.

(* the invariant carried over histories *)
Lemma srun_inv : forall ops c l0,
  below c l0 -> incr_per_epoch l0 ->
  (forall o, In o ops -> match o with SExportImport _ => False | _ => True end) ->
  let '(c', l) := srun c ops in below c' (l0 ++ l) /\ incr_per_epoch (l0 ++ l).
Proof.
  induction ops as [|o ops IH]; intros c l0 Hb Hi Hno.
  - cbn. rewrite app_nil_r. auto.
  - cbn [srun]. destruct o as [e k | e]; [|exfalso; apply (Hno (SExportImport e)); now left].
    cbn [sstep]. pose proof (emit_spec k c e) as Hs.
    destruct (emit c e k) as [[c1 l1] ok].
    destruct Hs as (Ho & Hle & Hin & Hinc & _ & _).
    assert (Hb1 : below c1 (l0 ++ l1)).
    { intros e2 n H. apply in_app_or in H. destruct H as [H | H].
      - destruct (Hb _ _ H) as [H1 H2]. split; [|exact H2].
        destruct (N.eq_dec e2 e) as [-> | Hne]; [lia | now rewrite (Ho e2 Hne)].
      - destruct (Hin _ _ H) as (-> & _ & H1 & H2). auto. }
    assert (Hi1 : incr_per_epoch (l0 ++ l1)).
    { apply incr_app; auto. intros e2 n m Hn Hm.
      destruct (Hin _ _ Hm) as (-> & H1 & _). destruct (Hb _ _ Hn) as [H2 _]. lia. }
    specialize (IH c1 (l0 ++ l1) Hb1 Hi1 (fun o H => Hno o (or_intror H))).
    destruct (srun c1 ops) as [c2 l2]. now rewrite app_assoc.
Qed.

(* C09: within a session (no export/import) every emitted record number is unique, numbers of one
   epoch strictly increase in emission order and never reach 2^48 *)
Theorem emit_unique ops :
  (forall o, In o ops -> match o with SExportImport _ => False | _ => True end) ->
  let l := snd (srun [] ops) in
  NoDup l /\ incr_per_epoch l /\ (forall e n, In (e, n) l -> n <= max_seq).
Proof.
  intro Hno. pose proof (srun_inv ops [] [] (fun e n H => match H with end) I Hno) as H.
  destruct (srun [] ops) as [c l]. cbn [snd app] in *. destruct H as [Hb Hi].
  split; [now apply incr_nodup|]. split; [exact Hi|]. intros e n Hin. now apply (Hb e n).
Qed.

(* a write fails rather than wrap: once the counter of an epoch passed 2^48-1 nothing more is emitted *)
Theorem no_wrap c e k : max_seq < get_ctr e c -> emit c e (S k) = (set_ctr e (get_ctr e c + 1) c, [], false).
Proof. intro H. cbn [emit]. unfold alloc. destruct (max_seq <? get_ctr e c) eqn:E; [reflexivity|lia]. Qed.

(* export/import at local epoch e keeps that epoch's counter: what is emitted at epoch e after the
   import does not overlap with anything emitted before the export *)
Theorem export_import_continues ops1 ops2 e :
  (forall o, In o ops1 -> match o with SExportImport _ => False | _ => True end) ->
  (forall o, In o ops2 -> match o with SExportImport _ => False | SEmit e' _ => e' = e end) ->
  let '(c1, l1) := srun [] ops1 in
  let '(c2, l2) := srun (fst (sstep c1 (SExportImport e))) ops2 in
  NoDup (l1 ++ l2) /\ incr_per_epoch (l1 ++ l2).
Proof.
  intros H1 H2.
  pose proof (srun_inv ops1 [] [] (fun e n H => match H with end) I H1) as Ha.
  destruct (srun [] ops1) as [c1 l1]. cbn [app] in Ha. destruct Ha as [Hb Hi].
  cbn [sstep fst].
  (* after import: only epoch e's counter survives, with the same value *)
  assert (Hb' : below [(e, get_ctr e c1)] (filter (fun r => fst r =? e) l1)).
  { intros e2 n Hin. apply filter_In in Hin. destruct Hin as [Hin He]. cbn in He.
    assert (e2 = e) by lia. subst e2. cbn [get_ctr]. rewrite N.eqb_refl. now apply Hb. }
  (* run ops2 with the full l1 as history: numbers at epoch e continue above everything in l1 *)
  assert (Hgen : forall ops c l0, below c (filter (fun r => fst r =? e) l0) -> incr_per_epoch l0 ->
     (forall o, In o ops -> match o with SExportImport _ => False | SEmit e' _ => e' = e end) ->
     let '(c', l) := srun c ops in
     below c' (filter (fun r => fst r =? e) (l0 ++ l)) /\ incr_per_epoch (l0 ++ l)).
  { clear. induction ops as [|o ops IH]; intros c l0 Hb Hi Hno.
    - cbn. rewrite app_nil_r. auto.
    - cbn [srun]. destruct o as [e' k | e']; [|exfalso; apply (Hno (SExportImport e')); now left].
      assert (e' = e) by (apply (Hno (SEmit e' k)); now left). subst e'.
      cbn [sstep]. pose proof (emit_spec k c e) as Hs.
      destruct (emit c e k) as [[c1 l1] ok]. destruct Hs as (Ho & Hle & Hin & Hinc & _ & _).
      assert (Hb1 : below c1 (filter (fun r => fst r =? e) (l0 ++ l1))).
      { intros e2 n H. apply filter_In in H. destruct H as [H He]. cbn in He.
        assert (e2 = e) by lia. subst e2.
        apply in_app_or in H. destruct H as [H | H].
        - assert (Hf : In (e, n) (filter (fun r => fst r =? e) l0)) by (apply filter_In; split; auto).
          destruct (Hb _ _ Hf) as [Hx Hy]. split; [lia|exact Hy].
        - destruct (Hin _ _ H) as (_ & _ & Hx & Hy). auto. }
      assert (Hi1 : incr_per_epoch (l0 ++ l1)).
      { apply incr_app; auto. intros e2 n m Hn Hm. destruct (Hin _ _ Hm) as (-> & Hx & _).
        assert (Hf : In (e, n) (filter (fun r => fst r =? e) l0)).
        { apply filter_In; split; auto. cbn. lia. }
        destruct (Hb _ _ Hf) as [Hy _]. lia. }
      specialize (IH c1 (l0 ++ l1) Hb1 Hi1 (fun o H => Hno o (or_intror H))).
      destruct (srun c1 ops) as [c2 l2]. now rewrite app_assoc. }
  specialize (Hgen ops2 [(e, get_ctr e c1)] l1 Hb' Hi H2).
  destruct (srun [(e, get_ctr e c1)] ops2) as [c2 l2]. destruct Hgen as [_ Hinc].
  split; [now apply incr_nodup|exact Hinc].
Qed.
