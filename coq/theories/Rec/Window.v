(* Model of the sliding-window replay detector as used by conn.go
   (replaydetector.New(windowSize, maxSeq); Check then accept).
   Executable; no proofs here (see WindowSound.v). *)
From DtlsV Require Import Lib.Bytes.
Open Scope N_scope.

Record win := { latest : N; mask : list bool }.

Definition win_init (W : nat) : win := {| latest := 0; mask := repeat false W |}.

Definition bit (m : list bool) (d : N) : bool := nth (N.to_nat d) m false.

(* fixedBigInt.Lsh on an n-bit integer: bits shifted past the top are lost *)
Definition lsh (n : N) (m : list bool) : list bool :=
  let W := length m in
  if N.of_nat W <=? n then repeat false W
  else firstn W (repeat false (N.to_nat n) ++ m).

(* fixedBigInt.SetBit: ignored when the index is outside the integer *)
Definition setbit (d : N) (m : list bool) : list bool :=
  if d <? N.of_nat (length m)
  then firstn (N.to_nat d) m ++ true :: skipn (S (N.to_nat d)) m
  else m.

(* slidingWindowDetector.checkSeq *)
Definition check (maxseq : N) (s : win) (x : N) : bool :=
  if maxseq <? x then false
  else if x <=? latest s then
    if N.of_nat (length (mask s)) + x <=? latest s then false
    else negb (bit (mask s) (latest s - x))
  else true.

(* slidingWindowDetector.acceptSeq; returns (new state, "is latest") *)
Definition accept (maxseq : N) (s : win) (x : N) : win * bool :=
  let '(l, m, isl) :=
    if latest s <? x then (x, lsh (x - latest s) (mask s), true)
    else (latest s, mask s, x =? 0) in
  let diff := (l - x) mod maxseq in
  ({| latest := l; mask := setbit diff m |}, isl).

(* an arrival of sequence number x at the detector: Check, then (if ok) accept *)
Definition arrive (maxseq : N) (s : win) (x : N) : win * bool :=
  if check maxseq s x then (fst (accept maxseq s x), true) else (s, false).

(* run a whole arrival sequence, returning the list of accepted numbers (in order) *)
Fixpoint run (maxseq : N) (s : win) (xs : list N) : win * list N :=
  match xs with
  | [] => (s, [])
  | x :: xs' =>
      let '(s1, ok) := arrive maxseq s x in
      let '(s2, acc) := run maxseq s1 xs' in
      (s2, if ok then x :: acc else acc)
  end.

(* per-arrival verdicts, used by the correspondence check *)
Fixpoint verdicts (maxseq : N) (s : win) (xs : list N) : list (bool * bool) :=
  match xs with
  | [] => []
  | x :: xs' =>
      if check maxseq s x then
        let '(s1, isl) := accept maxseq s x in (true, isl) :: verdicts maxseq s1 xs'
      else (false, false) :: verdicts maxseq s xs'
  end.

(* Export and resume AS CODED (state.go / resume.go): the serialised state carries nothing about the
   receive side, so the resumed connection starts from an empty window for the same epoch and keys.
   [xs] arrive at the exporting connection, [ys] at the resumed one. *)
Definition run_resumed (maxseq : N) (W : nat) (xs ys : list N) : list N * list N :=
  (snd (run maxseq (win_init W) xs), snd (run maxseq (win_init W) ys)).

