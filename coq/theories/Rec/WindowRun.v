(* Executable comparison functions used by the C06 correspondence check
   (cases.v files written by the harness are evaluated with vm_compute). *)
From DtlsV Require Import Lib.Bytes Rec.Window.
Open Scope N_scope.

Fixpoint vb_eqb (a b : list (bool * bool)) : bool :=
  match a, b with
  | [], [] => true
  | (x1, x2) :: a', (y1, y2) :: b' => Bool.eqb x1 y1 && Bool.eqb x2 y2 && vb_eqb a' b'
  | _, _ => false
  end.

(* unit case: window size, max sequence number, arrivals, observed (ok, latest) *)
Definition unit_case := (nat * N * list N * list (bool * bool))%type.
Definition unit_ok (c : unit_case) : bool :=
  let '(W, maxseq, xs, obs) := c in vb_eqb (verdicts maxseq (win_init W) xs) obs.

(* e2e case: window, numbers already consumed in the handshake, arrivals (sequence numbers
   in arrival order), observed "a payload was delivered by Read for this arrival" *)
Definition e2e_case := (nat * list N * list N * list bool)%type.
(* config.go effectiveReplayProtectionWindow: rounded up to whole 64-bit words *)
Definition eff_window (W : nat) : nat := ((W + 63) / 64 * 64)%nat.

Definition e2e_ok (c : e2e_case) : bool :=
  let '(W0, pre, arr, obs) := c in
  let W := eff_window W0 in
  let maxseq := 281474976710655 in
  let s := fst (run maxseq (win_init W) pre) in
  let v := map fst (verdicts maxseq s arr) in
  if list_eq_dec Bool.bool_dec v obs then true else false.

Fixpoint mismatches_from {A} (ok : A -> bool) (i : N) (l : list A) : list N :=
  match l with
  | [] => []
  | c :: l' => if ok c then mismatches_from ok (i + 1) l' else i :: mismatches_from ok (i + 1) l'
  end.
Definition mismatches {A} (ok : A -> bool) (l : list A) : list N := mismatches_from ok 0 l.

(* several epochs (DTLS 1.3 key updates): one window per epoch *)
Fixpoint get_w (W : nat) (e : N) (ws : list (N * win)) : win :=
  match ws with [] => win_init W | (e', w) :: ws' => if e =? e' then w else get_w W e ws' end.
Fixpoint set_w (e : N) (w : win) (ws : list (N * win)) : list (N * win) :=
  match ws with
  | [] => [(e, w)]
  | (e', w') :: ws' => if e =? e' then (e, w) :: ws' else (e', w') :: set_w e w ws'
  end.
Fixpoint verdicts_ep (W : nat) (maxseq : N) (ws : list (N * win)) (xs : list (N * N)) : list bool :=
  match xs with
  | [] => []
  | (e, q) :: xs' =>
      let w := get_w W e ws in
      if check maxseq w q
      then true :: verdicts_ep W maxseq (set_w e (fst (accept maxseq w q)) ws) xs'
      else false :: verdicts_ep W maxseq ws xs'
  end.
Fixpoint preload (W : nat) (maxseq : N) (ws : list (N * win)) (xs : list (N * N)) : list (N * win) :=
  match xs with
  | [] => ws
  | (e, q) :: xs' =>
      let w := get_w W e ws in
      preload W maxseq (if check maxseq w q then set_w e (fst (accept maxseq w q)) ws else ws) xs'
  end.
Definition e2e_ep_case := (nat * list (N * N) * list (N * N) * list bool)%type.
Definition e2e_ep_ok (c : e2e_ep_case) : bool :=
  let '(W0, pre, arr, obs) := c in
  let W := eff_window W0 in
  let maxseq := 18446744073709551615 in
  let v := verdicts_ep W maxseq (preload W maxseq [] pre) arr in
  if list_eq_dec Bool.bool_dec v obs then true else false.
