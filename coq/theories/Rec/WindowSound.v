(* Proofs about the sliding-window replay detector model:
   refinement to "set of accepted numbers", exactly-once, window tolerance. *)
From DtlsV Require Import Lib.Bytes Rec.Window Rec.WindowRun.
From Coq Require Import ZifyN ZifyNat ZifyBool.
Open Scope N_scope.

(* ---------- bit-level lemmas ---------- *)

Lemma length_lsh n m : length (lsh n m) = length m.
Proof.
  unfold lsh. destruct (N.of_nat (length m) <=? n) eqn:E.
  - apply repeat_length.
  - rewrite firstn_length, app_length, repeat_length. lia.
Qed.

Lemma length_setbit d m : length (setbit d m) = length m.
Proof.
  unfold setbit. destruct (d <? N.of_nat (length m)) eqn:E; [|reflexivity].
  rewrite app_length. cbn [length]. rewrite firstn_length, skipn_length. lia.
Qed.

Lemma nth_repeat_false k i : nth i (repeat false k) false = false.
Proof. revert i; induction k as [|k IH]; intros [|i]; cbn; auto. Qed.

Lemma bit_out m d : N.of_nat (length m) <= d -> bit m d = false.
Proof. intro H. unfold bit. apply nth_overflow. lia. Qed.

Lemma nth_firstn_lt (A : Type) (l : list A) (k i : nat) (dflt : A) :
  (i < k)%nat -> nth i (firstn k l) dflt = nth i l dflt.
Proof.
  revert k i; induction l as [|a l IH]; intros k i H.
  - rewrite firstn_nil. reflexivity.
  - destruct k as [|k]; [lia|]. destruct i as [|i]; cbn; [reflexivity|]. apply IH. lia.
Qed.

Lemma nth_skipn_add (A : Type) (l : list A) (k i : nat) (dflt : A) :
  nth i (skipn k l) dflt = nth (k + i) l dflt.
Proof.
  revert k; induction l as [|a l IH]; intro k.
  - rewrite skipn_nil. destruct i, k; reflexivity.
  - destruct k as [|k]; [reflexivity|]. cbn [skipn plus nth]. apply IH.
Qed.

Lemma bit_lsh n m d : d < N.of_nat (length m) ->
  bit (lsh n m) d = if d <? n then false else bit m (d - n).
Proof.
  intro Hd. unfold lsh, bit.
  destruct (N.of_nat (length m) <=? n) eqn:E.
  - rewrite nth_repeat_false. destruct (d <? n) eqn:E2; [reflexivity|]. lia.
  - rewrite nth_firstn_lt by lia.
    destruct (d <? n) eqn:E2.
    + rewrite app_nth1 by (rewrite repeat_length; lia). apply nth_repeat_false.
    + rewrite app_nth2 by (rewrite repeat_length; lia). rewrite repeat_length.
      f_equal. lia.
Qed.

Lemma bit_setbit d m e :
  bit (setbit d m) e = ((e =? d) && (d <? N.of_nat (length m))) || bit m e.
Proof.
  unfold setbit, bit.
  destruct (d <? N.of_nat (length m)) eqn:E.
  - rewrite andb_true_r.
    assert (Hl : length (firstn (N.to_nat d) m) = N.to_nat d) by (rewrite firstn_length; lia).
    destruct (e =? d) eqn:E2.
    + assert (e = d) by lia. subst e.
      rewrite app_nth2 by lia. rewrite Hl, Nat.sub_diag. reflexivity.
    + cbn [orb]. destruct (N.ltb_spec e d) as [Hlt|Hge].
      * rewrite app_nth1 by lia. apply nth_firstn_lt. lia.
      * rewrite app_nth2 by lia. rewrite Hl.
        destruct (N.to_nat e - N.to_nat d)%nat as [|k] eqn:Ek; [lia|].
        cbn [nth]. rewrite nth_skipn_add. f_equal. lia.
  - rewrite andb_false_r. reflexivity.
Qed.

(* ---------- refinement invariant ---------- *)

(* S is the (ghost) list of numbers accepted so far *)
Definition Inv (W : nat) (s : win) (S : list N) : Prop :=
  length (mask s) = W /\
  (forall d, d < N.of_nat W -> (bit (mask s) d = true <-> d <= latest s /\ In (latest s - d) S)) /\
  (forall x, In x S -> x <= latest s) /\
  (0 < latest s -> In (latest s) S).

Lemma inv_init W : Inv W (win_init W) [].
Proof.
  unfold Inv, win_init; cbn [latest mask].
  split; [apply repeat_length|].
  split; [intros d Hd; split;
          [intro H; unfold bit in H; rewrite nth_repeat_false in H; discriminate
          | intros [_ []]] |].
  split; [intros x [] | lia].
Qed.

Theorem check_spec W maxseq s S x : Inv W s S ->
  check maxseq s x = true <->
  x <= maxseq /\ (latest s < x \/ (latest s - x < N.of_nat W /\ ~ In x S)).
Proof.
  intros (Hlen & Hbit & Hle & _). unfold check. rewrite Hlen.
  destruct (maxseq <? x) eqn:E1; [split; [discriminate | lia]|].
  destruct (x <=? latest s) eqn:E2.
  - destruct (N.of_nat W + x <=? latest s) eqn:E3; [split; [discriminate | lia]|].
    assert (Hd : latest s - x < N.of_nat W) by lia.
    specialize (Hbit _ Hd).
    replace (latest s - (latest s - x)) with x in Hbit by lia.
    split.
    + intro Hn. apply negb_true_iff in Hn. split; [lia|]. right. split; [exact Hd|].
      intro Hin. assert (bit (mask s) (latest s - x) = true) by (apply Hbit; split; [lia|exact Hin]). congruence.
    + intros [_ [Hlt | [_ Hnin]]]; [lia|].
      apply negb_true_iff. destruct (bit (mask s) (latest s - x)) eqn:Eb; [|reflexivity].
      exfalso. apply Hnin. now apply Hbit.
  - split; [intros _; lia | reflexivity].
Qed.

Lemma accept_inv W maxseq s S x : (0 < maxseq) -> N.of_nat W <= maxseq -> Inv W s S -> check maxseq s x = true ->
  latest s <= maxseq ->
  Inv W (fst (accept maxseq s x)) (x :: S) /\ latest (fst (accept maxseq s x)) <= maxseq.
Proof.
  intros Hmax HW HI Hc Hlm.
  pose proof (proj1 (check_spec W maxseq s S x HI) Hc) as [Hxm Hcase].
  destruct HI as (Hlen & Hbit & Hle & Hlat).
  unfold accept.
  destruct (latest s <? x) eqn:E.
  - (* window head moves *)
    cbn [fst latest mask]. replace (x - x) with 0 by lia.
    rewrite N.mod_0_l by lia.
    split; [|lia].
    unfold Inv; cbn [latest mask].
    split; [now rewrite length_setbit, length_lsh|].
    split; [intros d H; split; [intro Hb; split|] |split].
    + rewrite bit_setbit, length_lsh, Hlen in Hb.
      destruct (d =? 0) eqn:Ed.
      * lia.
      * cbn [andb orb] in Hb. rewrite bit_lsh in Hb by (rewrite Hlen; lia).
        destruct (d <? x - latest s) eqn:E4; [discriminate|].
        assert (Hd' : d - (x - latest s) < N.of_nat W) by lia.
        apply (Hbit _ Hd') in Hb. lia.
    + rewrite bit_setbit, length_lsh, Hlen in Hb.
      destruct (d =? 0) eqn:Ed.
      * left. lia.
      * cbn [andb orb] in Hb. rewrite bit_lsh in Hb by (rewrite Hlen; lia).
        destruct (d <? x - latest s) eqn:E4; [discriminate|].
        assert (Hd' : d - (x - latest s) < N.of_nat W) by lia.
        apply (Hbit _ Hd') in Hb. destruct Hb as [Hb1 Hb2].
        right. replace (x - d) with (latest s - (d - (x - latest s))) by lia. exact Hb2.
    + intros [Hd1 Hin]. rewrite bit_setbit, length_lsh, Hlen.
      destruct (d =? 0) eqn:Ed.
      * assert (H0 : 0 <? N.of_nat W = true) by lia. replace d with 0 by lia. now rewrite H0.
      * cbn [andb orb]. rewrite bit_lsh by (rewrite Hlen; lia).
        destruct Hin as [Hin | Hin]; [lia|].
        pose proof (Hle _ Hin) as Hle1.
        destruct (d <? x - latest s) eqn:E4; [lia|].
        assert (Hd' : d - (x - latest s) < N.of_nat W) by lia.
        apply (Hbit _ Hd'). split; [lia|].
        replace (latest s - (d - (x - latest s))) with (x - d) by lia. exact Hin.
    + intros y [Hy | Hy]; [lia|]. specialize (Hle _ Hy). lia.
    + intros _. now left.
  - (* inside the window (or x = latest = 0 at the start) *)
    cbn [fst latest mask].
    destruct Hcase as [Hlt | [Hd Hnin]]; [lia|].
    assert (Hxl : x <= latest s) by lia.
    split; [|exact Hlm].
    assert (Hdiff : (latest s - x) mod maxseq = latest s - x \/
                    (latest s - x = maxseq /\ (latest s - x) mod maxseq = 0)).
    { destruct (N.eq_dec (latest s - x) maxseq) as [Heq | Hne].
      - right. split; [exact Heq|]. rewrite Heq. apply N.mod_same. lia.
      - left. apply N.mod_small. lia. }
    unfold Inv; cbn [latest mask].
    split; [now rewrite length_setbit|].
    split; [intros d H; split; [intro Hb; split|] |split].
    + rewrite bit_setbit, Hlen in Hb.
      apply orb_true_iff in Hb. destruct Hb as [Hb | Hb].
      * lia.
      * now apply (Hbit _ H).
    + rewrite bit_setbit, Hlen in Hb.
      apply orb_true_iff in Hb. destruct Hb as [Hb | Hb].
      * apply andb_prop in Hb. destruct Hb as [Hb1 Hb2].
        destruct Hdiff as [Hdf | [Hdf1 Hdf2]].
        -- left. rewrite Hdf in Hb1. lia.
        -- rewrite Hdf2 in Hb1. right. assert (d = 0) by lia. subst d.
           replace (latest s - 0) with (latest s) by lia. apply Hlat. lia.
      * right. now apply (Hbit _ H).
    + intros [Hd1 Hin]. rewrite bit_setbit, Hlen.
      apply orb_true_iff.
      destruct Hin as [Hin | Hin].
      * destruct Hdiff as [Hdf | [Hdf1 Hdf2]].
        -- left. rewrite Hdf. apply andb_true_intro. split; lia.
        -- (* x = 0, latest = maxseq, d = maxseq: but d < W and latest - x < W *) lia.
      * right. apply (Hbit _ H). split; assumption.
    + intros y [Hy | Hy]; [lia|]. now apply Hle.
    + intro Hpos. right. now apply Hlat.
Qed.

(* ---------- whole arrival sequences ---------- *)

(* state reached and ghost accepted-list after a prefix of arrivals *)
Lemma run_inv W maxseq : 0 < maxseq -> N.of_nat W <= maxseq -> forall xs s S,
  Inv W s S -> NoDup S -> latest s <= maxseq ->
  let '(s', acc) := run maxseq s xs in
  Inv W s' (rev acc ++ S) /\ latest s' <= maxseq /\ NoDup (rev acc ++ S).
Proof.
  intros Hmax HW. induction xs as [|x xs IH]; intros s S HI HS Hl.
  - cbn. auto.
  - cbn [run]. unfold arrive.
    destruct (check maxseq s x) eqn:Ec.
    + destruct (accept_inv W maxseq s S x Hmax HW HI Ec Hl) as [HI' Hl'].
      cbn [fst].
      assert (HS' : NoDup (x :: S)).
      { constructor; [|exact HS].
        apply (check_spec W maxseq s S x HI) in Ec. destruct Ec as [_ [Hlt | [_ Hn]]]; [|exact Hn].
        intro Hin. destruct HI as (_ & _ & Hle & _). specialize (Hle _ Hin). lia. }
      specialize (IH (fst (accept maxseq s x)) (x :: S) HI' HS' Hl').
      destruct (run maxseq (fst (accept maxseq s x)) xs) as [s2 acc].
      destruct IH as (H1 & H2 & H3).
      cbn [rev]. rewrite <- app_assoc. cbn [app]. auto.
    + specialize (IH s S HI HS Hl). destruct (run maxseq s xs) as [s2 acc]. exact IH.
Qed.

(* C06 core: whatever the arrival sequence, no number is accepted twice *)
Theorem run_nodup W maxseq xs : 0 < maxseq -> N.of_nat W <= maxseq ->
  NoDup (snd (run maxseq (win_init W) xs)).
Proof.
  intros Hmax HW.
  pose proof (run_inv W maxseq Hmax HW xs (win_init W) [] (inv_init W) (NoDup_nil N)) as H.
  cbn [win_init latest] in H. specialize (H ltac:(lia)).
  destruct (run maxseq (win_init W) xs) as [s acc]. cbn [snd].
  destruct H as (_ & _ & Hnd).
  rewrite app_nil_r in Hnd. apply NoDup_rev in Hnd. now rewrite rev_involutive in Hnd.
Qed.

Lemma run_accepted_subset maxseq xs : forall s x,
  In x (snd (run maxseq s xs)) -> In x xs.
Proof.
  induction xs as [|y xs IH]; intros s x H; [exact H|].
  cbn [run] in H. destruct (arrive maxseq s y) as [s1 ok].
  specialize (IH s1 x). destruct (run maxseq s1 xs) as [s2 acc]. cbn [snd] in *.
  destruct ok; [destruct H as [H | H]; [left; exact H | right; auto] | right; auto].
Qed.

Lemma run_app maxseq xs ys s :
  run maxseq s (xs ++ ys) =
  let '(s1, a1) := run maxseq s xs in
  let '(s2, a2) := run maxseq s1 ys in (s2, a1 ++ a2).
Proof.
  revert s; induction xs as [|x xs IH]; intro s.
  - cbn [app run]. destruct (run maxseq s ys); reflexivity.
  - cbn [app run]. destruct (arrive maxseq s x) as [s1 ok]. rewrite IH.
    destruct (run maxseq s1 xs) as [s2 a1]. destruct (run maxseq s2 ys) as [s3 a2].
    destruct ok; reflexivity.
Qed.

(* window tolerance: after any prefix, a number that was not yet accepted and lies fewer
   than W behind the newest accepted one (or ahead of it) is accepted when it arrives *)
Theorem window_tolerance W maxseq pre x : 0 < maxseq -> N.of_nat W <= maxseq -> x <= maxseq ->
  let '(s, acc) := run maxseq (win_init W) pre in
  ~ In x acc ->
  (latest s < x \/ latest s - x < N.of_nat W) ->
  snd (arrive maxseq s x) = true.
Proof.
  intros Hmax HW Hx.
  pose proof (run_inv W maxseq Hmax HW pre (win_init W) [] (inv_init W) (NoDup_nil N)) as H.
  cbn [win_init latest] in H. specialize (H ltac:(lia)).
  destruct (run maxseq (win_init W) pre) as [s acc].
  destruct H as (HI & _ & _).
  rewrite app_nil_r in HI.
  intros Hnin Hwin. unfold arrive.
  destruct (check maxseq s x) eqn:Ec; [reflexivity|].
  exfalso.
  assert (Hc : check maxseq s x = true).
  { apply (check_spec W maxseq s (rev acc) x HI). split; [exact Hx|].
    destruct Hwin as [Hw | Hw]; [left; exact Hw|].
    destruct (N.ltb_spec (latest s) x); [left; assumption|].
    right. split; [exact Hw|]. intro Hin. apply Hnin. now apply in_rev. }
  congruence.
Qed.

(* the newest accepted number is the window head *)
Lemma run_latest_max W maxseq xs : 0 < maxseq -> N.of_nat W <= maxseq ->
  let '(s, acc) := run maxseq (win_init W) xs in
  (forall y, In y acc -> y <= latest s) /\ (0 < latest s -> In (latest s) acc).
Proof.
  intros Hmax HW.
  pose proof (run_inv W maxseq Hmax HW xs (win_init W) [] (inv_init W) (NoDup_nil N)) as H.
  cbn [win_init latest] in H. specialize (H ltac:(lia)).
  destruct (run maxseq (win_init W) xs) as [s acc].
  destruct H as (HI & _ & _).
  rewrite app_nil_r in HI. destruct HI as (_ & _ & Hle & Hlat). split.
  - intros y Hy. apply Hle. now apply in_rev in Hy.
  - intro Hp. apply in_rev. now apply Hlat.
Qed.

Lemma eff_window_spec (W : nat) : (W <= eff_window W)%nat /\ (eff_window W mod 64 = 0)%nat.
Proof.
  unfold eff_window. split.
  - pose proof (Nat.div_mod (W + 63) 64 ltac:(lia)) as H.
    pose proof (Nat.mod_upper_bound (W + 63) 64 ltac:(lia)). lia.
  - apply Nat.mod_mul. lia.
Qed.

(* known finding F90: across an export/resume a number accepted before is accepted again *)
Theorem resume_forgets_window_refuted :
  exists (W : nat) (xs ys : list N) (x : N),
    In x (fst (run_resumed 281474976710655 W xs ys)) /\ In x (snd (run_resumed 281474976710655 W xs ys)).
Proof. exists 64%nat, [5], [5], 5. vm_compute. split; left; reflexivity. Qed.

(* ... while each of the two connections on its own still accepts no number twice *)
Theorem resumed_each_nodup W maxseq xs ys : 0 < maxseq -> N.of_nat W <= maxseq ->
  NoDup (fst (run_resumed maxseq W xs ys)) /\ NoDup (snd (run_resumed maxseq W xs ys)).
Proof. intros H1 H2. unfold run_resumed. cbn [fst snd]. split; apply run_nodup; assumption. Qed.

