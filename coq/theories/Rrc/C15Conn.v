(* C15 - model of the connection-level use of rrc.Manager:
   /repo/conn.go handleIncomingPacket (WrapReplayMarker + HandleCandidate call sites) and
   /repo/connection_id.go returnRoutabilityConn.{WriteRRC, HandleRecord, HandleCandidate},
   plus the DTLS 1.2 connection-ID admission test of decryptLegacyPacket and the CID wrapping
   decision of processPacket.  Definitions only; proofs in C15ConnSound.v.

   An [ERecord] event is a record for which prepareIncomingPacket returned ok: header parsed,
   replay Check passed, (epoch > 0) decrypted and connection ID admitted.  Its fields:
     r_from    source address of the datagram
     r_hascid  prepared.originalCID (the record was a tls12_cid / 1.3-CID record)
     r_latest  what the replay detector's accept() returns when the record is marked
     r_bytes   len(buf) of the record on the wire
     r_kind    the decoded content
     r_cookie  the cookie rrc.Start draws in this step if it starts a challenge (an input:
               the real one comes from crypto/rand)
     r_wsize   len(raw) of an RRC record produced by processPacket on this connection
     r_w       outcome of the writes of this step (WOk, processPacket error, network error)
     r_now     time.Now() during the step *)
From DtlsV Require Import Lib.Bytes Rrc.C15Manager.
Open Scope N_scope.

Inductive content :=
| KApp | KHandshake | KAck | KAlert
| KChallenge (c : N) | KResponse (c : N) | KDrop | KUnknown.

Inductive wres := WOk | WProcErr | WNetErr.

Inductive rrc_type := TChallenge | TResponse.

(* an RRC record for which Reserve succeeded; [o_cand] = destination was not the active
   address at that moment; [o_sent] = the network write succeeded *)
Record out := mkOut {
  o_type : rrc_type; o_dest : addr; o_size : N; o_cookie : N; o_cand : bool; o_sent : bool }.

Record cstate := mkC { raddr : addr; negotiated : bool; mgr : paths }.

Record recv := mkRecv {
  r_from : addr; r_hascid : bool; r_latest : bool; r_bytes : N; r_kind : content;
  r_cookie : N; r_wsize : N; r_w : wres; r_now : N }.

Inductive event :=
| ERecord (r : recv)
| ETimer (a : addr) (now : N)      (* one AfterFunc callback runs *)
| EPurge (now : N).                (* all due callbacks have run *)

Definition with_mgr (st : cstate) (m : paths) : cstate := mkC (raddr st) (negotiated st) m.

(* WriteRRC(ctx, addr, type, cookie): result (state, outputs, err == nil) *)
Definition write_rrc (st : cstate) (a : addr) (t : rrc_type) (cookie wsize now : N) (w : wres)
  : cstate * list out * bool :=
  if negb (negotiated st) then (st, [], false)
  else match w with
       | WProcErr => (st, [], false)
       | _ =>
           let '(m', ok) := reserve a (raddr st) wsize now (mgr st) in
           if ok then
             let sent := match w with WOk => true | _ => false end in
             (with_mgr st m', [mkOut t a wsize cookie (negb (a =? raddr st)) sent], sent)
           else (st, [], false)
       end.

(* HandleCandidate(ctx, enabled, hasCID, latest, addr) *)
Definition handle_candidate (st : cstate) (enabled hascid latest : bool) (a : addr)
           (cookie wsize now : N) (w : wres) : cstate * list out :=
  let '(m1, ok) := start (enabled && hascid && latest) a (raddr st) cookie now (mgr st) in
  let st1 := with_mgr st m1 in
  if ok then
    let '(st2, outs, wrote) := write_rrc st1 a TChallenge cookie wsize now w in
    if wrote then (st2, outs) else (with_mgr st2 (cancel a cookie now (mgr st2)), outs)
  else (st1, []).

(* the wrapped replay marker, called once: counts the record when RRC is negotiated *)
Definition mark (st : cstate) (r : recv) : cstate :=
  if negotiated st
  then with_mgr st (record_received (r_from r) (raddr st) (r_bytes r) (r_now r) (mgr st))
  else st.

(* handleIncomingPacket on an admitted record *)
Definition step_record (st : cstate) (r : recv) : cstate * list out :=
  let en := negotiated st in
  let cand st' latest :=
      handle_candidate st' en (r_hascid r) latest (r_from r) (r_cookie r) (r_wsize r) (r_now r) (r_w r) in
  match r_kind r with
  | KApp | KHandshake | KAck => cand (mark st r) (r_latest r)
  | KAlert => (mark st r, [])                 (* marked; the alert error skips HandleCandidate *)
  | KChallenge c =>
      if negb en then (st, [])                (* unexpected_message alert, not marked *)
      else
        let st1 := mark st r in
        let '(st2, outs1, _) := write_rrc st1 (r_from r) TResponse c (r_wsize r) (r_now r) (r_w r) in
        let '(st3, outs2) := cand st2 (r_latest r) in
        (st3, outs1 ++ outs2)
  | KResponse c =>
      if negb en then (st, [])
      else
        let st1 := mark st r in
        let '(m2, ok) := handle_response (r_from r) c (r_now r) (mgr st1) in
        let st2 := mkC (if ok then r_from r else raddr st1) (negotiated st1) m2 in
        cand st2 false
  | KDrop | KUnknown =>
      if negb en then (st, []) else cand (mark st r) false
  end.

Definition cstep (st : cstate) (e : event) : cstate * list out :=
  match e with
  | ERecord r => step_record st r
  | ETimer a now => (with_mgr st (timer_fire a now (mgr st)), [])
  | EPurge now => (with_mgr st (purge now (mgr st)), [])
  end.

Fixpoint crun (st : cstate) (evs : list event) : cstate :=
  match evs with
  | [] => st
  | e :: evs' => crun (fst (cstep st e)) evs'
  end.

Fixpoint couts (st : cstate) (evs : list event) : list out :=
  match evs with
  | [] => []
  | e :: evs' => snd (cstep st e) ++ couts (fst (cstep st e)) evs'
  end.

(* bytes of the records from [a] that were counted while [a] was not the active address
   (exact sum, no saturation) *)
Definition counted_from (a : addr) (st : cstate) (e : event) : N :=
  match e with
  | ERecord r =>
      (* every admitted record kind is marked exactly once when RRC is negotiated *)
      if negotiated st && (r_from r =? a) && negb (a =? raddr st) then r_bytes r else 0
  | _ => 0
  end.

Fixpoint received_from (a : addr) (st : cstate) (evs : list event) : N :=
  match evs with
  | [] => 0
  | e :: evs' => counted_from a st e + received_from a (fst (cstep st e)) evs'
  end.

(* bytes of RRC records addressed to [a] while [a] was not the active address *)
Fixpoint sent_cand (a : addr) (outs : list out) : N :=
  match outs with
  | [] => 0
  | o :: outs' => (if (o_dest o =? a) && o_cand o then o_size o else 0) + sent_cand a outs'
  end.

(* ---------------------------------------------------------------- connection IDs (DTLS 1.2) *)

Fixpoint bytes_eqb (x y : bytes) : bool :=
  match x, y with
  | [], [] => true
  | a :: x', b :: y' => (a =? b) && bytes_eqb x' y'
  | _, _ => false
  end.

(* decryptLegacyPacket: validateLegacyCIDPresence then validateLegacyCID.  [rc] is the connection
   ID field of the record header: None for an ordinary record, Some c for a tls12_cid record
   (parsed with the length of the local ID). *)
Definition record_admitted (local : bytes) (rc : option bytes) : bool :=
  match rc with
  | None => match local with [] => true | _ => false end
  | Some c => bytes_eqb local c
  end.

(* processPacket / ShouldWrapConnectionID: which connection ID a protected 1.2 record carries *)
Definition wrap_cid (remote : bytes) : option bytes :=
  match remote with [] => None | _ => Some remote end.
