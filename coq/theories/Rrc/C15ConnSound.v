(* C15 - proofs about the connection-level model (C15Conn.v), all over arbitrary event sequences:
   no_rrc_no_change, addr_changes_only_on_validated_response, conn_amplification,
   connection-ID admission facts. *)
From Coq Require Import ZifyN ZifyNat ZifyBool.
From DtlsV Require Import Lib.Bytes Rrc.C15Manager Rrc.C15ManagerSound Rrc.C15Conn.
Open Scope N_scope.

(* ================================================================ budget accounting *)

Definition cur_recv (a : addr) (s : paths) : N :=
  match pget a s with Some p => p_recv p | None => 0 end.
Definition cur_sent (a : addr) (s : paths) : N :=
  match pget a s with Some p => p_sent p | None => 0 end.

(* [D a s s' ds dr]: going from s to s' while sending ds and counting dr bytes for [a] keeps
   "sent so far - stored sent <= 3 * (counted so far - stored received)". *)
Definition D (a : addr) (s s' : paths) (ds dr : N) : Prop :=
  ds + cur_sent a s + 3 * cur_recv a s' <= 3 * dr + 3 * cur_recv a s + cur_sent a s'.

Lemma cur_le a s : inv s -> cur_sent a s <= 3 * cur_recv a s.
Proof.
  intro H. unfold cur_sent, cur_recv. destruct (pget a s) as [p|] eqn:E; [|lia].
  destruct (H a p (pget_In _ _ _ E)) as [_ Hs]. pose proof (limit_of_le3 (p_recv p)). lia.
Qed.

Lemma D_refl a s : D a s s 0 0.
Proof. unfold D. lia. Qed.

Lemma D_trans a s1 s2 s3 ds1 dr1 ds2 dr2 :
  D a s1 s2 ds1 dr1 -> D a s2 s3 ds2 dr2 -> D a s1 s3 (ds1 + ds2) (dr1 + dr2).
Proof. unfold D. lia. Qed.

Lemma D_weaken a s s' ds dr dr' : D a s s' ds dr -> dr <= dr' -> D a s s' ds dr'.
Proof. unfold D. lia. Qed.

Lemma D_same a s s' : pget a s' = pget a s -> D a s s' 0 0.
Proof. intro H. unfold D, cur_sent, cur_recv. rewrite H. lia. Qed.

Lemma D_drop a s s' : inv s -> pget a s' = None -> D a s s' 0 0.
Proof.
  intros Hi H. pose proof (cur_le a s Hi). unfold D. unfold cur_sent at 2, cur_recv at 1.
  rewrite H. lia.
Qed.

Lemma D_record_received a a' act b now s :
  inv s -> D a s (record_received a' act b now s) 0 (if (a' =? a) && negb (a =? act) then b else 0).
Proof.
  intro Hi. unfold record_received.
  destruct (N.eqb_spec b 0) as [Hb|Hb]; cbn [orb].
  { eapply D_weaken; [apply D_refl|lia]. }
  destruct (N.eqb_spec a' act) as [Hact|Hact].
  { eapply D_weaken; [apply D_refl|lia]. }
  destruct (N.eqb_spec a' a) as [->|Hne].
  2:{ eapply D_weaken; [apply D_same; now apply pget_pset_other|lia]. }
  destruct (N.eqb_spec a act); [contradiction|]. cbn [andb negb].
  pose proof (cur_le a s Hi) as Hle.
  unfold D. unfold cur_sent at 2, cur_recv at 1. rewrite pget_pset_same.
  unfold path_locked, cur_sent, cur_recv in *. destruct (pget a s) as [p|] eqn:E.
  - destruct (negb (p_expires p =? 0) && expired now p); cbn [fresh_path p_pending p_recv p_sent touch].
    + pose proof (sat_add_le_sum 0 b).
      destruct (p_pending fresh_path); cbn [p_recv p_sent touch fresh_path] in *; lia.
    + pose proof (sat_add_le_sum (p_recv p) b).
      destruct (p_pending p); cbn [p_recv p_sent touch]; lia.
  - pose proof (sat_add_le_sum 0 b). cbn [fresh_path p_pending p_recv p_sent touch]. lia.
Qed.

Lemma D_start a en a' act c now s : inv s -> D a s (fst (start en a' act c now s)) 0 0.
Proof.
  intro Hi. unfold start. destruct (negb en || (a' =? act)); cbn [fst]; [apply D_refl|].
  destruct (p_pending (path_locked now a' s)) eqn:Ep; cbn [fst]; [apply D_refl|].
  destruct (N.eqb_spec a' a) as [->|Hne]; [|apply D_same; now apply pget_pset_other].
  pose proof (cur_le a s Hi) as Hle.
  unfold D. unfold cur_sent at 2, cur_recv at 1. rewrite pget_pset_same.
  cbn [touch p_recv p_sent]. unfold path_locked, cur_sent, cur_recv in *.
  destruct (pget a s) as [p|]; [|cbn; lia].
  destruct (negb (p_expires p =? 0) && expired now p); cbn [fresh_path p_recv p_sent]; lia.
Qed.

Lemma D_cancel a a' c now s : D a s (cancel a' c now s) 0 0.
Proof.
  unfold cancel. destruct (pget a' s) as [p|] eqn:E; [|apply D_refl].
  destruct (p_pending p && (p_cookie p =? c)); [|apply D_refl].
  destruct (N.eqb_spec a' a) as [->|Hne]; [|apply D_same; now apply pget_pset_other].
  unfold D, cur_sent, cur_recv. rewrite pget_pset_same, E. cbn [touch p_recv p_sent]. lia.
Qed.

Lemma D_handle_response a a' c now s : inv s -> D a s (fst (handle_response a' c now s)) 0 0.
Proof.
  intro Hi. unfold handle_response. destruct (pget a' s) as [p|] eqn:E; cbn [fst]; [|apply D_refl].
  destruct (negb (p_pending p) || negb (p_cookie p =? c)); cbn [fst]; [apply D_refl|].
  destruct (expired now p); cbn [fst].
  - destruct (N.eqb_spec a' a) as [->|Hne].
    + apply D_drop; [assumption|apply pget_pdel_same].
    + apply D_same. now apply pget_pdel_other.
  - now apply D_drop.
Qed.

Lemma D_reserve a a' act b now s :
  inv s ->
  D a s (fst (reserve a' act b now s))
    (if snd (reserve a' act b now s) && (a' =? a) && negb (a' =? act) then b else 0) 0.
Proof.
  intro Hi. unfold reserve. destruct (N.eqb_spec a' act) as [Hact|Hact]; cbn [fst snd].
  { rewrite andb_false_r. apply D_refl. }
  destruct (pget a' s) as [p|] eqn:E; cbn [fst snd andb]; [|apply D_refl].
  destruct (expired now p); cbn [fst snd andb]; [apply D_refl|].
  destruct (N.leb_spec (limit_of (p_recv p)) (p_sent p)) as [H1|H1]; cbn [orb fst snd andb]; [apply D_refl|].
  destruct (N.ltb_spec (limit_of (p_recv p) - p_sent p) b) as [H2|H2]; cbn [fst snd andb]; [apply D_refl|].
  destruct (N.eqb_spec a' a) as [->|Hne]; cbn [andb negb].
  2:{ apply D_same. now apply pget_pset_other. }
  pose proof (limit_of_le_max (p_recv p)) as Hm.
  unfold D, cur_sent, cur_recv. rewrite pget_pset_same, E. cbn [p_recv p_sent].
  rewrite N.mod_small; unfold TWO64, MAX64 in *; lia.
Qed.

Lemma D_timer_fire a a' now s : inv s -> D a s (timer_fire a' now s) 0 0.
Proof.
  intro Hi. unfold timer_fire. destruct (pget a' s) as [p|] eqn:E; [|apply D_refl].
  destruct (expired now p); [|apply D_refl].
  destruct (N.eqb_spec a' a) as [->|Hne].
  - apply D_drop; [assumption|apply pget_pdel_same].
  - apply D_same. now apply pget_pdel_other.
Qed.

Lemma D_fire_all a now ks : forall s, inv s -> D a s (fire_all now ks s) 0 0.
Proof.
  unfold fire_all. induction ks as [|k ks IH]; intros s Hi; cbn [fold_left]; [apply D_refl|].
  pose proof (D_trans a s _ _ 0 0 0 0 (D_timer_fire a k now s Hi)
                      (IH _ (inv_timer_fire k now s Hi))) as H.
  exact H.
Qed.

(* ================================================================ provenance of pending challenges *)

Definition triggers (k : content) : Prop :=
  match k with KApp | KHandshake | KAck | KChallenge _ => True | _ => False end.

(* a pending challenge stored for [a] was started by an earlier admitted record from [a] that
   carried a connection ID and was the newest, with this cookie, exactly TIMEOUT before expiry *)
Definition witness (hist : list event) (a : addr) (p : path) : Prop :=
  p_pending p = true ->
  exists r0, In (ERecord r0) hist /\ r_from r0 = a /\ r_hascid r0 = true /\ r_latest r0 = true /\
             triggers (r_kind r0) /\ r_cookie r0 = p_cookie p /\ p_expires p = r_now r0 + TIMEOUT.

Definition hinv (hist : list event) (s : paths) : Prop := forall a p, In (a, p) s -> witness hist a p.

Lemma hinv_nil hist : hinv hist [].
Proof. intros a p []. Qed.

Lemma hinv_mono hist e s : hinv hist s -> hinv (e :: hist) s.
Proof.
  intros H a p Hin Hp. destruct (H a p Hin Hp) as [r0 [H0 H1]].
  exists r0. split; [now right|assumption].
Qed.

Lemma hinv_pdel hist a s : hinv hist s -> hinv hist (pdel a s).
Proof. intros H b q Hin. apply In_pdel in Hin. now apply (H b q). Qed.

Lemma hinv_pset hist a p s : hinv hist s -> witness hist a p -> hinv hist (pset a p s).
Proof.
  intros H Hp b q Hin. apply In_pset in Hin. destruct Hin as [[-> ->]|[Hin _]]; [assumption|].
  now apply (H b q).
Qed.

Lemma witness_path_locked hist now a s : hinv hist s -> witness hist a (path_locked now a s).
Proof.
  intro H. unfold path_locked. destruct (pget a s) as [p|] eqn:E; [|intro Hp; discriminate].
  destruct (negb (p_expires p =? 0) && expired now p); [intro Hp; discriminate|].
  apply (H a p). now apply pget_In.
Qed.

Lemma hinv_record_received hist a act b now s :
  hinv hist s -> hinv hist (record_received a act b now s).
Proof.
  intro H. unfold record_received. destruct ((b =? 0) || (a =? act)); [assumption|].
  apply hinv_pset; [assumption|].
  pose proof (witness_path_locked hist now a s H) as Hw.
  cbn [p_pending]. destruct (p_pending (path_locked now a s)) eqn:Ep.
  - intro Hp. destruct (Hw Ep) as [r0 Hr0]. exists r0. exact Hr0.
  - intro Hp. cbn [touch p_pending] in Hp. congruence.
Qed.

Lemma hinv_start hist en a act c now s :
  hinv hist s ->
  (en = true -> exists r0, In (ERecord r0) hist /\ r_from r0 = a /\ r_hascid r0 = true /\
                           r_latest r0 = true /\ triggers (r_kind r0) /\ r_cookie r0 = c /\
                           r_now r0 = now) ->
  hinv hist (fst (start en a act c now s)).
Proof.
  intros H Hen. unfold start. destruct en; cbn [negb orb fst]; [|assumption].
  destruct (a =? act); cbn [fst]; [assumption|].
  destruct (p_pending (path_locked now a s)); cbn [fst]; [assumption|].
  apply hinv_pset; [assumption|]. intros _. cbn [touch p_cookie p_expires].
  destruct (Hen eq_refl) as [r0 [H0 [H1 [H2 [H3 [H4 [H5 H6]]]]]]].
  exists r0. repeat split; try assumption. now rewrite H6.
Qed.

Lemma hinv_cancel hist a c now s : hinv hist s -> hinv hist (cancel a c now s).
Proof.
  intro H. unfold cancel. destruct (pget a s) as [p|]; [|assumption].
  destruct (p_pending p && (p_cookie p =? c)); [|assumption].
  apply hinv_pset; [assumption|]. intro Hp. cbn [touch p_pending] in Hp. discriminate.
Qed.

Lemma hinv_handle_response hist a c now s :
  hinv hist s -> hinv hist (fst (handle_response a c now s)).
Proof.
  intro H. unfold handle_response. destruct (pget a s) as [p|]; [|assumption].
  destruct (negb (p_pending p) || negb (p_cookie p =? c)); [assumption|].
  destruct (expired now p); cbn [fst]; [now apply hinv_pdel|apply hinv_nil].
Qed.

Lemma hinv_reserve hist a act b now s : hinv hist s -> hinv hist (fst (reserve a act b now s)).
Proof.
  intro H. unfold reserve. destruct (a =? act); [assumption|].
  destruct (pget a s) as [p|] eqn:E; [|assumption].
  destruct (expired now p); [assumption|].
  destruct ((limit_of (p_recv p) <=? p_sent p) || (limit_of (p_recv p) - p_sent p <? b)); cbn [fst]; [assumption|].
  apply hinv_pset; [assumption|]. intro Hp. cbn [p_pending] in Hp.
  destruct (H a p (pget_In _ _ _ E) Hp) as [r0 Hr0]. exists r0. exact Hr0.
Qed.

Lemma hinv_timer_fire hist a now s : hinv hist s -> hinv hist (timer_fire a now s).
Proof.
  intro H. unfold timer_fire. destruct (pget a s) as [p|]; [|assumption].
  destruct (expired now p); [now apply hinv_pdel|assumption].
Qed.

Lemma hinv_fire_all hist now ks : forall s, hinv hist s -> hinv hist (fire_all now ks s).
Proof.
  unfold fire_all. induction ks as [|k ks IH]; intros s H; cbn [fold_left]; [assumption|].
  apply IH. now apply hinv_timer_fire.
Qed.

(* ================================================================ components of the step *)

Definition good (hist : list event) (st : cstate) : Prop := inv (mgr st) /\ hinv hist (mgr st).

Lemma write_rrc_facts st a t c w now wr st' outs ok hist x :
  write_rrc st a t c w now wr = (st', outs, ok) ->
  good hist st ->
  raddr st' = raddr st /\ negotiated st' = negotiated st /\ good hist st' /\
  (negotiated st = false -> outs = [] /\ st' = st) /\
  D x (mgr st) (mgr st') (sent_cand x outs) 0.
Proof.
  unfold write_rrc. intros H [Hi Hh].
  assert (Hbase : raddr st = raddr st /\ negotiated st = negotiated st /\
                  good hist st /\ (negotiated st = false -> ([] : list out) = [] /\ st = st) /\
                  D x (mgr st) (mgr st) (sent_cand x []) 0).
  { refine (conj eq_refl (conj eq_refl (conj (conj Hi Hh) (conj _ _)))).
    - intros _. split; reflexivity.
    - apply D_refl. }
  destruct (negotiated st) eqn:En; cbn [negb] in H.
  2:{ inversion H; subst. destruct Hbase as [B1 [_ [B3 [B4 B5]]]]. exact (conj B1 (conj En (conj B3 (conj B4 B5)))). }
  assert (Hres : forall sent,
     (let '(m', ok) := reserve a (raddr st) w now (mgr st) in
      if ok then (with_mgr st m', [mkOut t a w c (negb (a =? raddr st)) sent], sent)
      else (st, [], false)) = (st', outs, ok) ->
     raddr st' = raddr st /\ true = true /\ good hist st' /\
     (true = false -> outs = [] /\ st' = st) /\ D x (mgr st) (mgr st') (sent_cand x outs) 0).
  { intros sent H'.
    pose proof (D_reserve x a (raddr st) w now (mgr st) Hi) as HD.
    pose proof (inv_reserve a (raddr st) w now (mgr st) Hi) as Hi'.
    pose proof (hinv_reserve hist a (raddr st) w now (mgr st) Hh) as Hh'.
    destruct (reserve a (raddr st) w now (mgr st)) as [m' rok]. cbn [fst snd] in *.
    destruct rok; inversion H'; subst.
    - cbn [with_mgr raddr negotiated mgr].
      refine (conj eq_refl (conj eq_refl (conj (conj Hi' Hh') (conj _ _)))); [discriminate|].
      cbn [sent_cand o_dest o_cand o_size]. cbn [andb] in HD. rewrite N.add_0_r. exact HD.
    - destruct Hbase as [_ [_ [Hg [_ HD0]]]].
      refine (conj eq_refl (conj eq_refl (conj Hg (conj _ HD0)))). discriminate. }
  destruct wr.
  - destruct (Hres true H) as [H1 [_ [H3 [H4 H5]]]].
    refine (conj H1 (conj _ (conj H3 (conj H4 H5)))).
    destruct (reserve a (raddr st) w now (mgr st)) as [m' rok]; destruct rok; inversion H; subst;
      cbn [with_mgr negotiated]; assumption.
  - inversion H; subst. destruct Hbase as [_ [_ [Hg [_ HD0]]]].
    refine (conj eq_refl (conj En (conj Hg (conj _ HD0)))). discriminate.
  - destruct (Hres false H) as [H1 [_ [H3 [H4 H5]]]].
    refine (conj H1 (conj _ (conj H3 (conj H4 H5)))).
    destruct (reserve a (raddr st) w now (mgr st)) as [m' rok]; destruct rok; inversion H; subst;
      cbn [with_mgr negotiated]; assumption.
Qed.

Lemma handle_candidate_facts st en hc lt a c w now wr st' outs hist x :
  handle_candidate st en hc lt a c w now wr = (st', outs) ->
  good hist st ->
  (en && hc && lt = true ->
     exists r0, In (ERecord r0) hist /\ r_from r0 = a /\ r_hascid r0 = true /\ r_latest r0 = true /\
                triggers (r_kind r0) /\ r_cookie r0 = c /\ r_now r0 = now) ->
  raddr st' = raddr st /\ negotiated st' = negotiated st /\ good hist st' /\
  (en = false -> outs = [] /\ st' = st) /\
  (negotiated st = false -> outs = []) /\
  D x (mgr st) (mgr st') (sent_cand x outs) 0.
Proof.
  unfold handle_candidate. intros H [Hi Hh] Hw.
  pose proof (D_start x (en && hc && lt) a (raddr st) c now (mgr st) Hi) as HD1.
  pose proof (inv_start (en && hc && lt) a (raddr st) c now (mgr st) Hi) as Hi1.
  pose proof (hinv_start hist (en && hc && lt) a (raddr st) c now (mgr st) Hh Hw) as Hh1.
  assert (Hoff : en = false -> start (en && hc && lt) a (raddr st) c now (mgr st) = (mgr st, false)).
  { intros ->. reflexivity. }
  destruct (start (en && hc && lt) a (raddr st) c now (mgr st)) as [m1 ok] eqn:Es.
  cbn [fst] in *.
  destruct ok.
  2:{ inversion H; subst. cbn [with_mgr raddr negotiated mgr sent_cand].
      refine (conj eq_refl (conj eq_refl (conj (conj Hi1 Hh1) (conj _ (conj _ HD1))))).
      - intro Hen. specialize (Hoff Hen). inversion Hoff; subst. split; [reflexivity|]. destruct st; reflexivity.
      - intros _. reflexivity. }
  assert (Hg1 : good hist (with_mgr st m1)) by (split; assumption).
  assert (Hen : en = false -> False).
  { intro Hen. specialize (Hoff Hen). discriminate. }
  destruct (write_rrc (with_mgr st m1) a TChallenge c w now wr) as [[st2 outs2] wrote] eqn:Ew.
  destruct (write_rrc_facts _ _ _ _ _ _ _ _ _ _ hist x Ew Hg1) as [Hr [Hn [[Hi2 Hh2] [Hoffw HD2]]]].
  cbn [with_mgr raddr negotiated mgr] in *.
  pose proof (D_trans x _ _ _ _ _ _ _ HD1 HD2) as HD12. cbn [N.add] in HD12.
  destruct wrote; inversion H; subst.
  - refine (conj Hr (conj Hn (conj (conj Hi2 Hh2) (conj _ (conj _ HD12))))).
    + intro Hen'. destruct (Hen Hen').
    + intro Hneg. now destruct (Hoffw Hneg).
  - cbn [with_mgr raddr negotiated mgr].
    refine (conj Hr (conj Hn (conj (conj _ _) (conj _ (conj _ _))))).
    + now apply inv_cancel.
    + now apply hinv_cancel.
    + intro Hen'. destruct (Hen Hen').
    + intro Hneg. now destruct (Hoffw Hneg).
    + pose proof (D_trans x _ _ _ _ _ _ _ HD12 (D_cancel x a c now (mgr st2))) as HD3.
      rewrite !N.add_0_r in HD3. exact HD3.
Qed.

Lemma mark_facts st r hist x :
  good hist st ->
  raddr (mark st r) = raddr st /\ negotiated (mark st r) = negotiated st /\ good hist (mark st r) /\
  (negotiated st = false -> mark st r = st) /\
  D x (mgr st) (mgr (mark st r)) 0 (counted_from x st (ERecord r)).
Proof.
  intros [Hi Hh]. unfold mark, counted_from. destruct (negotiated st) eqn:En.
  - cbn [with_mgr raddr negotiated mgr andb].
    refine (conj eq_refl (conj En (conj (conj _ _) (conj _ _)))).
    + now apply inv_record_received.
    + now apply hinv_record_received.
    + discriminate.
    + apply D_record_received. assumption.
  - cbn [andb].
    refine (conj eq_refl (conj En (conj (conj Hi Hh) (conj _ _)))).
    + reflexivity.
    + apply D_refl.
Qed.

Lemma sent_cand_app a l1 l2 : sent_cand a (l1 ++ l2) = sent_cand a l1 + sent_cand a l2.
Proof. induction l1 as [|o l1 IH]; cbn [app sent_cand]; [reflexivity|]. rewrite IH. lia. Qed.

Lemma good_mono hist e st : good hist st -> good (e :: hist) st.
Proof. intros [Hi Hh]. split; [assumption|now apply hinv_mono]. Qed.

(* mark, then HandleCandidate with a "latest" flag that, when set, is the record's own *)
Lemma mark_cand_facts st r lt st' outs hist x :
  handle_candidate (mark st r) (negotiated st) (r_hascid r) lt (r_from r) (r_cookie r)
                   (r_wsize r) (r_now r) (r_w r) = (st', outs) ->
  good hist st ->
  (lt = true -> r_latest r = true /\ triggers (r_kind r)) ->
  raddr st' = raddr st /\ negotiated st' = negotiated st /\ good (ERecord r :: hist) st' /\
  (negotiated st = false -> st' = st /\ outs = []) /\
  D x (mgr st) (mgr st') (sent_cand x outs) (counted_from x st (ERecord r)).
Proof.
  intros H Hg Hlt.
  destruct (mark_facts st r (ERecord r :: hist) x (good_mono _ _ _ Hg)) as [Hr1 [Hn1 [Hg1 [Hoff1 HD1]]]].
  assert (Hw : negotiated st && r_hascid r && lt = true ->
     exists r0, In (ERecord r0) (ERecord r :: hist) /\ r_from r0 = r_from r /\ r_hascid r0 = true /\
                r_latest r0 = true /\ triggers (r_kind r0) /\ r_cookie r0 = r_cookie r /\ r_now r0 = r_now r).
  { intro Hf. apply andb_prop in Hf. destruct Hf as [Hf Hl]. apply andb_prop in Hf. destruct Hf as [_ Hc].
    destruct (Hlt Hl) as [Hl' Ht]. exists r.
    refine (conj (or_introl eq_refl) (conj eq_refl (conj Hc (conj Hl' (conj Ht (conj eq_refl eq_refl)))))). }
  destruct (handle_candidate_facts _ _ _ _ _ _ _ _ _ _ _ (ERecord r :: hist) x H Hg1 Hw)
    as [Hr2 [Hn2 [Hg2 [Hoff2 [Hoff2' HD2]]]]].
  refine (conj _ (conj _ (conj Hg2 (conj _ _)))).
  - congruence.
  - congruence.
  - intro Hneg. destruct (Hoff2 Hneg) as [Ho Hs]. split; [|assumption]. rewrite Hs. now apply Hoff1.
  - pose proof (D_trans x _ _ _ _ _ _ _ HD1 HD2) as HD. rewrite N.add_0_l, N.add_0_r in HD. exact HD.
Qed.

(* what justifies a change of the remote address *)
Definition validated (hist : list event) (r : recv) : Prop :=
  exists c r0, r_kind r = KResponse c /\ In (ERecord r0) hist /\ r_from r0 = r_from r /\
               r_hascid r0 = true /\ r_latest r0 = true /\ triggers (r_kind r0) /\
               r_cookie r0 = c /\ r_now r < r_now r0 + TIMEOUT.

Lemma step_record_facts st r st' outs hist x :
  step_record st r = (st', outs) ->
  good hist st ->
  negotiated st' = negotiated st /\ good (ERecord r :: hist) st' /\
  (negotiated st = false -> st' = st /\ outs = []) /\
  D x (mgr st) (mgr st') (sent_cand x outs) (counted_from x st (ERecord r)) /\
  (raddr st' <> raddr st -> negotiated st = true /\ raddr st' = r_from r /\ validated hist r).
Proof.
  unfold step_record. intros H Hg.
  assert (Hsimple : forall lt,
    handle_candidate (mark st r) (negotiated st) (r_hascid r) lt (r_from r) (r_cookie r)
                     (r_wsize r) (r_now r) (r_w r) = (st', outs) ->
    (lt = true -> r_latest r = true /\ triggers (r_kind r)) ->
    negotiated st' = negotiated st /\ good (ERecord r :: hist) st' /\
    (negotiated st = false -> st' = st /\ outs = []) /\
    D x (mgr st) (mgr st') (sent_cand x outs) (counted_from x st (ERecord r)) /\
    (raddr st' <> raddr st -> negotiated st = true /\ raddr st' = r_from r /\ validated hist r)).
  { intros lt H' Hlt.
    destruct (mark_cand_facts _ _ _ _ _ _ x H' Hg Hlt) as [A [B [C [E F]]]].
    refine (conj B (conj C (conj E (conj F _)))). intro Hne. contradiction. }
  destruct (r_kind r) as [| | | |c|c| |] eqn:Ek.
  - apply (Hsimple _ H). intros Hl. split; [assumption|exact I].
  - apply (Hsimple _ H). intros Hl. split; [assumption|exact I].
  - apply (Hsimple _ H). intros Hl. split; [assumption|exact I].
  - (* alert *)
    inversion H; subst.
    destruct (mark_facts st r (ERecord r :: hist) x (good_mono _ _ _ Hg)) as [Hr1 [Hn1 [Hg1 [Hoff1 HD1]]]].
    refine (conj Hn1 (conj Hg1 (conj _ (conj HD1 _)))).
    + intro Hneg. split; [now apply Hoff1|reflexivity].
    + intro Hne. contradiction.
  - (* challenge *)
    destruct (negotiated st) eqn:En; cbn [negb] in H.
    2:{ inversion H; subst. unfold counted_from. rewrite En. cbn [andb sent_cand].
        refine (conj eq_refl (conj (good_mono _ _ _ Hg) (conj _ (conj (D_refl _ _) _)))).
        - intros _. split; reflexivity.
        - intro Hne. contradiction. }
    destruct (mark_facts st r (ERecord r :: hist) x (good_mono _ _ _ Hg)) as [Hr1 [Hn1 [Hg1 [Hoff1 HD1]]]].
    destruct (write_rrc (mark st r) (r_from r) TResponse c (r_wsize r) (r_now r) (r_w r))
      as [[st2 outs1] wrote] eqn:Ew.
    destruct (write_rrc_facts _ _ _ _ _ _ _ _ _ _ (ERecord r :: hist) x Ew Hg1) as [Hr2 [Hn2 [Hg2 [_ HD2]]]].
    destruct (handle_candidate st2 true (r_hascid r) (r_latest r) (r_from r) (r_cookie r)
                               (r_wsize r) (r_now r) (r_w r)) as [st3 outs2] eqn:Ec.
    assert (Hw : true && r_hascid r && r_latest r = true ->
       exists r0, In (ERecord r0) (ERecord r :: hist) /\ r_from r0 = r_from r /\ r_hascid r0 = true /\
                  r_latest r0 = true /\ triggers (r_kind r0) /\ r_cookie r0 = r_cookie r /\ r_now r0 = r_now r).
    { cbn [andb]. intro Hf. apply andb_prop in Hf. destruct Hf as [Hc Hl]. exists r.
      refine (conj (or_introl eq_refl) (conj eq_refl (conj Hc (conj Hl (conj _ (conj eq_refl eq_refl)))))).
      rewrite Ek. exact I. }
    destruct (handle_candidate_facts _ _ _ _ _ _ _ _ _ _ _ (ERecord r :: hist) x Ec Hg2 Hw)
      as [Hr3 [Hn3 [Hg3 [_ [_ HD3]]]]].
    inversion H; subst.
    refine (conj _ (conj Hg3 (conj _ (conj _ _)))).
    + congruence.
    + intro Hneg. try rewrite En in Hneg. discriminate.
    + rewrite sent_cand_app.
      pose proof (D_trans x _ _ _ _ _ _ _ HD1 (D_trans x _ _ _ _ _ _ _ HD2 HD3)) as HD.
      rewrite N.add_0_l, !N.add_0_r in HD. exact HD.
    + intro Hne. exfalso. apply Hne. congruence.
  - (* response *)
    destruct (negotiated st) eqn:En; cbn [negb] in H.
    2:{ inversion H; subst. unfold counted_from. rewrite En. cbn [andb sent_cand].
        refine (conj eq_refl (conj (good_mono _ _ _ Hg) (conj _ (conj (D_refl _ _) _)))).
        - intros _. split; reflexivity.
        - intro Hne. contradiction. }
    destruct (mark_facts st r hist x Hg) as [Hr0 [Hn0 [[Hi0 Hh0] [_ _]]]].
    destruct (mark_facts st r (ERecord r :: hist) x (good_mono _ _ _ Hg)) as [Hr1 [Hn1 [[Hi1 Hh1] [Hoff1 HD1]]]].
    pose proof (D_handle_response x (r_from r) c (r_now r) (mgr (mark st r)) Hi1) as HD2.
    pose proof (inv_handle_response (r_from r) c (r_now r) (mgr (mark st r)) Hi1) as Hi2.
    pose proof (hinv_handle_response (ERecord r :: hist) (r_from r) c (r_now r) (mgr (mark st r)) Hh1) as Hh2.
    destruct (handle_response (r_from r) c (r_now r) (mgr (mark st r))) as [m2 ok] eqn:Eh.
    cbn [fst] in *.
    set (st2 := mkC (if ok then r_from r else raddr (mark st r)) (negotiated (mark st r)) m2) in *.
    assert (Hg2 : good (ERecord r :: hist) st2) by (split; assumption).
    assert (Hw : true && r_hascid r && false = true ->
       exists r0, In (ERecord r0) (ERecord r :: hist) /\ r_from r0 = r_from r /\ r_hascid r0 = true /\
                  r_latest r0 = true /\ triggers (r_kind r0) /\ r_cookie r0 = r_cookie r /\ r_now r0 = r_now r).
    { rewrite andb_false_r. discriminate. }
    destruct (handle_candidate_facts _ _ _ _ _ _ _ _ _ _ _ (ERecord r :: hist) x H Hg2 Hw)
      as [Hr3 [Hn3 [Hg3 [_ [_ HD3]]]]].
    subst st2. cbn [mgr raddr negotiated] in *.
    refine (conj _ (conj Hg3 (conj _ (conj _ _)))).
    + congruence.
    + intro Hneg. try rewrite En in Hneg. discriminate.
    + pose proof (D_trans x _ _ _ _ _ _ _ HD1 (D_trans x _ _ _ _ _ _ _ HD2 HD3)) as HD.
      rewrite !N.add_0_l, !N.add_0_r in HD. exact HD.
    + intro Hne. rewrite Hr3 in Hne |- *. destruct ok.
      2:{ exfalso. apply Hne. exact Hr1. }
      split; [reflexivity|]. split; [reflexivity|].
      apply response_accept_spec in Eh. destruct Eh as [_ [p [Hget [Hp [Hc He]]]]].
      destruct (Hh0 (r_from r) p (pget_In _ _ _ Hget) Hp) as [r0 [H0 [H1 [H2 [H3 [H4 [H5 H6]]]]]]].
      exists c, r0. refine (conj Ek (conj H0 (conj H1 (conj H2 (conj H3 (conj H4 (conj _ _))))))).
      * congruence.
      * rewrite <- H6. exact He.
  - (* drop *)
    destruct (negotiated st) eqn:En; cbn [negb] in H.
    2:{ inversion H; subst. unfold counted_from. rewrite En. cbn [andb sent_cand].
        refine (conj eq_refl (conj (good_mono _ _ _ Hg) (conj _ (conj (D_refl _ _) _)))).
        - intros _. split; reflexivity.
        - intro Hne. contradiction. }
    apply (Hsimple _ H). discriminate.
  - (* unknown *)
    destruct (negotiated st) eqn:En; cbn [negb] in H.
    2:{ inversion H; subst. unfold counted_from. rewrite En. cbn [andb sent_cand].
        refine (conj eq_refl (conj (good_mono _ _ _ Hg) (conj _ (conj (D_refl _ _) _)))).
        - intros _. split; reflexivity.
        - intro Hne. contradiction. }
    apply (Hsimple _ H). discriminate.
Qed.

Lemma cstep_facts st e st' outs hist x :
  cstep st e = (st', outs) -> good hist st ->
  negotiated st' = negotiated st /\ good (e :: hist) st' /\
  D x (mgr st) (mgr st') (sent_cand x outs) (counted_from x st e) /\
  (raddr st' <> raddr st ->
   exists r, e = ERecord r /\ negotiated st = true /\ raddr st' = r_from r /\ validated hist r).
Proof.
  intros H Hg. destruct e as [r|a now|now]; cbn [cstep] in H.
  - destruct (step_record_facts _ _ _ _ _ x H Hg) as [A [B [_ [C E]]]].
    refine (conj A (conj B (conj C _))). intro Hne. exists r. split; [reflexivity|]. now apply E.
  - inversion H; subst. destruct Hg as [Hi Hh]. cbn [with_mgr raddr negotiated mgr counted_from sent_cand].
    refine (conj eq_refl (conj (conj _ _) (conj _ _))).
    + now apply inv_timer_fire.
    + apply hinv_mono. now apply hinv_timer_fire.
    + now apply D_timer_fire.
    + intro Hne. contradiction.
  - inversion H; subst. destruct Hg as [Hi Hh]. cbn [with_mgr raddr negotiated mgr counted_from sent_cand].
    refine (conj eq_refl (conj (conj _ _) (conj _ _))).
    + now apply inv_fire_all.
    + apply hinv_mono. now apply hinv_fire_all.
    + now apply D_fire_all.
    + intro Hne. contradiction.
Qed.

Lemma good_init hist st : mgr st = [] -> good hist st.
Proof. intro H. unfold good. rewrite H. split; [apply inv_nil|apply hinv_nil]. Qed.

Lemma crun_good evs : forall st hist,
  good hist st -> good (rev evs ++ hist) (crun st evs) /\ negotiated (crun st evs) = negotiated st.
Proof.
  induction evs as [|e evs IH]; intros st hist Hg; cbn [crun rev app]; [split; [assumption|reflexivity]|].
  destruct (cstep st e) as [st1 outs] eqn:E. cbn [fst].
  destruct (cstep_facts _ _ _ _ _ 0 E Hg) as [Hn [Hg1 _]].
  destruct (IH st1 (e :: hist) Hg1) as [Hg2 Hn2].
  rewrite <- app_assoc. cbn [app]. split; [assumption|congruence].
Qed.

(* ================================================================ the theorems *)

(* ADDRESS CHANGE: from a connection with no candidate paths, after ANY event sequence [evs]
   (records, timer callbacks in any order), a step changes the remote address only if it is an
   admitted path-response record from an address a, RRC was negotiated, the new address is a, and
   an earlier admitted record from a - carrying a connection ID, newest in the replay window - made
   Start issue the very cookie this response carries, less than TIMEOUT before. *)
Theorem addr_changes_only_on_validated_response st0 evs e :
  mgr st0 = [] ->
  let st := crun st0 evs in
  raddr (fst (cstep st e)) <> raddr st ->
  exists r, e = ERecord r /\ negotiated st0 = true /\ raddr (fst (cstep st e)) = r_from r /\
            validated evs r.
Proof.
  intros H0 st Hne.
  destruct (crun_good evs st0 [] (good_init [] st0 H0)) as [Hg Hn]. fold st in Hg, Hn.
  destruct (cstep st e) as [st1 outs] eqn:E. cbn [fst] in *.
  destruct (cstep_facts _ _ _ _ _ 0 E Hg) as [_ [_ [_ Hch]]].
  destruct (Hch Hne) as [r [He [Hneg [Hr Hv]]]].
  exists r. refine (conj He (conj _ (conj Hr _))); [congruence|].
  destruct Hv as [c [r0 [V1 [V2 V3]]]]. exists c, r0. refine (conj V1 (conj _ V3)).
  rewrite app_nil_r in V2. now apply in_rev.
Qed.

(* NO RRC, NO CHANGE: without the negotiated extension nothing is ever sent to another address
   and the remote address is constant, for every event sequence and every initial manager state. *)
Lemma cstep_off st e :
  negotiated st = false ->
  raddr (fst (cstep st e)) = raddr st /\ negotiated (fst (cstep st e)) = false /\
  snd (cstep st e) = [].
Proof.
  intro H. destruct e as [r|a now|now]; cbn [cstep fst snd with_mgr raddr negotiated];
    [|repeat split; assumption|repeat split; assumption].
  unfold step_record, handle_candidate, mark. rewrite H. cbn [andb negb].
  unfold start. cbn [negb orb].
  destruct (r_kind r); cbn [fst snd with_mgr raddr negotiated]; repeat split; assumption.
Qed.

Theorem no_rrc_no_change st evs :
  negotiated st = false -> raddr (crun st evs) = raddr st /\ couts st evs = [].
Proof.
  revert st. induction evs as [|e evs IH]; intros st H; cbn [crun couts]; [split; reflexivity|].
  destruct (cstep_off st e H) as [Hr [Hn Ho]].
  destruct (IH _ Hn) as [IH1 IH2]. rewrite Ho, IH2. split; [congruence|reflexivity].
Qed.

(* AMPLIFICATION (connection level, exact byte counts, no saturation): for every address a and
   every event sequence, the bytes of RRC records for which sending to a was authorised while a
   was not the active address are at most three times the bytes of the admitted records that
   arrived from a while a was not the active address. *)
Lemma conn_amplification_gen evs : forall st hist a,
  good hist st ->
  sent_cand a (couts st evs) + cur_sent a (mgr st) <= 3 * (received_from a st evs + cur_recv a (mgr st)).
Proof.
  induction evs as [|e evs IH]; intros st hist a Hg; cbn [couts received_from sent_cand].
  - destruct Hg as [Hi _]. pose proof (cur_le a (mgr st) Hi). lia.
  - destruct (cstep st e) as [st1 outs] eqn:E. cbn [fst snd].
    destruct (cstep_facts _ _ _ _ _ a E Hg) as [_ [Hg1 [HD _]]].
    specialize (IH st1 (e :: hist) a Hg1). rewrite sent_cand_app. unfold D in HD. lia.
Qed.

Theorem conn_amplification st0 evs a :
  mgr st0 = [] -> sent_cand a (couts st0 evs) <= 3 * received_from a st0 evs.
Proof.
  intro H0. pose proof (conn_amplification_gen evs st0 [] a (good_init [] st0 H0)) as H.
  unfold cur_sent, cur_recv in H. rewrite H0 in H. cbn [pget] in H. lia.
Qed.

(* ---------------------------------------------------------------- connection IDs *)

Lemma bytes_eqb_eq x : forall y, bytes_eqb x y = true <-> x = y.
Proof.
  induction x as [|a x IH]; intros [|b y]; cbn [bytes_eqb]; split; try discriminate; try reflexivity.
  - intro H. apply andb_prop in H. destruct H as [H1 H2]. apply N.eqb_eq in H1. apply IH in H2. congruence.
  - intro H. inversion H; subst. rewrite N.eqb_refl. cbn [andb]. now apply IH.
Qed.

(* by definition of the admission test: an admitted protected record carries exactly the local
   connection ID (or none at all when the local ID is empty) *)
Theorem accept_requires_own_cid local rc :
  record_admitted local rc = true ->
  match rc with Some c => c = local | None => local = [] end.
Proof.
  unfold record_admitted. destruct rc as [c|].
  - intro H. apply bytes_eqb_eq in H. congruence.
  - destruct local; [reflexivity|discriminate].
Qed.

Theorem sends_carry_peer_cid remote :
  (remote <> [] -> wrap_cid remote = Some remote) /\ (remote = [] -> wrap_cid remote = None).
Proof. split; intro H; destruct remote; try reflexivity; congruence. Qed.
