(* C15 - executable model of /repo/internal/rrc/rrc.go (rrc.Manager) as a pure state machine.
   Definitions only; proofs are in C15ManagerSound.v.

   Abstractions (stated, not hidden):
   - an address is the key [pathKey addr] = Network ++ "\x00" ++ String; [sameAddress l r] is
     equality of that key (true for net.Addr values whose Network/String contain no NUL byte;
     a nil address is one more key).  Addresses are therefore an opaque [N].
   - time is an explicit argument [now] (nanoseconds on any monotone scale whose origin is not
     after the zero time.Time, so that the zero Time is represented by 0 and every real
     time.Now() is > 0).  [time.Now().Before(x)] is [now <? x].
   - the 8-byte cookie is a number; crypto/rand supplies it, here it is an INPUT of [start]
     (the harness reports the cookie the implementation drew).  crypto/rand.Read does not
     return errors (Go >= 1.24 aborts the process instead), so that branch is not modelled.
   - the per-path time.AfterFunc callback is the explicit operation [timer_fire a now]; it may be
     scheduled at any moment (its body re-checks the expiry), so theorems quantified over all
     operation sequences cover every timer scheduling, including "never fires". *)
From DtlsV Require Import Lib.Bytes.
Open Scope N_scope.

Definition addr := N.

Definition MAX64 : N := 18446744073709551615.          (* math.MaxUint64 *)
Definition TWO64 : N := 18446744073709551616.
Definition TIMEOUT : N := 1000000000.                  (* pathValidationTimeout = time.Second, ns *)

Record path := mkPath {
  p_recv : N;        (* receivedBytes uint64 *)
  p_sent : N;        (* sentBytes uint64 *)
  p_cookie : N;      (* cookie [8]byte *)
  p_pending : bool;  (* challengePending *)
  p_expires : N      (* expiresAt; 0 = zero time.Time *)
}.

Definition fresh_path : path := mkPath 0 0 0 false 0.   (* &path{} *)

(* m.paths : map[string]*path, as an association list with at most one binding per key
   (maintained by [pset]/[pdel]; nil map = []). *)
Definition paths := list (addr * path).

Fixpoint pget (a : addr) (s : paths) : option path :=
  match s with
  | [] => None
  | (b, p) :: s' => if a =? b then Some p else pget a s'
  end.

Fixpoint pdel (a : addr) (s : paths) : paths :=
  match s with
  | [] => []
  | (b, p) :: s' => if a =? b then pdel a s' else (b, p) :: pdel a s'
  end.

Definition pset (a : addr) (p : path) (s : paths) : paths := (a, p) :: pdel a s.

(* !time.Now().Before(p.expiresAt) *)
Definition expired (now : N) (p : path) : bool := p_expires p <=? now.

(* touchLocked: expiresAt = now + 1 s (timer (re)armed for the same instant) *)
Definition touch (now : N) (p : path) : path :=
  mkPath (p_recv p) (p_sent p) (p_cookie p) (p_pending p) (now + TIMEOUT).

(* pathLocked: the existing path unless absent or (expiresAt non-zero and reached) *)
Definition path_locked (now : N) (a : addr) (s : paths) : path :=
  match pget a s with
  | None => fresh_path
  | Some p => if negb (p_expires p =? 0) && expired now p then fresh_path else p
  end.

(* saturating add of recordReceived *)
Definition sat_add (r b : N) : N := if MAX64 - r <? b then MAX64 else r + b.

(* recordReceived(addr, activeAddr, wireBytes) *)
Definition record_received (a active : addr) (bytes now : N) (s : paths) : paths :=
  if (bytes =? 0) || (a =? active) then s
  else
    let p := path_locked now a s in
    let p1 := mkPath (sat_add (p_recv p) bytes) (p_sent p) (p_cookie p) (p_pending p) (p_expires p) in
    let p2 := if p_pending p1 then p1 else touch now p1 in
    pset a p2 s.

(* Start(enabled, addr, activeAddr) with the drawn cookie as input; result = ok *)
Definition start (enabled : bool) (a active : addr) (cookie now : N) (s : paths) : paths * bool :=
  if negb enabled || (a =? active) then (s, false)
  else
    let p := path_locked now a s in
    if p_pending p then (s, false)   (* p is the stored, unexpired path: map unchanged *)
    else (pset a (touch now (mkPath (p_recv p) (p_sent p) cookie true (p_expires p))) s, true).

(* Cancel(addr, cookie) *)
Definition cancel (a : addr) (cookie now : N) (s : paths) : paths :=
  match pget a s with
  | Some p =>
      if p_pending p && (p_cookie p =? cookie)
      then pset a (touch now (mkPath (p_recv p) (p_sent p) (p_cookie p) false (p_expires p))) s
      else s
  | None => s
  end.

(* HandleResponse(addr, cookie) *)
Definition handle_response (a : addr) (cookie now : N) (s : paths) : paths * bool :=
  match pget a s with
  | None => (s, false)
  | Some p =>
      if negb (p_pending p) || negb (p_cookie p =? cookie) then (s, false)
      else if expired now p then (pdel a s, false)
      else ([], true)                                   (* clear(m.paths) *)
  end.

(* limit of Reserve: receivedBytes*3, or MaxUint64 when that would overflow *)
Definition limit_of (r : N) : N := if MAX64 / 3 <? r then MAX64 else (r * 3) mod TWO64.

(* Reserve(addr, activeAddr, wireBytes); result true = nil error *)
Definition reserve (a active : addr) (bytes now : N) (s : paths) : paths * bool :=
  if a =? active then (s, true)
  else match pget a s with
       | None => (s, false)
       | Some p =>
           if expired now p then (s, false)
           else
             let limit := limit_of (p_recv p) in
             if (limit <=? p_sent p) || (limit - p_sent p <? bytes) then (s, false)
             else (pset a (mkPath (p_recv p) ((p_sent p + bytes) mod TWO64) (p_cookie p)
                                  (p_pending p) (p_expires p)) s, true)
       end.

(* the AfterFunc callback of the path currently stored under [a] *)
Definition timer_fire (a : addr) (now : N) (s : paths) : paths :=
  match pget a s with
  | Some p => if expired now p then pdel a s else s
  | None => s
  end.

(* every armed timer whose instant has been reached has run (what testing/synctest guarantees
   after the clock moved and the bubble is idle again): one [timer_fire] per stored key *)
Definition fire_all (now : N) (ks : list addr) (s : paths) : paths :=
  fold_left (fun acc a => timer_fire a now acc) ks s.
Definition purge (now : N) (s : paths) : paths := fire_all now (map fst s) s.

Inductive op :=
| ORecv (a active : addr) (bytes now : N)
| OStart (enabled : bool) (a active : addr) (cookie now : N)
| OCancel (a : addr) (cookie now : N)
| OResp (a : addr) (cookie now : N)
| OReserve (a active : addr) (bytes now : N)
| OTimer (a : addr) (now : N)
| OPurge (now : N).

(* one operation: new state and its boolean result (true where the Go function has none) *)
Definition step (s : paths) (o : op) : paths * bool :=
  match o with
  | ORecv a act b now => (record_received a act b now s, true)
  | OStart en a act c now => start en a act c now s
  | OCancel a c now => (cancel a c now s, true)
  | OResp a c now => handle_response a c now s
  | OReserve a act b now => reserve a act b now s
  | OTimer a now => (timer_fire a now s, true)
  | OPurge now => (purge now s, true)
  end.

Fixpoint run (s : paths) (ops : list op) : paths :=
  match ops with
  | [] => s
  | o :: ops' => run (fst (step s o)) ops'
  end.

(* results of all operations, in order *)
Fixpoint results (s : paths) (ops : list op) : list bool :=
  match ops with
  | [] => []
  | o :: ops' => snd (step s o) :: results (fst (step s o)) ops'
  end.
