(* C15 - proofs about the rrc.Manager model (C15Manager.v): amplification invariant over
   arbitrary operation sequences (including saturation and any timer scheduling), Reserve and
   HandleResponse specifications, "at most one accepted response per challenge". *)
From Coq Require Import ZifyN ZifyNat ZifyBool.
From DtlsV Require Import Lib.Bytes Rrc.C15Manager.
Open Scope N_scope.

(* ---------------------------------------------------------------- map lemmas *)

Lemma pget_In a s p : pget a s = Some p -> In (a, p) s.
Proof.
  induction s as [|[b q] s IH]; cbn [pget]; [discriminate|].
  destruct (N.eqb_spec a b) as [->|Hne]; intro H.
  - inversion H; subst. now left.
  - right. now apply IH.
Qed.

Lemma In_pdel a b q s : In (b, q) (pdel a s) -> In (b, q) s /\ b <> a.
Proof.
  induction s as [|[c r] s IH]; cbn [pdel]; [intros []|].
  destruct (N.eqb_spec a c) as [->|Hne]; intro H.
  - destruct (IH H) as [H1 H2]. split; [now right|assumption].
  - destruct H as [H|H].
    + inversion H; subst. split; [now left|congruence].
    + destruct (IH H) as [H1 H2]. split; [now right|assumption].
Qed.

Lemma In_pset a p b q s : In (b, q) (pset a p s) -> (b = a /\ q = p) \/ (In (b, q) s /\ b <> a).
Proof.
  unfold pset. intros [H|H].
  - inversion H; subst. now left.
  - right. now apply In_pdel.
Qed.

Lemma pget_pdel_same a s : pget a (pdel a s) = None.
Proof.
  induction s as [|[b q] s IH]; cbn [pdel pget]; [reflexivity|].
  destruct (N.eqb_spec a b) as [->|Hne]; [assumption|].
  cbn [pget]. destruct (N.eqb_spec a b); [contradiction|assumption].
Qed.

Lemma pget_pdel_other a b s : a <> b -> pget b (pdel a s) = pget b s.
Proof.
  intro Hne. induction s as [|[c q] s IH]; cbn [pdel pget]; [reflexivity|].
  destruct (N.eqb_spec a c) as [->|Hac].
  - destruct (N.eqb_spec b c); [congruence|assumption].
  - cbn [pget]. destruct (N.eqb_spec b c); [reflexivity|assumption].
Qed.

Lemma pget_pset_same a p s : pget a (pset a p s) = Some p.
Proof. unfold pset. cbn [pget]. now rewrite N.eqb_refl. Qed.

Lemma pget_pset_other a b p s : a <> b -> pget b (pset a p s) = pget b s.
Proof.
  intro Hne. unfold pset. cbn [pget].
  destruct (N.eqb_spec b a); [congruence|]. now apply pget_pdel_other.
Qed.

(* ---------------------------------------------------------------- arithmetic *)

Lemma max64_div3 : MAX64 / 3 = 6148914691236517205. Proof. reflexivity. Qed.

Lemma limit_of_le3 r : limit_of r <= 3 * r.
Proof.
  unfold limit_of. rewrite max64_div3.
  destruct (N.ltb_spec 6148914691236517205 r) as [H|H].
  - unfold MAX64. lia.
  - rewrite N.mod_small; unfold TWO64; lia.
Qed.

Lemma limit_of_le_max r : limit_of r <= MAX64.
Proof.
  unfold limit_of. rewrite max64_div3.
  destruct (N.ltb_spec 6148914691236517205 r) as [H|H].
  - lia.
  - rewrite N.mod_small; unfold TWO64, MAX64; lia.
Qed.

Lemma limit_of_mono r1 r2 : r1 <= r2 -> limit_of r1 <= limit_of r2.
Proof.
  intro Hle. unfold limit_of. rewrite max64_div3.
  destruct (N.ltb_spec 6148914691236517205 r1) as [H1|H1];
  destruct (N.ltb_spec 6148914691236517205 r2) as [H2|H2]; try lia.
  - rewrite N.mod_small; unfold TWO64, MAX64; lia.
  - rewrite !N.mod_small; unfold TWO64; lia.
Qed.

Lemma sat_add_ge r b : r <= MAX64 -> r <= sat_add r b.
Proof. intro Hr. unfold sat_add. destruct (N.ltb_spec (MAX64 - r) b); unfold MAX64 in *; lia. Qed.

Lemma sat_add_le_max r b : r <= MAX64 -> sat_add r b <= MAX64.
Proof. intro H. unfold sat_add. destruct (N.ltb_spec (MAX64 - r) b); unfold MAX64 in *; lia. Qed.

(* the counter never over-counts: it is the true sum, or the true sum was larger *)
Lemma sat_add_le_sum r b : sat_add r b <= r + b.
Proof. unfold sat_add. destruct (N.ltb_spec (MAX64 - r) b); unfold MAX64 in *; lia. Qed.

(* ---------------------------------------------------------------- the amplification invariant *)

Definition path_ok (p : path) : Prop :=
  p_recv p <= MAX64 /\ p_sent p <= limit_of (p_recv p).

Definition inv (s : paths) : Prop := forall a p, In (a, p) s -> path_ok p.

Lemma fresh_ok : path_ok fresh_path.
Proof. unfold path_ok, fresh_path, limit_of; cbn. split; [unfold MAX64; lia|reflexivity]. Qed.

Lemma inv_nil : inv [].
Proof. intros a p []. Qed.

Lemma inv_pdel a s : inv s -> inv (pdel a s).
Proof. intros H b q Hin. apply In_pdel in Hin. now apply (H b q). Qed.

Lemma inv_pset a p s : inv s -> path_ok p -> inv (pset a p s).
Proof.
  intros H Hp b q Hin. apply In_pset in Hin. destruct Hin as [[-> ->]|[Hin _]]; [assumption|].
  now apply (H b q).
Qed.

Lemma path_locked_ok now a s : inv s -> path_ok (path_locked now a s).
Proof.
  intro H. unfold path_locked. destruct (pget a s) as [p|] eqn:E; [|apply fresh_ok].
  destruct (negb (p_expires p =? 0) && expired now p); [apply fresh_ok|].
  apply (H a p). now apply pget_In.
Qed.

Lemma touch_ok now p : path_ok p -> path_ok (touch now p).
Proof. intro H. exact H. Qed.

Lemma inv_record_received a act b now s : inv s -> inv (record_received a act b now s).
Proof.
  intro H. unfold record_received.
  destruct ((b =? 0) || (a =? act)); [assumption|].
  apply inv_pset; [assumption|].
  pose proof (path_locked_ok now a s H) as [Hr Hs].
  set (p := path_locked now a s) in *.
  assert (Hok : path_ok (mkPath (sat_add (p_recv p) b) (p_sent p) (p_cookie p) (p_pending p) (p_expires p))).
  { split; cbn [p_recv p_sent].
    - now apply sat_add_le_max.
    - eapply N.le_trans; [exact Hs|]. apply limit_of_mono, sat_add_ge; assumption. }
  cbn [p_pending]. destruct (p_pending p); [exact Hok|apply touch_ok; exact Hok].
Qed.

Lemma inv_start en a act c now s : inv s -> inv (fst (start en a act c now s)).
Proof.
  intro H. unfold start.
  destruct (negb en || (a =? act)); [assumption|].
  pose proof (path_locked_ok now a s H) as Hp.
  destruct (p_pending (path_locked now a s)); cbn [fst]; [assumption|].
  apply inv_pset; [assumption|]. exact Hp.
Qed.

Lemma inv_cancel a c now s : inv s -> inv (cancel a c now s).
Proof.
  intro H. unfold cancel. destruct (pget a s) as [p|] eqn:E; [|assumption].
  destruct (p_pending p && (p_cookie p =? c)); [|assumption].
  apply inv_pset; [assumption|]. apply (H a p). now apply pget_In.
Qed.

Lemma inv_handle_response a c now s : inv s -> inv (fst (handle_response a c now s)).
Proof.
  intro H. unfold handle_response. destruct (pget a s) as [p|]; [|assumption].
  destruct (negb (p_pending p) || negb (p_cookie p =? c)); [assumption|].
  destruct (expired now p); cbn [fst]; [now apply inv_pdel|apply inv_nil].
Qed.

Lemma inv_reserve a act b now s : inv s -> inv (fst (reserve a act b now s)).
Proof.
  intro H. unfold reserve. destruct (a =? act); [assumption|].
  destruct (pget a s) as [p|] eqn:E; [|assumption].
  destruct (expired now p); [assumption|].
  destruct (N.leb_spec (limit_of (p_recv p)) (p_sent p)) as [H1|H1]; cbn [orb fst]; [assumption|].
  destruct (N.ltb_spec (limit_of (p_recv p) - p_sent p) b) as [H2|H2]; cbn [fst]; [assumption|].
  apply inv_pset; [assumption|].
  destruct (H a p (pget_In _ _ _ E)) as [Hr Hs].
  pose proof (limit_of_le_max (p_recv p)) as Hm.
  split; cbn [p_recv p_sent]; [assumption|].
  rewrite N.mod_small; unfold TWO64, MAX64 in *; lia.
Qed.

Lemma inv_timer_fire a now s : inv s -> inv (timer_fire a now s).
Proof.
  intro H. unfold timer_fire. destruct (pget a s) as [p|]; [|assumption].
  destruct (expired now p); [now apply inv_pdel|assumption].
Qed.

Lemma inv_fire_all now ks s : inv s -> inv (fire_all now ks s).
Proof.
  unfold fire_all. revert s. induction ks as [|k ks IH]; intros s H; cbn [fold_left]; [assumption|].
  apply IH. now apply inv_timer_fire.
Qed.

Lemma inv_step s o : inv s -> inv (fst (step s o)).
Proof.
  intro H. destruct o; cbn [step fst].
  - now apply inv_record_received.
  - now apply inv_start.
  - now apply inv_cancel.
  - now apply inv_handle_response.
  - now apply inv_reserve.
  - now apply inv_timer_fire.
  - now apply inv_fire_all.
Qed.

Lemma inv_run ops : forall s, inv s -> inv (run s ops).
Proof.
  induction ops as [|o ops IH]; intros s H; cbn [run]; [assumption|].
  apply IH. now apply inv_step.
Qed.

(* AMPLIFICATION (manager level): after ANY sequence of operations from the zero-value Manager,
   every stored candidate path has sentBytes <= 3 * receivedBytes (and both fit uint64, the
   received counter being saturating, i.e. never larger than the bytes really counted). *)
Theorem amplification ops a p :
  pget a (run [] ops) = Some p ->
  p_sent p <= 3 * p_recv p /\ p_sent p <= MAX64 /\ p_recv p <= MAX64.
Proof.
  intro Hget. destruct (inv_run ops [] inv_nil a p (pget_In _ _ _ Hget)) as [Hr Hs].
  pose proof (limit_of_le3 (p_recv p)). pose proof (limit_of_le_max (p_recv p)). lia.
Qed.

(* Reserve succeeds for a non-active address only for a stored, unexpired path, within budget. *)
Theorem reserve_sound a act b now s s' :
  reserve a act b now s = (s', true) -> a <> act ->
  exists p, pget a s = Some p /\ now < p_expires p /\ p_sent p + b <= 3 * p_recv p /\
            p_sent p + b <= MAX64 /\
            s' = pset a (mkPath (p_recv p) (p_sent p + b) (p_cookie p) (p_pending p) (p_expires p)) s.
Proof.
  unfold reserve. intros H Hne. destruct (N.eqb_spec a act); [contradiction|].
  destruct (pget a s) as [p|]; [|discriminate].
  unfold expired in H. destruct (N.leb_spec (p_expires p) now) as [He|He]; [discriminate|].
  destruct (N.leb_spec (limit_of (p_recv p)) (p_sent p)) as [H1|H1]; cbn [orb] in H; [discriminate|].
  destruct (N.ltb_spec (limit_of (p_recv p) - p_sent p) b) as [H2|H2]; [discriminate|].
  pose proof (limit_of_le3 (p_recv p)). pose proof (limit_of_le_max (p_recv p)) as Hm.
  exists p. repeat split; try lia.
  inversion H. rewrite N.mod_small; [reflexivity|]. unfold TWO64, MAX64 in *; lia.
Qed.

Corollary reserve_unknown_or_expired_fails a act b now s :
  a <> act -> (pget a s = None \/ exists p, pget a s = Some p /\ p_expires p <= now) ->
  reserve a act b now s = (s, false).
Proof.
  intros Hne H. unfold reserve. destruct (N.eqb_spec a act); [contradiction|].
  destruct H as [->|[p [-> He]]]; [reflexivity|].
  unfold expired. destruct (N.leb_spec (p_expires p) now); [reflexivity|lia].
Qed.

(* ---------------------------------------------------------------- HandleResponse *)

Theorem response_accept_spec a c now s s' :
  handle_response a c now s = (s', true) <->
  (s' = [] /\ exists p, pget a s = Some p /\ p_pending p = true /\ p_cookie p = c /\ now < p_expires p).
Proof.
  unfold handle_response. split.
  - destruct (pget a s) as [p|]; [|discriminate].
    destruct (p_pending p) eqn:Ep; cbn [negb orb]; [|discriminate].
    destruct (N.eqb_spec (p_cookie p) c) as [Hc|Hc]; cbn [negb]; [|discriminate].
    unfold expired. destruct (N.leb_spec (p_expires p) now) as [He|He]; [discriminate|].
    intro H. inversion H. split; [reflexivity|]. exists p. repeat split; try assumption; reflexivity.
  - intros [-> [p [-> [Hp [Hc He]]]]]. rewrite Hp. cbn [negb orb].
    destruct (N.eqb_spec (p_cookie p) c); [|contradiction]. cbn [negb].
    unfold expired. destruct (N.leb_spec (p_expires p) now); [lia|reflexivity].
Qed.

(* wrong address / nothing pending / wrong cookie / late: rejected *)
Theorem response_rejected a c now s :
  (pget a s = None \/
   exists p, pget a s = Some p /\ (p_pending p = false \/ p_cookie p <> c \/ p_expires p <= now)) ->
  snd (handle_response a c now s) = false.
Proof.
  unfold handle_response. intros [->|[p [-> H]]]; [reflexivity|].
  destruct (p_pending p); cbn [negb orb]; [|reflexivity].
  destruct (N.eqb_spec (p_cookie p) c) as [Hc|Hc]; cbn [negb]; [|reflexivity].
  unfold expired. destruct (N.leb_spec (p_expires p) now) as [He|He]; [reflexivity|].
  destruct H as [H|[H|H]]; [discriminate|contradiction|lia].
Qed.

(* an accepted response clears every path: the very same response (or any other) presented again,
   from any address, at any time, is rejected until a new Start *)
Theorem response_not_accepted_twice a c now s s' :
  handle_response a c now s = (s', true) ->
  forall a' c' now', handle_response a' c' now' s' = (s', false).
Proof.
  intro H. apply response_accept_spec in H. destruct H as [-> _]. reflexivity.
Qed.

(* ---------------------------------------------------------------- accepted <= started *)

Fixpoint npending (s : paths) : N :=
  match s with
  | [] => 0
  | (_, p) :: s' => (if p_pending p then 1 else 0) + npending s'
  end.

Lemma npending_pdel_le a s : npending (pdel a s) <= npending s.
Proof.
  induction s as [|[b q] s IH]; cbn [pdel npending]; [lia|].
  destruct (a =? b); cbn [npending]; lia.
Qed.

Lemma npending_pdel_pending a s p :
  pget a s = Some p -> p_pending p = true -> npending (pdel a s) + 1 <= npending s.
Proof.
  induction s as [|[b q] s IH]; cbn [pget pdel npending]; [discriminate|].
  destruct (N.eqb_spec a b) as [->|Hne]; intros Hg Hp.
  - inversion Hg; subst. rewrite Hp. pose proof (npending_pdel_le b s). lia.
  - cbn [npending]. specialize (IH Hg Hp). lia.
Qed.

Lemma npending_pset a p s : npending (pset a p s) = (if p_pending p then 1 else 0) + npending (pdel a s).
Proof. reflexivity. Qed.

(* counters of successful Start / accepted HandleResponse in a run *)
Fixpoint nstarts (s : paths) (ops : list op) : N :=
  match ops with
  | [] => 0
  | o :: ops' =>
      (match o with OStart _ _ _ _ _ => if snd (step s o) then 1 else 0 | _ => 0 end)
      + nstarts (fst (step s o)) ops'
  end.

Fixpoint naccepts (s : paths) (ops : list op) : N :=
  match ops with
  | [] => 0
  | o :: ops' =>
      (match o with OResp _ _ _ => if snd (step s o) then 1 else 0 | _ => 0 end)
      + naccepts (fst (step s o)) ops'
  end.

Lemma npending_path_locked_replace now a s q :
  p_pending q = p_pending (path_locked now a s) ->
  npending (pset a q s) <= npending s.
Proof.
  intro Hq. rewrite npending_pset. unfold path_locked in Hq.
  destruct (pget a s) as [p|] eqn:E.
  - destruct (negb (p_expires p =? 0) && expired now p).
    + cbn in Hq. rewrite Hq. pose proof (npending_pdel_le a s). lia.
    + rewrite Hq. destruct (p_pending p) eqn:Ep.
      * pose proof (npending_pdel_pending a s p E Ep). lia.
      * pose proof (npending_pdel_le a s). lia.
  - cbn in Hq. rewrite Hq. pose proof (npending_pdel_le a s). lia.
Qed.

Lemma npending_step s o :
  npending (fst (step s o))
  + (match o with OResp _ _ _ => if snd (step s o) then 1 else 0 | _ => 0 end)
  <= npending s
  + (match o with OStart _ _ _ _ _ => if snd (step s o) then 1 else 0 | _ => 0 end).
Proof.
  destruct o as [a act b now|en a act c now|a c now|a c now|a act b now|a now|now]; cbn [step fst snd].
  - (* recv *)
    unfold record_received. destruct ((b =? 0) || (a =? act)); [lia|].
    match goal with |- npending (pset a ?q s) + 0 <= _ => pose proof (npending_path_locked_replace now a s q) as H end.
    cbn [p_pending] in H.
    destruct (p_pending (path_locked now a s)) eqn:Ep; cbn [p_pending touch] in H |- *;
      specialize (H eq_refl); lia.
  - (* start *)
    unfold start. destruct (negb en || (a =? act)); cbn [fst snd]; [lia|].
    destruct (p_pending (path_locked now a s)) eqn:Ep; cbn [fst snd]; [lia|].
    rewrite npending_pset. cbn [touch p_pending]. pose proof (npending_pdel_le a s). lia.
  - (* cancel *)
    unfold cancel. destruct (pget a s) as [p|] eqn:E; [|lia].
    destruct (p_pending p && (p_cookie p =? c)); [|lia].
    rewrite npending_pset. cbn [touch p_pending]. pose proof (npending_pdel_le a s). lia.
  - (* response *)
    unfold handle_response. destruct (pget a s) as [p|] eqn:E; cbn [fst snd]; [|lia].
    destruct (p_pending p) eqn:Ep; cbn [negb orb fst snd]; [|lia].
    destruct (negb (p_cookie p =? c)); cbn [fst snd]; [lia|].
    destruct (expired now p); cbn [fst snd npending].
    + pose proof (npending_pdel_le a s). lia.
    + pose proof (npending_pdel_pending a s p E Ep). lia.
  - (* reserve *)
    unfold reserve. destruct (a =? act); cbn [fst]; [lia|].
    destruct (pget a s) as [p|] eqn:E; cbn [fst]; [|lia].
    destruct (expired now p); cbn [fst]; [lia|].
    destruct ((limit_of (p_recv p) <=? p_sent p) || (limit_of (p_recv p) - p_sent p <? b)); cbn [fst]; [lia|].
    rewrite npending_pset. cbn [p_pending].
    destruct (p_pending p) eqn:Ep.
    + pose proof (npending_pdel_pending a s p E Ep). lia.
    + pose proof (npending_pdel_le a s). lia.
  - (* timer *)
    unfold timer_fire. destruct (pget a s) as [p|]; [|lia].
    destruct (expired now p); [|lia]. pose proof (npending_pdel_le a s). lia.
  - (* purge *)
    unfold purge, fire_all. generalize (map fst s). intro ks. revert s.
    induction ks as [|k ks IH]; intro s; cbn [fold_left]; [lia|].
    specialize (IH (timer_fire k now s)).
    assert (npending (timer_fire k now s) <= npending s).
    { unfold timer_fire. destruct (pget k s) as [p|]; [|lia].
      destruct (expired now p); [|lia]. apply npending_pdel_le. }
    lia.
Qed.

Lemma accepts_le_starts_gen ops : forall s,
  npending (run s ops) + naccepts s ops <= npending s + nstarts s ops.
Proof.
  induction ops as [|o ops IH]; intro s; cbn [run naccepts nstarts]; [lia|].
  specialize (IH (fst (step s o))). pose proof (npending_step s o). lia.
Qed.

(* CHALLENGE FRESHNESS: over any operation sequence from the zero-value Manager, the number of
   accepted responses never exceeds the number of successful Starts (each acceptance consumes
   every outstanding challenge). *)
Theorem accepts_le_starts ops : naccepts [] ops <= nstarts [] ops.
Proof. pose proof (accepts_le_starts_gen ops []). cbn [npending] in *. lia. Qed.

(* Why the timer is an explicit operation rather than "lazy expiry": Cancel does not look at the
   clock, so an expired entry whose timer callback has not run yet is revived with its budget by a
   late Cancel, whereas after the callback ran the entry is gone.  (Both satisfy the invariant.) *)
Example cancel_not_lazy :
  let s := fst (start true 7 1 99 0 (record_received 7 1 100 0 [])) in
  snd (reserve 7 1 10 TIMEOUT (cancel 7 99 TIMEOUT s)) = true /\
  snd (reserve 7 1 10 TIMEOUT (cancel 7 99 TIMEOUT (timer_fire 7 TIMEOUT s))) = false.
Proof. vm_compute. split; reflexivity. Qed.
