(* C15 - model of "the newest record" as conn.go decides it, and of its use by the connection:
   /repo/conn.go protectedReplayMarker / legacyReplayMarker (one replay window per epoch),
   Conn.newestRecord (per-epoch "a record was accepted" flag, comparison with the remote epoch),
   handleFutureLegacyPacket / openCiphertextRecord (a record of an epoch above the remote epoch is
   never admitted), and handleIncomingPacket (the verdict is the [latest] argument of
   returnRoutabilityConn.HandleCandidate).  Definitions only; proofs in C15NewestSound.v.

   The verdict has had three forms ([rule]):
   [RSeen]    the code now (696da78):
       newest  =  (first accepted record of its epoch  \/  above everything accepted in its epoch)
                  /\  no record of a HIGHER epoch has been accepted
   [RAuth]    91521a5 (F71) + 0538fb0 (F72): the second conjunct was "epoch = remote epoch", the
              epoch the peer is AUTHORISED to use; safe, but after the peer's KeyUpdate was
              processed and our ACK lost nothing the peer can still send is newest (no challenge,
              connection wedged once the peer's address changes)
   [RWindow]  before: the replay window's own answer, "sequence number 0, or above the window
              head", within the record's epoch only. *)
From DtlsV Require Import Lib.Bytes Rec.Window Rrc.C15Manager Rrc.C15Conn.
Open Scope N_scope.

Definition NMAXSEQ : N := 281474976710655.      (* recordlayer.MaxSequenceNumber *)
Definition NWIN : nat := 64.                    (* default replay protection window *)

(* remote (read) epoch; replay windows by epoch (absent = fresh detector); epochs of the records
   accepted so far, newest first (replayAccepted[e] = e occurs in the list) *)
Record nstate := mkN { n_remote : N; n_wins : list (N * win); n_seen : list N }.

Definition ninit (remote : N) : nstate := mkN remote [] [].

Fixpoint win_of (ep : N) (ws : list (N * win)) : win :=
  match ws with
  | [] => win_init NWIN
  | (e, w) :: ws' => if e =? ep then w else win_of ep ws'
  end.

Definition win_set (ep : N) (w : win) (ws : list (N * win)) : list (N * win) := (ep, w) :: ws.

Definition seen (ep : N) (st : nstate) : bool := existsb (N.eqb ep) (n_seen st).

(* a protected record of epoch [ep] numbered [seq] passes the epoch test and the replay Check *)
Definition nadmit (st : nstate) (ep seq : N) : bool :=
  (0 <? ep) && (ep <=? n_remote st) && check NMAXSEQ (win_of ep (n_wins st)) seq.

Inductive rule := RWindow | RAuth | RSeen.

(* a record of an epoch above [ep] has been accepted (loop over replayAccepted[ep+1..]) *)
Definition seen_higher (ep : N) (st : nstate) : bool := existsb (fun e => ep <? e) (n_seen st).

(* Conn.newestRecord(epoch, sequenceNumber, latest) *)
Definition newest_verdict (r : rule) (st : nstate) (ep seq : N) (latest : bool) : bool :=
  match r with
  | RWindow => latest
  | RAuth => if (seq =? 0) && seen ep st then false else latest && (ep =? n_remote st)
  | RSeen => if (seq =? 0) && seen ep st then false else latest && negb (seen_higher ep st)
  end.

(* markPacketAsValid(): the window accepts, the verdict is computed, the epoch is flagged *)
Definition naccept (fixed : rule) (st : nstate) (ep seq : N) : nstate * bool :=
  let '(w', latest) := accept NMAXSEQ (win_of ep (n_wins st)) seq in
  (mkN (n_remote st) (win_set ep w' (n_wins st)) (ep :: n_seen st),
   newest_verdict fixed st ep seq latest).

(* SetRemoteEpoch: the read epoch only grows (ChangeCipherSpec / KeyUpdate / handshake keys) *)
Definition nremote (e : N) (st : nstate) : nstate :=
  if n_remote st <? e then mkN e (n_wins st) (n_seen st) else st.

(* ---------------------------------------------------------------- record stream alone *)

Inductive nevent :=
| NRecord (ep seq : N)          (* an authentic protected record arrives *)
| NRemote (e : N).              (* the remote epoch is raised *)

(* result: new state and, for an admitted record, Some (epoch, seq, verdict) *)
Definition nstep (fixed : rule) (st : nstate) (ev : nevent) : nstate * option (N * N * bool) :=
  match ev with
  | NRecord ep seq =>
      if nadmit st ep seq then
        let '(st', v) := naccept fixed st ep seq in (st', Some (ep, seq, v))
      else (st, None)
  | NRemote e => (nremote e st, None)
  end.

(* the admitted records of a run, oldest first, with their verdicts *)
Fixpoint nrun (fixed : rule) (st : nstate) (evs : list nevent) : nstate * list (N * N * bool) :=
  match evs with
  | [] => (st, [])
  | ev :: evs' =>
      let '(st1, o) := nstep fixed st ev in
      let '(st2, acc) := nrun fixed st1 evs' in
      (st2, match o with Some x => x :: acc | None => acc end)
  end.

(* RFC 9146 section 6: "newer" is by epoch, then by sequence number *)
Definition lex_lt (a b : N * N) : Prop := fst a < fst b \/ (fst a = fst b /\ snd a < snd b).

(* ---------------------------------------------------------------- composed with the connection *)

(* one arriving protected record: epoch, sequence number, connection-ID field of its header (None =
   ordinary record), and the remaining inputs of C15Conn.step_record ([r_latest] of [a_recv] is
   ignored: the verdict computed here takes its place) *)
Record arrival := mkArr { a_ep : N; a_seq : N; a_rc : option bytes; a_recv : recv }.

Definition with_latest (r : recv) (l : bool) : recv :=
  mkRecv (r_from r) (r_hascid r) l (r_bytes r) (r_kind r) (r_cookie r) (r_wsize r) (r_w r) (r_now r).

Inductive eevent :=
| EArrive (a : arrival)
| EEpoch (e : N)                (* the remote epoch is raised *)
| EConn (ev : event).           (* timer callbacks of the rrc manager *)

Record estate := mkES { e_n : nstate; e_c : cstate }.

(* result: new state, RRC records produced, and the admitted record (epoch, seq) if any.
   [local] is the endpoint's own connection ID (C15Conn.record_admitted). *)
Definition estep (fixed : rule) (local : bytes) (st : estate) (ev : eevent)
  : estate * list out * option (N * N) :=
  match ev with
  | EArrive a =>
      if nadmit (e_n st) (a_ep a) (a_seq a) && record_admitted local (a_rc a) then
        let '(n', v) := naccept fixed (e_n st) (a_ep a) (a_seq a) in
        let '(c', outs) := cstep (e_c st) (ERecord (with_latest (a_recv a) v)) in
        (mkES n' c', outs, Some (a_ep a, a_seq a))
      else (st, [], None)
  | EEpoch e => (mkES (nremote e (e_n st)) (e_c st), [], None)
  | EConn (ERecord _) => (st, [], None)          (* records enter through EArrive only *)
  | EConn ev' => let '(c', outs) := cstep (e_c st) ev' in (mkES (e_n st) c', outs, None)
  end.

(* final state and the admitted records, oldest first *)
Fixpoint erun (fixed : rule) (local : bytes) (st : estate) (evs : list eevent)
  : estate * list (N * N) :=
  match evs with
  | [] => (st, [])
  | ev :: evs' =>
      let '(st1, _, o) := estep fixed local st ev in
      let '(st2, acc) := erun fixed local st1 evs' in
      (st2, match o with Some x => x :: acc | None => acc end)
  end.


(* ---------------------------------------------------------------- the flags kept as a summary *)

(* The per-epoch flags replayAccepted[] can be kept as a two-field summary (one epoch + "is set",
   here [option N]) - provided the summary is the HIGHEST epoch in which a record was accepted
   ([KMax]: it only moves forward).  [KLast] is the tempting variant that overwrites it with the
   epoch of every accepted record, i.e. remembers the epoch accepted LAST. *)
Inductive keep := KMax | KLast.

Definition sum_update (k : keep) (s : option N) (ep : N) : option N :=
  match k, s with
  | KMax, Some e => Some (N.max e ep)
  | _, _ => Some ep
  end.

(* Conn.newestRecord over the summary: the first record of an epoch above the summary may be
   numbered 0; a record of an epoch below the summary is never the newest *)
Definition sum_verdict (s : option N) (ep seq : N) (latest : bool) : bool :=
  let first := match s with None => true | Some e => e <? ep end in
  let older := match s with None => false | Some e => ep <? e end in
  if older || ((seq =? 0) && negb first) then false else latest.

Record sstate := mkS { s_remote : N; s_wins : list (N * win); s_sum : option N }.

Definition sinit (remote : N) : sstate := mkS remote [] None.

Definition sadmit (st : sstate) (ep seq : N) : bool :=
  (0 <? ep) && (ep <=? s_remote st) && check NMAXSEQ (win_of ep (s_wins st)) seq.

Definition saccept (k : keep) (st : sstate) (ep seq : N) : sstate * bool :=
  let '(w', latest) := accept NMAXSEQ (win_of ep (s_wins st)) seq in
  (mkS (s_remote st) (win_set ep w' (s_wins st)) (sum_update k (s_sum st) ep),
   sum_verdict (s_sum st) ep seq latest).

Definition sremote (e : N) (st : sstate) : sstate :=
  if s_remote st <? e then mkS e (s_wins st) (s_sum st) else st.

Definition sstep (k : keep) (st : sstate) (ev : nevent) : sstate * option (N * N * bool) :=
  match ev with
  | NRecord ep seq =>
      if sadmit st ep seq then
        let '(st', v) := saccept k st ep seq in (st', Some (ep, seq, v))
      else (st, None)
  | NRemote e => (sremote e st, None)
  end.

Fixpoint srun (k : keep) (st : sstate) (evs : list nevent) : sstate * list (N * N * bool) :=
  match evs with
  | [] => (st, [])
  | ev :: evs' =>
      let '(st1, o) := sstep k st ev in
      let '(st2, acc) := srun k st1 evs' in
      (st2, match o with Some x => x :: acc | None => acc end)
  end.

(* the running maximum of a list of records in the order "epoch, then sequence number" *)
Definition lex_ltb (a b : N * N) : bool :=
  (fst a <? fst b) || ((fst a =? fst b) && (snd a <? snd b)).

Fixpoint rmax (l : list (N * N)) : option (N * N) :=
  match l with
  | [] => None
  | x :: l' => match rmax l' with
               | None => Some x
               | Some m => Some (if lex_ltb m x then x else m)
               end
  end.

(* [p] is above the running maximum (anything is above the maximum of nothing) *)
Definition above (p : N * N) (m : option (N * N)) : Prop :=
  match m with None => True | Some q => lex_lt q p end.

Definition rec_of (x : N * N * bool) : N * N := fst x.

(* [s] is the maximum of the epochs [seenl] (None: no epoch yet) *)
Definition SumOk (s : option N) (seenl : list N) : Prop :=
  match s with
  | None => seenl = []
  | Some m => In m seenl /\ forall e, In e seenl -> e <= m
  end.
