(* C15 - proofs about Rrc/C15Newest.v: with the verdict of the code now (RSeen) a record is judged
   newest IF AND ONLY IF it is above (epoch, then sequence number) every record admitted before it,
   and a path challenge is produced only for such a record.  The earlier verdicts fail: RWindow (the
   replay window's own answer) is unsafe (F71: late record numbered 0; F72: record of a superseded
   epoch); RAuth (epoch = authorised epoch) is safe but not complete (peer's KeyUpdate processed,
   our ACK lost: nothing the peer can still send is newest). *)
From DtlsV Require Import Lib.Bytes Rec.Window Rrc.C15Manager Rrc.C15Conn Rrc.C15Newest.
Open Scope N_scope.

(* ---------------------------------------------------------------- the replay window's answer *)

Lemma accept_latest m w x :
  latest (fst (accept m w x)) = (if latest w <? x then x else latest w) /\
  (snd (accept m w x) = true <-> latest w < x \/ x = 0).
Proof.
  unfold accept. destruct (latest w <? x) eqn:E; cbn [fst snd latest].
  - split; [reflexivity|]. split; [|reflexivity]. intros _. left. apply N.ltb_lt. exact E.
  - split; [reflexivity|]. apply N.ltb_ge in E. split.
    + intro H. right. apply N.eqb_eq. exact H.
    + intros [H|H]; [lia|]. apply N.eqb_eq. exact H.
Qed.

(* ---------------------------------------------------------------- invariant *)

(* A = the records admitted so far (any order) *)
Definition NInv (st : nstate) (A : list (N * N)) : Prop :=
  (forall ep s, In (ep, s) A -> s <= latest (win_of ep (n_wins st))) /\
  (forall ep s, In (ep, s) A -> ep <= n_remote st) /\
  (forall ep, seen ep st = true <-> exists s, In (ep, s) A) /\
  (forall ep, 0 < latest (win_of ep (n_wins st)) -> In (ep, latest (win_of ep (n_wins st))) A) /\
  (forall ep, In ep (n_seen st) <-> exists s, In (ep, s) A).

Lemma ninv_init r : NInv (ninit r) [].
Proof.
  unfold NInv, ninit, seen; cbn [n_wins n_remote n_seen existsb In].
  split; [intros ep s []|]. split; [intros ep s []|].
  split; [intro ep; split; [discriminate | intros [s []]]|].
  split; [intros ep H; cbn [win_of win_init latest] in H; lia|].
  intro ep. split; [intros [] | intros [s []]].
Qed.

Lemma ninv_perm st A B : (forall p, In p A <-> In p B) -> NInv st A -> NInv st B.
Proof.
  intros HP (J1 & J2 & J3 & J4 & J5).
  split; [intros ep s H; apply J1; now apply HP|].
  split; [intros ep s H; apply J2 with s; now apply HP|].
  split; [intro ep; split;
          [intro H; destruct (proj1 (J3 ep) H) as [s Hs]; exists s; now apply HP
          | intros [s Hs]; apply J3; exists s; now apply HP]|].
  split; [intros ep H; apply HP; now apply J4|].
  intro ep; split;
    [intro H; destruct (proj1 (J5 ep) H) as [s Hs]; exists s; now apply HP
    | intros [s Hs]; apply J5; exists s; now apply HP].
Qed.

Lemma nadmit_epoch st ep seq : nadmit st ep seq = true -> ep <= n_remote st.
Proof.
  unfold nadmit. intro H. apply andb_prop in H. destruct H as [H _].
  apply andb_prop in H. destruct H as [_ H]. now apply N.leb_le.
Qed.

Lemma naccept_state fixed st ep seq :
  fst (naccept fixed st ep seq) =
  mkN (n_remote st) (win_set ep (fst (accept NMAXSEQ (win_of ep (n_wins st)) seq)) (n_wins st))
      (ep :: n_seen st).
Proof.
  unfold naccept. destruct (accept NMAXSEQ (win_of ep (n_wins st)) seq) as [w' l]. reflexivity.
Qed.

Lemma naccept_verdict fixed st ep seq :
  snd (naccept fixed st ep seq) =
  newest_verdict fixed st ep seq (snd (accept NMAXSEQ (win_of ep (n_wins st)) seq)).
Proof.
  unfold naccept. destruct (accept NMAXSEQ (win_of ep (n_wins st)) seq) as [w' l]. reflexivity.
Qed.

Lemma naccept_inv fixed st A ep seq :
  NInv st A -> nadmit st ep seq = true -> NInv (fst (naccept fixed st ep seq)) ((ep, seq) :: A).
Proof.
  intros (J1 & J2 & J3 & J4 & J5) Had. rewrite naccept_state.
  pose proof (accept_latest NMAXSEQ (win_of ep (n_wins st)) seq) as [HL _].
  set (w' := fst (accept NMAXSEQ (win_of ep (n_wins st)) seq)) in *.
  assert (Hge : latest (win_of ep (n_wins st)) <= latest w' /\ seq <= latest w').
  { rewrite HL. destruct (N.ltb_spec (latest (win_of ep (n_wins st))) seq); lia. }
  split; [|split; [|split; [|split]]]; cbn [n_wins n_remote n_seen].
  - intros ep' s H. unfold win_set. cbn [win_of].
    destruct (N.eqb_spec ep ep') as [He|He].
    + subst ep'. destruct H as [H|H].
      * inversion H; subst. apply Hge.
      * apply J1 in H. lia.
    + destruct H as [H|H]; [inversion H; subst; congruence|]. now apply J1.
  - intros ep' s [H|H].
    + inversion H; subst. eapply nadmit_epoch; eassumption.
    + now apply J2 with s.
  - intro ep0. unfold seen. cbn [n_seen existsb]. split.
    + intro H. apply orb_prop in H. destruct H as [H|H].
      * apply N.eqb_eq in H. subst. exists seq. now left.
      * destruct (proj1 (J3 ep0) H) as [s Hs]. exists s. now right.
    + intros [s [H|H]].
      * inversion H; subst. now rewrite N.eqb_refl.
      * apply orb_true_intro. right. apply J3. now exists s.
  - intros ep' Hp. unfold win_set in *. cbn [win_of] in *.
    destruct (N.eqb_spec ep ep') as [He|He].
    + subst ep'. rewrite HL in *.
      destruct (N.ltb_spec (latest (win_of ep (n_wins st))) seq); [now left|].
      right. now apply J4.
    + right. now apply J4.
  - intro ep0. cbn [In]. split.
    + intros [H|H]; [subst; exists seq; now left|].
      destruct (proj1 (J5 ep0) H) as [s Hs]. exists s. now right.
    + intros [s [H|H]]; [inversion H; now left|]. right. apply J5. now exists s.
Qed.

Lemma nremote_inv e st A : NInv st A -> NInv (nremote e st) A.
Proof.
  intros HI. pose proof HI as (J1 & J2 & J3 & J4 & J5). unfold nremote.
  destruct (N.ltb_spec (n_remote st) e); [|exact HI].
  split; [exact J1|]. split; [|split; [exact J3|split; [exact J4|exact J5]]].
  cbn [n_remote]. intros ep s H'. apply J2 in H'. lia.
Qed.

Lemma seen_higher_false ep st A :
  NInv st A -> (seen_higher ep st = false <-> forall ep' s', In (ep', s') A -> ep' <= ep).
Proof.
  intros (_ & _ & _ & _ & J5). unfold seen_higher. split.
  - intros H ep' s' Hin. destruct (N.leb_spec ep' ep) as [Hle|Hlt]; [exact Hle|]. exfalso.
    assert (He : existsb (fun e => ep <? e) (n_seen st) = true).
    { apply existsb_exists. exists ep'. split; [apply J5; now exists s' | now apply N.ltb_lt]. }
    congruence.
  - intro H. destruct (existsb (fun e => ep <? e) (n_seen st)) eqn:E; [|reflexivity]. exfalso.
    apply existsb_exists in E. destruct E as [e [He Hlt]]. apply N.ltb_lt in Hlt.
    destruct (proj1 (J5 e) He) as [s' Hs]. apply H in Hs. lia.
Qed.

(* SOUNDNESS (RAuth and RSeen): an admitted record judged newest is above every record admitted
   before it *)
Lemma naccept_newest r st A ep seq :
  r <> RWindow ->
  NInv st A -> nadmit st ep seq = true -> snd (naccept r st ep seq) = true ->
  forall p, In p A -> lex_lt p (ep, seq).
Proof.
  intros Hr HI Had Hv [ep' s'] Hin. pose proof HI as (J1 & J2 & J3 & J4 & J5).
  rewrite naccept_verdict in Hv.
  pose proof (accept_latest NMAXSEQ (win_of ep (n_wins st)) seq) as [_ HL].
  assert (Hcore : (seq =? 0) && seen ep st = false ->
                  snd (accept NMAXSEQ (win_of ep (n_wins st)) seq) = true ->
                  ep' <= ep -> lex_lt (ep', s') (ep, seq)).
  { intros E0 Hl Hle. apply HL in Hl. unfold lex_lt; cbn [fst snd].
    destruct (N.eq_dec ep' ep) as [He|He]; [|left; lia].
    subst ep'. right. split; [reflexivity|].
    assert (Hs : seen ep st = true) by (apply J3; now exists s').
    rewrite Hs, andb_true_r in E0. apply N.eqb_neq in E0.
    destruct Hl as [Hl|Hl]; [|contradiction]. apply J1 in Hin. lia. }
  destruct r; [congruence| |]; cbn [newest_verdict] in Hv;
    destruct ((seq =? 0) && seen ep st) eqn:E0; try discriminate;
    apply andb_prop in Hv; destruct Hv as [Hl Hr2]; apply Hcore; try assumption; try reflexivity.
  - apply N.eqb_eq in Hr2. pose proof (J2 _ _ Hin). lia.
  - apply negb_true_iff in Hr2. eapply (proj1 (seen_higher_false ep st A HI)); eassumption.
Qed.

(* COMPLETENESS (RSeen only): an admitted record above every record admitted before it is judged
   newest *)
Lemma naccept_complete st A ep seq :
  NInv st A -> nadmit st ep seq = true ->
  (forall p, In p A -> lex_lt p (ep, seq)) -> snd (naccept RSeen st ep seq) = true.
Proof.
  intros HI Had Hab. pose proof HI as (J1 & J2 & J3 & J4 & J5).
  rewrite naccept_verdict. cbn [newest_verdict].
  pose proof (accept_latest NMAXSEQ (win_of ep (n_wins st)) seq) as [_ HL].
  assert (E0 : (seq =? 0) && seen ep st = false).
  { destruct (N.eqb_spec seq 0) as [Hz|Hz]; [|reflexivity]. cbn [andb].
    destruct (seen ep st) eqn:Es; [|reflexivity]. exfalso.
    destruct (proj1 (J3 ep) Es) as [s' Hs]. apply Hab in Hs. unfold lex_lt in Hs; cbn [fst snd] in Hs. lia. }
  rewrite E0. apply andb_true_intro. split.
  - apply HL. destruct (N.eq_dec (latest (win_of ep (n_wins st))) 0) as [Hz|Hz].
    + destruct (N.eq_dec seq 0); [now right | left; lia].
    + left. assert (Hp : 0 < latest (win_of ep (n_wins st))) by lia.
      apply J4 in Hp. apply Hab in Hp. unfold lex_lt in Hp; cbn [fst snd] in Hp. lia.
  - apply negb_true_iff. apply (proj2 (seen_higher_false ep st A HI)).
    intros ep' s' Hin. apply Hab in Hin. unfold lex_lt in Hin; cbn [fst snd] in Hin. lia.
Qed.

(* ---------------------------------------------------------------- runs of the record stream *)

Fixpoint all_newest_ok (A : list (N * N)) (acc : list (N * N * bool)) : Prop :=
  match acc with
  | [] => True
  | (ep, seq, v) :: acc' =>
      (v = true <-> forall p, In p A -> lex_lt p (ep, seq)) /\ all_newest_ok ((ep, seq) :: A) acc'
  end.

Lemma nrun_all_newest evs : forall st A, NInv st A -> all_newest_ok A (snd (nrun RSeen st evs)).
Proof.
  induction evs as [|ev evs IH]; intros st A HI; cbn [nrun]; [exact I|].
  destruct ev as [ep seq|e]; cbn [nstep].
  - destruct (nadmit st ep seq) eqn:Had.
    + pose proof (naccept_inv RSeen st A ep seq HI Had) as HI'.
      pose proof (naccept_newest RSeen st A ep seq ltac:(discriminate) HI Had) as HN.
      pose proof (naccept_complete st A ep seq HI Had) as HC.
      destruct (naccept RSeen st ep seq) as [st' v]. cbn [fst snd] in *.
      specialize (IH st' _ HI'). destruct (nrun RSeen st' evs) as [st2 acc]. cbn [snd] in *.
      split; [|exact IH]. split; [intro Hv; subst v; now apply HN | exact HC].
    + specialize (IH st A HI). destruct (nrun RSeen st evs) as [st2 acc]. exact IH.
  - specialize (IH _ A (nremote_inv e st A HI)). destruct (nrun RSeen (nremote e st) evs) as [st2 acc].
    exact IH.
Qed.

Lemma all_newest_split acc : forall A pre ep seq v post,
  all_newest_ok A acc -> acc = pre ++ (ep, seq, v) :: post ->
  (v = true <->
   (forall p, In p A -> lex_lt p (ep, seq)) /\
   (forall ep' seq' b, In (ep', seq', b) pre -> lex_lt (ep', seq') (ep, seq))).
Proof.
  induction acc as [|[[e s] v0] acc IH]; intros A pre ep seq v post H Heq.
  - destruct pre; discriminate.
  - cbn [all_newest_ok] in H. destruct H as [Hh Ht]. destruct pre as [|x pre].
    + cbn [app] in Heq. inversion Heq; subst. rewrite Hh. split.
      * intro HA. split; [exact HA | intros ? ? ? []].
      * intros [HA _]. exact HA.
    + cbn [app] in Heq. inversion Heq; subst.
      rewrite (IH _ pre ep seq v post Ht eq_refl). split.
      * intros [HA HP]. split.
        -- intros p Hp. apply HA. now right.
        -- intros ep' seq' b [Hx|Hx]; [inversion Hx; subst; apply HA; now left | now apply HP with b].
      * intros [HA HP]. split.
        -- intros p [Hp|Hp]; [subst p; apply HP with v0; now left | now apply HA].
        -- intros ep' seq' b Hx. apply HP with b. now right.
Qed.

(* THE VERDICT OF THE CODE NOW: over any stream of authentic protected records and remote-epoch
   changes, an admitted record is judged newest if and only if it is above every record admitted
   before it *)
Theorem newest_iff r0 evs pre ep seq v post :
  snd (nrun RSeen (ninit r0) evs) = pre ++ (ep, seq, v) :: post ->
  (v = true <-> forall ep' seq' b, In (ep', seq', b) pre -> lex_lt (ep', seq') (ep, seq)).
Proof.
  intro H. pose proof (nrun_all_newest evs (ninit r0) [] (ninv_init r0)) as Hall.
  rewrite (all_newest_split _ [] pre ep seq v post Hall H). split.
  - intros [_ HP]. exact HP.
  - intro HP. split; [intros p [] | exact HP].
Qed.

Theorem newest_is_newest r0 evs pre ep seq post :
  snd (nrun RSeen (ninit r0) evs) = pre ++ (ep, seq, true) :: post ->
  forall ep' seq' b, In (ep', seq', b) pre -> lex_lt (ep', seq') (ep, seq).
Proof. intro H. now apply (newest_iff r0 evs pre ep seq true post H). Qed.

(* ---------------------------------------------------------------- the earlier verdicts *)

(* F71 (RWindow): the first record of epoch 3 arrives after records 1 and 2 of that epoch and is
   judged newest; the later verdicts say no *)
Theorem window_verdict_refuted_late_zero :
  let evs := [NRecord 3 1; NRecord 3 2; NRecord 3 0] in
  snd (nrun RWindow (ninit 3) evs) = [(3, 1, true); (3, 2, true); (3, 0, true)] /\
  snd (nrun RSeen (ninit 3) evs) = [(3, 1, true); (3, 2, true); (3, 0, false)].
Proof. vm_compute. split; reflexivity. Qed.

(* F72 (RWindow): after records of epoch 4 were admitted, a record of epoch 3 that is above
   everything admitted in epoch 3 is judged newest; the later verdicts say no *)
Theorem window_verdict_refuted_old_epoch :
  let evs := [NRecord 3 0; NRecord 3 1; NRemote 4; NRecord 4 0; NRecord 4 1; NRecord 3 5] in
  snd (nrun RWindow (ninit 3) evs) =
    [(3, 0, true); (3, 1, true); (4, 0, true); (4, 1, true); (3, 5, true)] /\
  snd (nrun RSeen (ninit 3) evs) =
    [(3, 0, true); (3, 1, true); (4, 0, true); (4, 1, true); (3, 5, false)].
Proof. vm_compute. split; reflexivity. Qed.

(* RAuth (0538fb0, replaced by 696da78): the peer's KeyUpdate (3, 1) is processed and raises the
   authorised epoch to 4; our ACK is lost, so the peer stays in epoch 3; its next record (3, 2) is
   above everything admitted, yet RAuth does not judge it newest - no path challenge can ever
   start from it.  RSeen does. *)
Theorem auth_epoch_verdict_refuted_ack_lost :
  let evs := [NRecord 3 0; NRecord 3 1; NRemote 4; NRecord 3 2; NRecord 3 3] in
  snd (nrun RAuth (ninit 3) evs) =
    [(3, 0, true); (3, 1, true); (3, 2, false); (3, 3, false)] /\
  snd (nrun RSeen (ninit 3) evs) =
    [(3, 0, true); (3, 1, true); (3, 2, true); (3, 3, true)].
Proof. vm_compute. split; reflexivity. Qed.

(* ---------------------------------------------------------------- challenges *)

Lemma write_rrc_type st a t c w now wr o :
  In o (snd (fst (write_rrc st a t c w now wr))) -> o_type o = t.
Proof.
  unfold write_rrc. destruct (negotiated st); cbn [negb]; [|cbn [fst snd]; intros []].
  destruct wr.
  - destruct (reserve a (raddr st) w now (mgr st)) as [m' ok]; destruct ok; cbn [fst snd];
      [intros [Ho|[]]; subst o; reflexivity | intros []].
  - cbn [fst snd]. intros [].
  - destruct (reserve a (raddr st) w now (mgr st)) as [m' ok]; destruct ok; cbn [fst snd];
      [intros [Ho|[]]; subst o; reflexivity | intros []].
Qed.

Lemma handle_candidate_outs st en hc lt a c w now wr o :
  In o (snd (handle_candidate st en hc lt a c w now wr)) ->
  en && hc && lt = true /\ o_type o = TChallenge.
Proof.
  unfold handle_candidate. unfold start at 1.
  destruct (en && hc && lt) eqn:E; cbn [negb orb].
  2:{ intros []. }
  destruct (a =? raddr st); [intros []|].
  destruct (p_pending (path_locked now a (mgr st))); [intros []|].
  set (st1 := with_mgr st _).
  pose proof (write_rrc_type st1 a TChallenge c w now wr o) as HT.
  destruct (write_rrc st1 a TChallenge c w now wr) as [[st2 outs] wrote]. cbn [fst snd] in HT.
  destruct wrote; cbn [snd]; intro H; (split; [reflexivity | now apply HT]).
Qed.

(* a path challenge leaves only in a step whose record was judged newest, carried a connection ID,
   on a connection that negotiated RRC *)
Lemma step_record_challenge st r o :
  In o (snd (step_record st r)) -> o_type o = TChallenge ->
  r_latest r = true /\ r_hascid r = true /\ negotiated st = true.
Proof.
  unfold step_record. intros Hin Ht.
  assert (Hc : forall st' lt,
    In o (snd (handle_candidate st' (negotiated st) (r_hascid r) lt (r_from r) (r_cookie r)
                                (r_wsize r) (r_now r) (r_w r))) ->
    lt = true /\ r_hascid r = true /\ negotiated st = true).
  { intros st' lt H. apply handle_candidate_outs in H. destruct H as [H _].
    apply andb_prop in H. destruct H as [H H3]. apply andb_prop in H. destruct H as [H1 H2].
    now repeat split. }
  destruct (r_kind r).
  - now apply Hc in Hin.
  - now apply Hc in Hin.
  - now apply Hc in Hin.
  - destruct Hin.
  - destruct (negotiated st) eqn:En; cbn [negb] in Hin; [|destruct Hin].
    pose proof (write_rrc_type (mark st r) (r_from r) TResponse c (r_wsize r) (r_now r) (r_w r) o) as HT.
    destruct (write_rrc (mark st r) (r_from r) TResponse c (r_wsize r) (r_now r) (r_w r))
      as [[st2 outs1] wr]. cbn [fst snd] in HT.
    destruct (handle_candidate st2 true (r_hascid r) (r_latest r) (r_from r) (r_cookie r)
                               (r_wsize r) (r_now r) (r_w r)) as [st3 outs2] eqn:Eh.
    cbn [snd] in Hin. apply in_app_or in Hin. destruct Hin as [Hin|Hin].
    + apply HT in Hin. congruence.
    + assert (H : In o (snd (handle_candidate st2 true (r_hascid r) (r_latest r) (r_from r)
                                (r_cookie r) (r_wsize r) (r_now r) (r_w r)))) by (rewrite Eh; exact Hin).
      now apply Hc in H.
  - destruct (negotiated st) eqn:En; cbn [negb] in Hin; [|destruct Hin].
    destruct (handle_response (r_from r) c (r_now r) (mgr (mark st r))) as [m2 ok].
    apply Hc in Hin. destruct Hin; discriminate.
  - destruct (negotiated st) eqn:En; cbn [negb] in Hin; [|destruct Hin].
    apply Hc in Hin. destruct Hin; discriminate.
  - destruct (negotiated st) eqn:En; cbn [negb] in Hin; [|destruct Hin].
    apply Hc in Hin. destruct Hin; discriminate.
Qed.

Lemma estep_inv fixed local st ev A :
  NInv (e_n st) A ->
  NInv (e_n (fst (fst (estep fixed local st ev))))
       (match snd (estep fixed local st ev) with Some x => x :: A | None => A end).
Proof.
  intro HI. destruct ev as [a|e|ev]; cbn [estep].
  - destruct (nadmit (e_n st) (a_ep a) (a_seq a)) eqn:Had; cbn [andb]; [|exact HI].
    destruct (record_admitted local (a_rc a)); [|exact HI].
    pose proof (naccept_inv fixed (e_n st) A _ _ HI Had) as HI'.
    destruct (naccept fixed (e_n st) (a_ep a) (a_seq a)) as [n' v].
    destruct (cstep (e_c st) (ERecord (with_latest (a_recv a) v))) as [c' outs].
    cbn [fst snd e_n] in *. exact HI'.
  - cbn [fst snd e_n]. now apply nremote_inv.
  - destruct ev as [r|x now|now]; cbn [fst snd]; exact HI.
Qed.

Lemma erun_inv fixed local evs : forall st A,
  NInv (e_n st) A ->
  exists B, NInv (e_n (fst (erun fixed local st evs))) B /\
            forall p, In p B <-> In p A \/ In p (snd (erun fixed local st evs)).
Proof.
  induction evs as [|ev evs IH]; intros st A HI; cbn [erun].
  - exists A. split; [exact HI|]. intro p. cbn. tauto.
  - pose proof (estep_inv fixed local st ev A HI) as HI1.
    destruct (estep fixed local st ev) as [[st1 outs] o]. cbn [fst snd] in HI1.
    destruct (IH st1 _ HI1) as [B [HB HP]].
    destruct (erun fixed local st1 evs) as [st2 acc]. cbn [fst snd] in *.
    exists B. split; [exact HB|]. intro p. rewrite HP. destruct o as [x|]; cbn [In]; tauto.
Qed.

(* PATH CHALLENGE ONLY FOR THE NEWEST RECORD: after any history of arrivals (any epochs, numbers,
   connection IDs, contents, source addresses), epoch changes and timer callbacks, a step that
   produces a path challenge is the arrival of a record that is above (epoch, then sequence
   number) every protected record admitted before it. *)
Theorem challenge_only_for_newest local r0 c0 evs a o :
  let '(st, acc) := erun RSeen local (mkES (ninit r0) c0) evs in
  In o (snd (fst (estep RSeen local st (EArrive a)))) -> o_type o = TChallenge ->
  forall p, In p acc -> lex_lt p (a_ep a, a_seq a).
Proof.
  destruct (erun_inv RSeen local evs (mkES (ninit r0) c0) [] (ninv_init r0)) as [B [HB HP]].
  destruct (erun RSeen local (mkES (ninit r0) c0) evs) as [st acc]. cbn [fst snd] in *.
  intros Hin Ht p Hp. cbn [estep] in Hin.
  destruct (nadmit (e_n st) (a_ep a) (a_seq a)) eqn:Had; cbn [andb] in Hin; [|destruct Hin].
  destruct (record_admitted local (a_rc a)); [|destruct Hin].
  pose proof (naccept_newest RSeen (e_n st) B _ _ ltac:(discriminate) HB Had) as HN.
  destruct (naccept RSeen (e_n st) (a_ep a) (a_seq a)) as [n' v]. cbn [snd] in HN.
  destruct (cstep (e_c st) (ERecord (with_latest (a_recv a) v))) as [c' outs] eqn:Ec.
  cbn [fst snd] in Hin. cbn [cstep] in Ec.
  assert (Hs : In o (snd (step_record (e_c st) (with_latest (a_recv a) v)))) by (rewrite Ec; exact Hin).
  apply step_record_challenge in Hs; [|exact Ht]. destruct Hs as [Hl _].
  cbn [with_latest r_latest] in Hl. apply HN; [exact Hl|]. apply HP. now right.
Qed.

(* LIVENESS SIDE: an admitted arrival that is above every protected record admitted before reaches
   the connection-level step with [latest = true] (so Rrc/C15Conn.v decides about the challenge as
   for a newest record: negotiated, connection ID, non-active source, no pending challenge, budget) *)
Theorem newest_arrival_is_latest local r0 c0 evs a :
  let '(st, acc) := erun RSeen local (mkES (ninit r0) c0) evs in
  nadmit (e_n st) (a_ep a) (a_seq a) = true -> record_admitted local (a_rc a) = true ->
  (forall p, In p acc -> lex_lt p (a_ep a, a_seq a)) ->
  snd (fst (estep RSeen local st (EArrive a))) =
  snd (cstep (e_c st) (ERecord (with_latest (a_recv a) true))).
Proof.
  destruct (erun_inv RSeen local evs (mkES (ninit r0) c0) [] (ninv_init r0)) as [B [HB HP]].
  destruct (erun RSeen local (mkES (ninit r0) c0) evs) as [st acc]. cbn [fst snd] in *.
  intros Had Hrc Hab. cbn [estep]. rewrite Had, Hrc. cbn [andb].
  assert (HC : snd (naccept RSeen (e_n st) (a_ep a) (a_seq a)) = true).
  { apply naccept_complete with B; [exact HB | exact Had|].
    intros p Hp. apply HP in Hp. destruct Hp as [[]|Hp]. now apply Hab. }
  destruct (naccept RSeen (e_n st) (a_ep a) (a_seq a)) as [n' v]. cbn [snd] in HC. subst v.
  destruct (cstep (e_c st) (ERecord (with_latest (a_recv a) true))) as [c' outs]. reflexivity.
Qed.

(* the scenario of 696da78 in the composed model: KeyUpdate (3, 1) processed (authorised epoch 4),
   our ACK lost, the peer's next record (3, 2) arrives from address 2 with a connection ID: the code
   now challenges address 2, RAuth sent nothing *)
Example ack_lost_then_rebinding :
  let rc := Some [9] in
  let rec from seq k now := EArrive (mkArr 3 seq rc (mkRecv from true false 40 k 777 39 WOk now)) in
  let evs := [rec 1 0 KApp 1000; rec 1 1 KHandshake 2000; EEpoch 4] in
  let go r := snd (fst (estep r [9] (fst (erun r [9] (mkES (ninit 3) (mkC 1 true [])) evs))
                              (rec 2 2 KApp 3000))) in
  map o_dest (go RSeen) = [2] /\ map o_type (go RSeen) = [TChallenge] /\ go RAuth = [].
Proof. vm_compute. repeat split; reflexivity. Qed.


(* ---------------------------------------------------------------- the summary of the flags *)

Definition SRel (s : sstate) (n : nstate) : Prop :=
  s_remote s = n_remote n /\ s_wins s = n_wins n /\ SumOk (s_sum s) (n_seen n).

Lemma sumok_update s l ep : SumOk s l -> SumOk (sum_update KMax s ep) (ep :: l).
Proof.
  destruct s as [m|]; cbn [SumOk sum_update].
  - intros [Hin Hmax]. split.
    + destruct (N.max_spec m ep) as [[_ E]|[_ E]]; rewrite E; [now left | now right].
    + intros e [He|He]; [subst; lia | apply Hmax in He; lia].
  - intro E. subst l. split; [now left|]. intros e [He|[]]. subst. lia.
Qed.

Lemma sum_verdict_seen s st ep seq l :
  SumOk s (n_seen st) -> sum_verdict s ep seq l = newest_verdict RSeen st ep seq l.
Proof.
  unfold sum_verdict, newest_verdict, seen, seen_higher. destruct s as [m|]; cbn [SumOk].
  - intros [Hin Hmax].
    assert (Hh : existsb (fun e => ep <? e) (n_seen st) = (ep <? m)).
    { destruct (N.ltb_spec ep m) as [Hlt|Hge].
      - apply existsb_exists. exists m. split; [exact Hin | now apply N.ltb_lt].
      - destruct (existsb (fun e => ep <? e) (n_seen st)) eqn:E; [|reflexivity]. exfalso.
        apply existsb_exists in E. destruct E as [e [He Hl]]. apply N.ltb_lt in Hl.
        apply Hmax in He. lia. }
    rewrite Hh. destruct (N.ltb_spec ep m) as [Hlt|Hge].
    + cbn [orb negb]. rewrite andb_false_r.
      destruct ((seq =? 0) && existsb (N.eqb ep) (n_seen st)); reflexivity.
    + cbn [orb negb]. rewrite andb_true_r.
      assert (Hs : existsb (N.eqb ep) (n_seen st) = negb (m <? ep)).
      { destruct (N.ltb_spec m ep) as [Hlt|Hge2]; cbn [negb].
        - destruct (existsb (N.eqb ep) (n_seen st)) eqn:E; [|reflexivity]. exfalso.
          apply existsb_exists in E. destruct E as [e [He Hl]]. apply N.eqb_eq in Hl. subst e.
          apply Hmax in He. lia.
        - apply existsb_exists. exists m. split; [exact Hin|]. apply N.eqb_eq. lia. }
      rewrite Hs. reflexivity.
  - intro E. rewrite E. cbn [existsb orb negb]. rewrite andb_false_r, andb_true_r. reflexivity.
Qed.

Lemma srun_refines evs : forall s n,
  SRel s n ->
  snd (srun KMax s evs) = snd (nrun RSeen n evs) /\
  SRel (fst (srun KMax s evs)) (fst (nrun RSeen n evs)).
Proof.
  induction evs as [|ev evs IH]; intros s n HR; cbn [srun nrun]; [split; [reflexivity | exact HR]|].
  pose proof HR as (Hr & Hw & Hs).
  destruct ev as [ep seq|e]; cbn [sstep nstep].
  - assert (Had : sadmit s ep seq = nadmit n ep seq) by (unfold sadmit, nadmit; now rewrite Hr, Hw).
    rewrite Had. destruct (nadmit n ep seq).
    + unfold saccept, naccept. rewrite Hw.
      destruct (accept NMAXSEQ (win_of ep (n_wins n)) seq) as [w' l].
      rewrite (sum_verdict_seen (s_sum s) n ep seq l Hs).
      match goal with |- context [srun KMax ?s1 evs] =>
        match goal with |- context [nrun RSeen ?n1 evs] =>
          assert (HR1 : SRel s1 n1) end end.
      { split; [exact Hr|]. split; [reflexivity|].
        cbn [s_sum n_seen]. now apply sumok_update. }
      specialize (IH _ _ HR1).
      match goal with |- context [srun KMax ?s1 evs] => destruct (srun KMax s1 evs) as [s2 acc] end.
      match goal with |- context [nrun RSeen ?n1 evs] => destruct (nrun RSeen n1 evs) as [n2 acc'] end.
      cbn [fst snd] in *. destruct IH as [IH1 IH2]. split; [now rewrite IH1 | exact IH2].
    + specialize (IH _ _ HR). destruct (srun KMax s evs) as [s2 acc]. destruct (nrun RSeen n evs) as [n2 acc'].
      exact IH.
  - assert (HR1 : SRel (sremote e s) (nremote e n)).
    { unfold sremote, nremote. rewrite Hr. destruct (n_remote n <? e); [|exact HR].
      split; [reflexivity|]. split; [exact Hw | exact Hs]. }
    specialize (IH _ _ HR1).
    destruct (srun KMax (sremote e s) evs) as [s2 acc]. destruct (nrun RSeen (nremote e n) evs) as [n2 acc'].
    exact IH.
Qed.

Lemma srel_init r0 : SRel (sinit r0) (ninit r0).
Proof. split; [reflexivity|]. split; reflexivity. Qed.

(* the summary after a run is the maximum of the epochs of the records admitted in it *)
Lemma srun_summary evs : forall s l,
  SumOk (s_sum s) l ->
  SumOk (s_sum (fst (srun KMax s evs))) (rev (map (fun x => fst (rec_of x)) (snd (srun KMax s evs))) ++ l).
Proof.
  induction evs as [|ev evs IH]; intros s l Hs; cbn [srun]; [exact Hs|].
  destruct ev as [ep seq|e]; cbn [sstep].
  - destruct (sadmit s ep seq).
    + unfold saccept. destruct (accept NMAXSEQ (win_of ep (s_wins s)) seq) as [w' lt].
      match goal with |- context [srun KMax ?s1 evs] =>
        specialize (IH s1 (ep :: l) (sumok_update _ _ ep Hs)); destruct (srun KMax s1 evs) as [s2 acc] end.
      cbn [fst snd map rev rec_of] in *. rewrite <- app_assoc. exact IH.
    + specialize (IH s l Hs). destruct (srun KMax s evs) as [s2 acc]. exact IH.
  - assert (Hs' : SumOk (s_sum (sremote e s)) l).
    { unfold sremote. destruct (s_remote s <? e); exact Hs. }
    specialize (IH _ l Hs'). destruct (srun KMax (sremote e s) evs) as [s2 acc]. exact IH.
Qed.

(* ---------------------------------------------------------------- running maximum *)

Lemma lex_ltb_lt a b : lex_ltb a b = true <-> lex_lt a b.
Proof.
  unfold lex_ltb, lex_lt. rewrite orb_true_iff, andb_true_iff, N.ltb_lt, N.ltb_lt, N.eqb_eq. reflexivity.
Qed.

Lemma lex_lt_trans a b c : lex_lt a b -> lex_lt b c -> lex_lt a c.
Proof. destruct a, b, c. unfold lex_lt; cbn [fst snd]. lia. Qed.

Lemma lex_total a b : lex_lt a b \/ a = b \/ lex_lt b a.
Proof.
  destruct a as [a1 a2], b as [b1 b2]. unfold lex_lt; cbn [fst snd].
  destruct (N.lt_total a1 b1) as [H|[H|H]]; [left; left; exact H | | right; right; left; exact H].
  subst. destruct (N.lt_total a2 b2) as [H|[H|H]];
    [left; right; split; [reflexivity | exact H] | subst; right; left; reflexivity |
     right; right; right; split; [reflexivity | exact H]].
Qed.

Lemma rmax_spec l x : (forall p, In p l -> lex_lt p x) <-> above x (rmax l).
Proof.
  induction l as [|y l IH]; cbn [rmax above In].
  - split; [trivial | intros _ p []].
  - destruct (rmax l) as [m|]; cbn [above] in *.
    + destruct (lex_ltb m y) eqn:E.
      * apply lex_ltb_lt in E. split.
        -- intro H. apply H. now left.
        -- intros Hy p [Hp|Hp]; [now subst|]. apply (proj2 IH); [eapply lex_lt_trans; eassumption | exact Hp].
      * assert (Hn : ~ lex_lt m y) by (intro Hc; apply lex_ltb_lt in Hc; congruence).
        split.
        -- intro H. apply (proj1 IH). intros p Hp. apply H. now right.
        -- intros Hm p [Hp|Hp]; [|exact (proj2 IH Hm p Hp)]. subst p.
           destruct (lex_total y m) as [Hc|[Hc|Hc]]; [eapply lex_lt_trans; eassumption | now subst | contradiction].
    + split.
      * intro H. apply H. now left.
      * intros Hy p [Hp|Hp]; [now subst|]. exact (proj2 IH I p Hp).
Qed.

(* THE SUMMARY THAT ONLY MOVES FORWARD: over any stream of authentic protected records and
   remote-epoch changes (1) the verdicts are those of the per-epoch flags, (2) the summary is the
   highest epoch in which a record was admitted, (3) a record is judged newest if and only if it is
   above the running maximum - epoch, then sequence number - of the records admitted before *)
Theorem newest_is_running_max r0 evs :
  snd (srun KMax (sinit r0) evs) = snd (nrun RSeen (ninit r0) evs) /\
  SumOk (s_sum (fst (srun KMax (sinit r0) evs)))
        (rev (map (fun x => fst (rec_of x)) (snd (srun KMax (sinit r0) evs)))) /\
  forall pre ep seq v post,
    snd (srun KMax (sinit r0) evs) = pre ++ (ep, seq, v) :: post ->
    (v = true <-> above (ep, seq) (rmax (map rec_of pre))).
Proof.
  pose proof (srun_refines evs _ _ (srel_init r0)) as [H1 _].
  split; [exact H1|]. split.
  - pose proof (srun_summary evs (sinit r0) [] eq_refl) as H. now rewrite app_nil_r in H.
  - intros pre ep seq v post Heq. rewrite H1 in Heq.
    rewrite (newest_iff r0 evs pre ep seq v post Heq), <- rmax_spec. split.
    + intros H p Hp. apply in_map_iff in Hp. destruct Hp as [[[e s] b] [Hx Hi]]. subst p. cbn [rec_of fst].
      now apply H with b.
    + intros H e s b Hi. apply H. apply in_map_iff. exists (e, s, b). split; [reflexivity | exact Hi].
Qed.

(* THE SUMMARY THAT REMEMBERS THE EPOCH ACCEPTED LAST fails, twice.  After records of epoch 4 were
   admitted, the first stale record of epoch 3 is refused but drags the summary back to 3: the next
   record of epoch 3 is judged the newest record of the connection; and after one stale record of
   epoch 3 the late record numbered 0 of epoch 4 is taken for the first of its epoch. *)
Theorem newest_last_epoch_refuted :
  let evs1 := [NRecord 3 0; NRecord 3 1; NRemote 4; NRecord 4 0; NRecord 4 1; NRecord 3 5; NRecord 3 6] in
  let evs2 := [NRecord 3 0; NRemote 4; NRecord 4 1; NRecord 4 2; NRecord 3 5; NRecord 4 0] in
  snd (srun KLast (sinit 3) evs1) =
    [(3, 0, true); (3, 1, true); (4, 0, true); (4, 1, true); (3, 5, false); (3, 6, true)] /\
  snd (srun KMax (sinit 3) evs1) =
    [(3, 0, true); (3, 1, true); (4, 0, true); (4, 1, true); (3, 5, false); (3, 6, false)] /\
  s_sum (fst (srun KLast (sinit 3) evs1)) = Some 3 /\ s_sum (fst (srun KMax (sinit 3) evs1)) = Some 4 /\
  snd (srun KLast (sinit 3) evs2) =
    [(3, 0, true); (4, 1, true); (4, 2, true); (3, 5, false); (4, 0, true)] /\
  snd (srun KMax (sinit 3) evs2) =
    [(3, 0, true); (4, 1, true); (4, 2, true); (3, 5, false); (4, 0, false)].
Proof. vm_compute. repeat split; reflexivity. Qed.
