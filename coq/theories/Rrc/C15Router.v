(* C15 - structural model of /repo/connection_id.go cidDatagramRouter (DTLS 1.2 branch) and of the
   lookup part of /repo/internal/net/udp/packet_conn.go listener.getConn.  Definitions only.

   A datagram is described structurally: either it does not split into records
   (ContentAwareUnpackDatagram fails, or it is empty) or it is a list of records of which only the
   content type, the validity of the version field (Header.Unmarshal rejects others) and the
   connection-ID field (for tls12_cid records, read with the listener's fixed ID length) matter.
   The DTLS 1.3 branch (cidDatagramRouter13, unified header) is not modelled. *)
From DtlsV Require Import Lib.Bytes Rrc.C15Conn.
Open Scope N_scope.

Definition CT_CID : N := 25.                     (* protocol.ContentTypeConnectionID *)

Record rrec := mkRec { rc_ct : N; rc_verok : bool; rc_cid : bytes }.

Inductive dgram := DBad | DRecs (rs : list rrec).

(* the loop of cidDatagramRouter: first record whose header parses and whose type is tls12_cid *)
Fixpoint first_cid (rs : list rrec) : option bytes :=
  match rs with
  | [] => None
  | r :: rs' => if rc_verok r && (rc_ct r =? CT_CID) then Some (rc_cid r) else first_cid rs'
  end.

Definition route (d : dgram) : option bytes :=
  match d with DBad => None | DRecs rs => first_cid rs end.

(* l.conns : map[string]*PacketConn - connection IDs and remote-address strings share the key space *)
Fixpoint lookup (k : bytes) (m : list (bytes * N)) : option N :=
  match m with
  | [] => None
  | (k', c) :: m' => if bytes_eqb k k' then Some c else lookup k m'
  end.

(* getConn, existing-connection part, given what the datagram router returned: by routed ID first,
   else by source-address string (None = the accept path for a new remote address) *)
Definition get_conn_id (conns : list (bytes * N)) (src : bytes) (rid : option bytes) : option N :=
  match rid with
  | Some id => match lookup id conns with Some c => Some c | None => lookup src conns end
  | None => lookup src conns
  end.

Definition get_conn (conns : list (bytes * N)) (src : bytes) (d : dgram) : option N :=
  get_conn_id conns src (route d).

(* the rejected alternative "source address first, router only for unknown addresses" *)
Definition get_conn_addr_first (conns : list (bytes * N)) (src : bytes) (rid : option bytes) : option N :=
  match lookup src conns with
  | Some c => Some c
  | None => match rid with Some id => lookup id conns | None => None end
  end.

(* ---------------------------------------------------------------- how the listener learns an ID *)

(* /repo/internal/net/udp/packet_conn.go PacketConn.WriteTo hands every datagram the connection writes
   to /repo/connection_id.go cidConnIdentifier until that yields an ID; the ID is then registered in
   l.conns.  cidConnIdentifier looks at the FIRST record only and parses it as a COMPLETE ServerHello:
   the fragment offset and fragment length of the handshake header are not consulted, so a fragment
   does not parse.  What matters of a written datagram's first record:
     fr_sh    unprotected handshake record whose message type is ServerHello
     fr_off / fr_flen / fr_len   fragment offset, fragment length, message length
     fr_cid   the connection_id extension of the ServerHello MESSAGE the record belongs to *)
Record first_rec := mkFR { fr_sh : bool; fr_off : N; fr_flen : N; fr_len : N; fr_cid : option bytes }.

Definition fr_complete (f : first_rec) : bool := fr_sh f && (fr_off f =? 0) && (fr_flen f =? fr_len f).

Definition learn_one (f : first_rec) : option bytes := if fr_complete f then fr_cid f else None.

Fixpoint learned (ws : list first_rec) : option bytes :=
  match ws with
  | [] => None
  | f :: ws' => match learn_one f with Some c => Some c | None => learned ws' end
  end.

(* the listener's table for connection [k], accepted from [addr], after it wrote [ws] *)
Definition table_after (addr : bytes) (k : N) (ws : list first_rec) : list (bytes * N) :=
  match learned ws with Some c => [(c, k); (addr, k)] | None => [(addr, k)] end.
