(* C15 - facts about the structural router model.  [route] has no source-address argument at all,
   so "routing ignores the source" is true of it BY TYPING; the only content is (1) which ID it
   returns and (2) that getConn prefers that ID over the source address. *)
From DtlsV Require Import Lib.Bytes Rrc.C15Conn Rrc.C15Router.
Open Scope N_scope.

Definition is_cid_rec (r : rrec) : bool := rc_verok r && (rc_ct r =? CT_CID).

Theorem route_first_cid rs c :
  first_cid rs = Some c <->
  exists pre r post, rs = pre ++ r :: post /\ forallb (fun x => negb (is_cid_rec x)) pre = true /\
                     is_cid_rec r = true /\ rc_cid r = c.
Proof.
  induction rs as [|r rs IH]; cbn [first_cid].
  - split; [discriminate|]. intros [pre [r [post [H _]]]]. destruct pre; discriminate.
  - fold (is_cid_rec r). destruct (is_cid_rec r) eqn:E.
    + split.
      * intro H. inversion H; subst. exists [], r, rs. repeat split; assumption.
      * intros [pre [r' [post [H [Hp [Hr Hc]]]]]]. destruct pre as [|x pre].
        -- cbn [app] in H. inversion H; subst. reflexivity.
        -- cbn [app] in H. inversion H; subst. cbn [forallb] in Hp. rewrite E in Hp. discriminate.
    + rewrite IH. split.
      * intros [pre [r' [post [H [Hp [Hr Hc]]]]]]. exists (r :: pre), r', post.
        cbn [app forallb]. rewrite E, H. repeat split; assumption.
      * intros [pre [r' [post [H [Hp [Hr Hc]]]]]]. destruct pre as [|x pre].
        -- cbn [app] in H. inversion H; subst. congruence.
        -- cbn [app] in H. inversion H; subst. cbn [forallb] in Hp. apply andb_prop in Hp.
           exists pre, r', post. repeat split; try assumption. apply Hp.
Qed.

(* a datagram whose routed ID belongs to a registered connection reaches that connection
   whatever its source address *)
Theorem route_ignores_source conns d id c :
  route d = Some id -> lookup id conns = Some c ->
  forall src, get_conn conns src d = Some c.
Proof. intros Hr Hl src. unfold get_conn, get_conn_id. now rewrite Hr, Hl. Qed.

(* LISTENER ROUTING: a record whose routed connection ID is registered for connection a is handed
   to a whatever its source address - in particular when that address is the one tracked for
   another live connection. *)
Theorem owner_gets_record conns id a :
  lookup id conns = Some a -> forall src, get_conn_id conns src (Some id) = Some a.
Proof. intros Hl src. unfold get_conn_id. now rewrite Hl. Qed.

(* the address-first order does not have this property: two connections, a record carrying the
   ID of connection 1 from the address tracked for connection 2 is handed to connection 2 *)
Example addr_first_misroutes :
  let conns := [([1;1], 1); ([9;9;9], 1); ([2;2], 2); ([8;8;8], 2)] in
  get_conn_id conns [8;8;8] (Some [1;1]) = Some 1 /\
  get_conn_addr_first conns [8;8;8] (Some [1;1]) = Some 2.
Proof. vm_compute. split; reflexivity. Qed.

(* ---------------------------------------------------------------- learning the ID *)

Lemma bytes_eqb_true x : forall y, bytes_eqb x y = true -> x = y.
Proof.
  induction x as [|a x IH]; intros [|b y] H; try discriminate; [reflexivity|].
  cbn [bytes_eqb] in H. apply andb_prop in H. destruct H as [H1 H2].
  apply N.eqb_eq in H1. subst. f_equal. now apply IH.
Qed.

(* a ServerHello that leaves in one piece teaches the listener the ID it carries (or an earlier
   complete ServerHello already did) *)
Theorem learned_from_complete ws f c :
  In f ws -> fr_complete f = true -> fr_cid f = Some c -> exists c', learned ws = Some c'.
Proof.
  induction ws as [|g ws IH]; intros Hin Hc Hid; [destruct Hin|].
  cbn [learned]. destruct (learn_one g) as [c0|] eqn:E; [now exists c0|].
  destruct Hin as [Hin|Hin]; [|now apply IH].
  subst g. unfold learn_one in E. rewrite Hc, Hid in E. discriminate.
Qed.

(* KNOWN GAP K-C15-1: when no written datagram starts with a complete ServerHello - in particular
   when the ServerHello left in fragments - nothing is learnt ... *)
Theorem fragmented_never_learned ws :
  (forall f, In f ws -> fr_sh f = true -> fr_off f <> 0 \/ fr_flen f <> fr_len f) -> learned ws = None.
Proof.
  induction ws as [|g ws IH]; intro H; [reflexivity|]. cbn [learned].
  assert (E : learn_one g = None).
  { unfold learn_one, fr_complete. destruct (fr_sh g) eqn:Es; [|reflexivity].
    destruct (H g (or_introl eq_refl) Es) as [H0|H0].
    - apply N.eqb_neq in H0. now rewrite H0.
    - apply N.eqb_neq in H0. rewrite H0. now rewrite andb_false_r. }
  rewrite E. apply IH. intros f Hf. apply H. now right.
Qed.

(* ... and then a record carrying the connection's ID reaches nobody from any other address
   (IDs and address strings share the key space of l.conns: the ID is assumed not to spell the
   address) *)
Theorem unlearned_id_not_routed addr k ws id src :
  learned ws = None -> src <> addr -> id <> addr ->
  get_conn_id (table_after addr k ws) src (Some id) = None.
Proof.
  intros HL Hs Hi. unfold table_after. rewrite HL. unfold get_conn_id. cbn [lookup].
  destruct (bytes_eqb id addr) eqn:E1; [apply bytes_eqb_true in E1; contradiction|].
  destruct (bytes_eqb src addr) eqn:E2; [apply bytes_eqb_true in E2; contradiction|].
  reflexivity.
Qed.

(* the routing statement "whatever the source address" therefore fails for a connection whose
   ServerHello (message length 1203 > MTU: DTLS 1.3 with a 20-byte server ID at the default MTU)
   left in two fragments, although that ServerHello carries the ID *)
Theorem listener_routes_negotiated_id_refuted :
  let id := [7; 7; 7] in
  let ws := [mkFR true 0 1200 1203 (Some id); mkFR true 1200 3 1203 (Some id); mkFR false 0 0 0 None] in
  (exists f, In f ws /\ fr_sh f = true /\ fr_cid f = Some id) /\
  learned ws = None /\
  get_conn_id (table_after [1; 1] 0 ws) [2; 2] (Some id) = None /\
  (* the same ServerHello in one piece is learnt and routed *)
  get_conn_id (table_after [1; 1] 0 [mkFR true 0 1203 1203 (Some id)]) [2; 2] (Some id) = Some 0.
Proof.
  vm_compute. split; [|repeat split; reflexivity].
  eexists. split; [left; reflexivity|]. split; reflexivity.
Qed.
