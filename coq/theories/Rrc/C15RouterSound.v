(* C15 - facts about the structural router model.  [route] has no source-address argument at all,
   so "routing ignores the source" is true of it BY TYPING; the only content is (1) which ID it
   returns and (2) that getConn prefers that ID over the source address. *)
From DtlsV Require Import Lib.Bytes Rrc.C15Conn Rrc.C15Router.
Open Scope N_scope.

Definition is_cid_rec (r : rrec) : bool := rc_verok r && (rc_ct r =? CT_CID).

Theorem route_first_cid rs c :
  first_cid rs = Some c <->
  exists pre r post, rs = pre ++ r :: post /\ forallb (fun x => negb (is_cid_rec x)) pre = true /\
                     is_cid_rec r = true /\ rc_cid r = c.
Proof.
  induction rs as [|r rs IH]; cbn [first_cid].
  - split; [discriminate|]. intros [pre [r [post [H _]]]]. destruct pre; discriminate.
  - fold (is_cid_rec r). destruct (is_cid_rec r) eqn:E.
    + split.
      * intro H. inversion H; subst. exists [], r, rs. repeat split; assumption.
      * intros [pre [r' [post [H [Hp [Hr Hc]]]]]]. destruct pre as [|x pre].
        -- cbn [app] in H. inversion H; subst. reflexivity.
        -- cbn [app] in H. inversion H; subst. cbn [forallb] in Hp. rewrite E in Hp. discriminate.
    + rewrite IH. split.
      * intros [pre [r' [post [H [Hp [Hr Hc]]]]]]. exists (r :: pre), r', post.
        cbn [app forallb]. rewrite E, H. repeat split; assumption.
      * intros [pre [r' [post [H [Hp [Hr Hc]]]]]]. destruct pre as [|x pre].
        -- cbn [app] in H. inversion H; subst. congruence.
        -- cbn [app] in H. inversion H; subst. cbn [forallb] in Hp. apply andb_prop in Hp.
           exists pre, r', post. repeat split; try assumption. apply Hp.
Qed.

(* a datagram whose routed ID belongs to a registered connection reaches that connection
   whatever its source address *)
Theorem route_ignores_source conns d id c :
  route d = Some id -> lookup id conns = Some c ->
  forall src, get_conn conns src d = Some c.
Proof. intros Hr Hl src. unfold get_conn, get_conn_id. now rewrite Hr, Hl. Qed.

(* LISTENER ROUTING: a record whose routed connection ID is registered for connection a is handed
   to a whatever its source address - in particular when that address is the one tracked for
   another live connection. *)
Theorem owner_gets_record conns id a :
  lookup id conns = Some a -> forall src, get_conn_id conns src (Some id) = Some a.
Proof. intros Hl src. unfold get_conn_id. now rewrite Hl. Qed.

(* the address-first order does not have this property: two connections, a record carrying the
   ID of connection 1 from the address tracked for connection 2 is handed to connection 2 *)
Example addr_first_misroutes :
  let conns := [([1;1], 1); ([9;9;9], 1); ([2;2], 2); ([8;8;8], 2)] in
  get_conn_id conns [8;8;8] (Some [1;1]) = Some 1 /\
  get_conn_addr_first conns [8;8;8] (Some [1;1]) = Some 2.
Proof. vm_compute. split; reflexivity. Qed.
