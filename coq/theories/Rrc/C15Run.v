(* C15 - executable comparison functions for the correspondence harnesses (evaluated with
   vm_compute on the observed cases by checks/c15.py). *)
From DtlsV Require Import Lib.Bytes Rec.Window Rrc.C15Manager Rrc.C15Conn Rrc.C15Newest Rrc.C15Router.
Open Scope N_scope.

Fixpoint mismatches_from {A} (ok : A -> bool) (i : N) (l : list A) : list N :=
  match l with
  | [] => []
  | c :: l' => if ok c then mismatches_from ok (i + 1) l' else i :: mismatches_from ok (i + 1) l'
  end.
Definition mismatches {A} (ok : A -> bool) (l : list A) : list N := mismatches_from ok 0 l.

(* ---------------------------------------------------------------- (a) rrc.Manager, step by step *)

Inductive uop :=
| UOp (o : op)
| UNop
| UPreset (a : addr) (r s : N).     (* harness writes receivedBytes/sentBytes of an existing path *)

Definition ustep (s : paths) (u : uop) : paths * bool :=
  match u with
  | UOp o => step s o
  | UNop => (s, true)
  | UPreset a r sn =>
      match pget a s with
      | Some p => (pset a (mkPath r sn (p_cookie p) (p_pending p) (p_expires p)) s, true)
      | None => (s, true)
      end
  end.

(* address, received, sent, cookie, pending, expires *)
Definition dump_entry := (N * N * N * N * bool * N)%type.

Definition entry_ok (s : paths) (d : dump_entry) : bool :=
  let '(a, r, sn, c, pd, e) := d in
  match pget a s with
  | Some p => (p_recv p =? r) && (p_sent p =? sn) && (p_cookie p =? c) && Bool.eqb (p_pending p) pd
              && (p_expires p =? e)
  | None => false
  end.

Definition dump_ok (s : paths) (d : list dump_entry) : bool :=
  (N.of_nat (length s) =? N.of_nat (length d)) && forallb (entry_ok s) d.

(* does the Go function have a boolean result to compare? *)
Definition has_result (u : uop) : bool :=
  match u with
  | UOp (OStart _ _ _ _ _) | UOp (OResp _ _ _) | UOp (OReserve _ _ _ _) => true
  | _ => false
  end.

(* the dump is None when the harness saw the same paths map as after the previous operation *)
Definition unit_case := list (uop * bool * option (list dump_entry)).

Fixpoint unit_run (s : paths) (last : list dump_entry) (c : unit_case) : bool :=
  match c with
  | [] => true
  | (u, res, od) :: c' =>
      let '(s', r) := ustep s u in
      let d := match od with Some d => d | None => last end in
      (if has_result u then Bool.eqb r res else true) && dump_ok s' d && unit_run s' d c'
  end.

Definition unit_ok (c : unit_case) : bool := unit_run [] [] c.

(* ---------------------------------------------------------------- (b) end to end *)

(* one scripted step of the end-to-end harness *)
Inductive e2e_step :=
(* a datagram holding one protected record is delivered to the endpoint under test:
   source address, epoch, sequence number, connection-ID field of the header (None = ordinary
   record), wire bytes, decoded content, cookie of the challenge the endpoint emitted in this step
   (0 if none), virtual time, and the endpoint's remote epoch after the step (an input: which
   records raise it - ChangeCipherSpec, KeyUpdate - is the handshake's business) *)
| SDeliver (from : addr) (ep seq : N) (rc : option bytes) (nbytes : N) (k : content)
           (cookie now repoch : N)
(* the clock was advanced and the bubble is idle again *)
| STick (now : N).

(* observation after a step: RemoteAddr(), RRC records emitted (0 = challenge, 1 = response;
   destination; size; cookie), and whether Read returned a payload *)
Definition e2e_obs := (addr * list (N * addr * N * N) * bool)%type.

Definition out_proj (o : out) : N * addr * N * N :=
  ((match o_type o with TChallenge => 0 | TResponse => 1 end), o_dest o, o_size o, o_cookie o).

(* the step function IS C15Newest.estep (verdict of the code now, RSeen): admission by epoch, replay window and
   connection ID, the newest-record verdict, then the connection-level step *)
Definition e2e_step_fn (local : bytes) (wsize : N) (st : estate) (s : e2e_step)
  : estate * list (N * addr * N * N) * bool :=
  match s with
  | STick now => (fst (fst (estep RSeen local st (EConn (EPurge now)))), [], false)
  | SDeliver from ep seq rc nb k cookie now repoch =>
      let r := mkRecv from (match rc with Some _ => true | None => false end) false nb k
                      cookie wsize WOk now in
      let '(st1, outs, acc) := estep RSeen local st (EArrive (mkArr ep seq rc r)) in
      let st2 := fst (fst (estep RSeen local st1 (EEpoch repoch))) in
      (st2, map out_proj (filter o_sent outs),
       match acc, k with Some _, KApp => true | _, _ => false end)
  end.

Definition quad_eqb (x y : N * addr * N * N) : bool :=
  let '(a1, b1, c1, d1) := x in let '(a2, b2, c2, d2) := y in
  (a1 =? a2) && (b1 =? b2) && (c1 =? c2) && (d1 =? d2).

Fixpoint quads_eqb (x y : list (N * addr * N * N)) : bool :=
  match x, y with
  | [], [] => true
  | a :: x', b :: y' => quad_eqb a b && quads_eqb x' y'
  | _, _ => false
  end.

Fixpoint e2e_run (local : bytes) (wsize : N) (st : estate) (steps : list (e2e_step * e2e_obs)) : bool :=
  match steps with
  | [] => true
  | (s, (ra, outs, delivered)) :: rest =>
      let '(st', mouts, mdel) := e2e_step_fn local wsize st s in
      (raddr (e_c st') =? ra) && quads_eqb mouts outs && Bool.eqb mdel delivered
      && e2e_run local wsize st' rest
  end.

(* the protected records the endpoint was handed during the handshake: only the windows and the
   per-epoch flags they leave behind matter *)
Fixpoint npre (st : nstate) (pre : list (N * N)) : nstate :=
  match pre with
  | [] => st
  | (ep, seq) :: pre' =>
      npre (if nadmit st ep seq then fst (naccept RSeen st ep seq) else st) pre'
  end.

(* case: RRC negotiated, local connection ID of the endpoint under test, wire size of its RRC
   records, protected records (epoch, seq) it was handed during the handshake, its remote epoch
   after the handshake, initial remote address, steps with observations *)
Definition e2e_case := (bool * bytes * N * list (N * N) * N * addr * list (e2e_step * e2e_obs))%type.

Definition e2e_ok (c : e2e_case) : bool :=
  let '(neg, local, wsize, pre, repoch0, ra0, steps) := c in
  e2e_run local wsize (mkES (npre (ninit repoch0) pre) (mkC ra0 neg [])) steps.

(* ---------------------------------------------------------------- (c) router *)

(* case: structural datagram, observed (found, id) *)
Definition router_case := (dgram * option bytes)%type.

Definition obytes_eqb (x y : option bytes) : bool :=
  match x, y with
  | None, None => true
  | Some a, Some b => bytes_eqb a b
  | _, _ => false
  end.

Definition router_ok (c : router_case) : bool := obytes_eqb (route (fst c)) (snd c).

(* ---------------------------------------------------------------- (d) listener with several connections *)

(* case: the listener's table (connection IDs and tracked address strings -> connection index),
   source address string, connection ID on the record, index of the connection whose keys made the
   record (99 = none: altered ID), observed reader (None = nobody read the payload).
   The connection handed the datagram reads it iff it owns the keys. *)
Definition listener_case := (list (bytes * N) * bytes * bytes * N * option N)%type.

Definition oN_eqb (x y : option N) : bool :=
  match x, y with
  | None, None => true
  | Some a, Some b => a =? b
  | _, _ => false
  end.

Definition listener_ok (c : listener_case) : bool :=
  let '(conns, src, cid, owner, obs) := c in
  match get_conn_id conns src (Some cid) with
  | Some k => oN_eqb obs (if k =? owner then Some k else None)
  | None => oN_eqb obs None
  end.

(* ---------------------------------------------------------------- (e) what the listener learns *)

(* case: first records of the datagrams a server connection wrote during its handshake, and the ID
   cidConnIdentifier yielded over them in order (None = it never yielded one) *)
Definition learn_case := (list first_rec * option bytes)%type.

Definition learn_ok (c : learn_case) : bool := obytes_eqb (learned (fst c)) (snd c).
