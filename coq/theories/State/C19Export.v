(* C19 - model of the exported connection state of pion/dtls (state.go, resume.go, conn.go
   prepareHandshakeStart12 / nextLocalSequenceNumber, internal/state/common.go + state12.go).
   Executable definitions only; proofs are in C19ExportSound.v.

   Not modelled: the gob layer under MarshalBinary / UnmarshalBinary (Go standard library).
   [serialize] / [unmarshal] below are the field maps state.go applies before encoding and after
   decoding a [serializedState]; gob is taken to round-trip a serializedState value (it does not
   distinguish nil from empty slices, which is why byte strings are plain lists here).

   Randoms are the 32-byte wire form ([handshake.Random.MarshalFixed]): every consumer in
   state.go (serialisation, cipher-suite initialisation, exporter) goes through MarshalFixed, and
   UnmarshalFixed o MarshalFixed is the identity on that form. *)
From DtlsV Require Import Lib.Bytes Rec.Window.
Open Scope N_scope.

(* protocol.Version as major * 256 + minor *)
Definition v12 : N := 65277.   (* {0xfe, 0xfd} *)
Definition v13 : N := 65276.   (* {0xfe, 0xfc} *)
Definition v_zero : N := 0.    (* protocol.Version{} *)

Definition max_seq : N := 281474976710655.            (* recordlayer.MaxSequenceNumber = 2^48 - 1 *)
Definition two64 : N := 18446744073709551616.         (* uint64 counters wrap *)

(* ---------- cipher suites as state.go sees them: ciphersuite.ForID(id, nil) ----------
   (id, record-protection class, PRF hash: 1 = SHA-256 / 2 = SHA-384, DTLS 1.3 suite).
   Two ids of one class derive the same key block from the same secrets and protect records
   identically (same AEAD/CBC construction, key and IV lengths, PRF hash). *)
Definition suite_table : list (N * N * N * bool) :=
  [ (168,   1, 1, false)    (* TLS_PSK_WITH_AES_128_GCM_SHA256 *)
  ; (174,   2, 1, false)    (* TLS_PSK_WITH_AES_128_CBC_SHA256 *)
  ; (4865,  0, 1, true)     (* TLS_AES_128_GCM_SHA256 (1.3) *)
  ; (4866,  0, 2, true)     (* TLS_AES_256_GCM_SHA384 (1.3) *)
  ; (4867,  0, 1, true)     (* TLS_CHACHA20_POLY1305_SHA256 (1.3) *)
  ; (49162, 3, 1, false)    (* TLS_ECDHE_ECDSA_WITH_AES_256_CBC_SHA *)
  ; (49172, 3, 1, false)    (* TLS_ECDHE_RSA_WITH_AES_256_CBC_SHA *)
  ; (49195, 1, 1, false)    (* TLS_ECDHE_ECDSA_WITH_AES_128_GCM_SHA256 *)
  ; (49196, 4, 2, false)    (* TLS_ECDHE_ECDSA_WITH_AES_256_GCM_SHA384 *)
  ; (49199, 1, 1, false)    (* TLS_ECDHE_RSA_WITH_AES_128_GCM_SHA256 *)
  ; (49200, 4, 2, false)    (* TLS_ECDHE_RSA_WITH_AES_256_GCM_SHA384 *)
  ; (49207, 2, 1, false)    (* TLS_ECDHE_PSK_WITH_AES_128_CBC_SHA256 *)
  ; (49316, 5, 1, false)    (* TLS_PSK_WITH_AES_128_CCM *)
  ; (49320, 6, 1, false)    (* TLS_PSK_WITH_AES_128_CCM_8 *)
  ; (49321, 7, 1, false)    (* TLS_PSK_WITH_AES_256_CCM_8 *)
  ; (49324, 5, 1, false)    (* TLS_ECDHE_ECDSA_WITH_AES_128_CCM *)
  ; (49326, 6, 1, false)    (* TLS_ECDHE_ECDSA_WITH_AES_128_CCM_8 *)
  ; (52392, 8, 1, false)    (* TLS_ECDHE_RSA_WITH_CHACHA20_POLY1305_SHA256 *)
  ; (52393, 8, 1, false)    (* TLS_ECDHE_ECDSA_WITH_CHACHA20_POLY1305_SHA256 *)
  ; (52395, 8, 1, false) ]. (* TLS_PSK_WITH_CHACHA20_POLY1305_SHA256 *)

Fixpoint suite_lookup (t : list (N * N * N * bool)) (id : N) : option (N * N * bool) :=
  match t with
  | [] => None
  | (i, c, h, b) :: t' => if i =? id then Some (c, h, b) else suite_lookup t' id
  end.

(* ForID(id, nil) <> nil : custom suites of the configuration are NOT consulted by state.go *)
Definition suite_known (id : N) : bool :=
  match suite_lookup suite_table id with Some _ => true | None => false end.
Definition suite_hash (id : N) : option N :=
  match suite_lookup suite_table id with Some (_, h, _) => Some h | None => None end.
(* record protection usable on a DTLS 1.2 connection: the 1.3 suites' Encrypt/Decrypt return
   "record protection is not implemented" *)
Definition suite_class (id : N) : option N :=
  match suite_lookup suite_table id with
  | Some (c, _, false) => Some c
  | _ => None
  end.

(* ---------- switches for repaired defects ([true] = the code of /repo now) ----------
   F73 (repaired by 4d323b9): generateState read LocalSequenceNumber[LocalEpoch] WITHOUT a bounds
   check; between fsm12.prepare's SetLocalEpoch(1) and the first record of that epoch the index
   does not exist and ConnectionState() panicked.  [true]: such a state is refused
   (ErrHandshakeInProgress), as it is before the handshake. *)
Definition export_checks_counter_exists : bool := true.
(* F74 (repaired by 920182a): generateInternalState accepted any 64-bit value as the next record
   sequence number; with 2^64-1 the first write failed, the counter wrapped and later writes went
   out as records 0, 1, ... of the same epoch and key.  [true]: a number above 2^48 (= MaxSequenceNumber
   + 1, the value of an exhausted counter) is refused with ErrSequenceNumberOverflow. *)
Definition import_checks_seq_limit : bool := true.
(* F67 (repaired by 559b800): conn.go prepareHandshakeStart reached the resume branch only when
   the options limited the connection to DTLS 1.2; with options that allow DTLS 1.3 the resume
   state was ignored and a NEW handshake started.  [true]: a resume state is honoured whatever
   versions the options allow. *)
Definition resume_honoured_for_any_version : bool := true.

(* ---------- internal connection state (internal/state Common + State12), projected ---------- *)
Record istate := mkI {
  i_version : N;                 (* LocalVersion *)
  i_local_epoch : N;
  i_remote_epoch : N;
  i_local_random : bytes;
  i_remote_random : bytes;
  i_master : bytes;              (* State12.MasterSecret *)
  i_local_seq : list N;          (* LocalSequenceNumber, indexed by epoch: next number to use *)
  i_remote_seq : list N;         (* RemoteSequenceNumber (highest seen, used by DTLS 1.3 only) *)
  i_replay : list win;           (* ReplayDetector, indexed by epoch (created on demand) *)
  i_suite : option N;            (* CipherSuite (None = nil) *)
  i_profile : N;                 (* negotiated SRTP protection profile, 0 = none *)
  i_mki : bytes;                 (* RemoteSRTPMasterKeyIdentifier *)
  i_local_cid : bytes;
  i_remote_cid : bytes;
  i_rrc : bool;
  i_is_client : bool;
  i_certs : list bytes;          (* PeerCertificates *)
  i_hint : bytes;                (* IdentityHint *)
  i_session_id : bytes;
  i_alpn : bytes;                (* NegotiatedProtocol *)
  (* handshake-time fields that exist in the internal state and are not part of the export *)
  i_ems : bool;                  (* ExtendedMasterSecret *)
  i_cid_offered : bool * bool;   (* LocalCIDOffered, RemoteCIDOffered *)
  i_certs_verified : bool;       (* PeerCertificatesVerified *)
  i_hs_seq : N * N               (* HandshakeSendSequence, HandshakeRecvSequence *)
}.

(* public State (state.go) *)
Record pstate := mkP {
  p_version : N;
  p_local_epoch : N;
  p_remote_epoch : N;
  p_local_random : bytes;
  p_remote_random : bytes;
  p_master : bytes;
  p_seq : N;                     (* sequenceNumber: ONE counter *)
  p_suite : N;                   (* CipherSuiteID *)
  p_profile : N;
  p_mki : bytes;
  p_local_cid : bytes;
  p_remote_cid : bytes;
  p_rrc : bool;
  p_is_client : bool;
  p_certs : list bytes;
  p_hint : bytes;
  p_session_id : bytes;
  p_alpn : bytes
}.

(* serializedState (what gob encodes) *)
Record sstate := mkS {
  s_version : N;
  s_local_epoch : N;
  s_remote_epoch : N;
  s_local_random : bytes;
  s_remote_random : bytes;
  s_suite : N;
  s_master : bytes;
  s_seq : N;
  s_profile : N;
  s_mki : bytes;
  s_certs : list bytes;
  s_hint : bytes;
  s_session_id : bytes;
  s_local_cid : bytes;
  s_remote_cid : bytes;
  s_rrc : bool;
  s_is_client : bool;
  s_alpn : bytes
}.

(* outcome of a Go function that may return an error or hit a run-time panic *)
Inductive outcome (A : Type) : Type :=
| Ok : A -> outcome A
| Refused : outcome A          (* error return *)
| Panics : outcome A.          (* index out of range *)
Arguments Ok {A} _.
Arguments Refused {A}.
Arguments Panics {A}.

Definition get (l : list N) (e : N) : N := nth (N.to_nat e) l 0.

(* generateState: refuses a missing suite and DTLS 1.3; refuses a state whose current local epoch
   has no sequence counter yet ([chk]; before 4d323b9 the index was read unchecked: run-time
   panic); copies the peer MKI only when a profile was negotiated; always labels the state 1.2 *)
Definition gen_state_gen (chk : bool) (s : istate) : outcome pstate :=
  match i_suite s with
  | None => Refused
  | Some id =>
    if i_version s =? v13 then Refused
    else if N.of_nat (length (i_local_seq s)) <=? i_local_epoch s then (if chk then Refused else Panics)
    else Ok {| p_version := v12;
               p_local_epoch := i_local_epoch s; p_remote_epoch := i_remote_epoch s;
               p_local_random := i_local_random s; p_remote_random := i_remote_random s;
               p_master := i_master s;
               p_seq := get (i_local_seq s) (i_local_epoch s);
               p_suite := id;
               p_profile := i_profile s;
               p_mki := if i_profile s =? 0 then [] else i_mki s;
               p_local_cid := i_local_cid s; p_remote_cid := i_remote_cid s;
               p_rrc := i_rrc s; p_is_client := i_is_client s;
               p_certs := i_certs s; p_hint := i_hint s; p_session_id := i_session_id s;
               p_alpn := i_alpn s |}
  end.
Definition gen_state : istate -> outcome pstate := gen_state_gen export_checks_counter_exists.

(* State.serialize *)
Definition serialize (p : pstate) : option sstate :=
  if p_suite p =? 0 then None
  else if p_version p =? v13 then None
  else Some {| s_version := if p_version p =? v_zero then v12 else p_version p;
               s_local_epoch := p_local_epoch p; s_remote_epoch := p_remote_epoch p;
               s_local_random := p_local_random p; s_remote_random := p_remote_random p;
               s_suite := p_suite p; s_master := p_master p; s_seq := p_seq p;
               s_profile := p_profile p; s_mki := p_mki p; s_certs := p_certs p;
               s_hint := p_hint p; s_session_id := p_session_id p;
               s_local_cid := p_local_cid p; s_remote_cid := p_remote_cid p;
               s_rrc := p_rrc p; s_is_client := p_is_client p; s_alpn := p_alpn p |}.

(* State.deserialize *)
Definition deserialize (z : sstate) : pstate :=
  {| p_version := if s_version z =? v_zero then v12 else s_version z;
     p_local_epoch := s_local_epoch z; p_remote_epoch := s_remote_epoch z;
     p_local_random := s_local_random z; p_remote_random := s_remote_random z;
     p_master := s_master z; p_seq := s_seq z; p_suite := s_suite z;
     p_profile := s_profile z; p_mki := s_mki z;
     p_local_cid := s_local_cid z; p_remote_cid := s_remote_cid z;
     p_rrc := s_rrc z; p_is_client := s_is_client z;
     p_certs := s_certs z; p_hint := s_hint z; p_session_id := s_session_id z;
     p_alpn := s_alpn z |}.

(* UnmarshalBinary after the gob decode: refuses version 1.3, then requires
   initializedCipherSuite (ForID(id, nil) <> nil; Init of a known suite does not fail) *)
Definition unmarshal (z : sstate) : option pstate :=
  if s_version z =? v13 then None
  else let p := deserialize z in
       if suite_known (p_suite p) then Some p else None.

(* a state captured before the handshake switched to its keys (local epoch 0, or no master secret
   yet - e.g. the *State handed to a VerifyConnection callback): generateInternalState refuses it
   with ErrHandshakeInProgress; UnmarshalBinary does not look at this *)
Definition pre_keys (p : pstate) : bool :=
  (p_local_epoch p =? 0) || match p_master p with [] => true | _ :: _ => false end.

(* generateInternalState + (conn.go prepareHandshakeStart12 with ResumeState): what is restored,
   and what starts from its zero value.  [lim]: the sequence number limit of 920182a - 2^48 itself
   (an exhausted counter: every write fails) is still accepted, anything above is not, whether it
   comes from damaged bytes or from a connection that kept attempting writes after exhaustion
   (each attempt advances the counter) *)
Definition seq_limit : N := max_seq + 1.
Definition gen_internal_gen (lim : bool) (p : pstate) : option istate :=
  if p_suite p =? 0 then None
  else if p_version p =? v13 then None
  else if lim && (seq_limit <? p_seq p) then None        (* ErrSequenceNumberOverflow *)
  else if pre_keys p then None                           (* ErrHandshakeInProgress *)
  else if negb (suite_known (p_suite p)) then None      (* InitCipherSuite: ErrCipherSuiteNotSet *)
  else Some {| i_version := v12;                          (* forced, whatever p_version says *)
               i_local_epoch := p_local_epoch p; i_remote_epoch := p_remote_epoch p;
               i_local_random := p_local_random p; i_remote_random := p_remote_random p;
               i_master := p_master p;
               (* zeros for the epochs below the local one, the exported number at it *)
               i_local_seq := repeat 0 (N.to_nat (p_local_epoch p)) ++ [p_seq p];
               i_remote_seq := [];
               i_replay := [];
               i_suite := Some (p_suite p);
               i_profile := p_profile p;
               i_mki := p_mki p;
               i_local_cid := p_local_cid p; i_remote_cid := p_remote_cid p;
               i_rrc := p_rrc p; i_is_client := p_is_client p;
               i_certs := p_certs p; i_hint := p_hint p; i_session_id := p_session_id p;
               i_alpn := p_alpn p;
               i_ems := false; i_cid_offered := (false, false); i_certs_verified := false;
               i_hs_seq := (0, 0) |}.
Definition gen_internal : pstate -> option istate := gen_internal_gen import_checks_seq_limit.

(* ConnectionState -> MarshalBinary -> UnmarshalBinary -> Resume, end to end *)
Definition import_export (s : istate) : option istate :=
  match gen_state s with
  | Ok p => match serialize p with
            | Some z => match unmarshal z with
                        | Some p' => gen_internal p'
                        | None => None
                        end
            | None => None
            end
  | _ => None
  end.

(* Conn.RemoteSRTPMasterKeyIdentifier / SelectedSRTPProtectionProfile *)
Definition obs_profile (s : istate) : option N := if i_profile s =? 0 then None else Some (i_profile s).
Definition obs_mki (s : istate) : option bytes := if i_profile s =? 0 then None else Some (i_mki s).

(* ---------- how the Conn built by resumeWithConfig starts (conn.go prepareHandshakeStart) ----------
   [vmin], [vmax]: handshakeConfig.MinVersion / MaxVersion (normalised: each is 1.2 or 1.3);
   [resume]: handshakeConfig.ResumeState <> nil.  Only StartFinished uses the resume state
   (prepareHandshakeStart12: client at Flight5, server at Flight6, FSM state FINISHED); StartNew12 /
   StartNew13 / StartDualStack run a new handshake (a client writes a plaintext ClientHello, a
   server waits for one).  StartRefused: HandshakeContext filters the configured suites - already
   cut down to the version range - by the version of the state it starts with; a resume state is
   DTLS 1.2, so with a 1.3-only range nothing is left and the first Handshake/Read/Write fails with
   ErrNoAvailableCipherSuites before anything is written. *)
Inductive hs_start := StartFinished | StartNew12 | StartNew13 | StartDualStack | StartRefused.

Definition hs_start_eqb (a b : hs_start) : bool :=
  match a, b with
  | StartFinished, StartFinished | StartNew12, StartNew12 | StartNew13, StartNew13
  | StartDualStack, StartDualStack | StartRefused, StartRefused => true
  | _, _ => false
  end.

Definition handshake_start_gen (honour : bool) (vmin vmax : N) (resume : bool) : hs_start :=
  if (vmax =? v12) || (honour && resume)
  then (if resume then (if vmin =? v13 then StartRefused else StartFinished) else StartNew12)
  else if vmin =? v13 then StartNew13
  else StartDualStack.
Definition handshake_start : N -> N -> bool -> hs_start := handshake_start_gen resume_honoured_for_any_version.

(* the state a Conn reports between createConn and its first Handshake/Read/Write: createConn
   gives every Conn a blank state (dtlsstate.NewActive); the resume state sits in the handshake
   configuration and is only installed by prepareHandshakeStart12, i.e. lazily *)
Definition blank_conn (is_client : bool) : istate :=
  {| i_version := v_zero; i_local_epoch := 0; i_remote_epoch := 0; i_local_random := []; i_remote_random := [];
     i_master := []; i_local_seq := []; i_remote_seq := []; i_replay := []; i_suite := None; i_profile := 0;
     i_mki := []; i_local_cid := []; i_remote_cid := []; i_rrc := false; i_is_client := is_client;
     i_certs := []; i_hint := []; i_session_id := []; i_alpn := [];
     i_ems := false; i_cid_offered := (false, false); i_certs_verified := false; i_hs_seq := (0, 0) |}.
Definition resumed_conn_before_start (x : istate) : istate := blank_conn (i_is_client x).

(* fsm12.finish answers a peer retransmission of the previous flight by re-sending the flights it
   kept from the handshake.  The flights, LocalVerifyData and the handshake message counters are
   not exported; of these the model carries the counters: a side that ran a handshake has sent at
   least one handshake message, a resumed one starts with (0, 0) and an empty flight list. *)
Definition can_repeat_final_flight (s : istate) : bool := negb (fst (i_hs_seq s) =? 0).

(* ---------- keying material: the PRF is a parameter of every statement ---------- *)
Section Keys.
  (* prf.PHash secret seed length hash *)
  Variable PHash : bytes -> bytes -> N -> N -> bytes.
  (* the key block computed by CipherSuite.Init: master secret, client random, server random,
     record-protection class *)
  Variable KeyBlock : bytes -> bytes -> bytes -> N -> bytes.
  (* invalidKeyingLabels *)
  Variable reserved : bytes -> bool.

  Definition p_client_random (p : pstate) : bytes :=
    if p_is_client p then p_local_random p else p_remote_random p.
  Definition p_server_random (p : pstate) : bytes :=
    if p_is_client p then p_remote_random p else p_local_random p.

  (* State.ExportKeyingMaterial with an empty context *)
  Definition exporter (p : pstate) (label : bytes) (n : N) : option bytes :=
    if p_local_epoch p =? 0 then None
    else if reserved label then None
    else match suite_hash (p_suite p) with
         | None => None
         | Some h => Some (PHash (p_master p) (label ++ p_client_random p ++ p_server_random p) n h)
         end.

  (* Conn.ConnectionState().ExportKeyingMaterial *)
  Definition conn_exporter (s : istate) (label : bytes) (n : N) : option bytes :=
    match gen_state s with Ok p => exporter p label n | _ => None end.

  Definition i_client_random (s : istate) : bytes :=
    if i_is_client s then i_local_random s else i_remote_random s.
  Definition i_server_random (s : istate) : bytes :=
    if i_is_client s then i_remote_random s else i_local_random s.

  (* InitCipherSuite: the key block and which half of it this side writes with *)
  Definition key_block (s : istate) : option bytes :=
    match i_suite s with
    | Some id => match suite_class id with
                 | Some c => Some (KeyBlock (i_master s) (i_client_random s) (i_server_random s) c)
                 | None => None
                 end
    | None => None
    end.
End Keys.

(* the arguments of the key block, for executable comparison *)
Definition key_inputs (s : istate) : option (bytes * bytes * bytes * N) :=
  match i_suite s with
  | Some id => match suite_class id with
               | Some c => Some (i_master s, i_client_random s, i_server_random s, c)
               | None => None
               end
  | None => None
  end.

Definition key_inputs_eqb (a b : bytes * bytes * bytes * N) : bool :=
  let '(m1, c1, s1, k1) := a in
  let '(m2, c2, s2, k2) := b in
  bytes_eqb m1 m2 && bytes_eqb c1 c2 && bytes_eqb s1 s2 && (k1 =? k2).

(* ---------- sender: conn.go nextLocalSequenceNumber ---------- *)
(* update position k of a counter list, padding with zeros as the code does *)
Fixpoint upd (st : list N) (k : nat) (f : N -> N) : list N :=
  match k, st with
  | O, [] => [f 0]
  | O, x :: r => f x :: r
  | S k', [] => 0 :: upd [] k' f
  | S k', x :: r => x :: upd r k' f
  end.

(* atomic.AddUint64(&LocalSequenceNumber[epoch], 1) - 1; the counter is advanced even when the
   number is refused *)
Definition alloc (st : list N) (e : N) : list N * option N :=
  let q := get st e in
  (upd st (N.to_nat e) (fun x => (x + 1) mod two64), if q <=? max_seq then Some q else None).

(* the (epoch, sequence number) pairs put on the wire by a sequence of sends at the given epochs *)
Fixpoint emitted (st : list N) (es : list N) : list (N * N) :=
  match es with
  | [] => []
  | e :: es' =>
      let '(st', r) := alloc st e in
      match r with
      | Some q => (e, q) :: emitted st' es'
      | None => emitted st' es'
      end
  end.

Fixpoint counters_after (st : list N) (es : list N) : list N :=
  match es with
  | [] => st
  | e :: es' => counters_after (fst (alloc st e)) es'
  end.

(* ---------- does a record written by [a] (Conn.Write) get delivered by [b] (Conn.Read)? ----------
   Reduced to the state fields the record layer consults (conn.go processPacket /
   prepareLegacyPacket): a number must be available, the epoch must be a protected one that the
   receiver already reads, CID framing must match, and the sender's write key must be the
   receiver's read key.  "Different key inputs => the record does not authenticate" is the
   idealisation (no collisions of the key derivation / AEAD); the converse is functional.
   The receiver's replay window is taken to be fresh for that number. *)
Definition delivers (a b : istate) : bool :=
  match key_inputs a, key_inputs b with
  | Some ka, Some kb =>
      key_inputs_eqb ka kb && xorb (i_is_client a) (i_is_client b)
      && (get (i_local_seq a) (i_local_epoch a) <=? max_seq)
      && negb (i_local_epoch a =? 0) && (i_local_epoch a <=? i_remote_epoch b)
      && bytes_eqb (i_remote_cid a) (i_local_cid b)
  | _, _ => false
  end.

(* the peer's view of the same session *)
Definition mirrors (s t : istate) : Prop :=
  i_master t = i_master s /\ i_local_random t = i_remote_random s /\
  i_remote_random t = i_local_random s /\ i_is_client t = negb (i_is_client s) /\
  i_local_cid t = i_remote_cid s /\ i_remote_cid t = i_local_cid s /\
  (exists ids idt, i_suite s = Some ids /\ i_suite t = Some idt /\
                   suite_class ids = suite_class idt /\ suite_hash ids = suite_hash idt).

(* ---------- ConnectionState() called more than once on one connection ----------
   conn.go ConnectionState takes the read lock and runs generateState on the state AS IT IS NOW,
   every time: the State it hands out is a function of the current connection state, whatever
   earlier calls returned.  A Conn is modelled as its internal state plus a slot in which a
   memoising variant would keep the first snapshot ([c_memo]; the code of /repo has no such slot:
   [export] never reads or writes it).  Histories: a send at an epoch (Write, alert, RRC,
   retransmission: conn.go nextLocalSequenceNumber) or a look (a ConnectionState() call whose
   result the application only inspects). *)
Record conn := mkConn { c_state : istate; c_memo : option pstate }.
Inductive ev := EvSend (e : N) | EvLook.

Definition conn_fresh (s : istate) : conn := mkConn s None.

Definition set_local_seq (s : istate) (l : list N) : istate :=
  {| i_version := i_version s; i_local_epoch := i_local_epoch s; i_remote_epoch := i_remote_epoch s;
     i_local_random := i_local_random s; i_remote_random := i_remote_random s; i_master := i_master s;
     i_local_seq := l; i_remote_seq := i_remote_seq s; i_replay := i_replay s; i_suite := i_suite s;
     i_profile := i_profile s; i_mki := i_mki s; i_local_cid := i_local_cid s; i_remote_cid := i_remote_cid s;
     i_rrc := i_rrc s; i_is_client := i_is_client s; i_certs := i_certs s; i_hint := i_hint s;
     i_session_id := i_session_id s; i_alpn := i_alpn s; i_ems := i_ems s; i_cid_offered := i_cid_offered s;
     i_certs_verified := i_certs_verified s; i_hs_seq := i_hs_seq s |}.

(* Conn.ConnectionState.  [memo = false]: the code of /repo.  [memo = true]: a variant that keeps
   the first State it produced and hands that copy out from then on ("what the handshake
   negotiated does not change" - but the next record sequence number does). *)
Definition export_gen (memo : bool) (c : conn) : conn * outcome pstate :=
  match (if memo then c_memo c else None) with
  | Some p => (c, Ok p)
  | None =>
      match gen_state (c_state c) with
      | Ok p => (mkConn (c_state c) (if memo then Some p else c_memo c), Ok p)
      | Refused => (c, Refused)
      | Panics => (c, Panics)
      end
  end.
Definition export : conn -> conn * outcome pstate := export_gen false.

Definition conn_step (memo : bool) (c : conn) (x : ev) : conn :=
  match x with
  | EvSend e => mkConn (set_local_seq (c_state c) (fst (alloc (i_local_seq (c_state c)) e))) (c_memo c)
  | EvLook => fst (export_gen memo c)
  end.

Fixpoint conn_run (memo : bool) (c : conn) (evs : list ev) : conn :=
  match evs with
  | [] => c
  | x :: r => conn_run memo (conn_step memo c x) r
  end.

(* the epochs of the sends of a history, in order *)
Fixpoint sends_of (evs : list ev) : list N :=
  match evs with
  | [] => []
  | EvSend e :: r => e :: sends_of r
  | EvLook :: r => sends_of r
  end.

(* the sequence number each look of a history returned (None: no State was returned) *)
Fixpoint looks_seqs (memo : bool) (c : conn) (evs : list ev) : list (option N) :=
  match evs with
  | [] => []
  | EvLook :: r =>
      let '(c', o) := export_gen memo c in
      (match o with Ok p => Some (p_seq p) | _ => None end) :: looks_seqs memo c' r
  | x :: r => looks_seqs memo (conn_step memo c x) r
  end.
