(* C19 - theorems about the export / import model of State/C19Export.v. *)
From DtlsV Require Import Lib.Bytes Rec.Window State.C19Export.
From Coq Require Import ZifyN ZifyNat ZifyBool.
Open Scope N_scope.

Local Arguments get : simpl never.
Local Arguments suite_known : simpl never.
Local Arguments suite_class : simpl never.
Local Arguments suite_hash : simpl never.

(* ------------------------------------------------------------------ basics *)

Lemma suite_known_nonzero id : suite_known id = true -> id <> 0.
Proof. intros Hk E. subst id. vm_compute in Hk. discriminate. Qed.

Lemma get_nil e : get [] e = 0.
Proof. unfold get. destruct (N.to_nat e); reflexivity. Qed.

Lemma get_repeat0_app n q e :
  get (repeat 0 n ++ [q]) e = if e =? N.of_nat n then q else 0.
Proof.
  unfold get. destruct (e =? N.of_nat n) eqn:E.
  - apply N.eqb_eq in E. subst e. rewrite Nat2N.id.
    rewrite app_nth2 by (rewrite repeat_length; lia).
    rewrite repeat_length, Nat.sub_diag. reflexivity.
  - apply N.eqb_neq in E.
    destruct (Nat.lt_ge_cases (N.to_nat e) n) as [Hlt | Hge].
    + rewrite app_nth1 by (rewrite repeat_length; exact Hlt).
      apply nth_repeat.
    + assert (Hgt : (n < N.to_nat e)%nat) by lia.
      rewrite nth_overflow; [reflexivity|].
      rewrite app_length, repeat_length. cbn [length]. lia.
Qed.

(* a state that ConnectionState / MarshalBinary / UnmarshalBinary / Resume accept *)
Definition exportable (s : istate) : Prop :=
  (exists id, i_suite s = Some id /\ suite_known id = true) /\
  i_version s <> v13 /\
  i_local_epoch s < N.of_nat (length (i_local_seq s)) /\
  (* the keys are switched on: generateInternalState refuses anything earlier *)
  i_local_epoch s <> 0 /\ i_master s <> [] /\
  (* the counter is one a connection can have reached without attempting writes after exhaustion *)
  get (i_local_seq s) (i_local_epoch s) <= seq_limit.

(* the result of the whole round trip, explicitly *)
Definition imported (s : istate) (id : N) : istate :=
  {| i_version := v12;
     i_local_epoch := i_local_epoch s; i_remote_epoch := i_remote_epoch s;
     i_local_random := i_local_random s; i_remote_random := i_remote_random s;
     i_master := i_master s;
     i_local_seq := repeat 0 (N.to_nat (i_local_epoch s)) ++ [get (i_local_seq s) (i_local_epoch s)];
     i_remote_seq := [];
     i_replay := [];
     i_suite := Some id;
     i_profile := i_profile s;
     i_mki := if i_profile s =? 0 then [] else i_mki s;
     i_local_cid := i_local_cid s; i_remote_cid := i_remote_cid s;
     i_rrc := i_rrc s; i_is_client := i_is_client s;
     i_certs := i_certs s; i_hint := i_hint s; i_session_id := i_session_id s;
     i_alpn := i_alpn s;
     i_ems := false; i_cid_offered := (false, false); i_certs_verified := false;
     i_hs_seq := (0, 0) |}.

Lemma import_export_eq s id :
  i_suite s = Some id -> suite_known id = true -> i_version s <> v13 ->
  i_local_epoch s < N.of_nat (length (i_local_seq s)) ->
  i_local_epoch s <> 0 -> i_master s <> [] ->
  get (i_local_seq s) (i_local_epoch s) <= seq_limit ->
  import_export s = Some (imported s id).
Proof.
  intros Hs Hk Hv Hl He0 Hm Hq.
  pose proof (suite_known_nonzero id Hk) as Hnz.
  unfold import_export, gen_state, gen_state_gen. rewrite Hs.
  destruct (i_version s =? v13) eqn:Ev; [apply N.eqb_eq in Ev; contradiction|].
  destruct (N.of_nat (length (i_local_seq s)) <=? i_local_epoch s) eqn:El;
    [apply N.leb_le in El; lia|].
  unfold serialize. cbn [p_suite p_version].
  destruct (id =? 0) eqn:E0; [apply N.eqb_eq in E0; contradiction|].
  change (v12 =? v13) with false. change (v12 =? v_zero) with false. cbn iota.
  unfold unmarshal. cbn [s_version]. change (v12 =? v13) with false. cbn iota.
  unfold deserialize. cbn [s_version s_suite p_suite]. change (v12 =? v_zero) with false. cbn iota.
  rewrite Hk.
  unfold gen_internal, gen_internal_gen, pre_keys.
  cbn [p_suite p_version p_local_epoch p_master p_seq s_local_epoch s_master s_seq]. rewrite E0.
  change (v12 =? v13) with false.
  destruct (seq_limit <? get (i_local_seq s) (i_local_epoch s)) eqn:Eq; [apply N.ltb_lt in Eq; lia|].
  rewrite Bool.andb_false_r.
  destruct (i_local_epoch s =? 0) eqn:Ee; [apply N.eqb_eq in Ee; contradiction|].
  destruct (i_master s) as [|m0 ms] eqn:Em; [contradiction|].
  rewrite Hk. cbn [negb orb]. cbn iota.
  unfold imported. rewrite Em. reflexivity.
Qed.

Lemma exportable_import s : exportable s -> exists id, i_suite s = Some id /\ suite_known id = true /\
  import_export s = Some (imported s id).
Proof.
  intros [[id [Hs Hk]] [Hv [Hl [He0 [Hm Hq]]]]]. exists id. repeat split; try assumption.
  now apply import_export_eq.
Qed.

(* the round trip is defined exactly on the exportable states *)
Theorem import_export_defined_iff s : (exists s', import_export s = Some s') <-> exportable s.
Proof.
  split.
  - intros [s' H]. unfold import_export, gen_state, gen_state_gen in H.
    destruct (i_suite s) as [id|] eqn:Hs; [|discriminate].
    destruct (i_version s =? v13) eqn:Ev; [discriminate|].
    destruct (N.of_nat (length (i_local_seq s)) <=? i_local_epoch s) eqn:El;
      [destruct export_checks_counter_exists; discriminate|].
    unfold serialize in H. cbn [p_suite p_version] in H.
    destruct (id =? 0) eqn:E0; [discriminate|].
    change (v12 =? v13) with false in H. change (v12 =? v_zero) with false in H. cbn iota in H.
    unfold unmarshal in H. cbn [s_version] in H. change (v12 =? v13) with false in H. cbn iota in H.
    unfold deserialize in H at 1. cbn [p_suite s_suite] in H.
    destruct (suite_known id) eqn:Hk; [|discriminate].
    unfold gen_internal, gen_internal_gen, pre_keys, deserialize in H.
    cbn [p_suite p_version p_local_epoch p_master p_seq s_local_epoch s_master s_suite s_version s_seq] in H.
    change (v12 =? v_zero) with false in H. cbn iota in H.
    rewrite E0 in H. change (v12 =? v13) with false in H. cbn iota in H.
    destruct (seq_limit <? get (i_local_seq s) (i_local_epoch s)) eqn:Eq;
      [change import_checks_seq_limit with true in H; discriminate|].
    rewrite Bool.andb_false_r in H.
    destruct (i_local_epoch s =? 0) eqn:Ee; [discriminate|].
    destruct (i_master s) as [|m0 ms] eqn:Em; [discriminate|].
    split; [exists id; split; [exact Hs|exact Hk]|].
    split; [apply N.eqb_neq; exact Ev|].
    split; [apply N.leb_gt in El; exact El|].
    split; [apply N.eqb_neq; exact Ee|].
    split; [rewrite Em; discriminate|apply N.ltb_ge; exact Eq].
  - intros He. destruct (exportable_import s He) as [id [_ [_ H]]]. eexists. exact H.
Qed.

(* ------------------------------------------------------------------ what is preserved, what is reset *)

Theorem import_export_preserves s : exportable s ->
  exists s', import_export s = Some s' /\
  (* preserved *)
  ( i_local_epoch s' = i_local_epoch s /\ i_remote_epoch s' = i_remote_epoch s /\
    i_local_random s' = i_local_random s /\ i_remote_random s' = i_remote_random s /\
    i_master s' = i_master s /\ i_suite s' = i_suite s /\
    i_profile s' = i_profile s /\ obs_profile s' = obs_profile s /\ obs_mki s' = obs_mki s /\
    i_local_cid s' = i_local_cid s /\ i_remote_cid s' = i_remote_cid s /\
    i_rrc s' = i_rrc s /\ i_is_client s' = i_is_client s /\
    i_certs s' = i_certs s /\ i_hint s' = i_hint s /\ i_session_id s' = i_session_id s /\
    i_alpn s' = i_alpn s /\
    (* the next sequence number of the CURRENT local epoch *)
    get (i_local_seq s') (i_local_epoch s') = get (i_local_seq s) (i_local_epoch s) ) /\
  (* forced / reset, whatever [s] held *)
  ( i_version s' = v12 /\
    (forall e, e <> i_local_epoch s -> get (i_local_seq s') e = 0) /\
    i_local_seq s' = repeat 0 (N.to_nat (i_local_epoch s)) ++ [get (i_local_seq s) (i_local_epoch s)] /\
    i_remote_seq s' = [] /\ i_replay s' = [] /\
    i_mki s' = (if i_profile s =? 0 then [] else i_mki s) /\
    i_ems s' = false /\ i_cid_offered s' = (false, false) /\ i_certs_verified s' = false /\
    i_hs_seq s' = (0, 0) ).
Proof.
  intros He. destruct (exportable_import s He) as [id [Hs [Hk H]]].
  exists (imported s id). split; [exact H|]. split.
  - unfold imported, obs_profile, obs_mki; cbn.
    repeat split; try reflexivity; try (symmetry; exact Hs).
    + destruct (i_profile s =? 0); reflexivity.
    + rewrite get_repeat0_app. rewrite N2Nat.id. rewrite N.eqb_refl. reflexivity.
  - unfold imported; cbn. repeat split; try reflexivity.
    intros e Hne. rewrite get_repeat0_app. rewrite N2Nat.id.
    destruct (e =? i_local_epoch s) eqn:E; [apply N.eqb_eq in E; contradiction|reflexivity].
Qed.

(* a 1.2 state stays a 1.2 state *)
Corollary import_export_version s s' : import_export s = Some s' -> i_version s = v12 -> i_version s' = i_version s.
Proof.
  intros H Hv. assert (He : exportable s) by (apply import_export_defined_iff; eauto).
  destruct (exportable_import s He) as [id [_ [_ H']]]. rewrite H in H'. injection H' as ->.
  rewrite Hv. reflexivity.
Qed.

(* the resumed state can itself be exported again, and doing so is idempotent *)
Theorem import_export_idempotent s s' : import_export s = Some s' -> import_export s' = Some s'.
Proof.
  intros H. assert (He : exportable s) by (apply import_export_defined_iff; eauto).
  destruct (exportable_import s He) as [id [Hs [Hk H']]]. rewrite H in H'. injection H' as ->.
  rewrite (import_export_eq (imported s id) id); try reflexivity; try assumption.
  - unfold imported; cbn. rewrite get_repeat0_app, N2Nat.id, N.eqb_refl.
    destruct (i_profile s =? 0); reflexivity.
  - cbn. discriminate.
  - cbn. rewrite app_length, repeat_length. cbn [length]. lia.
  - cbn. destruct He as [_ [_ [_ [He0 _]]]]. exact He0.
  - cbn. destruct He as [_ [_ [_ [_ [Hm _]]]]]. exact Hm.
  - cbn [imported i_local_seq i_local_epoch]. rewrite get_repeat0_app, N2Nat.id, N.eqb_refl.
    destruct He as [_ [_ [_ [_ [_ Hq]]]]]. exact Hq.
Qed.

(* ------------------------------------------------------------------ ConnectionState() never panics (F73) *)

(* with the bounds check of 4d323b9 generateState has no unchecked index left: whatever the
   handshake goroutine is doing, a concurrent ConnectionState() returns a state or "not available" *)
Theorem gen_state_never_panics s : gen_state s <> Panics.
Proof.
  unfold gen_state, gen_state_gen. change export_checks_counter_exists with true.
  destruct (i_suite s); [|discriminate].
  destruct (i_version s =? v13); [discriminate|].
  destruct (N.of_nat (length (i_local_seq s)) <=? i_local_epoch s); discriminate.
Qed.

(* the window between SetLocalEpoch(1) (fsm12.prepare of the flight that carries ChangeCipherSpec)
   and the first epoch-1 record: suite chosen, epoch already 1, only the epoch-0 counter allocated *)
Definition epoch_switch_window : istate :=
  mkI v12 1 0 [] [] [] [4] [] [] (Some 168) 0 [] [] [] false true [] [] [] []
      false (false, false) false (0, 0).

(* now: reported as not available, like a connection before its handshake *)
Theorem gen_state_epoch_switch_refused :
  i_suite epoch_switch_window = Some 168 /\ i_local_epoch epoch_switch_window = 1 /\
  i_local_seq epoch_switch_window = [4] /\ gen_state epoch_switch_window = Refused.
Proof. repeat split. Qed.

(* regression witness: the code before the repair indexed out of range there *)
Theorem gen_state_unchecked_index_refuted :
  gen_state_gen false epoch_switch_window = Panics /\
  (forall chk s, i_local_epoch s < N.of_nat (length (i_local_seq s)) -> gen_state_gen chk s <> Panics).
Proof.
  split; [reflexivity|]. intros chk s Hl. unfold gen_state_gen. destruct (i_suite s); [|discriminate].
  destruct (i_version s =? v13); [discriminate|].
  destruct (N.of_nat (length (i_local_seq s)) <=? i_local_epoch s) eqn:E; [apply N.leb_le in E; lia|].
  discriminate.
Qed.

Theorem export_bounds_as_coded :
  if export_checks_counter_exists then forall s, gen_state s <> Panics
  else exists s, gen_state s = Panics.
Proof. exact gen_state_never_panics. Qed.

(* ------------------------------------------------------------------ DTLS 1.3 is refused *)

Theorem v13_refused :
  (forall s, i_version s = v13 -> gen_state s = Refused) /\
  (forall p, p_version p = v13 -> serialize p = None) /\
  (forall z, s_version z = v13 -> unmarshal z = None) /\
  (forall p, p_version p = v13 -> gen_internal p = None) /\
  (forall s, i_version s = v13 -> import_export s = None).
Proof.
  repeat split.
  - intros s Hv. unfold gen_state, gen_state_gen. destruct (i_suite s); [|reflexivity]. rewrite Hv. reflexivity.
  - intros p Hv. unfold serialize. destruct (p_suite p =? 0); [reflexivity|]. rewrite Hv. reflexivity.
  - intros z Hv. unfold unmarshal. rewrite Hv. reflexivity.
  - intros p Hv. unfold gen_internal, gen_internal_gen, import_checks_seq_limit. destruct (p_suite p =? 0); [reflexivity|]. rewrite Hv. reflexivity.
  - intros s Hv. unfold import_export, gen_state, gen_state_gen, export_checks_counter_exists. destruct (i_suite s); [|reflexivity]. rewrite Hv. reflexivity.
Qed.

(* ------------------------------------------------------------------ nothing to resume before the keys are on *)

(* A state with local epoch 0 or without a master secret - what a VerifyConnection callback is
   handed, or a corruption of the epoch - is refused by the import (ErrHandshakeInProgress): no
   resumed connection ever counts as established while it would write in epoch 0.  UnmarshalBinary
   does not look at this; the refusal is generateInternalState's. *)
Theorem pre_keys_refused :
  (forall p, p_local_epoch p = 0 \/ p_master p = [] -> gen_internal p = None) /\
  (forall s, i_local_epoch s = 0 \/ i_master s = [] -> import_export s = None) /\
  (forall p x, gen_internal p = Some x -> i_local_epoch x <> 0 /\ i_master x <> []) /\
  (exists z p, s_local_epoch z = 0 /\ unmarshal z = Some p /\ gen_internal p = None).
Proof.
  split; [|split; [|split]].
  - intros p H. unfold gen_internal, gen_internal_gen, import_checks_seq_limit. destruct (p_suite p =? 0); [reflexivity|].
    destruct (p_version p =? v13); [reflexivity|].
    assert (E : pre_keys p = true).
    { unfold pre_keys. destruct H as [H|H]; rewrite H; [reflexivity|apply orb_true_r]. }
    rewrite E. destruct (true && (seq_limit <? p_seq p)); reflexivity.
  - intros s H. destruct (import_export s) as [s'|] eqn:E; [|reflexivity].
    assert (He : exportable s) by (apply import_export_defined_iff; eauto).
    destruct He as [_ [_ [_ [He0 [Hm _]]]]]. destruct H; contradiction.
  - intros p x H. unfold gen_internal, gen_internal_gen, import_checks_seq_limit in H. destruct (p_suite p =? 0); [discriminate|].
    destruct (p_version p =? v13); [discriminate|].
    destruct (true && (seq_limit <? p_seq p)); [discriminate|].
    destruct (pre_keys p) eqn:E; [discriminate|].
    destruct (negb (suite_known (p_suite p))); [discriminate|]. injection H as <-. cbn.
    unfold pre_keys in E. apply orb_false_elim in E. destruct E as [E1 E2].
    split; [apply N.eqb_neq; exact E1|]. destruct (p_master p); [discriminate|discriminate].
  - exists (mkS v12 0 0 [1] [2] 168 [] 2 0 [] [] [] [] [] [] false false []).
    eexists. repeat split.
Qed.

(* the refusal looks at the version FIELD only: serialised bytes that say "1.2" (or anything
   else than 1.3) and carry a DTLS 1.3 suite id are decoded and resumed *)
Theorem v13_suite_with_v12_label_accepted : exists z p x,
  s_version z = v12 /\ s_suite z = 4865 /\ unmarshal z = Some p /\ gen_internal p = Some x /\
  key_inputs x = None.
Proof.
  exists (mkS v12 1 1 [] [] 4865 [3] 0 0 [] [] [] [] [] [] false true []).
  eexists. eexists. repeat split.
Qed.

(* a suite that only the configuration's custom list knows cannot be resumed *)
Theorem unknown_suite_refused z : suite_known (s_suite z) = false -> unmarshal z = None.
Proof.
  intros Hk. unfold unmarshal. destruct (s_version z =? v13); [reflexivity|].
  unfold deserialize; cbn [p_suite]. rewrite Hk. reflexivity.
Qed.

(* ------------------------------------------------------------------ exporter and keys *)

Section ExporterSound.
  Variable PHash : bytes -> bytes -> N -> N -> bytes.
  Variable reserved : bytes -> bool.

  Lemma conn_exporter_imported s id label n :
    i_suite s = Some id -> i_version s <> v13 ->
    i_local_epoch s < N.of_nat (length (i_local_seq s)) ->
    conn_exporter PHash reserved (imported s id) label n = conn_exporter PHash reserved s label n.
  Proof.
    intros Hs Hv Hl. unfold conn_exporter, gen_state, gen_state_gen, export_checks_counter_exists. rewrite Hs.
    destruct (i_version s =? v13) eqn:Ev; [apply N.eqb_eq in Ev; contradiction|].
    destruct (N.of_nat (length (i_local_seq s)) <=? i_local_epoch s) eqn:El;
      [apply N.leb_le in El; lia|].
    cbn [imported i_suite i_version i_local_seq i_local_epoch].
    change (v12 =? v13) with false. cbn iota.
    rewrite app_length, repeat_length. cbn [length].
    destruct (N.of_nat (N.to_nat (i_local_epoch s) + 1) <=? i_local_epoch s) eqn:E2;
      [apply N.leb_le in E2; lia|].
    unfold exporter, p_client_random, p_server_random. cbn. reflexivity.
  Qed.

  (* same exporter output before and after, for every PRF, label and length *)
  Theorem exporter_equal s s' :
    import_export s = Some s' ->
    forall label n, conn_exporter PHash reserved s' label n = conn_exporter PHash reserved s label n.
  Proof.
    intros H label n. assert (He : exportable s) by (apply import_export_defined_iff; eauto).
    destruct (exportable_import s He) as [id [Hs [Hk H']]]. rewrite H in H'. injection H' as ->.
    destruct He as [_ [Hv [Hl _]]]. now apply conn_exporter_imported.
  Qed.

  (* the decoded State object exports what the original State object exports *)
  Theorem exporter_decoded_equal p z p' :
    serialize p = Some z -> unmarshal z = Some p' -> p_version p <> v_zero ->
    forall label n, exporter PHash reserved p' label n = exporter PHash reserved p label n.
  Proof.
    intros Hz Hu Hv label n. unfold serialize in Hz.
    destruct (p_suite p =? 0); [discriminate|]. destruct (p_version p =? v13); [discriminate|].
    injection Hz as <-. unfold unmarshal in Hu. cbn [s_version] in Hu.
    destruct (p_version p =? v_zero) eqn:E0; [apply N.eqb_eq in E0; contradiction|].
    destruct (p_version p =? v13); [discriminate|].
    destruct (suite_known _); [|discriminate]. injection Hu as <-.
    unfold exporter, deserialize, p_client_random, p_server_random. cbn. reflexivity.
  Qed.

  (* the untouched peer exports the same value: the exporter depends on the master secret, the
     label, (client random, server random) in that order, and the suite's PRF hash only *)
  Theorem exporter_peer_equal s t :
    mirrors s t -> (i_local_epoch t =? 0) = (i_local_epoch s =? 0) ->
    i_version s <> v13 -> i_version t <> v13 ->
    i_local_epoch s < N.of_nat (length (i_local_seq s)) ->
    i_local_epoch t < N.of_nat (length (i_local_seq t)) ->
    forall label n, conn_exporter PHash reserved t label n = conn_exporter PHash reserved s label n.
  Proof.
    intros [Hm [Hlr [Hrl [Hc [_ [_ [ids [idt [Hss [Hst [_ Hh]]]]]]]]]]] He Hvs Hvt Hls Hlt label n.
    unfold conn_exporter, gen_state, gen_state_gen, export_checks_counter_exists. rewrite Hss, Hst.
    destruct (i_version s =? v13) eqn:E1; [apply N.eqb_eq in E1; contradiction|].
    destruct (i_version t =? v13) eqn:E2; [apply N.eqb_eq in E2; contradiction|].
    destruct (N.of_nat (length (i_local_seq s)) <=? i_local_epoch s) eqn:E3; [apply N.leb_le in E3; lia|].
    destruct (N.of_nat (length (i_local_seq t)) <=? i_local_epoch t) eqn:E4; [apply N.leb_le in E4; lia|].
    unfold exporter, p_client_random, p_server_random. cbn.
    rewrite He, Hh, Hm, Hlr, Hrl, Hc. destruct (i_is_client s); reflexivity.
  Qed.

End ExporterSound.

Section KeysSound.
  Variable KeyBlock : bytes -> bytes -> bytes -> N -> bytes.

  (* the key block is a function of master secret + randoms (ordered by role) + suite class,
     all preserved; so is the role that selects the write half *)
  Theorem keys_equal s s' :
    import_export s = Some s' ->
    key_block KeyBlock s' = key_block KeyBlock s /\ i_is_client s' = i_is_client s /\
    key_inputs s' = key_inputs s.
  Proof.
    intros H. assert (He : exportable s) by (apply import_export_defined_iff; eauto).
    destruct (exportable_import s He) as [id [Hs [Hk H']]]. rewrite H in H'. injection H' as ->.
    unfold key_block, key_inputs, i_client_random, i_server_random. rewrite Hs. cbn. repeat split.
  Qed.
End KeysSound.

(* ------------------------------------------------------------------ the sender never reuses a number *)

Lemma get_upd_same st k f : get (upd st k f) (N.of_nat k) = f (get st (N.of_nat k)).
Proof.
  unfold get. rewrite Nat2N.id. revert st. induction k as [|k IH]; intros [|x r]; cbn [upd nth]; try reflexivity.
  - rewrite IH. destruct k; reflexivity.
  - apply IH.
Qed.

Lemma get_upd_other st k f j : j <> k -> nth j (upd st k f) 0 = nth j st 0.
Proof.
  revert st j. induction k as [|k IH]; intros [|x r] j Hj; cbn [upd].
  - destruct j as [|j]; [contradiction|]. cbn [nth]. destruct j; reflexivity.
  - destruct j as [|j]; [contradiction|]. reflexivity.
  - destruct j as [|j]; [reflexivity|]. cbn [nth]. rewrite IH by lia. destruct j; reflexivity.
  - destruct j as [|j]; [reflexivity|]. cbn [nth]. apply IH. lia.
Qed.

Lemma get_alloc_same st e : get (fst (alloc st e)) e = (get st e + 1) mod two64.
Proof.
  unfold alloc. cbn [fst]. rewrite <- (N2Nat.id e) at 2. rewrite get_upd_same. rewrite N2Nat.id. reflexivity.
Qed.

Lemma get_alloc_other st e e' : e' <> e -> get (fst (alloc st e)) e' = get st e'.
Proof.
  intros Hne. unfold alloc, get. cbn [fst]. apply get_upd_other. lia.
Qed.

(* every counter is below [b] and stays there for [n] more sends *)
Definition room (st : list N) (n : nat) : Prop := forall e, get st e + N.of_nat n < two64.

Lemma room_alloc st e n : room st (S n) -> room (fst (alloc st e)) n /\ get (fst (alloc st e)) e = get st e + 1.
Proof.
  intros Hr. assert (He := Hr e).
  assert (Hs : get (fst (alloc st e)) e = get st e + 1).
  { rewrite get_alloc_same. apply N.mod_small. lia. }
  split; [|exact Hs].
  intros e'. destruct (N.eq_dec e' e) as [->|Hne].
  - rewrite Hs. lia.
  - rewrite get_alloc_other by exact Hne. specialize (Hr e'). lia.
Qed.

Lemma emitted_cons st e es :
  emitted st (e :: es) =
  if get st e <=? max_seq then (e, get st e) :: emitted (fst (alloc st e)) es
  else emitted (fst (alloc st e)) es.
Proof.
  cbn [emitted]. unfold alloc. cbn [fst]. destruct (get st e <=? max_seq); reflexivity.
Qed.

(* counters only grow, and every emitted number lies between the counter before and after *)
Lemma emitted_bounds es : forall st, room st (length es) ->
  (forall e, get st e <= get (counters_after st es) e) /\
  (forall e q, In (e, q) (emitted st es) -> get st e <= q < get (counters_after st es) e).
Proof.
  induction es as [|e0 es IH]; intros st Hr.
  - cbn. split; [intros; lia|intros e q []].
  - cbn [length] in Hr. destruct (room_alloc st e0 (length es) Hr) as [Hr' Hs].
    destruct (IH _ Hr') as [Hmono Hin].
    assert (Hstep : forall e, get st e <= get (fst (alloc st e0)) e).
    { intros e. destruct (N.eq_dec e e0) as [->|Hne]; [rewrite Hs; lia|rewrite get_alloc_other by exact Hne; lia]. }
    rewrite emitted_cons. cbn [counters_after]. split.
    + intros e. specialize (Hmono e). specialize (Hstep e). lia.
    + intros e q Hq. destruct (get st e0 <=? max_seq).
      * destruct Hq as [Heq|Hq].
        -- injection Heq as <- <-. specialize (Hmono e0). lia.
        -- specialize (Hin e q Hq). specialize (Hstep e). lia.
      * specialize (Hin e q Hq). specialize (Hstep e). lia.
Qed.

Lemma emitted_nodup es : forall st, room st (length es) -> NoDup (emitted st es).
Proof.
  induction es as [|e0 es IH]; intros st Hr; [constructor|].
  cbn [length] in Hr. destruct (room_alloc st e0 (length es) Hr) as [Hr' Hs].
  rewrite emitted_cons. destruct (get st e0 <=? max_seq); [|apply IH; exact Hr'].
  constructor; [|apply IH; exact Hr'].
  intros Hin. destruct (emitted_bounds es _ Hr') as [_ Hb]. specialize (Hb e0 _ Hin). lia.
Qed.

(* emitted numbers never exceed 2^48 - 1 *)
Lemma emitted_le_max es : forall st e q, In (e, q) (emitted st es) -> q <= max_seq.
Proof.
  induction es as [|e0 es IH]; intros st e q Hin; [destruct Hin|].
  rewrite emitted_cons in Hin. destruct (get st e0 <=? max_seq) eqn:E; [|eapply IH; exact Hin].
  destruct Hin as [Heq|Hin]; [|eapply IH; exact Hin].
  injection Heq as <- <-. apply N.leb_le. exact E.
Qed.

Lemma emitted_repeat_epoch e k : forall st x, In x (emitted st (repeat e k)) -> fst x = e.
Proof.
  induction k as [|k IH]; intros st x Hx; [destruct Hx|].
  cbn [repeat] in Hx. rewrite emitted_cons in Hx. destruct (get st e <=? max_seq).
  - destruct Hx as [<-|Hx]; [reflexivity|eapply IH; exact Hx].
  - eapply IH; exact Hx.
Qed.

Lemma NoDup_app_disjoint (A : Type) (l1 l2 : list A) :
  NoDup l1 -> NoDup l2 -> (forall x, In x l1 -> ~ In x l2) -> NoDup (l1 ++ l2).
Proof.
  induction l1 as [|x l IH]; intros N1 N2 D; [exact N2|].
  cbn [app]. inversion N1 as [|? ? Hnx Hl]; subst. constructor.
  - rewrite in_app_iff. intros [Hx|Hx]; [contradiction|]. apply (D x); [left; reflexivity|exact Hx].
  - apply IH; [exact Hl|exact N2|]. intros y Hy. apply D. right. exact Hy.
Qed.

Lemma room_nil n : N.of_nat n < two64 -> room [] n.
Proof. intros H e. rewrite get_nil. lia. Qed.

(* The connection starts with no counters ([]), sends at the epochs [pre] (handshake flights,
   application data, alerts, retransmissions - any epochs, any number), is exported at local
   epoch [e], imported, and the resumed connection sends [post] more records, all at epoch [e]
   (a resumed DTLS 1.2 connection has no handshake flights left: Write, alerts and RRC use the
   local epoch).  As long as fewer than 2^64 sends were attempted in total (the uint64 counter
   would wrap), no (epoch, sequence number) is used twice. *)
Theorem seq_continues (pre : list N) (e : N) (post : nat) (s s' : istate) :
  i_local_seq s = counters_after [] pre -> i_local_epoch s = e ->
  import_export s = Some s' ->
  N.of_nat (length pre + post) < two64 ->
  (* the first number the resumed connection uses is the exported one, not 0 *)
  get (i_local_seq s') e = get (counters_after [] pre) e /\
  (forall q, In (e, q) (emitted [] pre) -> q < get (i_local_seq s') e) /\
  (forall q, In (e, q) (emitted (i_local_seq s') (repeat e post)) -> get (i_local_seq s') e <= q) /\
  (* hence before / after are disjoint, and neither side repeats itself *)
  (forall x, In x (emitted [] pre) -> ~ In x (emitted (i_local_seq s') (repeat e post))) /\
  NoDup (emitted [] pre ++ emitted (i_local_seq s') (repeat e post)).
Proof.
  intros Hseq He H Hn.
  assert (Hex : exportable s) by (apply import_export_defined_iff; eauto).
  destruct (exportable_import s Hex) as [id [Hs [Hk H']]]. rewrite H in H'. injection H' as ->.
  cbn [imported i_local_seq]. rewrite He, Hseq.
  set (c := get (counters_after [] pre) e).
  assert (Hget : get (repeat 0 (N.to_nat e) ++ [c]) e = c)
    by (rewrite get_repeat0_app, N2Nat.id, N.eqb_refl; reflexivity).
  assert (Hr1 : room [] (length pre)) by (apply room_nil; lia).
  destruct (emitted_bounds pre [] Hr1) as [Hm1 Hb1].
  assert (Hc : c <= N.of_nat (length pre)).
  { (* a counter grows by at most one per send *)
    assert (G : forall es st, room st (length es) ->
              forall x, get (counters_after st es) x <= get st x + N.of_nat (length es)).
    { induction es as [|e0 es IH]; intros st Hr x; [cbn; lia|].
      cbn [length] in Hr. destruct (room_alloc st e0 (length es) Hr) as [Hr' Hs'].
      cbn [counters_after length]. specialize (IH _ Hr' x).
      destruct (N.eq_dec x e0) as [->|Hne]; [rewrite Hs' in IH; lia|].
      rewrite get_alloc_other in IH by exact Hne. lia. }
    specialize (G pre [] Hr1 e). rewrite get_nil in G. exact G. }
  assert (Hr2 : room (repeat 0 (N.to_nat e) ++ [c]) (length (repeat e post))).
  { intros x. rewrite repeat_length, get_repeat0_app, N2Nat.id. destruct (x =? e); lia. }
  destruct (emitted_bounds (repeat e post) _ Hr2) as [Hm2 Hb2].
  assert (A1 : forall q, In (e, q) (emitted [] pre) -> q < c)
    by (intros q Hq; apply (Hb1 e q Hq)).
  assert (A2 : forall q, In (e, q) (emitted (repeat 0 (N.to_nat e) ++ [c]) (repeat e post)) -> c <= q).
  { intros q Hq. specialize (Hb2 e q Hq). rewrite Hget in Hb2. lia. }
  assert (A3 := emitted_repeat_epoch e post (repeat 0 (N.to_nat e) ++ [c])).
  assert (A4 : forall x, In x (emitted [] pre) ->
               ~ In x (emitted (repeat 0 (N.to_nat e) ++ [c]) (repeat e post))).
  { intros [e1 q] H1 H2. pose proof (A3 _ H2) as E1. cbn [fst] in E1. subst e1.
    specialize (A1 q H1). specialize (A2 q H2). lia. }
  split; [exact Hget|]. rewrite Hget.
  split; [exact A1|]. split; [exact A2|]. split; [exact A4|].
  (* NoDup of the concatenation *)
  assert (N1 := emitted_nodup pre [] Hr1).
  assert (N2 := emitted_nodup (repeat e post) _ Hr2).
  apply NoDup_app_disjoint; assumption.
Qed.

(* only the current local epoch's counter survives: a send at an older epoch after the import
   would start again from 0 (the 1.2 code never does that after a resume) *)
Theorem seq_other_epochs_restart : exists pre s s',
  i_local_seq s = counters_after [] pre /\ import_export s = Some s' /\
  In (0, 0) (emitted [] pre) /\ In (0, 0) (emitted (i_local_seq s') [0]).
Proof.
  exists [0; 0; 1].
  exists (mkI v12 1 1 [] [] [3] (counters_after [] [0; 0; 1]) [] [] (Some 168) 0 [] [] [] false true [] [] [] []
              false (false, false) false (0, 0)).
  eexists. split; [reflexivity|]. split; [vm_compute; reflexivity|]. split; vm_compute; auto.
Qed.

(* ------------------------------------------------------------------ the imported number is within the limit (F74) *)

(* whatever bytes were decoded: a state that the import accepts carries a next sequence number of
   at most 2^48 (the value of an exhausted counter) *)
Theorem imported_seq_within_limit p x :
  gen_internal p = Some x ->
  i_local_seq x = repeat 0 (N.to_nat (p_local_epoch p)) ++ [p_seq p] /\ i_local_epoch x = p_local_epoch p /\
  get (i_local_seq x) (i_local_epoch x) = p_seq p /\ p_seq p <= seq_limit.
Proof.
  intros H. unfold gen_internal, gen_internal_gen in H. change import_checks_seq_limit with true in H.
  destruct (p_suite p =? 0); [discriminate|]. destruct (p_version p =? v13); [discriminate|].
  destruct (seq_limit <? p_seq p) eqn:Eq; [discriminate|]. cbn [andb] in H.
  destruct (pre_keys p); [discriminate|]. destruct (negb (suite_known (p_suite p))); [discriminate|].
  injection H as <-. cbn [i_local_seq i_local_epoch].
  rewrite get_repeat0_app, N2Nat.id, N.eqb_refl. apply N.ltb_ge in Eq. repeat split. exact Eq.
Qed.

(* hence the resumed sender never wraps: for every accepted state - genuine or damaged - and every
   number of writes a connection can attempt (fewer than 2^64 - 2^48 - 1), the numbers it puts on
   the wire are pairwise distinct and none is below the accepted next number *)
Theorem imported_sender_never_wraps p x (post : nat) :
  gen_internal p = Some x -> N.of_nat post < two64 - seq_limit ->
  let e := i_local_epoch x in
  NoDup (emitted (i_local_seq x) (repeat e post)) /\
  (forall e' q, In (e', q) (emitted (i_local_seq x) (repeat e post)) -> e' = e /\ p_seq p <= q <= max_seq).
Proof.
  intros H Hn e. destruct (imported_seq_within_limit p x H) as [Hl [He [Hg Hq]]].
  assert (Hr : room (i_local_seq x) (length (repeat e post))).
  { intros y. rewrite repeat_length, Hl, get_repeat0_app, N2Nat.id.
    assert (two64 - seq_limit <= two64) by (vm_compute; discriminate).
    destruct (y =? p_local_epoch p); lia. }
  split; [apply emitted_nodup; exact Hr|].
  intros e' q Hin. pose proof (emitted_repeat_epoch e post _ _ Hin) as E. cbn [fst] in E. subst e'.
  split; [reflexivity|]. destruct (emitted_bounds _ _ Hr) as [_ Hb]. specialize (Hb e q Hin).
  unfold e in Hb at 1. rewrite Hg in Hb. split; [lia|]. eapply emitted_le_max. exact Hin.
Qed.

(* regression witness: before the repair 2^64 - 1 was accepted; the first write is refused (the
   number is above 2^48 - 1), the counter wraps, and the next writes go out as records 0 and 1 of
   epoch 1 - numbers the exporting connection had used (its counter had reached 3) *)
Theorem seq_beyond_limit_wraps_refuted : exists pre s z p x,
  i_local_seq s = counters_after [] pre /\ i_local_epoch s = 1 /\ get (i_local_seq s) 1 = 3 /\
  s_seq z = two64 - 1 /\ unmarshal z = Some p /\ gen_internal_gen false p = Some x /\
  key_inputs x = key_inputs s /\
  emitted (i_local_seq x) [1; 1; 1] = [(1, 0); (1, 1)] /\
  In (1, 0) (emitted [] pre) /\ In (1, 1) (emitted [] pre) /\
  gen_internal p = None.
Proof.
  exists [0; 0; 1; 1; 1].
  exists (mkI v12 1 1 [1] [2] [3] (counters_after [] [0; 0; 1; 1; 1]) [] [] (Some 168) 0 [] [] [] false true
              [] [] [] [] false (false, false) false (0, 0)).
  exists (mkS v12 1 1 [1] [2] 168 [3] (two64 - 1) 0 [] [] [] [] [] [] false true []).
  do 2 eexists.
  split; [reflexivity|]. split; [reflexivity|]. split; [vm_compute; reflexivity|].
  split; [reflexivity|]. split; [reflexivity|]. split; [reflexivity|].
  split; [reflexivity|]. split; [vm_compute; reflexivity|].
  split; [vm_compute; auto|]. split; [vm_compute; auto|]. vm_compute. reflexivity.
Qed.

Theorem seq_limit_as_coded :
  if import_checks_seq_limit
  then forall p x, gen_internal p = Some x -> get (i_local_seq x) (i_local_epoch x) <= seq_limit
  else exists p x, gen_internal p = Some x /\ In (1, 0) (emitted (i_local_seq x) [1; 1]).
Proof.
  cbv beta iota delta [import_checks_seq_limit]. intros p x H.
  destruct (imported_seq_within_limit p x H) as [_ [_ [Hg Hq]]]. rewrite Hg. exact Hq.
Qed.

(* the other face of the limit: a connection whose counter went beyond 2^48 - it was exhausted
   and attempted further writes, each attempt advancing the counter - can no longer be resumed ... *)
Theorem exhausted_sender_refused s :
  seq_limit < get (i_local_seq s) (i_local_epoch s) -> import_export s = None.
Proof.
  intros Hq. destruct (import_export s) as [s'|] eqn:E; [|reflexivity].
  assert (He : exportable s) by (apply import_export_defined_iff; eauto).
  destruct He as [_ [_ [_ [_ [_ Hl]]]]]. lia.
Qed.

(* ... which loses no record number: such a sender cannot put anything on the wire any more *)
Theorem exhausted_sender_sends_nothing (n : nat) : forall st e,
  max_seq < get st e -> get st e + N.of_nat n < two64 -> emitted st (repeat e n) = [].
Proof.
  induction n as [|n IH]; intros st e Hq Hn; [reflexivity|].
  cbn [repeat]. rewrite emitted_cons.
  destruct (get st e <=? max_seq) eqn:E; [apply N.leb_le in E; lia|].
  apply IH.
  - rewrite get_alloc_same, N.mod_small by lia. lia.
  - rewrite get_alloc_same, N.mod_small by lia. lia.
Qed.

(* a counter of exactly 2^48 (exhausted, no further attempt) still resumes *)
Theorem exhausted_counter_at_limit_resumes : exists s s',
  get (i_local_seq s) (i_local_epoch s) = seq_limit /\ import_export s = Some s' /\
  emitted (i_local_seq s') [1; 1] = [].
Proof.
  exists (mkI v12 1 1 [1] [2] [3] [4; seq_limit] [] [] (Some 168) 0 [] [] [] false true
              [] [] [] [] false (false, false) false (0, 0)).
  eexists. split; [reflexivity|]. split; [vm_compute; reflexivity|]. vm_compute. reflexivity.
Qed.

(* ------------------------------------------------------------------ a resumed Conn starts in the finished state (F67) *)

Theorem resumed_conn_starts_finished vmin vmax :
  vmin <> v13 -> handshake_start vmin vmax true = StartFinished.
Proof.
  intros Hv. unfold handshake_start, handshake_start_gen. change resume_honoured_for_any_version with true.
  cbn [andb]. rewrite Bool.orb_true_r. destruct (vmin =? v13) eqn:E; [apply N.eqb_eq in E; contradiction|reflexivity].
Qed.

(* whatever the options: finished, or refused before anything is written - never a new handshake *)
Theorem resumed_conn_never_starts_a_handshake vmin vmax :
  handshake_start vmin vmax true = (if vmin =? v13 then StartRefused else StartFinished).
Proof.
  unfold handshake_start, handshake_start_gen. change resume_honoured_for_any_version with true.
  cbn [andb]. rewrite Bool.orb_true_r. reflexivity.
Qed.

(* regression witnesses: before the repair, options that allow DTLS 1.3 (the options a dual-stack
   endpoint negotiated the 1.2 session with, or 1.3-only options) made the Conn ignore the state *)
Theorem resume_ignored_refuted :
  handshake_start_gen false v12 v13 true = StartDualStack /\
  handshake_start_gen false v13 v13 true = StartNew13 /\
  handshake_start_gen false v12 v12 true = StartFinished.
Proof. repeat split. Qed.

Theorem resume_start_as_coded :
  if resume_honoured_for_any_version
  then forall vmin vmax, handshake_start vmin vmax true = StartFinished \/ handshake_start vmin vmax true = StartRefused
  else exists vmin vmax, handshake_start vmin vmax true = StartDualStack \/ handshake_start vmin vmax true = StartNew13.
Proof.
  cbv beta iota delta [resume_honoured_for_any_version]. intros vmin vmax.
  rewrite resumed_conn_never_starts_a_handshake. destruct (vmin =? v13); [right|left]; reflexivity.
Qed.

(* without a resume state the version range alone decides (unchanged) *)
Theorem fresh_conn_start vmin vmax :
  handshake_start vmin vmax false =
  if vmax =? v12 then StartNew12 else if vmin =? v13 then StartNew13 else StartDualStack.
Proof.
  unfold handshake_start, handshake_start_gen. rewrite Bool.andb_false_r, Bool.orb_false_r. reflexivity.
Qed.

(* ------------------------------------------------------------------ gaps of the code as written (known findings) *)

(* K-C19-1: state.go looks suites up with ForID(id, nil).  A session negotiated on a suite that only
   the configuration's custom list knows is established and ConnectionState() returns it, but the
   bytes MarshalBinary produces are refused by UnmarshalBinary, Resume refuses the State object
   itself, and even the live state cannot export keying material - for every PRF. *)
Theorem custom_suite_round_trip_refuted : exists s p z,
  i_suite s = Some 65305 /\ i_local_epoch s = 1 /\ i_master s <> [] /\
  gen_state s = Ok p /\ serialize p = Some z /\
  unmarshal z = None /\ gen_internal p = None /\ import_export s = None /\
  (forall PHash reserved label n, conn_exporter PHash reserved s label n = None).
Proof.
  exists (mkI v12 1 1 [1] [2] [3] [4; 1] [] [] (Some 65305) 0 [] [] [] false true
              [] [] [] [] false (false, false) false (0, 0)).
  do 2 eexists.
  split; [reflexivity|]. split; [reflexivity|]. split; [discriminate|].
  split; [reflexivity|]. split; [reflexivity|]. split; [reflexivity|]. split; [reflexivity|].
  split; [reflexivity|]. intros PHash reserved label n.
  unfold conn_exporter. cbn. unfold exporter. cbn. destruct (reserved label); reflexivity.
Qed.

(* K-C19-2: the side that owns the final flight is established as soon as it has SENT it.  If that
   datagram is lost the peer has not switched its read epoch ([i_remote_epoch t = 0]: premise
   [i_local_epoch s <= i_remote_epoch t] of data_flows_after_import fails) and retransmits its own
   flight; the original connection answers by repeating the final flight, the resumed one has
   nothing to repeat (handshake counters (0, 0), no flights) - nothing it writes is delivered. *)
Theorem final_flight_not_repeatable_refuted :
  (forall s s', import_export s = Some s' -> can_repeat_final_flight s' = false) /\
  (exists s s' t, import_export s = Some s' /\ mirrors s t /\
     can_repeat_final_flight s = true /\ i_local_epoch s = 1 /\ i_remote_epoch t = 0 /\
     delivers s t = false /\ delivers s' t = false /\ can_repeat_final_flight s' = false).
Proof.
  split.
  - intros s s' H. assert (He : exportable s) by (apply import_export_defined_iff; eauto).
    destruct (exportable_import s He) as [id [_ [_ H']]]. rewrite H in H'. injection H' as ->. reflexivity.
  - exists (mkI v12 1 1 [1] [2] [3] [4; 1] [] [] (Some 168) 0 [] [] [] false false
                [] [] [] [] false (false, false) false (5, 4)).
    eexists.
    exists (mkI v12 1 0 [2] [1] [3] [4; 1] [] [] (Some 168) 0 [] [] [] false true
                [] [] [] [] false (false, false) false (4, 4)).
    split; [vm_compute; reflexivity|]. split.
    { repeat split. exists 168, 168. repeat split. }
    repeat split.
Qed.

(* K-C19-3: until its first Handshake/Read/Write the Conn returned by Resume reports a blank state:
   no ConnectionState, no SRTP profile, no keying material - whatever was imported *)
Theorem resumed_conn_blank_before_start_refuted :
  (forall x, gen_state (resumed_conn_before_start x) = Refused /\
             obs_profile (resumed_conn_before_start x) = None /\
             forall PHash reserved label n, conn_exporter PHash reserved (resumed_conn_before_start x) label n = None) /\
  (exists s x, import_export s = Some x /\ gen_state x <> Refused /\ obs_profile x = Some 1 /\
               obs_profile (resumed_conn_before_start x) <> obs_profile x).
Proof.
  split.
  - intros x. repeat split.
  - exists (mkI v12 1 1 [1] [2] [3] [4; 1] [] [] (Some 168) 1 [7] [] [] false false
                [] [] [] [] false (false, false) false (5, 4)).
    eexists. split; [vm_compute; reflexivity|]. split; [vm_compute; discriminate|].
    split; [reflexivity|]. vm_compute. discriminate.
Qed.

(* ------------------------------------------------------------------ data keeps flowing *)

(* the import preserves every field the link predicate consults, so the resumed connection
   talks to any peer exactly as the original would have (fresh replay window aside) *)
Theorem delivers_preserved s s' : import_export s = Some s' ->
  forall t, delivers s' t = delivers s t /\ delivers t s' = delivers t s.
Proof.
  intros H t. assert (He : exportable s) by (apply import_export_defined_iff; eauto).
  destruct (exportable_import s He) as [id [Hs [Hk H']]]. rewrite H in H'. injection H' as ->.
  assert (Hki : key_inputs (imported s id) = key_inputs s).
  { unfold key_inputs, i_client_random, i_server_random. rewrite Hs. reflexivity. }
  unfold delivers. rewrite Hki. cbn [imported i_is_client i_local_seq i_local_epoch i_remote_epoch
                                     i_remote_cid i_local_cid].
  rewrite get_repeat0_app, N2Nat.id, N.eqb_refl. split; reflexivity.
Qed.

Lemma bytes_eqb_true a : bytes_eqb a a = true. Proof. apply bytes_eqb_refl. Qed.

(* with the untouched peer of an established session: both directions *)
Theorem data_flows_after_import s s' t :
  import_export s = Some s' -> mirrors s t ->
  (exists c, exists id, i_suite s = Some id /\ suite_class id = Some c) ->
  i_local_epoch s <> 0 -> i_local_epoch s <= i_remote_epoch t ->
  i_local_epoch t <> 0 -> i_local_epoch t <= i_remote_epoch s ->
  get (i_local_seq s) (i_local_epoch s) <= max_seq ->
  get (i_local_seq t) (i_local_epoch t) <= max_seq ->
  delivers s' t = true /\ delivers t s' = true.
Proof.
  intros H [Hm [Hlr [Hrl [Hc [Hcl [Hcr [ids [idt [Hss [Hst [Hcls _]]]]]]]]]]] [c [id [Hs Hcl']]] H1 H2 H3 H4 H5 H6.
  destruct (delivers_preserved s s' H t) as [-> ->].
  rewrite Hs in Hss. injection Hss as <-.
  unfold delivers, key_inputs, i_client_random, i_server_random.
  rewrite Hs, Hst, <- Hcls, Hcl', Hm, Hlr, Hrl, Hc, Hcl, Hcr.
  assert (E1 : (i_local_epoch s =? 0) = false) by (apply N.eqb_neq; exact H1).
  assert (E2 : (i_local_epoch t =? 0) = false) by (apply N.eqb_neq; exact H3).
  assert (E3 : (i_local_epoch s <=? i_remote_epoch t) = true) by (apply N.leb_le; exact H2).
  assert (E4 : (i_local_epoch t <=? i_remote_epoch s) = true) by (apply N.leb_le; exact H4).
  assert (E5 : (get (i_local_seq s) (i_local_epoch s) <=? max_seq) = true) by (apply N.leb_le; exact H5).
  assert (E6 : (get (i_local_seq t) (i_local_epoch t) <=? max_seq) = true) by (apply N.leb_le; exact H6).
  rewrite E1, E2, E3, E4, E5, E6. unfold key_inputs_eqb.
  rewrite N.eqb_refl.
  destruct (i_is_client s); cbn [negb xorb andb]; rewrite !bytes_eqb_true; split; reflexivity.
Qed.

(* ------------------------------------------------------------------ observations outside the letter of C19 *)

(* the resumed side starts with NO replay state: conn.go creates a fresh window on demand, and a
   fresh window accepts every number - including numbers the original connection had accepted *)
Theorem replay_window_forgotten s s' :
  import_export s = Some s' ->
  i_replay s' = [] /\
  forall (W : nat) (x : N), (0 < W)%nat -> x <= max_seq -> check max_seq (win_init W) x = true.
Proof.
  intros H. assert (He : exportable s) by (apply import_export_defined_iff; eauto).
  destruct (exportable_import s He) as [id [_ [_ H']]]. rewrite H in H'. injection H' as ->.
  split; [reflexivity|]. intros W x HW Hx. unfold check, win_init. cbn [latest mask].
  destruct (max_seq <? x) eqn:E; [apply N.ltb_lt in E; lia|].
  destruct (x <=? 0) eqn:E0; [|reflexivity].
  apply N.leb_le in E0. assert (x = 0) by lia. subst x.
  rewrite repeat_length. destruct (N.of_nat W + 0 <=? 0) eqn:E1; [apply N.leb_le in E1; lia|].
  unfold bit. rewrite N.sub_diag. cbn. destruct W; [lia|reflexivity].
Qed.

(* The serialised form carries no integrity check.  Ideal statement: "altered bytes are rejected
   or give a connection that cannot authenticate records".  As coded it fails: two serialised
   states that differ (here in the negotiated protocol) are both accepted and yield the same
   keys and the same behaviour on the wire. *)
Theorem corruption_rejected_or_dead_refuted : exists z z' p p' x x',
  z <> z' /\
  unmarshal z = Some p /\ unmarshal z' = Some p' /\
  gen_internal p = Some x /\ gen_internal p' = Some x' /\
  key_inputs x' = key_inputs x /\ key_inputs x <> None /\
  (forall t, delivers x' t = delivers x t /\ delivers t x' = delivers t x) /\
  i_alpn x' <> i_alpn x.
Proof.
  exists (mkS v12 1 1 [1] [2] 168 [3] 5 0 [] [] [] [] [] [] false true [104]).
  exists (mkS v12 1 1 [1] [2] 168 [3] 5 0 [] [] [] [] [] [] false true [105]).
  do 4 eexists. split; [discriminate|].
  split; [reflexivity|]. split; [reflexivity|]. split; [reflexivity|]. split; [reflexivity|].
  split; [reflexivity|]. split; [vm_compute; discriminate|]. split; [|vm_compute; discriminate].
  intros t. split; reflexivity.
Qed.

(* in particular a lowered sequence number is accepted and makes the resumed sender reuse
   (epoch, sequence number) pairs the original connection already used *)
Theorem corrupted_seq_reuses_numbers : exists pre s p z' p' x',
  i_local_seq s = counters_after [] pre /\ gen_state s = Ok p /\
  p_seq p = 3 /\ s_seq z' = 1 /\ unmarshal z' = Some p' /\ gen_internal p' = Some x' /\
  In (1, 1) (emitted [] pre) /\ In (1, 1) (emitted (i_local_seq x') [1]).
Proof.
  exists [0; 0; 1; 1; 1].
  exists (mkI v12 1 1 [1] [2] [3] (counters_after [] [0; 0; 1; 1; 1]) [] [] (Some 168) 0 [] [] [] false true
              [] [] [] [] false (false, false) false (0, 0)).
  eexists.
  exists (mkS v12 1 1 [1] [2] 168 [3] 1 0 [] [] [] [] [] [] false true []).
  do 2 eexists.
  split; [reflexivity|]. split; [vm_compute; reflexivity|]. split; [reflexivity|].
  split; [reflexivity|]. split; [reflexivity|]. split; [reflexivity|].
  split; vm_compute; auto.
Qed.

(* what the link predicate demands of the key material (the idealised direction is built into
   [delivers]; stated for the record) *)
Theorem delivers_needs_equal_key_inputs a b : delivers a b = true ->
  exists k, key_inputs a = Some k /\ exists k', key_inputs b = Some k' /\ key_inputs_eqb k k' = true /\
  i_is_client a <> i_is_client b.
Proof.
  unfold delivers. destruct (key_inputs a) as [ka|]; [|discriminate].
  destruct (key_inputs b) as [kb|]; [|discriminate].
  intros H. repeat (apply andb_prop in H; destruct H as [H ?]).
  exists ka. split; [reflexivity|]. exists kb. split; [reflexivity|]. split; [exact H|].
  destruct (i_is_client a), (i_is_client b); cbn in *; congruence.
Qed.

(* ------------------------------------------------------------------ ConnectionState() more than once *)

Lemma export_state_unchanged memo c : c_state (fst (export_gen memo c)) = c_state c.
Proof.
  unfold export_gen. destruct (if memo then c_memo c else None); [reflexivity|].
  destruct (gen_state (c_state c)); reflexivity.
Qed.

(* a history changes nothing but the send counters, and those exactly as its sends do; looks
   leave the connection state alone *)
Lemma conn_run_state memo evs : forall c,
  c_state (conn_run memo c evs) =
  set_local_seq (c_state c) (counters_after (i_local_seq (c_state c)) (sends_of evs)).
Proof.
  induction evs as [|x r IH]; intros c.
  - cbn. destruct (c_state c); reflexivity.
  - cbn [conn_run]. rewrite IH. destruct x as [e|].
    + cbn [conn_step c_state sends_of counters_after set_local_seq i_local_seq]. reflexivity.
    + cbn [conn_step sends_of]. rewrite export_state_unchanged. reflexivity.
Qed.

(* the code: whatever was looked at before, an export is generateState of the state as it is at
   the moment of the call, and its sequence number is the connection's next one *)
Theorem export_reflects_current_counters (c : conn) (evs : list ev) :
  let c' := conn_run false c evs in
  snd (export c') = gen_state (c_state c') /\
  i_local_seq (c_state c') = counters_after (i_local_seq (c_state c)) (sends_of evs) /\
  i_local_epoch (c_state c') = i_local_epoch (c_state c) /\
  forall p, snd (export c') = Ok p ->
    p_seq p = get (i_local_seq (c_state c')) (i_local_epoch (c_state c')) /\
    p_seq p = get (counters_after (i_local_seq (c_state c)) (sends_of evs)) (i_local_epoch (c_state c)).
Proof.
  cbn zeta. set (c' := conn_run false c evs).
  assert (E : snd (export c') = gen_state (c_state c')).
  { unfold export, export_gen. destruct (gen_state (c_state c')); reflexivity. }
  assert (S1 : c_state c' = set_local_seq (c_state c) (counters_after (i_local_seq (c_state c)) (sends_of evs)))
    by apply conn_run_state.
  split; [exact E|]. split; [rewrite S1; reflexivity|]. split; [rewrite S1; reflexivity|].
  intros p Hp. rewrite E in Hp.
  assert (Q : p_seq p = get (i_local_seq (c_state c')) (i_local_epoch (c_state c'))).
  { unfold gen_state, gen_state_gen in Hp. destruct (i_suite (c_state c')); [|discriminate].
    destruct (i_version (c_state c') =? v13); [discriminate|].
    destruct (N.of_nat (length (i_local_seq (c_state c'))) <=? i_local_epoch (c_state c'));
      [destruct export_checks_counter_exists; discriminate|].
    injection Hp as <-. reflexivity. }
  split; [exact Q|]. rewrite Q, S1. reflexivity.
Qed.

Lemma sends_of_sends evs : sends_of (map EvSend (sends_of evs)) = sends_of evs.
Proof. induction evs as [|[e|] r IH]; cbn; [reflexivity|rewrite IH; reflexivity|exact IH]. Qed.

(* looks are invisible: the export at the end of a history is the export at the end of the same
   history without its looks *)
Theorem looks_do_not_change_the_export (s : istate) (evs : list ev) :
  snd (export (conn_run false (conn_fresh s) evs)) =
  snd (export (conn_run false (conn_fresh s) (map EvSend (sends_of evs)))).
Proof.
  destruct (export_reflects_current_counters (conn_fresh s) evs) as [E1 _].
  destruct (export_reflects_current_counters (conn_fresh s) (map EvSend (sends_of evs))) as [E2 _].
  cbn zeta in E1, E2. rewrite E1, E2. rewrite !conn_run_state.
  rewrite sends_of_sends. reflexivity.
Qed.

(* hence C19's sequence statement holds for every history with looks in it: sends and looks in
   any order from the start of the connection, the export at the end serialised and resumed, [post]
   more records - no (epoch, sequence number) twice *)
Theorem looks_then_export_continues (evs : list ev) (e : N) (post : nat) (s0 s' : istate) :
  i_local_seq s0 = [] -> i_local_epoch s0 = e ->
  let c' := conn_run false (conn_fresh s0) evs in
  import_export (c_state c') = Some s' ->
  N.of_nat (length (sends_of evs) + post) < two64 ->
  get (i_local_seq s') e = get (counters_after [] (sends_of evs)) e /\
  (forall x, In x (emitted [] (sends_of evs)) -> ~ In x (emitted (i_local_seq s') (repeat e post))) /\
  NoDup (emitted [] (sends_of evs) ++ emitted (i_local_seq s') (repeat e post)).
Proof.
  intros H0 He. cbn zeta. intros Hie Hn.
  assert (S1 := conn_run_state false evs (conn_fresh s0)). cbn [conn_fresh c_state] in S1.
  destruct (seq_continues (sends_of evs) e post (c_state (conn_run false (conn_fresh s0) evs)) s') as [A [_ [_ [B C]]]].
  - rewrite S1. cbn [set_local_seq i_local_seq]. rewrite H0. reflexivity.
  - rewrite S1. exact He.
  - exact Hie.
  - exact Hn.
  - split; [exact A|]. split; [exact B|exact C].
Qed.

(* a memoising ConnectionState() breaks this: look, two records, export - the export carries the
   number of the look (1, the connection's next number is 3) and the resumed connection sends
   (epoch 1, sequence number 1) a second time *)
Theorem export_memoised_refuted : exists s evs p s',
  i_local_seq s = counters_after [] [0; 0; 1] /\
  let c' := conn_run true (conn_fresh s) evs in
  snd (export_gen true c') = Ok p /\
  p_seq p = 1 /\ get (i_local_seq (c_state c')) (i_local_epoch (c_state c')) = 3 /\
  snd (export c') <> Ok p /\
  match serialize p with Some z => match unmarshal z with Some p' => gen_internal p' | None => None end | None => None end = Some s' /\
  In (1, 1) (emitted [] ([0; 0; 1] ++ sends_of evs)) /\ In (1, 1) (emitted (i_local_seq s') [1]).
Proof.
  exists (mkI v12 1 1 [1] [2] [3] (counters_after [] [0; 0; 1]) [] [] (Some 168) 0 [] [] [] false true
              [] [] [] [] false (false, false) false (0, 0)).
  exists [EvLook; EvSend 1; EvSend 1].
  do 2 eexists.
  split; [reflexivity|]. cbn zeta.
  split; [vm_compute; reflexivity|]. split; [reflexivity|]. split; [vm_compute; reflexivity|].
  split; [vm_compute; discriminate|]. split; [vm_compute; reflexivity|].
  split; vm_compute; auto.
Qed.
