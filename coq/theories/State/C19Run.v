(* Executable comparison functions used by the C19 correspondence check (checks/c19.py):
   the cases observed on the implementation are written as Coq terms and evaluated with
   vm_compute against State/C19Export.v. *)
From DtlsV Require Import Lib.Bytes Rec.Window State.C19Export.
Open Scope N_scope.

Fixpoint nlist_eqb (a b : list N) : bool :=
  match a, b with
  | [], [] => true
  | x :: a', y :: b' => (x =? y) && nlist_eqb a' b'
  | _, _ => false
  end.

Fixpoint blist_eqb (a b : list bytes) : bool :=
  match a, b with
  | [], [] => true
  | x :: a', y :: b' => bytes_eqb x y && blist_eqb a' b'
  | _, _ => false
  end.

Definition optN_eqb (a b : option N) : bool :=
  match a, b with
  | Some x, Some y => x =? y
  | None, None => true
  | _, _ => false
  end.

Fixpoint pairs_eqb (a b : list (N * N)) : bool :=
  match a, b with
  | [], [] => true
  | (x1, x2) :: a', (y1, y2) :: b' => (x1 =? y1) && (x2 =? y2) && pairs_eqb a' b'
  | _, _ => false
  end.

Definition pair_in (x : N * N) (l : list (N * N)) : bool :=
  existsb (fun y => (fst x =? fst y) && (snd x =? snd y)) l.

Definition disjointb (a b : list (N * N)) : bool := forallb (fun x => negb (pair_in x b)) a.

Fixpoint nodupb (l : list (N * N)) : bool :=
  match l with
  | [] => true
  | x :: l' => negb (pair_in x l') && nodupb l'
  end.

(* all modelled fields; of the replay detectors only their number is observed *)
Definition istate_eqb (a b : istate) : bool :=
  (i_version a =? i_version b) && (i_local_epoch a =? i_local_epoch b) &&
  (i_remote_epoch a =? i_remote_epoch b) &&
  bytes_eqb (i_local_random a) (i_local_random b) && bytes_eqb (i_remote_random a) (i_remote_random b) &&
  bytes_eqb (i_master a) (i_master b) && nlist_eqb (i_local_seq a) (i_local_seq b) &&
  nlist_eqb (i_remote_seq a) (i_remote_seq b) &&
  Nat.eqb (length (i_replay a)) (length (i_replay b)) &&
  optN_eqb (i_suite a) (i_suite b) && (i_profile a =? i_profile b) && bytes_eqb (i_mki a) (i_mki b) &&
  bytes_eqb (i_local_cid a) (i_local_cid b) && bytes_eqb (i_remote_cid a) (i_remote_cid b) &&
  Bool.eqb (i_rrc a) (i_rrc b) && Bool.eqb (i_is_client a) (i_is_client b) &&
  blist_eqb (i_certs a) (i_certs b) && bytes_eqb (i_hint a) (i_hint b) &&
  bytes_eqb (i_session_id a) (i_session_id b) && bytes_eqb (i_alpn a) (i_alpn b) &&
  Bool.eqb (i_ems a) (i_ems b) &&
  Bool.eqb (fst (i_cid_offered a)) (fst (i_cid_offered b)) &&
  Bool.eqb (snd (i_cid_offered a)) (snd (i_cid_offered b)) &&
  Bool.eqb (i_certs_verified a) (i_certs_verified b) &&
  (fst (i_hs_seq a) =? fst (i_hs_seq b)) && (snd (i_hs_seq a) =? snd (i_hs_seq b)).

Definition pstate_eqb (a b : pstate) : bool :=
  (p_version a =? p_version b) && (p_local_epoch a =? p_local_epoch b) &&
  (p_remote_epoch a =? p_remote_epoch b) &&
  bytes_eqb (p_local_random a) (p_local_random b) && bytes_eqb (p_remote_random a) (p_remote_random b) &&
  bytes_eqb (p_master a) (p_master b) && (p_seq a =? p_seq b) && (p_suite a =? p_suite b) &&
  (p_profile a =? p_profile b) && bytes_eqb (p_mki a) (p_mki b) &&
  bytes_eqb (p_local_cid a) (p_local_cid b) && bytes_eqb (p_remote_cid a) (p_remote_cid b) &&
  Bool.eqb (p_rrc a) (p_rrc b) && Bool.eqb (p_is_client a) (p_is_client b) &&
  blist_eqb (p_certs a) (p_certs b) && bytes_eqb (p_hint a) (p_hint b) &&
  bytes_eqb (p_session_id a) (p_session_id b) && bytes_eqb (p_alpn a) (p_alpn b).

(* ---------------- main leg ----------------
   before      internal state of the original connection at the export point
   exported    what ConnectionState() returned (public State, projected)
   decoded     the State after MarshalBinary / UnmarshalBinary
   after       internal state of the resumed connection before it writes (observed)
   peer        internal state of the untouched peer at the export point
   pre, post   (epoch, seq) of every record the side put on the wire before / after
   x2p, p2x    Some b: at least one record was written in that direction after the resume and
               b = "everything written was delivered, in order"
   start       (MinVersion, MaxVersion) of the handshake configuration the Conn was resumed with,
               what HandshakeContext of the resumed Conn did: 0 = returned nil at once (finished
               state), 1 = returned an error at once and nothing was written, 2 = anything else
               (it wrote records or kept waiting: a new handshake),
               "ConnectionState() was available between Resume and the first Handshake/Read/Write" *)
Definition main_case :=
  (istate * pstate * pstate * istate * istate * list (N * N) * list (N * N) * option bool * option bool *
   (N * N * N * bool))%type.

Definition flow_ok (pred : bool) (obs : option bool) : bool :=
  match obs with None => true | Some b => Bool.eqb pred b end.

Definition main_traffic_ok
  (c : istate * pstate * pstate * istate * istate * list (N * N) * list (N * N) * option bool * option bool) : bool :=
  let '(before, exported, decoded, after, peer, pre, post, x2p, p2x) := c in
  let e := i_local_epoch before in
  (* the wire numbers before the export are what the sender model allocates, and the counters of
     the internal state are the model's counters *)
  pairs_eqb (emitted [] (map fst pre)) pre &&
  nlist_eqb (counters_after [] (map fst pre)) (i_local_seq before) &&
  (* ConnectionState() and the decoded copy are the model's public state *)
  match gen_state before with
  | Ok p =>
      pstate_eqb p exported &&
      match serialize p with
      | Some z => match unmarshal z with
                  | Some p' => pstate_eqb p' decoded
                  | None => false
                  end
      | None => false
      end
  | _ => false
  end &&
  match import_export before with
  | None => false
  | Some s' =>
      (* preserved and reset fields, exactly *)
      istate_eqb s' after &&
      (* the resumed sender continues at the exported number, in the exported epoch only *)
      forallb (fun x => fst x =? e) post &&
      pairs_eqb (emitted (i_local_seq s') (map fst post)) post &&
      match post with
      | [] => true
      | (_, q) :: _ => q =? get (i_local_seq before) e
      end &&
      disjointb pre post && nodupb (pre ++ post) &&
      (* data flows both ways *)
      flow_ok (delivers s' peer) x2p && flow_ok (delivers peer s') p2x
  end.

Definition main_ok (c : main_case) : bool :=
  let '(before, exported, decoded, after, peer, pre, post, x2p, p2x, start) := c in
  let '(vmin, vmax, start_obs, early_ok) := start in
  let started := start_obs =? 0 in
  (* whatever versions the options allow, the resume state is honoured (or refused: 1.3-only options) *)
  match handshake_start vmin vmax true with
  | StartFinished => start_obs =? 0
  | StartRefused => start_obs =? 1
  | _ => start_obs =? 2
  end &&
  (* as coded the state is installed lazily: nothing is reported before the first I/O *)
  Bool.eqb early_ok (match gen_state (resumed_conn_before_start after) with Ok _ => true | _ => false end) &&
  (negb started || main_traffic_ok (before, exported, decoded, after, peer, pre, post, x2p, p2x)).

(* ---------------- corruption leg ----------------
   input       Some z when the mutation was applied to the serializedState value itself
               (re-encoded with gob); None for byte-level damage (gob layer, not modelled)
   dec_ok      UnmarshalBinary returned nil
   dec         the decoded State (meaningful when dec_ok)
   peer        the good state of the untouched peer, exported at the same point
   resume_ok   resumeWithConfig + Handshake returned nil
   x2p, p2x    one record each way was delivered (the corrupted side writes first)
   k, post     number of writes the resumed (corrupted) side attempted and the (epoch, seq) of the
               records it put on the wire *)
Definition corrupt_case := (option sstate * bool * pstate * pstate * bool * bool * bool * N * list (N * N))%type.

Definition write_goes_out (x : istate) : bool :=
  (get (i_local_seq x) (i_local_epoch x) <=? max_seq) &&
  match key_inputs x with Some _ => true | None => false end.

(* State12.ShouldWrapConnectionID: records are sent as tls12_cid iff a remote CID is set *)
Definition wraps_cid (x : istate) : bool :=
  match i_remote_cid x with [] => false | _ => true end.

Definition corrupt_ok (c : corrupt_case) : bool :=
  let '(input, dec_ok, dec, peer, resume_ok, x2p, p2x, k, post) := c in
  match input with
  | Some z => match unmarshal z with
              | Some p => dec_ok && pstate_eqb p dec
              | None => negb dec_ok
              end
  | None => true
  end &&
  if dec_ok then
    match gen_internal dec, gen_internal peer with
    | Some x, Some t =>
        resume_ok && Bool.eqb x2p (delivers x t) &&
        (* (a state that would write in epoch 0 no longer gets this far: gen_internal refuses it) *)
        Bool.eqb p2x (delivers t x) &&
        (* the numbers it uses: from the decoded number on, nothing beyond 2^48 - 1, no wrap (a DTLS
           1.3 suite id protects nothing on a 1.2 connection: the number is spent, no record leaves) *)
        pairs_eqb (match key_inputs x with
                   | Some _ => emitted (i_local_seq x) (repeat (i_local_epoch x) (N.to_nat k))
                   | None => []
                   end) post
    | None, Some _ => negb resume_ok
    | _, None => false
    end
  else true.

(* ---------------- export at VerifyConnection time ----------------
   (the State handed to the VerifyConnection callback, after MarshalBinary / UnmarshalBinary;
    UnmarshalBinary returned nil; resumeWithConfig returned nil) *)
Definition vc_case := (pstate * bool * bool)%type.

Definition vc_ok (c : vc_case) : bool :=
  let '(p, dec_ok, resume_ok) := c in
  match serialize p with
  | Some z => match unmarshal z with
              | Some p' => dec_ok && Bool.eqb resume_ok (match gen_internal p' with Some _ => true | None => false end)
              | None => negb dec_ok
              end
  | None => negb dec_ok
  end.

(* ---------------- export near the sequence number limit ----------------
   st0         LocalSequenceNumber of the side after its counter was moved close to 2^48
   i           writes attempted before the export (those beyond 2^48 - 1 fail and still count)
   before      internal state at the export point
   peer        internal state of the untouched peer at the export point
   pre         records put on the wire by those writes
   resumed     UnmarshalBinary + resumeWithConfig + Handshake returned nil
   k, post     writes attempted by the resumed connection, records it put on the wire
   p2x         one record of the peer was written after the resume and b = "it was delivered" *)
Definition limit_case :=
  (list N * N * istate * istate * list (N * N) * bool * N * list (N * N) * option bool)%type.

Definition limit_ok (c : limit_case) : bool :=
  let '(st0, i, before, peer, pre, resumed, k, post, p2x) := c in
  let e := i_local_epoch before in
  pairs_eqb (emitted st0 (repeat e (N.to_nat i))) pre &&
  nlist_eqb (counters_after st0 (repeat e (N.to_nat i))) (i_local_seq before) &&
  match import_export before with
  | None => negb resumed
  | Some s' =>
      resumed && pairs_eqb (emitted (i_local_seq s') (repeat e (N.to_nat k))) post &&
      disjointb pre post && nodupb (pre ++ post) && flow_ok (delivers peer s') p2x
  end.

(* ---------------- ConnectionState() while the handshake runs ----------------
   (internal state at a point where the state machine is between two steps;
    0 = a State was returned, 1 = not available, 2 = run-time panic; the State) *)
Definition mid_case := (istate * N * pstate)%type.

Definition mid_ok (c : mid_case) : bool :=
  let '(s, obs, got) := c in
  match gen_state s with
  | Ok p => (obs =? 0) && pstate_eqb p got
  | Refused => obs =? 1
  | Panics => obs =? 2
  end.

(* ---------------- suite table leg ----------------
   (id, ForID(id,nil) <> nil, is a 1.3 suite, UnmarshalBinary ok, generateInternalState ok,
    size of the PRF hash) *)
Definition suite_case := (N * bool * bool * bool * bool * N)%type.

Definition suite_ok (c : suite_case) : bool :=
  let '(id, known, is13, init_ok, resume, hsize) := c in
  Bool.eqb (suite_known id) known &&
  Bool.eqb init_ok known && Bool.eqb resume known &&
  match suite_lookup suite_table id with
  | Some (cl, h, b) => Bool.eqb b is13 && (hsize =? (if h =? 1 then 32 else 48)) &&
                       Bool.eqb (cl =? 0) is13
  | None => negb is13
  end.

(* indices of the cases on which [ok] is false (same contract as the helper of the worked example;
   kept local so that this file depends on the shared library and its own model only) *)
Fixpoint mismatches_from {A} (ok : A -> bool) (i : N) (l : list A) : list N :=
  match l with
  | [] => []
  | c :: l' => if ok c then mismatches_from ok (i + 1) l' else i :: mismatches_from ok (i + 1) l'
  end.
Definition mismatches {A} (ok : A -> bool) (l : list A) : list N := mismatches_from ok 0 l.

(* ---------------- looks leg: ConnectionState() called more than once ----------------
   (internal state of the connection at the first ConnectionState() call of a generation; the
    events after that call, 0 = a ConnectionState() call, e + 1 = one record sent at epoch e; the
    sequence numbers the calls returned, the first call included).  The model runs the history on
    [export] (a function of the current state, no memory of earlier calls). *)
Definition ev_of (n : N) : ev := if n =? 0 then EvLook else EvSend (n - 1).

Fixpoint optlist_eqb (a b : list (option N)) : bool :=
  match a, b with
  | [], [] => true
  | x :: a', y :: b' => optN_eqb x y && optlist_eqb a' b'
  | _, _ => false
  end.

Definition looks_case := (istate * list N * list N)%type.

Definition looks_ok (c : looks_case) : bool :=
  let '(s, evs, obs) := c in
  optlist_eqb (looks_seqs false (conn_fresh s) (EvLook :: map ev_of evs)) (map Some obs).
