(* C07 (symbolic): Dolev-Yao term algebra and attacker-knowledge closure for the
   DTLS keying-material exporter (state.go ExportKeyingMaterial / exportKeyingMaterial13).

   DEFINITIONS ONLY.  All proofs are in DtlsV.Sym.C07DeriveSound.

   Symbolic idealisation (stated once, here):
     * [TPrf] (PRF / P_hash / HKDF-Expand-Label keyed with its first argument) and
       [THash] are FREE constructors of the term algebra: two PRF/hash terms are equal
       only if all their arguments are equal (no collisions), and
     * the attacker closure [derives] has NO rule that inverts [TPrf] or [THash]:
       from a PRF output one learns neither the key nor the label nor the seed, and
       from a hash one does not learn the preimage.  The only way the attacker obtains
       a PRF term is (a) it was handed to it (it occurs in the knowledge set, possibly
       under pairing), or (b) it computes it itself from a key, label and seed it
       already derives ([d_prf]).
   This is the standard Dolev-Yao perfect-cryptography assumption; nothing below is a
   computational statement. *)

From Coq Require Import List NArith Lia Bool.

Local Open Scope N_scope.

(* ------------------------------------------------------------------------- *)
(* Terms                                                                     *)
(* ------------------------------------------------------------------------- *)

Inductive term :=
| TPub (n : N)            (* public atoms: nonces/randoms, public keys, certificates,
                             signatures, labels, lengths, the empty string *)
| TSec (n : N)            (* secret atoms: pre-master / (EC)DHE shared secret, PSK,
                             private keys *)
| TPair (a b : term)
| TPrf (k label seed : term)   (* PRF / P_hash / HKDF-Expand-Label keyed with k:
                                  a free constructor *)
| THash (a : term).

Fixpoint term_eqb (x y : term) : bool :=
  match x, y with
  | TPub n, TPub m => N.eqb n m
  | TSec n, TSec m => N.eqb n m
  | TPair a b, TPair c d => term_eqb a c && term_eqb b d
  | TPrf k l s, TPrf k' l' s' => term_eqb k k' && term_eqb l l' && term_eqb s s'
  | THash a, THash b => term_eqb a b
  | _, _ => false
  end.

(* ------------------------------------------------------------------------- *)
(* Attacker closure                                                          *)
(* ------------------------------------------------------------------------- *)

(* [derives K t]: the attacker whose initial knowledge is the set K can construct t.
   NOTE: there is deliberately no destructor rule for TPrf or THash (PRF and hash
   freeness / one-wayness: the symbolic idealisation described in the header). *)
Inductive derives (K : term -> Prop) : term -> Prop :=
| d_init : forall t, K t -> derives K t
| d_pub  : forall n, derives K (TPub n)          (* public atoms are known to everyone *)
| d_pair : forall a b, derives K a -> derives K b -> derives K (TPair a b)
| d_fst  : forall a b, derives K (TPair a b) -> derives K a
| d_snd  : forall a b, derives K (TPair a b) -> derives K b
| d_prf  : forall k l s, derives K k -> derives K l -> derives K s ->
                         derives K (TPrf k l s)  (* whoever knows the key computes the PRF *)
| d_hash : forall a, derives K a -> derives K (THash a).

(* ------------------------------------------------------------------------- *)
(* Protocol terms                                                            *)
(* ------------------------------------------------------------------------- *)

(* The empty string; labels are public atoms. *)
Definition empty : term := TPub 0.
Definition lbl_master_secret : term := TPub 1.   (* "master secret" *)
Definition lbl_exporter      : term := TPub 2.   (* "exporter"      *)
Definition lbl_exp_master    : term := TPub 3.   (* "exp master"    *)

(* DTLS 1.2 ---------------------------------------------------------------- *)

(* master_secret = PRF(pre_master_secret, "master secret", client_random + server_random) *)
Definition ms12 (pms cr sr : term) : term :=
  TPrf pms (TPub 1 (* "master secret" *)) (TPair cr sr).

(* state.go ExportKeyingMaterial:
     P_hash(master_secret, label || client_random || server_random) *)
Definition exporter12 (ms label cr sr : term) : term :=
  TPrf ms label (TPair cr sr).

(* DTLS 1.3 ---------------------------------------------------------------- *)

(* Derive-Secret(Secret, Label, Messages) = HKDF-Expand-Label(Secret, Label, Hash(Messages), Hash.length);
   the third argument here is already the transcript hash. *)
Definition derive_secret (s label th : term) : term := TPrf s label th.

(* RFC 8446 7.5 as implemented by state.go exportKeyingMaterial13:
     HKDF-Expand-Label(Derive-Secret(exporter_master_secret, label, ""),
                       "exporter", Hash(""), length) *)
Definition exporter13 (ems label : term) : term :=
  TPrf (derive_secret ems label (THash empty)) (TPub 2 (* "exporter" *)) (THash empty).

(* exporter_master_secret = Derive-Secret(Master Secret, "exp master", ClientHello..server Finished) *)
Definition ems13 (master th : term) : term :=
  TPrf master (TPub 3 (* "exp master" *)) th.

(* What the tree did for DTLS 1.3 BEFORE the fix: the DTLS 1.2 code path with the
   (never populated, hence EMPTY) master secret, i.e. a PRF keyed with the empty string
   over the public hello randoms. *)
Definition exporter13_old (label cr sr : term) : term :=
  TPrf empty label (TPair cr sr).

(* ------------------------------------------------------------------------- *)
(* Wire-observable knowledge                                                 *)
(* ------------------------------------------------------------------------- *)

(* A term that can be seen in clear on the wire: public atoms, tuples of wire terms,
   and opaque PRF outputs / hashes (e.g. Finished verify_data, transcript hashes).
   A bare secret atom is never on the wire. *)
Fixpoint wire_term (t : term) : Prop :=
  match t with
  | TPub _ => True
  | TSec _ => False
  | TPair a b => wire_term a /\ wire_term b
  | TPrf _ _ _ => True
  | THash _ => True
  end.

(* [cleartext K]: the knowledge set K contains only wire-observable terms.  The main
   theorems of C07DeriveSound do not depend on it (they take the facts they need as
   explicit premises); it is used for the convenience lemma [cleartext_keeps_secrets]. *)
Definition cleartext (K : term -> Prop) : Prop := forall t, K t -> wire_term t.

(* RFC 4279 pre_master_secret of a plain PSK suite: uint16 len || zeros(len) || uint16 len || psk.  Lengths and
   zeros are public; symbolically the pair (public framing, psk). *)
Definition pms_psk (psk : term) : term := TPair empty psk.
