(* C07 (symbolic): proofs about the Dolev-Yao closure of DtlsV.Sym.C07Derive.

   Main tool: the analysis/synthesis normal form.  [ana K] closes the knowledge set
   under the destructors (projections) only; [syn A] closes a set under public atoms
   and the constructors.  [derives K t <-> syn (ana K) t].

   Symbolic idealisation used throughout: TPrf and THash are free constructors and the
   attacker has no rule inverting them (see the header of C07Derive.v).  No axioms. *)

From Coq Require Import List NArith Lia Bool.
From DtlsV.Sym Require Import C07Derive.

Local Open Scope N_scope.

(* ------------------------------------------------------------------------- *)
(* term_eqb decides equality                                                 *)
(* ------------------------------------------------------------------------- *)

Lemma term_eqb_refl : forall t, term_eqb t t = true.
Proof.
  induction t as [n | n | a IHa b IHb | k IHk l IHl s IHs | a IHa]; cbn [term_eqb].
  - apply N.eqb_refl.
  - apply N.eqb_refl.
  - rewrite IHa, IHb. reflexivity.
  - rewrite IHk, IHl, IHs. reflexivity.
  - exact IHa.
Qed.

Lemma term_eqb_eq : forall x y, term_eqb x y = true <-> x = y.
Proof.
  intros x y. split.
  - revert y.
    induction x as [n | n | a IHa b IHb | k IHk l IHl s IHs | a IHa];
      intros y Heq; destruct y as [m | m | c d | k' l' s' | c];
      cbn [term_eqb] in Heq; try discriminate Heq.
    + apply N.eqb_eq in Heq. subst m. reflexivity.
    + apply N.eqb_eq in Heq. subst m. reflexivity.
    + apply andb_true_iff in Heq. destruct Heq as [H1 H2].
      apply IHa in H1. apply IHb in H2. subst c d. reflexivity.
    + apply andb_true_iff in Heq. destruct Heq as [H12 H3].
      apply andb_true_iff in H12. destruct H12 as [H1 H2].
      apply IHk in H1. apply IHl in H2. apply IHs in H3. subst k' l' s'. reflexivity.
    + apply IHa in Heq. subst c. reflexivity.
  - intros Hxy. subst y. apply term_eqb_refl.
Qed.

Lemma term_eqb_neq : forall x y, term_eqb x y = false <-> x <> y.
Proof.
  intros x y. split.
  - intros Hf Hxy. apply term_eqb_eq in Hxy. rewrite Hxy in Hf. discriminate Hf.
  - intros Hne. destruct (term_eqb x y) eqn:E.
    + apply term_eqb_eq in E. contradiction.
    + reflexivity.
Qed.

Lemma term_eq_dec : forall x y : term, {x = y} + {x <> y}.
Proof.
  intros x y. destruct (term_eqb x y) eqn:E.
  - left. apply term_eqb_eq. exact E.
  - right. apply term_eqb_neq. exact E.
Qed.

(* ------------------------------------------------------------------------- *)
(* Analysis and synthesis                                                    *)
(* ------------------------------------------------------------------------- *)

(* Analysis: everything reachable from K by projections.  Destructors only: no
   [d_pub], no constructor rule, and (PRF/hash freeness) nothing under TPrf/THash. *)
Inductive ana (K : term -> Prop) : term -> Prop :=
| a_init : forall t, K t -> ana K t
| a_fst  : forall a b, ana K (TPair a b) -> ana K a
| a_snd  : forall a b, ana K (TPair a b) -> ana K b.

(* Synthesis: everything buildable from the set A and the public atoms with the
   constructors. *)
Inductive syn (A : term -> Prop) : term -> Prop :=
| s_init : forall t, A t -> syn A t
| s_pub  : forall n, syn A (TPub n)
| s_pair : forall a b, syn A a -> syn A b -> syn A (TPair a b)
| s_prf  : forall k l s, syn A k -> syn A l -> syn A s -> syn A (TPrf k l s)
| s_hash : forall a, syn A a -> syn A (THash a).

Lemma ana_derives : forall K t, ana K t -> derives K t.
Proof.
  intros K t Ha.
  induction Ha as [t Hk | a b _ IH | a b _ IH].
  - apply d_init. exact Hk.
  - eapply d_fst. exact IH.
  - eapply d_snd. exact IH.
Qed.

Lemma syn_ana_derives : forall K t, syn (ana K) t -> derives K t.
Proof.
  intros K t Hs.
  induction Hs as [t Ha | n | a b _ IHa _ IHb | k l s _ IHk _ IHl _ IHs | a _ IHa].
  - apply ana_derives. exact Ha.
  - apply d_pub.
  - apply d_pair; assumption.
  - apply d_prf; assumption.
  - apply d_hash. exact IHa.
Qed.

(* A synthesised pair can be taken apart: either it sits in the analysed knowledge
   (then so do its components) or it was built by pairing. *)
Lemma syn_ana_pair_inv : forall K a b,
  syn (ana K) (TPair a b) -> syn (ana K) a /\ syn (ana K) b.
Proof.
  intros K a b Hs.
  inversion Hs as [t Ha Et | | a' b' Hsa Hsb Et | | ]; subst.
  - split.
    + apply s_init. eapply a_fst. exact Ha.
    + apply s_init. eapply a_snd. exact Ha.
  - split; assumption.
Qed.

(* Dolev-Yao normalisation: every derivation can be reorganised as
   "first analyse, then synthesise". *)
Theorem derives_syn_ana : forall K t, derives K t -> syn (ana K) t.
Proof.
  intros K t Hd.
  induction Hd as [t Hk | n | a b _ IHa _ IHb | a b _ IH | a b _ IH
                  | k l s _ IHk _ IHl _ IHs | a _ IHa].
  - apply s_init. apply a_init. exact Hk.
  - apply s_pub.
  - apply s_pair; assumption.
  - apply syn_ana_pair_inv in IH. destruct IH as [Ha _]. exact Ha.
  - apply syn_ana_pair_inv in IH. destruct IH as [_ Hb]. exact Hb.
  - apply s_prf; assumption.
  - apply s_hash. exact IHa.
Qed.

Theorem derives_iff_syn_ana : forall K t, derives K t <-> syn (ana K) t.
Proof.
  intros K t. split.
  - apply derives_syn_ana.
  - apply syn_ana_derives.
Qed.

(* ------------------------------------------------------------------------- *)
(* Inversion principles for the free constructors and the secret atoms       *)
(* ------------------------------------------------------------------------- *)

Theorem prf_derivable_inv : forall K k l s,
  derives K (TPrf k l s) ->
  ana K (TPrf k l s) \/ (derives K k /\ derives K l /\ derives K s).
Proof.
  intros K k l s Hd.
  apply derives_syn_ana in Hd.
  inversion Hd as [t Ha Et | | | k' l' s' Hk Hl Hs Et | ]; subst.
  - left. exact Ha.
  - right. repeat split; apply syn_ana_derives; assumption.
Qed.

Theorem hash_derivable_inv : forall K a,
  derives K (THash a) -> ana K (THash a) \/ derives K a.
Proof.
  intros K a Hd.
  apply derives_syn_ana in Hd.
  inversion Hd as [t Ha Et | | | | a' Hsa Et]; subst.
  - left. exact Ha.
  - right. apply syn_ana_derives. exact Hsa.
Qed.

(* A secret atom is derivable only if it is literally reachable by projections. *)
Theorem sec_derivable_inv : forall K n, derives K (TSec n) -> ana K (TSec n).
Proof.
  intros K n Hd.
  apply derives_syn_ana in Hd.
  inversion Hd as [t Ha Et | | | | ]; subst.
  exact Ha.
Qed.

(* ------------------------------------------------------------------------- *)
(* Positive direction: a PRF with a derivable key is derivable               *)
(* ------------------------------------------------------------------------- *)

Theorem exporter_keyed_by_derivable : forall K k l s,
  derives K k -> derives K l -> derives K s -> derives K (TPrf k l s).
Proof.
  intros K k l s Hk Hl Hs. apply d_prf; assumption.
Qed.

(* Regression: what the tree did for DTLS 1.3 before the fix -- the exporter keyed
   with the EMPTY master secret over the public hello randoms -- is derivable by an
   attacker that knows nothing at all (K arbitrary, in particular K empty). *)
Theorem exporter_keyed_by_public_refuted : forall K label cr sr,
  derives K (exporter13_old (TPub label) (TPub cr) (TPub sr)).
Proof.
  intros K label cr sr. unfold exporter13_old, empty.
  apply exporter_keyed_by_derivable.
  - apply d_pub.
  - apply d_pub.
  - apply d_pair; apply d_pub.
Qed.

(* ------------------------------------------------------------------------- *)
(* DTLS 1.2                                                                  *)
(* ------------------------------------------------------------------------- *)

(* If the master secret is not derivable, the exporter value is derivable only if it
   already occurs in the knowledge (reachable by projections). *)
Theorem exporter12_underivable :
  forall (K : term -> Prop) ms label cr sr,
    ~ derives K ms ->
    derives K (exporter12 ms label cr sr) ->
    ana K (exporter12 ms label cr sr).
Proof.
  intros K ms label cr sr Hms Hd. unfold exporter12 in *.
  apply prf_derivable_inv in Hd.
  destruct Hd as [Ha | [Hk _]].
  - exact Ha.
  - contradiction.
Qed.

Theorem exporter12_secret :
  forall (K : term -> Prop) ms label cr sr,
    ~ derives K ms ->
    (forall l s, ~ ana K (TPrf ms l s)) ->
    ~ derives K (exporter12 ms label cr sr).
Proof.
  intros K ms label cr sr Hms Hno Hd.
  apply (exporter12_underivable K ms label cr sr Hms) in Hd.
  unfold exporter12 in Hd.
  exact (Hno _ _ Hd).
Qed.

Theorem ms12_underivable :
  forall K pms cr sr,
    ~ derives K pms ->
    (forall l s, ~ ana K (TPrf pms l s)) ->
    ~ derives K (ms12 pms cr sr).
Proof.
  intros K pms cr sr Hpms Hno Hd. unfold ms12 in Hd.
  apply prf_derivable_inv in Hd.
  destruct Hd as [Ha | [Hk _]].
  - exact (Hno _ _ Ha).
  - contradiction.
Qed.

(* Chained: pre-master secret underivable, and no PRF value keyed by pms or by the
   master secret has leaked into the analysed knowledge => exporter underivable. *)
Theorem exporter12_from_pms :
  forall K pms label cr sr,
    ~ derives K pms ->
    (forall l s, ~ ana K (TPrf pms l s)) ->
    (forall l s, ~ ana K (TPrf (ms12 pms cr sr) l s)) ->
    ~ derives K (exporter12 (ms12 pms cr sr) label cr sr).
Proof.
  intros K pms label cr sr Hpms Hno1 Hno2.
  apply exporter12_secret.
  - apply ms12_underivable; assumption.
  - exact Hno2.
Qed.

(* ------------------------------------------------------------------------- *)
(* DTLS 1.3                                                                  *)
(* ------------------------------------------------------------------------- *)

(* Two PRF layers: the inner Derive-Secret value is underivable because ems is, hence
   so is the outer HKDF-Expand-Label value. *)
Theorem derive_secret_underivable :
  forall K s label th,
    ~ derives K s ->
    (forall l x, ~ ana K (TPrf s l x)) ->
    ~ derives K (derive_secret s label th).
Proof.
  intros K s label th Hs Hno Hd. unfold derive_secret in Hd.
  apply prf_derivable_inv in Hd.
  destruct Hd as [Ha | [Hk _]].
  - exact (Hno _ _ Ha).
  - contradiction.
Qed.

Theorem exporter13_underivable :
  forall K ems label,
    ~ derives K ems ->
    (forall l s, ~ ana K (TPrf ems l s)) ->
    (forall l s, ~ ana K (TPrf (derive_secret ems label (THash empty)) l s)) ->
    ~ derives K (exporter13 ems label).
Proof.
  intros K ems label Hems Hno1 Hno2 Hd. unfold exporter13 in Hd.
  apply prf_derivable_inv in Hd.
  destruct Hd as [Ha | [Hk _]].
  - exact (Hno2 _ _ Ha).
  - exact (derive_secret_underivable K ems label (THash empty) Hems Hno1 Hk).
Qed.

(* exporter_master_secret itself is underivable when the 1.3 master secret is. *)
Theorem ems13_underivable :
  forall K master th,
    ~ derives K master ->
    (forall l s, ~ ana K (TPrf master l s)) ->
    ~ derives K (ems13 master th).
Proof.
  intros K master th Hm Hno Hd. unfold ems13 in Hd.
  apply prf_derivable_inv in Hd.
  destruct Hd as [Ha | [Hk _]].
  - exact (Hno _ _ Ha).
  - contradiction.
Qed.

Theorem exporter13_from_master :
  forall K master th label,
    ~ derives K master ->
    (forall l s, ~ ana K (TPrf master l s)) ->
    (forall l s, ~ ana K (TPrf (ems13 master th) l s)) ->
    (forall l s, ~ ana K (TPrf (derive_secret (ems13 master th) label (THash empty)) l s)) ->
    ~ derives K (exporter13 (ems13 master th) label).
Proof.
  intros K master th label Hm Hno1 Hno2 Hno3.
  apply exporter13_underivable.
  - apply ems13_underivable; assumption.
  - exact Hno2.
  - exact Hno3.
Qed.

(* ------------------------------------------------------------------------- *)
(* Wire-observable knowledge keeps secret atoms secret                       *)
(* ------------------------------------------------------------------------- *)

Lemma ana_cleartext_wire : forall K, cleartext K -> forall t, ana K t -> wire_term t.
Proof.
  intros K Hc t Ha.
  induction Ha as [t Hk | a b _ IH | a b _ IH].
  - apply Hc. exact Hk.
  - cbn [wire_term] in IH. destruct IH as [Hwa _]. exact Hwa.
  - cbn [wire_term] in IH. destruct IH as [_ Hwb]. exact Hwb.
Qed.

Theorem cleartext_keeps_secrets : forall K n, cleartext K -> ~ derives K (TSec n).
Proof.
  intros K n Hc Hd.
  apply sec_derivable_inv in Hd.
  apply (ana_cleartext_wire K Hc) in Hd.
  cbn [wire_term] in Hd. exact Hd.
Qed.

(* ------------------------------------------------------------------------- *)
(* Concrete non-vacuity example                                              *)
(* ------------------------------------------------------------------------- *)

(* The attacker saw the two hello randoms and a transcript hash. *)
Definition K0 (t : term) : Prop :=
  t = TPub 10 \/ t = TPub 11 \/ t = THash (TPair (TPub 10) (TPub 11)).

(* K0 contains no pair, so analysis adds nothing. *)
Lemma ana_K0 : forall t, ana K0 t -> K0 t.
Proof.
  intros t Ha.
  induction Ha as [t Hk | a b _ IH | a b _ IH].
  - exact Hk.
  - destruct IH as [E | [E | E]]; discriminate E.
  - destruct IH as [E | [E | E]]; discriminate E.
Qed.

Example K0_secret_underivable : ~ derives K0 (TSec 1).
Proof.
  intros Hd.
  apply sec_derivable_inv in Hd.
  apply ana_K0 in Hd.
  destruct Hd as [E | [E | E]]; discriminate E.
Qed.

Lemma K0_no_prf : forall k l s, ~ ana K0 (TPrf k l s).
Proof.
  intros k l s Ha.
  apply ana_K0 in Ha.
  destruct Ha as [E | [E | E]]; discriminate E.
Qed.

Example K0_ms12_underivable :
  ~ derives K0 (ms12 (TSec 1) (TPub 10) (TPub 11)).
Proof.
  apply ms12_underivable.
  - exact K0_secret_underivable.
  - intros l s. apply K0_no_prf.
Qed.

(* Fully closed: no premises left. *)
Example K0_exporter12_underivable :
  ~ derives K0 (exporter12 (ms12 (TSec 1) (TPub 10) (TPub 11)) (TPub 5) (TPub 10) (TPub 11)).
Proof.
  apply exporter12_secret.
  - exact K0_ms12_underivable.
  - intros l s. apply K0_no_prf.
Qed.

(* The same for the 1.3 exporter keyed by a genuinely secret exporter master secret. *)
Example K0_exporter13_underivable :
  ~ derives K0 (exporter13 (ems13 (TSec 1) (THash (TPair (TPub 10) (TPub 11)))) (TPub 5)).
Proof.
  apply exporter13_from_master.
  - exact K0_secret_underivable.
  - intros l s. apply K0_no_prf.
  - intros l s. apply K0_no_prf.
  - intros l s. apply K0_no_prf.
Qed.

(* ... whereas the pre-fix 1.3 exporter over the very same randoms IS derivable from K0
   (indeed from anything). *)
Example K0_exporter13_old_derivable :
  derives K0 (exporter13_old (TPub 5) (TPub 10) (TPub 11)).
Proof.
  apply exporter_keyed_by_public_refuted.
Qed.

(* K0 is a wire-observable knowledge set (non-vacuity of [cleartext]). *)
Example K0_cleartext : cleartext K0.
Proof.
  intros t Hk.
  destruct Hk as [E | [E | E]]; subst t; cbn [wire_term]; exact I.
Qed.

(* ---------- pre-shared keys ---------- *)

(* a PSK that is not derivable keeps the pre_master_secret, the master secret and the exporter underivable *)
Theorem pms_psk_underivable : forall K psk, ~ derives K psk -> ~ derives K (pms_psk psk).
Proof. intros K psk H Hd. apply H. unfold pms_psk in Hd. eapply d_snd. exact Hd. Qed.

Theorem exporter12_from_psk : forall K psk label cr sr,
  ~ derives K psk -> (forall l s, ~ ana K (TPrf (pms_psk psk) l s)) ->
  (forall l s, ~ ana K (TPrf (ms12 (pms_psk psk) cr sr) l s)) ->
  ~ derives K (exporter12 (ms12 (pms_psk psk) cr sr) label cr sr).
Proof. intros K psk label cr sr H. apply exporter12_from_pms. now apply pms_psk_underivable. Qed.

(* ... but the EMPTY key is public: with it everything down to the exporter is computable from the hello randoms.
   The premise "the PSK is not derivable" is void for an empty key, which is why the endpoints must refuse one
   (flight4Parse / handleServerKeyExchange, f39ce00); the harness checks that they do. *)
Theorem exporter12_empty_psk_refuted : forall K label cr sr,
  derives K (exporter12 (ms12 (pms_psk empty) (TPub cr) (TPub sr)) (TPub label) (TPub cr) (TPub sr)).
Proof.
  intros K label cr sr. unfold exporter12, ms12, pms_psk, empty.
  repeat (first [apply d_pub | apply d_prf | apply d_pair]).
Qed.

Print Assumptions exporter12_underivable.
Print Assumptions exporter13_underivable.
Print Assumptions exporter_keyed_by_public_refuted.
Print Assumptions K0_exporter12_underivable.
