(* C07 (symbolic), lifecycle of the keying-material exporter API: which KEY TERM the State values handed out by
   ConnectionState() / UnmarshalBinary / Resume hold at every point of the life of a connection, including after
   Close, and what State.ExportKeyingMaterial therefore returns (state.go generateState / generateState13 /
   generateInternalState / ExportKeyingMaterial / exportKeyingMaterial13, conn.go Close / ConnectionState).

   DEFINITIONS ONLY.  Proofs in DtlsV.Sym.C07LifeSound.

   The connection state holds its secret (master secret, DTLS 1.2; exporter master secret, DTLS 1.3) in ONE cell
   (a Go byte slice).  A State handed to the application either SHARES that cell (generateState: masterSecret:
   internalState.MasterSecret, no copy; generateInternalState hands the same slice on to a resumed connection) or
   owns a COPY of its content at the time it was taken (generateState13: bytes.Clone; MarshalBinary/UnmarshalBinary).
   The only guard of the exporter is "the key is not the EMPTY string" (len(masterSecret) == 0 / local epoch 0,
   len(exporterSecret) == 0).

   Two switches describe variants of the code:
     share : a State taken with ConnectionState() shares the cell (true: DTLS 1.2 as coded; false: DTLS 1.3 as coded);
     wipe  : Close overwrites the cell IN PLACE with a constant of the same length (false: the code as it is;
             true: a "key hygiene" variant - the overwritten cell is not empty, so no guard fires). *)

From Coq Require Import List NArith Bool.
From DtlsV.Sym Require Import C07Derive.
Import ListNotations.

Local Open Scope N_scope.

(* an all-zero string of the length of the secret: a public constant, and NOT the empty string *)
Definition zeros : term := TPub 4.

Inductive href :=
| RAlias            (* shares the connection's cell *)
| RCopy (t : term). (* owns a copy *)

Record cfg := mkCfg {
  c_v13   : bool;
  c_share : bool;
  c_wipe  : bool;
  c_cr    : term;   (* client_random, server_random: on the wire *)
  c_sr    : term }.

Inductive stage := SHandshake | SOpen | SClosed.

Record world := mkW {
  w_stage   : stage;
  w_cell    : term;        (* content of the connection's secret cell; [empty] before the keys exist *)
  w_handles : list href }. (* every State handed out so far, in order *)

Definition winit : world := mkW SHandshake empty [].

Inductive lop :=
| LEstablish                      (* the handshake completes: the cell now holds the session secret *)
| LTake                           (* ConnectionState() - at any stage, also on the closed Conn *)
| LClose                          (* Conn.Close() *)
| LCopy (i : nat)                 (* MarshalBinary + UnmarshalBinary of handle i *)
| LResume (i : nat)               (* Resume from handle i, then ConnectionState() of the resumed Conn:
                                     generateInternalState and generateState hand the same slice on *)
| LExport (i : nat) (label : term). (* (handle i).ExportKeyingMaterial(label, nil, n) *)

Definition hvalue (w : world) (r : href) : term :=
  match r with RAlias => w_cell w | RCopy t => t end.

(* state.go ExportKeyingMaterial (1.2: P_hash(master_secret, label | client_random | server_random)) and
   exportKeyingMaterial13 (RFC 8446 7.5) *)
Definition exp_term (c : cfg) (key label : term) : term :=
  if c_v13 c then exporter13 key label else exporter12 key label (c_cr c) (c_sr c).

Definition add_handle (w : world) (r : href) : world :=
  mkW (w_stage w) (w_cell w) (w_handles w ++ [r]).

(* [s] is the session secret the key exchange produced *)
Definition lstep (c : cfg) (s : term) (w : world) (o : lop) : world * list term :=
  match o with
  | LEstablish =>
      match w_stage w with
      | SHandshake => (mkW SOpen s (w_handles w), [])
      | _ => (w, [])
      end
  | LTake => (add_handle w (if c_share c then RAlias else RCopy (w_cell w)), [])
  | LClose =>
      match w_stage w with
      | SOpen => (mkW SClosed (if c_wipe c then zeros else w_cell w) (w_handles w), [])
      | SHandshake => (mkW SClosed (w_cell w) (w_handles w), [])   (* nothing to wipe: the cell is empty *)
      | SClosed => (w, [])
      end
  | LCopy i =>
      match nth_error (w_handles w) i with
      | Some r => (add_handle w (RCopy (hvalue w r)), [])
      | None => (w, [])
      end
  | LResume i =>
      match nth_error (w_handles w) i with
      | Some r => if term_eqb (hvalue w r) empty then (w, [])   (* Resume refuses an empty master secret *)
                  else (add_handle w r, [])
      | None => (w, [])
      end
  | LExport i label =>
      match nth_error (w_handles w) i with
      | Some r => if term_eqb (hvalue w r) empty then (w, [])   (* ErrHandshakeInProgress *)
                  else (w, [exp_term c (hvalue w r) label])
      | None => (w, [])
      end
  end.

(* all values the exporter handed to the application during a history *)
Fixpoint lrun (c : cfg) (s : term) (w : world) (ops : list lop) : list term :=
  match ops with
  | [] => []
  | o :: rest => let (w', out) := lstep c s w o in out ++ lrun c s w' rest
  end.

(* the cell and every handle hold either nothing yet or the session secret *)
Definition key_ok (s t : term) : Prop := t = empty \/ t = s.

Definition href_ok (s : term) (r : href) : Prop :=
  match r with RAlias => True | RCopy t => key_ok s t end.

Definition world_ok (s : term) (w : world) : Prop :=
  key_ok s (w_cell w) /\ Forall (href_ok s) (w_handles w).
