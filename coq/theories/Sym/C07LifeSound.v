(* C07 (symbolic), lifecycle of the exporter API: proofs about DtlsV.Sym.C07Life.  No axioms.

   Main result: in the code as it is (Close does not overwrite the secret) every value State.ExportKeyingMaterial
   hands out, at ANY point of ANY history of Establish / ConnectionState / Close / Marshal-Unmarshal / Resume /
   Export - live, on a State held across Close, on a State taken from the closed Conn, after Resume - is the
   exporter term keyed with the SESSION SECRET, never with a public constant; hence equal to the live export for
   the same label and underivable when the session secret is.  Witnesses show that a Close that overwrites the
   secret in place while export stays enabled breaks this. *)

From Coq Require Import List NArith Bool.
From DtlsV.Sym Require Import C07Derive C07DeriveSound C07Life.
Import ListNotations.

Local Open Scope N_scope.

Lemma hvalue_ok : forall s w r, world_ok s w -> href_ok s r -> key_ok s (hvalue w r).
Proof.
  intros s w r [Hc _] Hr. destruct r as [|t]; simpl; assumption.
Qed.

Lemma nth_handle_ok : forall s w i r,
  world_ok s w -> nth_error (w_handles w) i = Some r -> href_ok s r.
Proof.
  intros s w i r [_ Hh] Hn. rewrite Forall_forall in Hh. apply Hh. eapply nth_error_In; eassumption.
Qed.

Lemma add_handle_ok : forall s w r, world_ok s w -> href_ok s r -> world_ok s (add_handle w r).
Proof.
  intros s w r [Hc Hh] Hr. split; simpl; [assumption|].
  apply Forall_app. split; [assumption|]. constructor; [assumption|constructor].
Qed.

Lemma winit_ok : forall s, world_ok s winit.
Proof. intro s. split; simpl; [left; reflexivity | constructor]. Qed.

(* the invariant is kept by every operation when Close does not overwrite the cell *)
Lemma lstep_ok : forall c s w o,
  c_wipe c = false -> world_ok s w -> world_ok s (fst (lstep c s w o)).
Proof.
  intros c s w o Hw Hok. destruct o as [| | |i|i|i l]; simpl.
  - destruct (w_stage w); simpl; try assumption.
    destruct Hok as [_ Hh]. split; simpl; [right; reflexivity | assumption].
  - apply add_handle_ok; [assumption|]. destruct (c_share c); simpl; [exact I|]. apply Hok.
  - destruct Hok as [Hc Hh]. destruct (w_stage w); simpl; split; simpl; try rewrite Hw; assumption.
  - destruct (nth_error (w_handles w) i) as [r|] eqn:Hn; simpl; [|assumption].
    apply add_handle_ok; [assumption|]. simpl. apply hvalue_ok; [assumption|].
    eapply nth_handle_ok; eassumption.
  - destruct (nth_error (w_handles w) i) as [r|] eqn:Hn; simpl; [|assumption].
    destruct (term_eqb (hvalue w r) empty); simpl; [assumption|].
    apply add_handle_ok; [assumption|]. eapply nth_handle_ok; eassumption.
  - destruct (nth_error (w_handles w) i) as [r|]; simpl; [|assumption].
    destruct (term_eqb (hvalue w r) empty); simpl; assumption.
Qed.

(* one step: everything handed out is keyed with the session secret *)
Lemma lstep_out : forall c s w o out,
  world_ok s w -> In out (snd (lstep c s w o)) -> exists label, out = exp_term c s label.
Proof.
  intros c s w o out Hok Hin. destruct o as [| | |i|i|i l]; simpl in Hin.
  - destruct (w_stage w); simpl in Hin; contradiction.
  - contradiction.
  - destruct (w_stage w); simpl in Hin; contradiction.
  - destruct (nth_error (w_handles w) i); simpl in Hin; contradiction.
  - destruct (nth_error (w_handles w) i) as [r|]; simpl in Hin; [|contradiction].
    destruct (term_eqb (hvalue w r) empty); simpl in Hin; contradiction.
  - destruct (nth_error (w_handles w) i) as [r|] eqn:Hn; simpl in Hin; [|contradiction].
    destruct (term_eqb (hvalue w r) empty) eqn:He; simpl in Hin; [contradiction|].
    destruct Hin as [Hin|[]]. subst out. exists l.
    assert (Hk : key_ok s (hvalue w r)).
    { apply hvalue_ok; [assumption|]. eapply nth_handle_ok; eassumption. }
    destruct Hk as [Hk|Hk].
    + rewrite Hk in He. rewrite term_eqb_refl in He. discriminate.
    + rewrite Hk. reflexivity.
Qed.

Lemma lrun_keyed : forall c s ops w out,
  c_wipe c = false -> world_ok s w -> In out (lrun c s w ops) -> exists label, out = exp_term c s label.
Proof.
  intros c s ops. induction ops as [|o rest IH]; intros w out Hw Hok Hin; simpl in Hin; [contradiction|].
  destruct (lstep c s w o) as [w' o1] eqn:Hs. apply in_app_or in Hin. destruct Hin as [Hin|Hin].
  - apply (lstep_out c s w o out Hok). rewrite Hs. exact Hin.
  - apply (IH w' out Hw); [|exact Hin].
    pose proof (lstep_ok c s w o Hw Hok) as H. rewrite Hs in H. exact H.
Qed.

(* MAIN: every history, every handed-out value - the key is the session secret *)
Theorem export_keyed_by_session_secret : forall c s ops out,
  c_wipe c = false -> In out (lrun c s winit ops) -> exists label, out = exp_term c s label.
Proof.
  intros c s ops out Hw Hin. apply (lrun_keyed c s ops winit out Hw (winit_ok s) Hin).
Qed.

(* monitor (i) of the harness: two exports of one session, at whatever points of its life, differ at most by label *)
Theorem export_equals_live : forall c s ops out1 out2,
  c_wipe c = false -> In out1 (lrun c s winit ops) -> In out2 (lrun c s winit ops) ->
  exists l1 l2, out1 = exp_term c s l1 /\ out2 = exp_term c s l2 /\ (l1 = l2 -> out1 = out2).
Proof.
  intros c s ops out1 out2 Hw H1 H2.
  destruct (export_keyed_by_session_secret c s ops out1 Hw H1) as [l1 E1].
  destruct (export_keyed_by_session_secret c s ops out2 Hw H2) as [l2 E2].
  exists l1, l2. repeat split; try assumption. intro E. subst. reflexivity.
Qed.

(* monitor (ii): secrecy at every point of the lifecycle (premises: the Dolev-Yao ones of C07DeriveSound) *)
Theorem export_lifecycle_secret : forall (K : term -> Prop) c s ops out,
  c_wipe c = false ->
  ~ derives K s ->
  (forall k l x, (k = s \/ exists label, k = derive_secret s label (THash empty)) -> ~ ana K (TPrf k l x)) ->
  In out (lrun c s winit ops) ->
  ~ derives K out.
Proof.
  intros K c s ops out Hw Hs Hno Hin.
  destruct (export_keyed_by_session_secret c s ops out Hw Hin) as [label E]. subst out.
  unfold exp_term. destruct (c_v13 c).
  - apply exporter13_underivable; [assumption| |].
    + intros l x. apply Hno. left. reflexivity.
    + intros l x. apply Hno. right. exists label. reflexivity.
  - apply exporter12_secret; [assumption|]. intros l x. apply Hno. left. reflexivity.
Qed.

(* ------------------------------------------------------------------------- *)
(* Variant: Close overwrites the secret in place, export stays enabled       *)
(* ------------------------------------------------------------------------- *)

Lemma exp_term_zeros_derivable : forall (K : term -> Prop) c label,
  derives K label -> derives K (c_cr c) -> derives K (c_sr c) -> derives K (exp_term c zeros label).
Proof.
  intros K c label Hl Hcr Hsr. unfold exp_term, exporter13, exporter12, derive_secret, zeros, empty.
  destruct (c_v13 c).
  - apply d_prf; [apply d_prf|apply d_pub|apply d_hash; apply d_pub].
    + apply d_pub.
    + assumption.
    + apply d_hash. apply d_pub.
  - apply d_prf; [apply d_pub|assumption|apply d_pair; assumption].
Qed.

(* a State taken from the closed Conn (DTLS 1.2 and 1.3, sharing or not) *)
Theorem export_after_wiping_close_refuted : forall (K : term -> Prop) c s label,
  c_wipe c = true -> s <> empty ->
  derives K label -> derives K (c_cr c) -> derives K (c_sr c) ->
  exists ops out, In out (lrun c s winit ops) /\ out = exp_term c zeros label /\ derives K out.
Proof.
  intros K c s label Hw Hs Hl Hcr Hsr.
  exists [LEstablish; LClose; LTake; LExport 0 label], (exp_term c zeros label).
  split; [|split; [reflexivity | apply exp_term_zeros_derivable; assumption]].
  simpl. rewrite Hw. destruct (c_share c); simpl; left; reflexivity.
Qed.

(* a State taken while the connection was open and kept across Close, when the State shares the cell (DTLS 1.2) *)
Theorem export_held_across_wiping_close_refuted : forall (K : term -> Prop) c s label,
  c_wipe c = true -> c_share c = true -> s <> empty ->
  derives K label -> derives K (c_cr c) -> derives K (c_sr c) ->
  exists ops out1 out2,
    lrun c s winit ops = [out1; out2] /\
    out1 = exp_term c s label /\          (* the export made while open *)
    out2 = exp_term c zeros label /\      (* the SAME State, after Close *)
    derives K out2.
Proof.
  intros K c s label Hw Hsh Hs Hl Hcr Hsr.
  exists [LEstablish; LTake; LExport 0 label; LClose; LExport 0 label], (exp_term c s label), (exp_term c zeros label).
  split; [|split; [reflexivity|split; [reflexivity|apply exp_term_zeros_derivable; assumption]]].
  simpl. rewrite Hsh. simpl.
  destruct (term_eqb s empty) eqn:He.
  - apply term_eqb_eq in He. contradiction.
  - simpl. rewrite Hw. simpl. reflexivity.
Qed.

(* the copy discipline alone does not repair the variant: a State that owns a copy taken while open keeps the
   session secret across a wiping Close (what DTLS 1.3's bytes.Clone gives the held State) *)
Theorem export_held_copy_survives_wiping_close : forall c s label,
  c_share c = false -> s <> empty ->
  lrun c s winit [LEstablish; LTake; LClose; LExport 0 label] = [exp_term c s label].
Proof.
  intros c s label Hsh Hs. simpl. rewrite Hsh. simpl.
  destruct (term_eqb s empty) eqn:He.
  - apply term_eqb_eq in He. contradiction.
  - reflexivity.
Qed.

(* non-vacuity of the main theorem: a concrete history with exports at four points of the lifecycle *)
Example lifecycle_example_12 :
  lrun (mkCfg false true false (TPub 10) (TPub 11)) (TSec 1) winit
       [LTake; LExport 0 (TPub 5); LEstablish; LTake; LExport 1 (TPub 5); LCopy 1; LClose; LExport 1 (TPub 5);
        LTake; LExport 3 (TPub 5); LResume 2; LExport 4 (TPub 6); LExport 0 (TPub 5)]
  = [exporter12 (TSec 1) (TPub 5) (TPub 10) (TPub 11); exporter12 (TSec 1) (TPub 5) (TPub 10) (TPub 11);
     exporter12 (TSec 1) (TPub 5) (TPub 10) (TPub 11); exporter12 (TSec 1) (TPub 6) (TPub 10) (TPub 11);
     exporter12 (TSec 1) (TPub 5) (TPub 10) (TPub 11)].
Proof. vm_compute. reflexivity. Qed.
