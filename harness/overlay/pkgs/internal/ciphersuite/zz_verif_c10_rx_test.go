//go:build verif

// C10 RECEIVE-direction conformance: records that a standards-conforming PEER may send are built
// independently of /repo's sender (harness code over the Go standard library primitives; every
// key / nonce / additional-data / whole-record byte string is emitted and compared with the Gallina
// model by the driver) and fed to the real Decrypt / Open of the initialised suite:
//   - AES-GCM / AES-CCM with an explicit nonce that is NOT epoch||seq (random 8 bytes, or a counter
//     starting at a random value) - RFC 5288 section 3, RFC 6655 section 3;
//   - CBC with any legal padding length, connection-ID records with zero padding in the inner
//     plaintext, DTLS 1.3 records with 8/16-bit sequence numbers, with/without length, padded.
// Required: success and plaintext equal. Negative controls built the same way with one bit of the
// tag / ciphertext / an authenticated header field / the explicit nonce changed must be rejected.
package ciphersuite

import (
	"bytes"
	"crypto/aes"
	"crypto/cipher"
	"crypto/hmac"
	"crypto/sha1" //nolint:gosec
	"crypto/sha256"
	"encoding/binary"
	"encoding/hex"
	"hash"
	"testing"

	"github.com/pion/dtls/v3/pkg/crypto/ccm"
	"github.com/pion/dtls/v3/pkg/crypto/prf"
	"github.com/pion/dtls/v3/pkg/protocol"
	"github.com/pion/dtls/v3/pkg/protocol/recordlayer"
	"golang.org/x/crypto/chacha20"
	"golang.org/x/crypto/chacha20poly1305"
)

const c10SiteRx = "pkg/crypto/ciphersuite (receive direction)"

func c10Family(id ID, sp c10Suite) string {
	switch sp.kind {
	case c10KindGCM:
		if sp.key == 32 {
			return "AES-256-GCM"
		}

		return "AES-128-GCM"
	case c10KindCCM:
		return "AES-CCM"
	case c10KindCCM8:
		return "AES-CCM-8"
	case c10KindChaCha:
		return "ChaCha20-Poly1305"
	default:
		if sp.macHashCode == 1 {
			return "AES-CBC-SHA"
		}

		return "AES-CBC-SHA256"
	}
}

type c10RxState struct {
	counter uint64 // explicit-nonce counter of the simulated peer (random start)
}

func TestVerifC10Receive12(t *testing.T) {
	r := &c10Rand{s: c10Seed() ^ 0xc1080}
	out := newC10Out(t)
	out.site = c10SiteRx
	per := 6
	if c10Thorough() {
		per = 120
	}
	for id := 0; id <= 0xffff; id++ {
		if ForID(ID(id), nil) == nil || IDSupportsVersion(ID(id), protocol.Version1_3) {
			continue
		}
		sp, ok := c10SuiteParams(ID(id))
		if !ok {
			t.Fatalf("suite %#04x is registered in /repo but unknown to the C10 harness", id)
		}
		st := &c10RxState{counter: r.u64()}
		for k := 0; k < per; k++ {
			c10Receive12(t, r, out, ID(id), sp, st, k%2 == 1, (k/2)%2 == 1, k)
		}
	}
}

//nolint:cyclop,gocyclo
func c10Receive12(
	t *testing.T, r *c10Rand, out *c10Out, id ID, sp c10Suite, st *c10RxState, receiverIsClient, withCID bool, k int,
) {
	t.Helper()
	suite := ForID(id, nil)
	ms, cr, sr := r.bytes(48), r.bytes(32), r.bytes(32)
	if err := suite.Init(ms, cr, sr, receiverIsClient); err != nil {
		t.Fatalf("%v Init: %v", id, err)
	}
	keys, err := prf.GenerateEncryptionKeys(ms, cr, sr, sp.mac, sp.key, sp.iv, suite.HashFunc())
	if err != nil {
		t.Fatal(err)
	}
	// the peer writes with the keys the receiver reads with
	pkey, piv, pmac := keys.ClientWriteKey, keys.ClientWriteIV, keys.ClientMACKey
	if receiverIsClient {
		pkey, piv, pmac = keys.ServerWriteKey, keys.ServerWriteIV, keys.ServerMACKey
	}

	types := []protocol.ContentType{protocol.ContentTypeAlert, protocol.ContentTypeHandshake, protocol.ContentTypeApplicationData}
	hdr := recordlayer.Header{
		Version: protocol.Version1_2, Epoch: c10Epoch(r), SequenceNumber: c10Seq(r),
		ContentType: types[r.intn(len(types))],
	}
	payload := r.bytes(r.intn(40))
	var cid []byte
	if withCID {
		// DTLSInnerPlaintext with zero padding (RFC 9146 section 4)
		inner := &recordlayer.InnerPlaintext{Content: payload, RealType: hdr.ContentType, Zeros: uint(r.intn(9))} //nolint:gosec
		payload, err = inner.Marshal()
		if err != nil {
			t.Fatal(err)
		}
		cid = r.bytes(1 + r.intn(8))
		hdr.ContentType = protocol.ContentTypeConnectionID
		hdr.ConnectionID = cid
	}
	aad := c10AAD(hdr, len(payload))

	// explicit nonce of the peer: never epoch||seq
	var explicit []byte
	nonceMode := ""
	if sp.kind == c10KindGCM || sp.kind == c10KindCCM || sp.kind == c10KindCCM8 {
		explicit = make([]byte, 8)
		if k%3 == 0 {
			nonceMode = "counter (random start)"
			st.counter++
			binary.BigEndian.PutUint64(explicit, st.counter)
		} else {
			nonceMode = "random"
			explicit = r.bytes(8)
		}
		if bytes.Equal(explicit, c10SeqNum(hdr)) {
			explicit[7] ^= 0x80
		}
	}

	var body []byte   // record fragment after the header
	var outs [][]byte // model-compared byte strings
	padLen := 0
	switch sp.kind {
	case c10KindGCM:
		blk, _ := aes.NewCipher(pkey)
		g, _ := cipher.NewGCM(blk)
		nonce := append(append([]byte{}, piv[:4]...), explicit...)
		body = append(bytes.Clone(explicit), g.Seal(nil, nonce, payload, aad)...)
		outs = [][]byte{pkey, piv, nonce, aad}
	case c10KindCCM, c10KindCCM8:
		blk, _ := aes.NewCipher(pkey)
		tagLen := 16
		if sp.kind == c10KindCCM8 {
			tagLen = 8
		}
		c, err := ccm.NewCCM(blk, tagLen, 12) // checked against the model's RFC 3610 CCM (whole record below)
		if err != nil {
			t.Fatal(err)
		}
		nonce := append(append([]byte{}, piv[:4]...), explicit...)
		body = append(bytes.Clone(explicit), c.Seal(nil, nonce, payload, aad)...)
		outs = [][]byte{pkey, piv}
	case c10KindChaCha:
		c, _ := chacha20poly1305.New(pkey)
		nonce := bytes.Clone(piv)
		for i, b := range c10SeqNum(hdr) {
			nonce[4+i] ^= b
		}
		body = c.Seal(nil, nonce, payload, aad)
		outs = [][]byte{pkey, piv, nonce, aad}
	case c10KindCBC:
		var hf func() hash.Hash = sha256.New
		if sp.macHashCode == 1 {
			hf = sha1.New
		}
		// MAC input: seq_num || type || version || length || fragment, resp. (RFC 9146 5.1) the
		// connection-ID additional data || DTLSInnerPlaintext - in both cases "aad || payload"
		in := append(bytes.Clone(aad), payload...)
		m := hmac.New(hf, pmac)
		m.Write(in)
		pt := append(bytes.Clone(payload), m.Sum(nil)...)
		padLen = 15 - len(pt)%16 // minimal padding_length
		if extra := r.intn(4); padLen+16*extra <= 255 {
			padLen += 16 * extra // a peer may pad more (RFC 5246 6.2.3.2)
		}
		for j := 0; j <= padLen; j++ {
			pt = append(pt, byte(padLen))
		}
		explicit = r.bytes(16) // the record IV
		blk, _ := aes.NewCipher(pkey)
		ct := make([]byte, len(pt))
		cipher.NewCBCEncrypter(blk, explicit).CryptBlocks(ct, pt)
		body = append(bytes.Clone(explicit), ct...)
		outs = [][]byte{pmac, pkey}
	}
	hdr.ContentLen = uint16(len(body)) //nolint:gosec
	rawHdr, err := hdr.Marshal()
	if err != nil {
		t.Fatal(err)
	}
	record := append(bytes.Clone(rawHdr), body...)
	switch sp.kind {
	case c10KindGCM, c10KindChaCha:
		outs = append(outs, rawHdr)
	default:
		outs = append(outs, record) // CCM / CBC: the whole record is recomputed by the model
	}

	decrypt := func(rec []byte) (bool, []byte, string) {
		dh := recordlayer.Header{}
		if withCID {
			dh.ConnectionID = make([]byte, len(cid))
		}
		dec, err := suite.Decrypt(dh, bytes.Clone(rec))
		if err != nil {
			return false, nil, err.Error()
		}
		if len(dec) < hdr.Size() {
			return false, nil, "short output"
		}

		return true, dec[hdr.Size():], ""
	}

	family := c10Family(id, sp)
	cl := 0
	if receiverIsClient {
		cl = 1
	}
	nums := []uint64{
		uint64(id), uint64(cl), uint64(hdr.Epoch), hdr.SequenceNumber, uint64(hdr.ContentType), 0xfefd, uint64(padLen), //nolint:gosec
	}
	ins := [][]byte{ms, cr, sr, cid, payload, explicit}
	mkRx := func(want int, control string, rec []byte, ok bool, e string) *c10Rx {
		got := 0
		if ok {
			got = 1
		}

		return &c10Rx{
			Family: family, Suite: id.String(), Want: want, Got: got, Control: control, Err: e,
			Record: hex.EncodeToString(rec), Key: hex.EncodeToString(pkey), IV: hex.EncodeToString(piv),
			MacKey: hex.EncodeToString(pmac), Nonce: nonceMode,
		}
	}

	ok, plain, e := decrypt(record)
	acc := []byte{0}
	if ok && bytes.Equal(plain, payload) {
		acc = []byte{1}
	} else if ok {
		e = "decrypted to a different plaintext"
	}
	variant := ""
	if withCID {
		variant = " cid"
	}
	out.rx = mkRx(1, "", record, acc[0] == 1, e)
	out.emit(80, sp.hashCode, "receive12 "+family+variant, ins, nums, append(outs, acc, plain))

	// negative controls: one bit changed
	controls := []string{"tag", "seq", "epoch"}
	if withCID {
		controls = append(controls, "cid")
	}
	if nonceMode != "" {
		controls = append(controls, "explicit nonce")
	}
	if hdr.ContentType == protocol.ContentTypeApplicationData {
		controls = append(controls, "type")
	}
	for n := 0; n < 2; n++ {
		ctl := controls[(k+n*2+r.intn(2))%len(controls)]
		bad := bytes.Clone(record)
		switch ctl {
		case "tag":
			bad[len(bad)-1] ^= 1 << uint(r.intn(8))
		case "seq":
			bad[5+r.intn(6)] ^= 1 << uint(r.intn(8))
		case "epoch":
			bad[3+r.intn(2)] ^= 1 << uint(r.intn(8))
		case "cid":
			bad[11+r.intn(len(cid))] ^= 1 << uint(r.intn(8))
		case "explicit nonce":
			bad[hdr.Size()+r.intn(8)] ^= 1 << uint(r.intn(8))
		case "type":
			bad[0] = byte(protocol.ContentTypeHandshake) // 23 -> 22: authenticated content type
		}
		ok, plain, e := decrypt(bad)
		acc := []byte{0}
		if ok {
			acc = []byte{1}
			_ = plain
		}
		out.rx = mkRx(0, ctl, bad, ok, e)
		out.emit(82, sp.hashCode, "receive12 negative control "+family+variant, nil, nil, [][]byte{acc})
	}
	out.rx = nil
}

func TestVerifC10Receive13(t *testing.T) {
	r := &c10Rand{s: c10Seed() ^ 0xc1081}
	out := newC10Out(t)
	out.site = c10SiteRx
	per := 12
	if c10Thorough() {
		per = 300
	}
	for _, id := range []ID{TLS_AES_128_GCM_SHA256, TLS_AES_256_GCM_SHA384, TLS_CHACHA20_POLY1305_SHA256} {
		suite, ok := ForID(id, nil).(CipherSuiteTLS13)
		if !ok {
			t.Fatalf("%v is not a TLS 1.3 suite", id)
		}
		hcode, keyLen := 256, 16
		family := "TLS13-AES-128-GCM"
		if id == TLS_AES_256_GCM_SHA384 {
			hcode, keyLen, family = 384, 32, "TLS13-AES-256-GCM"
		}
		if id == TLS_CHACHA20_POLY1305_SHA256 {
			keyLen, family = 32, "TLS13-ChaCha20-Poly1305"
		}
		for k := 0; k < per; k++ {
			secret := r.bytes(suite.HashFunc()().Size())
			keys, err := deriveRecordTrafficKeys13(suite.HashFunc(), secret, keyLen) // compared with the model below
			if err != nil {
				t.Fatal(err)
			}
			rp, err := suite.NewRecordProtection(secret)
			if err != nil {
				t.Fatal(err)
			}
			seq := r.u64()
			if k%4 == 0 {
				seq = uint64(r.intn(70000)) //nolint:gosec
			}
			seqBit, lenBit := k%2 == 0, (k/2)%2 == 0
			var cid []byte
			if (k/4)%2 == 1 {
				cid = r.bytes(1 + r.intn(8))
			}
			epochLow := uint8(r.intn(4)) //nolint:gosec
			cts := []protocol.ContentType{
				protocol.ContentTypeAlert, protocol.ContentTypeHandshake,
				protocol.ContentTypeApplicationData, protocol.ContentTypeACK,
			}
			ct := cts[r.intn(len(cts))]
			plaintext := r.bytes(r.intn(40))
			zeros := 0
			if r.intn(2) == 0 {
				zeros = r.intn(12)
			}
			inner := append(append(bytes.Clone(plaintext), byte(ct)), make([]byte, zeros)...)

			var aead cipher.AEAD
			if id == TLS_CHACHA20_POLY1305_SHA256 {
				aead, _ = chacha20poly1305.New(keys.key)
			} else {
				blk, _ := aes.NewCipher(keys.key)
				aead, _ = cipher.NewGCM(blk)
			}
			wireSeq := uint16(seq) //nolint:gosec
			if !seqBit {
				wireSeq &= 0xff
			}
			clear := recordlayer.UnifiedHeader{
				ConnectionID: cid, EpochLow: epochLow, SeqBit: seqBit, LengthBit: lenBit,
				SequenceNumber: wireSeq, Length: uint16(len(inner) + aead.Overhead()), //nolint:gosec
			}
			aad, err := clear.Marshal()
			if err != nil {
				t.Fatal(err)
			}
			nonce := bytes.Clone(keys.iv)
			for i := 0; i < 8; i++ {
				nonce[4+i] ^= byte(seq >> (56 - 8*i))
			}
			enc := aead.Seal(nil, nonce, inner, aad)
			mask := make([]byte, 16)
			if id == TLS_CHACHA20_POLY1305_SHA256 {
				c, err := chacha20.NewUnauthenticatedCipher(keys.sequenceNumberKey, enc[4:16])
				if err != nil {
					t.Fatal(err)
				}
				c.SetCounter(binary.LittleEndian.Uint32(enc[:4]))
				c.XORKeyStream(mask, mask)
			} else {
				sblk, _ := aes.NewCipher(keys.sequenceNumberKey)
				sblk.Encrypt(mask, enc[:16])
			}
			wire := clear
			if seqBit {
				wire.SequenceNumber ^= uint16(mask[0])<<8 | uint16(mask[1])
			} else {
				wire.SequenceNumber = (wire.SequenceNumber ^ uint16(mask[0])) & 0xff
			}
			wireHdr, err := wire.Marshal()
			if err != nil {
				t.Fatal(err)
			}
			open := func(h recordlayer.UnifiedHeader, s uint64, e []byte) (bool, recordlayer.InnerPlaintext, string) {
				ip, err := rp.Open(h, s, bytes.Clone(e))
				if err != nil {
					return false, ip, err.Error()
				}

				return true, ip, ""
			}
			mkRx := func(want int, control string, rec []byte, ok bool, e string) *c10Rx {
				got := 0
				if ok {
					got = 1
				}

				return &c10Rx{
					Family: family, Suite: id.String(), Want: want, Got: got, Control: control, Err: e,
					Record: hex.EncodeToString(rec), Key: hex.EncodeToString(keys.key), IV: hex.EncodeToString(keys.iv),
				}
			}
			b2 := func(b bool) uint64 {
				if b {
					return 1
				}

				return 0
			}
			ok2, ip, e := open(wire, seq, enc)
			acc := []byte{0}
			if ok2 && bytes.Equal(ip.Content, plaintext) && ip.RealType == ct {
				acc = []byte{1}
			} else if ok2 {
				e = "opened to a different plaintext / content type"
			}
			out.rx = mkRx(1, "", append(bytes.Clone(wireHdr), enc...), acc[0] == 1, e)
			out.emit(81, hcode, "receive13 "+family, [][]byte{secret, cid, plaintext, mask},
				[]uint64{uint64(id), uint64(epochLow), seq, uint64(ct), uint64(aead.Overhead()), b2(seqBit), b2(lenBit), uint64(zeros)}, //nolint:gosec
				[][]byte{keys.key, keys.iv, keys.sequenceNumberKey, nonce, aad, inner, wireHdr, acc, ip.Content})

			for n, ctl := range []string{"tag", []string{"epoch", "sequence number high bits", "ciphertext"}[k%3]} {
				_ = n
				h, s, e2 := wire, seq, bytes.Clone(enc)
				switch ctl {
				case "tag":
					e2[len(e2)-1] ^= 1 << uint(r.intn(8))
				case "ciphertext":
					e2[16+r.intn(len(e2)-16)] ^= 1 << uint(r.intn(8)) // beyond the mask sample
				case "epoch":
					h.EpochLow ^= 1 + uint8(r.intn(3)) //nolint:gosec
				case "sequence number high bits":
					s ^= 1 << uint(16+r.intn(48)) // same low bits, different record number
				}
				okc, _, ec := open(h, s, e2)
				accc := []byte{0}
				if okc {
					accc = []byte{1}
				}
				hb, _ := h.Marshal()
				out.rx = mkRx(0, ctl, append(hb, e2...), okc, ec)
				out.emit(82, hcode, "receive13 negative control "+family, nil, nil, [][]byte{accc})
			}
			out.rx = nil
		}
	}
}
