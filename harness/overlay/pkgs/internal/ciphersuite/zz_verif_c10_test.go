//go:build verif

// C10 correspondence harness for internal/ciphersuite: for EVERY registered DTLS 1.2 suite the real
// Init (key-block lengths, client/server key selection) followed by Encrypt, and for every DTLS 1.3
// suite the real record protection (traffic keys, nonce, additional data, inner plaintext,
// sequence-number encryption). Go's AES-GCM / AES block / ChaCha20(-Poly1305) are used only as
// primitive oracles on (key, nonce, additional data) that the driver compares with the model.
package ciphersuite

import (
	"bytes"
	"crypto/aes"
	"crypto/cipher"
	"encoding/binary"
	"testing"

	"github.com/pion/dtls/v3/pkg/crypto/ccm"
	"github.com/pion/dtls/v3/pkg/crypto/prf"
	"github.com/pion/dtls/v3/pkg/protocol"
	"github.com/pion/dtls/v3/pkg/protocol/recordlayer"
	"golang.org/x/crypto/chacha20"
	"golang.org/x/crypto/chacha20poly1305"
)

const (
	c10KindGCM = iota
	c10KindCCM
	c10KindCCM8
	c10KindChaCha
	c10KindCBC
)

// harness-side parameters per suite, used only to drive the primitive oracle; the keys, nonce and
// additional data derived from them are emitted and compared with the model's own (RFC) table.
type c10Suite struct {
	kind          int
	mac, key, iv  int
	hashCode      int // PRF hash
	macHashCode   int
}

func c10SuiteParams(id ID) (c10Suite, bool) {
	switch id {
	case TLS_ECDHE_ECDSA_WITH_AES_128_GCM_SHA256, TLS_ECDHE_RSA_WITH_AES_128_GCM_SHA256, TLS_PSK_WITH_AES_128_GCM_SHA256:
		return c10Suite{c10KindGCM, 0, 16, 4, 256, 0}, true
	case TLS_ECDHE_ECDSA_WITH_AES_256_GCM_SHA384, TLS_ECDHE_RSA_WITH_AES_256_GCM_SHA384:
		return c10Suite{c10KindGCM, 0, 32, 4, 384, 0}, true
	case TLS_ECDHE_ECDSA_WITH_AES_128_CCM, TLS_PSK_WITH_AES_128_CCM:
		return c10Suite{c10KindCCM, 0, 16, 4, 256, 0}, true
	case TLS_ECDHE_ECDSA_WITH_AES_128_CCM_8, TLS_PSK_WITH_AES_128_CCM_8:
		return c10Suite{c10KindCCM8, 0, 16, 4, 256, 0}, true
	case TLS_PSK_WITH_AES_256_CCM_8:
		return c10Suite{c10KindCCM8, 0, 32, 4, 256, 0}, true
	case TLS_ECDHE_ECDSA_WITH_CHACHA20_POLY1305_SHA256, TLS_ECDHE_RSA_WITH_CHACHA20_POLY1305_SHA256,
		TLS_PSK_WITH_CHACHA20_POLY1305_SHA256:
		return c10Suite{c10KindChaCha, 0, 32, 12, 256, 0}, true
	case TLS_ECDHE_ECDSA_WITH_AES_256_CBC_SHA, TLS_ECDHE_RSA_WITH_AES_256_CBC_SHA:
		return c10Suite{c10KindCBC, 20, 32, 16, 256, 1}, true
	case TLS_PSK_WITH_AES_128_CBC_SHA256, TLS_ECDHE_PSK_WITH_AES_128_CBC_SHA256:
		return c10Suite{c10KindCBC, 32, 16, 16, 256, 256}, true
	}

	return c10Suite{}, false
}

func c10Epoch(r *c10Rand) uint16 {
	switch r.intn(5) {
	case 0:
		return 1
	case 1:
		return 0xffff
	default:
		return uint16(r.u64()) //nolint:gosec
	}
}

func c10Seq(r *c10Rand) uint64 {
	switch r.intn(5) {
	case 0:
		return 0
	case 1:
		return recordlayer.MaxSequenceNumber
	default:
		return r.u64() & recordlayer.MaxSequenceNumber
	}
}

func c10SeqNum(h recordlayer.Header) []byte {
	var s [8]byte
	binary.BigEndian.PutUint64(s[:], h.SequenceNumber)
	binary.BigEndian.PutUint16(s[:], h.Epoch)

	return s[:]
}

func c10AAD(h recordlayer.Header, payloadLen int) []byte {
	var b []byte
	if h.ContentType == protocol.ContentTypeConnectionID {
		b = append(b, 0xff, 0xff, 0xff, 0xff, 0xff, 0xff, 0xff, 0xff, 25, byte(len(h.ConnectionID)), 25,
			h.Version.Major, h.Version.Minor)
		b = append(b, c10SeqNum(h)...)
		b = append(b, h.ConnectionID...)

		return binary.BigEndian.AppendUint16(b, uint16(payloadLen)) //nolint:gosec
	}
	b = append(b, c10SeqNum(h)...)
	b = append(b, byte(h.ContentType), h.Version.Major, h.Version.Minor)

	return binary.BigEndian.AppendUint16(b, uint16(payloadLen)) //nolint:gosec
}

func TestVerifC10Suites12(t *testing.T) {
	r := &c10Rand{s: c10Seed() ^ 0xc1012}
	out := newC10Out(t)
	per := 4
	if c10Thorough() {
		per = 150
	}
	covered := 0
	for id := 0; id <= 0xffff; id++ {
		if ForID(ID(id), nil) == nil || IDSupportsVersion(ID(id), protocol.Version1_3) {
			continue
		}
		sp, ok := c10SuiteParams(ID(id))
		if !ok {
			t.Fatalf("suite %#04x is registered in /repo but unknown to the C10 harness", id)
		}
		covered++
		for k := 0; k < per; k++ {
			c10OneSuite12(t, r, out, ID(id), sp, k%2 == 1, (k/2)%2 == 1)
		}
	}
	if covered == 0 {
		t.Fatal("no suites")
	}
}

func c10OneSuite12(t *testing.T, r *c10Rand, out *c10Out, id ID, sp c10Suite, isClient, withCID bool) {
	t.Helper()
	suite := ForID(id, nil)
	ms, cr, sr := r.bytes(48), r.bytes(32), r.bytes(32)
	if err := suite.Init(ms, cr, sr, isClient); err != nil {
		t.Fatalf("%v Init: %v", id, err)
	}
	keys, err := prf.GenerateEncryptionKeys(ms, cr, sr, sp.mac, sp.key, sp.iv, suite.HashFunc())
	if err != nil {
		t.Fatal(err)
	}
	wkey, wiv, wmac := keys.ServerWriteKey, keys.ServerWriteIV, keys.ServerMACKey
	if isClient {
		wkey, wiv, wmac = keys.ClientWriteKey, keys.ClientWriteIV, keys.ClientMACKey
	}

	types := []protocol.ContentType{protocol.ContentTypeAlert, protocol.ContentTypeHandshake, protocol.ContentTypeApplicationData}
	hdr := recordlayer.Header{
		Version: protocol.Version1_2, Epoch: c10Epoch(r), SequenceNumber: c10Seq(r),
		ContentType: types[r.intn(len(types))],
	}
	payload := r.bytes(r.intn(33))
	var cid []byte
	if withCID {
		inner := &recordlayer.InnerPlaintext{Content: payload, RealType: hdr.ContentType, Zeros: uint(r.intn(4))} //nolint:gosec
		payload, err = inner.Marshal()
		if err != nil {
			t.Fatal(err)
		}
		cid = r.bytes(1 + r.intn(8))
		hdr.ContentType = protocol.ContentTypeConnectionID
		hdr.ConnectionID = cid
	}
	hdr.ContentLen = uint16(len(payload)) //nolint:gosec
	rawHdr, err := hdr.Marshal()
	if err != nil {
		t.Fatal(err)
	}
	got, err := suite.Encrypt(&recordlayer.RecordLayer{Header: hdr}, append(rawHdr, payload...))
	if err != nil {
		t.Fatalf("%v Encrypt: %v", id, err)
	}
	hs := hdr.Size()
	cl := 0
	if isClient {
		cl = 1
	}
	nums := []uint64{
		uint64(id), uint64(cl), uint64(hdr.Epoch), hdr.SequenceNumber, uint64(hdr.ContentType), 0xfefd,
	}
	ins := [][]byte{ms, cr, sr, cid, payload}
	tag := "suite12 " + id.String()
	fail := func() { out.note = "primitive oracle could not open the record with the prescribed key / nonce / additional data" }

	switch sp.kind {
	case c10KindGCM, c10KindCCM, c10KindCCM8:
		blk, _ := aes.NewCipher(wkey)
		var oracle cipher.AEAD
		tagLen := 16
		switch sp.kind {
		case c10KindGCM:
			oracle, _ = cipher.NewGCM(blk)
		case c10KindCCM:
			oracle, _ = ccm.NewCCM(blk, 16, 12)
		default:
			tagLen = 8
			oracle, _ = ccm.NewCCM(blk, 8, 12)
		}
		nonce := append(append([]byte{}, wiv[:4]...), c10SeqNum(hdr)...)
		aad := c10AAD(hdr, len(payload))
		opened, err := oracle.Open(nil, nonce, got[hs+8:], aad)
		if err != nil || !bytes.Equal(opened, payload) {
			nonce, aad = nil, nil
			fail()
		}
		_ = tagLen
		out.emit(70, sp.hashCode, tag, ins, nums, [][]byte{wkey, wiv, nonce, aad, got[:hs], got[hs : hs+8]})
	case c10KindChaCha:
		oracle, _ := chacha20poly1305.New(wkey)
		nonce := bytes.Clone(wiv)
		for i, b := range c10SeqNum(hdr) {
			nonce[4+i] ^= b
		}
		aad := c10AAD(hdr, len(payload))
		opened, err := oracle.Open(nil, nonce, got[hs:], aad)
		if err != nil || !bytes.Equal(opened, payload) {
			nonce, aad = nil, nil
			fail()
		}
		out.emit(70, sp.hashCode, tag, ins, nums, [][]byte{wkey, wiv, nonce, aad, got[:hs]})
	case c10KindCBC:
		body := got[hs:]
		blk, _ := aes.NewCipher(wkey)
		plain := make([]byte, len(body)-16)
		cipher.NewCBCDecrypter(blk, body[:16]).CryptBlocks(plain, body[16:])
		// connection-ID records: MAC input strictly per RFC 9146 section 5.1
		out.emit(71, sp.hashCode, tag, ins, nums, [][]byte{wmac, wkey, plain, got[:hs]})
	}
	out.note = ""
}

func TestVerifC10Record13(t *testing.T) {
	r := &c10Rand{s: c10Seed() ^ 0xc1013}
	out := newC10Out(t)
	per := 15
	if c10Thorough() {
		per = 400
	}
	ids := []ID{TLS_AES_128_GCM_SHA256, TLS_AES_256_GCM_SHA384, TLS_CHACHA20_POLY1305_SHA256}
	n13 := 0
	for id := 0; id <= 0xffff; id++ {
		if ForID(ID(id), nil) != nil && IDSupportsVersion(ID(id), protocol.Version1_3) {
			n13++
		}
	}
	if n13 != len(ids) {
		t.Fatalf("%d DTLS 1.3 suites registered, harness knows %d", n13, len(ids))
	}
	for _, id := range ids {
		suite, ok := ForID(id, nil).(CipherSuiteTLS13)
		if !ok {
			t.Fatalf("%v is not a TLS 1.3 suite", id)
		}
		hcode, keyLen := 256, 16
		if id == TLS_AES_256_GCM_SHA384 {
			hcode, keyLen = 384, 32
		}
		if id == TLS_CHACHA20_POLY1305_SHA256 {
			keyLen = 32
		}
		hl := suite.HashFunc()().Size()
		for k := 0; k < per; k++ {
			secret := r.bytes(hl)
			keys, err := deriveRecordTrafficKeys13(suite.HashFunc(), secret, keyLen)
			if err != nil {
				t.Fatal(err)
			}
			out.emit(50, hcode, "deriveRecordTrafficKeys13", [][]byte{secret}, c10U(keyLen),
				[][]byte{keys.key, keys.iv, keys.sequenceNumberKey})

			var seq uint64
			switch r.intn(5) {
			case 0:
				seq = 0
			case 1:
				seq = ^uint64(0)
			case 2:
				seq = uint64(r.intn(70000)) //nolint:gosec
			default:
				seq = r.u64()
			}
			nonce, err := recordNonce13(keys.iv, seq)
			if err != nil {
				t.Fatal(err)
			}
			out.emit(51, hcode, "recordNonce13", [][]byte{keys.iv}, []uint64{seq}, [][]byte{nonce})

			// mask application on both header forms
			mask := r.bytes(16)
			for _, sb := range []bool{true, false} {
				h := recordlayer.UnifiedHeader{SeqBit: sb, SequenceNumber: uint16(r.u64())} //nolint:gosec
				if !sb {
					h.SequenceNumber &= 0xff
				}
				before := h.SequenceNumber
				if err := applySequenceNumberMask13(&h, mask); err != nil {
					t.Fatal(err)
				}
				sbn := 0
				if sb {
					sbn = 1
				}
				out.emit(52, hcode, "applySequenceNumberMask13", [][]byte{mask}, c10U(sbn, int(before)),
					[][]byte{{byte(h.SequenceNumber >> 8), byte(h.SequenceNumber)}})
			}

			// full record
			rp, err := suite.NewRecordProtection(secret)
			if err != nil {
				t.Fatal(err)
			}
			var cid []byte
			if r.intn(2) == 0 {
				cid = r.bytes(1 + r.intn(8))
			}
			epochLow := uint8(r.intn(4)) //nolint:gosec
			cts := []protocol.ContentType{
				protocol.ContentTypeAlert, protocol.ContentTypeHandshake,
				protocol.ContentTypeApplicationData, protocol.ContentTypeACK,
			}
			ct := cts[r.intn(len(cts))]
			plaintext := r.bytes(r.intn(40))
			rec, err := rp.Seal(recordlayer.UnifiedHeader{ConnectionID: cid, EpochLow: epochLow}, seq, ct, plaintext)
			if err != nil {
				t.Fatal(err)
			}
			// oracle: additional data = header with the clear low 16 bits, S and L set
			clear := recordlayer.UnifiedHeader{
				ConnectionID: cid, EpochLow: epochLow, SeqBit: true, LengthBit: true,
				SequenceNumber: uint16(seq), Length: uint16(len(rec.EncryptedRecord)), //nolint:gosec
			}
			aad, err := clear.Marshal()
			if err != nil {
				t.Fatal(err)
			}
			hn := bytes.Clone(keys.iv)
			for i := 0; i < 8; i++ {
				hn[4+i] ^= byte(seq >> (56 - 8*i))
			}
			var oracle cipher.AEAD
			var snMask []byte
			if id == TLS_CHACHA20_POLY1305_SHA256 {
				oracle, _ = chacha20poly1305.New(keys.key)
				c, err := chacha20.NewUnauthenticatedCipher(keys.sequenceNumberKey, rec.EncryptedRecord[4:16])
				if err != nil {
					t.Fatal(err)
				}
				c.SetCounter(binary.LittleEndian.Uint32(rec.EncryptedRecord[:4]))
				snMask = make([]byte, 16)
				c.XORKeyStream(snMask, snMask)
			} else {
				blk, _ := aes.NewCipher(keys.key)
				oracle, _ = cipher.NewGCM(blk)
				sblk, _ := aes.NewCipher(keys.sequenceNumberKey)
				snMask = make([]byte, 16)
				sblk.Encrypt(snMask, rec.EncryptedRecord[:16])
			}
			inner, err := oracle.Open(nil, hn, rec.EncryptedRecord, aad)
			if err != nil {
				hn, aad, inner = nil, nil, nil
				out.note = "primitive oracle could not open the record with the prescribed key / nonce / additional data"
			}
			wireHdr, err := rec.Header.Marshal()
			if err != nil {
				t.Fatal(err)
			}
			out.emit(53, hcode, "RecordProtection13.Seal "+id.String(), [][]byte{secret, cid, plaintext, snMask},
				[]uint64{uint64(id), uint64(epochLow), seq, uint64(ct), uint64(oracle.Overhead())}, //nolint:gosec
				[][]byte{keys.key, keys.iv, keys.sequenceNumberKey, hn, aad, inner, wireHdr})
			out.note = ""

			// and the library opens its own record
			ip, err := rp.Open(rec.Header, seq, rec.EncryptedRecord)
			if err != nil || !bytes.Equal(ip.Content, plaintext) || ip.RealType != ct {
				t.Fatalf("%v: library does not open its own 1.3 record: %v", id, err)
			}
		}
	}
}
