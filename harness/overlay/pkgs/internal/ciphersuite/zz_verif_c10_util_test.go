//go:build verif

// C10 harness helpers (one copy per package under test: in-package tests cannot share code
// across packages). Deterministic PRNG seeded from VERIF_SEED, JSON-lines emitter.
package ciphersuite

import (
	"encoding/hex"
	"encoding/json"
	"fmt"
	"os"
	"testing"
)

type c10Rand struct{ s uint64 }

func (r *c10Rand) u64() uint64 {
	r.s += 0x9e3779b97f4a7c15
	z := r.s
	z = (z ^ (z >> 30)) * 0xbf58476d1ce4e5b9
	z = (z ^ (z >> 27)) * 0x94d049bb133111eb

	return z ^ (z >> 31)
}

func (r *c10Rand) intn(n int) int {
	if n <= 0 {
		return 0
	}

	return int(r.u64() % uint64(n))
}

func (r *c10Rand) bytes(n int) []byte {
	b := make([]byte, n)
	for i := range b {
		b[i] = byte(r.u64())
	}

	return b
}

func c10Seed() uint64 {
	var s uint64 = 1
	if v := os.Getenv("VERIF_SEED"); v != "" {
		fmt.Sscanf(v, "%d", &s)
	}

	return s
}

func c10Thorough() bool { return os.Getenv("VERIF_TIER") == "thorough" }

type c10Case struct {
	Fn   int      `json:"fn"`
	H    int      `json:"h"`
	In   []string `json:"in"`
	N    []uint64 `json:"n"`
	Out  []string `json:"out"`
	Tag  string   `json:"tag,omitempty"`
	Site string   `json:"site,omitempty"`
	Note string   `json:"note,omitempty"`
	// Expect: regression corpus cases carry the recorded RFC value; the driver checks out[0] against it
	Expect string `json:"expect,omitempty"`
	// Rx: receive-direction cases (a record built independently per RFC was fed to Decrypt / Open)
	Rx *c10Rx `json:"rx,omitempty"`
}

// c10Rx describes one receive-direction observation for the driver's monitor and the replay file.
type c10Rx struct {
	Family  string `json:"family"`            // suite family
	Suite   string `json:"suite"`             // suite name
	Want    int    `json:"want"`              // 1: conforming record, must be accepted; 0: negative control
	Got     int    `json:"got"`               // what Decrypt / Open did
	Control string `json:"control,omitempty"` // which bit was changed (negative controls)
	Err     string `json:"err,omitempty"`
	Record  string `json:"record"`            // the record fed to the receiver (hex)
	Key     string `json:"key"`               // peer write key
	IV      string `json:"iv,omitempty"`      // peer write IV
	MacKey  string `json:"mac_key,omitempty"` // peer MAC key (CBC)
	Nonce   string `json:"nonce_mode,omitempty"`
}

type c10Out struct {
	rx     *c10Rx
	f      *os.File
	site   string
	note   string
	expect string
}

func newC10Out(t *testing.T) *c10Out {
	t.Helper()
	p := os.Getenv("VERIF_OUT")
	if p == "" {
		p = os.DevNull
	}
	f, err := os.Create(p)
	if err != nil {
		t.Fatalf("VERIF_OUT: %v", err)
	}
	t.Cleanup(func() { _ = f.Close() })

	return &c10Out{f: f}
}

func (o *c10Out) emit(fn, h int, tag string, in [][]byte, n []uint64, out [][]byte) {
	c := c10Case{Fn: fn, H: h, Tag: tag, N: n, In: []string{}, Out: []string{}, Site: o.site, Note: o.note, Expect: o.expect, Rx: o.rx}
	if c.N == nil {
		c.N = []uint64{}
	}
	for _, b := range in {
		c.In = append(c.In, hex.EncodeToString(b))
	}
	for _, b := range out {
		c.Out = append(c.Out, hex.EncodeToString(b))
	}
	b, err := json.Marshal(c)
	if err != nil {
		panic(err)
	}
	_, _ = o.f.Write(append(b, '\n'))
}

func c10U(v ...int) []uint64 {
	out := make([]uint64, len(v))
	for i, x := range v {
		out[i] = uint64(x) //nolint:gosec
	}

	return out
}
