//go:build verif

// rec13 - pure-function correspondence for the unexported record-number helpers of
// tls_13_record_protection.go: applySequenceNumberMask13, validateSequenceNumberLowBits13,
// recordNonce13 (compared with Rec/Rec13.v apply_mask, lowbits_ok, nonce13).
package ciphersuite

import (
	"encoding/hex"
	"encoding/json"
	"fmt"
	"os"
	"testing"

	"github.com/pion/dtls/v3/pkg/protocol/recordlayer"
)

type rec13Rand struct{ s uint64 }

func (r *rec13Rand) u64() uint64 {
	r.s += 0x9e3779b97f4a7c15
	z := r.s
	z = (z ^ (z >> 30)) * 0xbf58476d1ce4e5b9
	z = (z ^ (z >> 27)) * 0x94d049bb133111eb

	return z ^ (z >> 31)
}

func (r *rec13Rand) intn(n int) int { return int(r.u64() % uint64(n)) }

type rec13U struct {
	K  string   `json:"k"`
	N  []uint64 `json:"n"`
	B  []string `json:"b"`
	Ok bool     `json:"ok"`
	RN []uint64 `json:"rn"`
	RB []string `json:"rb"`
}

func rec13B(b bool) uint64 {
	if b {
		return 1
	}

	return 0
}

func TestVerifRec13PureCS(t *testing.T) {
	p := os.Getenv("VERIF_OUT")
	if p == "" {
		p = os.DevNull
	}
	f, err := os.Create(p)
	if err != nil {
		t.Fatal(err)
	}
	defer f.Close()
	emit := func(c rec13U) {
		if c.N == nil {
			c.N = []uint64{}
		}
		if c.B == nil {
			c.B = []string{}
		}
		if c.RN == nil {
			c.RN = []uint64{}
		}
		if c.RB == nil {
			c.RB = []string{}
		}
		b, _ := json.Marshal(c)
		f.Write(append(b, '\n'))
	}
	var seed uint64 = 1
	if v := os.Getenv("VERIF_SEED"); v != "" {
		fmt.Sscanf(v, "%d", &seed)
	}
	rng := &rec13Rand{s: seed ^ 0x13c5}
	n := 400
	if os.Getenv("VERIF_TIER") == "thorough" {
		n = 6000
	}
	edge16 := []uint64{0, 1, 0x7f, 0x80, 0xff, 0x100, 0x7fff, 0x8000, 0xfffe, 0xffff}
	// mask application
	for i := 0; i < n; i++ {
		seq := edge16[rng.intn(len(edge16))]
		if i%2 == 0 {
			seq = rng.u64() & 0xffff
		}
		sbit := rng.intn(2) == 1
		if !sbit && rng.intn(4) != 0 {
			seq &= 0xff
		}
		m0, m1 := byte(rng.u64()), byte(rng.u64())
		h := recordlayer.UnifiedHeader{SequenceNumber: uint16(seq), SeqBit: sbit}
		err := applySequenceNumberMask13(&h, []byte{m0, m1, byte(rng.u64())})
		emit(rec13U{K: "mask", N: []uint64{seq, rec13B(sbit), uint64(m0), uint64(m1)}, Ok: err == nil, RN: []uint64{uint64(h.SequenceNumber)}})
	}
	// low-bits validation
	for i := 0; i < n; i++ {
		q := rng.u64()
		switch rng.intn(4) {
		case 0:
			q &= 0xffffff
		case 1:
			q = ^uint64(0) - uint64(rng.intn(70000))
		}
		sbit := rng.intn(2) == 1
		var seq uint64
		switch rng.intn(3) {
		case 0:
			seq = q & 0xffff
		case 1:
			seq = q & 0xff
		default:
			seq = rng.u64() & 0xffff
		}
		h := recordlayer.UnifiedHeader{SequenceNumber: uint16(seq), SeqBit: sbit}
		err := validateSequenceNumberLowBits13(h, q)
		emit(rec13U{K: "low", N: []uint64{seq, rec13B(sbit), q}, Ok: err == nil})
	}
	// nonce
	for i := 0; i < n/2; i++ {
		iv := make([]byte, 12)
		for j := range iv {
			iv[j] = byte(rng.u64())
		}
		if i%17 == 0 {
			iv = iv[:rng.intn(12)]
		}
		q := rng.u64()
		if i%3 == 0 {
			q &= 0xffffffffffff
		}
		if i%5 == 0 {
			q = uint64(i)
		}
		nonce, err := recordNonce13(iv, q)
		emit(rec13U{K: "nonce", N: []uint64{q}, B: []string{hex.EncodeToString(iv)}, Ok: err == nil, RB: []string{hex.EncodeToString(nonce)}})
	}
}
