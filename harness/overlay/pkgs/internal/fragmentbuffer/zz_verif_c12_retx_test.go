//go:build verif

package fragmentbuffer

import "encoding/hex"

// C12 leg "retx": retransmission-heavy honest histories. A flight of 2..3 handshake messages of
// 100..400 fragments each (MTU 1..10, fewer than 1000 distinct fragments in all, so the history stays
// inside the fixed buffering limits) is transmitted 3..12 times. A few fragments (mostly of the first
// message) are lost in every transmission but the last, a few more at random; whatever was already
// received arrives again as a plain duplicate. 1000..5000 pushed records per history. What is held at
// any time is at most the distinct fragments, so no Push may be refused and every message must be
// delivered once, in order, as soon as its last fragment is in.

type c12Retx struct {
	Trans int        `json:"transmissions"`
	Order string     `json:"order"` // sequential: message after message; alternating: fragment i of every message, then i+1
	Frags []int      `json:"frags"` // fragments per message (sender's partition at msgs[i].mtu)
	Lost  [][][2]int `json:"lost"`  // per transmission: (message, fragment index) that did not arrive
}

func c12RetxCase(r *c12Rand, id int, fixed bool) c12Case {
	d := &c12Driver{fb: New(), small: true}
	var per [][]c12Frag
	add := func(mtu, nf int) {
		n := mtu*(nf-1) + 1 + r.intn(mtu)
		if fixed {
			n = mtu * nf
		}
		m := c12Msg{Ty: []int{1, 2, 11, 12, 13, 16}[r.intn(6)], Seq: len(d.msgs), Len: n, Mtu: mtu, body: r.bytes(n)}
		m.Body = hex.EncodeToString(m.body)
		d.msgs = append(d.msgs, m)
		per = append(per, c12Split(m, mtu))
	}
	sx := &c12Retx{Order: "sequential"}
	persistent := [][2]int{{0, 0}}
	if fixed {
		// the shape of a lossy handshake at a tiny MTU: 2000 bytes at MTU 10, the first fragment lost in
		// five transmissions of the flight, the sixth arrives whole
		add(10, 200)
		add(10, 200)
		sx.Trans = 6
	} else {
		add(1+r.intn(10), 100+r.intn(301))
		add(1+r.intn(10), 100+r.intn(301))
		if left := 950 - len(per[0]) - len(per[1]); left >= 100 && r.chance(35) {
			if left > 400 {
				left = 400
			}
			add(1+r.intn(10), 100+r.intn(left-99))
		}
		sum := 0
		for _, p := range per {
			sum += len(p)
		}
		lo, hi := (1000+sum-1)/sum, 5000/sum
		if lo < 3 {
			lo = 3
		}
		if hi > 12 {
			hi = 12
		}
		sx.Trans = lo + r.intn(hi-lo+1)
		if r.chance(50) {
			sx.Order = "alternating"
		}
		// the fragments that keep getting lost: 1..3, in the first message three times out of four
		persistent = nil
		for k, n := 0, 1+r.intn(3); k < n; k++ {
			s := 0
			if k > 0 || r.chance(25) {
				s = r.intn(len(per))
			}
			persistent = append(persistent, [2]int{s, r.intn(len(per[s]))})
		}
	}
	for _, p := range per {
		sx.Frags = append(sx.Frags, len(p))
	}
	for t := 0; t < sx.Trans; t++ {
		lost := map[[2]int]bool{}
		lostList := [][2]int{}
		if t < sx.Trans-1 {
			for _, p := range persistent {
				if !lost[p] {
					lost[p] = true
					lostList = append(lostList, p)
				}
			}
			if !fixed {
				for s := range per {
					for i := range per[s] {
						if k := [2]int{s, i}; !lost[k] && r.intn(200) == 0 {
							lost[k] = true
							lostList = append(lostList, k)
						}
					}
				}
			}
		}
		sx.Lost = append(sx.Lost, lostList)
		send := func(s, i int) {
			if i < len(per[s]) && !lost[[2]int{s, i}] {
				d.push(c12Rec{Kind: "hs", Ep: 0, Frags: []c12Frag{per[s][i]}})
			}
		}
		if sx.Order == "sequential" {
			for s := range per {
				for i := range per[s] {
					send(s, i)
				}
			}
		} else {
			longest := 0
			for s := range per {
				if len(per[s]) > longest {
					longest = len(per[s])
				}
			}
			for i := 0; i < longest; i++ {
				for s := range per {
					send(s, i)
				}
			}
		}
	}
	note := "generated"
	if fixed {
		note = "2000 bytes at MTU 10, first fragment lost in 5 transmissions, next message behind it"
	}

	return c12Case{Leg: "retx", ID: id, Note: note, Honest: true, OnePar: true, Msgs: d.msgs, Ops: d.ops, Retx: sx}
}

func c12RetxCases(r *c12Rand, emit func(c12Case)) {
	emit(c12RetxCase(r, -1, true))
	n := 5
	if c12Thorough() {
		n = 29
	}
	for i := 0; i < n; i++ {
		emit(c12RetxCase(r, i, false))
	}
}
