//go:build verif

package fragmentbuffer

// C12 correspondence harness (in-package): drives the real FragmentBuffer exactly as
// conn.go bufferHandshakeRecord does (Push; when err == nil && isHandshake, Pop until nil) on
// generated histories and prints one JSON line per history to VERIF_OUT. Record payloads are
// encoded here by hand (not with the library's Marshal) so that the structural description sent
// to the Coq model and the bytes given to Push are tied by this file only.

import (
	"bytes"
	"encoding/hex"
	"encoding/json"
	"fmt"
	"os"
	"testing"
)

// ---------------------------------------------------------------- helpers (no dependency on the root lab)

type c12Rand struct{ s uint64 }

func (r *c12Rand) u64() uint64 {
	r.s += 0x9e3779b97f4a7c15
	z := r.s
	z = (z ^ (z >> 30)) * 0xbf58476d1ce4e5b9
	z = (z ^ (z >> 27)) * 0x94d049bb133111eb

	return z ^ (z >> 31)
}

func (r *c12Rand) intn(n int) int {
	if n <= 0 {
		return 0
	}

	return int(r.u64() % uint64(n))
}

func (r *c12Rand) chance(pct int) bool { return r.intn(100) < pct }

func (r *c12Rand) bytes(n int) []byte {
	b := make([]byte, n)
	for i := range b {
		b[i] = byte(r.u64())
	}

	return b
}

func c12Seed() uint64 {
	var s uint64 = 1
	if v := os.Getenv("VERIF_SEED"); v != "" {
		fmt.Sscanf(v, "%d", &s)
	}

	return s
}

func c12Thorough() bool { return os.Getenv("VERIF_TIER") == "thorough" }

type c12Out struct{ f *os.File }

func newC12Out(t *testing.T) *c12Out {
	t.Helper()
	p := os.Getenv("VERIF_OUT")
	if p == "" {
		p = os.DevNull
	}
	f, err := os.Create(p)
	if err != nil {
		t.Fatalf("VERIF_OUT: %v", err)
	}
	t.Cleanup(func() { _ = f.Close() })

	return &c12Out{f: f}
}

func (o *c12Out) emit(v any) {
	b, err := json.Marshal(v)
	if err != nil {
		panic(err)
	}
	_, _ = o.f.Write(append(b, '\n'))
}

// ---------------------------------------------------------------- structural description

type c12Frag struct {
	Ty   int    `json:"ty"`
	Len  int    `json:"len"`
	Seq  int    `json:"seq"`
	Off  int    `json:"off"`
	Flen int    `json:"flen"`
	Data string `json:"data,omitempty"` // hex; omitted in the "big" leg
	data []byte
}

type c12Rec struct {
	Kind  string    `json:"kind"` // hs | bad | other
	Ep    int       `json:"ep"`
	Frags []c12Frag `json:"frags,omitempty"`
	Tail  int       `json:"tail"` // bytes after the last fragment that parses and fits
	N     int       `json:"n"`    // total length of the pushed buffer
	tail  []byte
	raw   []byte // for bad/other
}

type c12Pop struct {
	Raw string `json:"raw,omitempty"` // hex of what Pop returned; omitted in the big leg
	Ep  int    `json:"ep"`
	Seq int    `json:"seq"` // message_seq parsed from the returned header
	Eq  bool   `json:"eq"`  // equals header(type,len,seq,0,len)+body of the honest message `seq`
	Len int    `json:"len"` // len(returned) - 12
}

type c12Op struct {
	K         string   `json:"k"` // push | adv
	Rec       *c12Rec  `json:"rec,omitempty"`
	Raw       string   `json:"raw,omitempty"` // hex of the pushed buffer (small legs)
	M         int      `json:"m"`             // AdvanceTo argument
	Res       [3]bool  `json:"res"`           // isHandshake, isRetransmit, err != nil
	Err       string   `json:"err,omitempty"`
	Pops      []c12Pop `json:"pops"`
	Panic     bool     `json:"panic"`     // a Pop panicked
	PushPanic bool     `json:"pushpanic"` // Push (or AdvanceTo) panicked
	Sz        int      `json:"sz"`        // totalBufferSize after the op
	Cn        int      `json:"cn"`        // totalFragmentCount after the op
	Cu        int      `json:"cu"`        // currentMessageSequenceNumber after the op
}

type c12Msg struct {
	Ty   int    `json:"ty"`
	Seq  int    `json:"seq"`
	Len  int    `json:"len"`
	Body string `json:"body,omitempty"`
	Mtu  int    `json:"mtu"`
	body []byte
}

type c12Case struct {
	Leg    string   `json:"leg"`
	ID     int      `json:"id"`
	Note   string   `json:"note,omitempty"`
	Honest bool     `json:"honest"` // every fragment is a slice of msgs[seq]
	OnePar bool     `json:"onepar"` // one duplicate-free partition per message, within the limits
	Msgs   []c12Msg `json:"msgs,omitempty"`
	Ops    []c12Op  `json:"ops"`
	Retx   *c12Retx `json:"retx,omitempty"` // leg retx: the transmission schedule (zz_verif_c12_retx_test.go)
}

func c12Put24(b []byte, v int) { b[0], b[1], b[2] = byte(v>>16), byte(v>>8), byte(v) }

// 12-byte handshake header, written by hand
func c12Hdr(ty, length, seq, off, flen int) []byte {
	h := make([]byte, 12)
	h[0] = byte(ty)
	c12Put24(h[1:], length)
	h[4], h[5] = byte(seq>>8), byte(seq)
	c12Put24(h[6:], off)
	c12Put24(h[9:], flen)

	return h
}

// 13-byte record header: content type, version fe fd, epoch, 48-bit sequence number, length
func c12RecHdr(ct, epoch int, seqno uint64, n int) []byte {
	h := make([]byte, 13)
	h[0] = byte(ct)
	h[1], h[2] = 0xfe, 0xfd
	h[3], h[4] = byte(epoch>>8), byte(epoch)
	for i := 0; i < 6; i++ {
		h[5+i] = byte(seqno >> (8 * (5 - i)))
	}
	h[11], h[12] = byte(n>>8), byte(n)

	return h
}

func (rc *c12Rec) encode(seqno uint64) []byte {
	if rc.Kind != "hs" {
		rc.N = len(rc.raw)

		return rc.raw
	}
	var body []byte
	for i := range rc.Frags {
		f := &rc.Frags[i]
		body = append(body, c12Hdr(f.Ty, f.Len, f.Seq, f.Off, f.Flen)...)
		body = append(body, f.data...)
	}
	body = append(body, rc.tail...)
	rc.Tail = len(rc.tail)
	out := append(c12RecHdr(22, rc.Ep, seqno, len(body)), body...)
	rc.N = len(out)

	return out
}

// ---------------------------------------------------------------- driving the real buffer

type c12Driver struct {
	fb    *FragmentBuffer
	msgs  []c12Msg
	small bool // include hex of fragment data / popped messages
	raw   bool // include hex of every pushed buffer (replayable without re-encoding)
	ops   []c12Op
	recNo uint64
}

func (d *c12Driver) counters(op *c12Op) {
	op.Sz, op.Cn, op.Cu = d.fb.totalBufferSize, d.fb.totalFragmentCount, int(d.fb.currentMessageSequenceNumber)
}

func (d *c12Driver) honestRaw(seq int) []byte {
	if seq < 0 || seq >= len(d.msgs) {
		return nil
	}
	m := d.msgs[seq]

	return append(c12Hdr(m.Ty, len(m.body), m.Seq, 0, len(m.body)), m.body...)
}

func (d *c12Driver) push(rc c12Rec) {
	d.recNo++
	buf := rc.encode(d.recNo)
	op := c12Op{K: "push", Rec: &rc, Pops: []c12Pop{}}
	if d.raw {
		op.Raw = hex.EncodeToString(buf)
	}
	if d.small {
		for i := range rc.Frags {
			rc.Frags[i].Data = hex.EncodeToString(rc.Frags[i].data)
		}
	}
	var isHs, isRe bool
	var err error
	func() {
		defer func() {
			if r := recover(); r != nil {
				op.PushPanic = true
			}
		}()
		// conn.go: c.fragmentBuffer.Push(bytes.Clone(buf))
		isHs, isRe, err = d.fb.Push(bytes.Clone(buf))
	}()
	op.Res = [3]bool{isHs, isRe, err != nil}
	if err != nil {
		op.Err = err.Error()
	}
	if !op.PushPanic && err == nil && isHs {
		for {
			var out []byte
			var ep uint16
			func() {
				defer func() {
					if r := recover(); r != nil {
						op.Panic = true
					}
				}()
				out, ep = d.fb.Pop()
			}()
			if op.Panic || out == nil {
				break
			}
			p := c12Pop{Ep: int(ep), Seq: -1, Len: len(out) - 12}
			if len(out) >= 12 {
				p.Seq = int(out[4])<<8 | int(out[5])
				p.Eq = bytes.Equal(out, d.honestRaw(p.Seq))
			}
			if d.small {
				p.Raw = hex.EncodeToString(out)
			}
			op.Pops = append(op.Pops, p)
		}
	}
	d.counters(&op)
	d.ops = append(d.ops, op)
}

func (d *c12Driver) advance(m int) {
	op := c12Op{K: "adv", M: m, Pops: []c12Pop{}}
	func() {
		defer func() {
			if r := recover(); r != nil {
				op.PushPanic = true
			}
		}()
		d.fb.AdvanceTo(uint16(m))
	}()
	d.counters(&op)
	d.ops = append(d.ops, op)
}

// ---------------------------------------------------------------- generators

// the sender's partition (what fragmentHandshake emits for this MTU), built independently
func c12Split(m c12Msg, mtu int) []c12Frag {
	var out []c12Frag
	if len(m.body) == 0 {
		return []c12Frag{{Ty: m.Ty, Len: 0, Seq: m.Seq, Off: 0, Flen: 0, data: []byte{}}}
	}
	for off := 0; off < len(m.body); off += mtu {
		end := off + mtu
		if end > len(m.body) {
			end = len(m.body)
		}
		out = append(out, c12Frag{Ty: m.Ty, Len: len(m.body), Seq: m.Seq, Off: off, Flen: end - off, data: m.body[off:end]})
	}

	return out
}

func c12Cut(m c12Msg, sizes []int) []c12Frag {
	var out []c12Frag
	off := 0
	for _, s := range sizes {
		out = append(out, c12Frag{Ty: m.Ty, Len: len(m.body), Seq: m.Seq, Off: off, Flen: s, data: m.body[off : off+s]})
		off += s
	}

	return out
}

func c12JunkRec(r *c12Rand) c12Rec {
	switch r.intn(4) {
	case 0: // too short for a record header
		return c12Rec{Kind: "bad", raw: r.bytes(r.intn(13))}
	case 1: // unsupported version
		b := append(c12RecHdr(22, 0, 7, 3), 1, 2, 3)
		b[1], b[2] = 3, 3

		return c12Rec{Kind: "bad", raw: b}
	case 2: // application data
		return c12Rec{Kind: "other", raw: append(c12RecHdr(23, 1, 9, 4), r.bytes(4)...)}
	default: // change cipher spec
		return c12Rec{Kind: "other", raw: append(c12RecHdr(20, 0, 9, 1), 1)}
	}
}

// honest history: every message has ONE partition; arrival = random permutation with duplicates,
// interleaved across messages, 1-3 fragments per record, junk records and no-op AdvanceTo in between
func c12HonestCase(r *c12Rand, leg string, id int, maxBody, maxMTU int, small bool) c12Case {
	nm := 1 + r.intn(5)
	d := &c12Driver{fb: New(), small: small}
	var all []c12Frag
	budget := 900 // fragments (fragmentBufferMaxCount is 1000)
	for s := 0; s < nm; s++ {
		mtu := 1 + r.intn(maxMTU)
		var n int
		switch r.intn(6) {
		case 0:
			n = 0
		case 1:
			n = mtu * (1 + r.intn(4)) // exact multiple of the MTU
			if n > maxBody {
				n = mtu
			}
		default:
			n = r.intn(maxBody + 1)
		}
		if n > maxBody {
			n = maxBody
		}
		lim := budget / (nm - s) // keep the whole direction inside the count limit
		if lim < 1 {
			lim = 1
		}
		for (n+mtu-1)/mtu > lim {
			mtu *= 2
		}
		m := c12Msg{Ty: []int{1, 2, 11, 12, 14, 16, 20}[r.intn(7)], Seq: s, Len: n, Mtu: mtu, body: r.bytes(n)}
		if small {
			m.Body = hex.EncodeToString(m.body)
		}
		d.msgs = append(d.msgs, m)
		fr := c12Split(m, mtu)
		if small && n > 0 && r.chance(15) { // zero-length fragments at fragment boundaries (ignored by the receiver)
			for z := 1 + r.intn(2); z > 0; z-- {
				off := mtu * r.intn((n+mtu-1)/mtu+1)
				if off > n {
					off = n
				}
				fr = append(fr, c12Frag{Ty: m.Ty, Len: n, Seq: s, Off: off, Flen: 0, data: []byte{}})
			}
		}
		budget -= len(fr)
		all = append(all, fr...)
	}
	// arrival order: shuffle, biased towards in-order delivery half of the time; add duplicates
	arr := append([]c12Frag{}, all...)
	if r.chance(50) {
		for i := len(arr) - 1; i > 0; i-- {
			j := r.intn(i + 1)
			arr[i], arr[j] = arr[j], arr[i]
		}
	} else {
		for k := 0; k < len(arr)/3+1; k++ {
			i, j := r.intn(len(arr)), r.intn(len(arr))
			arr[i], arr[j] = arr[j], arr[i]
		}
	}
	ndup := r.intn(len(all)/2 + 2)
	if !small && ndup > 40 {
		ndup = 40
	}
	for k := 0; k < ndup; k++ {
		f := all[r.intn(len(all))]
		pos := r.intn(len(arr) + 1)
		arr = append(arr[:pos], append([]c12Frag{f}, arr[pos:]...)...)
	}
	for i := 0; i < len(arr); {
		if r.chance(8) {
			d.push(c12JunkRec(r))
		}
		if r.chance(10) { // conn.go syncFragmentBufferHandshakeSequence: never ahead of what was popped
			d.advance(r.intn(int(d.fb.currentMessageSequenceNumber) + 1))
		}
		k := 1 + r.intn(3)
		if i+k > len(arr) {
			k = len(arr) - i
		}
		fr := make([]c12Frag, k)
		copy(fr, arr[i:i+k])
		d.push(c12Rec{Kind: "hs", Ep: r.intn(3), Frags: fr})
		i += k
	}

	return c12Case{Leg: leg, ID: id, Honest: true, OnePar: true, Msgs: d.msgs, Ops: d.ops}
}

func c12Compositions(n int) [][]int {
	if n == 0 {
		return [][]int{{0}}
	}
	var out [][]int
	for mask := 0; mask < 1<<(n-1); mask++ {
		var parts []int
		cur := 1
		for i := 0; i < n-1; i++ {
			if mask&(1<<i) != 0 {
				parts = append(parts, cur)
				cur = 1
			} else {
				cur++
			}
		}
		out = append(out, append(parts, cur))
	}

	return out
}

func c12Perms(n int) [][]int {
	if n == 0 {
		return [][]int{{}}
	}
	var out [][]int
	for _, p := range c12Perms(n - 1) {
		for pos := 0; pos <= len(p); pos++ {
			q := append(append(append([]int{}, p[:pos]...), n-1), p[pos:]...)
			out = append(out, q)
		}
	}

	return out
}

// exhaustive sub-space: all partitions into non-empty pieces x all arrival permutations x one
// duplicate of any fragment inserted at any position; one fragment per record
func c12Exhaustive(emit func(c12Case), maxOne, maxTwo int) {
	id := 0
	runOne := func(msgs []c12Msg, frags []c12Frag) {
		for _, perm := range c12Perms(len(frags)) {
			for dup := -1; dup < len(frags); dup++ {
				for pos := 0; pos <= len(frags); pos++ {
					if dup == -1 && pos > 0 {
						break
					}
					d := &c12Driver{fb: New(), small: true, msgs: msgs}
					order := make([]c12Frag, 0, len(frags)+1)
					for _, i := range perm {
						order = append(order, frags[i])
					}
					if dup >= 0 {
						order = append(order[:pos], append([]c12Frag{frags[dup]}, order[pos:]...)...)
					}
					for _, f := range order {
						d.push(c12Rec{Kind: "hs", Ep: 0, Frags: []c12Frag{f}})
					}
					emit(c12Case{Leg: "exh", ID: id, Honest: true, OnePar: true, Msgs: msgs, Ops: d.ops})
					id++
				}
			}
		}
	}
	mk := func(seq, n int) c12Msg {
		b := make([]byte, n)
		for i := range b {
			b[i] = byte(0x10*(seq+1) + i + 1)
		}

		return c12Msg{Ty: 1 + seq, Seq: seq, Len: n, Mtu: 0, body: b, Body: hex.EncodeToString(b)}
	}
	for n := 0; n <= maxOne; n++ {
		m := mk(0, n)
		for _, comp := range c12Compositions(n) {
			runOne([]c12Msg{m}, c12Cut(m, comp))
		}
	}
	for n0 := 0; n0 <= maxTwo; n0++ {
		for n1 := 0; n1 <= maxTwo; n1++ {
			m0, m1 := mk(0, n0), mk(1, n1)
			for _, c0 := range c12Compositions(n0) {
				for _, c1 := range c12Compositions(n1) {
					runOne([]c12Msg{m0, m1}, append(c12Cut(m0, c0), c12Cut(m1, c1)...))
				}
			}
		}
	}
}

// hostile stream: inconsistent Length, overlapping offsets, zero-length fragments at non-zero
// offsets, 24-bit extremes, broken tails, junk, AdvanceTo anywhere
func c12HostileCase(r *c12Rand, id int) c12Case {
	d := &c12Driver{fb: New(), small: true, raw: true}
	lens := []int{0, 0, 1, 2, 3, 4, 6, 0xffffff, 0x10000}
	offs := []int{0, 0, 0, 1, 2, 3, 4, 5, 0xffffff, 0xfffffe}
	nops := 1 + r.intn(14)
	for i := 0; i < nops; i++ {
		switch {
		case r.chance(8):
			d.push(c12JunkRec(r))
		case r.chance(10):
			d.advance(r.intn(5))
		default:
			k := 1 + r.intn(3)
			rc := c12Rec{Kind: "hs", Ep: r.intn(4)}
			for j := 0; j < k; j++ {
				fl := r.intn(5)
				if r.chance(35) {
					fl = 0
				}
				rc.Frags = append(rc.Frags, c12Frag{
					Ty: r.intn(256), Len: lens[r.intn(len(lens))], Seq: r.intn(4),
					Off: offs[r.intn(len(offs))], Flen: fl, data: r.bytes(fl),
				})
			}
			switch r.intn(10) {
			case 0: // fewer than 12 trailing bytes
				rc.tail = r.bytes(1 + r.intn(11))
			case 1: // a header announcing more bytes than are left (giant fragment_length)
				have := r.intn(4)
				want := have + 1 + r.intn(3)
				if r.chance(50) {
					want = 0xffffff
				}
				rc.tail = append(c12Hdr(r.intn(256), lens[r.intn(len(lens))], r.intn(4), offs[r.intn(len(offs))], want), r.bytes(have)...)
			}
			d.push(rc)
		}
	}

	return c12Case{Leg: "hostile", ID: id, Ops: d.ops}
}

// the two resource limits, reached with constant-filled data so that the Coq case stays small
func c12LimitCases(emit func(c12Case)) {
	// (1) count: 1..3 zero/one-byte fragments per record for message 1 while message 0 is missing
	d := &c12Driver{fb: New(), small: true}
	off := 0
	for i := 0; i < 340; i++ {
		k := 3
		rc := c12Rec{Kind: "hs", Ep: 1}
		for j := 0; j < k; j++ {
			fl := (i + j) % 2
			rc.Frags = append(rc.Frags, c12Frag{Ty: 11, Len: 5000, Seq: 1, Off: off, Flen: fl, data: bytes.Repeat([]byte{7}, fl)})
			off += 1 + fl
		}
		d.push(rc)
	}
	d.push(c12Rec{Kind: "other", raw: append(c12RecHdr(23, 1, 9, 4), 1, 2, 3, 4)}) // full buffer: still "not a handshake", no error
	d.push(c12Rec{Kind: "bad", raw: []byte{22, 0xfe}})
	d.advance(1) // nothing below 1 is cached: only the cursor moves
	d.push(c12Rec{Kind: "hs", Ep: 1, Frags: []c12Frag{{Ty: 11, Len: 5000, Seq: 1, Off: 4999, Flen: 1, data: []byte{9}}}})
	d.advance(2) // drops message 1: both counters return to 0
	d.push(c12Rec{Kind: "hs", Ep: 1, Frags: []c12Frag{{Ty: 11, Len: 1, Seq: 2, Off: 0, Flen: 1, data: []byte{9}}}})
	emit(c12Case{Leg: "limits", ID: 0, Note: "fragment count limit", Ops: d.ops})

	// (2) size: 60000-byte fragments of message 1 until size+len(buf) >= 2000000
	d = &c12Driver{fb: New(), small: true}
	for i := 0; i < 36; i++ {
		d.push(c12Rec{Kind: "hs", Ep: 1, Frags: []c12Frag{{
			Ty: 11, Len: 0xffffff, Seq: 1, Off: i * 60000, Flen: 60000, data: bytes.Repeat([]byte{byte(i)}, 60000),
		}}})
	}
	d.push(c12Rec{Kind: "hs", Ep: 1, Frags: []c12Frag{{Ty: 11, Len: 0xffffff, Seq: 1, Off: 0xfffff0, Flen: 3, data: []byte{1, 2, 3}}}})
	d.advance(2)
	d.push(c12Rec{Kind: "hs", Ep: 1, Frags: []c12Frag{{Ty: 11, Len: 1, Seq: 2, Off: 0, Flen: 1, data: []byte{9}}}})
	emit(c12Case{Leg: "limits", ID: 1, Note: "buffer size limit", Ops: d.ops})
}

// regression corpus (the two inputs that failed before the fix "ignore empty handshake fragments
// that cannot belong to a message") and the documented liveness boundaries of Frag/BufferSound.v
func c12WitnessCases(emit func(c12Case)) {
	one := func(fr ...c12Frag) c12Rec { return c12Rec{Kind: "hs", Ep: 0, Frags: fr} }
	body := []byte{1, 2, 3, 4}
	msg := c12Msg{Ty: 1, Seq: 0, Len: 4, body: body, Body: hex.EncodeToString(body)}
	f := func(off, fl int) c12Frag {
		return c12Frag{Ty: 1, Len: 4, Seq: 0, Off: off, Flen: fl, data: body[off : off+fl]}
	}

	// BufferSound.old_panic_record: Length 0, zero-length fragment at offset 1 (Pop used to panic)
	d := &c12Driver{fb: New(), small: true, raw: true}
	d.push(one(c12Frag{Ty: 14, Len: 0, Seq: 0, Off: 1, Flen: 0, data: []byte{}}))
	emit(c12Case{Leg: "regress", ID: 0, Note: "old-panic-input", Ops: d.ops})

	// BufferSound.zf_history: partition (0,2)(2,0)(2,2); the zero-length fragment arrives before (2,2)
	// (used to wedge the message for ever)
	d = &c12Driver{fb: New(), small: true, raw: true, msgs: []c12Msg{msg}}
	for _, x := range []c12Frag{f(0, 2), f(2, 0), f(2, 2)} {
		d.push(one(x))
	}
	emit(c12Case{Leg: "regress", ID: 1, Note: "zero-fragment", Honest: true, OnePar: true, Msgs: d.msgs, Ops: d.ops})

	// BufferSound.rp_history: MTU-2 and MTU-3 partitions of the same message mixed, then everything again
	d = &c12Driver{fb: New(), small: true, raw: true, msgs: []c12Msg{msg}}
	for _, x := range []c12Frag{f(0, 2), f(3, 1), f(2, 2), f(0, 3), f(0, 2), f(2, 2), f(0, 3), f(3, 1)} {
		d.push(one(x))
	}
	emit(c12Case{Leg: "boundary", ID: 0, Note: "repartition", Honest: true, Msgs: d.msgs, Ops: d.ops})

	// BufferSound.cap_history: 1001 one-byte fragments of one message (MTU 1), in order, then all again:
	// beyond fragmentBufferMaxCount, the fixed buffering limit
	big := bytes.Repeat([]byte{7}, 1001)
	cm := c12Msg{Ty: 11, Seq: 0, Len: 1001, Mtu: 1, body: big, Body: hex.EncodeToString(big)}
	d = &c12Driver{fb: New(), small: true, msgs: []c12Msg{cm}}
	fr := c12Split(cm, 1)
	for round := 0; round < 2; round++ {
		for _, x := range fr {
			d.push(one(x))
		}
	}
	emit(c12Case{Leg: "boundary", ID: 1, Note: "capacity", Honest: true, Msgs: d.msgs, Ops: d.ops})

	// BufferSound.refragmented_retransmission_refuted (K-C12-1): a 200-byte message first sent in 100-byte
	// fragments, only [0,100) arrives; the peer then retransmits the whole message in 150-byte
	// fragments, twice. Every byte has arrived (most of them three times).
	rb := make([]byte, 200)
	for i := range rb {
		rb[i] = byte(i + 1)
	}
	rm := c12Msg{Ty: 11, Seq: 0, Len: 200, Mtu: 100, body: rb, Body: hex.EncodeToString(rb)}
	d = &c12Driver{fb: New(), small: true, msgs: []c12Msg{rm}}
	d.push(one(c12Slice(rm, 0, 100)))
	for round := 0; round < 2; round++ {
		for _, x := range c12Split(rm, 150) {
			d.push(one(x))
		}
	}
	emit(c12Case{Leg: "boundary", ID: 2, Note: "refragmented-retransmission", Honest: true, Msgs: d.msgs, Ops: d.ops})

	// BufferSound.epoch_splice_refuted (K-C12-2): a forged fragment in an unprotected epoch-0 record takes
	// offset 10 of a 20-byte message whose genuine fragments then arrive in epoch-2 records
	gb := make([]byte, 20)
	for i := range gb {
		gb[i] = byte(7*i + 1)
	}
	gm := c12Msg{Ty: 11, Seq: 0, Len: 20, Mtu: 10, body: gb, Body: hex.EncodeToString(gb)}
	d = &c12Driver{fb: New(), small: true, raw: true, msgs: []c12Msg{gm}}
	d.push(c12Rec{Kind: "hs", Ep: 0, Frags: []c12Frag{{Ty: 11, Len: 20, Seq: 0, Off: 10, Flen: 10, data: bytes.Repeat([]byte{0xEE}, 10)}}})
	for _, x := range c12Split(gm, 10) {
		d.push(c12Rec{Kind: "hs", Ep: 2, Frags: []c12Frag{x}})
	}
	emit(c12Case{Leg: "boundary", ID: 3, Note: "epoch-splice", Msgs: d.msgs, Ops: d.ops})
}

func c12Slice(m c12Msg, off, fl int) c12Frag {
	return c12Frag{Ty: m.Ty, Len: len(m.body), Seq: m.Seq, Off: off, Flen: fl, data: m.body[off : off+fl]}
}

func c12Shuffle(r *c12Rand, a []c12Frag) {
	for i := len(a) - 1; i > 0; i-- {
		j := r.intn(i + 1)
		a[i], a[j] = a[j], a[i]
	}
}

// deliver per-message streams (order inside a stream preserved), randomly merged across message
// sequences, 1-3 fragments per record
func c12Deliver(r *c12Rand, d *c12Driver, streams [][]c12Frag) {
	pos := make([]int, len(streams))
	var merged []c12Frag
	for {
		var live []int
		for i := range streams {
			if pos[i] < len(streams[i]) {
				live = append(live, i)
			}
		}
		if len(live) == 0 {
			break
		}
		i := live[r.intn(len(live))]
		burst := 1 + r.intn(3)
		for ; burst > 0 && pos[i] < len(streams[i]); burst-- {
			merged = append(merged, streams[i][pos[i]])
			pos[i]++
		}
	}
	for i := 0; i < len(merged); {
		k := 1 + r.intn(3)
		if i+k > len(merged) {
			k = len(merged) - i
		}
		fr := make([]c12Frag, k)
		copy(fr, merged[i:i+k])
		d.push(c12Rec{Kind: "hs", Ep: r.intn(3), Frags: fr})
		i += k
	}
}

// re-fragmenting peer: two or three different partitions of the same message, each with losses,
// interleaved across several message sequences, including overlapping fragments whose lengths sum
// exactly to the message length while bytes are still missing. Every fragment is a genuine slice:
// whatever is popped must be the sender's message and every byte of it must have been received
// (not popping is tolerated: completeness is only stated for one partition per message).
func c12MultiCase(r *c12Rand, id int) c12Case {
	nm := 1 + r.intn(3)
	d := &c12Driver{fb: New(), small: true, ops: []c12Op{}}
	streams := make([][]c12Frag, nm)
	for s := 0; s < nm; s++ {
		u, k := 1+r.intn(12), 2+r.intn(5)
		n := u * k
		if r.chance(25) {
			n = 3 + r.intn(62)
			u, k = 1+r.intn(n/2+1), 0
		}
		m := c12Msg{Ty: []int{1, 2, 11, 12, 16, 20}[r.intn(6)], Seq: s, Len: n, Mtu: u, body: r.bytes(n)}
		m.Body = hex.EncodeToString(m.body)
		d.msgs = append(d.msgs, m)
		var core []c12Frag
		mode := r.intn(4)
		switch {
		case mode == 0 && k >= 3:
			// [0, a*u) of the MTU a*u partition + (k-a) fragments of the MTU u partition inside it:
			// a*u + (k-a)*u == k*u with the tail [a*u, k*u) never received
			a := (k+2)/2 + r.intn(k-(k+2)/2)
			core = append(core, c12Slice(m, 0, a*u))
			cand := r2perm(r, a-1)
			for _, c := range cand[:k-a] {
				core = append(core, c12Slice(m, (c+1)*u, u))
			}
			if r.chance(50) {
				c12Shuffle(r, core)
			}
		case mode == 1 && n >= 3:
			// arbitrary overlapping slices: sizes sum to n, first at offset 0, the others anywhere
			// but where they would complete the message
			parts := 2 + r.intn(3)
			left := n
			off0 := 1 + r.intn(n-2)
			core = append(core, c12Slice(m, 0, off0))
			left -= off0
			used := map[int]bool{0: true}
			for p := 1; p < parts && left > 0; p++ {
				sz := left
				if p < parts-1 && left > 1 {
					sz = 1 + r.intn(left)
				}
				o := 1 + r.intn(n-sz+1-1+1)
				if o+sz > n {
					o = n - sz
				}
				if used[o] || o == 0 {
					continue
				}
				used[o] = true
				core = append(core, c12Slice(m, o, sz))
				left -= sz
			}
		}
		// the rest: 2-3 MTU partitions, each fragment lost with some probability, duplicates
		var rest []c12Frag
		np := 2 + r.intn(2)
		lossless := r.chance(35)
		for p := 0; p < np; p++ {
			mtu := 1 + r.intn(n)
			if p == 0 && k > 0 {
				mtu = u
			}
			fr := c12Split(m, mtu)
			if p == 0 && lossless && len(core) == 0 { // one partition arrives completely first: message pops
				rest = append(rest, fr...)

				continue
			}
			var kept []c12Frag
			for _, f := range fr {
				if !r.chance(35) {
					kept = append(kept, f)
				}
				if r.chance(10) {
					kept = append(kept, f)
				}
			}
			if r.chance(60) {
				c12Shuffle(r, kept)
			}
			rest = append(rest, kept...)
		}
		if !(lossless && len(core) == 0) && r.chance(50) {
			c12Shuffle(r, rest)
		}
		streams[s] = append(core, rest...)
	}
	c12Deliver(r, d, streams)

	return c12Case{Leg: "multi", ID: id, Honest: true, Msgs: d.msgs, Ops: d.ops}
}

func r2perm(r *c12Rand, n int) []int {
	p := make([]int, n)
	for i := range p {
		p[i] = i
	}
	for i := n - 1; i > 0; i-- {
		j := r.intn(i + 1)
		p[i], p[j] = p[j], p[i]
	}

	return p
}

// fixed members of the multi leg: a 300-byte message whose peer re-fragments from 200 to 100 bytes
// after a loss ([0,200) received, [200,300) lost, retransmitted [100,200) received: 200+100 == 300),
// alone and interleaved with a second message sequence in the same situation
func c12MultiFixed(emit func(c12Case)) {
	r := &c12Rand{s: 12}
	mk := func(seq, n int) c12Msg {
		b := r.bytes(n)
		for i := range b { // no zero bytes: a zero-filled hole can never equal the message
			b[i] |= 1
		}

		return c12Msg{Ty: 11, Seq: seq, Len: n, body: b, Body: hex.EncodeToString(b)}
	}
	one := func(fr ...c12Frag) c12Rec { return c12Rec{Kind: "hs", Ep: 0, Frags: fr} }
	m0 := mk(0, 300)
	d := &c12Driver{fb: New(), small: true, msgs: []c12Msg{m0}}
	d.push(one(c12Slice(m0, 0, 200)))
	d.push(one(c12Slice(m0, 100, 100)))
	emit(c12Case{Leg: "multi", ID: -1, Note: "300 = [0,200) + [100,200)", Honest: true, Msgs: d.msgs, Ops: d.ops})

	m1 := mk(1, 90)
	d = &c12Driver{fb: New(), small: true, msgs: []c12Msg{m0, m1}}
	d.push(one(c12Slice(m1, 0, 60)))
	d.push(one(c12Slice(m0, 0, 200), c12Slice(m1, 30, 30)))
	d.push(one(c12Slice(m0, 100, 100)))
	d.push(one(c12Slice(m0, 200, 100), c12Slice(m1, 60, 30)))
	emit(c12Case{Leg: "multi", ID: -2, Note: "two message sequences interleaved", Honest: true, Msgs: d.msgs, Ops: d.ops})
}

// many concurrent messages: 2..16 fragmented messages (half of the histories have 9..16), one partition
// each, every byte eventually arrives, far inside both limits (< 300 fragments, < 2 kB). Arrival orders
// put later messages wholly before earlier ones: reverse message order, random permutation across all
// messages, each with and without every fragment duplicated. nm < 0: the fixed member (10 messages of
// 3 fragments, last message first).
func c12ManyCase(r *c12Rand, id, nm, mode int) c12Case {
	fixed := nm > 0
	if !fixed {
		nm = 2 + r.intn(15)
		if r.chance(50) {
			nm = 9 + r.intn(8)
		}
		mode = r.intn(4)
	}
	d := &c12Driver{fb: New(), small: true}
	per := make([][]c12Frag, nm)
	for s := 0; s < nm; s++ {
		mtu := 1 + r.intn(12)
		n := mtu*(1+r.intn(5)) + 1 + r.intn(mtu) // 2..6 fragments
		if fixed {
			mtu, n = 4, 10
		}
		m := c12Msg{Ty: []int{1, 2, 11, 12, 13, 14, 16, 20}[r.intn(8)], Seq: s, Len: n, Mtu: mtu, body: r.bytes(n)}
		m.Body = hex.EncodeToString(m.body)
		d.msgs = append(d.msgs, m)
		per[s] = c12Split(m, mtu)
	}
	var arr []c12Frag
	dup := mode >= 2
	switch mode % 2 {
	case 0: // reverse message order; inside a message in order, reversed or shuffled
		for s := nm - 1; s >= 0; s-- {
			fr := append([]c12Frag{}, per[s]...)
			switch {
			case fixed:
			case r.chance(33):
				c12Shuffle(r, fr)
			case r.chance(50):
				for i, j := 0, len(fr)-1; i < j; i, j = i+1, j-1 {
					fr[i], fr[j] = fr[j], fr[i]
				}
			}
			for _, f := range fr {
				arr = append(arr, f)
				if dup {
					arr = append(arr, f)
				}
			}
		}
	default: // random permutation across all messages (of the doubled list when dup)
		for s := 0; s < nm; s++ {
			arr = append(arr, per[s]...)
			if dup {
				arr = append(arr, per[s]...)
			}
		}
		c12Shuffle(r, arr)
	}
	for i := 0; i < len(arr); {
		k := 1
		if !fixed && r.chance(30) {
			k = 1 + r.intn(3)
		}
		if i+k > len(arr) {
			k = len(arr) - i
		}
		fr := make([]c12Frag, k)
		copy(fr, arr[i:i+k])
		ep := 0
		if !fixed {
			ep = r.intn(3)
		}
		d.push(c12Rec{Kind: "hs", Ep: ep, Frags: fr})
		i += k
	}
	note := []string{"reverse", "permutation", "reverse+dup", "permutation+dup"}[mode]

	return c12Case{Leg: "many", ID: id, Note: note, Honest: true, OnePar: true, Msgs: d.msgs, Ops: d.ops}
}

// TestVerifC12Buffer emits all legs.
func TestVerifC12Buffer(t *testing.T) {
	out := newC12Out(t)
	r := &c12Rand{s: c12Seed()}
	mult := 1
	if c12Thorough() {
		mult = 20
	}
	emit := func(c c12Case) { out.emit(c) }
	c12WitnessCases(emit)
	c12LimitCases(emit)
	c12MultiFixed(emit)
	if c12Thorough() {
		c12Exhaustive(emit, 5, 3)
	} else {
		c12Exhaustive(emit, 4, 2)
	}
	for i := 0; i < 1500*mult; i++ {
		out.emit(c12HonestCase(r, "small", i, 64, 70, true))
	}
	for i := 0; i < 1500*mult; i++ {
		out.emit(c12HostileCase(r, i))
	}
	for i := 0; i < 1500*mult; i++ {
		out.emit(c12MultiCase(r, i))
	}
	for i := 0; i < 300*mult; i++ {
		out.emit(c12HonestCase(r, "big", i, 40000, 2000, false))
	}
	out.emit(c12ManyCase(r, -1, 10, 0))
	out.emit(c12ManyCase(r, -2, 16, 2))
	for i := 0; i < 600*mult; i++ {
		out.emit(c12ManyCase(r, i, 0, 0))
	}
	c12RetxCases(r, emit)
}
