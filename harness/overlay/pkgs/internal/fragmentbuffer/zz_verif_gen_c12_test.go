//go:build verif

package fragmentbuffer

import (
	"fmt"
	"os"
	"strings"
	"testing"
)

// TestVerifGenC12 dumps the reassembly limits of the current tree as Coq definitions
// (tie 1 of DESIGN.md; appended to coq/theories/Gen/Generated.v by lib/vlib.py regenerate()).
func TestVerifGenC12(t *testing.T) {
	var b strings.Builder
	fmt.Fprintf(&b, "Definition g_fragment_buffer_max_size : N := %d.\n", fragmentBufferMaxSize)
	fmt.Fprintf(&b, "Definition g_fragment_buffer_max_count : N := %d.\n", fragmentBufferMaxCount)
	p := os.Getenv("VERIF_OUT")
	if p == "" {
		t.Log(b.String())

		return
	}
	if err := os.WriteFile(p, []byte(b.String()), 0o600); err != nil {
		t.Fatal(err)
	}
}
