//go:build verif

// C10 correspondence harness for internal/handshake/traffic_secrets.go: the DTLS 1.3 key schedule
// (handshake / master secret, handshake and application traffic secrets, exporter and resumption
// master secrets, key update), Finished verify_data and the CertificateVerify input.
package dtlshandshake

import (
	"crypto/sha256"
	"crypto/sha512"
	"hash"
	"testing"
)

func TestVerifC10Schedule13(t *testing.T) {
	r := &c10Rand{s: c10Seed() ^ 0xc1043}
	out := newC10Out(t)
	n := 16
	if c10Thorough() {
		n = 500
	}
	type hm struct {
		code int
		f    func() hash.Hash
	}
	hs := []hm{{256, sha256.New}, {384, sha512.New384}}
	must := func(b []byte, err error) []byte {
		if err != nil {
			t.Fatalf("unexpected error: %v", err)
		}

		return b
	}
	for i := 0; i < n; i++ {
		h := hs[i%2]
		hl := h.f().Size()
		// (EC)DHE shared secrets: 32 (X25519/P-256), 48 (P-384), 64 (X25519MLKEM768)
		ecdhe := r.bytes([]int{32, 32, 48, 64, 1 + r.intn(70)}[r.intn(5)])
		th := r.bytes(hl)
		ks, err := deriveHandshakeKeySchedule(h.f, ecdhe, th)
		if err != nil {
			t.Fatal(err)
		}
		out.emit(43, h.code, "deriveHandshakeKeySchedule", [][]byte{ecdhe, th}, nil,
			[][]byte{ks.HandshakeTrafficSecrets.Client, ks.HandshakeTrafficSecrets.Server, ks.MasterSecret})
		hsSecret := must(deriveHandshakeSecret(h.f, ecdhe))
		out.emit(54, h.code, "deriveHandshakeSecret", [][]byte{ecdhe}, nil, [][]byte{hsSecret})
		out.emit(55, h.code, "deriveMasterSecret", [][]byte{hsSecret}, nil,
			[][]byte{must(deriveMasterSecret(h.f, hsSecret))})

		ms := ks.MasterSecret
		th2 := r.bytes(hl)
		ap, err := deriveApplicationTrafficSecrets(h.f, ms, th2)
		if err != nil {
			t.Fatal(err)
		}
		out.emit(44, h.code, "deriveApplicationTrafficSecrets", [][]byte{ms, th2}, nil, [][]byte{ap.Client, ap.Server})
		out.emit(45, h.code, "deriveExporterMasterSecret", [][]byte{ms, th2}, nil,
			[][]byte{must(deriveExporterMasterSecret(h.f, ms, th2))})
		out.emit(46, h.code, "deriveResumptionMasterSecret", [][]byte{ms, th2}, nil,
			[][]byte{must(deriveResumptionMasterSecret(h.f, ms, th2))})
		out.emit(47, h.code, "deriveNextApplicationTrafficSecret", [][]byte{ap.Client}, nil,
			[][]byte{must(deriveNextApplicationTrafficSecret(h.f, ap.Client))})

		base := ks.HandshakeTrafficSecrets.Server
		out.emit(56, h.code, "finishedKey", [][]byte{base}, nil, [][]byte{must(finishedKey(h.f, base))})
		out.emit(48, h.code, "finishedVerifyData", [][]byte{base, th2}, nil,
			[][]byte{must(finishedVerifyData(h.f, base, th2))})
		if err := verifyFinishedData(h.f, base, th2, must(finishedVerifyData(h.f, base, th2))); err != nil {
			t.Fatal(err)
		}

		for _, cl := range []int{0, 1} {
			out.emit(49, h.code, "certificateVerifyInput", [][]byte{th2}, c10U(cl),
				[][]byte{certificateVerifyInput(cl == 1, th2)})
		}
	}
}
