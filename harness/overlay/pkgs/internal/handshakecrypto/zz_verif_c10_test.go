//go:build verif

// C10 correspondence harness for internal/handshakecrypto: the byte string covered by the
// ServerKeyExchange signature (RFC 8422 section 5.4).
package handshakecrypto

import (
	"testing"

	"github.com/pion/dtls/v3/pkg/crypto/elliptic"
)

func TestVerifC10KeyMessage(t *testing.T) {
	r := &c10Rand{s: c10Seed() ^ 0xc1010}
	out := newC10Out(t)
	n := 30
	if c10Thorough() {
		n = 500
	}
	curves := []struct {
		c elliptic.Curve
		n int
	}{{elliptic.X25519, 32}, {elliptic.P256, 65}, {elliptic.P384, 97}}
	for i := 0; i < n; i++ {
		c := curves[r.intn(len(curves))]
		pl := c.n
		if r.intn(5) == 0 {
			pl = r.intn(120)
		}
		cr, sr, pub := r.bytes(32), r.bytes(32), r.bytes(pl)
		out.emit(10, 256, "ValueKeyMessage", [][]byte{cr, sr, pub}, c10U(int(c.c)),
			[][]byte{ValueKeyMessage(cr, sr, pub, c.c)})
	}
}
