//go:build verif

package negotiation

import (
	"errors"
	"testing"

	v "github.com/pion/dtls/v3/internal/verifc18"
	vhs "github.com/pion/dtls/v3/internal/verifc18hs"
	"github.com/pion/dtls/v3/pkg/protocol"
	"github.com/pion/dtls/v3/pkg/protocol/handshake"
)

var errC18 = errors.New("c18: rejected")

// TestVerifC18Canonicalize drives validatedClientHello / validatedServerHello (canonicalize =
// Marshal, then Unmarshal into a fresh value) the way a hello hook result reaches them.
// Codec 110/111 (no Coq model, implementation-side monitors only): the input bytes are decoded
// into a hello, the hello is "what the hook returned"; the observation is the canonical hello.
// Monitors: no panic; canonical(value) == value for generated valid values; Marshal(canonical)
// is a fixed point of Unmarshal+canonicalize.
func TestVerifC18Canonicalize(t *testing.T) {
	dump := func(m handshake.Message) v.Dump {
		d := v.Dump{}
		vhs.DumpMessage2(&d, m)

		return d[1:]
	}
	ch := &v.Codec{
		Name: "canonicalize_client_hello", ID: 110,
		Decode: func(in []byte) (*v.Decoded, error) {
			hook := &handshake.MessageClientHello{}
			if err := hook.Unmarshal(in); err != nil {
				return nil, err
			}
			canonical, err := validatedClientHello(hook)
			if err != nil {
				return nil, err
			}
			out, err := canonical.Marshal()

			return &v.Decoded{Dump: dump(canonical), Reenc: out, ReencErr: err != nil}, nil
		},
		Gen: func(r *v.Rand) (v.Dump, []byte, bool) {
			m := vhs.GenClientHello(r)
			// a hook may hand back nil slices or reordered compression methods
			if r.Chance(20) {
				m.SessionID, m.Cookie = nil, nil
			}
			canonical, err := validatedClientHello(m)
			if err != nil {
				return nil, nil, false
			}
			out, err := m.Marshal()

			return dump(canonical), out, err == nil
		},
	}
	sh := &v.Codec{
		Name: "canonicalize_server_hello", ID: 111,
		Decode: func(in []byte) (*v.Decoded, error) {
			hook := &handshake.MessageServerHello{}
			if err := hook.Unmarshal(in); err != nil {
				return nil, err
			}
			canonical, err := validatedServerHello(hook)
			if err != nil {
				return nil, err
			}
			out, err := canonical.Marshal()

			return &v.Decoded{Dump: dump(canonical), Reenc: out, ReencErr: err != nil}, nil
		},
		Gen: func(r *v.Rand) (v.Dump, []byte, bool) {
			m := vhs.GenServerHello(r, r.Intn(4))
			canonical, err := validatedServerHello(m)
			if err != nil {
				return nil, nil, false
			}
			out, err := m.Marshal()

			return dump(canonical), out, err == nil
		},
	}
	// hook results that must be refused rather than crash
	if _, err := validatedClientHello(nil); err == nil {
		t.Fatalf("nil ClientHello accepted: %v", errC18)
	}
	if _, err := validatedClientHello(&handshake.MessageClientHello{CompressionMethods: []*protocol.CompressionMethod{nil}}); err == nil {
		t.Fatalf("nil compression method accepted: %v", errC18)
	}
	if _, err := validatedServerHello(&handshake.MessageServerHello{}); err == nil {
		t.Fatalf("ServerHello without cipher suite accepted: %v", errC18)
	}
	v.Run(t, []*v.Codec{ch, sh})
}
