//go:build verif

// C08 unit leg (K-C08-4): the listener's per-connection inbound PacketBuffer.  Datagrams from a known remote
// address are queued here until the connection's read loop takes them - whatever they contain, before any
// DTLS parsing.  The property wants a fixed buffering limit; the harness measures what is held while nobody
// reads and what is still held after the backlog was drained.
package net

import (
	"encoding/json"
	"net"
	"os"
	"testing"
	"time"
)

type c08BufRow struct {
	Kind        string `json:"kind"`
	Written     int    `json:"written"`      // datagrams written while nobody reads
	Size        int    `json:"size"`         // bytes each
	Queued      int    `json:"queued"`       // datagrams held
	Slots       int    `json:"slots"`        // len(packets)
	Bytes       int    `json:"bytes"`        // sum of the slots' buffer capacities
	SlotsAfter  int    `json:"slots_after"`  // after draining
	BytesAfter  int    `json:"bytes_after"`
	Drained     int    `json:"drained"`
	WriteErrors int    `json:"write_errors"`
}

func c08BufStats(b *PacketBuffer) (queued, slots, bytes int) {
	b.mutex.Lock()
	defer b.mutex.Unlock()
	slots = len(b.packets)
	for i := range b.packets {
		bytes += b.packets[i].data.Cap()
	}
	switch {
	case b.full:
		queued = slots
	case b.write >= b.read:
		queued = b.write - b.read
	default:
		queued = slots - b.read + b.write
	}

	return queued, slots, bytes
}

func TestVerifC08PacketBuffer(t *testing.T) {
	p := os.Getenv("VERIF_OUT")
	if p == "" {
		p = os.DevNull
	}
	f, err := os.Create(p)
	if err != nil {
		t.Fatal(err)
	}
	defer f.Close() //nolint:errcheck
	for _, sc := range [][2]int{{12000, 1000}, {3000, 8192}, {200, 64}} {
		b := NewPacketBuffer()
		addr := &net.UDPAddr{IP: net.IPv4(127, 0, 0, 1), Port: 4444}
		row := c08BufRow{Kind: "packetbuffer", Written: sc[0], Size: sc[1]}
		garbage := make([]byte, sc[1])
		for i := 0; i < sc[0]; i++ {
			if _, err := b.WriteTo(garbage, addr); err != nil {
				row.WriteErrors++
			}
		}
		row.Queued, row.Slots, row.Bytes = c08BufStats(b)
		buf := make([]byte, 16384)
		_ = b.SetReadDeadline(time.Now().Add(200 * time.Millisecond))
		for {
			if _, _, err := b.ReadFrom(buf); err != nil {
				break
			}
			row.Drained++
			if row.Drained >= row.Queued {
				break
			}
		}
		_, row.SlotsAfter, row.BytesAfter = c08BufStats(b)
		_ = b.Close()
		out, _ := json.Marshal(row)
		_, _ = f.Write(append(out, '\n'))
	}
}
