//go:build verif

// C15 correspondence harness (a): rrc.Manager driven in-package under testing/synctest
// virtual time. Random operation sequences over a few addresses with clock jumps around the
// 1 s path validation timeout; every operation is emitted with its result and a dump of the
// paths map, to be compared step by step with coq/theories/Rrc/C15Manager.v.
package rrc

import (
	"encoding/binary"
	"encoding/json"
	"fmt"
	"math"
	"net"
	"os"
	"sort"
	"testing"
	"testing/synctest"
	"time"

	"github.com/pion/dtls/v3/pkg/protocol"
)

type c15Rand struct{ s uint64 }

func (r *c15Rand) u64() uint64 {
	r.s += 0x9e3779b97f4a7c15
	z := r.s
	z = (z ^ (z >> 30)) * 0xbf58476d1ce4e5b9
	z = (z ^ (z >> 27)) * 0x94d049bb133111eb

	return z ^ (z >> 31)
}

func (r *c15Rand) intn(n int) int { return int(r.u64() % uint64(n)) }

type c15Addr string

func (a c15Addr) Network() string { return "udp" }
func (a c15Addr) String() string  { return string(a) }

// address 0 is a nil net.Addr, 1..4 are distinct addresses
func c15AddrOf(i int) net.Addr {
	if i == 0 {
		return nil
	}

	return c15Addr(fmt.Sprintf("192.0.2.%d:%d", i, 5000+i))
}

type c15Op struct {
	K      string     `json:"k"`
	A      int        `json:"a"`
	Act    int        `json:"act"`
	B      uint64     `json:"b"`
	En     bool       `json:"en"`
	Cookie uint64     `json:"cookie"`
	Now    uint64     `json:"now"`
	Res    bool       `json:"res"`
	R      uint64     `json:"r"`
	S      uint64     `json:"s"`
	Dump   [][]uint64 `json:"dump"`
}

type c15Case struct {
	Kind    string  `json:"kind"`
	Ops     []c15Op `json:"ops"`
	WrapBad string  `json:"wrap_bad,omitempty"`
}

const c15Offset = uint64(time.Second) // model time = virtual time since bubble start + 1 s (> 0)

func c15Cookie(c [protocol.ReturnRoutabilityCheckCookieLength]byte) uint64 {
	return binary.BigEndian.Uint64(c[:])
}

func c15CookieBytes(v uint64) [protocol.ReturnRoutabilityCheckCookieLength]byte {
	var c [protocol.ReturnRoutabilityCheckCookieLength]byte
	binary.BigEndian.PutUint64(c[:], v)

	return c
}

func c15Dump(m *Manager, t0 time.Time, nAddrs int) [][]uint64 {
	m.mu.Lock()
	defer m.mu.Unlock()
	out := [][]uint64{}
	known := 0
	for i := 0; i < nAddrs; i++ {
		p := m.paths[pathKey(c15AddrOf(i))]
		if p == nil {
			continue
		}
		known++
		exp := uint64(0)
		if !p.expiresAt.IsZero() {
			exp = uint64(p.expiresAt.Sub(t0)) + c15Offset
		}
		pend := uint64(0)
		if p.challengePending {
			pend = 1
		}
		out = append(out, []uint64{uint64(i), p.receivedBytes, p.sentBytes, c15Cookie(p.cookie), pend, exp})
	}
	if known != len(m.paths) {
		out = append(out, []uint64{999, 0, 0, 0, 0, 0}) // a key outside the address universe
	}
	sort.Slice(out, func(i, j int) bool { return out[i][0] < out[j][0] })

	return out
}

func c15RunCase(t *testing.T, rng *c15Rand, nOps int, directed time.Duration) c15Case {
	t.Helper()
	res := c15Case{Kind: "unit"}
	synctest.Test(t, func(t *testing.T) {
		const nAddrs = 5
		m := &Manager{}
		t0 := time.Now()
		now := func() uint64 { return uint64(time.Since(t0)) + c15Offset }
		jumps := []time.Duration{
			0, 1, 500 * time.Millisecond, 999 * time.Millisecond, time.Second - 1, time.Second,
			time.Second + 1, 1001 * time.Millisecond, 2 * time.Second, 300 * time.Millisecond,
		}
		sizes := []uint64{0, 1, 10, 30, 31, 100, 1500, 1 << 31, math.MaxInt64}
		active := 1
		lastDump := ""
		cookieOf := func(a int) (uint64, bool) {
			m.mu.Lock()
			defer m.mu.Unlock()
			p := m.paths[pathKey(c15AddrOf(a))]
			if p == nil {
				return 0, false
			}

			return c15Cookie(p.cookie), true
		}
		pickCookie := func(a int) uint64 {
			switch rng.intn(6) {
			case 0:
				return rng.u64() // wrong
			case 1: // the cookie of another address
				if c, ok := cookieOf(1 + rng.intn(nAddrs-1)); ok {
					return c
				}
			}
			if c, ok := cookieOf(a); ok {
				return c
			}

			return rng.u64()
		}
		emit := func(op c15Op) {
			op.Now = now()
			op.Dump = c15Dump(m, t0, nAddrs)
			if len(res.Ops) > 0 && fmt.Sprint(op.Dump) == lastDump {
				op.Dump = nil
			} else {
				lastDump = fmt.Sprint(op.Dump)
			}
			res.Ops = append(res.Ops, op)
		}
		if directed > 0 {
			// the candidate keeps sending while its challenge is pending; the response comes at
			// t0+directed: accepted iff directed < 1 s, however recent the candidate's last record
			const gap = 300 * time.Millisecond
			a, act := 2+rng.intn(2), 1
			addr, actAddr := c15AddrOf(a), c15AddrOf(act)
			sz := uint64(40 + rng.intn(100))
			m.recordReceived(addr, actAddr, int(sz))
			emit(c15Op{K: "recv", A: a, Act: act, B: sz})
			c, ok, err := m.Start(true, addr, actAddr)
			if err != nil {
				t.Fatalf("Start: %v", err)
			}
			emit(c15Op{K: "start", A: a, Act: act, En: true, Cookie: c15Cookie(c), Res: ok})
			elapsed := time.Duration(0)
			for elapsed+gap < directed {
				time.Sleep(gap)
				synctest.Wait()
				elapsed += gap
				emit(c15Op{K: "purge", A: a, Act: act})
				m.recordReceived(addr, actAddr, int(sz))
				emit(c15Op{K: "recv", A: a, Act: act, B: sz})
			}
			time.Sleep(directed - elapsed)
			synctest.Wait()
			emit(c15Op{K: "purge", A: a, Act: act})
			r := m.HandleResponse(addr, c)
			emit(c15Op{K: "resp", A: a, Act: act, Cookie: c15Cookie(c), Res: r})
			r2 := m.Reserve(addr, actAddr, 10) == nil
			emit(c15Op{K: "reserve", A: a, Act: act, B: 10, Res: r2})

			return
		}
		for i := 0; i < nOps; i++ {
			if rng.intn(12) == 0 {
				active = rng.intn(3) // sometimes nil or another address becomes the active one
			}
			a := rng.intn(nAddrs)
			if rng.intn(3) != 0 {
				a = 2 + rng.intn(2) // concentrate on two candidates
			}
			op := c15Op{A: a, Act: active}
			addr, act := c15AddrOf(a), c15AddrOf(active)
			switch rng.intn(12) {
			case 0, 1:
				d := jumps[rng.intn(len(jumps))]
				time.Sleep(d)
				synctest.Wait()
				op.K = "purge"
			case 2, 3:
				op.K, op.B = "recv", sizes[rng.intn(len(sizes))]
				m.recordReceived(addr, act, int(op.B))
			case 4:
				// WrapReplayMarker: the record is counted once however often the marker runs
				op.B, op.En = sizes[1+rng.intn(6)], rng.intn(4) != 0
				latest := rng.intn(2) == 0
				calls := 0
				wrapped := m.WrapReplayMarker(func() bool { calls++; return latest }, addr, int(op.B),
					func() net.Addr { return act }, op.En)
				r1, r2 := wrapped(), wrapped()
				if r1 != latest || r2 != latest || calls != 2 {
					res.WrapBad = fmt.Sprintf("op %d: wrapped marker returned %v,%v for %v (%d calls)", i, r1, r2, latest, calls)
				}
				if m.WrapReplayMarker(nil, addr, 1, func() net.Addr { return act }, true) != nil {
					res.WrapBad = "nil marker wrapped"
				}
				if op.En {
					op.K = "recv"
				} else {
					op.K = "nop"
				}
			case 5, 6:
				op.K, op.En = "start", rng.intn(8) != 0
				c, ok, err := m.Start(op.En, addr, act)
				if err != nil {
					t.Fatalf("Start: %v", err)
				}
				op.Cookie, op.Res = c15Cookie(c), ok
			case 7:
				op.K, op.Cookie = "cancel", pickCookie(a)
				m.Cancel(addr, c15CookieBytes(op.Cookie))
			case 8, 9:
				op.K, op.Cookie = "resp", pickCookie(a)
				op.Res = m.HandleResponse(addr, c15CookieBytes(op.Cookie))
			case 10:
				op.K = "reserve"
				op.B = sizes[rng.intn(len(sizes))]
				m.mu.Lock()
				if p := m.paths[pathKey(addr)]; p != nil && rng.intn(2) == 0 {
					limit := p.receivedBytes * 3
					if p.receivedBytes > math.MaxUint64/3 {
						limit = math.MaxUint64
					}
					if limit > p.sentBytes { // exactly the remaining budget, or one more
						op.B = limit - p.sentBytes + uint64(rng.intn(2))
						if op.B > math.MaxInt64 {
							op.B = math.MaxInt64
						}
					}
				}
				m.mu.Unlock()
				op.Res = m.Reserve(addr, act, int(op.B)) == nil
			default:
				// direct field preset on an existing path: counters near the uint64 limits
				m.mu.Lock()
				p := m.paths[pathKey(addr)]
				if p != nil {
					third := uint64(math.MaxUint64 / 3)
					rs := []uint64{third - 1, third, third + 1, math.MaxUint64 - 5, math.MaxUint64 - 1, math.MaxUint64, 1 << 62}
					p.receivedBytes = rs[rng.intn(len(rs))]
					limit := p.receivedBytes * 3
					if p.receivedBytes > third {
						limit = math.MaxUint64
					}
					ss := []uint64{0, limit - 1, limit - 10, limit, limit - 1500}
					p.sentBytes = ss[rng.intn(len(ss))]
					op.K, op.R, op.S = "preset", p.receivedBytes, p.sentBytes
				} else {
					op.K = "nop"
				}
				m.mu.Unlock()
			}
			op.Now = now()
			op.Dump = c15Dump(m, t0, nAddrs)
			if i > 0 && fmt.Sprint(op.Dump) == lastDump {
				op.Dump = nil // unchanged since the previous operation (emitted as null)
			} else {
				lastDump = fmt.Sprint(op.Dump)
			}
			res.Ops = append(res.Ops, op)
		}
	})

	return res
}

func TestVerifC15Manager(t *testing.T) {
	p := os.Getenv("VERIF_OUT")
	if p == "" {
		p = os.DevNull
	}
	f, err := os.Create(p)
	if err != nil {
		t.Fatal(err)
	}
	defer f.Close()
	var seed uint64 = 1
	if v := os.Getenv("VERIF_SEED"); v != "" {
		fmt.Sscanf(v, "%d", &seed)
	}
	rng := &c15Rand{s: seed ^ 0xc15a}
	n := 300
	if os.Getenv("VERIF_TIER") == "thorough" {
		n = 12000
	}
	write := func(c c15Case) {
		b, err := json.Marshal(c)
		if err != nil {
			t.Fatal(err)
		}
		_, _ = f.Write(append(b, '\n'))
	}
	for _, at := range []time.Duration{
		300 * time.Millisecond, 900 * time.Millisecond, time.Second - 1, time.Second, time.Second + 1,
		1200 * time.Millisecond, 1500 * time.Millisecond, 2500 * time.Millisecond, 5 * time.Second,
	} {
		write(c15RunCase(t, rng, 0, at))
	}
	for i := 0; i < n; i++ {
		c := c15RunCase(t, rng, 10+rng.intn(50), 0)
		b, err := json.Marshal(c)
		if err != nil {
			t.Fatal(err)
		}
		_, _ = f.Write(append(b, '\n'))
	}
}
