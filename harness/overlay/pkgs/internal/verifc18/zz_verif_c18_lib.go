//go:build verif

// Package verifc18 is the shared part of the C18 (wire codec) correspondence harness. It is
// injected with `go test -overlay` only; nothing here exists in /repo.
//
// A Codec wraps one Marshal/Unmarshal pair of the implementation. Run feeds it
//
//	(0) a fixed corpus, (a) encodings of generated valid values, (b) mutations of those
//	(every truncation point, every byte +-1/0/0xff, trailing garbage), (c) raw random bytes,
//	(d) exhaustively all short byte strings for the small codecs,
//	(e) "edge" values: fixed values at and beyond what a length prefix can express (and values
//	whose layout does not fit the decoding context) - Marshal must refuse them or emit an
//	encoding that decodes back to the value,
//
// and prints one JSON line per input with the observation (ok + field dump + canonical
// re-encoding | err | panic) plus the implementation-side monitor bits.
package verifc18

import (
	"encoding/hex"
	"encoding/json"
	"fmt"
	"os"
	"sync"
	"testing"
)

// ---------------------------------------------------------------- PRNG (SplitMix64)

type Rand struct{ s uint64 }

func NewRand(seed uint64) *Rand { return &Rand{s: seed} }

func (r *Rand) U64() uint64 {
	r.s += 0x9e3779b97f4a7c15
	z := r.s
	z = (z ^ (z >> 30)) * 0xbf58476d1ce4e5b9
	z = (z ^ (z >> 27)) * 0x94d049bb133111eb

	return z ^ (z >> 31)
}

func (r *Rand) Intn(n int) int {
	if n <= 0 {
		return 0
	}

	return int(r.U64() % uint64(n))
}

func (r *Rand) Bytes(n int) []byte {
	b := make([]byte, n)
	for i := range b {
		b[i] = byte(r.U64())
	}

	return b
}

func (r *Rand) Chance(pct int) bool { return r.Intn(100) < pct }

// Pick returns one of the given values.
func (r *Rand) Pick(vs ...int) int { return vs[r.Intn(len(vs))] }

// Len returns a length biased towards the small and the boundary values.
func (r *Rand) Len(max int) int {
	switch r.Intn(6) {
	case 0:
		return 0
	case 1:
		return 1
	case 2:
		return max
	default:
		return r.Intn(max + 1)
	}
}

func Seed() uint64 {
	var s uint64 = 1
	if v := os.Getenv("VERIF_SEED"); v != "" {
		fmt.Sscanf(v, "%d", &s)
	}

	return s
}

func Thorough() bool { return os.Getenv("VERIF_TIER") == "thorough" }

// ---------------------------------------------------------------- output

type Out struct {
	mu sync.Mutex
	f  *os.File
}

func NewOut(t *testing.T) *Out {
	t.Helper()
	p := os.Getenv("VERIF_OUT")
	if p == "" {
		p = os.DevNull
	}
	f, err := os.Create(p)
	if err != nil {
		t.Fatalf("VERIF_OUT: %v", err)
	}
	t.Cleanup(func() { _ = f.Close() })

	return &Out{f: f}
}

func (o *Out) Emit(v any) {
	b, err := json.Marshal(v)
	if err != nil {
		panic(err)
	}
	o.mu.Lock()
	defer o.mu.Unlock()
	_, _ = o.f.Write(append(b, '\n'))
}

// ---------------------------------------------------------------- dumps

// Dump is the canonical flattening of a decoded value: numbers as they are, byte strings as
// length followed by the bytes, lists as count followed by the elements.
type Dump []uint64

func (d *Dump) N(v uint64)  { *d = append(*d, v) }
func (d *Dump) Bool(v bool) { *d = append(*d, b2u(v)) }
func (d *Dump) Bytes(b []byte) {
	*d = append(*d, uint64(len(b)))
	for _, x := range b {
		*d = append(*d, uint64(x))
	}
}

// Raw appends the bytes without a length.
func (d *Dump) Raw(b []byte) {
	for _, x := range b {
		*d = append(*d, uint64(x))
	}
}

func b2u(v bool) uint64 {
	if v {
		return 1
	}

	return 0
}

func dumpEq(a, b Dump) bool {
	if len(a) != len(b) {
		return false
	}
	for i := range a {
		if a[i] != b[i] {
			return false
		}
	}

	return true
}

// ---------------------------------------------------------------- codecs

// Decoded is what the implementation made of an input.
type Decoded struct {
	Dump     Dump
	Reenc    []byte // Marshal of the decoded value
	ReencErr bool   // Marshal of the decoded value failed
}

type Codec struct {
	Name string
	ID   int
	Ctx  []int
	// Decode runs the implementation's Unmarshal (err != nil: rejected) and, if the input was
	// accepted, dumps the decoded value and re-marshals it.
	Decode func(in []byte) (*Decoded, error)
	// Gen builds a random valid value with the implementation's own types and returns its
	// dump and its Marshal; ok=false means "no value this time".
	Gen func(r *Rand) (Dump, []byte, bool)
	// Small codecs get the exhaustive short-input leg (all inputs of length <= 1, and length 2
	// over an alphabet); Tiny ones additionally get ALL 65536 two-byte inputs in the thorough tier.
	Small bool
	Tiny  bool
	// Corpus: fixed inputs run first (kind "corpus"); CorpusValid: fixed inputs that are
	// well-formed encodings and must therefore be accepted (kind "cvalid"). Truncations and
	// trailing-garbage variants of both are run too (kinds "ctrunc"/"ctrail"), so that a
	// finding has an input that does not depend on the seed.
	Corpus      [][]byte
	CorpusValid [][]byte
	// Hint: plausible first bytes for the random leg.
	Hint []byte
	// Edges: fixed values at / beyond the limits of the encoding (kind "edge"), see Edge.
	Edges []Edge
}

// Edge is one fixed value handed to the implementation's encoder. Make returns the dump of the
// value and what Marshal made of it (err != nil: the encoder refused the value, which is always
// acceptable for a value the wire format cannot express). InRange marks the values that the wire
// format CAN express: the encoder must not refuse those.
type Edge struct {
	Name    string
	InRange bool
	Make    func() (Dump, []byte, error)
}

type Case struct {
	Codec string  `json:"codec"`
	ID    int     `json:"id"`
	Ctx   []int   `json:"ctx"`
	Kind  string  `json:"kind"`
	In    string  `json:"in"`
	Res   string  `json:"res"` // ok | err | panic
	Dump  Dump    `json:"dump"`
	Reenc *string `json:"reenc"` // nil: Marshal of the decoded value failed (or not ok)
	// monitors evaluated on the implementation
	FixBytes *bool  `json:"fix_bytes,omitempty"` // Marshal(Unmarshal(reenc)) == reenc
	FixVal   *bool  `json:"fix_val,omitempty"`   // dump(Unmarshal(reenc)) == dump
	VDump    Dump   `json:"vdump"`               // kind=valid: dump of the generated value
	Parent   string `json:"parent,omitempty"`    // kind=trunc/trail: the valid encoding it came from
	Panic    string `json:"panic,omitempty"`
	// kind=edge: name of the value, whether the wire format can express it, size of the encoding;
	// res is "refused" when Marshal returned an error. In/Reenc are cut to edgeKeep bytes (Len and
	// ReencSame keep what the monitors need).
	Edge      string `json:"edge,omitempty"`
	InRange   bool   `json:"in_range,omitempty"`
	Len       int    `json:"len,omitempty"`
	ReencSame *bool  `json:"reenc_same,omitempty"`
	DumpSame  *bool  `json:"dump_same,omitempty"`
	DumpLen   int    `json:"dump_len,omitempty"`
	Err       string `json:"err,omitempty"`
}

// edgeKeep is how many bytes of an edge encoding are written to the output (they are tens of
// kilobytes long and identified by their name, not by their bytes).
const edgeKeep = 48

func safeEdge(e *Edge) (d Dump, enc []byte, err error, pan string) {
	defer func() {
		if r := recover(); r != nil {
			pan = fmt.Sprint(r)
		}
	}()
	d, enc, err = e.Make()

	return d, enc, err, ""
}

// observeEdge runs one edge value: Marshal, and if that produced bytes, Unmarshal + Marshal of
// those bytes as for a generated valid value.
func observeEdge(c *Codec, e *Edge) Case {
	vd, enc, err, pan := safeEdge(e)
	base := Case{Codec: c.Name, ID: c.ID, Ctx: c.Ctx, Kind: "edge", Edge: e.Name, InRange: e.InRange}
	if base.Ctx == nil {
		base.Ctx = []int{}
	}
	switch {
	case pan != "":
		base.Res, base.Panic = "panic", "Marshal: "+pan

		return base
	case err != nil:
		base.Res, base.Err = "refused", err.Error()

		return base
	}
	cs := observe(c, "edge", enc)
	cs.Edge, cs.InRange, cs.Len = e.Name, e.InRange, len(enc)
	if cs.Res == "ok" {
		same := dumpEq(cs.Dump, vd)
		cs.DumpSame, cs.DumpLen = &same, len(cs.Dump)
		if cs.Reenc != nil {
			rs := *cs.Reenc == cs.In
			cs.ReencSame = &rs
		}
	}
	cut := func(h string) string {
		if len(h) > 2*edgeKeep {
			return h[:2*edgeKeep]
		}

		return h
	}
	cs.In = cut(cs.In)
	if cs.Reenc != nil {
		r := cut(*cs.Reenc)
		cs.Reenc = &r
	}
	if len(cs.Dump) > edgeKeep {
		cs.Dump = cs.Dump[:edgeKeep]
	}

	return cs
}

func safeDecode(c *Codec, in []byte) (d *Decoded, err error, pan string) {
	defer func() {
		if r := recover(); r != nil {
			pan = fmt.Sprint(r)
		}
	}()
	// the decoder gets its own copy: decoders may alias their input
	cp := append([]byte{}, in...)
	d, err = c.Decode(cp)

	return d, err, ""
}

func observe(c *Codec, kind string, in []byte) Case {
	cs := Case{Codec: c.Name, ID: c.ID, Ctx: c.Ctx, Kind: kind, In: hex.EncodeToString(in)}
	if cs.Ctx == nil {
		cs.Ctx = []int{}
	}
	d, err, pan := safeDecode(c, in)
	switch {
	case pan != "":
		cs.Res, cs.Panic = "panic", pan
	case err != nil:
		cs.Res = "err"
	default:
		cs.Res = "ok"
		cs.Dump = d.Dump
		if cs.Dump == nil {
			cs.Dump = Dump{}
		}
		if !d.ReencErr {
			h := hex.EncodeToString(d.Reenc)
			cs.Reenc = &h
			d2, err2, pan2 := safeDecode(c, d.Reenc)
			fb, fv := false, false
			if pan2 == "" && err2 == nil && !d2.ReencErr {
				fb = hex.EncodeToString(d2.Reenc) == h
				fv = dumpEq(d2.Dump, d.Dump)
			}
			cs.FixBytes, cs.FixVal = &fb, &fv
		}
	}

	return cs
}

// Run drives every codec through all legs.
func Run(t *testing.T, codecs []*Codec) {
	t.Helper()
	out := NewOut(t)
	thorough := Thorough()
	nValid, nRand := 7, 40
	if thorough {
		nValid, nRand = 120, 1500
	}
	if rp := os.Getenv("VERIF_C18_REPLAY"); rp != "" {
		replay(out, codecs, rp)

		return
	}
	for ci, c := range codecs {
		rnd := NewRand(Seed()*1000003 + uint64(c.ID)*7919 + uint64(ci))
		emitCorpus := func(kind string, in []byte) {
			out.Emit(observe(c, kind, in))
			parent := hex.EncodeToString(in)
			for k := 0; k < len(in); k++ {
				if k >= 64 && k < len(in)-8 { // long fixed inputs: the first 64 and the last 8 cuts
					continue
				}
				cs := observe(c, "ctrunc", in[:k])
				cs.Parent = parent
				out.Emit(cs)
			}
			for _, g := range [][]byte{{0}, {1}, {0xaa, 0xbb}} {
				cs := observe(c, "ctrail", append(append([]byte{}, in...), g...))
				cs.Parent = parent
				out.Emit(cs)
			}
		}
		for _, in := range c.Corpus {
			emitCorpus("corpus", in)
		}
		for _, in := range c.CorpusValid {
			emitCorpus("cvalid", in)
		}
		// (e)
		for i := range c.Edges {
			out.Emit(observeEdge(c, &c.Edges[i]))
		}
		// (a)+(b)
		for i := 0; c.Gen != nil && i < nValid; i++ {
			vd, enc, ok := c.Gen(rnd)
			if !ok {
				continue
			}
			cs := observe(c, "valid", enc)
			cs.VDump = vd
			if cs.VDump == nil {
				cs.VDump = Dump{}
			}
			out.Emit(cs)
			parent := hex.EncodeToString(enc)
			// every truncation point (sampled when long)
			for _, k := range positions(rnd, len(enc), 40, thorough) {
				cs := observe(c, "trunc", enc[:k])
				cs.Parent = parent
				out.Emit(cs)
			}
			// byte mutations
			for _, k := range positions(rnd, len(enc), 24, thorough) {
				for _, v := range []byte{enc[k] + 1, enc[k] - 1, 0, 0xff} {
					if v == enc[k] {
						continue
					}
					m := append([]byte{}, enc...)
					m[k] = v
					out.Emit(observe(c, "mut", m))
				}
			}
			// trailing garbage
			for n := 1; n <= 3; n++ {
				cs := observe(c, "trail", append(append([]byte{}, enc...), rnd.Bytes(n)...))
				cs.Parent = parent
				out.Emit(cs)
			}
			// re-framed variants: wherever a 1-, 2- or 3-byte big-endian field declares exactly
			// the number of bytes that follow it up to the end of the message (an outer length
			// prefix), the tail is cut or extended by a few bytes AND the prefix is patched to the
			// new tail length - a self-consistent frame around a ragged body (a vector of
			// fixed-size elements whose byte length is no multiple of the element size, a last
			// element cut short), which plain truncation and trailing garbage never produce
			for fi, fr := range reframed(rnd, enc) {
				if thorough && fi >= 12 { // the thorough tier has 17x more encodings: 12 variants each keep its volume in bounds
					break
				}
				cs := observe(c, "reframe", fr)
				cs.Parent = parent
				out.Emit(cs)
			}
		}
		// (c)
		for i := 0; i < nRand; i++ {
			b := rnd.Bytes(rnd.Len(48))
			if len(b) > 0 && len(c.Hint) > 0 && rnd.Chance(60) {
				b[0] = c.Hint[rnd.Intn(len(c.Hint))]
			}
			out.Emit(observe(c, "rand", b))
		}
		// (d)
		if c.Small {
			out.Emit(observe(c, "exh", []byte{}))
			for a := 0; a < 256; a++ {
				out.Emit(observe(c, "exh", []byte{byte(a)}))
			}
			alpha := []int{0, 1, 2, 3, 4, 8, 20, 22, 23, 25, 32, 64, 128, 253, 254, 255}
			if thorough {
				step := 4
				if c.Tiny {
					step = 1
				}
				alpha = alpha[:0]
				for a := 0; a < 256; a++ {
					if a%step == 0 || a < 34 || a > 250 || (a >= 60 && a <= 66) || (a >= 126 && a <= 130) {
						alpha = append(alpha, a)
					}
				}
			}
			for _, a := range alpha {
				for _, b := range alpha {
					out.Emit(observe(c, "exh", []byte{byte(a), byte(b)}))
				}
			}
		}
	}
}

// positions returns all indices 0..n-1 when n<=limit (or always in the thorough tier up to
// 4*limit), otherwise the first and last few plus a random sample.
func positions(r *Rand, n, limit int, thorough bool) []int {
	if thorough {
		limit *= 4
	}
	if n <= limit {
		out := make([]int, n)
		for i := range out {
			out[i] = i
		}

		return out
	}
	seen := map[int]bool{}
	out := []int{}
	add := func(i int) {
		if i >= 0 && i < n && !seen[i] {
			seen[i] = true
			out = append(out, i)
		}
	}
	for i := 0; i < limit/3; i++ {
		add(i)
		add(n - 1 - i)
	}
	for len(out) < limit {
		add(r.Intn(n))
	}

	return out
}

// replay re-runs one recorded input (bin/check C18 --replay): VERIF_C18_REPLAY is the JSON
// {"id":..,"ctx":[..],"in":hex,"kind":..,"parent":hex} or {"id":..,"ctx":[..],"edge":name}; the parent (the valid encoding a
// truncation / trailing-garbage case was derived from) is observed first.
func replay(out *Out, codecs []*Codec, spec string) {
	var rp struct {
		ID     int    `json:"id"`
		Ctx    []int  `json:"ctx"`
		In     string `json:"in"`
		Kind   string `json:"kind"`
		Parent string `json:"parent"`
		Edge   string `json:"edge"`
	}
	if err := json.Unmarshal([]byte(spec), &rp); err != nil {
		panic(err)
	}
	for _, c := range codecs {
		if c.ID != rp.ID || fmt.Sprint(c.Ctx) != fmt.Sprint(rp.Ctx) && !(len(c.Ctx) == 0 && len(rp.Ctx) == 0) {
			continue
		}
		if rp.Edge != "" {
			for i := range c.Edges {
				if c.Edges[i].Name == rp.Edge {
					out.Emit(observeEdge(c, &c.Edges[i]))
				}
			}

			continue
		}
		if rp.Parent != "" {
			if p, err := hex.DecodeString(rp.Parent); err == nil {
				out.Emit(observe(c, "cvalid", p))
			}
		}
		in, err := hex.DecodeString(rp.In)
		if err != nil {
			panic(err)
		}
		kind := rp.Kind
		if kind == "valid" { // the generated value is gone; what remains checkable is "accepted"
			kind = "cvalid"
		}
		cs := observe(c, kind, in)
		cs.Parent = rp.Parent
		out.Emit(cs)
	}
}


// reframed returns variants of enc in which an outer length prefix was found and the tail it
// covers was shortened / extended with the prefix kept consistent.
func reframed(rnd *Rand, enc []byte) [][]byte {
	out := [][]byte{}
	for w := 1; w <= 3; w++ {
		for k := 0; k+w <= len(enc) && k < 48; k++ {
			val := 0
			for i := 0; i < w; i++ {
				val = val<<8 | int(enc[k+i])
			}
			tail := len(enc) - k - w
			if val != tail {
				continue
			}
			for _, delta := range []int{-1, -2, -3, -7, -8, -9, -15, 1, 2, 3, 8, 15} {
				nt := tail + delta
				if nt < 0 || nt >= 1<<(8*w) {
					continue
				}
				v := append([]byte{}, enc[:k+w]...)
				if delta < 0 {
					v = append(v, enc[k+w:k+w+nt]...)
				} else {
					v = append(v, enc[k+w:]...)
					v = append(v, rnd.Bytes(delta)...)
				}
				for i := 0; i < w; i++ {
					v[k+i] = byte(nt >> (8 * (w - 1 - i)))
				}
				out = append(out, v)
			}
			if len(out) >= 36 {
				return out
			}
		}
	}

	return out
}
