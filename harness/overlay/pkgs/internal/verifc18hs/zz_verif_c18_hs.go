//go:build verif

// Package verifc18hs holds the handshake-level part of the C18 harness (dumps, generators and
// codec wrappers over pkg/protocol/handshake) so that both the handshake and the recordlayer
// test packages can use it. Injected with `go test -overlay` only.
package verifc18hs

import (
	"bytes"
	"crypto/tls"

	"github.com/pion/dtls/v3/internal/ciphersuite/types"
	v "github.com/pion/dtls/v3/internal/verifc18"
	"github.com/pion/dtls/v3/pkg/crypto/hash"
	"github.com/pion/dtls/v3/pkg/crypto/signature"
	"github.com/pion/dtls/v3/pkg/crypto/signaturehash"
	"github.com/pion/dtls/v3/pkg/protocol"
	"github.com/pion/dtls/v3/pkg/protocol/handshake"
)

// ---------------------------------------------------------------- dumps

func dumpOBytes(d *v.Dump, b []byte) {
	if b == nil {
		d.N(0)

		return
	}
	d.N(1)
	d.Bytes(b)
}

func dumpBytesList(d *v.Dump, l [][]byte) {
	d.N(uint64(len(l)))
	for _, b := range l {
		d.Bytes(b)
	}
}

// DumpMessage appends the message tag (its handshake type) and its fields.
func DumpMessage(d *v.Dump, msg handshake.Message) {
	switch m := msg.(type) {
	case *handshake.MessageHelloVerifyRequest:
		d.N(3)
		d.N(uint64(m.Version.Major))
		d.N(uint64(m.Version.Minor))
		d.Bytes(m.Cookie)
	case *handshake.MessageFinished:
		d.N(20)
		d.Bytes(m.VerifyData)
	case *handshake.MessageServerHelloDone:
		d.N(14)
	case *handshake.MessageKeyUpdate:
		d.N(24)
		d.N(uint64(m.RequestUpdate))
	case *handshake.MessageRequestConnectionID:
		d.N(9)
		d.N(uint64(m.NumCIDs))
	case *handshake.MessageNewConnectionID:
		d.N(10)
		dumpBytesList(d, m.CIDs)
		d.N(uint64(m.Usage))
	case *handshake.MessageCertificate:
		d.N(11)
		dumpBytesList(d, m.Certificate)
	case *handshake.MessageCertificateVerify:
		d.N(15)
		d.N(uint64(m.HashAlgorithm))
		d.N(uint64(m.SignatureAlgorithm))
		d.Bytes(m.Signature)
	case *handshake.MessageClientKeyExchange:
		d.N(16)
		dumpOBytes(d, m.IdentityHint)
		dumpOBytes(d, m.PublicKey)
	default:
		d.N(999) // outside the model
	}
}

// DumpHandshake appends header and message of a decoded handshake envelope.
func DumpHandshake(d *v.Dump, h *handshake.Handshake) {
	d.N(uint64(h.Header.Type))
	d.N(uint64(h.Header.Length))
	d.N(uint64(h.Header.MessageSequence))
	d.N(uint64(h.Header.FragmentOffset))
	d.N(uint64(h.Header.FragmentLength))
	DumpMessage(d, h.Message)
}

// ---------------------------------------------------------------- generators

var sigAlgs = func() [][2]int { //nolint:gochecknoglobals
	out := [][2]int{}
	for s := 0; s < 1<<16; s++ {
		var alg signaturehash.Algorithm
		if alg.Unmarshal(tls.SignatureScheme(s)) == nil { // RSA-PSS schemes included
			out = append(out, [2]int{int(alg.Hash), int(alg.Signature)})
		}
	}

	return out
}()

func genBytesList(r *v.Rand, maxN, maxLen int) [][]byte {
	out := [][]byte{}
	for i, n := 0, r.Len(maxN); i < n; i++ {
		out = append(out, r.Bytes(r.Len(maxLen)))
	}

	return out
}

// GenClientKeyExchange builds a ClientKeyExchange that is valid under kx (2 = PSK, 4 = ECDHE).
func GenClientKeyExchange(r *v.Rand, kx int) *handshake.MessageClientKeyExchange {
	m := &handshake.MessageClientKeyExchange{}
	if kx&2 != 0 {
		m.IdentityHint = r.Bytes(r.Len(20))
	}
	if kx&4 != 0 {
		// opaque point<1..255>: an empty key is refused by Unmarshal (Marshal could emit it)
		m.PublicKey = r.Bytes(r.Pick(1, 32, 65, 255, 1+r.Intn(255)))
	}

	return m
}

// GenMessage builds a random message of one of the modelled types; kx is the key-exchange
// context (ClientKeyExchange is only generated when it is non-zero).
func GenMessage(r *v.Rand, kx int) handshake.Message {
	for {
		switch r.Intn(9) {
		case 0:
			ver := protocol.Version1_2
			if r.Chance(30) {
				ver = protocol.Version{Major: byte(r.Intn(256)), Minor: byte(r.Intn(256))}
			}

			return &handshake.MessageHelloVerifyRequest{Version: ver, Cookie: r.Bytes(r.Pick(0, 1, 20, 32, 255, r.Intn(256)))}
		case 1:
			return &handshake.MessageFinished{VerifyData: r.Bytes(r.Pick(0, 12, 12, 32, r.Intn(40)))}
		case 2:
			return &handshake.MessageServerHelloDone{}
		case 3:
			return &handshake.MessageKeyUpdate{RequestUpdate: handshake.KeyUpdateRequest(r.Intn(2))}
		case 4:
			return &handshake.MessageRequestConnectionID{NumCIDs: uint8(r.Intn(256))}
		case 5:
			return &handshake.MessageNewConnectionID{
				CIDs:  genBytesList(r, 4, 12),
				Usage: handshake.ConnectionIDUsage(r.Intn(2)),
			}
		case 6:
			return &handshake.MessageCertificate{Certificate: genBytesList(r, 3, 40)}
		case 7:
			a := sigAlgs[r.Intn(len(sigAlgs))]

			return &handshake.MessageCertificateVerify{
				HashAlgorithm:      hash.Algorithm(a[0]),
				SignatureAlgorithm: signature.Algorithm(a[1]),
				Signature:          r.Bytes(r.Len(72)),
			}
		default:
			if kx != 0 {
				return GenClientKeyExchange(r, kx)
			}
		}
	}
}

// GenHandshake builds an envelope around a random modelled message (no key-exchange context,
// as inside RecordLayer.Unmarshal).
func GenHandshake(r *v.Rand) *handshake.Handshake {
	return &handshake.Handshake{
		Header:  handshake.Header{MessageSequence: uint16(r.Intn(1 << 16))},
		Message: GenMessage(r, 0),
	}
}

// ---------------------------------------------------------------- codecs

func msgCodec(name string, id int, ctx []int, fresh func() handshake.Message,
	gen func(r *v.Rand) handshake.Message, corpus [][]byte, corpusValid ...[]byte,
) *v.Codec {
	dump := func(m handshake.Message) v.Dump {
		d := v.Dump{}
		DumpMessage(&d, m)

		return d[1:] // without the tag
	}

	return &v.Codec{
		Name: name, ID: id, Ctx: ctx, Corpus: corpus, CorpusValid: corpusValid, Small: true,
		Decode: func(in []byte) (*v.Decoded, error) {
			m := fresh()
			if err := m.Unmarshal(in); err != nil {
				return nil, err
			}
			d := dump(m)
			out, err := m.Marshal()

			return &v.Decoded{Dump: d, Reenc: out, ReencErr: err != nil}, nil
		},
		Gen: func(r *v.Rand) (v.Dump, []byte, bool) {
			m := gen(r)
			if m == nil {
				return nil, nil, false
			}
			out, err := m.Marshal()

			return dump(m), out, err == nil
		},
	}
}

func envelopeCodec(kx int) *v.Codec {
	dump := func(h *handshake.Handshake) v.Dump {
		d := v.Dump{}
		DumpHandshake(&d, h)

		return d
	}
	corpus := [][]byte{
		// Finished carried as a fragment with offset 5: accepted, cannot be re-marshalled
		{20, 0, 0, 1, 0, 0, 0, 0, 5, 0, 0, 1, 170},
		// ClientKeyExchange with a two-byte body 00 00
		{16, 0, 0, 2, 0, 0, 0, 0, 0, 0, 0, 2, 0, 0},
		// ClientKeyExchange: declared public key length 1, three bytes follow
		{16, 0, 0, 4, 0, 0, 0, 0, 0, 0, 0, 4, 1, 170, 187, 204},
	}

	return &v.Codec{
		Name: "handshake", ID: 11, Ctx: []int{kx}, Corpus: corpus,
		Decode: func(in []byte) (*v.Decoded, error) {
			h := handshake.Handshake{KeyExchangeAlgorithm: types.KeyExchangeAlgorithm(kx)}
			if err := h.Unmarshal(in); err != nil {
				return nil, err
			}
			d := dump(&h) // before Marshal: Marshal rewrites the header
			out, err := h.Marshal()

			return &v.Decoded{Dump: d, Reenc: out, ReencErr: err != nil}, nil
		},
		Gen: func(r *v.Rand) (v.Dump, []byte, bool) {
			h := handshake.Handshake{
				Header:               handshake.Header{MessageSequence: uint16(r.Intn(1 << 16))},
				Message:              GenMessage(r, kx),
				KeyExchangeAlgorithm: types.KeyExchangeAlgorithm(kx),
			}
			out, err := h.Marshal()
			if err != nil {
				return nil, nil, false
			}

			return dump(&h), out, true
		},
		Hint: []byte{0, 1, 2, 3, 4, 8, 9, 10, 11, 12, 13, 14, 15, 16, 20, 24},
	}
}

// ---------------------------------------------------------------- edge values

// edgeOf wraps a fixed message as an edge value of its codec: the dump is the one the message
// codecs use (fields without the message tag).
func edgeOf(name string, inRange bool, mk func() handshake.Message) v.Edge {
	return v.Edge{Name: name, InRange: inRange, Make: func() (v.Dump, []byte, error) {
		m := mk()
		d := v.Dump{}
		DumpMessage2(&d, m)
		out, err := m.Marshal()

		return d[1:], out, err
	}}
}

func fill(n int, b byte) []byte { return bytes.Repeat([]byte{b}, n) }

// clientKeyExchangeEdges: vectors at and one past what their length prefix can hold, and the
// values whose fields do not match the key-exchange context kx (Marshal picks the layout from
// the nil-ness of the fields, Unmarshal from kx).
func clientKeyExchangeEdges(kx int) []v.Edge {
	alg := types.KeyExchangeAlgorithm(kx)
	mk := func(id, pk []byte) func() handshake.Message {
		return func() handshake.Message {
			return &handshake.MessageClientKeyExchange{IdentityHint: id, PublicKey: pk, KeyExchangeAlgorithm: alg}
		}
	}
	switch kx {
	case 2:
		return []v.Edge{
			edgeOf("identity-65535", true, mk(fill(65535, 0x69), nil)),
			edgeOf("identity-65536", false, mk(fill(65536, 0x69), nil)),
			edgeOf("public-key-under-psk", false, mk([]byte("id"), fill(32, 0x20))),
		}
	case 4:
		return []v.Edge{
			edgeOf("public-key-255", true, mk(nil, fill(255, 0x20))),
			edgeOf("public-key-256", false, mk(nil, fill(256, 0x20))),
			edgeOf("identity-under-ecdhe", false, mk([]byte("id"), fill(32, 0x20))),
		}
	case 6:
		return []v.Edge{
			edgeOf("identity-65535-public-key-255", true, mk(fill(65535, 0x69), fill(255, 0x20))),
			edgeOf("identity-65536", false, mk(fill(65536, 0x69), fill(32, 0x20))),
			edgeOf("no-identity-under-ecdhe-psk", false, mk(nil, fill(32, 0x20))),
			edgeOf("no-public-key-under-ecdhe-psk", false, mk([]byte("id"), nil)),
		}
	}

	return nil
}

// Codecs returns the handshake-level codecs: envelope under every key-exchange context (11),
// HelloVerifyRequest (12), ClientKeyExchange (13), CertificateVerify (14), Certificate (15),
// NewConnectionID (16), KeyUpdate (17).
func Codecs() []*v.Codec {
	out := []*v.Codec{envelopeCodec(0), envelopeCodec(2), envelopeCodec(4), envelopeCodec(6)}
	out = append(out, msgCodec("hello_verify_request", 12, nil,
		func() handshake.Message { return &handshake.MessageHelloVerifyRequest{} },
		func(r *v.Rand) handshake.Message {
			return &handshake.MessageHelloVerifyRequest{Version: protocol.Version1_2, Cookie: r.Bytes(r.Pick(0, 1, 20, 255, r.Intn(256)))}
		}, nil))
	out[len(out)-1].Edges = []v.Edge{
		edgeOf("cookie-255", true, func() handshake.Message {
			return &handshake.MessageHelloVerifyRequest{Version: protocol.Version1_2, Cookie: fill(255, 0xc0)}
		}),
		edgeOf("cookie-256", false, func() handshake.Message {
			return &handshake.MessageHelloVerifyRequest{Version: protocol.Version1_2, Cookie: fill(256, 0xc0)}
		}),
	}
	for _, kx := range []int{0, 2, 4, 6} {
		kx := kx
		// regression inputs of the repaired decoder (1fc4918): 0000 used to index past the end
		// under ECDHE-PSK; 01aa00 / 01aabbcc used to take everything after the length byte
		corpus := [][]byte{{0, 0}, {1, 170, 0}, {1, 170, 187, 204}, {0, 1, 9, 1, 170, 187}, {0}, {0, 0, 0}}
		out = append(out, msgCodec("client_key_exchange", 13, []int{kx},
			func() handshake.Message {
				return &handshake.MessageClientKeyExchange{KeyExchangeAlgorithm: types.KeyExchangeAlgorithm(kx)}
			},
			func(r *v.Rand) handshake.Message {
				if kx == 0 { // no value is decodable without a key-exchange context
					return nil
				}

				return GenClientKeyExchange(r, kx)
			}, corpus, map[int][][]byte{
				2: {{0, 1, 9}},                         // identity "\x09"
				4: {{1, 170}},                          // one-byte public key
				6: {{0, 1, 9, 1, 170}, {0, 0, 1, 170}}, // identity + key, empty identity + key
			}[kx]...))
		out[len(out)-1].Edges = clientKeyExchangeEdges(kx)
	}
	out = append(out, msgCodec("certificate_verify", 14, nil,
		func() handshake.Message { return &handshake.MessageCertificateVerify{} },
		func(r *v.Rand) handshake.Message {
			a := sigAlgs[r.Intn(len(sigAlgs))]

			return &handshake.MessageCertificateVerify{
				HashAlgorithm: hash.Algorithm(a[0]), SignatureAlgorithm: signature.Algorithm(a[1]),
				Signature: r.Bytes(r.Len(72)),
			}
		}, [][]byte{{8, 4, 0, 1, 170}}))
	cvEdge := func(n int) func() handshake.Message {
		return func() handshake.Message {
			return &handshake.MessageCertificateVerify{
				HashAlgorithm: hash.SHA256, SignatureAlgorithm: signature.ECDSA, Signature: fill(n, 0x51),
			}
		}
	}
	out[len(out)-1].Edges = []v.Edge{
		edgeOf("signature-65535", true, cvEdge(65535)),
		edgeOf("signature-65536", false, cvEdge(65536)),
	}
	out = append(out, msgCodec("certificate", 15, nil,
		func() handshake.Message { return &handshake.MessageCertificate{} },
		func(r *v.Rand) handshake.Message {
			return &handshake.MessageCertificate{Certificate: genBytesList(r, 3, 30)}
		}, nil))
	out = append(out, msgCodec("new_connection_id", 16, nil,
		func() handshake.Message { return &handshake.MessageNewConnectionID{} },
		func(r *v.Rand) handshake.Message {
			return &handshake.MessageNewConnectionID{CIDs: genBytesList(r, 4, 10), Usage: handshake.ConnectionIDUsage(r.Intn(2))}
		}, nil))
	cidEdge := func(n, size int) func() handshake.Message {
		return func() handshake.Message {
			m := &handshake.MessageNewConnectionID{CIDs: [][]byte{}}
			for i := 0; i < n; i++ {
				m.CIDs = append(m.CIDs, fill(size, byte(i)))
			}

			return m
		}
	}
	out[len(out)-1].Edges = []v.Edge{
		edgeOf("cid-255", true, cidEdge(1, 255)),
		edgeOf("cid-256", false, cidEdge(1, 256)),
		edgeOf("cids-65535-bytes", true, cidEdge(257, 254)), // 257 * (1 + 254) = 65535
		edgeOf("cids-65536-bytes", false, cidEdge(256, 255)), // 256 * (1 + 255) = 65536
	}
	out = append(out, msgCodec("key_update", 17, nil,
		func() handshake.Message { return &handshake.MessageKeyUpdate{} },
		func(r *v.Rand) handshake.Message {
			return &handshake.MessageKeyUpdate{RequestUpdate: handshake.KeyUpdateRequest(r.Intn(2))}
		}, nil))

	return out
}
