//go:build verif

package verifc18hs

// Second part of the handshake-level C18 harness: the messages that carry extension blocks
// (ClientHello, ServerHello, NewSessionTicket, EncryptedExtensions, Certificate13,
// CertificateRequest13), ServerKeyExchange, CertificateRequest, the envelope around them and
// the extension payload types. None of these has a Coq model yet (codec ids >= 100): they are
// checked by the implementation-side monitors only.

import (
	"crypto/tls"
	"encoding/hex"
	"strings"
	"time"

	"github.com/pion/dtls/v3/internal/ciphersuite/types"
	v "github.com/pion/dtls/v3/internal/verifc18"
	"github.com/pion/dtls/v3/pkg/crypto/clientcertificate"
	"github.com/pion/dtls/v3/pkg/crypto/elliptic"
	"github.com/pion/dtls/v3/pkg/crypto/signature"
	"github.com/pion/dtls/v3/pkg/crypto/signaturehash"
	"github.com/pion/dtls/v3/pkg/protocol"
	"github.com/pion/dtls/v3/pkg/protocol/extension"
	extension12 "github.com/pion/dtls/v3/pkg/protocol/extension/dtls12"
	extension13 "github.com/pion/dtls/v3/pkg/protocol/extension/dtls13"
	"github.com/pion/dtls/v3/pkg/protocol/handshake"
)

// ---------------------------------------------------------------- extension dumps

// ExtPayload is an extension payload type with both directions of its codec.
type ExtPayload interface {
	extension.Value
	extension.PayloadUnmarshaller
}

// extPtr maps the value form of every concrete extension type to its pointer form (decoders
// produce pointers, except for Raw; callers may build either).
func extPtr(e extension.Value) extension.Value { //nolint:cyclop
	switch x := e.(type) {
	case extension.Raw:
		return &x
	case extension.ConnectionID:
		return &x
	case extension.ServerNameOffer:
		return &x
	case extension.ServerNameAck:
		return &x
	case extension.ALPNOffer:
		return &x
	case extension.ALPNSelection:
		return &x
	case extension.SRTPOffer:
		return &x
	case extension.SRTPSelection:
		return &x
	case extension.SupportedGroups:
		return &x
	case extension.SignatureAlgorithms:
		return &x
	case extension.CertificateSignatureAlgorithms:
		return &x
	case extension.ReturnRoutabilityCheck:
		return &x
	case extension12.ExtendedMasterSecret:
		return &x
	case extension12.RenegotiationInfo:
		return &x
	case extension12.SupportedPointFormats:
		return &x
	case extension13.CertificateAuthorities:
		return &x
	case extension13.Cookie:
		return &x
	case extension13.EarlyData:
		return &x
	case extension13.MaxEarlyData:
		return &x
	case extension13.ClientKeyShare:
		return &x
	case extension13.ServerKeyShare:
		return &x
	case extension13.RetryKeyShare:
		return &x
	case extension13.OIDFilters:
		return &x
	case extension13.PostHandshakeAuth:
		return &x
	case extension13.OfferedPSKs:
		return &x
	case extension13.SelectedPSK:
		return &x
	case extension13.PSKKeyExchangeModes:
		return &x
	case extension13.OfferedVersions:
		return &x
	case extension13.SelectedVersion:
		return &x
	}

	return e
}

func dumpU16s(d *v.Dump, l []uint16) {
	d.N(uint64(len(l)))
	for _, x := range l {
		d.N(uint64(x))
	}
}

func dumpKeyShareEntry(d *v.Dump, e *extension13.KeyShareEntry) {
	d.N(uint64(e.Group))
	d.Bytes(e.KeyExchange)
}

// DumpExtensionValue dumps all exported fields of one extension payload (without its type id).
// Raw: the Type field is what ExtensionType returns, so only Data is dumped.
func DumpExtensionValue(d *v.Dump, e extension.Value) { //nolint:cyclop,gocyclo
	switch x := extPtr(e).(type) {
	case *extension.Raw:
		d.Bytes(x.Data)
	case *extension.ConnectionID:
		d.Bytes(x.CID)
	case *extension.ServerNameOffer:
		d.Bytes([]byte(x.ServerName))
	case *extension.ServerNameAck:
	case *extension.ALPNOffer:
		d.N(uint64(len(x.Protocols)))
		for _, p := range x.Protocols {
			d.Bytes([]byte(p))
		}
	case *extension.ALPNSelection:
		d.Bytes([]byte(x.Protocol))
	case *extension.SRTPOffer:
		d.N(uint64(len(x.ProtectionProfiles)))
		for _, p := range x.ProtectionProfiles {
			d.N(uint64(p))
		}
		d.Bytes(x.MasterKeyIdentifier)
	case *extension.SRTPSelection:
		d.N(uint64(x.ProtectionProfile))
		d.Bytes(x.MasterKeyIdentifier)
	case *extension.SupportedGroups:
		d.N(uint64(len(x.Groups)))
		for _, g := range x.Groups {
			d.N(uint64(g))
		}
	case *extension.SignatureAlgorithms:
		dumpU16s(d, x.Schemes)
	case *extension.CertificateSignatureAlgorithms:
		dumpU16s(d, x.Schemes)
	case *extension.ReturnRoutabilityCheck:
	case *extension12.ExtendedMasterSecret:
	case *extension12.RenegotiationInfo:
		d.N(uint64(x.RenegotiatedConnection))
	case *extension12.SupportedPointFormats:
		d.N(uint64(len(x.PointFormats)))
		for _, f := range x.PointFormats {
			d.N(uint64(f))
		}
	case *extension13.CertificateAuthorities:
		dumpBytesList(d, x.Authorities)
	case *extension13.Cookie:
		d.Bytes(x.Cookie)
	case *extension13.EarlyData:
	case *extension13.MaxEarlyData:
		d.N(uint64(x.Size))
	case *extension13.ClientKeyShare:
		d.N(uint64(len(x.Shares)))
		for i := range x.Shares {
			dumpKeyShareEntry(d, &x.Shares[i])
		}
	case *extension13.ServerKeyShare:
		dumpKeyShareEntry(d, &x.Share)
	case *extension13.RetryKeyShare:
		d.N(uint64(x.SelectedGroup))
	case *extension13.OIDFilters:
		d.N(uint64(len(x.Filters)))
		for _, f := range x.Filters {
			d.Bytes(f.OID)
			d.Bytes(f.Values)
		}
	case *extension13.PostHandshakeAuth:
	case *extension13.OfferedPSKs:
		d.N(uint64(len(x.Identities)))
		for _, id := range x.Identities {
			d.Bytes(id.Identity)
			d.N(uint64(id.ObfuscatedTicketAge))
		}
		d.N(uint64(len(x.Binders)))
		for _, b := range x.Binders {
			d.Bytes(b)
		}
	case *extension13.SelectedPSK:
		d.N(uint64(x.Identity))
	case *extension13.PSKKeyExchangeModes:
		d.N(uint64(len(x.Modes)))
		for _, m := range x.Modes {
			d.N(uint64(m))
		}
	case *extension13.OfferedVersions:
		d.N(uint64(len(x.Versions)))
		for _, ver := range x.Versions {
			d.N(uint64(ver.Major))
			d.N(uint64(ver.Minor))
		}
	case *extension13.SelectedVersion:
		d.N(uint64(x.Version.Major))
		d.N(uint64(x.Version.Minor))
	default:
		// a concrete type this harness does not know: its payload encoding
		b, err := e.MarshalData()
		d.Bool(err != nil)
		d.Bytes(b)
	}
}

// DumpExtensions dumps an extension list: count, then per extension its type id and fields.
func DumpExtensions(d *v.Dump, exts []extension.Value) {
	d.N(uint64(len(exts)))
	for _, e := range exts {
		if e == nil {
			d.N(1 << 32) // no type id is this large

			continue
		}
		d.N(uint64(e.ExtensionType()))
		DumpExtensionValue(d, e)
	}
}

// ---------------------------------------------------------------- extension generators

var knownCurves = []elliptic.Curve{elliptic.P256, elliptic.P384, elliptic.X25519, elliptic.X25519MLKEM768} //nolint:gochecknoglobals

func genCurve(r *v.Rand) elliptic.Curve {
	if r.Chance(20) {
		return elliptic.Curve(r.Intn(1 << 16))
	}

	return knownCurves[r.Intn(len(knownCurves))]
}

// genCurves returns n distinct groups.
func genCurves(r *v.Rand, n int) []elliptic.Curve {
	out := []elliptic.Curve{}
	seen := map[elliptic.Curve]bool{}
	for len(out) < n {
		c := genCurve(r)
		if !seen[c] {
			seen[c] = true
			out = append(out, c)
		}
	}

	return out
}

func genVersion(r *v.Rand) protocol.Version {
	switch r.Intn(5) {
	case 0:
		return protocol.Version1_0
	case 1:
		return protocol.Version1_3
	case 2:
		return protocol.Version{Major: byte(r.Intn(256)), Minor: byte(r.Intn(256))}
	default:
		return protocol.Version1_2
	}
}

func genU16s(r *v.Rand, n int) []uint16 {
	out := []uint16{}
	for i := 0; i < n; i++ {
		if r.Chance(70) {
			out = append(out, uint16(r.Pick(0x0403, 0x0503, 0x0603, 0x0807, 0x0804, 0x0805, 0x0806, 0x0401, 0x0501, 0x0601)))
		} else {
			out = append(out, uint16(r.Intn(1<<16)))
		}
	}

	return out
}

func genName(r *v.Rand, maxLen int) string {
	b := r.Bytes(1 + r.Intn(maxLen))
	if r.Chance(70) {
		const alpha = "abcdefghijklmnopqrstuvwxyz0123456789-."
		for i := range b {
			b[i] = alpha[int(b[i])%len(alpha)]
		}
	}
	if b[len(b)-1] == '.' { // a trailing dot is rejected by server_name
		b[len(b)-1] = 'x'
	}

	return string(b)
}

func genSRTPProfiles(r *v.Rand, n int) []extension.SRTPProtectionProfile {
	out := []extension.SRTPProtectionProfile{}
	for i := 0; i < n; i++ {
		if r.Chance(80) {
			out = append(out, extension.SRTPProtectionProfile(1+r.Intn(8)))
		} else {
			out = append(out, extension.SRTPProtectionProfile(r.Intn(1<<16)))
		}
	}

	return out
}

func genKeyShareEntry(r *v.Rand, g elliptic.Curve) extension13.KeyShareEntry {
	return extension13.KeyShareEntry{Group: g, KeyExchange: r.Bytes(r.Pick(1, 32, 1+r.Intn(40)))}
}

func genClientKeyShare(r *v.Rand, groups []elliptic.Curve) *extension13.ClientKeyShare {
	ks := &extension13.ClientKeyShare{Shares: []extension13.KeyShareEntry{}}
	for _, g := range groups {
		ks.Shares = append(ks.Shares, genKeyShareEntry(r, g))
	}

	return ks
}

func genOfferedVersions(r *v.Rand) *extension13.OfferedVersions {
	ov := &extension13.OfferedVersions{Versions: []protocol.Version{}}
	for i, n := 0, 1+r.Intn(4); i < n; i++ {
		ov.Versions = append(ov.Versions, genVersion(r))
	}

	return ov
}

func genOfferedPSKs(r *v.Rand) *extension13.OfferedPSKs {
	o := &extension13.OfferedPSKs{Identities: []extension13.PSKIdentity{}, Binders: []extension13.PSKBinder{}}
	for i, n := 0, 1+r.Intn(3); i < n; i++ {
		o.Identities = append(o.Identities, extension13.PSKIdentity{
			Identity: r.Bytes(1 + r.Intn(20)), ObfuscatedTicketAge: uint32(r.U64()),
		})
		o.Binders = append(o.Binders, extension13.PSKBinder(r.Bytes(r.Pick(32, 33, 40))))
	}

	return o
}

func genOIDFilters(r *v.Rand) *extension13.OIDFilters {
	o := &extension13.OIDFilters{Filters: []extension13.OIDFilter{}}
	seen := map[string]bool{}
	for i, n := 0, r.Len(3); i < n; i++ {
		oid := r.Bytes(1 + r.Intn(10))
		if seen[string(oid)] {
			continue
		}
		seen[string(oid)] = true
		o.Filters = append(o.Filters, extension13.OIDFilter{OID: oid, Values: r.Bytes(r.Len(20))})
	}

	return o
}

func genAuthorities(r *v.Rand) *extension13.CertificateAuthorities {
	c := &extension13.CertificateAuthorities{Authorities: [][]byte{}}
	for i, n := 0, 1+r.Intn(3); i < n; i++ {
		c.Authorities = append(c.Authorities, r.Bytes(1+r.Intn(30)))
	}

	return c
}

func genALPNOffer(r *v.Rand) *extension.ALPNOffer {
	a := &extension.ALPNOffer{Protocols: []string{}}
	for i, n := 0, 1+r.Intn(4); i < n; i++ {
		a.Protocols = append(a.Protocols, genName(r, 12))
	}

	return a
}

func genPointFormats(r *v.Rand) *extension12.SupportedPointFormats {
	// only the uncompressed format survives UnmarshalData (others are filtered out, see corpus)
	s := &extension12.SupportedPointFormats{PointFormats: []elliptic.CurvePointFormat{}}
	for i, n := 0, r.Len(3); i < n; i++ {
		s.PointFormats = append(s.PointFormats, elliptic.CurvePointFormatUncompressed)
	}

	return s
}

func genModes(r *v.Rand) *extension13.PSKKeyExchangeModes {
	p := &extension13.PSKKeyExchangeModes{Modes: []extension13.PSKKeyExchangeMode{}}
	for i, n := 0, 1+r.Intn(3); i < n; i++ {
		p.Modes = append(p.Modes, extension13.PSKKeyExchangeMode(r.Pick(0, 1, 1, r.Intn(256))))
	}

	return p
}

// unknownExtTypes are extension types that are not in handshake's registry: they are kept as
// extension.Raw in every context.
var unknownExtTypes = []int{5, 18, 21, 35, 0x7777, 0xfe0d} //nolint:gochecknoglobals

func genRaw(r *v.Rand) extension.Raw {
	return extension.Raw{Type: extension.Type(unknownExtTypes[r.Intn(len(unknownExtTypes))]), Data: r.Bytes(r.Len(12))}
}

// ExtKind describes one concrete extension payload type.
type ExtKind struct {
	ID     int
	Name   string
	Fresh  func() ExtPayload
	Gen    func(r *v.Rand) ExtPayload
	Corpus [][]byte
}

func hx(s string) []byte {
	b, err := hex.DecodeString(strings.NewReplacer(" ", "", "\n", "", "\t", "").Replace(s))
	if err != nil {
		panic(err)
	}

	return b
}

func hxs(ss ...string) [][]byte {
	out := [][]byte{}
	for _, s := range ss {
		out = append(out, hx(s))
	}

	return out
}

// ExtKinds lists every type of pkg/protocol/extension{,/dtls12,/dtls13} that has
// MarshalData/UnmarshalData (ids 120..148).
func ExtKinds() []ExtKind { //nolint:maintidx
	return []ExtKind{
		{
			120, "connection_id", func() ExtPayload { return &extension.ConnectionID{} },
			func(r *v.Rand) ExtPayload { return &extension.ConnectionID{CID: r.Bytes(r.Len(20))} },
			hxs("00", "01aa", "02aa", "00aa"),
		},
		{
			121, "server_name_offer", func() ExtPayload { return &extension.ServerNameOffer{} },
			func(r *v.Rand) ExtPayload { return &extension.ServerNameOffer{ServerName: genName(r, 30)} },
			hxs("0004 00 0001 61", "0004 00 0001 2e", "0008 01 0001 62 00 0001 61", "0004 01 0001 62",
				"0008 00 0001 61 00 0001 62", "0000", "0003 00 0000"),
		},
		{
			122, "server_name_ack", func() ExtPayload { return &extension.ServerNameAck{} },
			func(*v.Rand) ExtPayload { return &extension.ServerNameAck{} }, nil,
		},
		{
			123, "alpn_offer", func() ExtPayload { return &extension.ALPNOffer{} },
			func(r *v.Rand) ExtPayload { return genALPNOffer(r) },
			hxs("0000", "0002 0161", "0001 00", "0004 0161 0162", "0003 0261"),
		},
		{
			124, "alpn_selection", func() ExtPayload { return &extension.ALPNSelection{} },
			func(r *v.Rand) ExtPayload { return &extension.ALPNSelection{Protocol: genName(r, 12)} },
			hxs("0002 0161", "0004 0161 0162", "0000"),
		},
		{
			125, "srtp_offer", func() ExtPayload { return &extension.SRTPOffer{} },
			func(r *v.Rand) ExtPayload {
				return &extension.SRTPOffer{ProtectionProfiles: genSRTPProfiles(r, 1+r.Intn(4)), MasterKeyIdentifier: r.Bytes(r.Len(20))}
			},
			hxs("0002 0001 00", "0000 00", "0001 00 00", "0002 0001", "0004 0001 0001 01 aa", "0002 0001 01"),
		},
		{
			126, "srtp_selection", func() ExtPayload { return &extension.SRTPSelection{} },
			func(r *v.Rand) ExtPayload {
				return &extension.SRTPSelection{ProtectionProfile: genSRTPProfiles(r, 1)[0], MasterKeyIdentifier: r.Bytes(r.Len(20))}
			},
			hxs("0002 0001 00", "0004 0001 0002 00", "0002 0001 02 aabb"),
		},
		{
			127, "supported_groups", func() ExtPayload { return &extension.SupportedGroups{} },
			func(r *v.Rand) ExtPayload { return &extension.SupportedGroups{Groups: genCurves(r, 1+r.Intn(4))} },
			hxs("0000", "0002 001d", "0004 001d 001d", "0001 00", "0003 001d 00"),
		},
		{
			128, "signature_algorithms", func() ExtPayload { return &extension.SignatureAlgorithms{} },
			func(r *v.Rand) ExtPayload { return &extension.SignatureAlgorithms{Schemes: genU16s(r, 1+r.Intn(4))} },
			hxs("0000", "0002 0403", "0004 0403 0403", "0003 0403 04"),
		},
		{
			129, "certificate_signature_algorithms",
			func() ExtPayload { return &extension.CertificateSignatureAlgorithms{} },
			func(r *v.Rand) ExtPayload {
				return &extension.CertificateSignatureAlgorithms{Schemes: genU16s(r, 1+r.Intn(4))}
			},
			hxs("0000", "0002 0403"),
		},
		{
			130, "raw", func() ExtPayload { return &extension.Raw{Type: 0x7777} },
			func(r *v.Rand) ExtPayload { return &extension.Raw{Type: 0x7777, Data: r.Bytes(r.Len(40))} }, nil,
		},
		{
			131, "return_routability_check", func() ExtPayload { return &extension.ReturnRoutabilityCheck{} },
			func(*v.Rand) ExtPayload { return &extension.ReturnRoutabilityCheck{} }, nil,
		},
		{
			132, "extended_master_secret", func() ExtPayload { return &extension12.ExtendedMasterSecret{} },
			func(*v.Rand) ExtPayload { return &extension12.ExtendedMasterSecret{} }, nil,
		},
		{
			133, "renegotiation_info", func() ExtPayload { return &extension12.RenegotiationInfo{} },
			func(r *v.Rand) ExtPayload {
				return &extension12.RenegotiationInfo{RenegotiatedConnection: uint8(r.Intn(256))}
			},
			hxs("00", "01aa", "0c000000000000000000000000"),
		},
		{
			134, "supported_point_formats", func() ExtPayload { return &extension12.SupportedPointFormats{} },
			func(r *v.Rand) ExtPayload { return genPointFormats(r) },
			hxs("00", "0100", "020001", "0101", "03010002"),
		},
		{
			135, "certificate_authorities", func() ExtPayload { return &extension13.CertificateAuthorities{} },
			func(r *v.Rand) ExtPayload { return genAuthorities(r) },
			hxs("0000", "0003 0001 aa", "0002 0000", "0006 0001 aa 0001 aa"),
		},
		{
			136, "cookie", func() ExtPayload { return &extension13.Cookie{} },
			func(r *v.Rand) ExtPayload { return &extension13.Cookie{Cookie: r.Bytes(1 + r.Intn(40))} },
			hxs("0000", "0001 aa", "0002 aa"),
		},
		{
			137, "early_data", func() ExtPayload { return &extension13.EarlyData{} },
			func(*v.Rand) ExtPayload { return &extension13.EarlyData{} }, nil,
		},
		{
			138, "max_early_data", func() ExtPayload { return &extension13.MaxEarlyData{} },
			func(r *v.Rand) ExtPayload { return &extension13.MaxEarlyData{Size: uint32(r.U64())} },
			hxs("00000000", "ffffffff", "000000"),
		},
		{
			139, "client_key_share", func() ExtPayload { return &extension13.ClientKeyShare{} },
			func(r *v.Rand) ExtPayload { return genClientKeyShare(r, genCurves(r, r.Len(3))) },
			hxs("0000", "0005 001d 0001 aa", "000a 001d 0001 aa 001d 0001 bb", "0004 001d 0000", "0005 001d 0002 aa"),
		},
		{
			140, "server_key_share", func() ExtPayload { return &extension13.ServerKeyShare{} },
			func(r *v.Rand) ExtPayload {
				return &extension13.ServerKeyShare{Share: genKeyShareEntry(r, genCurve(r))}
			},
			hxs("001d 0001 aa", "001d 0000", "001d 0001 aa 0017 0001 bb", "001d 0001 aa bb"),
		},
		{
			141, "retry_key_share", func() ExtPayload { return &extension13.RetryKeyShare{} },
			func(r *v.Rand) ExtPayload { return &extension13.RetryKeyShare{SelectedGroup: genCurve(r)} },
			hxs("001d", "001d00"),
		},
		{
			142, "oid_filters", func() ExtPayload { return &extension13.OIDFilters{} },
			func(r *v.Rand) ExtPayload { return genOIDFilters(r) },
			hxs("0000", "0004 01 55 0000", "0008 01 55 0000 01 55 0000", "0003 00 0000", "0005 01 55 0001 aa", "0002 01 55"),
		},
		{
			143, "post_handshake_auth", func() ExtPayload { return &extension13.PostHandshakeAuth{} },
			func(*v.Rand) ExtPayload { return &extension13.PostHandshakeAuth{} }, nil,
		},
		{
			144, "offered_psks", func() ExtPayload { return &extension13.OfferedPSKs{} },
			func(r *v.Rand) ExtPayload { return genOfferedPSKs(r) },
			hxs(
				"0007 0001 aa 00000001 0021 20"+strings.Repeat("bb", 32),
				"0007 0001 aa 00000001 0020 1f"+strings.Repeat("bb", 31),
				"0007 0001 aa 00000001 0042 20"+strings.Repeat("bb", 32)+"20"+strings.Repeat("cc", 32),
				"0000 0000", "0006 0000 00000001 0021 20"+strings.Repeat("bb", 32),
			),
		},
		{
			145, "selected_psk", func() ExtPayload { return &extension13.SelectedPSK{} },
			func(r *v.Rand) ExtPayload { return &extension13.SelectedPSK{Identity: uint16(r.Intn(1 << 16))} }, nil,
		},
		{
			146, "psk_key_exchange_modes", func() ExtPayload { return &extension13.PSKKeyExchangeModes{} },
			func(r *v.Rand) ExtPayload { return genModes(r) },
			hxs("00", "0101", "020001", "0201"),
		},
		{
			147, "offered_versions", func() ExtPayload { return &extension13.OfferedVersions{} },
			func(r *v.Rand) ExtPayload { return genOfferedVersions(r) },
			hxs("00", "02fefc", "04fefcfefd", "03fefcfe", "01fe"),
		},
		{
			148, "selected_version", func() ExtPayload { return &extension13.SelectedVersion{} },
			func(r *v.Rand) ExtPayload { return &extension13.SelectedVersion{Version: genVersion(r)} }, nil,
		},
	}
}

// ---------------------------------------------------------------- extension blocks per context

func shuffle(r *v.Rand, l []extension.Value) {
	for i := len(l) - 1; i > 0; i-- {
		j := r.Intn(i + 1)
		l[i], l[j] = l[j], l[i]
	}
}

// genRaws appends up to two unknown extensions of distinct types.
func genRaws(r *v.Rand, l []extension.Value) []extension.Value {
	if !r.Chance(35) {
		return l
	}
	a := genRaw(r)
	l = append(l, a)
	if r.Chance(30) {
		if b := genRaw(r); b.Type != a.Type {
			l = append(l, b)
		}
	}

	return l
}

// optional appends the values of those candidates that are drawn.
func optional(r *v.Rand, pct int, l []extension.Value, cands ...func() extension.Value) []extension.Value {
	for _, c := range cands {
		if r.Chance(pct) {
			l = append(l, c())
		}
	}

	return l
}

// GenClientHelloExtensions builds an extension block that decodeExtensionList accepts in the
// ClientHello context: known types with their ClientHello payload type, no duplicates,
// pre_shared_key last, rrc only with connection_id, pre_shared_key only with
// psk_key_exchange_modes, early_data only with pre_shared_key, distinct supported groups, key
// shares a subsequence of the supported groups, and for an offer of DTLS 1.3: supported_groups
// iff key_share, and pre_shared_key or (signature_algorithms and supported_groups).
func GenClientHelloExtensions(r *v.Rand) []extension.Value { //nolint:cyclop
	const (
		sni = iota
		groups
		points
		sigalgs
		srtp
		alpn
		ems
		psk
		early
		versions
		cookie
		modes
		cas
		pha
		sigcert
		keyshare
		cid
		rrc
		reneg
		nTypes
	)
	has := [nTypes]bool{}
	if r.Chance(15) {
		return []extension.Value{}
	}
	for i := range has {
		has[i] = r.Chance(22)
	}
	if has[rrc] {
		has[cid] = true
	}
	if has[early] {
		has[psk] = true
	}
	if has[psk] {
		has[modes] = true
	}
	var ov *extension13.OfferedVersions
	if has[versions] {
		ov = genOfferedVersions(r)
		for _, ver := range ov.Versions {
			if ver.Equal(protocol.Version1_3) {
				if has[groups] != has[keyshare] {
					has[groups], has[keyshare] = true, true
				}
				if !has[psk] && (!has[sigalgs] || !has[groups]) {
					has[sigalgs], has[groups], has[keyshare] = true, true, true
				}
			}
		}
	}
	gs := genCurves(r, 1+r.Intn(4))
	out := []extension.Value{}
	add := func(on bool, e extension.Value) {
		if on {
			out = append(out, e)
		}
	}
	add(has[sni], &extension.ServerNameOffer{ServerName: genName(r, 20)})
	add(has[groups], &extension.SupportedGroups{Groups: gs})
	add(has[points], genPointFormats(r))
	add(has[sigalgs], &extension.SignatureAlgorithms{Schemes: genU16s(r, 1+r.Intn(4))})
	add(has[srtp], &extension.SRTPOffer{ProtectionProfiles: genSRTPProfiles(r, 1+r.Intn(3)), MasterKeyIdentifier: r.Bytes(r.Len(8))})
	add(has[alpn], genALPNOffer(r))
	add(has[ems], &extension12.ExtendedMasterSecret{})
	add(has[early], &extension13.EarlyData{})
	if has[versions] {
		out = append(out, ov)
	}
	add(has[cookie], &extension13.Cookie{Cookie: r.Bytes(1 + r.Intn(32))})
	add(has[modes], genModes(r))
	add(has[cas], genAuthorities(r))
	add(has[pha], &extension13.PostHandshakeAuth{})
	add(has[sigcert], &extension.CertificateSignatureAlgorithms{Schemes: genU16s(r, 1+r.Intn(4))})
	if has[keyshare] {
		shared := []elliptic.Curve{}
		if has[groups] {
			for _, g := range gs { // a subsequence of the offered groups
				if r.Chance(50) {
					shared = append(shared, g)
				}
			}
		} else {
			shared = genCurves(r, r.Len(3))
		}
		out = append(out, genClientKeyShare(r, shared))
	}
	add(has[cid], &extension.ConnectionID{CID: r.Bytes(r.Len(12))})
	add(has[rrc], &extension.ReturnRoutabilityCheck{})
	add(has[reneg], &extension12.RenegotiationInfo{RenegotiatedConnection: uint8(r.Intn(256))})
	out = genRaws(r, out)
	shuffle(r, out)
	if has[psk] {
		out = append(out, genOfferedPSKs(r))
	}

	return out
}

func finish(r *v.Rand, l []extension.Value) []extension.Value {
	l = genRaws(r, l)
	shuffle(r, l)

	return l
}

func genSRTPSelection(r *v.Rand) extension.Value {
	return &extension.SRTPSelection{ProtectionProfile: genSRTPProfiles(r, 1)[0], MasterKeyIdentifier: r.Bytes(r.Len(8))}
}

// GenServerHello12Extensions: a block for the DTLS 1.2 ServerHello context (it must not contain
// supported_versions, key_share or pre_shared_key, which select the 1.3 context).
func GenServerHello12Extensions(r *v.Rand) []extension.Value {
	return finish(r, optional(r, 35, []extension.Value{},
		func() extension.Value { return &extension.ServerNameAck{} },
		func() extension.Value { return genPointFormats(r) },
		func() extension.Value { return genSRTPSelection(r) },
		func() extension.Value { return &extension.ALPNSelection{Protocol: genName(r, 12)} },
		func() extension.Value { return &extension12.ExtendedMasterSecret{} },
		func() extension.Value { return &extension.ConnectionID{CID: r.Bytes(r.Len(12))} },
		func() extension.Value { return &extension.ReturnRoutabilityCheck{} },
		func() extension.Value {
			return &extension12.RenegotiationInfo{RenegotiatedConnection: uint8(r.Intn(256))}
		},
	))
}

// GenServerHello13Extensions: supported_versions and/or key_share and/or pre_shared_key (at
// least one, that is what selects the context), optionally connection_id and rrc.
func GenServerHello13Extensions(r *v.Rand) []extension.Value {
	l := []extension.Value{}
	switch r.Intn(6) {
	case 0:
		l = append(l, &extension13.SelectedVersion{Version: genVersion(r)})
	case 1:
		l = append(l, &extension13.ServerKeyShare{Share: genKeyShareEntry(r, genCurve(r))})
	case 2:
		l = append(l, &extension13.SelectedPSK{Identity: uint16(r.Intn(4))})
	default:
		l = append(l, &extension13.SelectedVersion{Version: protocol.Version1_3},
			&extension13.ServerKeyShare{Share: genKeyShareEntry(r, genCurve(r))})
		if r.Chance(30) {
			l = append(l, &extension13.SelectedPSK{Identity: uint16(r.Intn(1 << 16))})
		}
	}

	return finish(r, optional(r, 30, l,
		func() extension.Value { return &extension.ConnectionID{CID: r.Bytes(r.Len(12))} },
		func() extension.Value { return &extension.ReturnRoutabilityCheck{} },
	))
}

// GenHelloRetryRequestExtensions: supported_versions is required.
func GenHelloRetryRequestExtensions(r *v.Rand) []extension.Value {
	ver := protocol.Version1_3
	if r.Chance(20) {
		ver = genVersion(r)
	}

	return finish(r, optional(r, 50, []extension.Value{&extension13.SelectedVersion{Version: ver}},
		func() extension.Value { return &extension13.Cookie{Cookie: r.Bytes(1 + r.Intn(32))} },
		func() extension.Value { return &extension13.RetryKeyShare{SelectedGroup: genCurve(r)} },
	))
}

func GenEncryptedExtensionsExtensions(r *v.Rand) []extension.Value {
	return finish(r, optional(r, 35, []extension.Value{},
		func() extension.Value { return &extension.ServerNameAck{} },
		func() extension.Value { return &extension.SupportedGroups{Groups: genCurves(r, 1+r.Intn(4))} },
		func() extension.Value { return genSRTPSelection(r) },
		func() extension.Value { return &extension.ALPNSelection{Protocol: genName(r, 12)} },
		func() extension.Value { return &extension13.EarlyData{} },
	))
}

// GenCertificateRequestExtensions: signature_algorithms is required.
func GenCertificateRequestExtensions(r *v.Rand) []extension.Value {
	l := []extension.Value{&extension.SignatureAlgorithms{Schemes: genU16s(r, 1+r.Intn(4))}}

	return finish(r, optional(r, 35, l,
		func() extension.Value { return genAuthorities(r) },
		func() extension.Value { return genOIDFilters(r) },
		func() extension.Value {
			return &extension.CertificateSignatureAlgorithms{Schemes: genU16s(r, 1+r.Intn(4))}
		},
	))
}

// GenCertificateEntryExtensions: no registered extension is allowed in a CertificateEntry, so
// only unknown ones.
func GenCertificateEntryExtensions(r *v.Rand) []extension.Value {
	return genRaws(r, []extension.Value{})
}

func GenNewSessionTicketExtensions(r *v.Rand) []extension.Value {
	return finish(r, optional(r, 50, []extension.Value{},
		func() extension.Value { return &extension13.MaxEarlyData{Size: uint32(r.U64())} },
	))
}

// ---------------------------------------------------------------- message dumps

// message tags of the two DTLS 1.3 variants that share a handshake type with a 1.2 message (they
// are not reachable through Handshake.Unmarshal).
const (
	tagCertificate13        = 1011
	tagCertificateRequest13 = 1013
)

func dumpRandom(d *v.Dump, rnd *handshake.Random) {
	d.N(uint64(uint32(rnd.GMTUnixTime.Unix()))) //nolint:gosec
	d.Raw(rnd.RandomBytes[:])
}

// DumpMessage2 appends the message tag (its handshake type) and its fields; the messages of
// DumpMessage are delegated to it.
func DumpMessage2(d *v.Dump, msg handshake.Message) { //nolint:cyclop
	switch m := msg.(type) {
	case *handshake.MessageClientHello:
		d.N(1)
		d.N(uint64(m.Version.Major))
		d.N(uint64(m.Version.Minor))
		dumpRandom(d, &m.Random)
		d.Bytes(m.SessionID)
		d.Bytes(m.Cookie)
		dumpU16s(d, m.CipherSuiteIDs)
		d.N(uint64(len(m.CompressionMethods)))
		for _, c := range m.CompressionMethods {
			if c == nil {
				d.N(1 << 32)
			} else {
				d.N(uint64(c.ID))
			}
		}
		DumpExtensions(d, m.Extensions)
	case *handshake.MessageServerHello:
		d.N(2)
		d.N(uint64(m.Version.Major))
		d.N(uint64(m.Version.Minor))
		dumpRandom(d, &m.Random)
		d.Bytes(m.SessionID)
		if m.CipherSuiteID == nil {
			d.N(1 << 32)
		} else {
			d.N(uint64(*m.CipherSuiteID))
		}
		if m.CompressionMethod == nil {
			d.N(1 << 32)
		} else {
			d.N(uint64(m.CompressionMethod.ID))
		}
		DumpExtensions(d, m.Extensions)
	case *handshake.MessageNewSessionTicket:
		d.N(4)
		d.N(uint64(m.TicketLifetime))
		d.N(uint64(m.TicketAgeAdd))
		d.Bytes(m.TicketNonce)
		d.Bytes(m.Ticket)
		DumpExtensions(d, m.Extensions)
	case *handshake.MessageEncryptedExtensions:
		d.N(8)
		DumpExtensions(d, m.Extensions)
	case *handshake.MessageServerKeyExchange:
		d.N(12)
		dumpOBytes(d, m.IdentityHint) // nil-ness decides whether the hint is encoded at all
		d.N(uint64(m.EllipticCurveType))
		d.N(uint64(m.NamedCurve))
		d.Bytes(m.PublicKey)
		d.N(uint64(m.HashAlgorithm))
		d.N(uint64(m.SignatureAlgorithm))
		d.Bytes(m.Signature)
	case *handshake.MessageCertificateRequest:
		d.N(13)
		d.N(uint64(len(m.CertificateTypes)))
		for _, t := range m.CertificateTypes {
			d.N(uint64(t))
		}
		d.N(uint64(len(m.SignatureHashAlgorithms)))
		for _, a := range m.SignatureHashAlgorithms {
			d.N(uint64(a.Hash))
			d.N(uint64(a.Signature))
		}
		dumpBytesList(d, m.CertificateAuthoritiesNames)
	case *handshake.MessageCertificate13:
		d.N(tagCertificate13)
		d.Bytes(m.CertificateRequestContext)
		d.N(uint64(len(m.CertificateList)))
		for _, e := range m.CertificateList {
			d.Bytes(e.CertificateData)
			DumpExtensions(d, e.Extensions)
		}
	case *handshake.MessageCertificateRequest13:
		d.N(tagCertificateRequest13)
		d.Bytes(m.CertificateRequestContext)
		DumpExtensions(d, m.Extensions)
	default:
		DumpMessage(d, msg)
	}
}

// ---------------------------------------------------------------- message generators

// every (hash, signature) pair that signaturehash.Algorithm.Unmarshal accepts, PSS included
var sigAlgsAll = func() []signaturehash.Algorithm { //nolint:gochecknoglobals
	out := []signaturehash.Algorithm{}
	for s := 0; s < 1<<16; s++ {
		var alg signaturehash.Algorithm
		if alg.Unmarshal(tls.SignatureScheme(s)) == nil {
			out = append(out, alg)
		}
	}

	return out
}()

func genRandom(r *v.Rand) handshake.Random {
	rnd := handshake.Random{GMTUnixTime: time.Unix(int64(uint32(r.U64())), 0)}
	copy(rnd.RandomBytes[:], r.Bytes(handshake.RandomBytesLength))

	return rnd
}

func hrrRandom() handshake.Random {
	var fixed [handshake.RandomLength]byte
	copy(fixed[:], handshake.HelloRetryRequestRandom())
	var rnd handshake.Random
	rnd.UnmarshalFixed(fixed)

	return rnd
}

func genLegacyVersion(r *v.Rand) protocol.Version {
	if r.Chance(25) {
		return genVersion(r)
	}

	return protocol.Version1_2
}

func genCipherSuiteID(r *v.Rand) uint16 {
	return uint16(r.Pick(0xc02b, 0xc02c, 0xc0ac, 0xc0a8, 0x1301, 0x1302, 0x1303, 0x00ff, r.Intn(1<<16)))
}

func GenClientHello(r *v.Rand) *handshake.MessageClientHello {
	null := protocol.CompressionMethods()[0]
	m := &handshake.MessageClientHello{
		Version:            genLegacyVersion(r),
		Random:             genRandom(r),
		SessionID:          r.Bytes(r.Pick(0, 0, 32, r.Intn(33))),
		Cookie:             r.Bytes(r.Pick(0, 0, 20, r.Intn(33))),
		CipherSuiteIDs:     []uint16{},
		CompressionMethods: []*protocol.CompressionMethod{},
		Extensions:         GenClientHelloExtensions(r),
	}
	for i, n := 0, r.Len(4); i < n; i++ {
		m.CipherSuiteIDs = append(m.CipherSuiteIDs, genCipherSuiteID(r))
	}
	for i, n := 0, r.Pick(1, 1, 1, 0, 2); i < n; i++ {
		m.CompressionMethods = append(m.CompressionMethods, null)
	}

	return m
}

// GenServerHello: 0 = DTLS 1.2 without extensions, 1 = DTLS 1.2 with extensions, 2 = DTLS 1.3,
// 3 = HelloRetryRequest.
func GenServerHello(r *v.Rand, style int) *handshake.MessageServerHello {
	suite := genCipherSuiteID(r)
	m := &handshake.MessageServerHello{
		Version:           genLegacyVersion(r),
		Random:            genRandom(r),
		SessionID:         r.Bytes(r.Pick(0, 0, 32, r.Intn(33))),
		CipherSuiteID:     &suite,
		CompressionMethod: protocol.CompressionMethods()[0],
	}
	switch style {
	case 0:
		m.Extensions = []extension.Value{}
	case 1:
		m.Extensions = GenServerHello12Extensions(r)
	case 2:
		m.Extensions = GenServerHello13Extensions(r)
	default:
		m.Random = hrrRandom()
		m.Extensions = GenHelloRetryRequestExtensions(r)
	}

	return m
}

// GenServerKeyExchange builds a ServerKeyExchange that is valid under kx (2 = PSK, 4 = ECDHE,
// 6 = ECDHE-PSK); nil when kx is 0 (nothing is decodable then).
func GenServerKeyExchange(r *v.Rand, kx int) *handshake.MessageServerKeyExchange {
	if kx == 0 {
		return nil
	}
	m := &handshake.MessageServerKeyExchange{}
	if kx&2 != 0 {
		m.IdentityHint = r.Bytes(r.Len(20))
		// ECDHE-PSK without a hint: the curve parameters 03 00 xx are not mistaken for a hint
		// length as long as the message is short
		if kx == 6 && r.Chance(15) {
			m.IdentityHint = nil
		}
	}
	if kx&4 == 0 {
		return m
	}
	m.EllipticCurveType = elliptic.CurveTypeNamedCurve
	m.NamedCurve = knownCurves[r.Intn(len(knownCurves))]
	if m.IdentityHint == nil && kx == 6 {
		m.NamedCurve = knownCurves[r.Intn(3)] // 03 00 xx
	}
	m.PublicKey = r.Bytes(r.Pick(1, 32, 1+r.Intn(40)))
	m.Signature = []byte{}
	if r.Chance(75) {
		for {
			a := sigAlgsAll[r.Intn(len(sigAlgsAll))]
			if a.Signature != signature.Anonymous {
				m.HashAlgorithm, m.SignatureAlgorithm = a.Hash, a.Signature

				break
			}
		}
		m.Signature = r.Bytes(1 + r.Intn(40))
	}

	return m
}

func GenCertificateRequest(r *v.Rand) *handshake.MessageCertificateRequest {
	m := &handshake.MessageCertificateRequest{
		CertificateTypes:            []clientcertificate.Type{},
		SignatureHashAlgorithms:     []signaturehash.Algorithm{},
		CertificateAuthoritiesNames: genBytesList(r, 3, 20),
	}
	for i, n := 0, r.Len(3); i < n; i++ {
		m.CertificateTypes = append(m.CertificateTypes, clientcertificate.Type(r.Pick(1, 64)))
	}
	for i, n := 0, r.Len(4); i < n; i++ {
		m.SignatureHashAlgorithms = append(m.SignatureHashAlgorithms, sigAlgsAll[r.Intn(len(sigAlgsAll))])
	}

	return m
}

func GenNewSessionTicket(r *v.Rand) *handshake.MessageNewSessionTicket {
	return &handshake.MessageNewSessionTicket{
		TicketLifetime: uint32(r.U64()),
		TicketAgeAdd:   uint32(r.U64()),
		TicketNonce:    r.Bytes(r.Len(12)),
		Ticket:         r.Bytes(1 + r.Intn(40)),
		Extensions:     GenNewSessionTicketExtensions(r),
	}
}

func GenEncryptedExtensions(r *v.Rand) *handshake.MessageEncryptedExtensions {
	return &handshake.MessageEncryptedExtensions{Extensions: GenEncryptedExtensionsExtensions(r)}
}

func GenCertificate13(r *v.Rand) *handshake.MessageCertificate13 {
	m := &handshake.MessageCertificate13{
		CertificateRequestContext: r.Bytes(r.Len(16)),
		CertificateList:           []handshake.CertificateEntry13{},
	}
	for i, n := 0, r.Len(3); i < n; i++ {
		m.CertificateList = append(m.CertificateList, handshake.CertificateEntry13{
			CertificateData: r.Bytes(1 + r.Intn(40)),
			Extensions:      GenCertificateEntryExtensions(r),
		})
	}

	return m
}

func GenCertificateRequest13(r *v.Rand) *handshake.MessageCertificateRequest13 {
	return &handshake.MessageCertificateRequest13{
		CertificateRequestContext: r.Bytes(r.Len(16)),
		Extensions:                GenCertificateRequestExtensions(r),
	}
}

// GenMessage2 builds one of the messages the envelope codec 109 covers.
func GenMessage2(r *v.Rand, kx int) handshake.Message {
	for {
		switch r.Intn(6) {
		case 0:
			return GenClientHello(r)
		case 1:
			return GenServerHello(r, r.Intn(4))
		case 2:
			if kx != 0 {
				return GenServerKeyExchange(r, kx)
			}
		case 3:
			return GenCertificateRequest(r)
		case 4:
			return GenNewSessionTicket(r)
		default:
			return GenEncryptedExtensions(r)
		}
	}
}

// ---------------------------------------------------------------- fixed inputs

const corpusRandom = "000102030405060708090a0b0c0d0e0f101112131415161718191a1b1c1d1e1f"

const corpusHRRRandom = "cf21ad74e59a6111be1d8c021e65b891c2a211167abb8c5e079e09e2c8a8339c"

// client hello from its parts: session id, cookie, cipher suites, compression methods and
// extensions, each with its length prefix
func chHex(sid, cookie, suites, comp, exts string) string {
	return "fefd" + corpusRandom + sid + cookie + suites + comp + exts
}

func shHex(random, sid, suite, comp, exts string) string {
	return "fefd" + random + sid + suite + comp + exts
}

// a DTLS 1.3 offer: supported_versions [1.3], supported_groups [x25519], key_share x25519,
// signature_algorithms [ecdsa_secp256r1_sha256]
const ch13Exts = "0022 002b 0003 02 fefc 000a 0004 0002 001d 0033 0007 0005 001d 0001 aa 000d 0004 0002 0403"

var clientHelloValid = []string{ //nolint:gochecknoglobals
	chHex("00", "00", "0002c02b", "0100", "0000"),                     // empty extension block
	chHex("00", "00", "0000", "00", "0000"),                           // no suites, no compression methods
	chHex("02aabb", "01cc", "0004c02bc02c", "020000", "000400170000"), // extended_master_secret
	chHex("00", "00", "00021301", "0100", ch13Exts),
	chHex("00", "00", "0002c02b", "0100", "0004 7777 0000"), // unknown extension, empty payload
}

var clientHelloCorpus = []string{ //nolint:gochecknoglobals
	chHex("00", "00", "0002c02b", "0100", ""),                         // extension block absent
	chHex("00", "00", "0003c02b00", "0100", "0000"),                   // odd cipher-suite list length
	chHex("00", "00", "0001c0", "0100", "0000"),                       // cipher-suite list of one byte
	chHex("00", "00", "0002c02b", "0105", "0000"),                     // unknown compression method
	chHex("00", "00", "0002c02b", "020500", "0000"),                   // unknown and null compression method
	chHex("00", "00", "0002c02b", "0100", "0008 0017 0000 0017 0000"), // duplicate extension
	chHex("00", "00", "0002c02b", "0100", "0004 0033 0000"),           // key_share with an empty payload
	chHex("00", "00", "0002c02b", "0100", "0004 003d 0000"),           // rrc without connection_id
	chHex("00", "00", "0002c02b", "0100", "0004 0030 0000"),           // oid_filters is not a ClientHello extension
	chHex("00", "00", "0002c02b", "0100", "0007 002b 0003 02 fefc"),   // 1.3 offer without the mandatory extensions
	// pre_shared_key before psk_key_exchange_modes (not last)
	chHex("00", "00", "00021301", "0100", "0037 0029 002d 0007 0001 aa 00000001 0021 20"+strings.Repeat("bb", 32)+" 002d 0002 0101"),
	// ... and last
	chHex("00", "00", "00021301", "0100", "0037 002d 0002 0101 0029 002d 0007 0001 aa 00000001 0021 20"+strings.Repeat("bb", 32)),
	chHex("21"+strings.Repeat("aa", 33), "00", "0002c02b", "0100", "0000"), // session id of 33 bytes
}

var serverHelloValid = []string{ //nolint:gochecknoglobals
	shHex(corpusRandom, "00", "c02b", "00", "0000"),
	shHex(corpusRandom, "02aabb", "c02b", "00", "0009 0017 0000 ff01 0001 00"),
	// DTLS 1.3: supported_versions, key_share
	shHex(corpusRandom, "00", "1301", "00", "000f 002b 0002 fefc 0033 0005 001d 0001 aa"),
	// HelloRetryRequest: supported_versions, key_share (selected group only)
	shHex(corpusHRRRandom, "00", "1301", "00", "000c 002b 0002 fefc 0033 0002 001d"),
}

var serverHelloCorpus = []string{ //nolint:gochecknoglobals
	shHex(corpusRandom, "00", "c02b", "00", ""),                                   // extension block absent
	shHex(corpusRandom, "00", "c02b", "05", "0000"),                               // unknown compression method
	shHex(corpusRandom, "00", "c02b", "00", "00"),                                 // one byte of extension block
	shHex(corpusHRRRandom, "00", "1301", "00", ""),                                // HelloRetryRequest without extensions
	shHex(corpusHRRRandom, "00", "1301", "00", "0000"),                            // ... with an empty block
	shHex(corpusHRRRandom, "00", "1301", "00", "0006 0033 0002 001d"),             // ... without supported_versions
	shHex(corpusRandom, "00", "1301", "00", "0006 0033 0002 001d"),                // retry key_share in a ServerHello
	shHex(corpusRandom, "00", "c02b", "00", "0006 0017 0000 002b 0002 fefc"),      // 1.2-only extension in 1.3 context
	shHex(corpusRandom, "00", "c02b", "00", "0004 000a 0000"),                     // supported_groups is not allowed
	shHex(corpusRandom, "00", "c02b", "00", "000c 002b 0002 fefc 002b 0002 fefc"), // duplicate
}

var serverKeyExchangeCorpus = []string{ //nolint:gochecknoglobals
	"0000",                               // empty identity hint
	"0003 aabbcc",                        // identity hint
	"0003 aabb",                          // hint longer than the message
	"03 001d 01 aa",                      // anonymous ECDHE
	"03 001d 01 aa 0403 0001 bb",         // signed ECDHE
	"03 001d 01 aa 0403 0000",            // zero-length signature
	"03 001d 01 aa 0400 0001 bb",         // signature algorithm "anonymous" with a signature
	"03 001d 01 aa 0804 0001 bb",         // rsa_pss_rsae_sha256
	"03 001d 01 aa 0403 0001 bb cc",      // bytes after the signature
	"03 001d 00",                         // zero-length public key
	"03 001d 00 0403 0001 bb",            // zero-length public key, signed
	"03 001d 02 aa",                      // public key longer than the message
	"03 0019 01 aa",                      // unknown curve
	"01 001d 01 aa",                      // unknown curve type
	"0001 cc 03 001d 01 aa",              // hint, anonymous ECDHE
	"0001 cc 03 001d 01 aa 0403 0001 bb", // hint, signed ECDHE
	"0000 03 001d 01 aa",                 // empty hint, anonymous ECDHE
	"03 001d 01 aa 04",                   // half a signature scheme
	"03 001d 01 aa 0403 00",              // half a signature length
}

var certificateRequestCorpus = []string{ //nolint:gochecknoglobals
	"00 0000 0000",                      // everything empty
	"01 40 0002 0403 0000",              // ecdsa_sign, one algorithm, no authorities
	"02 01 07 0002 0403 0000",           // unknown certificate type 7
	"01 40 0004 0403 ffff 0000",         // unknown signature scheme
	"01 40 0001 04 0000",                // odd algorithms length
	"01 40 0003 0403 04 0000",           // odd algorithms length
	// odd length: 04 + the first byte of the authorities length (0100) reads as rsa_pkcs1_sha256
	"01 40 0001 04 0100 00fe" + strings.Repeat("aa", 254),
	"01 40 0002 0403 0002 0000",         // one authority of length zero
	"01 40 0002 0403 0005 0001 aa 0000", // two authorities, the second empty
	"01 40 0002 0403 0003 0002 aa",      // authority longer than the list
	"01 40 0002 0403 0001 00",           // one byte of authorities
	"01 40 0002 0403 0000 aa",           // trailing byte
	"01 40 0002 0400 0000",              // anonymous signature with a hash
}

var newSessionTicketCorpus = []string{ //nolint:gochecknoglobals
	"00000e10 00000001 00 0001 aa 0000",                           // minimal
	"00000e10 00000001 02 0102 0002 aabb 0008 002a 0004 00000400", // early_data (max size)
	"00000e10 00000001 00 0000 0000 00",                           // empty ticket
	"00000e10 00000001 01 01 0001 aa",                             // extension block absent
	"00000e10 00000001 00 0001 aa 0004 002a 0000",                 // early_data with the ClientHello payload
	"00000e10 00000001 00 0001 aa 0004 0000 0000",                 // server_name is not allowed
	"00000e10 00000001 00 0001 aa 0004 7777 0000",                 // unknown extension
	"00000e10 00000001 00 0001 aa 0000 00",                        // trailing byte
}

var encryptedExtensionsCorpus = []string{ //nolint:gochecknoglobals
	"0000",
	"00",
	"0004 0000 0000",                   // server_name acknowledgement
	"0008 000a 0004 0002 001d",         // supported_groups
	"000a 000a 0006 0004 001d 001d",    // duplicate group
	"0007 0010 0003 0002 0161",         // alpn selection
	"0009 0010 0005 0004 0161 0162",    // alpn selection with two protocols
	"0004 002a 0000",                   // early_data
	"0006 0033 0002 001d",              // key_share is not allowed
	"0009 000e 0005 0002 0001 00",      // use_srtp selection
	"000b 000e 0007 0004 0001 0002 00", // use_srtp selection with two profiles
	"0008 0000 0000 0000 0000",         // duplicate
	"0001 00",
}

var certificate13Corpus = []string{ //nolint:gochecknoglobals
	"00 000000",                // no context, empty list
	"00 000006 000001 aa 0000", // one entry
	"02 aabb 00000c 000001 aa 0000 000001 bb 0000", // context, two entries
	"00 000005 000000 0000",                        // empty certificate data
	"00 00000a 000001 aa 0004 0005 0000",           // unknown (status_request) extension
	"00 00000a 000001 aa 0004 0000 0000",           // server_name in a certificate entry
	"00 000004 000001 aa",                          // entry without extension block
	"00 000006 000001 aa 0000 00",                  // trailing byte
	"00 000007 000001 aa 0000 00",                  // trailing byte inside the list
	"00 000006 000001 aa 0001",                     // extension block longer than the entry
	"01 000000",                                    // context longer than the message
}

var certificateRequest13Corpus = []string{ //nolint:gochecknoglobals
	"00 0008 000d 0004 0002 0403",      // signature_algorithms only
	"02 aabb 0008 000d 0004 0002 0403", // with a context
	"00 0000",                          // no extensions
	"00 0004 7777 0000",                // no signature_algorithms
	"00 0011 000d 0004 0002 0403 002f 0005 0003 0001 aa", // certificate_authorities
	"00 000e 000d 0004 0002 0403 0030 0002 0000",         // empty oid_filters
	"00 000c 000d 0004 0002 0403 000a 0000",              // supported_groups is not allowed
	"00 0008 000d 0004 0002 0403 00",                     // trailing byte
	"00 0006 000d 0002 0000",                             // empty signature_algorithms
	"01 0008 000d 0004 0002 0403",                        // context swallows the length
}

func hsWrap(typ int, body string) string {
	b := hx(body)
	n := hex.EncodeToString([]byte{byte(len(b) >> 16), byte(len(b) >> 8), byte(len(b))})

	return hex.EncodeToString([]byte{byte(typ)}) + n + "0007" + "000000" + n + hex.EncodeToString(b)
}

func envelopeCorpus2() [][]byte {
	out := []string{
		hsWrap(1, clientHelloValid[0]), hsWrap(1, clientHelloValid[3]), hsWrap(1, clientHelloCorpus[0]),
		hsWrap(2, serverHelloValid[0]), hsWrap(2, serverHelloCorpus[0]), hsWrap(2, serverHelloValid[3]),
		hsWrap(12, "0000"), hsWrap(12, "03 001d 01 aa"), hsWrap(12, "0001 cc 03 001d 01 aa 0403 0001 bb"),
		hsWrap(12, "03 001d 01 aa 0403 0000"), hsWrap(12, "03 001d 00"),
		hsWrap(13, certificateRequestCorpus[0]), hsWrap(13, certificateRequestCorpus[1]),
		hsWrap(13, certificateRequest13Corpus[0]), // the 1.3 layout read as the 1.2 message
		hsWrap(4, newSessionTicketCorpus[0]), hsWrap(4, newSessionTicketCorpus[1]),
		hsWrap(8, "0000"), hsWrap(8, "0004 0000 0000"), hsWrap(8, ""),
		hsWrap(0, ""), hsWrap(254, ""), hsWrap(1, ""), hsWrap(2, ""), hsWrap(12, ""), hsWrap(13, ""), hsWrap(4, ""),
	}

	return hxs(out...)
}

// ---------------------------------------------------------------- codecs

func msgCodec2(name string, id int, ctx []int, fresh func() handshake.Message,
	gen func(r *v.Rand) handshake.Message, corpus, valid []string,
) *v.Codec {
	dump := func(m handshake.Message) v.Dump {
		d := v.Dump{}
		DumpMessage2(&d, m)

		return d[1:] // without the tag
	}

	return &v.Codec{
		Name: name, ID: id, Ctx: ctx, Corpus: hxs(corpus...), CorpusValid: hxs(valid...), Small: true,
		Decode: func(in []byte) (*v.Decoded, error) {
			m := fresh()
			if err := m.Unmarshal(in); err != nil {
				return nil, err
			}
			d := dump(m)
			out, err := m.Marshal()

			return &v.Decoded{Dump: d, Reenc: out, ReencErr: err != nil}, nil
		},
		Gen: func(r *v.Rand) (v.Dump, []byte, bool) {
			m := gen(r)
			if m == nil {
				return nil, nil, false
			}
			out, err := m.Marshal()

			return dump(m), out, err == nil
		},
	}
}

func envelopeCodec2(kx int) *v.Codec {
	dump := func(h *handshake.Handshake) v.Dump {
		d := v.Dump{}
		d.N(uint64(h.Header.Type))
		d.N(uint64(h.Header.Length))
		d.N(uint64(h.Header.MessageSequence))
		d.N(uint64(h.Header.FragmentOffset))
		d.N(uint64(h.Header.FragmentLength))
		DumpMessage2(&d, h.Message)

		return d
	}

	return &v.Codec{
		Name: "handshake2", ID: 109, Ctx: []int{kx}, Corpus: envelopeCorpus2(),
		Decode: func(in []byte) (*v.Decoded, error) {
			h := handshake.Handshake{KeyExchangeAlgorithm: types.KeyExchangeAlgorithm(kx)}
			if err := h.Unmarshal(in); err != nil {
				return nil, err
			}
			d := dump(&h) // before Marshal: Marshal rewrites the header
			out, err := h.Marshal()

			return &v.Decoded{Dump: d, Reenc: out, ReencErr: err != nil}, nil
		},
		Gen: func(r *v.Rand) (v.Dump, []byte, bool) {
			h := handshake.Handshake{
				Header:               handshake.Header{MessageSequence: uint16(r.Intn(1 << 16))},
				Message:              GenMessage2(r, kx),
				KeyExchangeAlgorithm: types.KeyExchangeAlgorithm(kx),
			}
			out, err := h.Marshal()
			if err != nil {
				return nil, nil, false
			}

			return dump(&h), out, true
		},
		Hint: []byte{1, 2, 4, 8, 12, 13},
	}
}

// ---------------------------------------------------------------- edge values (see hs.go)

func clientHelloEdges() []v.Edge {
	base := func() *handshake.MessageClientHello {
		return &handshake.MessageClientHello{
			Version: protocol.Version1_2, SessionID: []byte{}, Cookie: []byte{}, CipherSuiteIDs: []uint16{0xc02b},
			CompressionMethods: []*protocol.CompressionMethod{protocol.CompressionMethods()[0]},
			Extensions:         []extension.Value{},
		}
	}
	suites := func(n int) func() handshake.Message {
		return func() handshake.Message {
			m := base()
			m.CipherSuiteIDs = make([]uint16, n)
			for i := range m.CipherSuiteIDs {
				m.CipherSuiteIDs[i] = 0xc02b
			}

			return m
		}
	}

	return []v.Edge{
		edgeOf("cipher-suites-32767", true, suites(32767)),
		edgeOf("cipher-suites-32768", false, suites(32768)),
		edgeOf("cipher-suites-32770", false, suites(32770)),
		edgeOf("session-id-255", true, func() handshake.Message { m := base(); m.SessionID = fill(255, 0x5e); return m }),
		edgeOf("session-id-256", false, func() handshake.Message { m := base(); m.SessionID = fill(256, 0x5e); return m }),
		edgeOf("cookie-255", true, func() handshake.Message { m := base(); m.Cookie = fill(255, 0xc0); return m }),
		edgeOf("cookie-256", false, func() handshake.Message { m := base(); m.Cookie = fill(256, 0xc0); return m }),
		edgeOf("compression-methods-256", false, func() handshake.Message {
			m := base()
			m.CompressionMethods = make([]*protocol.CompressionMethod, 256)
			for i := range m.CompressionMethods {
				m.CompressionMethods[i] = protocol.CompressionMethods()[0]
			}

			return m
		}),
	}
}

func serverKeyExchangeEdges(kx int) []v.Edge {
	alg := types.KeyExchangeAlgorithm(kx)
	mk := func(hint []byte, pk, sig int) func() handshake.Message {
		return func() handshake.Message {
			m := &handshake.MessageServerKeyExchange{IdentityHint: hint, KeyExchangeAlgorithm: alg, Signature: []byte{}}
			if pk >= 0 {
				m.EllipticCurveType, m.NamedCurve, m.PublicKey = elliptic.CurveTypeNamedCurve, elliptic.X25519, fill(pk, 7)
			} else {
				m.PublicKey = []byte{}
			}
			if sig > 0 {
				m.HashAlgorithm, m.SignatureAlgorithm, m.Signature = 4, signature.ECDSA, fill(sig, 0x51)
			}

			return m
		}
	}
	switch kx {
	case 2:
		return []v.Edge{
			edgeOf("hint-65535", true, mk(fill(65535, 0x68), -1, 0)),
			edgeOf("hint-65536", false, mk(fill(65536, 0x68), -1, 0)),
		}
	case 4:
		return []v.Edge{
			edgeOf("public-key-255", true, mk(nil, 255, 0)),
			edgeOf("public-key-256", false, mk(nil, 256, 0)),
			edgeOf("public-key-288", false, mk(nil, 288, 0)),
			edgeOf("signature-65535", true, mk(nil, 32, 65535)),
			edgeOf("signature-65536", false, mk(nil, 32, 65536)),
		}
	case 6:
		return []v.Edge{
			edgeOf("hint-65535-public-key-255", true, mk(fill(65535, 0x68), 255, 0)),
			edgeOf("hint-65536", false, mk(fill(65536, 0x68), 32, 0)),
			edgeOf("public-key-256", false, mk([]byte("hi"), 256, 0)),
		}
	}

	return nil
}

func certificateRequestEdges() []v.Edge {
	mk := func(types_, algs int, names ...int) func() handshake.Message {
		return func() handshake.Message {
			m := &handshake.MessageCertificateRequest{
				CertificateTypes:            []clientcertificate.Type{},
				SignatureHashAlgorithms:     []signaturehash.Algorithm{},
				CertificateAuthoritiesNames: [][]byte{},
			}
			for i := 0; i < types_; i++ {
				m.CertificateTypes = append(m.CertificateTypes, clientcertificate.ECDSASign)
			}
			for i := 0; i < algs; i++ {
				m.SignatureHashAlgorithms = append(m.SignatureHashAlgorithms, signaturehash.Algorithm{Hash: 4, Signature: signature.ECDSA})
			}
			for i, n := range names {
				m.CertificateAuthoritiesNames = append(m.CertificateAuthoritiesNames, fill(n, byte(i)))
			}

			return m
		}
	}
	hundred := make([]int, 700)
	for i := range hundred {
		hundred[i] = 100
	}

	return []v.Edge{
		// certificate_authorities<0..2^16-1>: the length of the vector counts two bytes per name
		edgeOf("authorities-65535-bytes", true, mk(1, 1, 65533)),
		edgeOf("authorities-65536-bytes", false, mk(1, 1, 65534)),
		edgeOf("authorities-700-names-of-100", false, mk(1, 1, hundred...)),
		edgeOf("authority-name-65536", false, mk(1, 1, 65536)),
		// supported_signature_algorithms<2..2^16-2>
		edgeOf("signature-algorithms-32767", true, mk(1, 32767)),
		edgeOf("signature-algorithms-32768", false, mk(1, 32768)),
		edgeOf("certificate-types-255", true, mk(255, 1)),
		edgeOf("certificate-types-256", false, mk(256, 1)),
	}
}

func newSessionTicketEdges() []v.Edge {
	mk := func(nonce, ticket int) func() handshake.Message {
		return func() handshake.Message {
			return &handshake.MessageNewSessionTicket{
				TicketLifetime: 3600, TicketAgeAdd: 1, TicketNonce: fill(nonce, 0x6e), Ticket: fill(ticket, 0x74),
				Extensions: []extension.Value{},
			}
		}
	}

	return []v.Edge{
		edgeOf("ticket-65535", true, mk(1, 65535)),
		edgeOf("ticket-65536", false, mk(1, 65536)),
		edgeOf("nonce-255", true, mk(255, 1)),
		edgeOf("nonce-256", false, mk(256, 1)),
	}
}

// serverKeyExchangeLongHint is a well-formed ECDHE_PSK ServerKeyExchange whose 768-byte identity
// hint (declared length 0x0300) starts with 1d 20: cut after 36 bytes, the hint length points
// far beyond the input while the bytes read as "named_curve x25519, 32-byte point".
func serverKeyExchangeLongHint() []byte {
	hint := make([]byte, 768)
	hint[0], hint[1] = 0x1d, 0x20
	for i := 2; i < len(hint); i++ {
		hint[i] = byte(i)
	}
	out := append([]byte{0x03, 0x00}, hint...)
	out = append(out, 0x03, 0x00, 0x1d, 0x20)

	return append(out, fill(32, 0x42)...)
}

// Codecs2 returns the codecs without a Coq model: ClientHello (101), ServerHello (102),
// ServerKeyExchange under key-exchange context 2/4/6 (103), CertificateRequest (104),
// NewSessionTicket (105), EncryptedExtensions (106), Certificate13 (107), CertificateRequest13
// (108) and the envelope around 101-106 under every key-exchange context (109).
func Codecs2() []*v.Codec {
	out := []*v.Codec{
		msgCodec2("client_hello", 101, nil,
			func() handshake.Message { return &handshake.MessageClientHello{} },
			func(r *v.Rand) handshake.Message { return GenClientHello(r) },
			clientHelloCorpus, clientHelloValid),
	}
	out[0].Edges = clientHelloEdges()
	style := 0
	out = append(out, msgCodec2("server_hello", 102, nil,
		func() handshake.Message { return &handshake.MessageServerHello{} },
		func(r *v.Rand) handshake.Message {
			style++ // every style in turn, whatever the number of values asked for

			return GenServerHello(r, style%4)
		},
		serverHelloCorpus, serverHelloValid))
	for _, kx := range []int{2, 4, 6} {
		kx := kx
		out = append(out, msgCodec2("server_key_exchange", 103, []int{kx},
			func() handshake.Message {
				return &handshake.MessageServerKeyExchange{KeyExchangeAlgorithm: types.KeyExchangeAlgorithm(kx)}
			},
			func(r *v.Rand) handshake.Message {
				if m := GenServerKeyExchange(r, kx); m != nil {
					return m
				}

				return nil
			},
			serverKeyExchangeCorpus, nil))
		out[len(out)-1].Edges = serverKeyExchangeEdges(kx)
		if kx == 6 {
			out[len(out)-1].CorpusValid = [][]byte{serverKeyExchangeLongHint()}
		}
	}
	out = append(out,
		msgCodec2("certificate_request", 104, nil,
			func() handshake.Message { return &handshake.MessageCertificateRequest{} },
			func(r *v.Rand) handshake.Message { return GenCertificateRequest(r) },
			certificateRequestCorpus, nil),
		msgCodec2("new_session_ticket", 105, nil,
			func() handshake.Message { return &handshake.MessageNewSessionTicket{} },
			func(r *v.Rand) handshake.Message { return GenNewSessionTicket(r) },
			newSessionTicketCorpus, nil),
		msgCodec2("encrypted_extensions", 106, nil,
			func() handshake.Message { return &handshake.MessageEncryptedExtensions{} },
			func(r *v.Rand) handshake.Message { return GenEncryptedExtensions(r) },
			encryptedExtensionsCorpus, nil),
		msgCodec2("certificate13", 107, nil,
			func() handshake.Message { return &handshake.MessageCertificate13{} },
			func(r *v.Rand) handshake.Message { return GenCertificate13(r) },
			certificate13Corpus, nil),
		msgCodec2("certificate_request13", 108, nil,
			func() handshake.Message { return &handshake.MessageCertificateRequest13{} },
			func(r *v.Rand) handshake.Message { return GenCertificateRequest13(r) },
			certificateRequest13Corpus, nil),
	)
	for _, c := range out {
		switch c.ID {
		case 104:
			c.Edges = certificateRequestEdges()
		case 105:
			c.Edges = newSessionTicketEdges()
		}
	}
	for _, kx := range []int{0, 2, 4, 6} {
		out = append(out, envelopeCodec2(kx))
	}

	return out
}
