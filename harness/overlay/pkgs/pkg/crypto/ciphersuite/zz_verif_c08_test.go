//go:build verif

// C08 unit leg: every record-protection Decrypt of pkg/crypto/ciphersuite (GCM, CCM, CCM8, ChaCha20-Poly1305,
// CBC-SHA1, CBC-SHA256, each with and without a connection id) on hostile input: random bodies of every
// length 0..300, mutated genuine records, records built WITH the keys (valid MAC or not) carrying every
// padding length byte.  Decrypt runs in this goroutine, so a panic is recovered and reported with the input.
package ciphersuite

import (
	"crypto/aes"
	"crypto/cipher"
	"crypto/hmac"
	"crypto/sha1" //nolint:gosec
	"crypto/sha256"
	"encoding/binary"
	"encoding/hex"
	"encoding/json"
	"fmt"
	"hash"
	"os"
	"testing"

	"github.com/pion/dtls/v3/pkg/protocol"
	"github.com/pion/dtls/v3/pkg/protocol/recordlayer"
)

type c08Rand struct{ s uint64 }

func (r *c08Rand) u64() uint64 {
	r.s += 0x9e3779b97f4a7c15
	z := r.s
	z = (z ^ (z >> 30)) * 0xbf58476d1ce4e5b9
	z = (z ^ (z >> 27)) * 0x94d049bb133111eb

	return z ^ (z >> 31)
}

func (r *c08Rand) intn(n int) int {
	if n <= 0 {
		return 0
	}

	return int(r.u64() % uint64(n))
}

func (r *c08Rand) bytes(n int) []byte {
	b := make([]byte, n)
	for i := range b {
		b[i] = byte(r.u64())
	}

	return b
}

type c08Suite interface {
	Encrypt(pkt *recordlayer.RecordLayer, raw []byte) ([]byte, error)
	Decrypt(h recordlayer.Header, in []byte) ([]byte, error)
}

type c08Row struct {
	Suite string `json:"suite"`
	Kind  string `json:"kind"`
	Len   int    `json:"len"`
	Err   string `json:"err"`
	Panic string `json:"panic,omitempty"`
	Hex   string `json:"hex,omitempty"`
	Keys  string `json:"keys,omitempty"`
}

func c08Try(s c08Suite, h recordlayer.Header, in []byte) (err string, pan string) {
	defer func() {
		if r := recover(); r != nil {
			pan = fmt.Sprint(r)
		}
	}()
	_, e := s.Decrypt(h, append([]byte(nil), in...))
	if e != nil {
		return e.Error(), ""
	}

	return "ok", ""
}

func TestVerifC08Decrypt(t *testing.T) {
	p := os.Getenv("VERIF_OUT")
	if p == "" {
		p = os.DevNull
	}
	f, err := os.Create(p)
	if err != nil {
		t.Fatal(err)
	}
	defer f.Close() //nolint:errcheck
	seed := uint64(1)
	fmt.Sscanf(os.Getenv("VERIF_SEED"), "%d", &seed)
	rng := &c08Rand{s: seed ^ 0xc08d}
	thorough := os.Getenv("VERIF_TIER") == "thorough"
	seen := map[string]bool{}
	emit := func(r c08Row) {
		norm := []byte(r.Panic)
		for i, c := range norm {
			if c >= '0' && c <= '9' {
				norm[i] = 'N'
			}
		}
		k := r.Suite + "|" + r.Kind + "|" + r.Err + "|" + string(norm)
		if seen[k] {
			return
		}
		seen[k] = true
		b, _ := json.Marshal(r)
		_, _ = f.Write(append(b, '\n'))
	}
	k16a, k16b, k32a, k32b := rng.bytes(16), rng.bytes(16), rng.bytes(32), rng.bytes(32)
	iv4a, iv4b, iv12a, iv12b, iv16a, iv16b := rng.bytes(4), rng.bytes(4), rng.bytes(12), rng.bytes(12), rng.bytes(16), rng.bytes(16)
	m20a, m20b, m32a, m32b := rng.bytes(20), rng.bytes(20), rng.bytes(32), rng.bytes(32)
	type ent struct {
		name     string
		snd, rcv c08Suite
		cbcKey   []byte // receiver-side read key == sender write key (for hand-built CBC records)
		cbcMac   []byte
		hf       func() hash.Hash
	}
	mk := func(name string, a, b c08Suite, e1, e2 error) ent {
		if e1 != nil || e2 != nil {
			t.Fatalf("%s: %v %v", name, e1, e2)
		}

		return ent{name: name, snd: a, rcv: b}
	}
	var suites []ent
	{
		a, e1 := NewGCM(k16a, iv4a, k16b, iv4b)
		b, e2 := NewGCM(k16b, iv4b, k16a, iv4a)
		suites = append(suites, mk("GCM", a, b, e1, e2))
	}
	{
		a, e1 := NewCCM(CCMTagLength, k16a, iv4a, k16b, iv4b)
		b, e2 := NewCCM(CCMTagLength, k16b, iv4b, k16a, iv4a)
		suites = append(suites, mk("CCM", a, b, e1, e2))
	}
	{
		a, e1 := NewCCM(CCMTagLength8, k16a, iv4a, k16b, iv4b)
		b, e2 := NewCCM(CCMTagLength8, k16b, iv4b, k16a, iv4a)
		suites = append(suites, mk("CCM8", a, b, e1, e2))
	}
	{
		a, e1 := NewChaCha20Poly1305(k32a, iv12a, k32b, iv12b)
		b, e2 := NewChaCha20Poly1305(k32b, iv12b, k32a, iv12a)
		suites = append(suites, mk("ChaCha20Poly1305", a, b, e1, e2))
	}
	{
		a, e1 := NewCBC(k32a, iv16a, m20a, k32b, iv16b, m20b, sha1.New)
		b, e2 := NewCBC(k32b, iv16b, m20b, k32a, iv16a, m20a, sha1.New)
		e := mk("CBC-SHA1", a, b, e1, e2)
		e.cbcKey, e.cbcMac, e.hf = k32a, m20a, sha1.New
		suites = append(suites, e)
	}
	{
		a, e1 := NewCBC(k16a, iv16a, m32a, k16b, iv16b, m32b, sha256.New)
		b, e2 := NewCBC(k16b, iv16b, m32b, k16a, iv16a, m32a, sha256.New)
		e := mk("CBC-SHA256", a, b, e1, e2)
		e.cbcKey, e.cbcMac, e.hf = k16a, m32a, sha256.New
		suites = append(suites, e)
	}
	header := func(ct protocol.ContentType, cid []byte, seq uint64, n int) (recordlayer.Header, []byte) {
		h := recordlayer.Header{
			ContentType: ct, Version: protocol.Version1_2, Epoch: 1, SequenceNumber: seq, ConnectionID: cid,
			ContentLen: uint16(n), //nolint:gosec
		}
		raw, err := h.Marshal()
		if err != nil {
			t.Fatal(err)
		}

		return h, raw
	}
	reps := 1
	if thorough {
		reps = 30
	}
	for _, s := range suites {
		for _, cid := range [][]byte{nil, {1, 2, 3, 4}} {
			name := s.name
			ct := protocol.ContentTypeApplicationData
			if cid != nil {
				name += "+cid"
				ct = protocol.ContentTypeConnectionID
			}
			decHdr := recordlayer.Header{}
			if cid != nil {
				decHdr.ConnectionID = make([]byte, len(cid))
			}
			run := func(kind string, in []byte) {
				e, pan := c08Try(s.rcv, decHdr, in)
				row := c08Row{Suite: name, Kind: kind, Len: len(in), Err: e, Panic: pan}
				if pan != "" {
					row.Hex = hex.EncodeToString(in)
					if s.cbcKey != nil {
						row.Keys = "read key " + hex.EncodeToString(s.cbcKey) + " mac key " + hex.EncodeToString(s.cbcMac)
					}
				}
				emit(row)
			}
			for rep := 0; rep < reps; rep++ {
				// 1. random bodies of every length (header well-formed and not)
				for n := 0; n <= 300; n++ {
					_, raw := header(ct, cid, uint64(n), n)
					run("random-body", append(raw, rng.bytes(n)...))
				}
				for n := 0; n < 40; n++ {
					run("random-bytes", rng.bytes(n))
				}
				// 2. genuine records and their mutations
				for i := 0; i < 60; i++ {
					pl := rng.bytes(rng.intn(80))
					if cid != nil {
						pl = append(pl, 23)
						pl = append(pl, make([]byte, rng.intn(3))...)
					}
					h, raw := header(ct, cid, uint64(1000+i), len(pl))
					enc, err := s.snd.Encrypt(&recordlayer.RecordLayer{Header: h}, append(raw, pl...))
					if err != nil {
						t.Fatalf("%s encrypt: %v", name, err)
					}
					run("genuine", enc)
					for j := 0; j < 12; j++ {
						m := append([]byte(nil), enc...)
						switch rng.intn(6) {
						case 0:
							m[rng.intn(len(m))] ^= 1 << uint(rng.intn(8))
						case 1:
							m = m[:rng.intn(len(m))]
						case 2:
							m = append(m, rng.bytes(1+rng.intn(20))...)
						case 3:
							m[0] = byte(20 + rng.intn(8))
						case 4:
							if len(m) > h.Size()+16 {
								// keep only the tail blocks (the unauthenticated CBC splice)
								keep := 32 + 16*rng.intn(2)
								if keep < len(m)-h.Size() {
									m = append(append(append([]byte(nil), m[:h.Size()]...), rng.bytes(16)...), m[len(m)-keep:]...)
								}
							}
						default:
							binary.BigEndian.PutUint16(m[h.Size()-2:], uint16(rng.intn(400))) //nolint:gosec
						}
						run("mutant", m)
					}
				}
				// 3. CBC: plaintexts built with the keys, every padding-length byte, valid MAC or garbage
				if s.cbcKey != nil && cid == nil {
					blk, err := aes.NewCipher(s.cbcKey)
					if err != nil {
						t.Fatal(err)
					}
					macLen := s.hf().Size()
					for blocks := 1; blocks <= 6; blocks++ {
						for pb := 0; pb < 256; pb++ {
							n := 16 * blocks
							plain := rng.bytes(n)
							mode := "cbc-keyed-badmac"
							if n-1-pb >= 0 {
								for i := n - 1 - pb; i < n; i++ {
									plain[i] = byte(pb)
								}
							} else {
								for i := range plain {
									plain[i] = byte(pb)
								}
							}
							if dataEnd := n - macLen - pb - 1; dataEnd >= 0 && rng.intn(2) == 0 {
								mode = "cbc-keyed-validmac"
								_, raw := header(ct, nil, uint64(5000+pb), 0)
								_ = raw
								m := hmac.New(s.hf, s.cbcMac)
								ad := make([]byte, 13)
								binary.BigEndian.PutUint16(ad, 1)
								binary.BigEndian.PutUint32(ad[4:], uint32(5000+pb)) //nolint:gosec
								ad[8], ad[9], ad[10] = byte(ct), 0xfe, 0xfd
								binary.BigEndian.PutUint16(ad[11:], uint16(dataEnd)) //nolint:gosec
								m.Write(ad)
								m.Write(plain[:dataEnd])
								copy(plain[dataEnd:], m.Sum(nil))
							}
							iv := rng.bytes(16)
							enc := make([]byte, n)
							cipher.NewCBCEncrypter(blk, iv).CryptBlocks(enc, plain)
							_, raw := header(ct, nil, uint64(5000+pb), 16+n)
							run(mode, append(append(raw, iv...), enc...))
						}
					}
				}
			}
		}
	}
}
