//go:build verif

// C10 correspondence harness for pkg/crypto/ciphersuite: additional data, nonces, record framing
// of GCM / CCM / ChaCha20-Poly1305 and the CBC MAC-then-encrypt records (with and without
// connection ID). The AEAD / block-cipher primitives of the Go standard library are used only as
// oracles: the harness opens each record produced by the real Encrypt with the primitive called
// directly on (nonce, additional data) and emits those bytes; the driver compares them with the
// independent Gallina model.
package ciphersuite

import (
	"bytes"
	"crypto/aes"
	"crypto/cipher"
	"crypto/hmac"
	"crypto/sha1" //nolint:gosec
	"crypto/sha256"
	"encoding/binary"
	"encoding/hex"
	"hash"
	"testing"

	"github.com/pion/dtls/v3/pkg/crypto/ccm"
	"github.com/pion/dtls/v3/pkg/protocol"
	"github.com/pion/dtls/v3/pkg/protocol/recordlayer"
	"golang.org/x/crypto/chacha20poly1305"
)

const c10SiteCBC = "pkg/crypto/ciphersuite/cbc.go hmacCID"

// c10CorpusF8 replays the recorded failing input of former defect F8 (cbc.go hmacCID MACed the inner
// plaintext twice; fixed by "fix: MAC the inner plaintext once in CBC records with a connection ID").
// It runs first; the MAC must equal the recorded RFC 9146 section 5.1 value and a record built per the
// RFC must be accepted.
func c10CorpusF8(t *testing.T, out *c10Out) {
	t.Helper()
	unhex := func(s string) []byte {
		b, err := hex.DecodeString(s)
		if err != nil {
			t.Fatal(err)
		}

		return b
	}
	macKey := unhex("16f397e8287872ad6dcb3f1fbd459f457d7df808")
	inner := unhex("065fedd1f622c061b0d3af75a7cad4954b6b2805a51c96386903b879f5460bb3ae14000000")
	cid := unhex("d094")
	const epoch, seq = 2, 207586922106103
	key, iv := bytes.Repeat([]byte{0x42}, 32), bytes.Repeat([]byte{0x24}, 16)
	c, err := NewCBC(key, iv, macKey, key, iv, macKey, sha1.New)
	if err != nil {
		t.Fatal(err)
	}
	mac, err := c.hmacCID(epoch, seq, protocol.Version1_2, inner, macKey, sha1.New, cid)
	if err != nil {
		t.Fatal(err)
	}
	out.site = c10SiteCBC
	out.expect = "a0bb6f43f25fb0857814167e55a5238625329af5"
	out.emit(26, 1, "regression F8: CBC connection-ID MAC (RFC 9146 5.1)", [][]byte{macKey, inner, cid},
		[]uint64{epoch, seq, 0xfefd}, [][]byte{mac})
	out.site, out.expect = "", ""
}

type c10Rec struct {
	hdr     recordlayer.Header
	raw     []byte // marshalled header + payload, as conn.go hands it to Encrypt
	payload []byte
	cid     []byte
}

func c10Epoch(r *c10Rand) uint16 {
	switch r.intn(6) {
	case 0:
		return 0
	case 1:
		return 0xffff
	case 2:
		return uint16(r.intn(4)) //nolint:gosec
	default:
		return uint16(r.u64()) //nolint:gosec
	}
}

func c10Seq(r *c10Rand) uint64 {
	switch r.intn(6) {
	case 0:
		return 0
	case 1:
		return recordlayer.MaxSequenceNumber
	case 2:
		return uint64(r.intn(300)) //nolint:gosec
	default:
		return r.u64() & recordlayer.MaxSequenceNumber
	}
}

// c10NewRec builds a record the way conn.go does: a plain record, or (withCID) a tls12_cid record
// whose payload is the serialized DTLSInnerPlaintext.
func c10NewRec(t *testing.T, r *c10Rand, withCID bool) c10Rec {
	t.Helper()
	types := []protocol.ContentType{
		protocol.ContentTypeChangeCipherSpec, protocol.ContentTypeAlert,
		protocol.ContentTypeHandshake, protocol.ContentTypeApplicationData,
	}
	ver := protocol.Version1_2
	if r.intn(8) == 0 {
		ver = protocol.Version1_0
	}
	content := r.bytes(r.intn(40))
	rec := c10Rec{}
	rec.hdr = recordlayer.Header{
		Version: ver, Epoch: c10Epoch(r), SequenceNumber: c10Seq(r),
		ContentType: types[r.intn(len(types))],
	}
	rec.payload = content
	if withCID {
		inner := &recordlayer.InnerPlaintext{Content: content, RealType: rec.hdr.ContentType, Zeros: uint(r.intn(6))} //nolint:gosec
		raw, err := inner.Marshal()
		if err != nil {
			t.Fatal(err)
		}
		rec.payload = raw
		rec.cid = r.bytes(1 + r.intn(12))
		rec.hdr.ContentType = protocol.ContentTypeConnectionID
		rec.hdr.ConnectionID = rec.cid
	}
	rec.hdr.ContentLen = uint16(len(rec.payload)) //nolint:gosec
	h, err := rec.hdr.Marshal()
	if err != nil {
		t.Fatal(err)
	}
	rec.raw = append(h, rec.payload...)

	return rec
}

func (c c10Rec) nums(extra ...int) []uint64 {
	out := []uint64{
		uint64(c.hdr.Epoch), c.hdr.SequenceNumber, uint64(c.hdr.ContentType),
		uint64(c.hdr.Version.Major)<<8 | uint64(c.hdr.Version.Minor),
	}
	for _, e := range extra {
		out = append(out, uint64(e)) //nolint:gosec
	}

	return out
}

// harness-side construction of nonce and additional data handed to the primitive oracle; the bytes
// are compared with the Gallina model by the driver.
func c10AAD(h recordlayer.Header, payloadLen int) []byte {
	var b []byte
	if h.ContentType == protocol.ContentTypeConnectionID {
		b = append(b, 0xff, 0xff, 0xff, 0xff, 0xff, 0xff, 0xff, 0xff, 25, byte(len(h.ConnectionID)), 25,
			h.Version.Major, h.Version.Minor)
		b = binary.BigEndian.AppendUint16(b, h.Epoch)
		var s [8]byte
		binary.BigEndian.PutUint64(s[:], h.SequenceNumber)
		b = append(b, s[2:]...)
		b = append(b, h.ConnectionID...)

		return binary.BigEndian.AppendUint16(b, uint16(payloadLen)) //nolint:gosec
	}
	b = binary.BigEndian.AppendUint16(b, h.Epoch)
	var s [8]byte
	binary.BigEndian.PutUint64(s[:], h.SequenceNumber)
	b = append(b, s[2:]...)
	b = append(b, byte(h.ContentType), h.Version.Major, h.Version.Minor)

	return binary.BigEndian.AppendUint16(b, uint16(payloadLen)) //nolint:gosec
}

func c10SeqNum(h recordlayer.Header) []byte {
	var s [8]byte
	binary.BigEndian.PutUint64(s[:], h.SequenceNumber)
	binary.BigEndian.PutUint16(s[:], h.Epoch)

	return s[:]
}

func TestVerifC10Suite(t *testing.T) {
	r := &c10Rand{s: c10Seed() ^ 0xc10c5}
	out := newC10Out(t)
	n := 40
	if c10Thorough() {
		n = 1000
	}
	c10CorpusF8(t, out)
	for i := 0; i < n; i++ {
		// --- additional data, called directly (also with sequence numbers beyond 48 bits)
		hd := recordlayer.Header{
			Epoch: c10Epoch(r), SequenceNumber: c10Seq(r), Version: protocol.Version1_2,
			ContentType: protocol.ContentType(20 + r.intn(8)), //nolint:gosec
		}
		if r.intn(6) == 0 {
			hd.SequenceNumber = r.u64()
		}
		pl := r.intn(1 << 14)
		out.emit(20, 0, "generateAEADAdditionalData", nil,
			[]uint64{uint64(hd.Epoch), hd.SequenceNumber, uint64(hd.ContentType), 0xfefd, uint64(pl)}, //nolint:gosec
			[][]byte{generateAEADAdditionalData(&hd, pl)})
		hd.ConnectionID = r.bytes(r.intn(21))
		hd.SequenceNumber &= recordlayer.MaxSequenceNumber
		out.emit(21, 0, "generateAEADAdditionalDataCID", [][]byte{hd.ConnectionID},
			[]uint64{uint64(hd.Epoch), hd.SequenceNumber, 0xfefd, uint64(pl)}, //nolint:gosec
			[][]byte{generateAEADAdditionalDataCID(&hd, pl)})

		withCID := i%2 == 1
		c10GCM(t, r, out, withCID)
		c10CCM(t, r, out, withCID)
		c10ChaCha(t, r, out, withCID)
		c10CBC(t, r, out, withCID)
	}
}

func c10AESRecord(
	t *testing.T, out *c10Out, tag string, rec c10Rec, iv []byte, got []byte, oracle cipher.AEAD, tagLen int,
) {
	t.Helper()
	hs := rec.hdr.Size()
	if len(got) < hs+8+tagLen {
		t.Fatalf("%s: record too short", tag)
	}
	nonce := append(append([]byte{}, iv[:4]...), c10SeqNum(rec.hdr)...)
	aad := c10AAD(rec.hdr, len(rec.payload))
	opened, err := oracle.Open(nil, nonce, got[hs+8:], aad)
	note := ""
	if err != nil || !bytes.Equal(opened, rec.payload) {
		// the primitive does not open the record with the prescribed nonce/AAD: report as a mismatch
		nonce, aad = nil, nil
		note = "primitive oracle could not open the record with the prescribed nonce / additional data"
	}
	out.note = note
	out.emit(22, 0, tag, [][]byte{iv, rec.cid}, rec.nums(len(rec.payload), tagLen),
		[][]byte{nonce, aad, got[:hs], got[hs : hs+8]})
	out.note = ""
}

func c10GCM(t *testing.T, r *c10Rand, out *c10Out, withCID bool) {
	t.Helper()
	key, iv := r.bytes(16+16*r.intn(2)), r.bytes(4)
	rkey, riv := r.bytes(len(key)), r.bytes(4)
	g, err := NewGCM(key, iv, rkey, riv)
	if err != nil {
		t.Fatal(err)
	}
	rec := c10NewRec(t, r, withCID)
	got, err := g.Encrypt(&recordlayer.RecordLayer{Header: rec.hdr}, bytes.Clone(rec.raw))
	if err != nil {
		t.Fatal(err)
	}
	blk, _ := aes.NewCipher(key)
	oracle, _ := cipher.NewGCM(blk)
	c10AESRecord(t, out, "GCM.Encrypt", rec, iv, got, oracle, 16)
	c10RoundTrip(t, "GCM", key, iv, rec, got, func(k, v []byte) (c10Dec, error) { return NewGCM(k, v, k, v) })
}

func c10CCM(t *testing.T, r *c10Rand, out *c10Out, withCID bool) {
	t.Helper()
	key, iv := r.bytes(16+16*r.intn(2)), r.bytes(4)
	tagLen := CCMTagLength
	if r.intn(2) == 0 {
		tagLen = CCMTagLength8
	}
	g, err := NewCCM(tagLen, key, iv, r.bytes(len(key)), r.bytes(4))
	if err != nil {
		t.Fatal(err)
	}
	rec := c10NewRec(t, r, withCID)
	got, err := g.Encrypt(&recordlayer.RecordLayer{Header: rec.hdr}, bytes.Clone(rec.raw))
	if err != nil {
		t.Fatal(err)
	}
	blk, _ := aes.NewCipher(key)
	// pion's own CCM mode over the stdlib AES block (the mode itself is compared with the model's
	// RFC 3610 implementation in TestVerifC10CCMMode)
	oracle, err := ccm.NewCCM(blk, int(tagLen), 12)
	if err != nil {
		t.Fatal(err)
	}
	c10AESRecord(t, out, "CCM.Encrypt", rec, iv, got, oracle, int(tagLen))
	// the whole record, computed by the model alone (AES + CCM + layout)
	out.emit(32, 0, "CCM.Encrypt (whole record)", [][]byte{key, iv, rec.cid, rec.payload},
		rec.nums(int(tagLen)), [][]byte{got})
	c10RoundTrip(t, "CCM", key, iv, rec, got, func(k, v []byte) (c10Dec, error) { return NewCCM(tagLen, k, v, k, v) })
}

func c10ChaCha(t *testing.T, r *c10Rand, out *c10Out, withCID bool) {
	t.Helper()
	key, iv := r.bytes(32), r.bytes(12)
	g, err := NewChaCha20Poly1305(key, iv, r.bytes(32), r.bytes(12))
	if err != nil {
		t.Fatal(err)
	}
	rec := c10NewRec(t, r, withCID)
	got, err := g.Encrypt(&recordlayer.RecordLayer{Header: rec.hdr}, bytes.Clone(rec.raw))
	if err != nil {
		t.Fatal(err)
	}
	hs := rec.hdr.Size()
	nonce := bytes.Clone(iv)
	for i, b := range c10SeqNum(rec.hdr) {
		nonce[4+i] ^= b
	}
	aad := c10AAD(rec.hdr, len(rec.payload))
	oracle, _ := chacha20poly1305.New(key)
	opened, err := oracle.Open(nil, nonce, got[hs:], aad)
	if err != nil || !bytes.Equal(opened, rec.payload) {
		nonce, aad = nil, nil
		out.note = "primitive oracle could not open the record with the prescribed nonce / additional data"
	}
	out.emit(23, 0, "ChaCha20Poly1305.Encrypt", [][]byte{iv, rec.cid}, rec.nums(len(rec.payload)),
		[][]byte{nonce, aad, got[:hs]})
	out.note = ""
	c10RoundTrip(t, "ChaCha", key, iv, rec, got,
		func(k, v []byte) (c10Dec, error) { return NewChaCha20Poly1305(k, v, k, v) })
}

type c10Dec interface {
	Decrypt(header recordlayer.Header, in []byte) ([]byte, error)
}

// the library must of course also open its own records (sanity of the harness set-up)
func c10RoundTrip(
	t *testing.T, name string, key, iv []byte, rec c10Rec, got []byte, mk func(k, v []byte) (c10Dec, error),
) {
	t.Helper()
	if rec.hdr.ContentType == protocol.ContentTypeChangeCipherSpec {
		return // Decrypt passes change_cipher_spec records through untouched
	}
	d, err := mk(key, iv)
	if err != nil {
		t.Fatal(err)
	}
	h := recordlayer.Header{}
	if rec.cid != nil {
		h.ConnectionID = make([]byte, len(rec.cid))
	}
	plain, err := d.Decrypt(h, bytes.Clone(got))
	if err != nil || !bytes.Equal(plain[rec.hdr.Size():], rec.payload) {
		t.Fatalf("%s: library does not open its own record: %v", name, err)
	}
}

func c10CBC(t *testing.T, r *c10Rand, out *c10Out, withCID bool) {
	t.Helper()
	type hm struct {
		code int
		f    func() hash.Hash
	}
	hs := []hm{{256, sha256.New}, {1, sha1.New}}
	h := hs[r.intn(2)]
	key, iv := r.bytes(16+16*r.intn(2)), r.bytes(16)
	macKey := r.bytes(h.f().Size())
	c, err := NewCBC(key, iv, macKey, key, iv, macKey, h.f)
	if err != nil {
		t.Fatal(err)
	}
	rec := c10NewRec(t, r, withCID)
	got, err := c.Encrypt(&recordlayer.RecordLayer{Header: rec.hdr}, bytes.Clone(rec.raw))
	if err != nil {
		t.Fatal(err)
	}
	hsz := rec.hdr.Size()
	body := got[hsz:]
	if len(body) < 32 || len(body)%16 != 0 {
		t.Fatalf("CBC body length %d", len(body))
	}
	blk, _ := aes.NewCipher(key)
	plain := make([]byte, len(body)-16)
	cipher.NewCBCDecrypter(blk, body[:16]).CryptBlocks(plain, body[16:]) // primitive oracle

	if !withCID {
		mac, err := c.hmac(rec.hdr.Epoch, rec.hdr.SequenceNumber, rec.hdr.ContentType, rec.hdr.Version,
			rec.payload, macKey, h.f)
		if err != nil {
			t.Fatal(err)
		}
		out.emit(25, h.code, "CBC.hmac", [][]byte{macKey, rec.payload}, rec.nums(), [][]byte{mac})
		out.emit(24, h.code, "CBC.Encrypt", [][]byte{macKey, rec.payload, nil}, rec.nums(),
			[][]byte{plain, got[:hsz]})
		// the whole record given the explicit IV the library drew, computed by the model alone
		out.emit(33, h.code, "CBC.Encrypt (whole record)", [][]byte{key, macKey, body[:16], rec.payload},
			rec.nums(), [][]byte{got})

		return
	}

	// connection ID: RFC 9146 section 5.1
	out.site = c10SiteCBC
	defer func() { out.site = "" }()
	mac, err := c.hmacCID(rec.hdr.Epoch, rec.hdr.SequenceNumber, rec.hdr.Version, rec.payload, macKey, h.f, rec.cid)
	if err != nil {
		t.Fatal(err)
	}
	nn := rec.nums()
	cidNums := []uint64{nn[0], nn[1], nn[3]}
	const tagRFC = "CBC connection-ID MAC (RFC 9146 5.1)"
	out.emit(26, h.code, tagRFC, [][]byte{macKey, rec.payload, rec.cid}, cidNums, [][]byte{mac})
	out.emit(28, h.code, "CBC.Encrypt cid (RFC 9146 5.1)", [][]byte{macKey, rec.payload, rec.cid}, cidNums,
		[][]byte{plain, got[:hsz]})
	// the whole record given the explicit IV the library drew, computed by the model alone
	out.emit(34, h.code, "CBC.Encrypt cid (whole record)",
		[][]byte{key, macKey, body[:16], rec.cid, rec.payload}, cidNums, [][]byte{got})

	// a record built exactly as RFC 9146 section 5.1 prescribes (MAC input emitted and compared
	// with the model) must be accepted by Decrypt
	var in []byte
	in = append(in, 0xff, 0xff, 0xff, 0xff, 0xff, 0xff, 0xff, 0xff, 25, byte(len(rec.cid)), 25,
		rec.hdr.Version.Major, rec.hdr.Version.Minor)
	in = append(in, c10SeqNum(rec.hdr)...)
	in = append(in, rec.cid...)
	in = binary.BigEndian.AppendUint16(in, uint16(len(rec.payload))) //nolint:gosec
	in = append(in, rec.payload...)
	m := hmac.New(h.f, macKey)
	m.Write(in)
	pt := append(bytes.Clone(rec.payload), m.Sum(nil)...)
	padLen := 16 - len(pt)%16
	for j := 0; j < padLen; j++ {
		pt = append(pt, byte(padLen-1))
	}
	eiv := r.bytes(16)
	ct := make([]byte, len(pt))
	cipher.NewCBCEncrypter(blk, eiv).CryptBlocks(ct, pt)
	hdr := rec.hdr
	hdr.ContentLen = uint16(16 + len(ct)) //nolint:gosec
	wire, err := hdr.Marshal()
	if err != nil {
		t.Fatal(err)
	}
	wire = append(append(wire, eiv...), ct...)
	dh := recordlayer.Header{ConnectionID: make([]byte, len(rec.cid))}
	accepted := []byte{0}
	if dec, err := c.Decrypt(dh, wire); err == nil && bytes.Equal(dec[hsz:], rec.payload) {
		accepted = []byte{1}
	}
	out.emit(30, h.code, "CBC.Decrypt of an RFC 9146 5.1 record", [][]byte{macKey, rec.payload, rec.cid}, cidNums,
		[][]byte{in, pt, accepted})
}

// TestVerifC10CCMMode compares pion's own CCM mode (pkg/crypto/ccm, over the stdlib AES block) and
// the stdlib AES block itself with the model's RFC 3610 / FIPS 197 implementation, for every
// nonce length 7..13 and tag length 4..16.
func TestVerifC10CCMMode(t *testing.T) {
	r := &c10Rand{s: c10Seed() ^ 0xc10cc}
	out := newC10Out(t)
	n := 40
	if c10Thorough() {
		n = 1000
	}
	for i := 0; i < n; i++ {
		key := r.bytes(16 + 8*r.intn(3))
		blk, err := aes.NewCipher(key)
		if err != nil {
			t.Fatal(err)
		}
		b := r.bytes(16)
		enc := make([]byte, 16)
		blk.Encrypt(enc, b)
		out.emit(35, 0, "aes.Encrypt (stdlib oracle)", [][]byte{key, b}, nil, [][]byte{enc})

		tagLen := 4 + 2*r.intn(7)
		nonceLen := 7 + r.intn(7)
		if i%3 == 0 {
			tagLen, nonceLen = 8+8*r.intn(2), 12 // the DTLS parameters
		}
		c, err := ccm.NewCCM(blk, tagLen, nonceLen)
		if err != nil {
			t.Fatal(err)
		}
		nonce := r.bytes(nonceLen)
		msg := r.bytes(r.intn(50))
		var ad []byte
		if r.intn(4) != 0 {
			ad = r.bytes(1 + r.intn(40))
		}
		sealed := c.Seal(nil, nonce, msg, ad)
		out.emit(31, 0, "ccm.Seal", [][]byte{key, nonce, msg, ad}, c10U(tagLen), [][]byte{sealed})
		if opened, err := c.Open(nil, nonce, sealed, ad); err != nil || !bytes.Equal(opened, msg) {
			t.Fatalf("ccm does not open its own output: %v", err)
		}
	}
}
