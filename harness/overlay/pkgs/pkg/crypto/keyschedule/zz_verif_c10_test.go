//go:build verif

// C10 correspondence harness for pkg/crypto/keyschedule: HKDF-Extract, HKDF-Expand-Label with the
// "dtls13" prefix, Derive-Secret.
package keyschedule

import (
	"crypto/sha256"
	"crypto/sha512"
	"hash"
	"testing"
)

func TestVerifC10KeySchedule(t *testing.T) {
	r := &c10Rand{s: c10Seed() ^ 0xc1040}
	out := newC10Out(t)
	n := 36
	if c10Thorough() {
		n = 800
	}
	type hm struct {
		code int
		f    func() hash.Hash
	}
	hs := []hm{{256, sha256.New}, {384, sha512.New384}}
	labels := []string{
		"c hs traffic", "s hs traffic", "c ap traffic", "s ap traffic", "exp master", "res master",
		"derived", "finished", "traffic upd", "key", "iv", "sn", "exporter", "c e traffic", "ext binder",
	}
	must := func(b []byte, err error) []byte {
		if err != nil {
			t.Fatalf("unexpected error: %v", err)
		}

		return b
	}
	for i := 0; i < n; i++ {
		h := hs[i%2]
		hl := h.f().Size()
		var salt []byte
		if r.intn(3) != 0 {
			salt = r.bytes(1 + r.intn(hl+8))
		}
		ikm := r.bytes(r.intn(70))
		out.emit(40, h.code, "HkdfExtract", [][]byte{salt, ikm}, nil, [][]byte{must(HkdfExtract(h.f, salt, ikm))})

		secret := r.bytes(hl)
		label := labels[r.intn(len(labels))]
		if r.intn(4) == 0 {
			b := make([]byte, 1+r.intn(20))
			for j := range b {
				b[j] = byte(32 + r.intn(95))
			}
			label = string(b)
		}
		var ctx []byte
		switch r.intn(3) {
		case 0:
			ctx = nil
		case 1:
			ctx = r.bytes(hl)
		default:
			ctx = r.bytes(r.intn(60))
		}
		var ln int
		switch r.intn(5) {
		case 0:
			ln = 12
		case 1:
			ln = hl
		case 2:
			ln = 16 + 16*r.intn(2)
		default:
			ln = r.intn(100)
		}
		out.emit(41, h.code, "HkdfExpandLabel", [][]byte{secret, []byte(label), ctx}, c10U(ln),
			[][]byte{must(HkdfExpandLabel(h.f, secret, label, ctx, ln))})

		var th hash.Hash
		var msgs []byte
		if r.intn(3) != 0 {
			th = h.f()
			msgs = r.bytes(r.intn(150))
			th.Write(msgs)
		}
		out.emit(42, h.code, "DeriveSecret", [][]byte{secret, []byte(label), msgs}, nil,
			[][]byte{must(DeriveSecret(h.f, secret, label, th))})
	}
}
