//go:build verif

// C08 unit leg (F69): PSKPreMasterSecret for pre-shared keys at the 16-bit edge of its length fields.  A key of
// 65532 / 65533 bytes used to PANIC (slice bounds) in the handshake goroutine: a crash reachable by configuration.
package prf

import (
	"encoding/binary"
	"encoding/json"
	"fmt"
	"os"
	"testing"
)

type c08PSKRow struct {
	Kind   string `json:"kind"`
	Len    int    `json:"len"`
	Panic  string `json:"panic,omitempty"`
	OutLen int    `json:"out_len"`
	Shape  bool   `json:"shape"` // uint16 len || zeros(len) || uint16 len || psk  (RFC 4279)
}

func TestVerifC08PSKLength(t *testing.T) {
	p := os.Getenv("VERIF_OUT")
	if p == "" {
		p = os.DevNull
	}
	f, err := os.Create(p)
	if err != nil {
		t.Fatal(err)
	}
	defer f.Close() //nolint:errcheck
	for _, l := range []int{0, 1, 2, 255, 256, 32767, 32768, 65530, 65531, 65532, 65533, 65534, 65535} {
		row := c08PSKRow{Kind: "psk-length", Len: l}
		func() {
			defer func() {
				if r := recover(); r != nil {
					row.Panic = fmt.Sprint(r)
				}
			}()
			psk := make([]byte, l)
			for i := range psk {
				psk[i] = 0xab
			}
			out := PSKPreMasterSecret(psk)
			row.OutLen = len(out)
			if len(out) == 4+2*l && int(binary.BigEndian.Uint16(out)) == l && int(binary.BigEndian.Uint16(out[2+l:])) == l {
				row.Shape = true
				for i := 0; i < l; i++ {
					if out[2+i] != 0 || out[4+l+i] != 0xab {
						row.Shape = false
					}
				}
			}
		}()
		b, _ := json.Marshal(row)
		_, _ = f.Write(append(b, '\n'))
	}
}
