//go:build verif

// C10: PSKPreMasterSecret for pre-shared keys around the RFC 4279 maximum (2^16-1 octets) and around
// 2^16. A key of that size cannot be written out in a Coq case file, so key and result are compared
// through a projection (function code 19 of Crypto/C10Run.v): key = head ++ fill^k ++ tail; result =
// length, first 6 bytes, 12 bytes from offset n-2 (end of the zero block, second length field, start
// of the key), last 6 bytes, sum of all bytes, and for some cases the SHA-256 of the whole string.
// A panic of the function is an observation too (empty output list).
package prf

import (
	"crypto/sha256"
	"encoding/binary"
	"fmt"
	"testing"
)

func c10PremasterDigest(n int, pm []byte, withHash bool) [][]byte {
	clip := func(a, b int) []byte {
		if a > len(pm) {
			a = len(pm)
		}
		if b > len(pm) {
			b = len(pm)
		}

		return pm[a:b]
	}
	ln := make([]byte, 4)
	binary.BigEndian.PutUint32(ln, uint32(len(pm))) //nolint:gosec
	var sum uint64
	for _, b := range pm {
		sum += uint64(b)
	}
	sm := make([]byte, 8)
	binary.BigEndian.PutUint64(sm, sum)
	off := n - 2
	if off < 0 {
		off = 0
	}
	last := len(pm) - 6
	if last < 0 {
		last = 0
	}
	out := [][]byte{ln, clip(0, 6), clip(off, off+12), pm[last:], sm}
	if withHash {
		h := sha256.Sum256(pm)
		out = append(out, h[:])
	}

	return out
}

func TestVerifC10PremasterLongPSK(t *testing.T) {
	r := &c10Rand{s: c10Seed() ^ 0xc1019}
	out := newC10Out(t)
	type lc struct {
		n    int
		hash bool
	}
	cases := []lc{
		{0, true}, {1, true}, {2, true}, {3, true}, {40, true}, {255, true}, {256, true}, {4096, true},
		{32767, false}, {32768, false}, {65531, false}, {65532, false}, {65533, false}, {65534, false},
		{65535, true}, {65536, false}, {65537, false}, {65540, false},
	}
	if c10Thorough() {
		for i := range cases {
			cases[i].hash = true
		}
		cases = append(cases, lc{65530, true}, lc{70000, true}, lc{131071, true}, lc{131072, true})
	}
	for _, c := range cases {
		hl, tl := r.intn(5), r.intn(5)
		if hl+tl > c.n {
			hl, tl = c.n, 0
		}
		head, tail := r.bytes(hl), r.bytes(tl)
		fill := byte(1 + r.intn(255))
		psk := append([]byte{}, head...)
		for len(psk) < c.n-tl {
			psk = append(psk, fill)
		}
		psk = append(psk, tail...)
		wh := 0
		if c.hash {
			wh = 1
		}
		var obs [][]byte
		out.note = fmt.Sprintf("%d-byte key = in[0] ++ %d x byte %d ++ in[1]; out = length, first 6, 12 bytes at offset n-2, "+
			"last 6, byte sum%s of the premaster secret", c.n, c.n-hl-tl, fill, map[bool]string{true: ", SHA-256", false: ""}[c.hash])
		func() {
			defer func() {
				if p := recover(); p != nil {
					obs = [][]byte{}
					out.note = fmt.Sprintf("PSKPreMasterSecret panicked on a %d-byte key: %v", c.n, p)
				}
			}()
			obs = c10PremasterDigest(c.n, PSKPreMasterSecret(psk), c.hash)
		}()
		out.emit(19, 256, "PSKPreMasterSecret (key lengths up to and around 2^16)", [][]byte{head, tail},
			c10U(c.n, int(fill), wh), obs)
	}
	out.note = ""
}
