//go:build verif

// C10 correspondence harness for pkg/crypto/prf: runs the real TLS 1.2 derivation functions on
// generated inputs and prints inputs + outputs as hex JSON lines. The driver (checks/c10.py)
// recomputes every output with the independent Gallina model and compares byte for byte.
package prf

import (
	"crypto/ecdh"
	"crypto/hmac"
	"crypto/sha1" //nolint:gosec
	"crypto/sha256"
	"crypto/sha512"
	"encoding/hex"
	"testing"

	"github.com/pion/dtls/v3/pkg/crypto/elliptic"
)

type c10Hash struct {
	code int
	f    HashFunc
}

func c10Hashes() []c10Hash {
	return []c10Hash{{256, sha256.New}, {384, sha512.New384}, {1, sha1.New}, {512, sha512.New}}
}

// secret lengths: mostly <= 48, sometimes longer than the HMAC block (key hashed first).
func c10SecretLen(r *c10Rand, blk int) int {
	switch r.intn(12) {
	case 0:
		return 0
	case 1:
		return blk + 1 + r.intn(12)
	case 2:
		return blk
	default:
		return 1 + r.intn(48)
	}
}

func TestVerifC10Prf(t *testing.T) {
	r := &c10Rand{s: c10Seed() ^ 0xc10}
	out := newC10Out(t)
	n := 30
	if c10Thorough() {
		n = 600
	}
	must := func(b []byte, err error) []byte {
		if err != nil {
			t.Fatalf("unexpected error: %v", err)
		}

		return b
	}
	// per-suite (mac, key, iv) lengths as handed to GenerateEncryptionKeys by internal/ciphersuite Init
	// (these are re-observed from the real Init in the internal/ciphersuite harness).
	lens := [][3]int{{0, 16, 4}, {0, 32, 4}, {0, 32, 12}, {20, 32, 16}, {32, 16, 16}}
	for i := 0; i < n; i++ {
		for _, h := range c10Hashes() {
			blk := h.f().BlockSize()
			if h.code == 1 || h.code == 512 {
				if i%4 != 0 { // the PRF is only ever used with SHA-256/384; keep some generic coverage
					continue
				}
			}
			// raw hash and HMAC (stdlib, tie of the model's primitives)
			text := r.bytes(r.intn(150))
			hh := h.f()
			hh.Write(text)
			out.emit(12, h.code, "hash", [][]byte{text}, nil, [][]byte{hh.Sum(nil)})
			key := r.bytes(c10SecretLen(r, blk))
			mac := hmac.New(h.f, key)
			mac.Write(text)
			out.emit(11, h.code, "hmac", [][]byte{key, text}, nil, [][]byte{mac.Sum(nil)})

			// P_hash with lengths around the iteration boundaries
			secret := r.bytes(c10SecretLen(r, blk))
			seed := r.bytes(r.intn(81))
			hl := h.f().Size()
			var ln int
			switch r.intn(6) {
			case 0:
				ln = 0
			case 1:
				ln = hl * (1 + r.intn(3))
			case 2:
				ln = hl*(1+r.intn(2)) + 1
			case 3:
				ln = hl*(1+r.intn(3)) - 1
			default:
				ln = r.intn(105)
			}
			if ln > 104 {
				ln = 104
			}
			out.emit(1, h.code, "PHash", [][]byte{secret, seed}, c10U(ln),
				[][]byte{must(PHash(secret, seed, ln, h.f))})

			pms := r.bytes(c10SecretLen(r, blk))
			cr, sr := r.bytes(32), r.bytes(32)
			ms := must(MasterSecret(pms, cr, sr, h.f))
			out.emit(2, h.code, "MasterSecret", [][]byte{pms, cr, sr}, nil, [][]byte{ms})

			sh := r.bytes(hl)
			out.emit(3, h.code, "ExtendedMasterSecret", [][]byte{pms, sh}, nil,
				[][]byte{must(ExtendedMasterSecret(pms, sh, h.f))})

			l := lens[r.intn(len(lens))]
			if r.intn(5) == 0 {
				l = [3]int{r.intn(21), r.intn(17), r.intn(13)}
			}
			keys, err := GenerateEncryptionKeys(ms, cr, sr, l[0], l[1], l[2], h.f)
			if err != nil {
				t.Fatal(err)
			}
			out.emit(4, h.code, "GenerateEncryptionKeys", [][]byte{ms, cr, sr}, c10U(l[0], l[1], l[2]), [][]byte{
				keys.ClientMACKey, keys.ServerMACKey, keys.ClientWriteKey, keys.ServerWriteKey,
				keys.ClientWriteIV, keys.ServerWriteIV,
			})

			bodies := r.bytes(r.intn(120))
			out.emit(5, h.code, "VerifyDataClient", [][]byte{ms, bodies}, nil,
				[][]byte{must(VerifyDataClient(ms, bodies, h.f))})
			out.emit(6, h.code, "VerifyDataServer", [][]byte{ms, bodies}, nil,
				[][]byte{must(VerifyDataServer(ms, bodies, h.f))})
		}

		psk := r.bytes(r.intn(40))
		out.emit(7, 256, "PSKPreMasterSecret", [][]byte{psk}, nil, [][]byte{PSKPreMasterSecret(psk)})

		// ECDHE_PSK: Z comes from Go's ECDH (primitive oracle); only the layout is compared.
		type cv struct {
			c  elliptic.Curve
			ec ecdh.Curve
		}
		curves := []cv{{elliptic.X25519, ecdh.X25519()}, {elliptic.P256, ecdh.P256()}, {elliptic.P384, ecdh.P384()}}
		c := curves[r.intn(len(curves))]
		privA := c10ECDHKey(c.ec, r)
		privB := c10ECDHKey(c.ec, r)
		z := must(PreMasterSecret(privB.PublicKey().Bytes(), privA.Bytes(), c.c))
		z2 := must(PreMasterSecret(privA.PublicKey().Bytes(), privB.Bytes(), c.c))
		if hex.EncodeToString(z) != hex.EncodeToString(z2) {
			t.Fatalf("ECDH oracle disagrees with itself")
		}
		out.emit(8, 256, "EcdhePSKPreMasterSecret", [][]byte{z, psk}, nil,
			[][]byte{must(EcdhePSKPreMasterSecret(psk, privB.PublicKey().Bytes(), privA.Bytes(), c.c))})
	}
}

func c10ECDHKey(c ecdh.Curve, r *c10Rand) *ecdh.PrivateKey {
	for {
		n := 32
		if c == ecdh.P384() {
			n = 48
		}
		k, err := c.NewPrivateKey(r.bytes(n))
		if err == nil {
			return k
		}
	}
}
