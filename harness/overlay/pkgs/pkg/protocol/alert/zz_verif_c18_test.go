//go:build verif

package alert

import (
	"testing"

	v "github.com/pion/dtls/v3/internal/verifc18"
)

// TestVerifC18Alert: alert codec (id 3) - exactly two bytes.
func TestVerifC18Alert(t *testing.T) {
	dump := func(a *Alert) v.Dump {
		d := v.Dump{}
		d.N(uint64(a.Level))
		d.N(uint64(a.Description))

		return d
	}
	c := &v.Codec{
		Name: "alert", ID: 3, Small: true, Tiny: true,
		Decode: func(in []byte) (*v.Decoded, error) {
			var a Alert
			if err := a.Unmarshal(in); err != nil {
				return nil, err
			}
			out, err := a.Marshal()

			return &v.Decoded{Dump: dump(&a), Reenc: out, ReencErr: err != nil}, nil
		},
		Gen: func(r *v.Rand) (v.Dump, []byte, bool) {
			a := Alert{Level: Level(r.Intn(256)), Description: Description(r.Intn(256))}
			if r.Chance(50) {
				a.Level = Level(r.Pick(1, 2))
				a.Description = Description(r.Pick(0, 10, 20, 40, 50, 80, 100, 120))
			}
			out, err := a.Marshal()

			return dump(&a), out, err == nil
		},
	}
	v.Run(t, []*v.Codec{c})
}
