//go:build verif

package extension_test

import (
	"testing"

	v "github.com/pion/dtls/v3/internal/verifc18"
	vhs "github.com/pion/dtls/v3/internal/verifc18hs"
	"github.com/pion/dtls/v3/pkg/protocol/extension"
)

func c18DumpRawList(l []extension.Raw) v.Dump {
	d := v.Dump{}
	d.N(uint64(len(l)))
	for _, e := range l {
		d.N(uint64(e.Type))
		d.Bytes(e.Data)
	}

	return d
}

// c18PayloadCodec wraps UnmarshalData/MarshalData of one concrete extension payload type. The
// table of types (fresh value, generator, fixed inputs) and the field dump are shared with the
// handshake-level codecs: vhs.ExtKinds, vhs.DumpExtensionValue.
func c18PayloadCodec(k vhs.ExtKind) *v.Codec {
	dump := func(e extension.Value) v.Dump {
		d := v.Dump{}
		vhs.DumpExtensionValue(&d, e)

		return d
	}

	return &v.Codec{
		Name: k.Name, ID: k.ID, Small: true, Corpus: k.Corpus,
		Decode: func(in []byte) (*v.Decoded, error) {
			x := k.Fresh()
			if err := x.UnmarshalData(in); err != nil {
				return nil, err
			}
			d := dump(x)
			out, err := x.MarshalData()

			return &v.Decoded{Dump: d, Reenc: out, ReencErr: err != nil}, nil
		},
		Gen: func(r *v.Rand) (v.Dump, []byte, bool) {
			x := k.Gen(r)
			out, err := x.MarshalData()

			return dump(x), out, err == nil
		},
	}
}

// TestVerifC18Extension: the extension list framing (ParseList/MarshalRawList, id 119) and every
// extension payload type of extension, extension/dtls12 and extension/dtls13 (ids 120-148).
// None of them has a Coq model; they are checked by the implementation-side monitors.
func TestVerifC18Extension(t *testing.T) {
	rawList := &v.Codec{
		Name: "ext_raw_list", ID: 119, Small: true,
		Corpus: [][]byte{
			{0, 0},
			{0, 4, 0x77, 0x77, 0, 0},
			{0, 8, 0, 23, 0, 0, 0, 23, 0, 0},        // duplicates are preserved
			{0, 5, 0x77, 0x77, 0, 1, 0xaa},          // one extension with a payload
			{0, 5, 0x77, 0x77, 0, 2, 0xaa},          // payload longer than the list
			{0, 3, 0x77, 0x77, 0},                   // half an extension header
			{0, 4, 0x77, 0x77, 0, 0, 0},             // list shorter than the buffer
			{0, 6, 0x77, 0x77, 0, 0, 0x77, 0x77, 0}, // list longer than the buffer
		},
		Decode: func(in []byte) (*v.Decoded, error) {
			l, err := extension.ParseList(in)
			if err != nil {
				return nil, err
			}
			out, err := extension.MarshalRawList(l)

			return &v.Decoded{Dump: c18DumpRawList(l), Reenc: out, ReencErr: err != nil}, nil
		},
		Gen: func(r *v.Rand) (v.Dump, []byte, bool) {
			l := []extension.Raw{}
			for i, n := 0, r.Len(4); i < n; i++ {
				typ := extension.Type(r.Pick(0, 10, 13, 23, 41, 43, 51, 54, 0xff01, r.Intn(1<<16)))
				l = append(l, extension.Raw{Type: typ, Data: r.Bytes(r.Len(20))})
			}
			out, err := extension.MarshalRawList(l)

			return c18DumpRawList(l), out, err == nil
		},
		Hint: []byte{0},
	}
	codecs := []*v.Codec{rawList}
	for _, k := range vhs.ExtKinds() {
		codecs = append(codecs, c18PayloadCodec(k))
	}
	v.Run(t, codecs)
}
