//go:build verif

package handshake_test

import (
	"testing"

	v "github.com/pion/dtls/v3/internal/verifc18"
	vhs "github.com/pion/dtls/v3/internal/verifc18hs"
	"github.com/pion/dtls/v3/pkg/protocol/handshake"
)

func c18DumpHeader(h *handshake.Header) v.Dump {
	d := v.Dump{}
	d.N(uint64(h.Type))
	d.N(uint64(h.Length))
	d.N(uint64(h.MessageSequence))
	d.N(uint64(h.FragmentOffset))
	d.N(uint64(h.FragmentLength))

	return d
}

// TestVerifC18Handshake: the 12-byte handshake header (id 2), the handshake envelope and the
// individual messages (ids 11-17), and - monitors only, no Coq model yet - the hello messages,
// ServerKeyExchange, CertificateRequest, the DTLS 1.3 messages and their envelope (ids 101-109).
func TestVerifC18Handshake(t *testing.T) {
	hdr := &v.Codec{
		Name: "hs_header", ID: 2,
		Decode: func(in []byte) (*v.Decoded, error) {
			var h handshake.Header
			if err := h.Unmarshal(in); err != nil {
				return nil, err
			}
			out, err := h.Marshal()

			return &v.Decoded{Dump: c18DumpHeader(&h), Reenc: out, ReencErr: err != nil}, nil
		},
		Gen: func(r *v.Rand) (v.Dump, []byte, bool) {
			h := handshake.Header{
				Type:            handshake.Type(r.Intn(256)),
				Length:          uint32(r.Intn(1 << 24)),
				MessageSequence: uint16(r.Intn(1 << 16)),
				FragmentOffset:  uint32(r.Intn(1 << 24)),
				FragmentLength:  uint32(r.Intn(1 << 24)),
			}
			out, err := h.Marshal()

			return c18DumpHeader(&h), out, err == nil
		},
	}
	v.Run(t, append(append([]*v.Codec{hdr}, vhs.Codecs()...), vhs.Codecs2()...))
}
