//go:build verif

package handshake_test

import (
	"testing"

	v "github.com/pion/dtls/v3/internal/verifc18"
	vhs "github.com/pion/dtls/v3/internal/verifc18hs"
)

func TestVerifC18Tmp(t *testing.T) { v.Run(t, vhs.Codecs2()) }
