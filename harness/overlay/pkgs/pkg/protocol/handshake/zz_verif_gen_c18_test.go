//go:build verif

package handshake_test

import (
	"crypto/tls"
	"fmt"
	"os"
	"sort"
	"strings"
	"testing"

	"github.com/pion/dtls/v3/pkg/crypto/clientcertificate"
	"github.com/pion/dtls/v3/pkg/crypto/elliptic"
	"github.com/pion/dtls/v3/pkg/crypto/signaturehash"
	"github.com/pion/dtls/v3/pkg/protocol"
)

// TestVerifGenC18 dumps the lookup tables the handshake codecs consult (tie 1: the C18 model
// and its lemmas are stated over these regenerated definitions).
func TestVerifGenC18(t *testing.T) {
	var b strings.Builder
	// signaturehash.Algorithm.Unmarshal over all 65536 schemes
	b.WriteString("Definition g_c18_sigschemes : list (N * (N * N)) :=\n  [")
	first := true
	for s := 0; s < 1<<16; s++ {
		var alg signaturehash.Algorithm
		if err := alg.Unmarshal(tls.SignatureScheme(s)); err != nil {
			continue
		}
		if !first {
			b.WriteString("; ")
		}
		first = false
		fmt.Fprintf(&b, "(%d, (%d, %d))", s, int(alg.Hash), int(alg.Signature))
	}
	b.WriteString("].\n")
	list := func(name string, vs []int) {
		sort.Ints(vs)
		strs := make([]string, len(vs))
		for i, v := range vs {
			strs[i] = fmt.Sprint(v)
		}
		fmt.Fprintf(&b, "Definition %s : list N := [%s].\n", name, strings.Join(strs, "; "))
	}
	vs := []int{}
	for k := range elliptic.CurveTypes() {
		vs = append(vs, int(k))
	}
	list("g_c18_curve_types", vs)
	vs = []int{}
	for k := range elliptic.Curves() {
		vs = append(vs, int(k))
	}
	list("g_c18_curves", vs)
	vs = []int{}
	for k := range clientcertificate.Types() {
		vs = append(vs, int(k))
	}
	list("g_c18_cert_types", vs)
	vs = []int{}
	for k := range protocol.CompressionMethods() {
		vs = append(vs, int(k))
	}
	list("g_c18_compression_methods", vs)

	p := os.Getenv("VERIF_OUT")
	if p == "" {
		t.Log(b.String())

		return
	}
	// appended: TestVerifGenC18Registry (in-package, same run) writes to the same file
	f, err := os.OpenFile(p, os.O_APPEND|os.O_CREATE|os.O_WRONLY, 0o600)
	if err != nil {
		t.Fatal(err)
	}
	defer f.Close() //nolint:errcheck
	if _, err := f.WriteString(b.String()); err != nil {
		t.Fatal(err)
	}
}
