//go:build verif

package handshake

import (
	"fmt"
	"os"
	"sort"
	"strings"
	"testing"
)

// TestVerifGenC18Registry dumps extensionRegistry (extension type x handshake context ->
// concrete payload type) for the C18 model: kind numbers are the C18 codec ids of the payload
// types (120..148, see harness/overlay/pkgs/internal/verifc18hs ExtKinds); 0 = a registered
// nil factory (kept raw).
func TestVerifGenC18Registry(t *testing.T) {
	kind := map[string]int{
		"*extension.ConnectionID": 120, "*extension.ServerNameOffer": 121, "*extension.ServerNameAck": 122,
		"*extension.ALPNOffer": 123, "*extension.ALPNSelection": 124, "*extension.SRTPOffer": 125,
		"*extension.SRTPSelection": 126, "*extension.SupportedGroups": 127, "*extension.SignatureAlgorithms": 128,
		"*extension.CertificateSignatureAlgorithms": 129, "*extension.ReturnRoutabilityCheck": 131,
		"*dtls12.ExtendedMasterSecret": 132, "*dtls12.RenegotiationInfo": 133, "*dtls12.SupportedPointFormats": 134,
		"*dtls13.CertificateAuthorities": 135, "*dtls13.Cookie": 136, "*dtls13.EarlyData": 137,
		"*dtls13.MaxEarlyData": 138, "*dtls13.ClientKeyShare": 139, "*dtls13.ServerKeyShare": 140,
		"*dtls13.RetryKeyShare": 141, "*dtls13.OIDFilters": 142, "*dtls13.PostHandshakeAuth": 143,
		"*dtls13.OfferedPSKs": 144, "*dtls13.SelectedPSK": 145, "*dtls13.PSKKeyExchangeModes": 146,
		"*dtls13.OfferedVersions": 147, "*dtls13.SelectedVersion": 148,
	}
	type row struct{ typ, ctx, kind int }
	rows := []row{}
	for typ, ctxs := range extensionRegistry {
		for ctx, factory := range ctxs {
			k := 0
			if factory != nil {
				name := fmt.Sprintf("%T", factory())
				var ok bool
				if k, ok = kind[name]; !ok {
					t.Fatalf("extension payload type %s is not known to the C18 model", name)
				}
			}
			rows = append(rows, row{int(typ), int(ctx), k})
		}
	}
	sort.Slice(rows, func(i, j int) bool {
		if rows[i].typ != rows[j].typ {
			return rows[i].typ < rows[j].typ
		}

		return rows[i].ctx < rows[j].ctx
	})
	var b strings.Builder
	b.WriteString("(* extensionRegistry: (extension type, (handshake context, payload kind)) *)\n")
	b.WriteString("Definition g_c18_ext_registry : list (N * (N * N)) :=\n  [")
	for i, r := range rows {
		if i > 0 {
			b.WriteString("; ")
		}
		fmt.Fprintf(&b, "(%d, (%d, %d))", r.typ, r.ctx, r.kind)
	}
	b.WriteString("].\n")
	ctxs := []extensionContext{
		extensionContextClientHello, extensionContextServerHello12, extensionContextServerHello13,
		extensionContextHelloRetryRequest, extensionContextEncryptedExtensions, extensionContextCertificateRequest,
		extensionContextCertificateEntry, extensionContextNewSessionTicket,
	}
	names := []string{"client_hello", "server_hello12", "server_hello13", "hello_retry_request",
		"encrypted_extensions", "certificate_request", "certificate_entry", "new_session_ticket"}
	for i, c := range ctxs {
		fmt.Fprintf(&b, "Definition g_c18_ctx_%s : N := %d.\n", names[i], int(c))
	}
	hrr := HelloRetryRequestRandom()
	strs := make([]string, len(hrr))
	for i, x := range hrr {
		strs[i] = fmt.Sprint(x)
	}
	fmt.Fprintf(&b, "Definition g_c18_hrr_random : list N := [%s].\n", strings.Join(strs, "; "))

	p := os.Getenv("VERIF_OUT")
	if p == "" {
		t.Log(b.String())

		return
	}
	// appended to what TestVerifGenC18 (external test package, same run) wrote
	f, err := os.OpenFile(p, os.O_APPEND|os.O_CREATE|os.O_WRONLY, 0o600)
	if err != nil {
		t.Fatal(err)
	}
	defer f.Close() //nolint:errcheck
	if _, err := f.WriteString(b.String()); err != nil {
		t.Fatal(err)
	}
}
