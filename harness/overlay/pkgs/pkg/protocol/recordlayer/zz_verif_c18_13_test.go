//go:build verif

package recordlayer

import (
	"bytes"

	v "github.com/pion/dtls/v3/internal/verifc18"
	"github.com/pion/dtls/v3/pkg/protocol"
	"github.com/pion/dtls/v3/pkg/protocol/alert"
)

func c18DumpUnified(d *v.Dump, h *UnifiedHeader) {
	d.Bytes(h.ConnectionID)
	d.N(uint64(h.SequenceNumber))
	d.Bool(h.SeqBit)
	d.N(uint64(h.Length))
	d.Bool(h.LengthBit)
	d.N(uint64(h.EpochLow))
}

func c18GenUnified(r *v.Rand, cidLen int) UnifiedHeader {
	h := UnifiedHeader{
		ConnectionID: []byte{},
		SeqBit:       r.Chance(50),
		LengthBit:    r.Chance(50),
		EpochLow:     uint8(r.Intn(4)),
	}
	if cidLen > 0 && r.Chance(70) {
		h.ConnectionID = r.Bytes(cidLen)
	}
	if h.SeqBit {
		h.SequenceNumber = uint16(r.Intn(1 << 16))
	} else {
		h.SequenceNumber = uint16(r.Intn(1 << 8))
	}
	if h.LengthBit {
		h.Length = uint16(r.Intn(1 << 16))
	}

	return h
}

// UnifiedHeader (id 20): ctx = [negotiated cid length].
func c18UnifiedCodec(cidLen int) *v.Codec {
	return &v.Codec{
		Name: "unified_header", ID: 20, Ctx: []int{cidLen}, Small: true, Tiny: cidLen == 0,
		Corpus: [][]byte{
			{60, 0, 7, 0, 16}, // C bit set: with cidLen 0 it is accepted and re-encoded without it
		},
		Decode: func(in []byte) (*v.Decoded, error) {
			h := UnifiedHeader{ConnectionID: make([]byte, cidLen)}
			if err := h.Unmarshal(in); err != nil {
				return nil, err
			}
			d := v.Dump{}
			c18DumpUnified(&d, &h)
			out, err := h.Marshal()

			return &v.Decoded{Dump: d, Reenc: out, ReencErr: err != nil}, nil
		},
		Gen: func(r *v.Rand) (v.Dump, []byte, bool) {
			h := c18GenUnified(r, cidLen)
			d := v.Dump{}
			c18DumpUnified(&d, &h)
			out, err := h.Marshal()

			return d, out, err == nil
		},
		Hint: []byte{32, 36, 40, 44, 48, 52, 56, 60, 63},
	}
}

// CiphertextRecord13 (id 21): ctx = [negotiated cid length].
func c18Ciphertext13Codec(cidLen int) *v.Codec {
	dump := func(rec *CiphertextRecord13) v.Dump {
		d := v.Dump{}
		c18DumpUnified(&d, &rec.Header)
		d.Bytes(rec.EncryptedRecord)

		return d
	}

	return &v.Codec{
		Name: "record13_ciphertext", ID: 21, Ctx: []int{cidLen},
		Decode: func(in []byte) (*v.Decoded, error) {
			rec := CiphertextRecord13{Header: UnifiedHeader{ConnectionID: make([]byte, cidLen)}}
			if err := rec.Unmarshal(in); err != nil {
				return nil, err
			}
			d := dump(&rec) // before Marshal: Marshal rewrites SeqBit/LengthBit/Length
			out, err := rec.Marshal()

			return &v.Decoded{Dump: d, Reenc: out, ReencErr: err != nil}, nil
		},
		Gen: func(r *v.Rand) (v.Dump, []byte, bool) {
			h := c18GenUnified(r, cidLen)
			rec := CiphertextRecord13{Header: h, EncryptedRecord: r.Bytes(16 + r.Len(24))}
			out, err := rec.Marshal()
			if err != nil {
				return nil, nil, false
			}

			return dump(&rec), out, true
		},
		Hint: []byte{32, 36, 40, 44, 48, 52, 56, 60, 63},
	}
}

// PlaintextRecord13 (id 22).
func c18Plaintext13Codec() *v.Codec {
	dump := func(rec *PlaintextRecord13) v.Dump {
		d := v.Dump{}
		c18DumpHeader(&d, &rec.Header)
		c18DumpContent(&d, rec.Content)

		return d
	}

	return &v.Codec{
		Name: "record13_plaintext", ID: 22,
		Corpus: [][]byte{
			// legacy_record_version {0,0}: accepted, re-encoded as {254,253}
			{21, 0, 0, 0, 0, 0, 0, 0, 0, 0, 1, 0, 2, 2, 40},
			// legacy_record_version {3,3}: accepted, Marshal refuses it
			{21, 3, 3, 0, 0, 0, 0, 0, 0, 0, 1, 0, 2, 2, 40},
		},
		CorpusValid: [][]byte{
			{21, 254, 253, 0, 0, 0, 0, 0, 0, 0, 1, 0, 2, 2, 40},
		},
		Decode: func(in []byte) (*v.Decoded, error) {
			var rec PlaintextRecord13
			if err := rec.Unmarshal(in); err != nil {
				return nil, err
			}
			d := dump(&rec)
			out, err := rec.Marshal()

			return &v.Decoded{Dump: d, Reenc: out, ReencErr: err != nil}, nil
		},
		Gen: func(r *v.Rand) (v.Dump, []byte, bool) {
			var c protocol.Content
			switch r.Intn(3) {
			case 0:
				c = &alert.Alert{Level: alert.Level(r.Pick(1, 2)), Description: alert.Description(r.Intn(256))}
			case 1:
				a := &protocol.ACK{Records: []protocol.RecordNumber{}}
				for i, n := 0, r.Len(3); i < n; i++ {
					a.Records = append(a.Records, protocol.RecordNumber{Epoch: uint64(r.Intn(4)), SequenceNumber: r.U64() >> 20})
				}
				c = a
			default:
				c = c18GenContentHandshake(r)
			}
			rec := PlaintextRecord13{
				Header:  Header{Version: protocol.Version1_2, SequenceNumber: r.U64() & MaxSequenceNumber},
				Content: c,
			}
			out, err := rec.Marshal()
			if err != nil {
				return nil, nil, false
			}

			return dump(&rec), out, true
		},
		Hint: []byte{21, 22, 26},
	}
}

// UnpackDatagram13 (id 23): ctx = [cidLength, cidRequired, ciphertextHeadersEnabled].
func c18Unpack13Codec(cidLen int, required, enabled bool) *v.Codec {
	b2i := func(b bool) int {
		if b {
			return 1
		}

		return 0
	}
	genCipher := func(r *v.Rand, withLen bool, cid []byte) []byte {
		h := UnifiedHeader{
			ConnectionID: cid, SeqBit: r.Chance(50), EpochLow: uint8(r.Intn(4)),
			SequenceNumber: uint16(r.Intn(256)), LengthBit: withLen,
		}
		body := r.Bytes(16 + r.Len(12))
		h.Length = uint16(len(body))
		raw, _ := h.Marshal()

		return append(raw, body...)
	}
	genPlain := func(r *v.Rand) []byte {
		h := Header{
			ContentType: protocol.ContentType(r.Pick(21, 22, 26)), Version: protocol.Version1_2,
			SequenceNumber: uint64(r.Intn(1000)),
		}
		body := r.Bytes(1 + r.Len(16))
		h.ContentLen = uint16(len(body))
		raw, _ := h.Marshal()

		return append(raw, body...)
	}
	var corpus [][]byte
	// a well-framed ACK record with an empty body
	zero := []byte{26, 254, 253, 0, 0, 0, 0, 0, 0, 0, 0, 0, 0}
	if cidLen == 1 && required && enabled { // one context only: the registered known finding names it
		r1 := append([]byte{60, 1, 0, 7, 0, 16}, bytes.Repeat([]byte{170}, 16)...)
		r2 := append([]byte{60, 2, 0, 8, 0, 16}, bytes.Repeat([]byte{187}, 16)...)
		corpus = [][]byte{
			append(append([]byte{}, r1...), r2...), // second record has another CID
			// ... and with an empty plaintext record in between: what is returned ends in that
			// record and is itself rejected when unpacked again
			append(append(append([]byte{}, r1...), zero...), r2...),
		}
	}

	corpusValid := [][]byte{zero}
	if enabled && (cidLen == 0 || !required) {
		// Ciphertext records WITHOUT the C bit (a connection id was offered but is not in use, or
		// none is configured), each followed by further records: 16-bit and 8-bit sequence
		// number with the L bit, a plaintext record, and a final record without the L bit. The
		// extent of every record is its own header (no CID) plus the declared length.
		body := func(x byte) []byte { return bytes.Repeat([]byte{x}, 16) }
		rA := append([]byte{0x2c, 0, 7, 0, 16}, body(0xa1)...)
		rB := append([]byte{0x24, 8, 0, 16}, body(0xb2)...)
		pl := []byte{21, 254, 253, 0, 0, 0, 0, 0, 0, 0, 9, 0, 2, 2, 40}
		rC := append([]byte{0x21, 9}, body(0xc3)...)
		join := func(rs ...[]byte) []byte { return bytes.Join(rs, nil) }
		corpusValid = append(corpusValid, join(rA, rB), join(rB, pl), join(rA, rB, pl, rC), join(rB, rC))
	}
	if enabled && cidLen > 0 {
		// the same shapes WITH the C bit and a connection id of the configured length
		cid := bytes.Repeat([]byte{0x5c}, cidLen)
		body := func(x byte) []byte { return bytes.Repeat([]byte{x}, 16) }
		rA := append(append([]byte{0x3c}, cid...), append([]byte{0, 7, 0, 16}, body(0xa1)...)...)
		rB := append(append([]byte{0x34}, cid...), append([]byte{8, 0, 16}, body(0xb2)...)...)
		pl := []byte{21, 254, 253, 0, 0, 0, 0, 0, 0, 0, 9, 0, 2, 2, 40}
		rC := append(append([]byte{0x31}, cid...), append([]byte{9}, body(0xc3)...)...)
		corpusValid = append(corpusValid, bytes.Join([][]byte{rA, rB, pl, rC}, nil), bytes.Join([][]byte{rB, rA}, nil))
	}

	return &v.Codec{
		Name: "unpack13", ID: 23, Ctx: []int{cidLen, b2i(required), b2i(enabled)}, Corpus: corpus,
		CorpusValid: corpusValid,
		Decode: func(in []byte) (*v.Decoded, error) {
			recs, err := UnpackDatagram13(in, cidLen, required, enabled)
			if err != nil {
				return nil, err
			}
			d := v.Dump{}
			d.N(uint64(len(recs)))
			for _, r := range recs {
				d.N(uint64(len(r)))
			}

			return &v.Decoded{Dump: d, Reenc: bytes.Join(recs, nil)}, nil
		},
		Gen: func(r *v.Rand) (v.Dump, []byte, bool) {
			n := r.Intn(4)
			d := v.Dump{}
			d.N(uint64(n))
			out := []byte{}
			// one connection id per datagram (a different one stops the unpacker); when a CID is
			// configured but not required, half of the datagrams carry none: no C bit at all
			cid := []byte{}
			if cidLen > 0 && (required || r.Chance(50)) {
				cid = r.Bytes(cidLen)
			}
			for i := 0; i < n; i++ {
				var rec []byte
				if !enabled || r.Chance(40) {
					rec = genPlain(r)
				} else {
					// a record without a length field must be the last one
					rec = genCipher(r, i != n-1 || r.Chance(60), cid)
				}
				d.N(uint64(len(rec)))
				out = append(out, rec...)
			}

			return d, out, true
		},
		Hint: []byte{21, 22, 26, 32, 44, 60},
	}
}
