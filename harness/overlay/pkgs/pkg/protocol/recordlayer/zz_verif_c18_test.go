//go:build verif

package recordlayer

import (
	"bytes"
	"errors"
	"testing"

	v "github.com/pion/dtls/v3/internal/verifc18"
	vhs "github.com/pion/dtls/v3/internal/verifc18hs"
	"github.com/pion/dtls/v3/pkg/protocol"
	"github.com/pion/dtls/v3/pkg/protocol/alert"
	"github.com/pion/dtls/v3/pkg/protocol/handshake"
)

var errC18 = errors.New("c18: rejected")

func c18DumpHeader(d *v.Dump, h *Header) {
	d.N(uint64(h.ContentType))
	d.N(uint64(h.Version.Major))
	d.N(uint64(h.Version.Minor))
	d.N(uint64(h.Epoch))
	d.N(h.SequenceNumber)
	d.Bytes(h.ConnectionID)
	d.N(uint64(h.ContentLen))
}

func c18GenHeader(r *v.Rand, cidLen int) Header {
	h := Header{
		ContentType:    protocol.ContentType(r.Pick(20, 21, 22, 23, 25, 25, 26, 27, r.Intn(256))),
		Version:        protocol.Version1_2,
		Epoch:          uint16(r.Intn(1 << 16)),
		SequenceNumber: r.U64() & MaxSequenceNumber,
		ContentLen:     uint16(r.Intn(1 << 16)),
	}
	if r.Chance(25) {
		h.Version = protocol.Version1_0
	}
	if r.Chance(50) {
		h.Epoch, h.SequenceNumber, h.ContentLen = uint16(r.Intn(3)), uint64(r.Intn(300)), uint16(r.Intn(64))
	}
	if h.ContentType == protocol.ContentTypeConnectionID {
		h.ConnectionID = r.Bytes(cidLen)
	}

	return h
}

func c18HeaderCodec(cidLen int) *v.Codec {
	return &v.Codec{
		Name: "header", ID: 1, Ctx: []int{cidLen},
		Decode: func(in []byte) (*v.Decoded, error) {
			h := Header{ConnectionID: make([]byte, cidLen)}
			if err := h.Unmarshal(in); err != nil {
				return nil, err
			}
			d := v.Dump{}
			c18DumpHeader(&d, &h)
			out, err := h.Marshal()

			return &v.Decoded{Dump: d, Reenc: out, ReencErr: err != nil}, nil
		},
		Gen: func(r *v.Rand) (v.Dump, []byte, bool) {
			h := c18GenHeader(r, cidLen)
			d := v.Dump{}
			c18DumpHeader(&d, &h)
			out, err := h.Marshal()

			return d, out, err == nil
		},
		Hint: []byte{20, 21, 22, 23, 25, 26, 27},
	}
}

func c18InnerCodec() *v.Codec {
	dump := func(p *InnerPlaintext) v.Dump {
		d := v.Dump{}
		d.Bytes(p.Content)
		d.N(uint64(p.RealType))
		d.N(uint64(p.Zeros))

		return d
	}

	return &v.Codec{
		Name: "inner_plaintext", ID: 8, Small: true,
		Decode: func(in []byte) (*v.Decoded, error) {
			var p InnerPlaintext
			if err := p.Unmarshal(in); err != nil {
				return nil, err
			}
			out, err := p.Marshal()

			return &v.Decoded{Dump: dump(&p), Reenc: out, ReencErr: err != nil}, nil
		},
		Gen: func(r *v.Rand) (v.Dump, []byte, bool) {
			p := InnerPlaintext{
				Content:  r.Bytes(r.Len(30)),
				RealType: protocol.ContentType(1 + r.Intn(255)),
				Zeros:    uint(r.Len(12)),
			}
			if r.Chance(30) { // content that itself ends in zeros
				p.Content = append(p.Content, 0, 0)
			}
			out, err := p.Marshal()

			return dump(&p), out, err == nil
		},
	}
}

// datagram unpackers: ctx = [aware, cidLen]; the "value" is the list of record lengths and the
// re-encoding is the concatenation of the returned records.
func c18UnpackCodec(aware bool, cidLen int) *v.Codec {
	a := 0
	if aware {
		a = 1
	}
	run := func(in []byte) ([][]byte, error) {
		if aware {
			return ContentAwareUnpackDatagram(in, cidLen)
		}

		return UnpackDatagram(in)
	}
	zeroLast := []byte{22, 254, 253, 0, 0, 0, 0, 0, 0, 0, 0, 0, 0}
	oneByte := []byte{23, 254, 253, 0, 1, 0, 0, 0, 0, 0, 1, 0, 1, 170}

	return &v.Codec{
		Name: "unpack", ID: 9, Ctx: []int{a, cidLen},
		// all three are concatenations of well-framed records
		CorpusValid: [][]byte{
			zeroLast,
			append(append([]byte{}, zeroLast...), oneByte...),
			append(append([]byte{}, oneByte...), zeroLast...),
		},
		Decode: func(in []byte) (*v.Decoded, error) {
			recs, err := run(in)
			if err != nil {
				return nil, err
			}
			d := v.Dump{}
			d.N(uint64(len(recs)))
			for _, r := range recs {
				d.N(uint64(len(r)))
			}

			return &v.Decoded{Dump: d, Reenc: bytes.Join(recs, nil)}, nil
		},
		Gen: func(r *v.Rand) (v.Dump, []byte, bool) {
			n := r.Intn(5)
			d := v.Dump{}
			d.N(uint64(n))
			out := []byte{}
			for i := 0; i < n; i++ {
				h := c18GenHeader(r, cidLen)
				if !aware {
					h.ContentType = protocol.ContentType(r.Pick(20, 21, 22, 23, 26, 27))
					h.ConnectionID = nil
				}
				body := r.Bytes(r.Len(24))
				// a zero-length record is well framed; the generator produces it in every
				// position, including the last one
				h.ContentLen = uint16(len(body))
				raw, err := h.Marshal()
				if err != nil {
					return nil, nil, false
				}
				d.N(uint64(len(raw) + len(body)))
				out = append(out, raw...)
				out = append(out, body...)
			}

			return d, out, true
		},
		Hint: []byte{20, 21, 22, 23, 25, 26, 27},
	}
}

func c18DumpContent(d *v.Dump, c protocol.Content) {
	switch m := c.(type) {
	case *protocol.ChangeCipherSpec:
		d.N(20)
	case *alert.Alert:
		d.N(21)
		d.N(uint64(m.Level))
		d.N(uint64(m.Description))
	case *handshake.Handshake:
		d.N(22)
		vhs.DumpHandshake(d, m)
	case *protocol.ApplicationData:
		d.N(23)
		d.Bytes(m.Data)
	case *protocol.ACK:
		d.N(26)
		d.N(uint64(len(m.Records)))
		for _, r := range m.Records {
			d.N(r.Epoch)
			d.N(r.SequenceNumber)
		}
	case *protocol.ReturnRoutabilityCheck:
		d.N(27)
		d.N(uint64(m.MessageType))
		d.Raw(m.Cookie[:])
	default:
		d.N(999)
	}
}

func c18GenContent(r *v.Rand) protocol.Content {
	switch r.Intn(6) {
	case 0:
		return &protocol.ChangeCipherSpec{}
	case 1:
		return &alert.Alert{Level: alert.Level(r.Pick(1, 2)), Description: alert.Description(r.Intn(256))}
	case 2:
		return &protocol.ApplicationData{Data: r.Bytes(r.Len(30))}
	case 3:
		a := &protocol.ACK{Records: []protocol.RecordNumber{}}
		for i, n := 0, r.Len(3); i < n; i++ {
			a.Records = append(a.Records, protocol.RecordNumber{Epoch: uint64(r.Intn(4)), SequenceNumber: r.U64() >> 20})
		}

		return a
	case 4:
		m := &protocol.ReturnRoutabilityCheck{MessageType: protocol.ReturnRoutabilityCheckMessageType(r.Intn(3))}
		copy(m.Cookie[:], r.Bytes(8))

		return m
	default:
		return c18GenContentHandshake(r)
	}
}

func c18GenContentHandshake(r *v.Rand) protocol.Content { return vhs.GenHandshake(r) }

// RecordLayer.Marshal / Unmarshal (DTLS 1.2 record): ctx = [cidLen of the pre-set ConnectionID].
func c18RecordCodec(cidLen int) *v.Codec {
	dump := func(rl *RecordLayer) v.Dump {
		d := v.Dump{}
		c18DumpHeader(&d, &rl.Header)
		c18DumpContent(&d, rl.Content)

		return d
	}

	return &v.Codec{
		Name: "record12", ID: 10, Ctx: []int{cidLen},
		Corpus: [][]byte{
			// ContentLen 0 but three bytes of application data follow
			{23, 254, 253, 0, 1, 0, 0, 0, 0, 0, 5, 0, 0, 1, 2, 3},
			// ContentLen 9 but a two-byte alert follows
			{21, 254, 253, 0, 0, 0, 0, 0, 0, 0, 1, 0, 9, 2, 40},
			// handshake content: Finished carried as a fragment with offset 5
			{22, 254, 253, 0, 0, 0, 0, 0, 0, 0, 1, 0, 13, 20, 0, 0, 1, 0, 0, 0, 0, 5, 0, 0, 1, 170},
		},
		CorpusValid: [][]byte{
			// application data, three bytes, ContentLen 3
			{23, 254, 253, 0, 1, 0, 0, 0, 0, 0, 5, 0, 3, 1, 2, 3},
		},
		Decode: func(in []byte) (*v.Decoded, error) {
			rl := RecordLayer{Header: Header{ConnectionID: make([]byte, cidLen)}}
			if err := rl.Unmarshal(in); err != nil {
				return nil, err
			}
			if rl.Content == nil {
				return nil, errC18
			}
			d := dump(&rl) // before Marshal: Marshal rewrites ContentLen/ContentType
			out, err := rl.Marshal()

			return &v.Decoded{Dump: d, Reenc: out, ReencErr: err != nil}, nil
		},
		Gen: func(r *v.Rand) (v.Dump, []byte, bool) {
			h := c18GenHeader(r, 0)
			h.ConnectionID = nil
			rl := RecordLayer{Header: h, Content: c18GenContent(r)}
			out, err := rl.Marshal()
			if err != nil {
				return nil, nil, false
			}

			return dump(&rl), out, true
		},
		Hint: []byte{20, 21, 22, 23, 25, 26, 27},
	}
}

// c18BigRecord is a DTLS 1.2 application-data record with n content bytes, as RecordLayer.Marshal
// encodes it.
func c18BigRecord(n int) *RecordLayer {
	return &RecordLayer{
		Header:  Header{Version: protocol.Version1_2, Epoch: 1, SequenceNumber: 5},
		Content: &protocol.ApplicationData{Data: bytes.Repeat([]byte{0x5a}, n)},
	}
}

// c18RecordEdges: records whose content is as long as / longer than the 16-bit length field can
// say. RecordLayer.Marshal must refuse the latter (or the record would declare a wrapped length).
func c18RecordEdges() []v.Edge {
	mk := func(name string, inRange bool, n int) v.Edge {
		return v.Edge{Name: name, InRange: inRange, Make: func() (v.Dump, []byte, error) {
			rl := c18BigRecord(n)
			out, err := rl.Marshal() // fills in ContentType and ContentLen
			d := v.Dump{}
			rl.Header.ContentType = protocol.ContentTypeApplicationData
			c18DumpHeader(&d, &rl.Header)
			// the value's content length is n; when n does not fit the field no decoded header
			// can be equal to it (RecordLayer.Unmarshal itself never looks at the field)
			d[len(d)-1] = uint64(n)
			c18DumpContent(&d, rl.Content)

			return d, out, err
		}}
	}

	return []v.Edge{
		mk("application-data-65535", true, 65535),
		mk("application-data-65536", false, 65536),
		mk("application-data-65546", false, 65546),
	}
}

// c18UnpackEdges: the datagram made of ONE record produced by RecordLayer.Marshal must be split
// into exactly that record.
func c18UnpackEdges() []v.Edge {
	mk := func(name string, inRange bool, n int) v.Edge {
		return v.Edge{Name: name, InRange: inRange, Make: func() (v.Dump, []byte, error) {
			out, err := c18BigRecord(n).Marshal()
			d := v.Dump{}
			d.N(1)
			d.N(uint64(FixedHeaderSize + n))

			return d, out, err
		}}
	}

	return []v.Edge{
		mk("marshalled-record-65535", true, 65535),
		mk("marshalled-record-65546", false, 65546),
	}
}

// TestVerifC18Record: legacy/CID record header (1), inner plaintext (8), datagram unpackers (9),
// RecordLayer (10), DTLS 1.3 unified header (20), ciphertext (21) and plaintext (22) records,
// UnpackDatagram13 (23).
func TestVerifC18Record(t *testing.T) {
	unpack0, aware0, record0 := c18UnpackCodec(false, 0), c18UnpackCodec(true, 0), c18RecordCodec(0)
	unpack0.Edges, aware0.Edges, record0.Edges = c18UnpackEdges(), c18UnpackEdges(), c18RecordEdges()
	v.Run(t, []*v.Codec{
		c18HeaderCodec(0), c18HeaderCodec(4), c18HeaderCodec(8),
		c18InnerCodec(),
		unpack0, aware0, c18UnpackCodec(true, 4), c18UnpackCodec(true, 8),
		record0, c18RecordCodec(4),
		c18UnifiedCodec(0), c18UnifiedCodec(3),
		c18Ciphertext13Codec(0), c18Ciphertext13Codec(3),
		c18Plaintext13Codec(),
		// cidLength x cidRequired with ciphertext headers enabled, plus three disabled contexts
		c18Unpack13Codec(0, false, true), c18Unpack13Codec(0, true, true),
		c18Unpack13Codec(1, false, true), c18Unpack13Codec(1, true, true),
		c18Unpack13Codec(4, false, true), c18Unpack13Codec(4, true, true),
		c18Unpack13Codec(8, false, true), c18Unpack13Codec(8, true, true),
		c18Unpack13Codec(0, false, false), c18Unpack13Codec(4, false, false), c18Unpack13Codec(4, true, false),
	})
}
