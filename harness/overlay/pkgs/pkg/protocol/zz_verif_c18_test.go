//go:build verif

package protocol

import (
	"testing"

	v "github.com/pion/dtls/v3/internal/verifc18"
)

func c18DumpACK(a *ACK) v.Dump {
	d := v.Dump{}
	d.N(uint64(len(a.Records)))
	for _, r := range a.Records {
		d.N(r.Epoch)
		d.N(r.SequenceNumber)
	}

	return d
}

func c18DumpRRC(r *ReturnRoutabilityCheck) v.Dump {
	d := v.Dump{}
	d.N(uint64(r.MessageType))
	d.Raw(r.Cookie[:])

	return d
}

// TestVerifC18Protocol: change_cipher_spec (4), application_data (5), ACK (6), RRC (7).
func TestVerifC18Protocol(t *testing.T) {
	ccs := &v.Codec{
		Name: "ccs", ID: 4, Small: true, Tiny: true,
		Decode: func(in []byte) (*v.Decoded, error) {
			var c ChangeCipherSpec
			if err := c.Unmarshal(in); err != nil {
				return nil, err
			}
			out, err := c.Marshal()

			return &v.Decoded{Dump: v.Dump{}, Reenc: out, ReencErr: err != nil}, nil
		},
		Gen: func(*v.Rand) (v.Dump, []byte, bool) {
			out, err := (&ChangeCipherSpec{}).Marshal()

			return v.Dump{}, out, err == nil
		},
	}
	app := &v.Codec{
		Name: "appdata", ID: 5, Small: true,
		Decode: func(in []byte) (*v.Decoded, error) {
			var a ApplicationData
			if err := a.Unmarshal(in); err != nil {
				return nil, err
			}
			d := v.Dump{}
			d.Bytes(a.Data)
			out, err := a.Marshal()

			return &v.Decoded{Dump: d, Reenc: out, ReencErr: err != nil}, nil
		},
		Gen: func(r *v.Rand) (v.Dump, []byte, bool) {
			a := ApplicationData{Data: r.Bytes(r.Len(40))}
			d := v.Dump{}
			d.Bytes(a.Data)
			out, err := a.Marshal()

			return d, out, err == nil
		},
	}
	ack := &v.Codec{
		Name: "ack", ID: 6, Small: true,
		Decode: func(in []byte) (*v.Decoded, error) {
			var a ACK
			if err := a.Unmarshal(in); err != nil {
				return nil, err
			}
			out, err := a.Marshal()

			return &v.Decoded{Dump: c18DumpACK(&a), Reenc: out, ReencErr: err != nil}, nil
		},
		Gen: func(r *v.Rand) (v.Dump, []byte, bool) {
			a := ACK{Records: []RecordNumber{}}
			for i, n := 0, r.Len(5); i < n; i++ {
				rn := RecordNumber{Epoch: r.U64(), SequenceNumber: r.U64()}
				if r.Chance(60) {
					rn = RecordNumber{Epoch: uint64(r.Intn(4)), SequenceNumber: uint64(r.Intn(1000))}
				}
				a.Records = append(a.Records, rn)
			}
			out, err := a.Marshal()

			return c18DumpACK(&a), out, err == nil
		},
		Hint: []byte{0},
	}
	rrc := &v.Codec{
		Name: "rrc", ID: 7, Small: true, Tiny: true,
		Decode: func(in []byte) (*v.Decoded, error) {
			var r ReturnRoutabilityCheck
			if err := r.Unmarshal(in); err != nil {
				return nil, err
			}
			out, err := r.Marshal()

			return &v.Decoded{Dump: c18DumpRRC(&r), Reenc: out, ReencErr: err != nil}, nil
		},
		Gen: func(r *v.Rand) (v.Dump, []byte, bool) {
			m := ReturnRoutabilityCheck{MessageType: ReturnRoutabilityCheckMessageType(r.Intn(3))}
			copy(m.Cookie[:], r.Bytes(8))
			if r.Chance(20) { // unknown type: canonical value has a zero cookie
				m = ReturnRoutabilityCheck{MessageType: ReturnRoutabilityCheckMessageType(3 + r.Intn(253))}
			}
			out, err := m.Marshal()

			return c18DumpRRC(&m), out, err == nil
		},
		Hint: []byte{0, 1, 2, 3},
	}
	v.Run(t, []*v.Codec{ccs, app, ack, rrc})
}
