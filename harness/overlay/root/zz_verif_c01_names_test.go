//go:build verif

// C01 (handshake agreement), leg "names": agreement on the VALUE of negotiated names. The two endpoints' lists
// contain entries that are equal up to a normalisation but not byte-identical: ALPN names that differ in ASCII
// letter case, in Unicode case folding (Kelvin sign, long s), in Unicode normalisation form, with leading /
// trailing bytes, prefixes of each other, empty list against absent list; server names in another letter case;
// SRTP profile / cipher suite / group lists with duplicates. DTLS 1.2 full and resumed (the session seeded either
// with the same lists or with identically spelled ones), DTLS 1.3. Needs the files of tag c11 (runner,
// observation): run with tags ["c11", "c01"].
package dtls

import (
	"strings"
	"testing"
)

type c01NamesJob struct {
	gen      string
	c, s     c11Cfg
	resume   bool
	seedSame bool // the seeding association runs with the CLIENT's list on both sides (it completes and stores a session)
	mask     []string
	cn, sn   []string // ALPN lists as configured (nil = option absent)
	sni      string   // client: ServerName as spelled by the application ("" = the default of the c11 runner)
}

type c01NamesCase struct {
	c11Case
	NamesC   []string `json:"names_c"`
	NamesS   []string `json:"names_s"`
	AbsentC  bool     `json:"names_c_absent"`
	AbsentS  bool     `json:"names_s_absent"`
	SeedSame bool     `json:"seed_same"`
	SNIName  string   `json:"sni_name"`
}

// spellings of one protocol name that some normalisation identifies (all valid UTF-8: the JSON output is lossless)
func c01NameVariants(b string) []string {
	flip := func(s string, i int) string {
		r := []byte(s)
		c := r[i]
		switch {
		case c >= 'a' && c <= 'z':
			r[i] = c - 32
		case c >= 'A' && c <= 'Z':
			r[i] = c + 32
		}

		return string(r)
	}
	out := []string{
		b, b, strings.ToUpper(b), strings.ToLower(b), flip(b, 0), flip(b, len(b)-1), flip(flip(b, 0), len(b)/2),
		b + " ", " " + b, b + "\x00", b + "\n", b + ".", b[:len(b)-1], b + b[len(b)-1:], b + "/",
		strings.ReplaceAll(b, "k", "\u212a"), strings.ReplaceAll(b, "s", "\u017f"), // simple case folding of K / s
		strings.ReplaceAll(b, "e", "\u00e9"), strings.ReplaceAll(b, "e", "e\u0301"), // NFC / NFD
	}
	if b == "webrtc" {
		out = append(out, "WebRTC", "webRTC")
	}

	return out
}

func c01NamesKinds() []c01NamesJob {
	var kinds []c01NamesJob
	add := func(name string, resume, seedSame bool, f func(c, s *c11Cfg)) {
		var c, s c11Cfg
		c.CID, s.CID = -1, -1
		f(&c, &s)
		kinds = append(kinds, c01NamesJob{gen: name, c: c, s: s, resume: resume, seedSame: seedSame})
	}
	full := func(c, s *c11Cfg) {
		c.CID, s.CID = 4, 8
		c.SRTP, s.SRTP = []int{1, 7}, []int{7, 1}
		c.MKI, s.MKI = "aa", "aa"
	}
	psk := func(c, s *c11Cfg) {
		c.PSK, c.Hint, s.PSK, s.Hint = true, true, true, true
		c.SuitesSet, c.Suites, s.SuitesSet, s.Suites = true, []int{0x00a8}, true, []int{0x00a8}
	}
	add("cert12", false, false, func(c, s *c11Cfg) { s.Key = 1 })
	add("cert12-full-clientauth", false, false, func(c, s *c11Cfg) { full(c, s); s.Key, c.Key, s.ClientAuth = 2, 2, 4 })
	add("psk12", false, false, func(c, s *c11Cfg) { psk(c, s) })
	add("ecdhepsk12-skiphv", false, false, func(c, s *c11Cfg) {
		psk(c, s)
		c.Suites, s.Suites = []int{0xc037}, []int{0xc037}
		s.SkipHV = true
	})
	add("resumed12-cert", true, false, func(c, s *c11Cfg) { full(c, s); s.Key = 1; c.Store, s.Store = true, true })
	add("resumed12-cert-seeded-alike", true, true, func(c, s *c11Cfg) { s.Key = 2; c.Store, s.Store = true, true })
	add("resumed12-psk-seeded-alike", true, true, func(c, s *c11Cfg) { psk(c, s); c.Store, s.Store = true, true })
	add("cert13", false, false, func(c, s *c11Cfg) {
		full(c, s)
		s.Key = 1
		c.Min, c.Max, s.Min, s.Max = 3, 3, 3, 3
		c.Curves, s.Curves = []int{29, 23}, []int{23, 29}
	})
	// lists with duplicates (SRTP profiles, cipher suites, groups), DTLS 1.2 and 1.3
	add("cert12-duplicates", false, false, func(c, s *c11Cfg) {
		s.Key = 2
		c.SRTP, s.SRTP = []int{1, 1, 7, 1}, []int{7, 7, 1, 7}
		c.SuitesSet, c.Suites = true, []int{0xc02b, 0xc02b, 0xc02c, 0xc02b}
		s.SuitesSet, s.Suites = true, []int{0xc02c, 0xc02c, 0xc02b}
		c.Curves, s.Curves = []int{29, 23}, []int{23, 23, 29, 23} // (a client refuses to send a duplicate group itself)
	})
	add("cert13-duplicates", false, false, func(c, s *c11Cfg) {
		s.Key = 1
		c.Min, c.Max, s.Min, s.Max = 3, 3, 3, 3
		c.SRTP, s.SRTP = []int{7, 7, 1}, []int{1, 1, 7}
		c.Curves, s.Curves = []int{29, 23}, []int{23, 23, 29}
	})

	return kinds
}

func c01NamesRun(t *testing.T, id int, j c01NamesJob) c01NamesCase {
	t.Helper()
	calls := 0
	c11ConfigHook = func(c, s *dtlsConfig) {
		calls++
		c.SupportedProtocols, s.SupportedProtocols = j.cn, j.sn
		if j.resume && j.seedSame && calls == 1 {
			s.SupportedProtocols = j.cn
		}
		if j.sni != "" {
			c.ServerName = j.sni
		}
	}
	defer func() { c11ConfigHook = nil }()
	var res c01NamesCase
	vBubble(t, func(t *testing.T) { res.c11Case = runC11Opt(t, id, j.gen, j.c, j.s, j.resume, j.mask, c11Opt{}) })
	res.Kind = "c01names"
	res.NamesC, res.NamesS = j.cn, j.sn
	res.AbsentC, res.AbsentS = j.cn == nil, j.sn == nil
	res.SeedSame = j.seedSame
	res.SNIName = j.sni

	return res
}

func TestVerifC01Names(t *testing.T) {
	out := newVOut(t)
	c11GetCreds()
	r := newVRand(vSeed() ^ 0xc01a)
	kinds := c01NamesKinds()
	bases := []string{"webrtc", "h2", "http/1.1", "spdy/3", "c-webrtc", "mqtt-sn", "coap", "stun.turn", "desk"}
	// the list pairs every kind runs with
	type pair struct{ cn, sn []string }
	fixed := []pair{
		{[]string{"http/1.1", "webrtc"}, []string{"webrtc"}},       // byte-identical: negotiates
		{[]string{"webrtc", "h2"}, []string{"WebRTC"}},             // case
		{[]string{"H2", "http/1.1"}, []string{"spdy/3", "h2"}},     // case
		{[]string{"h2"}, []string{"h2 "}},                          // trailing byte
		{[]string{"h2", "h"}, []string{"h2c", "h"}},                // prefixes, one common
		{[]string{"webrtc"}, []string{"webrt", "webrtcc"}},         // prefixes only
		{[]string{"webrtc"}, []string{"WEBRTC", "webrtc"}},         // case variant preferred, exact one later
		{[]string{"WEBRTC", "webrtc"}, []string{"webrtc"}},         // the client holds both spellings
		{[]string{"desk"}, []string{"de\u017fk"}},             // long s
		{[]string{"desk"}, []string{"des\u212a"}},             // Kelvin sign
		{[]string{"caf\u00e9"}, []string{"cafe\u0301"}},      // NFC / NFD
		{[]string{}, nil}, {nil, []string{}}, {[]string{}, []string{"h2"}}, {[]string{"h2"}, nil}, // empty / absent
		{[]string{"h2", "h2"}, []string{"H2", "h2", "h2"}},         // duplicates
	}
	var jobs []c01NamesJob
	for _, k := range kinds {
		for _, p := range fixed {
			j := k
			j.cn, j.sn = p.cn, p.sn
			jobs = append(jobs, j)
		}
	}
	// server names in another letter case (certificate verification and the server's certificate choice see the
	// application's spelling); the ALPN lists spelled alike, then differently
	for _, sni := range []string{"SERVER.verif", "Server.Verif", "ALT.verif", "alt.VERIF"} {
		for _, p := range fixed[:3] {
			var c, s c11Cfg
			c.CID, s.CID = -1, -1
			s.Key = 1
			if strings.EqualFold(sni, "alt.verif") {
				s.Key2, c.SNI = 2, 1 // the chain expected is the one the name selects, however it is spelled
			}
			jobs = append(jobs, c01NamesJob{gen: "sni-case", c: c, s: s, cn: p.cn, sn: p.sn, sni: sni})
		}
	}
	// generated lists: one protocol both applications mean, spelled by each side in its own way, among other names
	n := 1200
	if vIsThorough() {
		n = 12000
	}
	acts := []string{"pass", "drop", "dup", "hold:1", "hold:3"}
	for i := 0; i < n; i++ {
		j := kinds[r.intn(len(kinds))]
		b := bases[r.intn(len(bases))]
		vs := c01NameVariants(b)
		j.cn = []string{vs[r.intn(len(vs))]}
		j.sn = []string{vs[r.intn(len(vs))]}
		for _, l := range []*[]string{&j.cn, &j.sn} {
			for k := r.intn(3); k > 0; k-- {
				o := c01NameVariants(bases[r.intn(len(bases))])
				x := o[r.intn(len(o))]
				if r.chance(50) {
					*l = append(*l, x)
				} else {
					*l = append([]string{x}, *l...)
				}
			}
		}
		if r.chance(30) {
			l := 2 + r.intn(10)
			j.mask = make([]string, l)
			for k := range j.mask {
				j.mask[k] = "pass"
				if r.chance(30) {
					j.mask[k] = acts[1+r.intn(len(acts)-1)]
				}
			}
		}
		j.gen += ":generated"
		jobs = append(jobs, j)
	}
	for i, j := range jobs {
		out.emit(c01NamesRun(t, i, j))
	}
}
