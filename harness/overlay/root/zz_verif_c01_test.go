//go:build verif

// C01 (handshake agreement): the configuration pairs of the C11 generator run over a faulty
// scripted network (loss, duplication, reordering of handshake datagrams). Needs the files of
// tag c11 (generator, runner, observation): run with tags ["c11", "c01"].
package dtls

import (
	"testing"
)

// base pairs: one per handshake kind named in the property, every negotiable feature switched on
func c01BasePairs() []c11Job {
	full := func(c, s *c11Cfg) {
		c.CID, s.CID = 4, 8
		c.SRTP, s.SRTP = []int{1, 7}, []int{7, 1}
		c.MKI, s.MKI = "aa", "aa"
		c.ALPN, s.ALPN = []int{1, 2}, []int{2, 3}
	}
	var jobs []c11Job
	add := func(name string, resume bool, f func(c, s *c11Cfg)) {
		var c, s c11Cfg
		c.CID, s.CID = -1, -1
		f(&c, &s)
		jobs = append(jobs, c11Job{gen: "base:" + name, c: c, s: s, resume: resume})
	}
	add("cert12", false, func(c, s *c11Cfg) { full(c, s); s.Key = 1 })
	add("cert12-clientauth-ecdsa", false, func(c, s *c11Cfg) { full(c, s); s.Key, c.Key, s.ClientAuth = 2, 2, 4 })
	add("cert12-rsa-mtu300", false, func(c, s *c11Cfg) { full(c, s); s.Key = 3; c.MTU, s.MTU = 300, 300 })
	add("psk12", false, func(c, s *c11Cfg) {
		full(c, s)
		c.PSK, c.Hint, s.PSK, s.Hint = true, true, true, true
		c.SuitesSet, c.Suites, s.SuitesSet, s.Suites = true, []int{0x00a8}, true, []int{0x00a8}
	})
	add("psk12-nohint-skiphv", false, func(c, s *c11Cfg) {
		c.PSK, c.Hint, s.PSK = true, true, true
		c.SuitesSet, c.Suites, s.SuitesSet, s.Suites = true, []int{0xc0a8, 0xccab}, true, []int{0xccab}
		s.SkipHV = true
	})
	add("ecdhepsk12", false, func(c, s *c11Cfg) {
		full(c, s)
		c.PSK, c.Hint, s.PSK, s.Hint = true, true, true, true
		c.SuitesSet, c.Suites, s.SuitesSet, s.Suites = true, []int{0xc037}, true, []int{0xc037}
	})
	add("resumed12-cert", true, func(c, s *c11Cfg) { full(c, s); s.Key = 1; c.Store, s.Store = true, true })
	add("resumed12-psk", true, func(c, s *c11Cfg) {
		c.PSK, c.Hint, s.PSK, s.Hint = true, true, true, true
		c.SuitesSet, c.Suites, s.SuitesSet, s.Suites = true, []int{0x00a8}, true, []int{0x00a8}
		c.Store, s.Store = true, true
		c.CID, s.CID = 4, 4
	})
	add("cert13", false, func(c, s *c11Cfg) {
		full(c, s)
		s.Key = 1
		c.Min, c.Max, s.Min, s.Max = 3, 3, 3, 3
		c.Curves, s.Curves = []int{29, 23}, []int{23, 29}
	})
	add("cert13-clientauth-skiphv", false, func(c, s *c11Cfg) {
		s.Key, c.Key, s.ClientAuth = 2, 1, 4
		c.Min, c.Max, s.Min, s.Max = 3, 3, 3, 3
		c.Curves, s.Curves = []int{29}, []int{29}
		s.SkipHV = true
		c.CID, s.CID = 0, 4
	})
	add("dualclient-13server", false, func(c, s *c11Cfg) {
		s.Key = 1
		c.Min, c.Max, s.Min, s.Max = 2, 3, 3, 3
		c.Curves, s.Curves = []int{29, 23}, []int{29}
	})
	add("dual-dual", false, func(c, s *c11Cfg) {
		full(c, s)
		s.Key = 1
		c.Min, c.Max, s.Min, s.Max = 2, 3, 2, 3
		c.Curves, s.Curves = []int{29, 23}, []int{23, 29}
	})
	// ServerHello message hook: the server must commit what its FINAL ServerHello says
	hookr := func(name string, resume bool, f func(c, s *c11Cfg, o *c11Opt)) {
		var c, s c11Cfg
		c.CID, s.CID = -1, -1
		var o c11Opt
		f(&c, &s, &o)
		jobs = append(jobs, c11Job{gen: "base:" + name, c: c, s: s, resume: resume, opt: o})
	}
	hook := func(name string, f func(c, s *c11Cfg, o *c11Opt)) { hookr(name, false, f) }
	hook("hook-appends-alpn", func(c, s *c11Cfg, o *c11Opt) {
		s.Key = 1
		c.ALPN = []int{1, 2}
		o.Steer.SHALPN = 2
	})
	hook("hook-rewrites-alpn", func(c, s *c11Cfg, o *c11Opt) {
		s.Key = 2
		c.ALPN, s.ALPN = []int{1, 2}, []int{1, 2}
		c.CID, s.CID = 4, 8
		o.Steer.SHALPN = 2
	})
	hook("hook-swaps-cipher-suite", func(_, s *c11Cfg, o *c11Opt) {
		s.Key = 2
		o.Steer.SHSuite = 0xc02f
	})
	// the hook renames the session: both sides name it alike and the next connection resumes; on a resumption refused
	hook("hook-rewrites-session-id", func(c, s *c11Cfg, o *c11Opt) {
		full(c, s)
		s.Key = 1
		c.Store, s.Store = true, true
		o.Steer.SHSessionID = true
	})
	hookr("hook-rewrites-session-id-resumed", true, func(c, s *c11Cfg, o *c11Opt) {
		s.Key = 1
		c.Store, s.Store = true, true
		o.Steer.SHSessionID = true
		c0, s0 := *c, *s
		o.SeedC, o.SeedS = &c0, &s0
	})
	add("custom-cipher-suite", false, func(c, s *c11Cfg) {
		full(c, s)
		s.Key = 2
		c.Custom, s.Custom = true, true
	})
	add("12client-dualserver", false, func(c, s *c11Cfg) {
		full(c, s)
		s.Key = 2
		s.Min, s.Max = 2, 3
	})

	return jobs
}

func TestVerifC01(t *testing.T) {
	out := newVOut(t)
	c11GetCreds()
	r := newVRand(vSeed() ^ 0xc01)
	acts := []string{"pass", "drop", "dup", "hold:1", "hold:3"}
	var jobs []c11Job
	base := c01BasePairs()
	// every base pair: fault-free, then every single fault over the first datagrams
	nSingle := 8
	if vIsThorough() {
		nSingle = 14
	}
	for _, b := range base {
		jobs = append(jobs, b)
		for i := 0; i < nSingle; i++ {
			for _, a := range acts[1:] {
				m := make([]string, i+1)
				for j := range m {
					m[j] = "pass"
				}
				m[i] = a
				j := b
				j.mask = m
				jobs = append(jobs, j)
			}
		}
	}
	// generated compatible pairs with a sampled mask
	n := 260
	if vIsThorough() {
		n = 8000
	}
	for i := 0; i < n; i++ {
		var j c11Job
		if r.chance(25) {
			j = base[r.intn(len(base))]
		} else {
			c, s, res := c11GenPair(r, "")
			j = c11Job{gen: "compatible", c: c, s: s, resume: res}
		}
		l := 2 + r.intn(14)
		m := make([]string, l)
		for k := range m {
			if r.chance(65) {
				m[k] = "pass"
			} else {
				m[k] = acts[1+r.intn(len(acts)-1)]
			}
		}
		j.mask = m
		jobs = append(jobs, j)
	}
	for i, j := range jobs {
		j := j
		var res c11Case
		vBubble(t, func(t *testing.T) { res = runC11Opt(t, i, j.gen, j.c, j.s, j.resume, j.mask, j.opt) })
		res.Kind = "c01"
		out.emit(res)
	}
}
