//go:build verif

package dtls

// C02 leg "early": liveness when a record of the next epoch (the DTLS 1.2 Finished) reaches an
// endpoint BEFORE the ChangeCipherSpec that opens its epoch. At MTU 48..80 the final flights are
// spread over more datagrams than usual (ClientKeyExchange / ChangeCipherSpec / Finished travel
// apart), so that plain reordering or the loss of up to two first transmissions puts the Finished in
// the early-record queue (Conn.encryptedPackets) while its ChangeCipherSpec is still on the way.
// Every permutation of the tail of each final flight and every loss subset (<= 2) of it is applied
// once, then the network is reliable. Monitor: C02's own (both sides report success, data flows,
// completion within the recovery time of the retransmission schedule). An endpoint that spins
// (virtual time cannot advance, synctest.Wait never returns) is detected by a real-time watchdog
// outside the bubble, which writes the failing case and ends the process.

import (
	"fmt"
	"os"
	"runtime"
	"strings"
	"sync"
	"sync/atomic"
	"testing"
	"testing/synctest"
	"time"

	"github.com/pion/dtls/v3/pkg/crypto/elliptic"
)

type c02EarlyVariant struct {
	Name  string
	Base  c02Variant
	Curve string // "x25519" | "p256" | ""
	Suite CipherSuiteID
	MTU   int
}

func (v c02EarlyVariant) configs(cs, ss *c02Store) (*dtlsConfig, *dtlsConfig) {
	b := v.Base
	b.MTU = v.MTU
	c, s := b.configs(cs, ss)
	switch v.Curve {
	case "x25519":
		c.EllipticCurves, s.EllipticCurves = []elliptic.Curve{elliptic.X25519}, []elliptic.Curve{elliptic.X25519}
	case "p256":
		c.EllipticCurves, s.EllipticCurves = []elliptic.Curve{elliptic.P256}, []elliptic.Curve{elliptic.P256}
	}
	if v.Suite != 0 {
		c.CipherSuites, s.CipherSuites = []CipherSuiteID{v.Suite}, []CipherSuiteID{v.Suite}
	}

	return c, s
}

func c02EarlyVariants() []c02EarlyVariant {
	var out []c02EarlyVariant
	mtus := []int{48, 56, 64, 72, 80}
	if vIsThorough() {
		mtus = nil
		for m := 48; m <= 80; m += 4 {
			mtus = append(mtus, m)
		}
	}
	type fam struct {
		name  string
		base  c02Variant
		curve string
		suite CipherSuiteID
	}
	fams := []fam{
		{"cert-x25519", c02Variant{}, "x25519", 0},
		{"cert-p256", c02Variant{}, "p256", 0},
		{"cert-clientauth-x25519", c02Variant{ClientAuth: true}, "x25519", 0},
		{"psk", c02Variant{PSK: true, Hint: true}, "", 0},
		{"ecdhe-psk-x25519", c02Variant{PSK: true, Hint: true}, "x25519", TLS_ECDHE_PSK_WITH_AES_128_CBC_SHA256},
		{"cert-resumed-x25519", c02Variant{Resumed: true}, "x25519", 0},
		{"psk-resumed", c02Variant{PSK: true, Hint: true, Resumed: true}, "", 0},
	}
	if vIsThorough() {
		fams = append(fams,
			fam{"cert-clientauth-p256", c02Variant{ClientAuth: true}, "p256", 0},
			fam{"ecdhe-psk-p256", c02Variant{PSK: true, Hint: true}, "p256", TLS_ECDHE_PSK_WITH_AES_128_CBC_SHA256},
			fam{"psk-nohint", c02Variant{PSK: true}, "", 0},
		)
	}
	for _, f := range fams {
		for _, m := range mtus {
			b := f.base
			b.Name = f.name
			out = append(out, c02EarlyVariant{
				Name: fmt.Sprintf("%s-mtu%d", f.name, m), Base: b, Curve: f.curve, Suite: f.suite, MTU: m,
			})
		}
	}

	return out
}

// one datagram of the fault-free reference run
type c02EarlyDg struct {
	Idx  int    `json:"idx"`
	Side string `json:"side"`
	Kind string `json:"kind"` // record kinds, e.g. "hs16", "ccs", "fin", "hs16+ccs"
}

func c02EarlyKind(d vDatagram) string {
	var ks []string
	for _, r := range c02Recs(d, 0) {
		switch {
		case r.CT == 20:
			ks = append(ks, "ccs")
		case r.Epoch >= 1:
			ks = append(ks, "fin")
		case r.CT == 22:
			ks = append(ks, fmt.Sprintf("hs%d", r.HT))
		default:
			ks = append(ks, fmt.Sprintf("ct%d", r.CT))
		}
	}

	return strings.Join(ks, "+")
}

type c02EarlyCase struct {
	Kind     string       `json:"kind"` // "c02early"
	Variant  string       `json:"variant"`
	MTU      int          `json:"mtu"`
	Pattern  string       `json:"pattern"` // "perm" | "loss" | "none"
	Flight   string       `json:"flight"`  // side whose final flight is disturbed
	Window   []c02EarlyDg `json:"window"`  // the datagrams concerned (first transmissions), in emission order
	Order    []int        `json:"order"`   // perm: emission indices in delivery order
	Lost     []int        `json:"lost"`    // loss: emission indices dropped once
	FinEarly bool         `json:"fin_early"` // the pattern delivers a next-epoch record before its ChangeCipherSpec
	Applied  bool         `json:"applied"`
	CDone    bool         `json:"cdone"`
	SDone    bool         `json:"sdone"`
	CErr     string       `json:"cerr"`
	SErr     string       `json:"serr"`
	TFault   int64        `json:"tfault"`
	TDone    int64        `json:"tdone"`
	DataOK   bool         `json:"data_ok"`
	Interval int64        `json:"interval_ms"`
	Livelock bool         `json:"livelock"`
	Spinning []string     `json:"spinning,omitempty"` // stacks of the goroutines that were running
	NDgrams  int          `json:"ndgrams"`
}

// ---- watchdog (real time, outside the bubble)

type c02EarlyWatch struct {
	mu       sync.Mutex
	cur      *c02EarlyCase
	progress atomic.Int64
	stop     chan struct{}
}

func (w *c02EarlyWatch) set(c *c02EarlyCase) {
	w.mu.Lock()
	w.cur = c
	w.mu.Unlock()
	w.progress.Add(1)
}

func (w *c02EarlyWatch) tick() { w.progress.Add(1) }

func c02EarlySpinning() []string {
	buf := make([]byte, 1<<20)
	buf = buf[:runtime.Stack(buf, true)]
	var out []string
	for _, g := range strings.Split(string(buf), "\n\n") {
		head, _, _ := strings.Cut(g, "\n")
		if !(strings.Contains(head, "[running") || strings.Contains(head, "[runnable")) {
			continue
		}
		if strings.Contains(g, "c02EarlySpinning") {
			continue
		}
		var fr []string
		for _, l := range strings.Split(g, "\n") {
			if strings.HasPrefix(l, "github.com/pion/dtls") {
				if i := strings.LastIndex(l, "("); i > 0 {
					l = l[:i]
				}
				fr = append(fr, strings.TrimPrefix(l, "github.com/pion/dtls/v3"))
			}
			if len(fr) >= 8 {
				break
			}
		}
		if len(fr) > 0 {
			out = append(out, strings.Join(fr, " < "))
		}
	}

	return out
}

func (w *c02EarlyWatch) run(out *vOut, stall time.Duration) {
	last := w.progress.Load()
	lastT := time.Now()
	for {
		select {
		case <-w.stop:
			return
		case <-time.After(250 * time.Millisecond):
		}
		p := w.progress.Load()
		if p != last {
			last, lastT = p, time.Now()

			continue
		}
		if time.Since(lastT) < stall {
			continue
		}
		w.mu.Lock()
		c := w.cur
		w.mu.Unlock()
		if c == nil {
			lastT = time.Now()

			continue
		}
		// a goroutine of the bubble has been running for `stall` of real time without the network
		// loop getting a turn: an endpoint is busy-looping (virtual time cannot advance any more).
		rec := *c
		rec.Livelock = true
		rec.Spinning = c02EarlySpinning()
		out.emit(rec)
		_ = out.f.Sync()
		fmt.Fprintf(os.Stderr, "C02EARLY-LIVELOCK variant=%s pattern=%s order=%v lost=%v spinning=%v\n",
			rec.Variant, rec.Pattern, rec.Order, rec.Lost, rec.Spinning)
		os.Exit(86)
	}
}

// ---- runner

type c02EarlyPlan struct {
	pattern string
	flight  string
	window  []c02EarlyDg
	order   []int
	lost    []int
}

func c02EarlySeedSession(t *testing.T, v c02EarlyVariant) (cs, ss *c02Store) {
	t.Helper()
	cs, ss = newC02Store(), newC02Store()
	c0, s0 := v.configs(cs, ss)
	lab0 := newLab(t, c0, s0)
	lab0.Pump.run(lab0.bothDone, 200*time.Second)
	if !lab0.established() {
		t.Fatalf("seeding session failed (%s): %v %v", v.Name, lab0.Client.Err, lab0.Server.Err)
	}
	lab0.close()

	return cs, ss
}

func runC02Early(t *testing.T, w *c02EarlyWatch, v c02EarlyVariant, plan c02EarlyPlan) (c02EarlyCase, []vDatagram) {
	t.Helper()
	res := c02EarlyCase{
		Kind: "c02early", Variant: v.Name, MTU: v.MTU, Pattern: plan.pattern, Flight: plan.flight,
		Window: plan.window, Order: plan.order, Lost: plan.lost, Interval: 1000, FinEarly: c02EarlyFinEarly(plan),
	}
	w.set(&res)
	var cs, ss *c02Store
	if v.Base.Resumed {
		cs, ss = c02EarlySeedSession(t, v)
	}
	w.tick()
	ccfg, scfg := v.configs(cs, ss)
	lab := newLab(t, ccfg, scfg)
	defer lab.close()
	inWindow := map[int]bool{}
	for _, d := range plan.window {
		inWindow[d.Idx] = true
	}
	lost := map[int]bool{}
	for _, i := range plan.lost {
		lost[i] = true
	}
	heldBack := map[int]vDatagram{}
	deliver := func(d vDatagram) {
		lab.Net.deliver(d.To, d.From, d.Data)
		synctest.Wait()
		w.tick()
	}
	next := 0
	deadline := time.Now().Add(90 * time.Second)
	for {
		synctest.Wait()
		w.tick()
		batch := lab.Net.since(next)
		for _, d := range batch {
			next = d.Idx + 1
			switch {
			case plan.pattern == "loss" && lost[d.Idx]:
				res.TFault = lab.Net.now().Milliseconds()
				res.Applied = true
			case plan.pattern == "perm" && inWindow[d.Idx]:
				heldBack[d.Idx] = d
				if len(heldBack) == len(plan.window) {
					res.Applied = true
					for _, i := range plan.order {
						deliver(heldBack[i])
					}
					res.TFault = lab.Net.now().Milliseconds()
					res.Applied = true
					heldBack = map[int]vDatagram{}
					inWindow = map[int]bool{}
				}
			default:
				deliver(d)
			}
		}
		if lab.bothDone() {
			break
		}
		if len(batch) > 0 {
			continue
		}
		if !time.Now().Before(deadline) {
			break
		}
		tm := time.NewTimer(time.Until(deadline))
		select {
		case <-lab.Net.notify:
		case <-tm.C:
		}
		tm.Stop()
	}
	res.CDone, res.SDone = lab.Client.handshakeDone(), lab.Server.handshakeDone()
	if res.CDone {
		res.CErr = vErrString(lab.Client.Err)
	}
	if res.SDone {
		res.SErr = vErrString(lab.Server.Err)
	}
	res.TDone = lab.Net.now().Milliseconds()
	log := lab.Net.since(0)
	res.NDgrams = len(log)
	if lab.established() {
		lab.Client.startReader()
		lab.Server.startReader()
		_, e1 := lab.Client.Conn.Write([]byte("c2s"))
		_, e2 := lab.Server.Conn.Write([]byte("s2c"))
		p := &vPump{net: lab.Net, next: next}
		p.run(func() bool { return len(lab.Client.reads()) > 0 && len(lab.Server.reads()) > 0 }, 5*time.Second)
		res.DataOK = e1 == nil && e2 == nil && len(lab.Client.reads()) > 0 && len(lab.Server.reads()) > 0
	}
	w.set(nil)

	return res, log
}

// finalFlights: for each side the maximal run of consecutive emissions of that side (fault-free
// run) that contains a ChangeCipherSpec, up to and including the first datagram with a next-epoch
// record after it.
func c02EarlyFinalFlights(log []vDatagram) map[string][]c02EarlyDg {
	out := map[string][]c02EarlyDg{}
	for i := 0; i < len(log); {
		j := i
		for j < len(log) && log[j].From == log[i].From {
			j++
		}
		var run []c02EarlyDg
		hasCCS := false
		for _, d := range log[i:j] {
			k := c02EarlyKind(d)
			run = append(run, c02EarlyDg{Idx: d.Idx, Side: d.From, Kind: k})
			if strings.Contains(k, "ccs") {
				hasCCS = true
			}
		}
		if hasCCS {
			if _, dup := out[log[i].From]; !dup {
				// cut behind the first datagram carrying a next-epoch record
				for n, d := range run {
					if strings.Contains(d.Kind, "fin") {
						run = run[:n+1]

						break
					}
				}
				out[log[i].From] = run
			}
		}
		i = j
	}

	return out
}

func c02EarlyPerms(idx []int) [][]int {
	if len(idx) <= 1 {
		return [][]int{append([]int(nil), idx...)}
	}
	var out [][]int
	for i := range idx {
		rest := append(append([]int(nil), idx[:i]...), idx[i+1:]...)
		for _, p := range c02EarlyPerms(rest) {
			out = append(out, append([]int{idx[i]}, p...))
		}
	}

	return out
}

// finEarly: does the plan hand a next-epoch record to the receiver before the ChangeCipherSpec?
func c02EarlyFinEarly(p c02EarlyPlan) bool {
	kind := map[int]string{}
	for _, d := range p.window {
		kind[d.Idx] = d.Kind
	}
	switch p.pattern {
	case "perm":
		for _, i := range p.order {
			k := kind[i]
			if strings.Contains(k, "ccs") {
				return false
			}
			if strings.Contains(k, "fin") {
				return true
			}
		}
	case "loss":
		for _, i := range p.lost {
			if strings.Contains(kind[i], "ccs") && !strings.Contains(kind[i], "fin") {
				return true
			}
		}
	}

	return false
}

func TestVerifC02Early(t *testing.T) {
	out := newVOut(t)
	w := &c02EarlyWatch{stop: make(chan struct{})}
	stall := 20 * time.Second
	if vIsThorough() {
		stall = 40 * time.Second
	}
	go w.run(out, stall)
	defer close(w.stop)
	rng := newVRand(vSeed() ^ 0xc02e)
	permWin, lossWin, budget := 5, 6, 4000
	if vIsThorough() {
		permWin, lossWin, budget = 6, 8, 40000
	}
	vBubble(t, func(t *testing.T) {
		type job struct {
			v c02EarlyVariant
			p c02EarlyPlan
		}
		var must, more []job
		for _, v := range c02EarlyVariants() {
			ref, log := runC02Early(t, w, v, c02EarlyPlan{pattern: "none"})
			out.emit(ref)
			if !(ref.CDone && ref.SDone && ref.CErr == "ok" && ref.SErr == "ok") {
				continue // reported by the driver: a fault-free handshake that does not complete
			}
			flights := c02EarlyFinalFlights(log)
			for _, side := range []string{"client", "server"} {
				fl := flights[side]
				if len(fl) < 2 {
					continue
				}
				// permutations of the tail of the flight
				win := fl
				if len(win) > permWin {
					win = win[len(win)-permWin:]
				}
				var idx []int
				for _, d := range win {
					idx = append(idx, d.Idx)
				}
				for _, o := range c02EarlyPerms(idx) {
					same := true
					for k := range o {
						same = same && o[k] == idx[k]
					}
					if same {
						continue
					}
					p := c02EarlyPlan{pattern: "perm", flight: side, window: win, order: o}
					if c02EarlyFinEarly(p) {
						must = append(must, job{v, p})
					} else {
						more = append(more, job{v, p})
					}
				}
				// the Finished overtakes the whole flight
				if len(fl) > permWin {
					var o []int
					o = append(o, fl[len(fl)-1].Idx)
					for _, d := range fl[:len(fl)-1] {
						o = append(o, d.Idx)
					}
					must = append(must, job{v, c02EarlyPlan{pattern: "perm", flight: side, window: fl, order: o}})
				}
				// loss of every subset of up to two first transmissions of the tail
				lw := fl
				if len(lw) > lossWin {
					lw = lw[len(lw)-lossWin:]
				}
				for a := 0; a < len(lw); a++ {
					p := c02EarlyPlan{pattern: "loss", flight: side, window: lw, lost: []int{lw[a].Idx}}
					if c02EarlyFinEarly(p) {
						must = append(must, job{v, p})
					} else {
						more = append(more, job{v, p})
					}
					for b := a + 1; b < len(lw); b++ {
						p := c02EarlyPlan{pattern: "loss", flight: side, window: lw, lost: []int{lw[a].Idx, lw[b].Idx}}
						if c02EarlyFinEarly(p) {
							must = append(must, job{v, p})
						} else {
							more = append(more, job{v, p})
						}
					}
				}
			}
		}
		// the patterns that put a next-epoch record in front of its ChangeCipherSpec always run; the
		// others (controls: the same faults with the ChangeCipherSpec first) fill the budget
		for i := len(must) - 1; i > 0; i-- {
			j := rng.intn(i + 1)
			must[i], must[j] = must[j], must[i]
		}
		for i := len(more) - 1; i > 0; i-- {
			j := rng.intn(i + 1)
			more[i], more[j] = more[j], more[i]
		}
		jobs := must
		if len(jobs) > budget {
			jobs = jobs[:budget]
		}
		if n := budget - len(jobs); n > 0 {
			if n > len(more) {
				n = len(more)
			}
			if n > len(jobs)/3 {
				n = len(jobs) / 3
			}
			jobs = append(jobs, more[:n]...)
		}
		for _, j := range jobs {
			res, _ := runC02Early(t, w, j.v, j.p)
			out.emit(res)
		}
	})
}
