//go:build verif

package dtls

import (
	"crypto/tls"
	"fmt"
	"sort"
	"strings"
	"sync"
	"testing"
	"testing/synctest"
	"time"

	dtlsstate "github.com/pion/dtls/v3/internal/state"
	"github.com/pion/dtls/v3/pkg/crypto/elliptic"
	"github.com/pion/dtls/v3/pkg/protocol"
)

// ---- in-memory session store

type c02Store struct {
	mu sync.Mutex
	m  map[string]Session
}

func (s *c02Store) Set(key []byte, v Session) error {
	s.mu.Lock()
	defer s.mu.Unlock()
	s.m[string(key)] = v

	return nil
}

func (s *c02Store) Get(key []byte) (Session, error) {
	s.mu.Lock()
	defer s.mu.Unlock()

	return s.m[string(key)], nil
}

func (s *c02Store) Del(key []byte) error {
	s.mu.Lock()
	defer s.mu.Unlock()
	delete(s.m, string(key))

	return nil
}

func newC02Store() *c02Store { return &c02Store{m: map[string]Session{}} }

// ---- variants

type c02Variant struct {
	Name       string
	PSK        bool
	Hint       bool // PSK identity hint => ServerKeyExchange present
	ClientAuth bool
	SkipHV     bool
	Resumed    bool
	Stores     bool // session stores on both sides but no earlier session (full handshake that saves one)
	V13        bool // DTLS 1.3 only
	HRR        bool // DTLS 1.3: the client's first key share is for a group the server does not allow
	MTU        int
	CID        bool
}

func c02Variants() []c02Variant {
	return []c02Variant{
		{Name: "psk", PSK: true, Hint: true},
		{Name: "psk-nohint", PSK: true},
		{Name: "psk-skiphv", PSK: true, Hint: true, SkipHV: true},
		{Name: "cert", MTU: 0},
		{Name: "cert-clientauth", ClientAuth: true},
		{Name: "cert-mtu200", MTU: 200},
		{Name: "cert-clientauth-mtu150", ClientAuth: true, MTU: 150},
		{Name: "psk-resumed", PSK: true, Hint: true, Resumed: true},
		{Name: "cert-resumed", Resumed: true},
		{Name: "psk-cid-mtu40", PSK: true, Hint: true, MTU: 40, CID: true},
		// connection IDs with whole flights per datagram: a single fault mask position reaches the final
		// flights (a retransmitted CID-wrapped Finished is cached once more: seed C02d)
		{Name: "psk-cid", PSK: true, Hint: true, CID: true},
		{Name: "psk-cid-resumed", PSK: true, Hint: true, CID: true, Resumed: true},
		{Name: "cert-stores-mtu200", Stores: true, MTU: 200},
		{Name: "psk-stores", PSK: true, Hint: true, Stores: true},
	}
}

// DTLS 1.3 variants: traces are checked by the liveness/discipline monitors only (the Coq model
// Hs/Abs12.v is the DTLS 1.2 machinery).
func c02Variants13() []c02Variant {
	return []c02Variant{
		{Name: "v13", V13: true},
		{Name: "v13-hrr", V13: true, HRR: true},
		{Name: "v13-mtu300", V13: true, MTU: 300},
		{Name: "v13-mtu120", V13: true, MTU: 120},
		{Name: "v13-hrr-clientauth", V13: true, HRR: true, ClientAuth: true},
	}
}

func (v c02Variant) configs(cs, ss *c02Store) (*dtlsConfig, *dtlsConfig) {
	var c, s *dtlsConfig
	if v.PSK {
		c, s = vPSKPair(TLS_PSK_WITH_AES_128_GCM_SHA256)
		if !v.Hint {
			s.PSKIdentityHint = nil
		}
	} else {
		c, s = vCertPair()
		if v.ClientAuth {
			cr := vGetCreds()
			c.Certificates = []tls.Certificate{cr.Client}
			s.ClientAuth = RequireAndVerifyClientCert
			s.ClientCAs = cr.Pool
		}
	}
	s.InsecureSkipVerifyHello = v.SkipHV
	if v.V13 {
		c.MinVersion, c.MaxVersion = protocol.Version1_3, protocol.Version1_3
		s.MinVersion, s.MaxVersion = protocol.Version1_3, protocol.Version1_3
		if v.HRR {
			c.EllipticCurves = []elliptic.Curve{elliptic.X25519, elliptic.P256}
			s.EllipticCurves = []elliptic.Curve{elliptic.P256}
		}
	}
	if v.MTU > 0 {
		c.MTU, s.MTU = v.MTU, v.MTU
	}
	if v.CID {
		c.ConnectionIDGenerator = RandomCIDGenerator(4)
		s.ConnectionIDGenerator = RandomCIDGenerator(4)
	}
	if cs != nil {
		c.sessionStore = cs
		c.ServerName = "server.verif"
	}
	if ss != nil {
		s.sessionStore = ss
	}
	if c02ConfigHook != nil {
		c02ConfigHook(c, s)
	}

	return c, s
}

// c02ConfigHook lets a debugging run attach loggers to both configurations.
var c02ConfigHook func(c, s *dtlsConfig)

// ---- trace format

type c02Rec struct {
	CT    int `json:"ct"`
	Epoch int `json:"e"`
	HT    int `json:"ht"` // handshake type (epoch 0), 20 for epoch>=1 handshake (Finished), -1 otherwise
	MSeq  int `json:"ms"`
	FOff  int `json:"fo"`
	FLen  int `json:"fl"`
	TLen  int `json:"tl"`
}

type c02Event struct {
	Ev    string   `json:"ev"` // emit | deliver | drop | final
	Idx   int      `json:"idx"`
	Side  string   `json:"side"` // emit: sender; deliver: receiver
	T     int64    `json:"t"`    // virtual ms since start
	Recs  []c02Rec `json:"recs,omitempty"`
	Cause string   `json:"cause,omitempty"` // emit: "deliver" (in reaction to a delivery) or "timer"
}

type c02Case struct {
	Kind         string      `json:"kind"`
	Variant      string      `json:"variant"`
	Mask         []string    `json:"mask"` // action for datagram idx i (global emission index): pass|drop|dup|hold:k
	Events       []c02Event  `json:"events"`
	CDone        bool        `json:"cdone"`
	SDone        bool        `json:"sdone"`
	CErr         string      `json:"cerr"`
	SErr         string      `json:"serr"`
	TDone        int64       `json:"tdone"`  // virtual ms when both had returned
	LastFault    int64       `json:"tfault"` // virtual ms of the last fault applied
	DataOK       bool        `json:"data_ok"`
	Interval     int64       `json:"interval_ms"`
	NoBackoff    bool        `json:"no_backoff"`
	SilenceUntil int64       `json:"silence_until"`
	SilenceTo    string      `json:"silence_to"`
	SilenceFrom  int         `json:"silence_from,omitempty"`
	KeepHellos   bool        `json:"keep_hellos,omitempty"`
	ReverseTo    string      `json:"reverse_to,omitempty"`
	ReverseFrom  int         `json:"reverse_from,omitempty"`
	TComplete    int64       `json:"tcomplete"` // virtual ms when both had returned (TDone also covers the settle time)
	Inject       []c02Inject `json:"inject,omitempty"`
	SettleMS     int64       `json:"settle_ms,omitempty"`
}

func c02Recs(d vDatagram, cidLen int) []c02Rec {
	var out []c02Rec
	for _, r := range vParseDatagram(d.Data, cidLen) {
		cr := c02Rec{CT: r.CT, Epoch: r.Epoch, HT: -1}
		if r.CT == int(protocol.ContentTypeHandshake) && r.Epoch == 0 {
			cr.HT, cr.MSeq, cr.FOff, cr.FLen, cr.TLen = r.HType, r.MsgSeq, r.FOff, r.FLen, r.TLen
		} else if (r.CT == int(protocol.ContentTypeHandshake) || r.CT == int(protocol.ContentTypeConnectionID)) && r.Epoch >= 1 {
			cr.HT = 20
		}
		out = append(out, cr)
	}

	return out
}

type c02Runner struct {
	lab          *vLab
	res          *c02Case
	mask         []string
	cidLen       int
	emitted      int // number of emissions already logged
	lastDeliverT time.Duration
	reacting     bool
}

func (r *c02Runner) logEmissions(cause string) {
	for _, d := range r.lab.Net.since(r.emitted) {
		r.res.Events = append(r.res.Events, c02Event{
			Ev: "emit", Idx: d.Idx, Side: d.From, T: d.T.Milliseconds(), Recs: c02Recs(d, r.cidLen), Cause: cause,
		})
		r.emitted = d.Idx + 1
	}
}

// c02Opt: timing configuration and blanket faults of one run.
type c02Opt struct {
	Interval     time.Duration // initial retransmit interval (0 = default 1 s)
	NoBackoff    bool
	SilenceUntil time.Duration // drop every datagram addressed to SilenceTo until this virtual time
	SilenceTo    string        // "client", "server" or "both"
	Limit        time.Duration // give up after this much virtual time (0 = 400 s)
	SilenceFrom  int           // the silence only applies to datagrams with emission index >= SilenceFrom
	KeepHellos   bool          // the silence lets ClientHello datagrams through (the handshake reaches the later flights)
	ReverseTo    string        // every burst of datagrams addressed to this side is delivered in reverse order ...
	ReverseFrom  int           // ... from this emission index on (until SilenceUntil)
	Inject       []c02Inject   // forged unprotected handshake fragments handed to one side at given virtual times
	Settle       time.Duration // keep the lab running this long after the last injection (also after completion)
}

// c02Inject: one forged epoch-0 handshake record (anybody can send it), delivered at virtual time At.
type c02Inject struct {
	At     time.Duration `json:"-"`
	AtMS   int64         `json:"at"`
	To     string        `json:"to"`
	HT     int           `json:"ht"`
	MSeq   int           `json:"ms"`
	FOff   int           `json:"fo"`
	FLen   int           `json:"fl"`
	TLen   int           `json:"tl"`
	RecSeq uint64        `json:"seq"`
}

func (i c02Inject) datagram() []byte {
	body := make([]byte, i.FLen)
	for k := range body {
		body[k] = 0xAA
	}
	h := []byte{byte(i.HT), byte(i.TLen >> 16), byte(i.TLen >> 8), byte(i.TLen), byte(i.MSeq >> 8), byte(i.MSeq),
		byte(i.FOff >> 16), byte(i.FOff >> 8), byte(i.FOff), byte(i.FLen >> 16), byte(i.FLen >> 8), byte(i.FLen)}
	h = append(h, body...)
	rec := []byte{22, 0xfe, 0xfd, 0, 0,
		byte(i.RecSeq >> 40), byte(i.RecSeq >> 32), byte(i.RecSeq >> 24), byte(i.RecSeq >> 16), byte(i.RecSeq >> 8), byte(i.RecSeq),
		byte(len(h) >> 8), byte(len(h))}

	return append(rec, h...)
}

func runC02(t *testing.T, v c02Variant, mask []string, opt c02Opt) c02Case {
	t.Helper()
	interval := opt.Interval
	res := c02Case{
		Kind: "c02", Variant: v.Name, Mask: mask, Interval: interval.Milliseconds(), NoBackoff: opt.NoBackoff,
		SilenceUntil: opt.SilenceUntil.Milliseconds(), SilenceTo: opt.SilenceTo,
		SilenceFrom: opt.SilenceFrom, KeepHellos: opt.KeepHellos, ReverseTo: opt.ReverseTo, ReverseFrom: opt.ReverseFrom,
		SettleMS: opt.Settle.Milliseconds(),
	}
	injects := append([]c02Inject(nil), opt.Inject...)
	for i := range injects {
		injects[i].AtMS = injects[i].At.Milliseconds()
	}
	res.Inject = injects
	if res.Interval == 0 {
		res.Interval = 1000
	}
	var cs, ss *c02Store
	if v.Stores {
		cs, ss = newC02Store(), newC02Store()
	}
	if v.Resumed {
		cs, ss = newC02Store(), newC02Store()
		// first connection populates both stores
		c0, s0 := v.configs(cs, ss)
		lab0 := newLab(t, c0, s0)
		lab0.Pump.run(lab0.bothDone, 200*time.Second)
		if !lab0.established() {
			t.Fatalf("seeding session failed: %v %v", lab0.Client.Err, lab0.Server.Err)
		}
		lab0.close()
	}
	ccfg, scfg := v.configs(cs, ss)
	if interval > 0 {
		ccfg.FlightInterval, scfg.FlightInterval = interval, interval
	}
	ccfg.DisableRetransmitBackoff, scfg.DisableRetransmitBackoff = opt.NoBackoff, opt.NoBackoff
	lab := newLab(t, ccfg, scfg)
	defer lab.close()
	cidLen := 0
	if v.CID {
		cidLen = 4
	}
	r := &c02Runner{lab: lab, res: &res, mask: mask, cidLen: cidLen}
	type held struct {
		d     vDatagram
		after int
	}
	var helds []held
	type late struct {
		d  vDatagram
		at time.Duration
	}
	var lates []late
	delivered := 0
	deliver := func(d vDatagram) {
		to := d.To
		res.Events = append(res.Events, c02Event{Ev: "deliver", Idx: d.Idx, Side: to, T: lab.Net.now().Milliseconds()})
		lab.Net.deliver(to, d.From, d.Data)
		delivered++
		synctest.Wait()
		r.logEmissions("deliver")
	}
	next := 0
	var settleUntil time.Duration
	doneAt := int64(-1)
	limit := opt.Limit
	if limit == 0 {
		limit = 400 * time.Second
	}
	deadline := time.Now().Add(limit)
	for {
		synctest.Wait()
		r.logEmissions("timer")
		progressed := false
		batch := lab.Net.since(next)
		if opt.ReverseTo != "" && lab.Net.now() < opt.SilenceUntil {
			// stable partition: bursts towards ReverseTo (emission index >= ReverseFrom) leave in reverse order
			var rev []vDatagram
			for _, d := range batch {
				if d.To == opt.ReverseTo && d.Idx >= opt.ReverseFrom {
					rev = append(rev, d)
				}
			}
			k := len(rev) - 1
			for i, d := range batch {
				if d.To == opt.ReverseTo && d.Idx >= opt.ReverseFrom {
					batch[i] = rev[k]
					k--
				}
			}
			if len(rev) > 1 {
				res.LastFault = lab.Net.now().Milliseconds()
			}
		}
		for _, d := range batch {
			if d.Idx >= next {
				next = d.Idx + 1
			}
			act := "pass"
			if d.Idx < len(mask) {
				act = mask[d.Idx]
			}
			if lab.Net.now() < opt.SilenceUntil && d.Idx >= opt.SilenceFrom && (opt.SilenceTo == "both" || opt.SilenceTo == d.To) {
				act = "drop"
				if opt.KeepHellos {
					if rs := c02Recs(d, cidLen); len(rs) > 0 && rs[0].CT == 22 && rs[0].Epoch == 0 && rs[0].HT == 1 {
						act = "pass"
					}
				}
			}
			switch {
			case act == "pass":
				deliver(d)
			case act == "drop":
				res.Events = append(res.Events, c02Event{Ev: "drop", Idx: d.Idx, Side: d.To, T: lab.Net.now().Milliseconds()})
				res.LastFault = lab.Net.now().Milliseconds()
			case act == "dup":
				deliver(d)
				deliver(d)
				res.LastFault = lab.Net.now().Milliseconds()
			case strings.HasPrefix(act, "late:"):
				// delivered that many virtual milliseconds later (past the peer's retransmission timer)
				ms := 1500
				fmt.Sscanf(act, "late:%d", &ms)
				lates = append(lates, late{d: d, at: lab.Net.now() + time.Duration(ms)*time.Millisecond})
			default: // hold:k
				k := 1
				fmt.Sscanf(act, "hold:%d", &k)
				helds = append(helds, held{d: d, after: delivered + k})
			}
			progressed = true
			// release held datagrams that are due
			for i := 0; i < len(helds); {
				if helds[i].after <= delivered {
					h := helds[i]
					helds = append(helds[:i], helds[i+1:]...)
					deliver(h.d)
					res.LastFault = lab.Net.now().Milliseconds()
				} else {
					i++
				}
			}
		}
		// late datagrams that are due
		for i := 0; i < len(lates); {
			if lates[i].at <= lab.Net.now() {
				l := lates[i]
				lates = append(lates[:i], lates[i+1:]...)
				deliver(l.d)
				res.LastFault = lab.Net.now().Milliseconds()
				progressed = true
			} else {
				i++
			}
		}
		if doneAt < 0 && lab.bothDone() {
			doneAt = lab.Net.now().Milliseconds()
		}
		// forged records that are due
		for len(injects) > 0 && injects[0].At <= lab.Net.now() {
			in := injects[0]
			injects = injects[1:]
			res.Events = append(res.Events, c02Event{Ev: "inject", Idx: -1, Side: in.To, T: lab.Net.now().Milliseconds(),
				Recs: []c02Rec{{CT: 22, Epoch: 0, HT: in.HT, MSeq: in.MSeq, FOff: in.FOff, FLen: in.FLen, TLen: in.TLen}}})
			from := "client"
			if in.To == "client" {
				from = "server"
			}
			lab.Net.deliver(in.To, from, in.datagram())
			synctest.Wait()
			r.logEmissions("deliver")
			progressed = true
			settleUntil = lab.Net.now() + opt.Settle
		}
		if lab.bothDone() && len(helds) == 0 && len(lates) == 0 && len(injects) == 0 && lab.Net.now() >= settleUntil {
			break
		}
		if progressed {
			continue
		}
		if len(helds) > 0 {
			h := helds[0]
			helds = helds[1:]
			deliver(h.d)
			res.LastFault = lab.Net.now().Milliseconds()

			continue
		}
		if !time.Now().Before(deadline) {
			break
		}
		wake := time.Until(deadline)
		for _, l := range lates {
			if d := l.at - lab.Net.now(); d < wake {
				wake = d
			}
		}
		if len(injects) > 0 {
			if d := injects[0].At - lab.Net.now(); d < wake {
				wake = d
			}
		} else if lab.bothDone() && settleUntil > lab.Net.now() {
			if d := settleUntil - lab.Net.now(); d < wake {
				wake = d
			}
		}
		if wake < 0 {
			wake = 0
		}
		tm := time.NewTimer(wake)
		select {
		case <-lab.Net.notify:
		case <-tm.C:
		}
		tm.Stop()
	}
	res.CDone, res.SDone = lab.Client.handshakeDone(), lab.Server.handshakeDone()
	if res.CDone {
		res.CErr = vErrString(lab.Client.Err)
	}
	if res.SDone {
		res.SErr = vErrString(lab.Server.Err)
	}
	res.TDone = lab.Net.now().Milliseconds()
	res.TComplete = res.TDone
	if doneAt >= 0 {
		res.TComplete = doneAt
	}
	if lab.established() {
		// application data flows both ways afterwards
		lab.Client.startReader()
		lab.Server.startReader()
		_, e1 := lab.Client.Conn.Write([]byte("c2s"))
		_, e2 := lab.Server.Conn.Write([]byte("s2c"))
		p := &vPump{net: lab.Net, next: lab.Net.count() - 2}
		if p.next < 0 {
			p.next = 0
		}
		p.next = next
		p.run(func() bool { return len(lab.Client.reads()) > 0 && len(lab.Server.reads()) > 0 }, 5*time.Second)
		res.DataOK = e1 == nil && e2 == nil && len(lab.Client.reads()) > 0 && len(lab.Server.reads()) > 0
	}
	_ = dtlsstate.CommonState

	return res
}

func c02MaskString(m []string) string { return fmt.Sprint(m) }

func TestVerifC02(t *testing.T) {
	out := newVOut(t)
	rng := newVRand(vSeed() ^ 0xc02)
	variants := c02Variants()
	acts := []string{"pass", "drop", "dup", "hold:1", "hold:3"}
	type job struct {
		v    c02Variant
		mask []string
	}
	var jobs []job
	// exhaustive single faults over the first datagrams, every variant
	nSingle := 10
	for _, v := range variants {
		jobs = append(jobs, job{v, nil})
		for i := 0; i < nSingle; i++ {
			for _, a := range acts[1:] {
				m := make([]string, i+1)
				for j := range m {
					m[j] = "pass"
				}
				m[i] = a
				jobs = append(jobs, job{v, m})
			}
		}
	}
	// late arrivals (after the peer's retransmission timer fired), alone and with one lost datagram
	for _, v := range variants {
		for i := 0; i < 6; i++ {
			m := make([]string, i+1)
			for j := range m {
				m[j] = "pass"
			}
			m[i] = "late:1500"
			jobs = append(jobs, job{v, m})
			for j := 0; j < 10; j += 3 {
				if j == i {
					continue
				}
				l := i + 1
				if j+1 > l {
					l = j + 1
				}
				m2 := make([]string, l)
				for k := range m2 {
					m2[k] = "pass"
				}
				m2[i], m2[j] = "late:1500", "drop"
				jobs = append(jobs, job{v, m2})
			}
		}
	}
	// exhaustive masks over the first N datagrams on the base variants
	n := 3
	if vIsThorough() {
		n = 5
	}
	for _, v := range variants[:2] {
		total := 1
		for i := 0; i < n; i++ {
			total *= len(acts)
		}
		for code := 0; code < total; code++ {
			m := make([]string, n)
			c := code
			for i := range m {
				m[i] = acts[c%len(acts)]
				c /= len(acts)
			}
			jobs = append(jobs, job{v, m})
		}
	}
	// sampled longer masks
	nr := 60
	if vIsThorough() {
		nr = 3000
	}
	for i := 0; i < nr; i++ {
		v := variants[rng.intn(len(variants))]
		l := 4 + rng.intn(16)
		m := make([]string, l)
		for j := range m {
			if rng.chance(60) {
				m[j] = "pass"
			} else {
				m[j] = acts[1+rng.intn(len(acts)-1)]
			}
		}
		jobs = append(jobs, job{v, m})
	}
	sort.SliceStable(jobs, func(i, j int) bool { return false })
	for _, j := range jobs {
		j := j
		var res c02Case
		vBubble(t, func(t *testing.T) { res = runC02(t, j.v, j.mask, c02Opt{}) })
		out.emit(res)
	}
}

// TestVerifC02V13: DTLS 1.3 handshakes (with and without HelloRetryRequest) under the same fault
// masks; monitor-only leg.
func TestVerifC02V13(t *testing.T) {
	out := newVOut(t)
	rng := newVRand(vSeed() ^ 0xc0213)
	acts := []string{"pass", "drop", "dup", "hold:1", "hold:3"}
	for _, v := range c02Variants13() {
		var masks [][]string
		masks = append(masks, nil)
		for i := 0; i < 12; i++ {
			for _, a := range acts[1:] {
				m := make([]string, i+1)
				for j := range m {
					m[j] = "pass"
				}
				m[i] = a
				masks = append(masks, m)
			}
		}
		// a datagram that arrives after the peer's retransmission timer has fired (so the peer repeats
		// its flight and the answer arrives twice), alone and combined with one lost datagram
		nl, nd := 6, 12
		if vIsThorough() {
			nl, nd = 10, 20
		}
		for i := 0; i < nl; i++ {
			m := make([]string, i+1)
			for j := range m {
				m[j] = "pass"
			}
			m[i] = "late:1500"
			masks = append(masks, m)
			for j := 0; j < nd; j++ {
				if j == i {
					continue
				}
				l := i + 1
				if j+1 > l {
					l = j + 1
				}
				m2 := make([]string, l)
				for k := range m2 {
					m2[k] = "pass"
				}
				m2[i], m2[j] = "late:1500", "drop"
				masks = append(masks, m2)
			}
		}
		n := 30
		if vIsThorough() {
			n = 1500
		}
		for i := 0; i < n; i++ {
			l := 3 + rng.intn(14)
			m := make([]string, l)
			for j := range m {
				if rng.chance(65) {
					m[j] = "pass"
				} else {
					m[j] = acts[1+rng.intn(len(acts)-1)]
				}
			}
			masks = append(masks, m)
		}
		for _, m := range masks {
			v, m := v, m
			var res c02Case
			vBubble(t, func(t *testing.T) { res = runC02(t, v, m, c02Opt{Limit: 200 * time.Second}) })
			res.Kind = "c02v13"
			res.Events = nil // not replayed through a model: keep the output small
			out.emit(res)
		}
	}
}
