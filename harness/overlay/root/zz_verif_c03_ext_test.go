//go:build verif

// C03 extensions.
//
// (1) "scheme confusion": a rogue peer presents the GENUINE certificate chain of a victim whose
// private key it does not hold, claims a signature scheme of its choice out of the verifier's
// allowed list, and sends a signature forged from the public key alone for the EMPTY digest (the
// Ed25519 scheme's "hash" yields no digest; ECDSA verification of an empty digest accepts
// r = x(kQ), s = r/k).  Key type of the presented certificate x claimed scheme family x message
// (ServerKeyExchange, DTLS 1.2 CertificateVerify, DTLS 1.3 CertificateVerify of either side).
// Everything is reached through configuration: a crypto.Signer whose Public() has the type of the
// CLAIMED scheme (pion derives the scheme from it) and whose Sign returns the forgery.
//
// (2) "refused client resumes": two connections to one server with a session store and a
// client-authentication policy.  Connection 1: the client holds no certificate, omits the
// Certificate message altogether (the stock client would send an empty one, which disables the
// session) and either sends a correct Finished (and is refused with a fatal alert) or stops after
// ClientKeyExchange.  Connection 2: it offers the session id announced in connection 1 together
// with the master secret it derived itself.
package dtls

import (
	"context"
	"crypto"
	"crypto/ecdsa"
	"crypto/ed25519"
	"crypto/rsa"
	"crypto/tls"
	"crypto/x509"
	"encoding/asn1"
	"errors"
	"fmt"
	"io"
	"math/big"
	"strings"
	"sync"
	"testing"
	"testing/synctest"
	"time"

	dtlsflight "github.com/pion/dtls/v3/internal/flight"
	dtlsstate "github.com/pion/dtls/v3/internal/state"
	"github.com/pion/dtls/v3/pkg/crypto/prf"
	"github.com/pion/dtls/v3/pkg/protocol"
	"github.com/pion/dtls/v3/pkg/protocol/handshake"
	"github.com/pion/dtls/v3/pkg/protocol/recordlayer"
	"github.com/pion/logging"
)

// ---------------------------------------------------------------- server-name forms, empty PSK, PSK-only client on DTLS 1.3

var c03GoodPSK = []byte{0xAB, 0xC1, 0x23} //nolint:gochecknoglobals

func c03ExtConfigs(s c03Scn, cp, svp **dtlsConfig, _ *c03Obs) {
	c, sv := *cp, *svp
	kc := c03GetKeyCreds()
	switch s.Rogue {
	case "server_name":
		// the (rogue) server holds a genuine certificate under the trusted CA - for SCert; the client wants SName
		c.RootCAs = kc.Pool
		c.ServerName = s.SName
		if s.SName == "-" {
			c.ServerName = ""
		}
		c.Certificates = nil
		sv.Certificates = []tls.Certificate{kc.Named[s.SCert]}
	case "empty_psk":
		if s.Honest == "server" {
			// honest server: key lookup by identity, an unknown identity yields an empty key and no error
			sv.psk = func(id []byte) ([]byte, error) {
				if string(id) == "verif-client" {
					return c03GoodPSK, nil
				}

				return nil, nil
			}
			// rogue client: unknown identity, knows no key; derives the pre-master secret of the EMPTY key
			c.PSKIdentityHint = []byte("nobody")
			c.psk = func([]byte) ([]byte, error) { return []byte{0x01}, nil }
			ecdhe := s.Suite == "ecdhepsk"
			c.LoggerFactory = &c03HookLogger{onTrace: func(m string) {
				if c03AttackerConn == nil || !strings.Contains(m, "Flight 3 -> Flight 5") {
					return
				}
				st, err := dtlsstate.As12(c03AttackerConn.state)
				if err != nil {
					return
				}
				if ske := st.RemoteServerKeyExchange(); ecdhe && ske != nil && st.LocalKeypair != nil {
					if pms, perr := prf.EcdhePSKPreMasterSecret(nil, ske.PublicKey, st.LocalKeypair.PrivateKey,
						st.LocalKeypair.Curve); perr == nil {
						st.PreMasterSecret = pms
					}
				} else {
					st.PreMasterSecret = prf.PSKPreMasterSecret(nil)
				}
			}}
		} else {
			// honest client: key lookup by the server's identity hint
			c.psk = func(hint []byte) ([]byte, error) {
				if string(hint) == "verif-server" {
					return c03GoodPSK, nil
				}

				return nil, nil
			}
			// rogue server: unknown hint, uses the empty key (its own stack refuses that on the repaired tree,
			// but the honest client decides first, on the ServerKeyExchange)
			sv.PSKIdentityHint = []byte("nobody")
			sv.psk = func([]byte) ([]byte, error) { return nil, nil }
		}
	case "ack_all_silent", "ack_part_silent", "ack_all_nocert":
		c03AckConfigs(s, c)
	case "psk_only_13":
		// client: WithPSK only - no RootCAs, no ServerName, no certificates - but DTLS 1.3 allowed
		c2 := vBaseConfig()
		c2.psk = func([]byte) ([]byte, error) { return c03GoodPSK, nil }
		c2.PSKIdentityHint = []byte("verif-client")
		c2.MaxVersion = protocol.Version1_3
		// server: DTLS 1.3, knows no PSK, holds some certificate the system roots accept
		s2 := vBaseConfig()
		s2.Certificates = []tls.Certificate{vGetCreds().WrongName}
		s2.MinVersion, s2.MaxVersion = protocol.Version1_3, protocol.Version1_3
		*cp, *svp = c2, s2
	}
}

// ---------------------------------------------------------------- DTLS 1.3: the client ACKs the server's flight
//
// A rogue DTLS 1.3 client that has received (and could verify) the whole server flight does not answer
// with its own final flight: it sends ONE epoch-2 ACK record and
//   ack_all_silent   - acknowledges every protected record of the server's flight, then stays silent;
//   ack_part_silent  - acknowledges only the first of them, then stays silent;
//   ack_all_nocert   - acknowledges all of them and afterwards sends an ordinary final flight without certificate.
// The real client is stopped between its flight 3 and flight 5 (trace hook of its logger, the state
// machine's own goroutine): there it writes the ACK and, for the silent variants, blocks until the
// scenario is over.

var (
	c03SilentRelease chan struct{} //nolint:gochecknoglobals
	c03AckSent       int           //nolint:gochecknoglobals
)

func c03AckConfigs(s c03Scn, c *dtlsConfig) {
	c.Certificates = nil
	c.getClientCertificate = nil
	release := func() <-chan struct{} { return c03SilentRelease }
	c.LoggerFactory = &c03HookLogger{onTrace: func(m string) {
		conn := c03AttackerConn
		if conn == nil || !strings.Contains(m, "handshake13:client") || !strings.Contains(m, "Flight 3 -> Flight 5") {
			return
		}
		n := 32
		if s.Rogue == "ack_part_silent" {
			n = 1
		}
		records := make([]protocol.RecordNumber, 0, n)
		for seq := uint64(0); seq < uint64(n); seq++ {
			records = append(records, protocol.RecordNumber{Epoch: 2, SequenceNumber: seq})
		}
		if err := conn.writePackets(context.Background(), []*dtlsflight.Packet{{
			Record: &recordlayer.RecordLayer{
				Header:  recordlayer.Header{Version: protocol.Version1_2, Epoch: 2},
				Content: &protocol.ACK{Records: records},
			},
			ShouldEncrypt: true,
		}}); err == nil {
			c03AckSent = n
		}
		if s.Rogue != "ack_all_nocert" {
			<-release()
		}
	}}
}

func c03ExtScenarios() []c03Scn {
	var out []c03Scn
	for _, r := range []string{"ack_all_silent", "ack_part_silent", "ack_all_nocert"} {
		for pol := 0; pol <= 4; pol++ {
			out = append(out, c03Scn{Ver: 13, Suite: "cert", Honest: "server", Rogue: r, Policy: pol})
		}
	}
	for _, ver := range []int{12, 13} {
		for _, name := range []string{"server.verif", "192.0.2.10", "2001:db8::10", "-"} {
			for _, crt := range []string{"dns", "dnsother", "ip4", "ip4other", "ip6", "ip6other"} {
				for _, skip := range []bool{false, true} {
					out = append(out, c03Scn{Ver: ver, Suite: "cert", Honest: "client", Rogue: "server_name",
						Skip: skip, SName: name, SCert: crt})
				}
			}
		}
	}
	for _, suite := range []string{"psk", "ecdhepsk"} {
		for _, hs := range []string{"client", "server"} {
			out = append(out, c03Scn{Ver: 12, Suite: suite, Honest: hs, Rogue: "empty_psk"})
		}
	}
	out = append(out, c03Scn{Ver: 13, Suite: "psk", Honest: "client", Rogue: "psk_only_13"})

	return out
}

// ---------------------------------------------------------------- credentials of every key type

type c03KeyCreds struct {
	Pool   *x509.CertPool
	Server map[string]tls.Certificate // key type -> "server.verif" chain + key under the CA
	Client map[string]tls.Certificate // key type -> "client.verif"
	Named  map[string]tls.Certificate // what the certificate is valid for -> Ed25519 server certificate under the CA
}

var (
	c03KeyCredsOnce sync.Once    //nolint:gochecknoglobals
	c03KeyCredsVal  *c03KeyCreds //nolint:gochecknoglobals
)

func c03GetKeyCreds() *c03KeyCreds {
	c03KeyCredsOnce.Do(func() {
		// fixed credentials (zz_verif_c03_creds_test.go): nothing here depends on the process's randomness
		pool := x509.NewCertPool()
		pool.AddCert(vPemCert(c03PemCA))
		out := &c03KeyCreds{
			Pool: pool, Server: map[string]tls.Certificate{}, Client: map[string]tls.Certificate{},
			Named: map[string]tls.Certificate{},
		}
		for name, ck := range c03PemLeaves {
			crt := vKeyPair(ck[0], ck[1])
			role, kind, _ := strings.Cut(name, "/")
			switch role {
			case "server":
				out.Server[kind] = crt
			case "client":
				out.Client[kind] = crt
			default:
				out.Named[kind] = crt
			}
		}
		c03KeyCredsVal = out
	})

	return c03KeyCredsVal
}

// ---------------------------------------------------------------- the forging signer

// c03Forger holds NO private key of the victim.  Public() has the type of the scheme family it
// wants pion to claim; Sign ignores its input.
type c03Forger struct {
	claim  crypto.PublicKey
	victim crypto.PublicKey
}

func (f c03Forger) Public() crypto.PublicKey { return f.claim }

func (f c03Forger) Sign(io.Reader, []byte, crypto.SignerOpts) ([]byte, error) {
	switch q := f.victim.(type) {
	case *ecdsa.PublicKey:
		// valid for the EMPTY digest under Q, computed from Q alone: R = kQ, r = x(R) mod n, s = r/k mod n
		n := q.Curve.Params().N
		k := big.NewInt(0x5eed)
		rx, _ := q.Curve.ScalarMult(q.X, q.Y, k.Bytes()) //nolint:staticcheck
		r := new(big.Int).Mod(rx, n)
		s := new(big.Int).Mul(r, new(big.Int).ModInverse(k, n))
		s.Mod(s, n)

		return asn1.Marshal(struct{ R, S *big.Int }{r, s})
	case *rsa.PublicKey:
		return make([]byte, q.Size()), nil // nothing can be forged for RSA: an all-zero "signature"
	default:
		return make([]byte, ed25519.SignatureSize), nil
	}
}

func sprintfC03(f string, a ...any) string { return fmt.Sprintf(f, a...) }

func errorsAsC03(err error, target any) bool { return errors.As(err, target) }

func c03ClaimKey(claim string, kc *c03KeyCreds) crypto.PublicKey {
	// any public key of the claimed family will do: only its TYPE is looked at
	return kc.Server[claim].PrivateKey.(crypto.Signer).Public() //nolint:forcetypeassert
}

func c03ConfusionConfigs(s c03Scn, c, sv *dtlsConfig) {
	kc := c03GetKeyCreds()
	c.RootCAs = kc.Pool
	sv.ClientCAs = kc.Pool
	c.ServerName = "server.verif"
	if s.Honest == "client" { // rogue server shows the victim server's chain
		victim := kc.Server[s.Key]
		sv.Certificates = []tls.Certificate{{
			Certificate: victim.Certificate, Leaf: victim.Leaf,
			PrivateKey: c03Forger{claim: c03ClaimKey(s.Claim, kc), victim: victim.Leaf.PublicKey},
		}}
		c.Certificates = []tls.Certificate{kc.Client["ed25519"]}
	} else { // rogue client shows the victim client's chain
		victim := kc.Client[s.Key]
		c.Certificates = []tls.Certificate{{
			Certificate: victim.Certificate, Leaf: victim.Leaf,
			PrivateKey: c03Forger{claim: c03ClaimKey(s.Claim, kc), victim: victim.Leaf.PublicKey},
		}}
		sv.Certificates = []tls.Certificate{kc.Server["ed25519"]}
	}
}

func c03ConfusionScenarios() []c03Scn {
	var out []c03Scn
	for _, ver := range []int{12, 13} {
		for _, key := range []string{"ecdsa", "rsa", "ed25519"} {
			for _, claim := range []string{"ed25519", "ecdsa", "rsa"} {
				for _, skip := range []bool{false, true} {
					out = append(out, c03Scn{Ver: ver, Suite: "cert", Honest: "client", Rogue: "scheme_confusion",
						Skip: skip, Key: key, Claim: claim})
				}
				for pol := 1; pol <= 4; pol++ {
					out = append(out, c03Scn{Ver: ver, Suite: "cert", Honest: "server", Rogue: "scheme_confusion",
						Policy: pol, Key: key, Claim: claim})
				}
			}
		}
	}

	return out
}

// ---------------------------------------------------------------- refused client resumes

// c03HookLogger: the only deviation of the rogue client in connection 1 (certificate suites) is to
// leave the Certificate message out; pion's client has no option for that, so the flag that makes
// flight5Generate answer the CertificateRequest is cleared between flight 3 and flight 5.
type c03HookLogger struct{ onTrace func(string) }

func (l *c03HookLogger) NewLogger(string) logging.LeveledLogger { return l }
func (l *c03HookLogger) Trace(m string)                         { l.onTrace(m) }
func (l *c03HookLogger) Tracef(f string, a ...any)              { l.onTrace(sprintfC03(f, a...)) }
func (l *c03HookLogger) Debug(string)                           {}
func (l *c03HookLogger) Debugf(string, ...any)                  {}
func (l *c03HookLogger) Info(string)                            {}
func (l *c03HookLogger) Infof(string, ...any)                   {}
func (l *c03HookLogger) Warn(string)                            {}
func (l *c03HookLogger) Warnf(string, ...any)                   {}
func (l *c03HookLogger) Error(string)                           {}
func (l *c03HookLogger) Errorf(string, ...any)                  {}

type c03Store struct {
	mu sync.Mutex
	m  map[string]Session
}

func newC03Store() *c03Store { return &c03Store{m: map[string]Session{}} }

func (s *c03Store) Set(key []byte, v Session) error {
	s.mu.Lock()
	defer s.mu.Unlock()
	s.m[string(key)] = v

	return nil
}

func (s *c03Store) Get(key []byte) (Session, error) {
	s.mu.Lock()
	defer s.mu.Unlock()

	return s.m[string(key)], nil
}

func (s *c03Store) Del(key []byte) error {
	s.mu.Lock()
	defer s.mu.Unlock()
	delete(s.m, string(key))

	return nil
}

func (s *c03Store) size() int {
	s.mu.Lock()
	defer s.mu.Unlock()

	return len(s.m)
}

type c03ResumeObs struct {
	Kind    string `json:"kind"` // c03r
	ID      string `json:"id"`
	Suite   string `json:"suite"`  // cert | psk
	Policy  int    `json:"policy"` // server ClientAuth
	Fin     bool   `json:"fin"`    // connection 1: the client sends its (correct) Finished
	EMS     bool   `json:"ems"`
	C1Res   string `json:"c1res"` // connection 1
	S1Res   string `json:"s1res"`
	S1Alert int    `json:"s1alert"`
	Stored  bool   `json:"stored"` // the server's store holds an entry when connection 2 starts
	Learned bool   `json:"learned"`
	C2Res   string `json:"c2res"` // connection 2
	S2Res   string `json:"s2res"`
	S2Alert int    `json:"s2alert"`
	Resumed bool   `json:"resumed"` // connection 2 was an abbreviated handshake (no ServerHelloDone)
	Certs   int    `json:"peer_certs"`
	SReads  int    `json:"sreads"` // payloads the server Read from the certificate-less client in connection 2
	S2Err   string `json:"s2err"`
}

func c03ResumeConfigs(suite string, policy int, ems bool, cs, ss *c03Store, att **Conn) (*dtlsConfig, *dtlsConfig) {
	cr := vGetCreds()
	var c, sv *dtlsConfig
	if suite == "psk" {
		c, sv = vPSKPair(TLS_PSK_WITH_AES_128_GCM_SHA256)
	} else {
		c, sv = vCertPair()
		sv.ClientCAs = cr.Pool
		c.LoggerFactory = &c03HookLogger{onTrace: func(m string) {
			if *att == nil || !strings.Contains(m, "Flight 3 -> Flight 5") {
				return
			}
			if st, err := dtlsstate.As12((*att).state); err == nil {
				st.RemoteRequestedCertificate = false
			}
		}}
	}
	c.ServerName = "server.verif"
	sv.ClientAuth = ClientAuthType(policy)
	if !ems {
		c.ExtendedMasterSecret, sv.ExtendedMasterSecret = DisableExtendedMasterSecret, DisableExtendedMasterSecret
	}
	c.sessionStore, sv.sessionStore = cs, ss

	return c, sv
}

func c03LabWithAttacker(t *testing.T, ccfg, scfg *dtlsConfig, att **Conn) *vLab {
	t.Helper()
	// newLab starts both handshakes at once; the hook needs the client Conn, which exists before any
	// flight transition can be logged (the first datagram has not been delivered yet)
	lab := newLab(t, ccfg, scfg)
	*att = lab.Client.Conn

	return lab
}

// pump that can cut the client's flight before ChangeCipherSpec
func c03ResumePump(lab *vLab, cutFinished bool, limit time.Duration) (sawSHD bool) {
	next := 0
	deadline := time.Now().Add(limit)
	for {
		synctest.Wait()
		progressed := false
		for _, d := range lab.Net.since(next) {
			next = d.Idx + 1
			data := d.Data
			var kept []byte
			for _, r := range vParseDatagram(d.Data, 0) {
				if d.From == "server" && r.CT == int(protocol.ContentTypeHandshake) && r.Epoch == 0 &&
					r.HType == int(handshake.TypeServerHelloDone) {
					sawSHD = true
				}
				if cutFinished && d.From == "client" && (r.CT == int(protocol.ContentTypeChangeCipherSpec) || r.Epoch > 0) {
					break
				}
				kept = append(kept, r.Raw...)
			}
			if cutFinished && d.From == "client" {
				data = kept
			}
			if len(data) > 0 {
				lab.Net.deliver(d.To, d.From, data)
				synctest.Wait()
			}
			progressed = true
		}
		if lab.bothDone() {
			return sawSHD
		}
		if progressed {
			continue
		}
		if !time.Now().Before(deadline) {
			return sawSHD
		}
		tm := time.NewTimer(time.Until(deadline))
		select {
		case <-lab.Net.notify:
		case <-tm.C:
		}
		tm.Stop()
	}
}

func runC03Resume(t *testing.T, suite string, policy int, fin, ems bool) c03ResumeObs {
	t.Helper()
	obs := c03ResumeObs{Kind: "c03r", Suite: suite, Policy: policy, Fin: fin, EMS: ems, S1Alert: -1, S2Alert: -1}
	obs.ID = sprintfC03("resume/%s/p%d/fin=%v/ems=%v", suite, policy, fin, ems)
	time.Sleep(time.Hour)
	ss := newC03Store()
	var att *Conn
	// ---- connection 1
	c1, s1 := c03ResumeConfigs(suite, policy, ems, newC03Store(), ss, &att)
	lab := c03LabWithAttacker(t, c1, s1, &att)
	c03ResumePump(lab, !fin, 12*time.Second)
	obs.C1Res, _ = c03Class(lab.Client)
	obs.S1Res, _ = c03Class(lab.Server)
	if a := c03WireAlerts(lab.Net); len(a) > 0 {
		for _, w := range a {
			if w.From == "server" {
				obs.S1Alert = w.Desc
			}
		}
	}
	if obs.S1Alert < 0 {
		var ae *alertError
		if lab.Client.handshakeDone() && lab.Client.Err != nil && errorsAsC03(lab.Client.Err, &ae) {
			obs.S1Alert = int(ae.Description)
		}
	}
	// what the refused client knows: the session id of the ServerHello and the master secret it derived
	var sid, ms []byte
	if st, err := dtlsstate.As12(att.state); err == nil {
		sid = append([]byte(nil), st.SessionID...)
		ms = append([]byte(nil), st.MasterSecret...)
	}
	obs.Learned = len(sid) > 0 && len(ms) > 0
	lab.close()
	obs.Stored = ss.size() > 0
	// ---- connection 2
	cs2 := newC03Store()
	if obs.Learned {
		_ = cs2.Set([]byte("server_server.verif"), Session{ID: sid, Secret: ms})
	}
	att = nil
	c2, s2 := c03ResumeConfigs(suite, policy, ems, cs2, ss, &att)
	lab2 := c03LabWithAttacker(t, c2, s2, &att)
	defer lab2.close()
	obs.Resumed = !c03ResumePump(lab2, false, 12*time.Second)
	obs.C2Res, _ = c03Class(lab2.Client)
	obs.S2Res, obs.S2Err = c03Class(lab2.Server)
	for _, w := range c03WireAlerts(lab2.Net) {
		if w.From == "server" {
			obs.S2Alert = w.Desc
		}
	}
	if obs.S2Alert < 0 {
		var ae *alertError
		if lab2.Client.handshakeDone() && lab2.Client.Err != nil && errorsAsC03(lab2.Client.Err, &ae) {
			obs.S2Alert = int(ae.Description)
		}
	}
	if lab2.Server.handshakeDone() && lab2.Server.Err == nil {
		if st, ok := lab2.Server.Conn.ConnectionState(); ok {
			obs.Certs = len(st.PeerCertificates)
		}
		lab2.Server.startReader()
		if lab2.Client.handshakeDone() && lab2.Client.Err == nil {
			_, _ = lab2.Client.Conn.Write([]byte("rogue-data"))
			lab2.Pump.next = lab2.Net.count() - 1
			lab2.Pump.run(func() bool { return len(lab2.Server.reads()) > 0 }, 3*time.Second)
		}
		obs.SReads = len(lab2.Server.reads())
	}

	return obs
}

func TestVerifC03Resume(t *testing.T) {
	out := c03OpenOut(t, "VERIF_OUT_RESUME")
	for _, suite := range []string{"cert", "psk"} {
		for pol := 0; pol <= 4; pol++ {
			for _, fin := range []bool{true, false} {
				for _, ems := range []bool{true, false} {
					suite, pol, fin, ems := suite, pol, fin, ems
					var obs c03ResumeObs
					vBubble(t, func(t *testing.T) { obs = runC03Resume(t, suite, pol, fin, ems) })
					out.emit(obs)
				}
			}
		}
	}
}
