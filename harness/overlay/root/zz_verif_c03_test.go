//go:build verif

// C03 peer authentication: config-level rogue peers. A real pion endpoint is configured through
// dtlsConfig fields / public options to deviate in exactly one credential (wrong CA, wrong name,
// expired, substituted chain + own key, forged signature, missing certificate, wrong PSK,
// signature scheme outside the verifier's list) and is run against an honest endpoint under every
// ClientAuth value x InsecureSkipVerify x VerifyPeerCertificate/VerifyConnection callback x suite
// class x DTLS 1.2/1.3.  Observations are projected to result classes only.
package dtls

import (
	"crypto"
	"crypto/tls"
	"crypto/x509"
	"errors"
	"fmt"
	"io"
	"os"
	"strings"
	"testing"
	"time"

	"github.com/pion/dtls/v3/pkg/crypto/hash"
	"github.com/pion/dtls/v3/pkg/crypto/signature"
	"github.com/pion/dtls/v3/pkg/crypto/signaturehash"
	"github.com/pion/dtls/v3/pkg/protocol"
	"github.com/pion/dtls/v3/pkg/protocol/alert"
	"github.com/pion/dtls/v3/pkg/protocol/handshake"
)

func c03Ed25519Alg() signaturehash.Algorithm {
	return signaturehash.Algorithm{Hash: hash.Ed25519, Signature: signature.Ed25519}
}

type c03Scn struct {
	ID     string `json:"id"`
	Ver    int    `json:"ver"`    // 12 | 13
	Suite  string `json:"suite"`  // cert | psk | ecdhepsk
	Honest string `json:"honest"` // client | server : the side whose decision is observed
	Rogue  string `json:"rogue"`  // deviation of the other side ("honest" = none)
	Policy int    `json:"policy"` // server ClientAuth (0..4)
	Skip   bool   `json:"skip"`   // client InsecureSkipVerify
	VPC    string `json:"vpc"`    // honest side VerifyPeerCertificate: "" | ok | reject
	VC     string `json:"vc"`     // honest side VerifyConnection: "" | ok | reject
	Tamper string `json:"tamper"` // DTLS 1.3 flight tamper of the rogue side ("" = none)
	MTU    int    `json:"mtu"`    // 0 = default; thorough tier repeats every scenario with fragmented flights
	Key    string `json:"key"`    // scheme_confusion: key type of the presented (victim's) certificate: ecdsa | rsa | ed25519
	Claim  string `json:"claim"`  // scheme_confusion: family of the signature scheme the rogue claims: ed25519 | ecdsa | rsa
	SName  string `json:"sname"`  // server_name: the client's configured ServerName (DNS name, IP literal or "-" for empty)
	SCert  string `json:"scert"`  // server_name: what the presented certificate is valid for: dns | dnsother | ip4 | ip4other | ip6 | ip6other
}

type c03Alert struct {
	From  string `json:"from"`
	Level int    `json:"level"`
	Desc  int    `json:"desc"`
}

type c03Obs struct {
	Kind        string     `json:"kind"`
	Scn         c03Scn     `json:"scn"`
	CRes        string     `json:"cres"` // ok | alert:<desc received> | local | hang
	SRes        string     `json:"sres"`
	CErr        string     `json:"cerr"` // informational only
	SErr        string     `json:"serr"`
	HonestReads int        `json:"honest_reads"` // payloads Read by the honest side
	RogueReads  int        `json:"rogue_reads"`  // payloads Read by the rogue side
	RogueWrote  bool       `json:"rogue_wrote"`
	HonestWrote bool       `json:"honest_wrote"`
	Wire        []c03Alert `json:"wire_alerts"` // cleartext (epoch 0) alerts seen on the wire
	VPCCalls    int        `json:"vpc_calls"`
	VCCalls     int        `json:"vc_calls"`
	TamperHit   int        `json:"tamper_hit"`
	AckSent     int        `json:"ack_sent"`     // ack_* deviations: record numbers the rogue client acknowledged
	PeerCerts   int        `json:"peer_certs"`   // honest side established: len(ConnectionState().PeerCertificates)
	HonestAlert int        `json:"honest_alert"` // description of the alert the honest side raised, -1 if none seen
}

// ---- signer wrappers (forged signatures with a genuine certificate chain)

type c03Signer struct {
	inner crypto.Signer
	mode  string // garbage | other
}

func (s c03Signer) Public() crypto.PublicKey { return s.inner.Public() }

func (s c03Signer) Sign(rnd io.Reader, digest []byte, opts crypto.SignerOpts) ([]byte, error) {
	switch s.mode {
	case "other":
		d := append([]byte(nil), digest...)
		if len(d) == 0 {
			d = []byte{1}
		}
		d[len(d)/2] ^= 0x01

		return s.inner.Sign(rnd, d, opts)
	default: // garbage: right length, wrong bytes
		sig, err := s.inner.Sign(rnd, digest, opts)
		if err != nil {
			return nil, err
		}
		for i := range sig {
			sig[i] ^= byte(0x5a + i)
		}

		return sig, nil
	}
}

func c03WithKey(chain tls.Certificate, key crypto.PrivateKey) tls.Certificate {
	return tls.Certificate{Certificate: chain.Certificate, PrivateKey: key, Leaf: chain.Leaf}
}

var errC03Reject = errors.New("verif: callback rejects") //nolint:gochecknoglobals

// the rogue client's Conn of the running scenario (logger hooks of zz_verif_c03_ext_test.go reach its state)
var c03AttackerConn *Conn //nolint:gochecknoglobals

// installed by zz_verif_c03t_test.go (only present when the tamper overlay is active)
var c03TamperInstall func(scn c03Scn, hits *int) func() //nolint:gochecknoglobals

func c03Version(c *dtlsConfig, ver int) {
	if ver == 13 {
		c.MinVersion, c.MaxVersion = protocol.Version1_3, protocol.Version1_3
	}
}

func (s c03Scn) configs(obs *c03Obs) (*dtlsConfig, *dtlsConfig) {
	cr := vGetCreds()
	var c, sv *dtlsConfig
	switch s.Suite {
	case "psk":
		c, sv = vPSKPair(TLS_PSK_WITH_AES_128_GCM_SHA256)
	case "ecdhepsk":
		c, sv = vPSKPair(TLS_ECDHE_PSK_WITH_AES_128_CBC_SHA256)
	default:
		c, sv = vCertPair()
		c.Certificates = []tls.Certificate{cr.Client}
		sv.ClientCAs = cr.Pool
	}
	sv.ClientAuth = ClientAuthType(s.Policy)
	c.InsecureSkipVerify = s.Skip
	c03Version(c, s.Ver)
	c03Version(sv, s.Ver)
	if s.MTU > 0 {
		c.MTU, sv.MTU = s.MTU, s.MTU
	}
	wrongPSK := func([]byte) ([]byte, error) { return []byte{0xAB, 0xC1, 0x24}, nil }
	signer := func(k crypto.PrivateKey) crypto.Signer { return k.(crypto.Signer) } //nolint:forcetypeassert
	if s.Rogue == "scheme_confusion" {
		c03ConfusionConfigs(s, c, sv)
	} else if s.Rogue == "server_name" || s.Rogue == "empty_psk" || s.Rogue == "psk_only_13" ||
		strings.HasPrefix(s.Rogue, "ack_") {
		c03ExtConfigs(s, &c, &sv, obs)
	} else if s.Honest == "client" { // rogue server
		switch s.Rogue {
		case "honest":
		case "wrong_ca":
			sv.Certificates = []tls.Certificate{cr.RogueSrv}
		case "client_other_roots":
			c.RootCAs = cr.OtherCA
		case "wrong_name":
			sv.Certificates = []tls.Certificate{cr.WrongName}
		case "name_mismatch":
			c.ServerName = "other.verif"
		case "expired":
			sv.Certificates = []tls.Certificate{cr.Expired}
		case "selfsigned":
			sv.Certificates = []tls.Certificate{c03SelfSigned()}
		case "substituted":
			sv.Certificates = []tls.Certificate{c03WithKey(cr.Server, cr.RogueSrv.PrivateKey)}
		case "garbage_sig":
			sv.Certificates = []tls.Certificate{c03WithKey(cr.Server, c03Signer{signer(cr.Server.PrivateKey), "garbage"})}
		case "sign_other":
			sv.Certificates = []tls.Certificate{c03WithKey(cr.Server, c03Signer{signer(cr.Server.PrivateKey), "other"})}
		case "bad_scheme":
			// the verifier's list excludes the scheme of the (genuine) server key (Ed25519)
			c.SignatureSchemes = []tls.SignatureScheme{tls.ECDSAWithP256AndSHA256}
		case "wrong_psk":
			sv.psk = wrongPSK
		default:
			panic("unknown rogue " + s.Rogue)
		}
	} else { // rogue client
		switch s.Rogue {
		case "honest":
		case "no_cert":
			c.Certificates = nil
		case "rogue_ca":
			c.Certificates = []tls.Certificate{cr.RogueCli}
		case "expired":
			c.Certificates = []tls.Certificate{cr.Expired}
		case "substituted":
			c.Certificates = []tls.Certificate{c03WithKey(cr.Client, cr.RogueCli.PrivateKey)}
		case "garbage_sig":
			c.Certificates = []tls.Certificate{c03WithKey(cr.Client, c03Signer{signer(cr.Client.PrivateKey), "garbage"})}
		case "sign_other":
			c.Certificates = []tls.Certificate{c03WithKey(cr.Client, c03Signer{signer(cr.Client.PrivateKey), "other"})}
		case "bad_scheme":
			// the server's list excludes Ed25519 although its CertificateRequest names it
			sv.Certificates = []tls.Certificate{c03SelfSigned()}
			sv.SignatureSchemes = []tls.SignatureScheme{tls.ECDSAWithP256AndSHA256}
			sv.CertificateRequestMessageHook = func(m handshake.MessageCertificateRequest) handshake.Message {
				m.SignatureHashAlgorithms = append(append(m.SignatureHashAlgorithms[:0:0], m.SignatureHashAlgorithms...),
					c03Ed25519Alg())
				return &m
			}
			c.InsecureSkipVerify = true
		case "wrong_psk":
			c.psk = wrongPSK
		default:
			panic("unknown rogue " + s.Rogue)
		}
	}
	if s.Honest == "server" && len(c.Certificates) > 0 {
		forced := c.Certificates[0]
		c.getClientCertificate = func(*CertificateRequestInfo) (*tls.Certificate, error) { return &forced, nil }
	}
	h := c
	if s.Honest == "server" {
		h = sv
	}
	switch s.VPC {
	case "ok":
		h.VerifyPeerCertificate = func([][]byte, [][]*x509.Certificate) error { obs.VPCCalls++; return nil }
	case "reject":
		h.VerifyPeerCertificate = func([][]byte, [][]*x509.Certificate) error { obs.VPCCalls++; return errC03Reject }
	}
	switch s.VC {
	case "ok":
		h.verifyConnection = func(*State) error { obs.VCCalls++; return nil }
	case "reject":
		h.verifyConnection = func(*State) error { obs.VCCalls++; return errC03Reject }
	}

	return c, sv
}

func c03Class(p *vPeer) (string, string) {
	if !p.handshakeDone() {
		return "hang", ""
	}
	if p.Err == nil {
		return "ok", ""
	}
	var ae *alertError
	if errors.As(p.Err, &ae) {
		return fmt.Sprintf("alert:%d", int(ae.Description)), p.Err.Error()
	}

	return "local", p.Err.Error()
}

func c03WireAlerts(n *vNet) []c03Alert {
	out := []c03Alert{}
	for _, d := range n.since(0) {
		for _, r := range vParseDatagram(d.Data, 0) {
			if r.CT == int(protocol.ContentTypeAlert) && r.Epoch == 0 && !r.Uni && len(r.Raw) >= 15 {
				out = append(out, c03Alert{From: d.From, Level: int(r.Raw[13]), Desc: int(r.Raw[14])})
			}
		}
	}

	return out
}

func runC03(t *testing.T, scn c03Scn) c03Obs {
	t.Helper()
	obs := c03Obs{Kind: "c03", Scn: scn, HonestAlert: -1}
	// the bubble's clock starts at 2000-01-01T00:00:00Z, exactly the NotAfter of the expired
	// certificate: move on so that it is expired (all other lab certificates run until 2100)
	time.Sleep(time.Hour)
	ccfg, scfg := scn.configs(&obs)
	if scn.Tamper != "" {
		if c03TamperInstall == nil {
			t.Fatalf("tamper scenario without tamper overlay")
		}
		defer c03TamperInstall(scn, &obs.TamperHit)()
	}
	if scn.Rogue == "psk_only_13" {
		// the honest side may refuse its own configuration before any datagram is sent
		if err := validateConfig(ccfg); err != nil {
			obs.CRes, obs.CErr, obs.SRes, obs.HonestAlert = "local", err.Error(), "hang", 255

			return obs
		}
	}
	lab := newLab(t, ccfg, scfg)
	defer lab.close()
	c03AttackerConn = lab.Client.Conn
	defer func() { c03AttackerConn = nil }()
	c03SilentRelease = make(chan struct{})
	c03AckSent = 0
	defer close(c03SilentRelease) // runs before lab.close: lets a rogue that "went silent" go
	lab.Pump.run(lab.bothDone, 25*time.Second)
	obs.AckSent = c03AckSent
	obs.CRes, obs.CErr = c03Class(lab.Client)
	obs.SRes, obs.SErr = c03Class(lab.Server)
	honest, rogue := lab.peer(scn.Honest), lab.other(scn.Honest)
	if honest.handshakeDone() && honest.Err == nil {
		if st, ok := honest.Conn.ConnectionState(); ok {
			obs.PeerCerts = len(st.PeerCertificates)
		}
	}
	// application data: whoever believes to be established writes; everybody who can reads
	for _, p := range []*vPeer{honest, rogue} {
		if p.handshakeDone() && p.Err == nil {
			p.startReader()
		}
	}
	if rogue.handshakeDone() && rogue.Err == nil {
		_, err := rogue.Conn.Write([]byte("rogue-data"))
		obs.RogueWrote = err == nil
	}
	if honest.handshakeDone() && honest.Err == nil {
		_, err := honest.Conn.Write([]byte("honest-secret"))
		obs.HonestWrote = err == nil
	}
	if obs.RogueWrote || obs.HonestWrote {
		lab.Pump.run(func() bool { return false }, 3*time.Second)
	}
	obs.HonestReads, obs.RogueReads = len(honest.reads()), len(rogue.reads())
	// a late alert may turn a side that returned nil into a closed connection; re-read classes of
	// sides that were still running
	if obs.CRes == "hang" {
		obs.CRes, obs.CErr = c03Class(lab.Client)
	}
	if obs.SRes == "hang" {
		obs.SRes, obs.SErr = c03Class(lab.Server)
	}
	obs.Wire = c03WireAlerts(lab.Net)
	var la *alert.Alert
	var ae *alertError
	switch {
	case honest.handshakeDone() && honest.Err != nil && !errors.As(honest.Err, &ae) && errors.As(honest.Err, &la):
		obs.HonestAlert = int(la.Description)
	case rogue.handshakeDone() && rogue.Err != nil && errors.As(rogue.Err, &ae):
		obs.HonestAlert = int(ae.Description)
	default:
		for _, w := range obs.Wire {
			if w.From == scn.Honest {
				obs.HonestAlert = w.Desc

				break
			}
		}
	}

	return obs
}

// fixed self-signed server certificate (the lab's SelfSrv is generated anew in every process)
func c03SelfSigned() tls.Certificate { return vKeyPair(c03PemSelfSigned[0], c03PemSelfSigned[1]) }

func c03ID(s c03Scn) string {
	id := fmt.Sprintf("v%d/%s/h=%s/%s/p%d/skip=%v/vpc=%s/vc=%s/t=%s",
		s.Ver, s.Suite, s.Honest, s.Rogue, s.Policy, s.Skip, s.VPC, s.VC, s.Tamper)
	if s.MTU > 0 {
		id += fmt.Sprintf("/mtu=%d", s.MTU)
	}
	if s.Key != "" {
		id += "/key=" + s.Key + "/claim=" + s.Claim
	}
	if s.SName != "" {
		id += "/name=" + s.SName + "/cert=" + s.SCert
	}

	return id
}

// second output stream (the tamper leg runs in the same go test invocation)
func c03OpenOut(t *testing.T, env string) *vOut {
	t.Helper()
	p := os.Getenv(env)
	if p == "" {
		p = os.DevNull
	}
	f, err := os.Create(p)
	if err != nil {
		t.Fatalf("%s: %v", env, err)
	}
	t.Cleanup(func() { _ = f.Close() })

	return &vOut{f: f}
}

func c03Scenarios() []c03Scn {
	var out []c03Scn
	cb := []string{"", "ok", "reject"}
	add := func(s c03Scn) {
		s.ID = c03ID(s)
		out = append(out, s)
		if vIsThorough() {
			s.MTU = 200
			s.ID = c03ID(s)
			out = append(out, s)
		}
	}
	srvRogues := []string{
		"honest", "wrong_ca", "client_other_roots", "wrong_name", "name_mismatch", "expired", "selfsigned",
		"substituted", "garbage_sig", "sign_other", "bad_scheme",
	}
	cliRogues := []string{"honest", "no_cert", "rogue_ca", "expired", "substituted", "garbage_sig", "sign_other", "bad_scheme"}
	for _, ver := range []int{12, 13} {
		// honest client, rogue server (certificate suites)
		for _, r := range srvRogues {
			if ver == 13 && r == "bad_scheme" {
				continue // a 1.3 server picks from the client's list: not expressible by configuration
			}
			for _, skip := range []bool{false, true} {
				for _, vpc := range cb {
					for _, vc := range cb {
						// the client-auth policy of the (rogue) server is irrelevant for the client's
						// decision; alternate two values to keep both flight shapes in the run
						pol := 0
						if (len(r)+len(vpc)+len(vc))%2 == 1 {
							pol = 4
						}
						add(c03Scn{Ver: ver, Suite: "cert", Honest: "client", Rogue: r, Policy: pol, Skip: skip, VPC: vpc, VC: vc})
					}
				}
			}
		}
		// honest server, rogue client (certificate suites)
		for _, r := range cliRogues {
			if ver == 13 && r == "bad_scheme" {
				continue
			}
			for pol := 0; pol <= 4; pol++ {
				for _, vpc := range cb {
					for _, vc := range cb {
						add(c03Scn{Ver: ver, Suite: "cert", Honest: "server", Rogue: r, Policy: pol, VPC: vpc, VC: vc})
					}
				}
			}
		}
	}
	// PSK suites (DTLS 1.2 only: the DTLS 1.3 stack has no PSK mode)
	for _, suite := range []string{"psk", "ecdhepsk"} {
		for _, hs := range []string{"client", "server"} {
			for _, r := range []string{"honest", "wrong_psk"} {
				for pol := 0; pol <= 4; pol++ {
					if hs == "client" && pol != 0 && pol != 3 {
						continue // a server that demands certificates rejects the (honest) PSK client itself
					}
					for _, vc := range cb {
						add(c03Scn{Ver: 12, Suite: suite, Honest: hs, Rogue: r, Policy: pol, VC: vc})
					}
				}
			}
		}
	}

	for _, sc := range c03ConfusionScenarios() {
		add(sc)
	}
	for _, sc := range c03ExtScenarios() {
		add(sc)
	}

	return out
}

func TestVerifC03(t *testing.T) {
	out := newVOut(t)
	for _, scn := range c03Scenarios() {
		scn := scn
		var obs c03Obs
		vBubble(t, func(t *testing.T) { obs = runC03(t, scn) })
		out.emit(obs)
	}
}
